"""C06 - pack/unpack pairs of glm/packing.hpp and glm/gtc/packing.hpp: re-pack identity, layout, quantisation, clamping, monotonicity."""
from props.common import *
LEVEL = 'proof'
CLAIM = ("Every pack/unpack pair of glm/packing.hpp and glm/gtc/packing.hpp is executed symbolically from its clang IR. Per field of every normalised format (incl. the packUnorm/packSnorm templates) the solver shows: "
         "pack(unpack(p)) keeps every canonical code, unpack(pack(unpack(p))) == unpack(p) for every word, the packed code equals round(clamp(x)*scale) in IEEE semantics and (independently, "
         "in exact widened arithmetic) lies within half a quantisation step of x, out-of-range values clamp to the end codes, packing is monotone, unpack is code/scale up to one ulp with exact end points, "
         "and component k sits in field k with component 0 in the least significant bits. Integer/half/double formats: pure layout and lossless round trips. Small-float format F2x11_1x10: decode value per code, "
         "truncation within one mantissa step against SMT-LIB to_fp(5,7)/(5,6), special codes, out-of-range behaviour, monotonicity. Shared-exponent format F3x9_E1x5: decode value per code and the pack/unpack "
         "relations that are decidable with contract models of powf/log2f. RGBM: round trip and alpha quantisation in rounding-erased arithmetic.")
F32 = z3.Float32(); F64 = z3.Float64()
SPLIT_BITS = 9          # fields at least this wide: queries over a float component are split into its sign/exponent classes
HS16_MAXEXP = 120       # independent half-step check of 16-bit fields: decided for biased exponents <= this (|x| < 2^-6)

# ----------------------------------------------------------------------------- format tables (transcribed from the documentation, not from the code)
class Fmt:
    """normalised format: fields = [(bits, kind 'u'|'s', scale)], first component first = least significant field; word=None: element-wise template"""
    def __init__(s, nm, word, fields, pack=None, unpack=None, ft='float', ct=None):
        s.nm = nm; s.word = word; s.fields = list(fields); s.L = len(s.fields); s.ft = ft; s.fw = 32 if ft == 'float' else 64; s.ct = ct
        s.offs = []; o = 0
        for (b, k, sc) in s.fields: s.offs.append(o); o += b
        s.pack = pack or 'glm::pack' + nm; s.unpack = unpack or 'glm::unpack' + nm
    def incode(s, i, k): return i[0][k] if s.word is None else fld(i[0][0], s.offs[k], s.fields[k][0])
    def outcode(s, o, k, j=0): return o[j][k] if s.word is None else fld(o[0][j], s.offs[k], s.fields[k][0])
    def wbits(s): return s.L * s.fields[0][0] if s.word is None else ct_bits(s.word)
def fld(word, off, bits): return z3.Extract(off + bits - 1, off, word)
U8 = (8, 'u', 255); S8 = (8, 's', 127); U16 = (16, 'u', 65535); S16 = (16, 's', 32767)
NORM = {}
def _n(nm, w, *f): NORM[nm] = Fmt(nm, w, f)
_n('Unorm2x16', 'uint32_t', U16, U16); _n('Snorm2x16', 'uint32_t', S16, S16); _n('Unorm4x8', 'uint32_t', U8, U8, U8, U8); _n('Snorm4x8', 'uint32_t', S8, S8, S8, S8)
_n('Unorm1x8', 'uint8_t', U8); _n('Unorm2x8', 'uint16_t', U8, U8); _n('Snorm1x8', 'uint8_t', S8); _n('Snorm2x8', 'uint16_t', S8, S8)
_n('Unorm1x16', 'uint16_t', U16); _n('Unorm4x16', 'uint64_t', U16, U16, U16, U16); _n('Snorm1x16', 'uint16_t', S16); _n('Snorm4x16', 'uint64_t', S16, S16, S16, S16)
_n('Snorm3x10_1x2', 'uint32_t', (10, 's', 511), (10, 's', 511), (10, 's', 511), (2, 's', 1)); _n('Unorm3x10_1x2', 'uint32_t', (10, 'u', 1023), (10, 'u', 1023), (10, 'u', 1023), (2, 'u', 3))
_n('Unorm2x4', 'uint8_t', (4, 'u', 15), (4, 'u', 15)); _n('Unorm4x4', 'uint16_t', (4, 'u', 15), (4, 'u', 15), (4, 'u', 15), (4, 'u', 15))
_n('Unorm1x5_1x6_1x5', 'uint16_t', (5, 'u', 31), (6, 'u', 63), (5, 'u', 31)); _n('Unorm3x5_1x1', 'uint16_t', (5, 'u', 31), (5, 'u', 31), (5, 'u', 31), (1, 'u', 1))
_n('Unorm2x3_1x2', 'uint8_t', (3, 'u', 7), (3, 'u', 7), (2, 'u', 3))
# element-wise templates packUnorm<uintN>(vec<L,floatT>) / packSnorm<intN>(vec<L,floatT>)
for (tn, ct, fdesc, L, ft) in (('tU8x3f', 'uint8_t', U8, 3, 'float'), ('tS8x2f', 'int8_t', S8, 2, 'float'), ('tU16x2f', 'uint16_t', U16, 2, 'float'), ('tS16x4f', 'int16_t', S16, 4, 'float'),
                               ('tU8x1f', 'uint8_t', U8, 1, 'float'), ('tU8x2d', 'uint8_t', U8, 2, 'double'), ('tS8x2d', 'int8_t', S8, 2, 'double')):
    pn = 'Unorm' if fdesc[1] == 'u' else 'Snorm'
    NORM[tn] = Fmt(tn, None, [fdesc] * L, pack='glm::pack%s<%s>' % (pn, ct), unpack='glm::unpack%s<%s>' % (pn, ft), ft=ft, ct=ct)

U = Unit('c06', includes=['glm/glm.hpp', 'glm/packing.hpp', 'glm/gtc/packing.hpp'])
def _arg(L, c='float', p='a'): return '%s[0]' % p if L == 1 else 'ldv<%d,%s>(%s)' % (L, c, p)
def _st(L, e, o='o'): return '%s[0] = %s;' % (o, e) if L == 1 else 'stv(%s, %s);' % (o, e)
for nm, F in NORM.items():
    L = F.L; P = F.pack; Q = F.unpack; ft = F.ft
    if F.word is not None:
        w = F.word
        U.add('pack_' + nm, [(ft, L)], [(w, 1)], 'o[0] = %s(%s);' % (P, _arg(L)))
        U.add('unpack_' + nm, [(w, 1)], [(ft, L)], _st(L, '%s(a[0])' % Q))
        U.add('rt_' + nm, [(w, 1)], [(w, 1)], 'o[0] = %s(%s(a[0]));' % (P, Q))
        U.add('uru_' + nm, [(w, 1)], [(ft, L), (ft, L)], _st(L, '%s(%s(%s(a[0])))' % (Q, P, Q)) + ' ' + _st(L, '%s(a[0])' % Q, 'o2'))
        U.add('mono_' + nm, [(ft, L), (ft, L)], [(w, 2)], 'o[0] = %s(%s); o[1] = %s(%s);' % (P, _arg(L), P, _arg(L, 'float', 'b')))
        U.add('loc_' + nm, [(w, 2)], [(ft, L), (ft, L)], _st(L, '%s(a[0])' % Q) + ' ' + _st(L, '%s(a[1])' % Q, 'o2'))
    else:
        ct = F.ct; V = 'ldv<%d,%s>(a)' % (L, ft); C = 'ldv<%d,%s>(a)' % (L, ct)
        U.add('pack_' + nm, [(ft, L)], [(ct, L)], 'stv(o, %s(%s));' % (P, V))
        U.add('unpack_' + nm, [(ct, L)], [(ft, L)], 'stv(o, %s(%s));' % (Q, C))
        U.add('rt_' + nm, [(ct, L)], [(ct, L)], 'stv(o, %s(%s(%s)));' % (P, Q, C))
        U.add('uru_' + nm, [(ct, L)], [(ft, L), (ft, L)], 'stv(o, %s(%s(%s(%s)))); stv(o2, %s(%s));' % (Q, P, Q, C, Q, C))
        U.add('mono_' + nm, [(ft, L), (ft, L)], [(ct, L), (ct, L)], 'stv(o, %s(%s)); stv(o2, %s(ldv<%d,%s>(b)));' % (P, V, P, L, ft))
        U.add('loc_' + nm, [(ct, L), (ct, L)], [(ft, L), (ft, L)], 'stv(o, %s(%s)); stv(o2, %s(ldv<%d,%s>(b)));' % (Q, C, Q, L, ct))

# integer formats: name -> (word ctype, component ctype, L)
INTF = {'Int2x8': ('int16_t', 'int8_t', 2), 'Uint2x8': ('uint16_t', 'uint8_t', 2), 'Int4x8': ('int32_t', 'int8_t', 4), 'Uint4x8': ('uint32_t', 'uint8_t', 4),
        'Int2x16': ('int', 'int16_t', 2), 'Int4x16': ('int64_t', 'int16_t', 4), 'Uint2x16': ('unsigned', 'uint16_t', 2), 'Uint4x16': ('uint64_t', 'uint16_t', 4),
        'Int2x32': ('int64_t', 'int32_t', 2), 'Uint2x32': ('uint64_t', 'uint32_t', 2)}
for nm, (w, c, L) in INTF.items():
    U.add('pack_' + nm, [(c, L)], [(w, 1)], 'o[0] = glm::pack%s(ldv<%d,%s>(a));' % (nm, L, c))
    U.add('unpack_' + nm, [(w, 1)], [(c, L)], 'stv(o, glm::unpack%s(a[0]));' % nm)
    U.add('rt_' + nm, [(w, 1)], [(w, 1)], 'o[0] = glm::pack%s(glm::unpack%s(a[0]));' % (nm, nm))
    U.add('ur_' + nm, [(c, L)], [(c, L)], 'stv(o, glm::unpack%s(glm::pack%s(ldv<%d,%s>(a))));' % (nm, nm, L, c))
for nm, c in (('I3x10_1x2', 'int'), ('U3x10_1x2', 'unsigned')):
    U.add('pack_' + nm, [(c, 4)], [('uint32_t', 1)], 'o[0] = glm::pack%s(ldv<4,%s>(a));' % (nm, c))
    U.add('unpack_' + nm, [('uint32_t', 1)], [(c, 4)], 'stv(o, glm::unpack%s(a[0]));' % nm)
    U.add('rt_' + nm, [('uint32_t', 1)], [('uint32_t', 1)], 'o[0] = glm::pack%s(glm::unpack%s(a[0]));' % (nm, nm))
    U.add('ur_' + nm, [(c, 4)], [(c, 4)], 'stv(o, glm::unpack%s(glm::pack%s(ldv<4,%s>(a))));' % (nm, nm, c))
U.add('pack_Double2x32', [('uint32_t', 2)], [('double', 1)], 'o[0] = glm::packDouble2x32(ldv<2,uint32_t>(a));')
U.add('unpack_Double2x32', [('double', 1)], [('uint32_t', 2)], 'stv(o, glm::unpackDouble2x32(a[0]));')
U.add('rt_Double2x32', [('double', 1)], [('double', 1)], 'o[0] = glm::packDouble2x32(glm::unpackDouble2x32(a[0]));')
U.add('ur_Double2x32', [('uint32_t', 2)], [('uint32_t', 2)], 'stv(o, glm::unpackDouble2x32(glm::packDouble2x32(ldv<2,uint32_t>(a))));')
# half formats (the conversion itself is C07): layout against the scalar functions and re-pack
HALF = {'Half1x16': ('uint16_t', 1), 'Half2x16': ('uint32_t', 2), 'Half4x16': ('uint64_t', 4)}
for nm, (w, L) in HALF.items():
    U.add('rt_' + nm, [(w, 1)], [(w, 1)], 'o[0] = glm::pack%s(glm::unpack%s(a[0]));' % (nm, nm))
    if L > 1:
        U.add('lay_' + nm, [('float', L)], [(w, 1), ('uint16_t', L)], 'o[0] = glm::pack%s(ldv<%d,float>(a)); for(int k=0;k<%d;++k) o2[k] = glm::packHalf1x16(a[k]);' % (nm, L, L))
        U.add('unlay_' + nm, [(w, 1)], [('float', L), ('float', L)], 'stv(o, glm::unpack%s(a[0])); for(int k=0;k<%d;++k) o2[k] = glm::unpackHalf1x16(uint16_t(a[0] >> (16*k)));' % (nm, L))
for L in (1, 2, 3, 4):
    U.add('lay_HalfL%d' % L, [('float', L)], [('uint16_t', L), ('uint16_t', L)], 'stv(o, glm::packHalf(ldv<%d,float>(a))); for(int k=0;k<%d;++k) o2[k] = glm::packHalf1x16(a[k]);' % (L, L))
    U.add('unlay_HalfL%d' % L, [('uint16_t', L)], [('float', L), ('float', L)], 'stv(o, glm::unpackHalf(ldv<%d,uint16_t>(a))); for(int k=0;k<%d;++k) o2[k] = glm::unpackHalf1x16(a[k]);' % (L, L))
    U.add('rt_HalfL%d' % L, [('uint16_t', L)], [('uint16_t', L)], 'stv(o, glm::packHalf(glm::unpackHalf(ldv<%d,uint16_t>(a))));' % L)
# small floats
U.add('pack_F2x11_1x10', [('float', 3)], [('uint32_t', 1)], 'o[0] = glm::packF2x11_1x10(ldv<3,float>(a));')
U.add('unpack_F2x11_1x10', [('uint32_t', 1)], [('float', 3)], 'stv(o, glm::unpackF2x11_1x10(a[0]));')
U.add('rt_F2x11_1x10', [('uint32_t', 1)], [('uint32_t', 1)], 'o[0] = glm::packF2x11_1x10(glm::unpackF2x11_1x10(a[0]));')
U.add('uru_F2x11_1x10', [('uint32_t', 1)], [('float', 3), ('float', 3)], 'stv(o, glm::unpackF2x11_1x10(glm::packF2x11_1x10(glm::unpackF2x11_1x10(a[0])))); stv(o2, glm::unpackF2x11_1x10(a[0]));')
U.add('pu_F2x11_1x10', [('float', 3)], [('float', 3)], 'stv(o, glm::unpackF2x11_1x10(glm::packF2x11_1x10(ldv<3,float>(a))));')
U.add('mono_F2x11_1x10', [('float', 3), ('float', 3)], [('uint32_t', 2)], 'o[0] = glm::packF2x11_1x10(ldv<3,float>(a)); o[1] = glm::packF2x11_1x10(ldv<3,float>(b));')
U.add('pack_F3x9_E1x5', [('float', 3)], [('uint32_t', 1)], 'o[0] = glm::packF3x9_E1x5(ldv<3,float>(a));')
U.add('unpack_F3x9_E1x5', [('uint32_t', 1)], [('float', 3)], 'stv(o, glm::unpackF3x9_E1x5(a[0]));')
U.add('rt_F3x9_E1x5', [('uint32_t', 1)], [('uint32_t', 1)], 'o[0] = glm::packF3x9_E1x5(glm::unpackF3x9_E1x5(a[0]));')
U.add('libm_pow2', [('float', 1)], [('float', 1)], 'o[0] = std::pow(2.0f, a[0]);')
U.add('libm_log2', [('float', 1)], [('float', 1)], 'o[0] = std::log2(a[0]);')
for t in ('float', 'double'):
    U.add('rgbm_pack_' + t, [(t, 3)], [(t, 4)], 'stv(o, glm::packRGBM(ldv<3,%s>(a)));' % t)
    U.add('rgbm_rt_' + t, [(t, 3)], [(t, 3)], 'stv(o, glm::unpackRGBM(glm::packRGBM(ldv<3,%s>(a))));' % t)
    U.add('rgbm_unpack_' + t, [(t, 4)], [(t, 3)], 'stv(o, glm::unpackRGBM(ldv<4,%s>(a)));' % t)
def units(tier): return [U]

# ----------------------------------------------------------------------------- specification helpers (normalised formats)
def lo_of(kind): return 0.0 if kind == 'u' else -1.0
def code_formula(xb, bits, kind, scale, rm):
    """GLSL 4.20 8.4: round(clamp(x, lo, 1) * scale) evaluated in the IEEE format of x, converted to the field's integer type"""
    w = xb.size(); x = fpof(xb); lo = FPV(lo_of(kind), w); hi = FPV(1.0, w)
    cl = z3.If(z3.fpLT(x, lo), lo, z3.If(z3.fpGT(x, hi), hi, x))
    r = z3.fpRoundToIntegral(rm, z3.fpMul(RNE, cl, FPV(float(scale), w)))
    return z3.fpToUBV(RTZ, r, z3.BitVecSort(bits)) if kind == 'u' else z3.fpToSBV(RTZ, r, z3.BitVecSort(bits))
def code_to_fp(c, kind, srt): return z3.fpUnsignedToFP(RNE, c, srt) if kind == 'u' else z3.fpSignedToFP(RNE, c, srt)
def slack_of(scale): return 0.5 + scale * 2.0 ** -24
def halfstep(xb, c, kind, scale, side):
    """|x*scale - c| <= 1/2 (+ half an ulp of the binary32 product). Exact: a binary32 x times an integer < 2^16 is exact in binary64, and c +- const is exact."""
    P = z3.fpMul(RNE, z3.fpFPToFP(RNE, fp32(xb), F64), z3.FPVal(float(scale), F64)); C = code_to_fp(c, kind, F64); s = z3.FPVal(slack_of(scale), F64)
    return z3.fpLEQ(z3.fpSub(RNE, C, s), P) if side == 'lo' else z3.fpLEQ(P, z3.fpAdd(RNE, C, s))
def in_range(xb, kind): return z3.And(z3.fpGEQ(fpof(xb), FPV(lo_of(kind), xb.size())), z3.fpLEQ(fpof(xb), FPV(1.0, xb.size())))
def notnan(xb): return z3.Not(is_nan(xb))
def maxcode(bits, kind, scale): return z3.BitVecVal(scale, bits)
def mincode(bits, kind, scale): return z3.BitVecVal(0 if kind == 'u' else -scale, bits)
def canonical(c, bits, kind): return z3.BoolVal(True) if kind == 'u' else c != z3.BitVecVal(1 << (bits - 1), bits)
def decode_bound(c, kind, scale, rm, w=32):
    """code/scale rounded in direction rm, signed formats clamped below at -1"""
    q = z3.fpDiv(rm, code_to_fp(c, kind, FSORT[w]), FPV(float(scale), w))
    return q if kind == 'u' else z3.If(z3.fpLT(q, FPV(-1.0, w)), FPV(-1.0, w), q)
def code_le(a, b, kind): return z3.ULE(a, b) if kind == 'u' else a <= b
def ordv(b):
    """position of a float pattern in the IEEE total order (+0 == -0) as a signed integer"""
    w = b.size(); mag = z3.ZeroExt(4, z3.Extract(w - 2, 0, b)); return z3.If(z3.Extract(w - 1, w - 1, b) == 1, -mag, mag)
def one_bits(w, neg=False): return (0x3f800000 if w == 32 else 0x3ff0000000000000) | ((1 << (w - 1)) if neg else 0)

def exp_classes(kind):
    """sign/exponent classes of a binary32 pattern that together cover every non-NaN value; inside one class clamp() is decided by the bits alone"""
    mag = lambda xb: z3.Extract(30, 0, xb); sgn = lambda xb: z3.Extract(31, 31, xb)
    cls = [('ge1', lambda xb: z3.And(sgn(xb) == 0, z3.UGE(mag(xb), 0x3f800000), z3.ULE(mag(xb), 0x7f800000)))]
    for e in range(127): cls.append(('e%d' % e, lambda xb, e=e: z3.And(sgn(xb) == 0, z3.Extract(30, 23, xb) == e)))
    if kind == 'u':
        cls.append(('neg', lambda xb: z3.And(sgn(xb) == 1, z3.ULE(mag(xb), 0x7f800000))))
    else:
        cls.append(('le-1', lambda xb: z3.And(sgn(xb) == 1, z3.UGE(mag(xb), 0x3f800000), z3.ULE(mag(xb), 0x7f800000))))
        for e in range(127): cls.append(('n%d' % e, lambda xb, e=e: z3.And(sgn(xb) == 1, z3.Extract(30, 23, xb) == e)))
    return cls
def prove_split(S, fname, spec, pre, labels, classes, cls_arg, bounds, timeout=None, side=True):
    """prove each labelled goal of spec once per class (the classes partition the precondition); replayable like check_fn"""
    res = sym_call(U, fname); allv = [t for r in res.ins for t in r]; goals = dict(spec(res.ins, res.outs)); hy0 = list(pre(res.ins)) + res.axioms
    for label in labels:
        for cn, cf in classes:
            on = 'c06.%s.%s.%s' % (fname, label, cn)
            S.prove(on, goal_term(goals[label]), [cf(cls_arg(res.ins))] + hy0, timeout=timeout or S.cap(60, 180), replay=S._replayer(res, (spec, label), pre, U, fname, 'fp', on), vars_=allv,
                    functions=['w_' + fname], bounds=bounds + '; class ' + cn)
    if side:
        groups = {}
        for kd, cond, d in res.obligations: groups.setdefault((kd, d), []).append(cond)
        for (kd, d), conds in groups.items():
            S.prove('c06.%s.%s[%s]' % (fname, kd, d[:50]), z3.Not(z3.Or(*conds)) if len(conds) > 1 else z3.Not(conds[0]), hy0, timeout=S.cap(120, 300), kind=kd, vars_=allv,
                    replay=S._replayer(res, None, pre, U, fname, 'fp', 'side', side_kind=kd), functions=['w_' + fname], bounds=bounds)

# ----------------------------------------------------------------------------- jobs (normalised formats)
def job_quant(nm, sel=None):
    """layout + quantisation formula + clamping of pack"""
    F = NORM[nm]; fl = F.fields; sel = list(range(F.L)) if sel is None else sel
    def run(S):
        small = [k for k in sel if fl[k][0] < SPLIT_BITS or F.fw == 64]; big = [k for k in sel if k not in small]
        def spec(i, o, ks=None):
            g = []
            for k in (small if ks is None else ks):
                b, kind, sc = fl[k]; c = F.outcode(o, k); xb = i[0][k]; w = xb.size()
                g.append(('formula[%d]' % k, z3.Or(c == code_formula(xb, b, kind, sc, RNA), c == code_formula(xb, b, kind, sc, RNE))))
                g.append(('clamp-high[%d]' % k, z3.Implies(z3.fpGEQ(fpof(xb), FPV(1.0, w)), c == maxcode(b, kind, sc))))
                g.append(('clamp-low[%d]' % k, z3.Implies(z3.fpLEQ(fpof(xb), FPV(lo_of(kind), w)), c == mincode(b, kind, sc))))
            return g
        pre = lambda i: [notnan(x) for x in i[0]]
        def mut(i, o):
            k = (small or big)[0]; b, kind, sc = fl[k]; c = F.outcode(o, k)
            return [('scale+1', c == code_formula(i[0][k], b, kind, sc + 1, RNA))] + ([('next-component', c == code_formula(i[0][(k + 1) % F.L], b, kind, sc, RNA))] if F.L > 1 else [])
        S.check_fn(U, 'pack_' + nm, spec, pre, timeout=S.cap(150, 400), mutant=mut if small else None, side=not big, bounds='every non-NaN component value (all bit patterns per component), other components free')
        for k in big:
            prove_split(S, 'pack_' + nm, lambda i, o, k=k: spec(i, o, [k]), pre, ['formula[%d]' % k, 'clamp-high[%d]' % k, 'clamp-low[%d]' % k], exp_classes(fl[k][1]), lambda i, k=k: i[0][k],
                        'component %d split into sign/exponent classes covering all non-NaN floats' % k, side=(k == big[0]))
    return run

def job_halfstep(nm, sel=None):
    """independent of the formula: |x*scale - code| <= 1/2 + half an ulp of the binary32 product, in exact binary64 arithmetic"""
    F = NORM[nm]; fl = F.fields; sel = list(range(F.L)) if sel is None else sel
    def run(S):
        for k in sel:
            b, kind, sc = fl[k]
            def spec(i, o, k=k, b=b, kind=kind, sc=sc):
                c = F.outcode(o, k)
                return [('within-half-step-lo[%d]' % k, halfstep(i[0][k], c, kind, sc, 'lo')), ('within-half-step-hi[%d]' % k, halfstep(i[0][k], c, kind, sc, 'hi'))]
            if b < 12:
                pre = lambda i, k=k, kind=kind: [notnan(x) for x in i[0]] + [in_range(i[0][k], kind)]
                def mut(i, o, k=k, b=b, kind=kind, sc=sc):
                    return [('quarter-step', z3.fpLEQ(z3.fpSub(RNE, code_to_fp(F.outcode(o, k), kind, F64), z3.FPVal(0.25, F64)), z3.fpMul(RNE, z3.fpFPToFP(RNE, fp32(i[0][k]), F64), z3.FPVal(float(sc), F64))))]
                S.check_fn(U, 'pack_' + nm, spec, pre, timeout=S.cap(200, 500), side=False, name='c06.pack_%s.hs%d' % (nm, k), validate=0, mutant=mut,
                           bounds='component %d in [%g,1]; tolerance 1/2 + %g code units (binary32 rounding of the product)' % (k, lo_of(kind), sc * 2.0 ** -24))
            else:
                cls = [('%s%d' % ('n' if sg else 'e', e), (lambda xb, e=e, sg=sg: z3.And(z3.Extract(31, 31, xb) == sg, z3.Extract(30, 23, xb) == e))) for sg in ((0,) if kind == 'u' else (0, 1)) for e in range(HS16_MAXEXP + 1)]
                prove_split(S, 'pack_' + nm, spec, lambda i: [], ['within-half-step-lo[%d]' % k, 'within-half-step-hi[%d]' % k], cls, lambda i, k=k: i[0][k], 'component %d, |x| < 2^%d, by sign/exponent class' % (k, HS16_MAXEXP - 126), timeout=S.cap(150, 400), side=False)
    return run
def job_mono(nm, sel=None):
    F = NORM[nm]; fl = F.fields
    sel = [k for k in (range(F.L) if sel is None else sel)]
    def run(S):
        def spec(i, o): return [('monotone[%d]' % k, code_le(F.outcode(o, k, 0), F.outcode(o, k, 1), fl[k][1])) for k in sel]
        pre = lambda i: [notnan(x) for x in i[0] + i[1]] + [z3.fpLEQ(fpof(i[0][k]), fpof(i[1][k])) for k in range(F.L)]
        k0 = sel[0]
        S.check_fn(U, 'mono_' + nm, spec, pre, timeout=S.cap(200, 600), side=False, mutant=lambda i, o: [('strict', z3.Not(code_le(F.outcode(o, k0, 1), F.outcode(o, k0, 0), fl[k0][1])))],
                   bounds='all pairs of non-NaN vectors with x_k <= y_k')
    return run

def code_classes(bits, nsplit):
    """partition of the codes of one field by their top nsplit bits"""
    if nsplit == 0: return [('all', lambda c: z3.BoolVal(True))]
    return [('top%d' % t, lambda c, t=t: z3.Extract(bits - 1, bits - nsplit, c) == t) for t in range(1 << nsplit)]
def job_repack(nm, sel=None):
    F = NORM[nm]; fl = F.fields; sel = list(range(F.L)) if sel is None else sel
    def run(S):
        small = [k for k in sel if fl[k][0] < 12]; big = [k for k in sel if k not in small]
        def spec(i, o, ks=None):
            g = []
            for k in (small if ks is None else ks):
                b, kind, sc = fl[k]; c = F.incode(i, k); r = F.outcode(o, k)
                g.append(('repack[%d]' % k, z3.Implies(canonical(c, b, kind), r == c)))
                if kind == 's': g.append(('most-negative-to-min[%d]' % k, z3.Implies(z3.Not(canonical(c, b, kind)), r == mincode(b, kind, sc))))
            return g
        def mut(i, o):
            k = sel[0]; b, kind, sc = fl[k]; c = F.incode(i, k); r = F.outcode(o, k)
            return [('also-noncanonical', r == c)] if kind == 's' else [('plus-one', r == c + 1)]
        S.check_fn(U, 'rt_' + nm, spec, timeout=S.cap(200, 500), mutant=mut if small else None, bounds='every word (all 2^%d), per field' % F.wbits())
        for k in big:
            labels = ['repack[%d]' % k] + (['most-negative-to-min[%d]' % k] if fl[k][1] == 's' else [])
            prove_split(S, 'rt_' + nm, lambda i, o, k=k: spec(i, o, [k]), lambda i: [], labels, code_classes(fl[k][0], 2), lambda i, k=k: F.incode(i, k), 'every word, field %d split by its top 2 bits' % k, timeout=S.cap(200, 500), side=False)
        # unpack(pack(unpack(p))) == unpack(p)
        def spec2(i, o, ks=None): return [('unpack-pack-unpack[%d]' % k, o[0][k].bits == o[1][k].bits) for k in (small if ks is None else ks)]
        if small: S.check_fn(U, 'uru_' + nm, spec2, timeout=S.cap(200, 500), bounds='every word (all 2^%d), per component' % F.wbits())
        if big:
            # 16-bit fields: the monolithic query needs > 3 min. Lemma chain: (a) re-pack keeps field k for canonical codes (above), (b) component k of unpack is a function of field k only (below),
            # hence unpack(pack(unpack(p)))_k == unpack(p)_k for canonical codes; (c) the non-canonical code directly.
            def loc(i, o): return [('unpack-depends-on-field-only[%d]' % k, o[0][k].bits == o[1][k].bits) for k in big]
            def wordfield(i, j, k): return i[j][k] if F.word is None else fld(i[0][j], F.offs[k], fl[k][0])
            S.check_fn(U, 'loc_' + nm, loc, lambda i: [wordfield(i, 0, k) == wordfield(i, 1, k) for k in big], timeout=S.cap(100, 300), side=False, bounds='all pairs of words that agree on the field')
            if fl[big[0]][1] == 's':
                for k in big:
                    S.check_fn(U, 'uru_' + nm, lambda i, o, k=k: spec2(i, o, [k]), lambda i, k=k: [z3.Not(canonical(F.incode(i, k), fl[k][0], fl[k][1]))], name='c06.uru_%s.noncanonical%d' % (nm, k),
                               timeout=S.cap(100, 300), side=False, validate=0, bounds='the non-canonical (most negative) code of field %d' % k)
    return run
def job_decode(nm):
    F = NORM[nm]; fl = F.fields; w = F.fw
    def run(S):
        def spec(i, o):
            g = []
            for k in range(F.L):
                b, kind, sc = fl[k]; c = F.incode(i, k); ob = o[0][k].bits
                g.append(('decode-lower[%d]' % k, ordv(z3.fpToIEEEBV(decode_bound(c, kind, sc, RTN, w))) - 1 <= ordv(ob)))
                g.append(('decode-upper[%d]' % k, ordv(ob) <= ordv(z3.fpToIEEEBV(decode_bound(c, kind, sc, RTP, w))) + 1))
                g.append(('decode-one[%d]' % k, z3.Implies(c == maxcode(b, kind, sc), ob == one_bits(w))))
                g.append(('decode-zero[%d]' % k, z3.Implies(c == 0, ob == 0)))
                if kind == 's': g.append(('decode-minus-one[%d]' % k, z3.Implies(z3.Or(c == mincode(b, kind, sc), z3.Not(canonical(c, b, kind))), ob == one_bits(w, True))))
                g.append(('decode-not-nan[%d]' % k, z3.Not(is_nan(ob))))
            return g
        def mut(i, o):
            b, kind, sc = fl[0]; c = F.incode(i, 0)
            return [('scale+1', ordv(o[0][0].bits) <= ordv(z3.fpToIEEEBV(z3.fpDiv(RTP, code_to_fp(c, kind, FSORT[w]), FPV(float(sc + 1), w)))) + 1)] + \
                   ([('next-field', ordv(z3.fpToIEEEBV(decode_bound(F.incode(i, 1), fl[1][1], fl[1][2], RTN, w))) - 1 <= ordv(o[0][0].bits))] if F.L > 1 else [])
        S.check_fn(U, 'unpack_' + nm, spec, timeout=S.cap(120, 300), mutant=mut,
                   bounds='every word; component k within one ulp of the directed roundings of field_k/scale (signed: max(.,-1)); end codes decode to exactly 0, 1, -1')
    return run

# ----------------------------------------------------------------------------- integer / double / half formats: layout and lossless round trips
def ext(x, n, signed): return z3.SignExt(n - x.size(), x) if signed else z3.ZeroExt(n - x.size(), x)
def job_int(nm):
    w, c, L = INTF[nm]; b = ct_bits(c)
    def run(S):
        S.check_fn(U, 'pack_' + nm, lambda i, o: [('field[%d]' % k, fld(o[0][0], b * k, b) == i[0][k]) for k in range(L)], mutant=lambda i, o: [('reversed', fld(o[0][0], 0, b) == i[0][L - 1])], bounds='all component values')
        S.check_fn(U, 'unpack_' + nm, lambda i, o: [('component[%d]' % k, o[0][k] == fld(i[0][0], b * k, b)) for k in range(L)], bounds='all words')
        S.check_fn(U, 'rt_' + nm, lambda i, o: [('pack(unpack(p))==p', o[0][0] == i[0][0])], bounds='all words')
        S.check_fn(U, 'ur_' + nm, lambda i, o: [('unpack(pack(v))==v[%d]' % k, o[0][k] == i[0][k]) for k in range(L)], bounds='all component values')
    return run
def job_3x10(nm):
    sg = nm[0] == 'I'; offs = [0, 10, 20, 30]; bits = [10, 10, 10, 2]
    def run(S):
        S.check_fn(U, 'pack_' + nm, lambda i, o: [('field[%d]' % k, fld(o[0][0], offs[k], bits[k]) == z3.Extract(bits[k] - 1, 0, i[0][k])) for k in range(4)],
                   mutant=lambda i, o: [('reversed', fld(o[0][0], 0, 10) == z3.Extract(9, 0, i[0][2]))], bounds='all component values (taken modulo the field width)')
        S.check_fn(U, 'unpack_' + nm, lambda i, o: [('component[%d]' % k, o[0][k] == ext(fld(i[0][0], offs[k], bits[k]), 32, sg)) for k in range(4)],
                   mutant=lambda i, o: [('other-extension', o[0][0] == ext(fld(i[0][0], 0, 10), 32, not sg))], bounds='all words; %s extension' % ('sign' if sg else 'zero'))
        S.check_fn(U, 'rt_' + nm, lambda i, o: [('pack(unpack(p))==p', o[0][0] == i[0][0])], bounds='all words')
        def inr(i): return [(z3.And(i[0][k] >= -(1 << (bits[k] - 1)), i[0][k] < (1 << (bits[k] - 1))) if sg else z3.ULT(i[0][k], 1 << bits[k])) for k in range(4)]
        S.check_fn(U, 'ur_' + nm, lambda i, o: [('unpack(pack(v))==v[%d]' % k, o[0][k] == i[0][k]) for k in range(4)], inr, bounds='all component values representable in their field')
    return run
def job_double(S):
    S.check_fn(U, 'pack_Double2x32', lambda i, o: [('low-word', z3.Extract(31, 0, o[0][0].bits) == i[0][0]), ('high-word', z3.Extract(63, 32, o[0][0].bits) == i[0][1])], bounds='all pairs of words')
    S.check_fn(U, 'unpack_Double2x32', lambda i, o: [('component0', o[0][0] == z3.Extract(31, 0, i[0][0])), ('component1', o[0][1] == z3.Extract(63, 32, i[0][0]))], bounds='all 2^64 double patterns incl. NaN payloads')
    S.check_fn(U, 'rt_Double2x32', lambda i, o: [('pack(unpack(d))==d', o[0][0].bits == i[0][0])], bounds='all 2^64 double patterns')
    S.check_fn(U, 'ur_Double2x32', lambda i, o: [('unpack(pack(v))==v[%d]' % k, o[0][k] == i[0][k]) for k in range(2)], bounds='all pairs of words')
def job_half(S):
    for nm, (w, L) in HALF.items():
        S.check_fn(U, 'rt_' + nm, lambda i, o, L=L: [('repack[%d]' % k, fld(o[0][0], 16 * k, 16) == fld(i[0][0], 16 * k, 16)) for k in range(L)], unwind=12, bounds='every word incl. Inf/NaN codes')
        if L > 1:
            S.check_fn(U, 'lay_' + nm, lambda i, o, L=L: [('field[%d]==packHalf1x16(v[%d])' % (k, k), fld(o[0][0], 16 * k, 16) == o[1][k]) for k in range(L)], unwind=12,
                       mutant=lambda i, o, L=L: [('reversed', fld(o[0][0], 0, 16) == o[1][L - 1])], bounds='all float vectors')
            S.check_fn(U, 'unlay_' + nm, lambda i, o, L=L: [('component[%d]==unpackHalf1x16(field[%d])' % (k, k), o[0][k].bits == o[1][k].bits) for k in range(L)], unwind=12, bounds='all words')
def job_halfL(L):
    def run(S):
        S.check_fn(U, 'lay_HalfL%d' % L, lambda i, o: [('component[%d]' % k, o[0][k] == o[1][k]) for k in range(L)], unwind=12, bounds='all float vectors; element k == packHalf1x16(v[k])')
        S.check_fn(U, 'unlay_HalfL%d' % L, lambda i, o: [('component[%d]' % k, o[0][k].bits == o[1][k].bits) for k in range(L)], unwind=12, bounds='all u16 vectors; element k == unpackHalf1x16(p[k])')
        S.check_fn(U, 'rt_HalfL%d' % L, lambda i, o: [('repack[%d]' % k, o[0][k] == i[0][k]) for k in range(L)], unwind=12, bounds='all u16 vectors')
    return run

# ----------------------------------------------------------------------------- unsigned small floats: F2x11_1x10 (5-bit exponent, bias 15, 6- resp. 5-bit mantissa, no sign)
SF = [(0, 11, 6), (11, 11, 6), (22, 10, 5)]      # (offset, bits, mantissa bits)
def sf_e(c, mb): return z3.Extract(mb + 4, mb, c)
def sf_m(c, mb): return z3.Extract(mb - 1, 0, c)
def sf_sort(mb): return z3.FPSort(5, mb + 1)
def sf_decode_bits(c, mb):
    """binary32 pattern of the value of code c read as an IEEE-style (5, mb+1) float with sign 0 (widening is exact) - SMT-LIB to_fp as oracle"""
    return z3.fpToIEEEBV(z3.fpFPToFP(RNE, z3.fpBVToFP(z3.Concat(z3.BitVecVal(0, 1), c), sf_sort(mb)), F32))
def sf_encode(xb, mb):
    """code of x truncated (round toward zero) to the (5, mb+1) format, sign dropped"""
    return z3.Extract(mb + 4, 0, z3.fpToIEEEBV(z3.fpFPToFP(RTZ, fp32(xb), sf_sort(mb))))
def sf_minval(mb): return 2.0 ** -15 * (1 + 2.0 ** -mb)       # value of code 1 in glm's own reading of exponent-0 codes (2^-15 * (1 + m/2^mb))
def sf_inf(mb): return 31 << mb
def sf_maxfinite(mb): return (31 << mb) - 1
def job_f2x11_decode(S):
    def spec(i, o):
        g = []
        for k, (off, b, mb) in enumerate(SF):
            c = fld(i[0][0], off, b); e = sf_e(c, mb); m = sf_m(c, mb); ob = o[0][k].bits
            g.append(('decode-normal%d' % k, z3.Implies(z3.And(z3.UGE(e, 1), z3.ULE(e, 30)), ob == sf_decode_bits(c, mb))))
            g.append(('decode-zero%d' % k, z3.Implies(c == 0, ob == 0)))
            g.append(('decode-inf%d' % k, z3.Implies(z3.And(e == 31, m == 0), ob == 0x7f800000)))
            g.append(('decode-nan%d' % k, z3.Implies(z3.And(e == 31, m != 0), is_nan(ob))))
            g.append(('decode-subnormal%d' % k, z3.Implies(z3.And(e == 0, m != 0), z3.And(z3.fpGT(fp32(ob), FPV(0.0)), z3.fpLT(fp32(ob), FPV(2.0 ** -14))))))
        return g
    def mut(i, o):
        return [('next-field', z3.Implies(z3.And(z3.UGE(sf_e(fld(i[0][0], 11, 11), 6), 1), z3.ULE(sf_e(fld(i[0][0], 11, 11), 6), 30)), o[0][0].bits == sf_decode_bits(fld(i[0][0], 11, 11), 6)))]
    S.check_fn(U, 'unpack_F2x11_1x10', spec, mutant=mut, known=['KF-C06-F2x11-unpack-infnan', 'KF-C06-F2x11-unpack-zero-unmasked'], bounds='every 32-bit word; per field')
def job_f2x11_pack(S):
    def spec(i, o):
        g = []
        for k, (off, b, mb) in enumerate(SF):
            xb = i[0][k]; x = fp32(xb); c = fld(o[0][0], off, b)
            g.append(('pack-normal%d' % k, z3.Implies(z3.And(z3.fpGEQ(x, FPV(2.0 ** -14)), z3.fpLT(x, FPV(65536.0))), c == sf_encode(xb, mb))))
            g.append(('pack-zero%d' % k, z3.Implies(z3.fpIsZero(x), c == 0)))
            g.append(('pack-inf%d' % k, z3.Implies(xb == 0x7f800000, c == sf_inf(mb))))
            g.append(('pack-nan%d' % k, z3.Implies(z3.fpIsNaN(x), z3.And(sf_e(c, mb) == 31, sf_m(c, mb) != 0))))
            g.append(('pack-negative%d' % k, z3.Implies(z3.fpLT(x, FPV(0.0)), c == 0)))
            g.append(('pack-subminimum%d' % k, z3.Implies(z3.And(z3.fpGT(x, FPV(0.0)), z3.fpLT(x, FPV(sf_minval(mb)))), z3.ULE(c, 1))))
            g.append(('pack-overflow%d' % k, z3.Implies(z3.And(z3.fpGEQ(x, FPV(65536.0)), z3.Not(z3.fpIsInf(x))), z3.Or(c == sf_maxfinite(mb), c == sf_inf(mb)))))
        return g
    def mut(i, o):
        return [('round-to-nearest', z3.Implies(z3.And(z3.fpGEQ(fp32(i[0][0]), FPV(2.0 ** -14)), z3.fpLT(fp32(i[0][0]), FPV(65000.0))),
                                                fld(o[0][0], 0, 11) == z3.Extract(10, 0, z3.fpToIEEEBV(z3.fpFPToFP(RNE, fp32(i[0][0]), sf_sort(6))))))]
    S.check_fn(U, 'pack_F2x11_1x10', spec, mutant=mut, known=['KF-C06-F2x11-pack-negative', 'KF-C06-F2x11-pack-subminimum', 'KF-C06-F2x11-pack-overflow'], bounds='every float pattern per component (incl. NaN, Inf, negatives, subnormals)')
    # accuracy through glm's own decoder: truncation within one mantissa step (covers the exponent-0 codes, which glm reads as 2^-15*(1+m/2^mb))
    def acc(i, o):
        g = []
        for k, (off, b, mb) in enumerate(SF):
            xb = i[0][k]; rb = o[0][k].bits
            inr = z3.And(z3.fpGEQ(fp32(xb), FPV(sf_minval(mb))), z3.fpLT(fp32(xb), FPV(65536.0)))
            g.append(('roundtrip-not-above%d' % k, z3.Implies(inr, z3.ULE(rb, xb))))
            g.append(('roundtrip-within-one-step%d' % k, z3.Implies(inr, z3.ULT(xb - rb, 1 << (23 - mb)))))
        return g
    S.check_fn(U, 'pu_F2x11_1x10', acc, bounds='components in [smallest positive code value, 65536); other components free')
def sf_inrange(xb, mb): return z3.Or(z3.fpIsZero(fp32(xb)), z3.And(z3.fpGEQ(fp32(xb), FPV(2.0 ** -15)), z3.fpLT(fp32(xb), FPV(65536.0))))
def job_f2x11_mono(S):
    def spec(i, o): return [('monotone%d' % k, z3.ULE(fld(o[0][0], off, b), fld(o[0][1], off, b))) for k, (off, b, mb) in enumerate(SF)]
    pre = lambda i: [sf_inrange(i[0][k], SF[k][2]) for k in range(3)] + [sf_inrange(i[1][k], SF[k][2]) for k in range(3)] + [z3.fpLEQ(fp32(i[0][k]), fp32(i[1][k])) for k in range(3)]
    S.check_fn(U, 'mono_F2x11_1x10', spec, pre, bounds='all pairs x_k <= y_k with both in {0} u [2^-15, 65536)')
def job_f2x11_repack(S):
    def spec(i, o):
        return [('repack%d' % k, z3.Implies(z3.ULE(sf_e(fld(i[0][0], off, b), mb), 30), fld(o[0][0], off, b) == fld(i[0][0], off, b))) for k, (off, b, mb) in enumerate(SF)]
    S.check_fn(U, 'rt_F2x11_1x10', spec, mutant=lambda i, o: [('also-inf-nan', fld(o[0][0], 0, 11) == fld(i[0][0], 0, 11))], bounds='every 32-bit word; fields holding a finite code')
    S.check_fn(U, 'uru_F2x11_1x10', lambda i, o: [('unpack-pack-unpack%d' % k, same_float(o[0][k], o[1][k])) for k in range(3)], known=['KF-C06-F2x11-uru-infnan'], bounds='every 32-bit word')

def _sf_e5(xb): return z3.Extract(27, 23, xb) + 16            # (biased exponent - 112) mod 32: the exponent field glm's float2packed11/10 produces
def _sf_mt(xb, mb): return z3.Extract(22, 23 - mb, xb)
def _reg_neg(res, k):
    xb = res.ins[0][k]; mb = SF[k][2]
    return z3.And(z3.fpLT(fp32(xb), FPV(0.0)), z3.Not(z3.And(z3.Not(z3.fpIsInf(fp32(xb))), _sf_e5(xb) == 0, _sf_mt(xb, mb) == 0)))
def _reg_tiny(res, k):
    xb = res.ins[0][k]; mb = SF[k][2]
    return z3.And(z3.fpGT(fp32(xb), FPV(0.0)), z3.fpLT(fp32(xb), FPV(2.0 ** -15)), z3.Not(z3.And(_sf_e5(xb) == 0, z3.ULE(_sf_mt(xb, mb), 1))))
def _reg_ovf(res, k):
    xb = res.ins[0][k]; mb = SF[k][2]
    return z3.And(z3.fpGEQ(fp32(xb), FPV(65536.0)), z3.Not(z3.fpIsInf(fp32(xb))), z3.Not(z3.Or(z3.And(_sf_e5(xb) == 31, _sf_mt(xb, mb) == 0), z3.And(_sf_e5(xb) == 30, _sf_mt(xb, mb) == (1 << mb) - 1))))
REGIONS = {'f2x11_negative': _reg_neg, 'f2x11_subminimum': _reg_tiny, 'f2x11_overflow': _reg_ovf}

# ----------------------------------------------------------------------------- RGBM (rounding-erased)
def job_rgbm(t):
    # the constants 1/6 and 1e-6 are the rounded machine constants, so identities hold up to their relative rounding error: tolerance 2^-22 (float) / 2^-51 (double)
    eps = z3.RealVal(2) ** (-22 if t == 'float' else -51); rabs = lambda x: z3.If(x >= 0, x, -x)
    def run(S):
        S.check_fn(U, 'rgbm_rt_' + t, lambda i, o: [('unpack(pack(rgb))==rgb[%d]' % k, RGoal('le', rabs(o[0][k].r - i[0][k]), eps * rabs(i[0][k]))) for k in range(3)], mode='real',
                   bounds='rounding-erased arithmetic with the machine constants; all real rgb; relative tolerance 2^%d' % (-22 if t == 'float' else -51), timeout=S.cap(60, 200),
                   mutant=lambda i, o: [('exact', REq(o[0][0].r, i[0][0]))])
        def spec(i, o):
            a = o[0][3].r; mx = z3.If(i[0][0] >= i[0][1], i[0][0], i[0][1]); mx = z3.If(mx >= i[0][2], mx, i[0][2])
            return [('alpha-multiple-of-1/255', REq(a * 255, z3.ToReal(z3.ToInt(a * 255)))), ('alpha>=1/255', RGoal('ge', a * 255, z3.RealVal(1))), ('alpha<=1', RGoal('le', a, z3.RealVal(1))),
                    ('alpha>=max/6', RGoal('ge', a * 6 * (1 + eps), mx)), ('alpha-minimal', RGoal('lt', (a * 255 - 1) * 6, z3.If(mx * (1 + eps) * 255 >= 6 * 255 * z3.RealVal('1/1000000'), mx * (1 + eps) * 255, 6 * 255 * z3.RealVal('1/999999'))))] + \
                   [('component<=1[%d]' % k, RGoal('le', o[0][k].r, 1 + eps)) for k in range(3)] + [('component>=0[%d]' % k, RGoal('ge', o[0][k].r, z3.RealVal(0))) for k in range(3)]
        S.check_fn(U, 'rgbm_pack_' + t, spec, lambda i: [z3.And(x >= 0, x <= 6) for x in i[0]], mode='real', bounds='rounding-erased; rgb in [0,6]^3 (the encodable range)', timeout=S.cap(60, 200))
        S.check_fn(U, 'rgbm_unpack_' + t, lambda i, o: [('rgb[%d]==6*m*c' % k, REq(o[0][k].r, 6 * i[0][3] * i[0][k])) for k in range(3)], mode='real', bounds='rounding-erased; all real rgbm', timeout=S.cap(60, 200))
    return run

def jobs(tier):
    q = tier == 'quick'; J = []
    for nm, F in NORM.items():
        mb = max(b for b, _, _ in F.fields)
        J.append(('quant_' + nm, job_quant(nm))); J.append(('decode_' + nm, job_decode(nm)))
        if F.fw == 32: J.append(('halfstep_' + nm, job_halfstep(nm)))
        if mb < 12: J.append(('mono_' + nm, job_mono(nm, [k for k in range(F.L) if F.fields[k][0] < 12])))
        J.append(('repack_' + nm, job_repack(nm)))
    for nm in INTF: J.append(('int_' + nm, job_int(nm)))
    for nm in ('I3x10_1x2', 'U3x10_1x2'): J.append(('int_' + nm, job_3x10(nm)))
    J.append(('double2x32', job_double)); J.append(('half', job_half))
    for L in (1, 2, 3, 4): J.append(('halfL%d' % L, job_halfL(L)))
    for t in ('float', 'double'): J.append(('rgbm_' + t, job_rgbm(t)))
    J += [('f2x11_decode', job_f2x11_decode), ('f2x11_pack', job_f2x11_pack), ('f2x11_mono', job_f2x11_mono), ('f2x11_repack', job_f2x11_repack)]
    return J
