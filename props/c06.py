"""C06 - pack/unpack pairs of glm/packing.hpp and glm/gtc/packing.hpp: re-pack identity, layout, quantisation, clamping, monotonicity."""
from props.common import *
LEVEL = 'proof'
CLAIM = ("Every pack/unpack pair of glm/packing.hpp and glm/gtc/packing.hpp is executed symbolically from its clang IR. Normalised formats (incl. the packUnorm/packSnorm templates): LAYOUT for every field of every "
         "format - field k of pack(v) is the reference quantiser applied to component k alone and component k of unpack(p) is the reference decoder applied to field k alone, field 0 in the least significant bits "
         "(reference = glm's scalar function of the same (width, signedness, scale), or the first field of that kind of the same format); on every reference field: the packed code equals round(clamp(x)*scale) in IEEE "
         "semantics, lies (independently of that formula, in exact integer arithmetic over the float's significand) within half a quantisation step of x, out-of-range values clamp to the end codes, packing is monotone, "
         "pack(unpack(p)) keeps every canonical code, unpack(pack(unpack(p))) == unpack(p) for every code, unpack is code/scale up to one ulp with exact end points; the re-pack obligations are also proved directly on every "
         "field narrower than 12 bits of every format. Integer/half/double formats: pure layout and lossless round trips. Small-float format F2x11_1x10: decode value per code, truncation within one mantissa step against "
         "SMT-LIB to_fp(5,7)/(5,6), special codes, out-of-range behaviour, monotonicity over all non-NaN floats. Shared-exponent format F3x9_E1x5 (RGB9E5): decode value per code, shared exponent, per-field rounding to the "
         "nearest mantissa and re-pack of every normalised code, with exp2f/log2f replaced by their contracts. RGBM: round trip and alpha quantisation in rounding-erased arithmetic.")
BOUNDS = ("no bound on words (all 2^8..2^64 patterns) or on float inputs (all non-NaN bit patterns; NaN inputs of the normalised pack functions are undefined behaviour (float->int conversion) and excluded). "
          "Independent half-step bound: tolerance 1/2 + scale*2^-24 code units (the binary32 rounding of x*scale); binary32 formats only; 16-bit fields in the quick tier for |x| < 2^-6 and |x| >= 1 (for 2^-6 <= |x| < 1 via the "
          "formula obligation, whose right-hand side is round(fl32(clamp(x)*scale)), and the solver-proved lemmas |round(p) - p| <= 1/2 / exact conversion for every binary32 product p; directly for all x in the thorough tier). "
          "Monotonicity of 16-bit fields: via the formula obligation and the solver-proved lemma that round-and-convert is monotone in the binary32 product; directly for fields < 12 bits (binary64 templates: thorough tier). "
          "The quick tier proves the expensive FP obligations on the 18 reference fields only and transfers them to the other fields through the layout obligations (the per-field terms are identical); the thorough tier also "
          "proves them directly on every field. F3x9_E1x5 pack accuracy per binade of the largest component: quick 3 binades (below 2^-16, [1,2), [2^15,2^16)), thorough all 33; re-pack per exponent field value: quick 6, thorough all 32.")
OUTSIDE = ("the float<->half conversion itself (C07; here only layout and re-pack of the half formats); F3x9_E1x5 relies on contracts for exp2f/log2f (see assumptions) and on log2f being used only through floor(); "
           "float->int conversion UB inside packF3x9_E1x5 is not discharged here (C20); direct bit-precise monotonicity of 16-bit fields (two independent multipliers): thorough tier only, adjacent-float form, mandatory for |x| < 2^-6, optional for 2^-6 <= |x| < 1/4, "
           "not attempted for 1/4 <= |x| < 1 (> 600 s per query; covered by the formula obligation and the rounding lemmas); the independent half-step bound is not proved for the binary64 template instances (their formula obligation is); RGBM in rounding-erased arithmetic only.")
ASSUMPTIONS = ['glibc exp2f is exact for integral arguments in [-126,127]; log2f is faithful in the sense: log2f(x) in [E,E+1] for finite x in [2^E,2^(E+1)) and equal to E+1 only for x within 16 ulps below 2^(E+1); log2f(x) <= -16 or -inf and not NaN for 0 <= x < 2^-16 (used for F3x9_E1x5 only)',
               'IEEE-754: fl32(x*s) is within half an ulp of x*s and monotone in x for s > 0 (used only to extend the half-step bound of 16-bit fields to 2^-6 <= |x| < 1 in the quick tier and for monotonicity of 16-bit fields)']
F32 = z3.Float32(); F64 = z3.Float64()
SPLIT_BITS = 7          # fields at least this wide: queries over a float component are split into its sign/exponent classes
HS16_MAXEXP = 120       # independent half-step check of 16-bit fields: decided for biased exponents <= this (|x| < 2^-6)

# ----------------------------------------------------------------------------- format tables (transcribed from the documentation, not from the code)
class Fmt:
    """normalised format: fields = [(bits, kind 'u'|'s', scale)], first component first = least significant field; word=None: element-wise template"""
    def __init__(s, nm, word, fields, pack=None, unpack=None, ft='float', ct=None):
        s.nm = nm; s.word = word; s.fields = list(fields); s.L = len(s.fields); s.ft = ft; s.fw = 32 if ft == 'float' else 64; s.ct = ct
        s.offs = []; o = 0
        for (b, k, sc) in s.fields: s.offs.append(o); o += b
        s.pack = pack or 'glm::pack' + nm; s.unpack = unpack or 'glm::unpack' + nm
    def incode(s, i, k): return i[0][k] if s.word is None else fld(i[0][0], s.offs[k], s.fields[k][0])
    def outcode(s, o, k, j=0): return o[j][k] if s.word is None else fld(o[0][j], s.offs[k], s.fields[k][0])
    def wbits(s): return s.L * s.fields[0][0] if s.word is None else ct_bits(s.word)
def fld(word, off, bits): return z3.Extract(off + bits - 1, off, word)
U8 = (8, 'u', 255); S8 = (8, 's', 127); U16 = (16, 'u', 65535); S16 = (16, 's', 32767)
NORM = {}
def _n(nm, w, *f): NORM[nm] = Fmt(nm, w, f)
_n('Unorm2x16', 'uint32_t', U16, U16); _n('Snorm2x16', 'uint32_t', S16, S16); _n('Unorm4x8', 'uint32_t', U8, U8, U8, U8); _n('Snorm4x8', 'uint32_t', S8, S8, S8, S8)
_n('Unorm1x8', 'uint8_t', U8); _n('Unorm2x8', 'uint16_t', U8, U8); _n('Snorm1x8', 'uint8_t', S8); _n('Snorm2x8', 'uint16_t', S8, S8)
_n('Unorm1x16', 'uint16_t', U16); _n('Unorm4x16', 'uint64_t', U16, U16, U16, U16); _n('Snorm1x16', 'uint16_t', S16); _n('Snorm4x16', 'uint64_t', S16, S16, S16, S16)
_n('Snorm3x10_1x2', 'uint32_t', (10, 's', 511), (10, 's', 511), (10, 's', 511), (2, 's', 1)); _n('Unorm3x10_1x2', 'uint32_t', (10, 'u', 1023), (10, 'u', 1023), (10, 'u', 1023), (2, 'u', 3))
_n('Unorm2x4', 'uint8_t', (4, 'u', 15), (4, 'u', 15)); _n('Unorm4x4', 'uint16_t', (4, 'u', 15), (4, 'u', 15), (4, 'u', 15), (4, 'u', 15))
_n('Unorm1x5_1x6_1x5', 'uint16_t', (5, 'u', 31), (6, 'u', 63), (5, 'u', 31)); _n('Unorm3x5_1x1', 'uint16_t', (5, 'u', 31), (5, 'u', 31), (5, 'u', 31), (1, 'u', 1))
_n('Unorm2x3_1x2', 'uint8_t', (3, 'u', 7), (3, 'u', 7), (2, 'u', 3))
# element-wise templates packUnorm<uintN>(vec<L,floatT>) / packSnorm<intN>(vec<L,floatT>)
for (tn, ct, fdesc, L, ft) in (('tU8x3f', 'uint8_t', U8, 3, 'float'), ('tS8x2f', 'int8_t', S8, 2, 'float'), ('tU16x2f', 'uint16_t', U16, 2, 'float'), ('tS16x4f', 'int16_t', S16, 4, 'float'),
                               ('tU8x1f', 'uint8_t', U8, 1, 'float'), ('tU8x2d', 'uint8_t', U8, 2, 'double'), ('tS8x2d', 'int8_t', S8, 2, 'double')):
    pn = 'Unorm' if fdesc[1] == 'u' else 'Snorm'
    NORM[tn] = Fmt(tn, None, [fdesc] * L, pack='glm::pack%s<%s>' % (pn, ct), unpack='glm::unpack%s<%s>' % (pn, ft), ft=ft, ct=ct)

U = Unit('c06', includes=['glm/glm.hpp', 'glm/packing.hpp', 'glm/gtc/packing.hpp'])
def _arg(L, c='float', p='a'): return '%s[0]' % p if L == 1 else 'ldv<%d,%s>(%s)' % (L, c, p)
def _st(L, e, o='o'): return '%s[0] = %s;' % (o, e) if L == 1 else 'stv(%s, %s);' % (o, e)
for nm, F in NORM.items():
    L = F.L; P = F.pack; Q = F.unpack; ft = F.ft
    if F.word is not None:
        w = F.word
        U.add('pack_' + nm, [(ft, L)], [(w, 1)], 'o[0] = %s(%s);' % (P, _arg(L)))
        U.add('unpack_' + nm, [(w, 1)], [(ft, L)], _st(L, '%s(a[0])' % Q))
        U.add('rt_' + nm, [(w, 1)], [(w, 1)], 'o[0] = %s(%s(a[0]));' % (P, Q))
        U.add('uru_' + nm, [(w, 1)], [(ft, L), (ft, L)], _st(L, '%s(%s(%s(a[0])))' % (Q, P, Q)) + ' ' + _st(L, '%s(a[0])' % Q, 'o2'))
        U.add('mono_' + nm, [(ft, L), (ft, L)], [(w, 2)], 'o[0] = %s(%s); o[1] = %s(%s);' % (P, _arg(L), P, _arg(L, 'float', 'b')))
        U.add('loc_' + nm, [(w, 2)], [(ft, L), (ft, L)], _st(L, '%s(a[0])' % Q) + ' ' + _st(L, '%s(a[1])' % Q, 'o2'))
    else:
        ct = F.ct; V = 'ldv<%d,%s>(a)' % (L, ft); C = 'ldv<%d,%s>(a)' % (L, ct)
        U.add('pack_' + nm, [(ft, L)], [(ct, L)], 'stv(o, %s(%s));' % (P, V))
        U.add('unpack_' + nm, [(ct, L)], [(ft, L)], 'stv(o, %s(%s));' % (Q, C))
        U.add('rt_' + nm, [(ct, L)], [(ct, L)], 'stv(o, %s(%s(%s)));' % (P, Q, C))
        U.add('uru_' + nm, [(ct, L)], [(ft, L), (ft, L)], 'stv(o, %s(%s(%s(%s)))); stv(o2, %s(%s));' % (Q, P, Q, C, Q, C))
        U.add('mono_' + nm, [(ft, L), (ft, L)], [(ct, L), (ct, L)], 'stv(o, %s(%s)); stv(o2, %s(ldv<%d,%s>(b)));' % (P, V, P, L, ft))
        U.add('loc_' + nm, [(ct, L), (ct, L)], [(ft, L), (ft, L)], 'stv(o, %s(%s)); stv(o2, %s(ldv<%d,%s>(b)));' % (Q, C, Q, L, ct))

# reference fields: the expensive FP obligations are proved on one reference field per (width, signedness, scale) - glm's scalar function where one exists, otherwise the first such
# field of the format itself - and every other field is tied to its reference by the layout obligations below (the per-field terms are identical, so these cost nothing).
SCALAR_REF = {U8: 'Unorm1x8', S8: 'Snorm1x8', U16: 'Unorm1x16', S16: 'Snorm1x16'}
def ref_of(F, k):
    t = F.fields[k]
    if F.ft == 'float' and t in SCALAR_REF: return (SCALAR_REF[t], 0)
    return (F.nm, F.fields.index(t))
REFS = {}              # format -> sorted reference fields of that format
for nm, F in NORM.items():
    for k in range(F.L): REFS.setdefault(ref_of(F, k)[0], set()).add(ref_of(F, k)[1])
REFS = {nm: sorted(v) for nm, v in REFS.items()}
def is_ref(nm, k): return k in REFS.get(nm, ())
def has_layout(F): return not (F.L == 1 and ref_of(F, 0) == (F.nm, 0))
for nm, F in NORM.items():
    if not has_layout(F): continue
    L = F.L; ft = F.ft; scalar = ref_of(F, 0)[0] != nm
    assert all((ref_of(F, k)[0] != nm) == scalar for k in range(L))
    if F.word is not None: pb = ['o[0] = %s(%s);' % (F.pack, _arg(L))]; ub = [_st(L, '%s(a[0])' % F.unpack)]
    else: pb = ['stv(o, %s(ldv<%d,%s>(a)));' % (F.pack, L, ft)]; ub = ['stv(o, %s(ldv<%d,%s>(a)));' % (F.unpack, L, F.ct)]
    for k in range(L):
        rn, r = ref_of(F, k); R = NORM[rn]
        if scalar:
            pb.append('o2[%d] = %s(a[%d]);' % (k, R.pack, k))
            ub.append('o2[%d] = %s(%s(%s));' % (k, R.unpack, R.word, 'a[0] >> %d' % F.offs[k] if F.word is not None else 'a[%d]' % k))
        elif F.word is not None:
            pb.append('{ glm::vec<%d,%s> t(0); t[%d] = a[%d]; o2[%d] = %s(t); }' % (L, ft, r, k, k, F.pack))
            ub.append('o2[%d] = %s(%s(((a[0] >> %d) & %du) << %d))[%d];' % (k, F.unpack, F.word, F.offs[k], (1 << F.fields[k][0]) - 1, F.offs[r], r))
        else:
            pb.append('{ glm::vec<%d,%s> t(0); t[%d] = a[%d]; o2[%d] = %s(t)[%d]; }' % (L, ft, r, k, k, F.pack, r))
            ub.append('{ glm::vec<%d,%s> t(0); t[%d] = a[%d]; o2[%d] = %s(t)[%d]; }' % (L, F.ct, r, k, k, F.unpack, r))
    rw = NORM[ref_of(F, 0)[0]].word if scalar else (F.word or F.ct)
    U.add('lay_' + nm, [(ft, L)], [(F.word, 1) if F.word is not None else (F.ct, L), (rw, L)], ' '.join(pb))
    U.add('unlay_' + nm, [(F.word, 1) if F.word is not None else (F.ct, L)], [(ft, L), (ft, L)], ' '.join(ub))

# integer formats: name -> (word ctype, component ctype, L)
INTF = {'Int2x8': ('int16_t', 'int8_t', 2), 'Uint2x8': ('uint16_t', 'uint8_t', 2), 'Int4x8': ('int32_t', 'int8_t', 4), 'Uint4x8': ('uint32_t', 'uint8_t', 4),
        'Int2x16': ('int', 'int16_t', 2), 'Int4x16': ('int64_t', 'int16_t', 4), 'Uint2x16': ('unsigned', 'uint16_t', 2), 'Uint4x16': ('uint64_t', 'uint16_t', 4),
        'Int2x32': ('int64_t', 'int32_t', 2), 'Uint2x32': ('uint64_t', 'uint32_t', 2)}
for nm, (w, c, L) in INTF.items():
    U.add('pack_' + nm, [(c, L)], [(w, 1)], 'o[0] = glm::pack%s(ldv<%d,%s>(a));' % (nm, L, c))
    U.add('unpack_' + nm, [(w, 1)], [(c, L)], 'stv(o, glm::unpack%s(a[0]));' % nm)
    U.add('rt_' + nm, [(w, 1)], [(w, 1)], 'o[0] = glm::pack%s(glm::unpack%s(a[0]));' % (nm, nm))
    U.add('ur_' + nm, [(c, L)], [(c, L)], 'stv(o, glm::unpack%s(glm::pack%s(ldv<%d,%s>(a))));' % (nm, nm, L, c))
for nm, c in (('I3x10_1x2', 'int'), ('U3x10_1x2', 'unsigned')):
    U.add('pack_' + nm, [(c, 4)], [('uint32_t', 1)], 'o[0] = glm::pack%s(ldv<4,%s>(a));' % (nm, c))
    U.add('unpack_' + nm, [('uint32_t', 1)], [(c, 4)], 'stv(o, glm::unpack%s(a[0]));' % nm)
    U.add('rt_' + nm, [('uint32_t', 1)], [('uint32_t', 1)], 'o[0] = glm::pack%s(glm::unpack%s(a[0]));' % (nm, nm))
    U.add('ur_' + nm, [(c, 4)], [(c, 4)], 'stv(o, glm::unpack%s(glm::pack%s(ldv<4,%s>(a))));' % (nm, nm, c))
U.add('pack_Double2x32', [('uint32_t', 2)], [('double', 1)], 'o[0] = glm::packDouble2x32(ldv<2,uint32_t>(a));')
U.add('unpack_Double2x32', [('double', 1)], [('uint32_t', 2)], 'stv(o, glm::unpackDouble2x32(a[0]));')
U.add('rt_Double2x32', [('double', 1)], [('double', 1)], 'o[0] = glm::packDouble2x32(glm::unpackDouble2x32(a[0]));')
U.add('ur_Double2x32', [('uint32_t', 2)], [('uint32_t', 2)], 'stv(o, glm::unpackDouble2x32(glm::packDouble2x32(ldv<2,uint32_t>(a))));')
# half formats (the conversion itself is C07): layout against the scalar functions and re-pack
HALF = {'Half1x16': ('uint16_t', 1), 'Half2x16': ('uint32_t', 2), 'Half4x16': ('uint64_t', 4)}
for nm, (w, L) in HALF.items():
    U.add('rt_' + nm, [(w, 1)], [(w, 1)], 'o[0] = glm::pack%s(glm::unpack%s(a[0]));' % (nm, nm))
    if L > 1:
        U.add('lay_' + nm, [('float', L)], [(w, 1), ('uint16_t', L)], 'o[0] = glm::pack%s(ldv<%d,float>(a)); for(int k=0;k<%d;++k) o2[k] = glm::packHalf1x16(a[k]);' % (nm, L, L))
        U.add('unlay_' + nm, [(w, 1)], [('float', L), ('float', L)], 'stv(o, glm::unpack%s(a[0])); for(int k=0;k<%d;++k) o2[k] = glm::unpackHalf1x16(uint16_t(a[0] >> (16*k)));' % (nm, L))
for L in (1, 2, 3, 4):
    U.add('lay_HalfL%d' % L, [('float', L)], [('uint16_t', L), ('uint16_t', L)], 'stv(o, glm::packHalf(ldv<%d,float>(a))); for(int k=0;k<%d;++k) o2[k] = glm::packHalf1x16(a[k]);' % (L, L))
    U.add('unlay_HalfL%d' % L, [('uint16_t', L)], [('float', L), ('float', L)], 'stv(o, glm::unpackHalf(ldv<%d,uint16_t>(a))); for(int k=0;k<%d;++k) o2[k] = glm::unpackHalf1x16(a[k]);' % (L, L))
    U.add('rt_HalfL%d' % L, [('uint16_t', L)], [('uint16_t', L)], 'stv(o, glm::packHalf(glm::unpackHalf(ldv<%d,uint16_t>(a))));' % L)
# small floats
U.add('pack_F2x11_1x10', [('float', 3)], [('uint32_t', 1)], 'o[0] = glm::packF2x11_1x10(ldv<3,float>(a));')
U.add('unpack_F2x11_1x10', [('uint32_t', 1)], [('float', 3)], 'stv(o, glm::unpackF2x11_1x10(a[0]));')
U.add('rt_F2x11_1x10', [('uint32_t', 1)], [('uint32_t', 1)], 'o[0] = glm::packF2x11_1x10(glm::unpackF2x11_1x10(a[0]));')
U.add('uru_F2x11_1x10', [('uint32_t', 1)], [('float', 3), ('float', 3)], 'stv(o, glm::unpackF2x11_1x10(glm::packF2x11_1x10(glm::unpackF2x11_1x10(a[0])))); stv(o2, glm::unpackF2x11_1x10(a[0]));')
U.add('pu_F2x11_1x10', [('float', 3)], [('float', 3)], 'stv(o, glm::unpackF2x11_1x10(glm::packF2x11_1x10(ldv<3,float>(a))));')
U.add('mono_F2x11_1x10', [('float', 3), ('float', 3)], [('uint32_t', 2)], 'o[0] = glm::packF2x11_1x10(ldv<3,float>(a)); o[1] = glm::packF2x11_1x10(ldv<3,float>(b));')
U.add('pack_F3x9_E1x5', [('float', 3)], [('uint32_t', 1)], 'o[0] = glm::packF3x9_E1x5(ldv<3,float>(a));')
U.add('unpack_F3x9_E1x5', [('uint32_t', 1)], [('float', 3)], 'stv(o, glm::unpackF3x9_E1x5(a[0]));')
U.add('rt_F3x9_E1x5', [('uint32_t', 1)], [('uint32_t', 1)], 'o[0] = glm::packF3x9_E1x5(glm::unpackF3x9_E1x5(a[0]));')
for t in ('float', 'double'):
    U.add('rgbm_pack_' + t, [(t, 3)], [(t, 4)], 'stv(o, glm::packRGBM(ldv<3,%s>(a)));' % t)
    U.add('rgbm_rt_' + t, [(t, 3)], [(t, 3)], 'stv(o, glm::unpackRGBM(glm::packRGBM(ldv<3,%s>(a))));' % t)
    U.add('rgbm_unpack_' + t, [(t, 4)], [(t, 3)], 'stv(o, glm::unpackRGBM(ldv<4,%s>(a)));' % t)
def units(tier): return [U]

# ----------------------------------------------------------------------------- specification helpers (normalised formats)
def lo_of(kind): return 0.0 if kind == 'u' else -1.0
def code_formula(xb, bits, kind, scale, rm):
    """GLSL 4.20 8.4: round(clamp(x, lo, 1) * scale) evaluated in the IEEE format of x, converted to the field's integer type"""
    w = xb.size(); x = fpof(xb); lo = FPV(lo_of(kind), w); hi = FPV(1.0, w)
    cl = z3.If(z3.fpLT(x, lo), lo, z3.If(z3.fpGT(x, hi), hi, x))
    r = z3.fpRoundToIntegral(rm, z3.fpMul(RNE, cl, FPV(float(scale), w)))
    return z3.fpToUBV(RTZ, r, z3.BitVecSort(bits)) if kind == 'u' else z3.fpToSBV(RTZ, r, z3.BitVecSort(bits))
def code_to_fp(c, kind, srt): return z3.fpUnsignedToFP(RNE, c, srt) if kind == 'u' else z3.fpSignedToFP(RNE, c, srt)
def ext(x, n, signed): return z3.SignExt(n - x.size(), x) if signed else z3.ZeroExt(n - x.size(), x)
def halfstep_int(xb, c, bits, kind, scale, e, side):
    """|x*scale - c| <= 1/2 + scale*2^-24 (half a code step plus half an ulp of the binary32 product) for a normal binary32 x with biased exponent e in [126-bits, 126], in exact integer
    arithmetic: x = +-M*2^(e-150) with M = 2^23 + mantissa, so
    |x*scale - c| <= 1/2 + scale*2^-24   <=>   |M*scale - c*2^(150-e)| <= 2^(149-e) + scale*2^(126-e).   No floating-point operation on the specification side."""
    W = 2 * bits + 34
    M = z3.ZeroExt(W - 24, z3.Concat(z3.BitVecVal(1, 1), z3.Extract(22, 0, xb)))
    N = (M << scale.bit_length()) - M if (scale + 1) & scale == 0 else M * z3.BitVecVal(scale, W)
    N = z3.If(z3.Extract(31, 31, xb) == 1, -N, N)
    C = ext(c, W, kind == 's') << (150 - e); tol = z3.BitVecVal((1 << (149 - e)) + scale * (1 << (126 - e)), W)
    return (C - tol <= N) if side == 'lo' else (N <= C + tol)
def notnan(xb): return z3.Not(is_nan(xb))
def maxcode(bits, kind, scale): return z3.BitVecVal(scale, bits)
def mincode(bits, kind, scale): return z3.BitVecVal(0 if kind == 'u' else -scale, bits)
def canonical(c, bits, kind): return z3.BoolVal(True) if kind == 'u' else c != z3.BitVecVal(1 << (bits - 1), bits)
def decode_bound(c, kind, scale, rm, w=32):
    """code/scale rounded in direction rm, signed formats clamped below at -1"""
    q = z3.fpDiv(rm, code_to_fp(c, kind, FSORT[w]), FPV(float(scale), w))
    return q if kind == 'u' else z3.If(z3.fpLT(q, FPV(-1.0, w)), FPV(-1.0, w), q)
def code_le(a, b, kind): return z3.ULE(a, b) if kind == 'u' else a <= b
def ordv(b):
    """position of a float pattern in the IEEE total order (+0 == -0) as a signed integer"""
    w = b.size(); mag = z3.ZeroExt(4, z3.Extract(w - 2, 0, b)); return z3.If(z3.Extract(w - 1, w - 1, b) == 1, -mag, mag)
def one_bits(w, neg=False): return (0x3f800000 if w == 32 else 0x3ff0000000000000) | ((1 << (w - 1)) if neg else 0)

def exp_classes(kind, bits, w=32):
    """sign/exponent classes of a binary32/64 pattern that together cover every non-NaN value: 'tiny' (|x|*2^bits < 1/4 by the exponent alone, so the code is 0), one class per remaining exponent below 1
    (inside one the comparisons of clamp() are decided by the bits alone, which lets the solver identify glm's product with the specification's), and the out-of-range classes.
    -> [(name, predicate, 'high'|'low'|'mid')]: 'high' holds the values >= 1, 'low' those <= the lower end of the range"""
    eb = 8 if w == 32 else 11; mb = w - 1 - eb; bias = (1 << (eb - 1)) - 1; one = bias << mb; inf = ((1 << eb) - 1) << mb; T = bias - 3 - bits
    mag = lambda xb: z3.Extract(w - 2, 0, xb); sgn = lambda xb: z3.Extract(w - 1, w - 1, xb); ex = lambda xb: z3.Extract(w - 2, mb, xb)
    cls = [('ge1', lambda xb: z3.And(sgn(xb) == 0, z3.UGE(mag(xb), one), z3.ULE(mag(xb), inf)), 'high'),
           ('tiny', lambda xb: z3.And(sgn(xb) == 0, z3.ULE(ex(xb), T)), 'low' if kind == 'u' else 'mid')]
    for e in range(T + 1, bias): cls.append(('e%d' % e, lambda xb, e=e: z3.And(sgn(xb) == 0, ex(xb) == e), 'mid'))
    if kind == 'u':
        cls.append(('neg', lambda xb: z3.And(sgn(xb) == 1, z3.ULE(mag(xb), inf)), 'low'))
    else:
        cls.append(('le-1', lambda xb: z3.And(sgn(xb) == 1, z3.UGE(mag(xb), one), z3.ULE(mag(xb), inf)), 'low'))
        cls.append(('ntiny', lambda xb: z3.And(sgn(xb) == 1, z3.ULE(ex(xb), T)), 'mid'))
        for e in range(T + 1, bias): cls.append(('n%d' % e, lambda xb, e=e: z3.And(sgn(xb) == 1, ex(xb) == e), 'mid'))
    return cls
def prove_cases(S, fname, cases, pre, bounds, timeout=None, side=False, known=(), extra=None, unwind=16, mandatory=True):
    """free-form case analysis over one symbolic call: cases = [(case name, hyp(ins) -> [Bool], spec(ins, outs) -> [(label, goal)])]; every goal is proved under pre + hyp.
    Obligations are named c06.<fname>.<case>.<label>; counterexamples are replayed natively like check_fn's."""
    res = sym_call(U, fname, unwind=unwind); allv = [t for r in res.ins for t in r]
    hy0 = list(pre(res.ins)) + res.axioms + (list(extra(res)) if extra else [])
    fl = ['w_' + fname]
    for cn, hyp, spec in cases:
        hy = list(hyp(res.ins)) + hy0
        S.prove('c06.%s.%s.witness' % (fname, cn), z3.BoolVal(False), hy, timeout=S.cap(20, 60), kind='witness', expect='sat', mandatory=False, functions=fl, vars_=allv, bounds=bounds + '; case ' + cn)     # the case is not empty
        for label, g in spec(res.ins, res.outs):
            on = 'c06.%s.%s.%s' % (fname, cn, label)
            S._prove_known(on, goal_term(g), hy, res, known, timeout=timeout or S.cap(60, 180), solver='z3', kind='spec', functions=fl, bounds=bounds + '; case ' + cn,
                           spec_fn=(spec, label), pre_fn=pre, unit=U, fname=fname, mode='fp', vars_=allv, mandatory=mandatory)
    if side:
        groups = {}
        for kd, cond, d in res.obligations: groups.setdefault((kd, d), []).append(cond)
        for (kd, d), conds in groups.items():
            S.prove('c06.%s.%s[%s]' % (fname, kd, d[:50]), z3.Not(z3.Or(*conds)) if len(conds) > 1 else z3.Not(conds[0]), hy0, timeout=S.cap(120, 300), kind=kd, vars_=allv,
                    replay=S._replayer(res, None, pre, U, fname, 'fp', 'side', side_kind=kd), functions=fl, bounds=bounds)
    return res

# ----------------------------------------------------------------------------- jobs (normalised formats)
def job_layout(nm):
    """field k of pack(v) == reference quantiser(v_k), component k of unpack(p) == reference decoder(field k of p): position of every field and independence of the other components"""
    F = NORM[nm]; fl = F.fields; scalar = ref_of(F, 0)[0] != nm
    def refcode(o, k):
        r = ref_of(F, k)[1]
        return o[1][k] if (scalar or F.word is None) else fld(o[1][k], F.offs[r], fl[k][0])
    def run(S):
        S.check_fn(U, 'lay_' + nm, lambda i, o: [('field[%d]' % k, F.outcode(o, k) == refcode(o, k)) for k in range(F.L)], lambda i: [notnan(x) for x in i[0]], timeout=S.cap(60, 200),
                   mutant=(lambda i, o: [('next-component', F.outcode(o, 0) == refcode(o, 1))]) if F.L > 1 and fl[0] == fl[1] else None,
                   bounds='every non-NaN vector; field k at bit offset %s == %s applied to component k alone' % (F.offs, 'glm::pack' + ref_of(F, 0)[0] if scalar else 'the same function on a vector that is zero elsewhere'))
        S.check_fn(U, 'unlay_' + nm, lambda i, o: [('component[%d]' % k, o[0][k].bits == o[1][k].bits) for k in range(F.L)], timeout=S.cap(60, 200),
                   bounds='every word; component k == %s applied to field k alone' % ('glm::unpack' + ref_of(F, 0)[0] if scalar else 'the same function on a word that is zero elsewhere'))
    return run

def job_quant(nm, sel=None):
    """quantisation formula + clamping of pack"""
    F = NORM[nm]; fl = F.fields; sel = list(range(F.L)) if sel is None else sel
    def run(S):
        small = [k for k in sel if fl[k][0] < SPLIT_BITS]; big = [k for k in sel if k not in small]
        def spec(i, o, ks=None, which=('formula', 'clamp-high', 'clamp-low')):
            g = []
            for k in (small if ks is None else ks):
                b, kind, sc = fl[k]; c = F.outcode(o, k); xb = i[0][k]; w = xb.size()
                if 'formula' in which: g.append(('formula[%d]' % k, z3.Or(c == code_formula(xb, b, kind, sc, RNA), c == code_formula(xb, b, kind, sc, RNE))))
                if 'clamp-high' in which: g.append(('clamp-high[%d]' % k, z3.Implies(z3.fpGEQ(fpof(xb), FPV(1.0, w)), c == maxcode(b, kind, sc))))
                if 'clamp-low' in which: g.append(('clamp-low[%d]' % k, z3.Implies(z3.fpLEQ(fpof(xb), FPV(lo_of(kind), w)), c == mincode(b, kind, sc))))
            return g
        pre = lambda i: [notnan(x) for x in i[0]]
        def mut(i, o):
            k = small[0]; b, kind, sc = fl[k]; c = F.outcode(o, k)
            return [('scale+1', c == code_formula(i[0][k], b, kind, sc + 1, RNA))] + ([('next-component', c == code_formula(i[0][(k + 1) % F.L], b, kind, sc, RNA))] if F.L > 1 else [])
        if small: S.check_fn(U, 'pack_' + nm, spec, pre, timeout=S.cap(150, 400), mutant=mut, bounds='every non-NaN component value (all bit patterns per component), other components free')
        for k in big:
            cases = [(cn, (lambda i, cf=cf, k=k: [cf(i[0][k])]), (lambda i, o, k=k, wh=('formula',) + (('clamp-high',) if tag == 'high' else ()) + (('clamp-low',) if tag == 'low' else ()): spec(i, o, [k], wh)))
                     for cn, cf, tag in exp_classes(fl[k][1], fl[k][0], F.fw)]
            prove_cases(S, 'pack_' + nm, cases, pre, 'component %d split into sign/exponent classes covering all non-NaN floats (clamp obligations in the classes that meet their antecedent)' % k, side=(k == big[0] and not small))
    return run

def job_halfstep(nm, sel=None, emax=126, emin=0):
    """independent of the formula: |x*scale - code| <= 1/2 + half an ulp of the binary32 product, in exact integer arithmetic, per sign/exponent class of x in the range [lo, 1]:
    tiny x (|x*scale| < 1/2 by the exponent alone) -> code 0; biased exponents 126-bits .. emax -> halfstep_int; x = +-1 is the clamp-high/low obligation of job_quant"""
    F = NORM[nm]; fl = F.fields; sel = list(range(F.L)) if sel is None else sel
    def run(S):
        for k in sel:
            b, kind, sc = fl[k]; cases = []
            if emin <= 125 - b:
                cases.append(('tiny', (lambda i, k=k, b=b: [z3.ULE(z3.Extract(30, 23, i[0][k]), 125 - b)]), (lambda i, o, k=k: [('tiny-to-zero[%d]' % k, F.outcode(o, k) == 0)])))
            for sg in ((0,) if kind == 'u' else (0, 1)):
                for e in range(max(126 - b, emin), emax + 1):
                    for t in (range(4) if (b >= 12 and e >= 124) else (None,)):      # the widest products: also split by the top two mantissa bits
                        cases.append(('%s%d%s' % ('n' if sg else 'e', e, '' if t is None else '.m%d' % t), (lambda i, k=k, e=e, sg=sg, t=t: [z3.Extract(31, 23, i[0][k]) == (sg << 8 | e)] + ([] if t is None else [z3.Extract(22, 21, i[0][k]) == t])),
                                      (lambda i, o, k=k, e=e, b=b, kind=kind, sc=sc: [('within-half-step-%s[%d]' % (sd, k), halfstep_int(i[0][k], F.outcode(o, k), b, kind, sc, e, sd)) for sd in ('lo', 'hi')])))
            prove_cases(S, 'pack_' + nm, cases, lambda i: [notnan(x) for x in i[0]],
                        'component %d in [%g,1] by sign/exponent class (biased exponents <= %d), other components free; tolerance 1/2 + %g code units (binary32 rounding of the product)' % (k, lo_of(kind), emax, sc * 2.0 ** -24), timeout=S.cap(150, 400))
    return run
def job_round_lemmas(S):
    """pure lemmas over a free binary32 product p (no glm code): they carry the half-step bound and monotonicity from the formula obligation  code == toInt(round(fl32(clamp(x)*scale)))
    to the 16-bit fields where the direct bit-precise proofs are expensive: (a) |round(p) - p| <= 1/2 and (b) p <= q  =>  toInt(round(p)) <= toInt(round(q)), for |p|,|q| <= scale"""
    p = z3.BitVec('p', 32); q = z3.BitVec('q', 32); P = fp32(p); Q = fp32(q)
    for (b, kind, sc) in sorted({f for F in NORM.values() if F.fw == 32 for f in F.fields}):
        rng = lambda v: [z3.fpGEQ(fp32(v), FPV(float(0 if kind == 'u' else -sc))), z3.fpLEQ(fp32(v), FPV(float(sc)))]
        srt = z3.BitVecSort(b); conv = (lambda f: z3.fpToUBV(RTZ, f, srt)) if kind == 'u' else (lambda f: z3.fpToSBV(RTZ, f, srt))
        for rn, rm in (('rna', RNA), ('rne', RNE)):
            R = z3.fpRoundToIntegral(rm, P); nm = 'c06.lemma.%s%d_%d.%s' % (kind, b, sc, rn)
            S.prove(nm + '.round-within-half-lo', z3.fpLEQ(z3.fpSub(RNE, R, FPV(0.5)), P), rng(p), vars_=[p], bounds='every binary32 p in the product range; R - 1/2 is exact for |R| <= 2^16')
            S.prove(nm + '.round-within-half-hi', z3.fpLEQ(P, z3.fpAdd(RNE, R, FPV(0.5))), rng(p), vars_=[p], bounds='every binary32 p in the product range')
            S.prove(nm + '.convert-exact', z3.fpEQ(code_to_fp(conv(R), kind, F32), R), rng(p), vars_=[p], bounds='the integer conversion of the rounded product loses nothing')
            S.prove(nm + '.round-convert-monotone', code_le(conv(R), conv(z3.fpRoundToIntegral(rm, Q)), kind), rng(p) + rng(q) + [z3.fpLEQ(P, Q)], vars_=[p, q], bounds='all pairs p <= q in the product range')
def job_mono(nm, sel=None, mandatory=True):
    F = NORM[nm]; fl = F.fields
    sel = [k for k in (range(F.L) if sel is None else sel)]
    def run(S):
        def spec(i, o): return [('monotone[%d]' % k, code_le(F.outcode(o, k, 0), F.outcode(o, k, 1), fl[k][1])) for k in sel]
        pre = lambda i: [notnan(x) for x in i[0] + i[1]] + [z3.fpLEQ(fpof(i[0][k]), fpof(i[1][k])) for k in range(F.L)]
        k0 = sel[0]
        S.check_fn(U, 'mono_' + nm, spec, pre, timeout=S.cap(600, 1500), side=False, mutant=lambda i, o: [('strict', z3.Not(code_le(F.outcode(o, k0, 1), F.outcode(o, k0, 0), fl[k0][1])))],
                   bounds='all pairs of non-NaN vectors with x_k <= y_k', mandatory=mandatory)
    return run

def job_mono_adj(nm, sel, emax=None, emin=None, mandatory=True):
    """monotonicity through adjacent floats: code(x) <= code(succ(x)) for every non-NaN binary32 x below +inf, where succ(x) is the next value in the IEEE order (-0 and +0 merged), per sign/exponent class of x;
    by transitivity over the finite order, x <= y implies code(x) <= code(y).  (The two-variable form over all pairs is job_mono: the same claim in one query, several times more expensive.)"""
    F = NORM[nm]; fl = F.fields
    def succ(x): return z3.If(x == 0x80000000, z3.BitVecVal(0, 32), z3.If(z3.Extract(31, 31, x) == 0, x + 1, x - 1))
    def run(S):
        for k in sel:
            b, kind, sc = fl[k]
            def keep(cn):
                if cn[0] not in 'en' or not cn[1:].isdigit(): return emin is None
                return (emax is None or int(cn[1:]) <= emax) and (emin is None or int(cn[1:]) >= emin)
            cases = [(cn, (lambda i, cf=cf, k=k: [cf(i[0][k])]), (lambda i, o, k=k, kind=kind: [('adjacent-monotone[%d]' % k, code_le(F.outcode(o, k, 0), F.outcode(o, k, 1), kind))])) for cn, cf, tag in exp_classes(kind, b) if keep(cn)]
            prove_cases(S, 'mono_' + nm, cases, lambda i, k=k: [notnan(v) for v in i[0] + i[1]] + [i[1][k] == succ(i[0][k]), i[0][k] != 0x7f800000],
                        'component %d: every non-NaN x < +inf against its successor, by sign/exponent class of x; other components free' % k, timeout=S.cap(200, 600), mandatory=mandatory)
    return run
def code_classes(bits, nsplit):
    """partition of the codes of one field by their top nsplit bits"""
    if nsplit == 0: return [('all', lambda c: z3.BoolVal(True))]
    return [('top%d' % t, lambda c, t=t: z3.Extract(bits - 1, bits - nsplit, c) == t) for t in range(1 << nsplit)]
def job_repack(nm, sel=None, tops=None):
    F = NORM[nm]; fl = F.fields; sel = list(range(F.L)) if sel is None else sel
    def run(S):
        small = [k for k in sel if fl[k][0] < 12]; big = [k for k in sel if k not in small]
        def spec(i, o, ks=None):
            g = []
            for k in (small if ks is None else ks):
                b, kind, sc = fl[k]; c = F.incode(i, k); r = F.outcode(o, k)
                g.append(('repack[%d]' % k, z3.Implies(canonical(c, b, kind), r == c)))
                if kind == 's': g.append(('most-negative-to-min[%d]' % k, z3.Implies(z3.Not(canonical(c, b, kind)), r == mincode(b, kind, sc))))
            return g
        def mut(i, o):
            k = small[0]; b, kind, sc = fl[k]; c = F.incode(i, k); r = F.outcode(o, k)
            return [('also-noncanonical', r == c)] if kind == 's' else [('plus-one', r == c + 1)]
        if small and tops is None: S.check_fn(U, 'rt_' + nm, spec, timeout=S.cap(200, 500), mutant=mut, bounds='every word (all 2^%d), per field' % F.wbits())
        for k in big:
            cl = [(cn, cf) for cn, cf in code_classes(fl[k][0], 4) if tops is None or cn in tops]
            prove_cases(S, 'rt_' + nm, [(cn, (lambda i, cf=cf, k=k: [cf(F.incode(i, k))]), (lambda i, o, k=k: spec(i, o, [k]))) for cn, cf in cl], lambda i: [], 'every word, field %d split by its top 4 bits' % k, timeout=S.cap(200, 500), side=(k == big[0] and (not small or tops is not None) and (tops is None or 'top0' in tops)))
        if tops is not None and 'top0' not in tops: return
        # unpack(pack(unpack(p))) == unpack(p)
        def spec2(i, o, ks=None): return [('unpack-pack-unpack[%d]' % k, o[0][k].bits == o[1][k].bits) for k in (small if ks is None else ks)]
        if small: S.check_fn(U, 'uru_' + nm, spec2, timeout=S.cap(200, 500), bounds='every word (all 2^%d), per component' % F.wbits())
        if big:
            # 16-bit fields: the monolithic query needs > 3 min. Lemma chain: (a) re-pack keeps field k for canonical codes (above), (b) component k of unpack is a function of field k only (below),
            # hence unpack(pack(unpack(p)))_k == unpack(p)_k for canonical codes; (c) the non-canonical code directly.
            def loc(i, o): return [('unpack-depends-on-field-only[%d]' % k, o[0][k].bits == o[1][k].bits) for k in big]
            def wordfield(i, j, k): return i[j][k] if F.word is None else fld(i[0][j], F.offs[k], fl[k][0])
            S.check_fn(U, 'loc_' + nm, loc, lambda i: [wordfield(i, 0, k) == wordfield(i, 1, k) for k in big], timeout=S.cap(100, 300), side=False, bounds='all pairs of words that agree on the field')
            if fl[big[0]][1] == 's':
                for k in big:
                    S.check_fn(U, 'uru_' + nm, lambda i, o, k=k: spec2(i, o, [k]), lambda i, k=k: [z3.Not(canonical(F.incode(i, k), fl[k][0], fl[k][1]))], name='c06.uru_%s.noncanonical%d' % (nm, k),
                               timeout=S.cap(100, 300), side=False, validate=0, bounds='the non-canonical (most negative) code of field %d' % k)
    return run
def job_decode(nm, sel=None):
    F = NORM[nm]; fl = F.fields; w = F.fw; sel = list(range(F.L)) if sel is None else sel
    def run(S):
        def spec(i, o):
            g = []
            for k in sel:
                b, kind, sc = fl[k]; c = F.incode(i, k); ob = o[0][k].bits
                g.append(('decode-lower[%d]' % k, ordv(z3.fpToIEEEBV(decode_bound(c, kind, sc, RTN, w))) - 1 <= ordv(ob)))
                g.append(('decode-upper[%d]' % k, ordv(ob) <= ordv(z3.fpToIEEEBV(decode_bound(c, kind, sc, RTP, w))) + 1))
                g.append(('decode-one[%d]' % k, z3.Implies(c == maxcode(b, kind, sc), ob == one_bits(w))))
                g.append(('decode-zero[%d]' % k, z3.Implies(c == 0, ob == 0)))
                if kind == 's': g.append(('decode-minus-one[%d]' % k, z3.Implies(z3.Or(c == mincode(b, kind, sc), z3.Not(canonical(c, b, kind))), ob == one_bits(w, True))))
                g.append(('decode-not-nan[%d]' % k, z3.Not(is_nan(ob))))
            return g
        def mut(i, o):
            k0 = sel[0]; b, kind, sc = fl[k0]; c = F.incode(i, k0)
            return [('scale+1', ordv(o[0][k0].bits) <= ordv(z3.fpToIEEEBV(z3.fpDiv(RTP, code_to_fp(c, kind, FSORT[w]), FPV(float(sc + 1), w)))) + 1)] + \
                   ([('next-field', ordv(z3.fpToIEEEBV(decode_bound(F.incode(i, 1), fl[1][1], fl[1][2], RTN, w))) - 1 <= ordv(o[0][0].bits))] if F.L > 1 and 0 in sel else [])
        S.check_fn(U, 'unpack_' + nm, spec, timeout=S.cap(300, 600), mutant=mut,
                   bounds='every word; component k within one ulp of the directed roundings of field_k/scale (signed: max(.,-1)); end codes decode to exactly 0, 1, -1')
    return run

# ----------------------------------------------------------------------------- integer / double / half formats: layout and lossless round trips
def job_int(nm):
    w, c, L = INTF[nm]; b = ct_bits(c)
    def run(S):
        S.check_fn(U, 'pack_' + nm, lambda i, o: [('field[%d]' % k, fld(o[0][0], b * k, b) == i[0][k]) for k in range(L)], mutant=lambda i, o: [('reversed', fld(o[0][0], 0, b) == i[0][L - 1])], bounds='all component values')
        S.check_fn(U, 'unpack_' + nm, lambda i, o: [('component[%d]' % k, o[0][k] == fld(i[0][0], b * k, b)) for k in range(L)], bounds='all words')
        S.check_fn(U, 'rt_' + nm, lambda i, o: [('pack(unpack(p))==p', o[0][0] == i[0][0])], bounds='all words')
        S.check_fn(U, 'ur_' + nm, lambda i, o: [('unpack(pack(v))==v[%d]' % k, o[0][k] == i[0][k]) for k in range(L)], bounds='all component values')
    return run
def job_3x10(nm):
    sg = nm[0] == 'I'; offs = [0, 10, 20, 30]; bits = [10, 10, 10, 2]
    def run(S):
        S.check_fn(U, 'pack_' + nm, lambda i, o: [('field[%d]' % k, fld(o[0][0], offs[k], bits[k]) == z3.Extract(bits[k] - 1, 0, i[0][k])) for k in range(4)],
                   mutant=lambda i, o: [('reversed', fld(o[0][0], 0, 10) == z3.Extract(9, 0, i[0][2]))], bounds='all component values (taken modulo the field width)')
        S.check_fn(U, 'unpack_' + nm, lambda i, o: [('component[%d]' % k, o[0][k] == ext(fld(i[0][0], offs[k], bits[k]), 32, sg)) for k in range(4)],
                   mutant=lambda i, o: [('other-extension', o[0][0] == ext(fld(i[0][0], 0, 10), 32, not sg))], bounds='all words; %s extension' % ('sign' if sg else 'zero'))
        S.check_fn(U, 'rt_' + nm, lambda i, o: [('pack(unpack(p))==p', o[0][0] == i[0][0])], bounds='all words')
        def inr(i): return [(z3.And(i[0][k] >= -(1 << (bits[k] - 1)), i[0][k] < (1 << (bits[k] - 1))) if sg else z3.ULT(i[0][k], 1 << bits[k])) for k in range(4)]
        S.check_fn(U, 'ur_' + nm, lambda i, o: [('unpack(pack(v))==v[%d]' % k, o[0][k] == i[0][k]) for k in range(4)], inr, bounds='all component values representable in their field')
    return run
def job_double(S):
    S.check_fn(U, 'pack_Double2x32', lambda i, o: [('low-word', z3.Extract(31, 0, o[0][0].bits) == i[0][0]), ('high-word', z3.Extract(63, 32, o[0][0].bits) == i[0][1])], bounds='all pairs of words')
    S.check_fn(U, 'unpack_Double2x32', lambda i, o: [('component0', o[0][0] == z3.Extract(31, 0, i[0][0])), ('component1', o[0][1] == z3.Extract(63, 32, i[0][0]))], bounds='all 2^64 double patterns incl. NaN payloads')
    S.check_fn(U, 'rt_Double2x32', lambda i, o: [('pack(unpack(d))==d', o[0][0].bits == i[0][0])], bounds='all 2^64 double patterns')
    S.check_fn(U, 'ur_Double2x32', lambda i, o: [('unpack(pack(v))==v[%d]' % k, o[0][k] == i[0][k]) for k in range(2)], bounds='all pairs of words')
def job_half(S):
    for nm, (w, L) in HALF.items():
        S.check_fn(U, 'rt_' + nm, lambda i, o, L=L: [('repack[%d]' % k, fld(o[0][0], 16 * k, 16) == fld(i[0][0], 16 * k, 16)) for k in range(L)], unwind=12, bounds='every word incl. Inf/NaN codes')
        if L > 1:
            S.check_fn(U, 'lay_' + nm, lambda i, o, L=L: [('field[%d]==packHalf1x16(v[%d])' % (k, k), fld(o[0][0], 16 * k, 16) == o[1][k]) for k in range(L)], unwind=12,
                       mutant=lambda i, o, L=L: [('reversed', fld(o[0][0], 0, 16) == o[1][L - 1])], bounds='all float vectors')
            S.check_fn(U, 'unlay_' + nm, lambda i, o, L=L: [('component[%d]==unpackHalf1x16(field[%d])' % (k, k), o[0][k].bits == o[1][k].bits) for k in range(L)], unwind=12, bounds='all words')
def job_halfL(L):
    def run(S):
        S.check_fn(U, 'lay_HalfL%d' % L, lambda i, o: [('component[%d]' % k, o[0][k] == o[1][k]) for k in range(L)], unwind=12, bounds='all float vectors; element k == packHalf1x16(v[k])')
        S.check_fn(U, 'unlay_HalfL%d' % L, lambda i, o: [('component[%d]' % k, o[0][k].bits == o[1][k].bits) for k in range(L)], unwind=12, bounds='all u16 vectors; element k == unpackHalf1x16(p[k])')
        S.check_fn(U, 'rt_HalfL%d' % L, lambda i, o: [('repack[%d]' % k, o[0][k] == i[0][k]) for k in range(L)], unwind=12, bounds='all u16 vectors')
    return run

# ----------------------------------------------------------------------------- unsigned small floats: F2x11_1x10 (5-bit exponent, bias 15, 6- resp. 5-bit mantissa, no sign)
SF = [(0, 11, 6), (11, 11, 6), (22, 10, 5)]      # (offset, bits, mantissa bits)
def sf_e(c, mb): return z3.Extract(mb + 4, mb, c)
def sf_m(c, mb): return z3.Extract(mb - 1, 0, c)
def sf_sort(mb): return z3.FPSort(5, mb + 1)
def sf_decode_bits(c, mb):
    """binary32 pattern of the value of code c read as an IEEE-style (5, mb+1) float with sign 0 (widening is exact) - SMT-LIB to_fp as oracle"""
    return z3.fpToIEEEBV(z3.fpFPToFP(RNE, z3.fpBVToFP(z3.Concat(z3.BitVecVal(0, 1), c), sf_sort(mb)), F32))
def sf_encode(xb, mb):
    """code of x truncated (round toward zero) to the (5, mb+1) format, sign dropped"""
    return z3.Extract(mb + 4, 0, z3.fpToIEEEBV(z3.fpFPToFP(RTZ, fp32(xb), sf_sort(mb))))
def sf_minval(mb): return 2.0 ** -15 * (1 + 2.0 ** -mb)       # value of code 1 in glm's own reading of exponent-0 codes (2^-15 * (1 + m/2^mb))
def sf_inf(mb): return 31 << mb
def sf_maxfinite(mb): return (31 << mb) - 1
def job_f2x11_decode(S):
    def spec(i, o):
        g = []
        for k, (off, b, mb) in enumerate(SF):
            c = fld(i[0][0], off, b); e = sf_e(c, mb); m = sf_m(c, mb); ob = o[0][k].bits
            g.append(('decode-normal%d' % k, z3.Implies(z3.And(z3.UGE(e, 1), z3.ULE(e, 30)), ob == sf_decode_bits(c, mb))))
            g.append(('decode-zero%d' % k, z3.Implies(c == 0, ob == 0)))
            g.append(('decode-inf%d' % k, z3.Implies(z3.And(e == 31, m == 0), ob == 0x7f800000)))
            g.append(('decode-nan%d' % k, z3.Implies(z3.And(e == 31, m != 0), is_nan(ob))))
            g.append(('decode-subnormal%d' % k, z3.Implies(z3.And(e == 0, m != 0), z3.And(z3.fpGT(fp32(ob), FPV(0.0)), z3.fpLT(fp32(ob), FPV(2.0 ** -14))))))
        return g
    def mut(i, o):
        return [('next-field', z3.Implies(z3.And(z3.UGE(sf_e(fld(i[0][0], 11, 11), 6), 1), z3.ULE(sf_e(fld(i[0][0], 11, 11), 6), 30)), o[0][0].bits == sf_decode_bits(fld(i[0][0], 11, 11), 6)))]
    S.check_fn(U, 'unpack_F2x11_1x10', spec, mutant=mut, known=['KF-C06-F2x11-unpack-infnan', 'KF-C06-F2x11-unpack-zero-unmasked'], bounds='every 32-bit word; per field')
def job_f2x11_pack(S):
    def spec(i, o):
        g = []
        for k, (off, b, mb) in enumerate(SF):
            xb = i[0][k]; x = fp32(xb); c = fld(o[0][0], off, b)
            g.append(('pack-normal%d' % k, z3.Implies(z3.And(z3.fpGEQ(x, FPV(2.0 ** -14)), z3.fpLT(x, FPV(65536.0))), c == sf_encode(xb, mb))))
            g.append(('pack-zero%d' % k, z3.Implies(z3.fpIsZero(x), c == 0)))
            g.append(('pack-inf%d' % k, z3.Implies(xb == 0x7f800000, c == sf_inf(mb))))
            g.append(('pack-nan%d' % k, z3.Implies(z3.fpIsNaN(x), z3.And(sf_e(c, mb) == 31, sf_m(c, mb) != 0))))
            g.append(('pack-negative%d' % k, z3.Implies(z3.fpLT(x, FPV(0.0)), c == 0)))
            g.append(('pack-subminimum%d' % k, z3.Implies(z3.And(z3.fpGT(x, FPV(0.0)), z3.fpLT(x, FPV(sf_minval(mb)))), z3.ULE(c, 1))))
            g.append(('pack-overflow%d' % k, z3.Implies(z3.And(z3.fpGEQ(x, FPV(65536.0)), z3.Not(z3.fpIsInf(x))), z3.Or(c == sf_maxfinite(mb), c == sf_inf(mb)))))
        return g
    def mut(i, o):
        return [('round-to-nearest', z3.Implies(z3.And(z3.fpGEQ(fp32(i[0][0]), FPV(2.0 ** -14)), z3.fpLT(fp32(i[0][0]), FPV(65000.0))),
                                                fld(o[0][0], 0, 11) == z3.Extract(10, 0, z3.fpToIEEEBV(z3.fpFPToFP(RNE, fp32(i[0][0]), sf_sort(6))))))]
    S.check_fn(U, 'pack_F2x11_1x10', spec, mutant=mut, known=['KF-C06-F2x11-pack-negative', 'KF-C06-F2x11-pack-subminimum', 'KF-C06-F2x11-pack-overflow'], bounds='every float pattern per component (incl. NaN, Inf, negatives, subnormals)')
    # accuracy through glm's own decoder: truncation within one mantissa step (covers the exponent-0 codes, which glm reads as 2^-15*(1+m/2^mb))
    def acc(i, o):
        g = []
        for k, (off, b, mb) in enumerate(SF):
            xb = i[0][k]; rb = o[0][k].bits
            inr = z3.And(z3.fpGEQ(fp32(xb), FPV(sf_minval(mb))), z3.fpLT(fp32(xb), FPV(65536.0)))
            g.append(('roundtrip-not-above%d' % k, z3.Implies(inr, z3.ULE(rb, xb))))
            g.append(('roundtrip-within-one-step%d' % k, z3.Implies(inr, z3.ULT(xb - rb, 1 << (23 - mb)))))
        return g
    S.check_fn(U, 'pu_F2x11_1x10', acc, bounds='components in [smallest positive code value, 65536); other components free')
def job_f2x11_mono(S):
    def spec(i, o): return [('monotone%d' % k, z3.ULE(fld(o[0][0], off, b), fld(o[0][1], off, b))) for k, (off, b, mb) in enumerate(SF)]
    pre = lambda i: [z3.Not(z3.fpIsNaN(fp32(x))) for x in i[0] + i[1]] + [z3.fpLEQ(fp32(i[0][k]), fp32(i[1][k])) for k in range(3)]
    S.check_fn(U, 'mono_F2x11_1x10', spec, pre, bounds='all pairs of non-NaN vectors x_k <= y_k (negative, tiny, huge and infinite values included)')
def job_f2x11_repack(S):
    def spec(i, o):
        return [('repack%d' % k, z3.Implies(z3.ULE(sf_e(fld(i[0][0], off, b), mb), 30), fld(o[0][0], off, b) == fld(i[0][0], off, b))) for k, (off, b, mb) in enumerate(SF)]
    S.check_fn(U, 'rt_F2x11_1x10', spec, mutant=lambda i, o: [('also-inf-nan', fld(o[0][0], 0, 11) == fld(i[0][0], 0, 11))], bounds='every 32-bit word; fields holding a finite code')
    S.check_fn(U, 'uru_F2x11_1x10', lambda i, o: [('unpack-pack-unpack%d' % k, same_float(o[0][k], o[1][k])) for k in range(3)], known=['KF-C06-F2x11-uru-infnan'], bounds='every 32-bit word')

def _sf_e5(xb): return z3.Extract(27, 23, xb) + 16            # (biased exponent - 112) mod 32: the exponent field glm's float2packed11/10 produces
def _sf_mt(xb, mb): return z3.Extract(22, 23 - mb, xb)
def _reg_neg(res, k):
    xb = res.ins[0][k]; mb = SF[k][2]
    return z3.And(z3.fpLT(fp32(xb), FPV(0.0)), z3.Not(z3.And(z3.Not(z3.fpIsInf(fp32(xb))), _sf_e5(xb) == 0, _sf_mt(xb, mb) == 0)))
def _reg_tiny(res, k):
    xb = res.ins[0][k]; mb = SF[k][2]
    return z3.And(z3.fpGT(fp32(xb), FPV(0.0)), z3.fpLT(fp32(xb), FPV(2.0 ** -15)), z3.Not(z3.And(_sf_e5(xb) == 0, z3.ULE(_sf_mt(xb, mb), 1))))
def _reg_ovf(res, k):
    xb = res.ins[0][k]; mb = SF[k][2]
    return z3.And(z3.fpGEQ(fp32(xb), FPV(65536.0)), z3.Not(z3.fpIsInf(fp32(xb))), z3.Not(z3.Or(z3.And(_sf_e5(xb) == 31, _sf_mt(xb, mb) == 0), z3.And(_sf_e5(xb) == 30, _sf_mt(xb, mb) == (1 << mb) - 1))))
REGIONS = {'f2x11_negative': _reg_neg, 'f2x11_subminimum': _reg_tiny, 'f2x11_overflow': _reg_ovf}

# ----------------------------------------------------------------------------- shared-exponent format F3x9_E1x5 (RGB9E5): three 9-bit mantissas m_k (first component lowest), 5-bit exponent e on top; value_k = m_k * 2^(e-24)
E5_MAX = 65408.0        # (2^9-1)/2^9 * 2^(31-15): the largest RGB9E5 value (EXT_texture_shared_exponent, 'sharedexp_max')
E5_TOL = 0.5 + 2.0 ** -15   # floor(y + 0.5): the binary32 sum y + 0.5 < 1024 is off by at most 2^-15
def _walk(terms):
    seen = set(); st = list(terms)
    while st:
        x = st.pop()
        if x.get_id() in seen: continue
        seen.add(x.get_id()); yield x
        if z3.is_app(x): st.extend(x.children())
def apps_of(terms, name): return sorted([x for x in _walk(terms) if z3.is_app(x) and x.decl().name() == name], key=lambda a: a.get_id())
def exp2_model(a, n):
    """contract for exp2f: exact at integers in [-126,127] (2^t built from the exponent field), an unconstrained value elsewhere"""
    k = z3.fpToSBV(RTZ, a, z3.BitVecSort(9)); integral = z3.And(z3.fpEQ(z3.fpRoundToIntegral(RTZ, a), a), z3.fpGEQ(a, FPV(-126.0)), z3.fpLEQ(a, FPV(127.0)))
    return z3.If(integral, z3.fpBVToFP(z3.Concat(z3.BitVecVal(0, 1), z3.Extract(7, 0, k + 127), z3.BitVecVal(0, 23)), F32), z3.FP('exp2f_elsewhere!%d' % n, F32))
def _subst_fix(x, sub):
    for _ in range(len(sub) + 1): x = z3.substitute(x, *sub)
    return x
def e5_prepare(fname):
    """symbolic call of a wrapper with one uint32 output in which the libm applications are replaced by their contracts: exp2f(t) -> exp2_model(t); floor(log2f(M)) -> the variable FL
    (log2f must only be used through floor). -> (res, output word, FL, M, lemmas 'all log2f applications have the same argument')"""
    res = sym_call(U, fname); w = res.outs[0][0]; lg = apps_of([w], 'log232')
    if not lg: raise Unsupported('no log2f application in ' + fname)
    FL = z3.FP('floor_log2f', F32); same = [l.arg(0) == lg[0].arg(0) for l in lg[1:]]
    w = z3.substitute(w, *[(z3.fpRoundToIntegral(RTN, l), FL) for l in lg])
    if apps_of([w], 'log232'): raise Unsupported('log2f used other than through floor in ' + fname)
    sub = [(app, exp2_model(app.arg(0), n)) for n, app in enumerate(apps_of([w, lg[0].arg(0)], 'exp232'))]
    w = _subst_fix(w, sub); M = _subst_fix(lg[0].arg(0), sub)
    if apps_of([w, M], 'exp232'): raise Unsupported('exp2f substitution incomplete in ' + fname)
    return res, w, FL, M, same
def e5_cases(w, FL, Mb, E):
    """the contract for log2f on the binade E of M (None: 0 <= M < 2^-16) leaves floor(log2f(M)) in {E, E+1 (M within 16 ulps below 2^(E+1))} resp. <= -16; the comparison 'largest mantissa rounds to 2^9'
    (the only fp.leq that is the condition of an if-then-else) is true or false: -> ([(case name, hypotheses, output word with the case's constants substituted and folded, shared exponent the case stands for)], lemmas)"""
    out = []; lemmas = []
    for flv, hyp in ([(None, [z3.fpLEQ(FL, FPV(-16.0)), z3.Not(z3.fpIsNaN(FL))])] if E is None else [(E, []), (E + 1, [z3.UGE(z3.Extract(22, 0, Mb), (1 << 23) - 16)])]):
        if flv is None:
            # floor(log2f) <= -16 (possibly -inf): it is only used as max(floor, -16) = -16 (lemma), after which it must have disappeared
            ys = [y for y in _walk([w]) if z3.is_app(y) and y.decl().kind() == z3.Z3_OP_ITE and y.arg(1).eq(FL) and z3.is_fp_value(y.arg(2))]
            wf = z3.simplify(z3.substitute(w, *[(y, FPV(-16.0)) for y in ys])) if ys else w
            if any(x.eq(FL) for x in _walk([wf])): wf = w
            else: lemmas += [('max(floor,-16)==-16.%d' % j, y == FPV(-16.0), hyp) for j, y in enumerate(ys)]
        else: wf = z3.simplify(z3.substitute(w, (FL, FPV(float(flv)))))
        cs = {}          # conditions of if-then-else terms that are a bare fp.leq: the test |MaxShared - 2^9| <= epsilon
        for y in _walk([wf]):
            if z3.is_app(y) and y.decl().kind() == z3.Z3_OP_ITE and z3.is_app(y.arg(0)) and y.arg(0).decl().kind() == z3.Z3_OP_FPA_LE: cs[y.arg(0).get_id()] = y.arg(0)
        cs = list(cs.values())
        for cv in ((False, True) if cs else (False,)):
            wc = z3.simplify(z3.substitute(wf, *[(c, z3.BoolVal(cv)) for c in cs])) if cs else wf
            out.append(('%s%s' % ('floor' + str(flv) if flv is not None else 'floor<=-16', '.carry' if cv else ''), hyp + [c == cv for c in cs], wc, (0 if flv is None else max(flv, -16) + 16) + (1 if cv else 0)))
    return out, lemmas
def e5_fields(w): return [z3.Extract(9 * k + 8, 9 * k, w) for k in range(3)], z3.Extract(31, 27, w)
def e5_clamp(xb): x = fp32(xb); return z3.If(z3.fpLT(x, FPV(0.0)), FPV(0.0), z3.If(z3.fpGT(x, FPV(E5_MAX)), FPV(E5_MAX), x))
def e5_max(i):
    c = [e5_clamp(x) for x in i[0]]; m = z3.If(z3.fpGT(c[1], c[0]), c[1], c[0]); return z3.If(z3.fpGT(c[2], m), c[2], m)
def e5_binade(b, E): return z3.And(z3.Extract(31, 31, b) == 0, z3.ULE(z3.Extract(30, 23, b), 110)) if E is None else z3.Extract(31, 23, b) == E + 127
def job_f3x9_decode(S):
    res = sym_call(U, 'unpack_F3x9_E1x5'); p = res.ins[0][0]; m, e = e5_fields(p)
    sub = [(app, exp2_model(app.arg(0), n)) for n, app in enumerate(apps_of([v.bits for v in res.outs[0]], 'exp232'))]
    scale = z3.fpBVToFP(z3.Concat(z3.BitVecVal(0, 1), z3.ZeroExt(3, e) + (127 - 24), z3.BitVecVal(0, 23)), F32)
    def spec(i, o):
        mm, ee = e5_fields(i[0][0]); sc = z3.fpBVToFP(z3.Concat(z3.BitVecVal(0, 1), z3.ZeroExt(3, ee) + (127 - 24), z3.BitVecVal(0, 23)), F32)
        return [('component%d==mantissa%d*2^(e-24)' % (k, k), fpv_of(o[0][k]) == z3.fpMul(RNE, z3.fpUnsignedToFP(RNE, mm[k], F32), sc)) for k in range(3)]
    outs = [[FV(32, bits=_subst_fix(v.bits, sub)) for v in res.outs[0]]]
    for label, g in spec(res.ins, outs):
        S.prove('c06.unpack_F3x9_E1x5.' + label, g, res.axioms, timeout=S.cap(60, 200), functions=['w_unpack_F3x9_E1x5'], vars_=[p], replay=S._replayer(res, (spec, label), None, U, 'unpack_F3x9_E1x5', 'fp', label),
                bounds='every 32-bit word; mantissa k at bits 9k..9k+8, exponent at bits 27..31; the product is exact; exp2f by contract (exact at integers)')
    if not S.quick: S.prove('c06.unpack_F3x9_E1x5.twin.next-field', outs[0][0].fp == z3.fpMul(RNE, z3.fpUnsignedToFP(RNE, m[1], F32), scale), res.axioms, kind='mutant-twin', expect='sat', mandatory=False, vars_=[p])
E5_BINADES = [None] + list(range(-16, 16))
def job_f3x9_pack(binades):
    """per binade E of the largest clamped component (None: below 2^-16) and per case of e5_cases: the shared exponent is max(E,-16)+16 or one more, and every mantissa is within 1/2 (+2^-15) of
    clamp(x_k)/2^(e-24) for the exponent e the function returns, i.e. the decoded value is within half a mantissa step of x_k"""
    def run(S):
        res, w, FL, M, same = e5_prepare('pack_F3x9_E1x5'); i = res.ins; allv = list(i[0]); Mb = z3.fpToIEEEBV(M); pre = lambda ins: [notnan(x) for x in ins[0]]
        fl = ['w_pack_F3x9_E1x5']; nm = 'c06.pack_F3x9_E1x5.'
        for j, g in enumerate(same): S.prove(nm + 'same-log2-argument%d' % j, g, pre(i), functions=fl, vars_=allv)
        for E in binades:
            cn = 'tiny' if E is None else 'E%d' % E; a = 0 if E is None else E + 16
            hy0 = pre(i) + res.axioms + [e5_binade(z3.fpToIEEEBV(e5_max(i)), E)]
            bnd = 'every non-NaN vector whose largest clamped component lies in the binade %s; exp2f/log2f by contract' % cn
            S.prove(nm + cn + '.binade-of-log2-argument', e5_binade(Mb, E), hy0, functions=fl, vars_=allv, bounds=bnd, timeout=S.cap(60, 200))
            cases, lemmas = e5_cases(w, FL, Mb, E); known = ['KF-C06-F3x9-sharedexp-max-pack'] if E == 15 else []
            for ln, g, hyp in lemmas: S.prove(nm + cn + '.' + ln, g, hyp, functions=fl, bounds='pure lemma')
            for case, hyp, wc, ev in cases:
                hy = hy0 + hyp
                if case == 'floor%s' % E or E is None and case == 'floor<=-16': S.prove(nm + '%s.%s.witness' % (cn, case), z3.BoolVal(False), hy, timeout=S.cap(20, 60), kind='witness', expect='sat', mandatory=False, functions=fl, vars_=allv)
                def spec(ins, o, ev=ev, a=a, word=None):
                    m, e = e5_fields(o[0][0] if word is None else word); g = [('shared-exponent', z3.And(e == ev, z3.BoolVal(ev in (a, a + 1))))]
                    for k in range(3):
                        Y = z3.fpMul(RNE, z3.fpFPToFP(RNE, e5_clamp(ins[0][k]), F64), z3.FPVal(2.0 ** (24 - ev), F64)); mf = z3.fpUnsignedToFP(RNE, m[k], F64); tol = z3.FPVal(E5_TOL, F64)
                        g.append(('quantised-lo%d' % k, z3.fpLEQ(z3.fpSub(RNE, mf, tol), Y))); g.append(('quantised-hi%d' % k, z3.fpLEQ(Y, z3.fpAdd(RNE, mf, tol))))
                    return g
                for label, g in spec(i, None, word=wc):
                    S._prove_known(nm + '%s.%s.%s' % (cn, case, label), g, hy, res, known, timeout=S.cap(60, 200), solver='z3', kind='spec', functions=fl, spec_fn=(spec, label), pre_fn=pre, unit=U,
                                   fname='pack_F3x9_E1x5', mode='fp', vars_=allv, bounds=bnd + '; case ' + case)
    return run
def e5_canonical(w): m, e = e5_fields(w); return z3.Or(e == 0, z3.UGE(m[0], 256), z3.UGE(m[1], 256), z3.UGE(m[2], 256))
def job_f3x9_repack(exps):
    """pack(unpack(p)) == p for every normalised code (largest mantissa >= 256, or exponent 0), per value of the exponent field"""
    def run(S):
        res, w, FL, M, same = e5_prepare('rt_F3x9_E1x5'); p = res.ins[0][0]; Mb = z3.fpToIEEEBV(M); pre = lambda ins: [e5_canonical(ins[0][0])]; fl = ['w_rt_F3x9_E1x5']; nm = 'c06.rt_F3x9_E1x5.'
        for j, g in enumerate(same): S.prove(nm + 'same-log2-argument%d' % j, g, pre(res.ins), functions=fl, vars_=[p])
        def spec(ins, o, word=None):
            mi, ei = e5_fields(ins[0][0]); mo, eo = e5_fields(o[0][0] if word is None else word)
            return [('repack-mantissa%d' % k, mo[k] == mi[k]) for k in range(3)] + [('repack-exponent', eo == ei)]
        for ev in exps:
            hy0 = pre(res.ins) + res.axioms + [e5_fields(p)[1] == ev]; bnd = 'every normalised word with exponent field %d; exp2f/log2f by contract' % ev
            # the decoded maximum lies in the binade ev-16 and is not within 16 ulps of the next one (exponent 0: below 2^-15), so floor(log2f) is ev-16 (exponent 0: <= -16) by the contract
            if ev == 0: S.prove(nm + 'e0.binade-of-log2-argument', z3.And(z3.Extract(31, 31, Mb) == 0, z3.ULE(z3.Extract(30, 23, Mb), 111), z3.ULT(z3.Extract(22, 0, Mb), (1 << 23) - 16)), hy0, functions=fl, vars_=[p], bounds=bnd)
            else: S.prove(nm + 'e%d.binade-of-log2-argument' % ev, z3.And(z3.Extract(31, 23, Mb) == ev - 16 + 127, z3.ULT(z3.Extract(22, 0, Mb), (1 << 23) - 16)), hy0, functions=fl, vars_=[p], bounds=bnd)
            cases, lemmas = e5_cases(w, FL, Mb, None if ev == 0 else ev - 16); cases = [c for c in cases if not c[0].startswith('floor%d' % (ev - 15))]
            for ln, g, hyp in lemmas: S.prove(nm + 'e%d.' % ev + ln, g, hyp, functions=fl, bounds='pure lemma')
            for case, hyp, wc, _ in cases:
                if not case.endswith('.carry'): S.prove(nm + 'e%d.%s.witness' % (ev, case), z3.BoolVal(False), hy0 + hyp, timeout=S.cap(20, 60), kind='witness', expect='sat', mandatory=False, functions=fl, vars_=[p])
                for label, g in spec(res.ins, None, word=wc):
                    S._prove_known(nm + 'e%d.%s.%s' % (ev, case, label), g, hy0 + hyp, res, ['KF-C06-F3x9-sharedexp-max-repack'], timeout=S.cap(60, 200), solver='z3', kind='spec', functions=fl, spec_fn=(spec, label), pre_fn=pre, unit=U,
                                   fname='rt_F3x9_E1x5', mode='fp', vars_=[p], bounds=bnd + '; case ' + case)
    return run

# ----------------------------------------------------------------------------- RGBM (rounding-erased)
def job_rgbm(t):
    # the constants 1/6 and 1e-6 are the rounded machine constants, so identities hold up to their relative rounding error: tolerance 2^-22 (float) / 2^-51 (double)
    eps = z3.RealVal(2) ** (-22 if t == 'float' else -51); rabs = lambda x: z3.If(x >= 0, x, -x)
    def run(S):
        S.check_fn(U, 'rgbm_rt_' + t, lambda i, o: [('unpack(pack(rgb))==rgb[%d]' % k, RGoal('le', rabs(o[0][k].r - i[0][k]), eps * rabs(i[0][k]))) for k in range(3)], mode='real',
                   bounds='rounding-erased arithmetic with the machine constants; all real rgb; relative tolerance 2^%d' % (-22 if t == 'float' else -51), timeout=S.cap(60, 200),
                   mutant=lambda i, o: [('exact', REq(o[0][0].r, i[0][0]))])
        def spec(i, o):
            a = o[0][3].r; mx = z3.If(i[0][0] >= i[0][1], i[0][0], i[0][1]); mx = z3.If(mx >= i[0][2], mx, i[0][2])
            return [('alpha-multiple-of-1/255', REq(a * 255, z3.ToReal(z3.ToInt(a * 255)))), ('alpha>=1/255', RGoal('ge', a * 255, z3.RealVal(1))), ('alpha<=1', RGoal('le', a, z3.RealVal(1))),
                    ('alpha>=max/6', RGoal('ge', a * 6 * (1 + eps), mx)), ('alpha-minimal', RGoal('lt', (a * 255 - 1) * 6, z3.If(mx * (1 + eps) * 255 >= 6 * 255 * z3.RealVal('1/1000000'), mx * (1 + eps) * 255, 6 * 255 * z3.RealVal('1/999999'))))] + \
                   [('component<=1[%d]' % k, RGoal('le', o[0][k].r, 1 + eps)) for k in range(3)] + [('component>=0[%d]' % k, RGoal('ge', o[0][k].r, z3.RealVal(0))) for k in range(3)]
        S.check_fn(U, 'rgbm_pack_' + t, spec, lambda i: [z3.And(x >= 0, x <= 6) for x in i[0]], mode='real', bounds='rounding-erased; rgb in [0,6]^3 (the encodable range)', timeout=S.cap(60, 200))
        S.check_fn(U, 'rgbm_unpack_' + t, lambda i, o: [('rgb[%d]==6*m*c' % k, REq(o[0][k].r, 6 * i[0][3] * i[0][k])) for k in range(3)], mode='real', bounds='rounding-erased; all real rgbm', timeout=S.cap(60, 200))
    return run

def jobs(tier):
    q = tier == 'quick'; J = []
    # layout of every field of every format against its reference field
    for nm, F in NORM.items():
        if has_layout(F): J.append(('layout_' + nm, job_layout(nm)))
    # the FP obligations on the reference fields
    for nm, refs in REFS.items():
        F = NORM[nm]
        for k in refs:
            b = F.fields[k][0]; tg = '%s_f%d' % (nm, k)
            J.append(('quant_' + tg, job_quant(nm, [k]))); J.append(('decode_' + tg, job_decode(nm, [k])))
            if F.fw == 32:
                J.append(('halfstep_' + tg, job_halfstep(nm, [k], emax=126 if b < 12 else HS16_MAXEXP)))
                if b >= 12 and not q: J += [('halfstep_%s_e%d' % (tg, e), job_halfstep(nm, [k], emax=e, emin=e)) for e in range(HS16_MAXEXP + 1, 127)]
            if F.fw == 32 and b < 9: J.append(('mono_' + tg, job_mono_adj(nm, [k])))
            elif F.fw == 32 and b < 12: J += [('mono_' + tg, job_mono_adj(nm, [k], emax=124)), ('mono_%s_top' % tg, job_mono_adj(nm, [k], emin=125))]
            if not q:
                if F.fw == 32 and b >= 12:      # 16-bit fields: adjacent-float monotonicity directly for |x| < 2^-6, optional above (quick: via the formula obligation and the rounding lemmas)
                    J.append(('mono_' + tg, job_mono_adj(nm, [k], emax=HS16_MAXEXP)))
                    J += [('mono_%s_e%d' % (tg, e), job_mono_adj(nm, [k], emin=e, emax=e, mandatory=False)) for e in range(HS16_MAXEXP + 1, 125)]       # e125/e126 need > 600 s per query
                if b < 12: J.append(('mono2_' + tg, job_mono(nm, [k])))     # the two-variable form (binary64 instances: the only form)
            if b >= 12: J += [('repack_%s_q%d' % (tg, h), job_repack(nm, [k], tops=tuple('top%d' % t for t in range(4 * h, 4 * h + 4)))) for h in range(4)]
    J.append(('round_lemmas', job_round_lemmas))
    # re-pack obligations directly on every field narrower than 12 bits of every format
    for nm, F in NORM.items():
        small = [k for k in range(F.L) if F.fields[k][0] < 12]
        if small: J.append(('repack_' + nm, job_repack(nm, small)))
    if not q:       # thorough: the reference-field obligations also directly on every other field
        for nm, F in NORM.items():
            rest = [k for k in range(F.L) if not is_ref(nm, k)]; small = [k for k in rest if F.fields[k][0] < 12]; big = [k for k in rest if k not in small]
            if not rest: continue
            J.append(('all_quant_' + nm, job_quant(nm, rest))); J.append(('all_decode_' + nm, job_decode(nm, rest)))
            if small and F.fw == 32: J.append(('all_halfstep_' + nm, job_halfstep(nm, small)))
            if small and F.fw == 32: J.append(('all_mono_' + nm, job_mono_adj(nm, small)))
            for k in big: J.append(('all_repack_%s_f%d' % (nm, k), job_repack(nm, [k])))
    for nm in INTF: J.append(('int_' + nm, job_int(nm)))
    for nm in ('I3x10_1x2', 'U3x10_1x2'): J.append(('int_' + nm, job_3x10(nm)))
    J.append(('double2x32', job_double)); J.append(('half', job_half))
    for L in (1, 2, 3, 4): J.append(('halfL%d' % L, job_halfL(L)))
    for t in ('float', 'double'): J.append(('rgbm_' + t, job_rgbm(t)))
    J += [('f2x11_decode', job_f2x11_decode), ('f2x11_pack', job_f2x11_pack), ('f2x11_mono', job_f2x11_mono), ('f2x11_repack', job_f2x11_repack)]
    J.append(('f3x9_decode', job_f3x9_decode))
    for grp in ([[None], [0], [15]] if q else [E5_BINADES[j:j + 3] for j in range(0, len(E5_BINADES), 3)]):
        J.append(('f3x9_pack_%s' % '_'.join('tiny' if E is None else 'E%d' % E for E in grp), job_f3x9_pack(grp)))
    for grp in ([[0, 1], [15, 16], [30, 31]] if q else [list(range(j, j + 4)) for j in range(0, 32, 4)]):
        J.append(('f3x9_repack_e%s' % '_'.join(str(e) for e in grp), job_f3x9_repack(grp)))
    # longest first (measured), so that the pool finishes evenly
    pri = ('f3x9_pack_E15', 'mono_Snorm3x10_1x2_f0', 'mono_Unorm3x10_1x2_f0', 'decode_t', 'halfstep_Snorm1x16', 'f3x9_pack', 'halfstep_Snorm3x10', 'repack_Unorm1x16', 'repack_Snorm1x16', 'repack_t', 'halfstep_', 'repack_', 'mono_', 'round', 'f3x9', 'decode_', 'quant_')
    J.sort(key=lambda j: next((n for n, p_ in enumerate(pri) if j[0].startswith(p_)), len(pri)))
    return J
