"""C06 - pack/unpack pairs of glm/packing.hpp and glm/gtc/packing.hpp: re-pack identity, layout, quantisation, clamping, monotonicity."""
from props.common import *
LEVEL = 'proof'
CLAIM = ("Every pack/unpack pair of glm/packing.hpp and glm/gtc/packing.hpp is executed symbolically from its clang IR. Per field of every normalised format the solver shows: "
         "pack(unpack(p)) keeps every canonical code, unpack(pack(unpack(p))) == unpack(p) for every word, the packed code equals round(clamp(x)*scale) in IEEE binary32 semantics and (independently, "
         "in exact widened arithmetic) lies within half a quantisation step of x, out-of-range values clamp to the end codes, packing is monotone, unpack is a faithful rounding of code/scale, "
         "and component k sits in field k with component 0 in the least significant bits. Integer/half/double formats: pure layout and lossless round trips. Small-float (F2x11_1x10) and shared-exponent "
         "(F3x9_E1x5) formats: decode value per code, truncation/rounding within one mantissa step, special codes and out-of-range behaviour; RGBM round trip in rounding-erased arithmetic.")
F32 = z3.Float32(); F64 = z3.Float64()

# ----------------------------------------------------------------------------- format tables (transcribed from the documentation, not from the code)
# normalised formats: name -> (word ctype, [(bits, kind, scale)] first component first = least significant field)
def _n(w, *f): return (w, list(f))
U8 = (8, 'u', 255); S8 = (8, 's', 127); U16 = (16, 'u', 65535); S16 = (16, 's', 32767)
NORM = {
    'Unorm2x16': _n('uint32_t', U16, U16), 'Snorm2x16': _n('uint32_t', S16, S16), 'Unorm4x8': _n('uint32_t', U8, U8, U8, U8), 'Snorm4x8': _n('uint32_t', S8, S8, S8, S8),
    'Unorm1x8': _n('uint8_t', U8), 'Unorm2x8': _n('uint16_t', U8, U8), 'Snorm1x8': _n('uint8_t', S8), 'Snorm2x8': _n('uint16_t', S8, S8),
    'Unorm1x16': _n('uint16_t', U16), 'Unorm4x16': _n('uint64_t', U16, U16, U16, U16), 'Snorm1x16': _n('uint16_t', S16), 'Snorm4x16': _n('uint64_t', S16, S16, S16, S16),
    'Snorm3x10_1x2': _n('uint32_t', (10, 's', 511), (10, 's', 511), (10, 's', 511), (2, 's', 1)),
    'Unorm3x10_1x2': _n('uint32_t', (10, 'u', 1023), (10, 'u', 1023), (10, 'u', 1023), (2, 'u', 3)),
    'Unorm2x4': _n('uint8_t', (4, 'u', 15), (4, 'u', 15)), 'Unorm4x4': _n('uint16_t', (4, 'u', 15), (4, 'u', 15), (4, 'u', 15), (4, 'u', 15)),
    'Unorm1x5_1x6_1x5': _n('uint16_t', (5, 'u', 31), (6, 'u', 63), (5, 'u', 31)), 'Unorm3x5_1x1': _n('uint16_t', (5, 'u', 31), (5, 'u', 31), (5, 'u', 31), (1, 'u', 1)),
    'Unorm2x3_1x2': _n('uint8_t', (3, 'u', 7), (3, 'u', 7), (2, 'u', 3)),
}
def offsets(fields):
    o = 0; r = []
    for (b, k, s) in fields: r.append(o); o += b
    return r
def fld(word, off, bits): return z3.Extract(off + bits - 1, off, word)

U = Unit('c06', includes=['glm/glm.hpp', 'glm/packing.hpp', 'glm/gtc/packing.hpp'])
def _arg(L, c='float', p='a'): return '%s[0]' % p if L == 1 else 'ldv<%d,%s>(%s)' % (L, c, p)
def _st(L, e, o='o'): return '%s[0] = %s;' % (o, e) if L == 1 else 'stv(%s, %s);' % (o, e)
for nm, (w, fl) in NORM.items():
    L = len(fl); P = 'glm::pack' + nm; Q = 'glm::unpack' + nm
    U.add('pack_' + nm, [('float', L)], [(w, 1)], 'o[0] = %s(%s);' % (P, _arg(L)))
    U.add('unpack_' + nm, [(w, 1)], [('float', L)], _st(L, '%s(a[0])' % Q))
    U.add('rt_' + nm, [(w, 1)], [(w, 1)], 'o[0] = %s(%s(a[0]));' % (P, Q))
    U.add('uru_' + nm, [(w, 1)], [('float', L), ('float', L)], _st(L, '%s(%s(%s(a[0])))' % (Q, P, Q)) + ' ' + _st(L, '%s(a[0])' % Q, 'o2'))
    U.add('mono_' + nm, [('float', L), ('float', L)], [(w, 2)], 'o[0] = %s(%s); o[1] = %s(%s);' % (P, _arg(L), P, _arg(L, 'float', 'b')))
def units(tier): return [U]

# ----------------------------------------------------------------------------- specification helpers (normalised formats)
def lo_of(kind): return 0.0 if kind == 'u' else -1.0
def code_formula(xb, bits, kind, scale, rm):
    """GLSL 4.20 8.4: round(clamp(x, lo, 1) * scale) evaluated in IEEE binary32, converted to the field's integer type"""
    x = fp32(xb); lo = FPV(lo_of(kind)); hi = FPV(1.0)
    cl = z3.If(z3.fpLT(x, lo), lo, z3.If(z3.fpGT(x, hi), hi, x))
    r = z3.fpRoundToIntegral(rm, z3.fpMul(RNE, cl, FPV(float(scale))))
    return z3.fpToUBV(RTZ, r, z3.BitVecSort(bits)) if kind == 'u' else z3.fpToSBV(RTZ, r, z3.BitVecSort(bits))
def code_to_f64(c, kind): return z3.fpUnsignedToFP(RNE, c, F64) if kind == 'u' else z3.fpSignedToFP(RNE, c, F64)
def code_to_f32(c, kind): return z3.fpUnsignedToFP(RNE, c, F32) if kind == 'u' else z3.fpSignedToFP(RNE, c, F32)
def slack_of(scale): return 0.5 + scale * 2.0 ** -24
def halfstep(xb, c, kind, scale, side):
    """|x*scale - c| <= 1/2 (+ half an ulp of the binary32 product), exact: binary32 x times an integer < 2^16 is exact in binary64, c +- const is exact"""
    P = z3.fpMul(RNE, z3.fpFPToFP(RNE, fp32(xb), F64), z3.FPVal(float(scale), F64)); C = code_to_f64(c, kind); s = z3.FPVal(slack_of(scale), F64)
    return z3.fpLEQ(z3.fpSub(RNE, C, s), P) if side == 'lo' else z3.fpLEQ(P, z3.fpAdd(RNE, C, s))
def in_range(xb, kind): return z3.And(z3.fpGEQ(fp32(xb), FPV(lo_of(kind))), z3.fpLEQ(fp32(xb), FPV(1.0)))
def notnan(xb): return z3.Not(is_nan(xb))
def maxcode(bits, kind, scale): return z3.BitVecVal(scale, bits)
def mincode(bits, kind, scale): return z3.BitVecVal(0 if kind == 'u' else -scale, bits)
def canonical(c, bits, kind): return z3.BoolVal(True) if kind == 'u' else c != z3.BitVecVal(1 << (bits - 1), bits)
def decode_bound(c, kind, scale, rm):
    """code/scale rounded in direction rm to binary32, signed formats clamped below at -1"""
    q = z3.fpDiv(rm, code_to_f32(c, kind), FPV(float(scale)))
    return q if kind == 'u' else z3.If(z3.fpLT(q, FPV(-1.0)), FPV(-1.0), q)
def code_le(a, b, kind): return z3.ULE(a, b) if kind == 'u' else a <= b

# exponent classes of a binary32 pattern that cover every non-NaN value; inside one class clamp() is decided by the bits alone
def exp_classes(kind):
    cls = [('ge1', lambda xb: z3.And(z3.Extract(31, 31, xb) == 0, z3.UGE(z3.Extract(30, 0, xb), 0x3f800000), z3.ULE(z3.Extract(30, 0, xb), 0x7f800000)))]
    for e in range(127): cls.append(('e%d' % e, lambda xb, e=e: z3.And(z3.Extract(31, 31, xb) == 0, z3.Extract(30, 23, xb) == e)))
    if kind == 'u':
        cls.append(('neg', lambda xb: z3.And(z3.Extract(31, 31, xb) == 1, z3.ULE(z3.Extract(30, 0, xb), 0x7f800000))))
    else:
        cls.append(('le-1', lambda xb: z3.And(z3.Extract(31, 31, xb) == 1, z3.UGE(z3.Extract(30, 0, xb), 0x3f800000), z3.ULE(z3.Extract(30, 0, xb), 0x7f800000))))
        for e in range(127): cls.append(('n%d' % e, lambda xb, e=e: z3.And(z3.Extract(31, 31, xb) == 1, z3.Extract(30, 23, xb) == e)))
    return cls

# ----------------------------------------------------------------------------- jobs (normalised formats)
def job_quant(nm, fields_sel=None):
    """layout + quantisation formula + clamping of pack"""
    w, fl = NORM[nm]; offs = offsets(fl); L = len(fl)
    sel = fields_sel if fields_sel is not None else range(L)
    def run(S):
        small = [k for k in sel if fl[k][0] < 12]; big = [k for k in sel if fl[k][0] >= 12]
        def spec(i, o, ks=None):
            g = []
            for k in (small if ks is None else ks):
                b, kind, sc = fl[k]; c = fld(o[0][0], offs[k], b); xb = i[0][k]
                g.append(('formula[%d]' % k, z3.Or(c == code_formula(xb, b, kind, sc, RNA), c == code_formula(xb, b, kind, sc, RNE))))
                g.append(('clamp-high[%d]' % k, z3.Implies(z3.fpGEQ(fp32(xb), FPV(1.0)), c == maxcode(b, kind, sc))))
                g.append(('clamp-low[%d]' % k, z3.Implies(z3.fpLEQ(fp32(xb), FPV(lo_of(kind))), c == mincode(b, kind, sc))))
            return g
        pre = lambda i: [notnan(x) for x in i[0]]
        def mut(i, o):
            k = (small or big)[0]; b, kind, sc = fl[k]; c = fld(o[0][0], offs[k], b)
            return [('scale+1', c == code_formula(i[0][k], b, kind, sc + 1, RNA)), ('next-component', c == code_formula(i[0][(k + 1) % L], b, kind, sc, RNA))] if L > 1 else \
                   [('scale+1', c == code_formula(i[0][k], b, kind, sc + 1, RNA))]
        if small or not big:
            S.check_fn(U, 'pack_' + nm, spec, pre, timeout=S.cap(120, 300), mutant=mut, bounds='every non-NaN component value (2^32 patterns per component), all other components free')
        if big:
            # 16-bit fields: the monolithic query does not finish; split the input space of component k into its sign/exponent classes (complete cover of the non-NaN floats)
            res = sym_call(U, 'pack_' + nm)
            fn = U.fns['pack_' + nm]; allv = [t for r in res.ins for t in r]
            for k in big:
                b, kind, sc = fl[k]
                specb = lambda i, o, k=k: spec(i, o, [k])
                for label in ('formula[%d]' % k, 'clamp-high[%d]' % k, 'clamp-low[%d]' % k):
                    goal = dict(specb(res.ins, res.outs))[label]
                    for cn, cf in exp_classes(kind):
                        on = 'c06.pack_%s.%s.%s' % (nm, label, cn)
                        rp = S._replayer(res, (specb, label), pre, U, 'pack_' + nm, 'fp', on)
                        S.prove(on, goal, [cf(res.ins[0][k])] + res.axioms, timeout=S.cap(60, 180), replay=rp, vars_=allv, functions=['w_pack_' + nm],
                                bounds='component %d in sign/exponent class %s (classes cover all non-NaN floats)' % (k, cn))
                # executor side obligations (float->int conversion in range) per class
                groups = {}
                for kd, cond, d in res.obligations: groups.setdefault((kd, d), []).append(cond)
                for (kd, d), conds in groups.items():
                    S.prove('c06.pack_%s.%s[%s]' % (nm, kd, d[:50]), z3.Not(z3.Or(*conds)) if len(conds) > 1 else z3.Not(conds[0]), pre(res.ins) + res.axioms, timeout=S.cap(120, 300), kind=kd, vars_=allv,
                            replay=S._replayer(res, None, pre, U, 'pack_' + nm, 'fp', 'side', side_kind=kd), functions=['w_pack_' + nm], bounds='all non-NaN components')
    return run

def job_halfstep(nm, fields_sel=None):
    """independent of the formula: |x*scale - code| <= 1/2 + half an ulp of the binary32 product, in exact binary64 arithmetic"""
    w, fl = NORM[nm]; offs = offsets(fl); L = len(fl)
    sel = fields_sel if fields_sel is not None else range(L)
    def run(S):
        for k in sel:
            b, kind, sc = fl[k]
            def spec(i, o, k=k, b=b, kind=kind, sc=sc):
                c = fld(o[0][0], offs[k], b)
                return [('within-half-step-lo[%d]' % k, halfstep(i[0][k], c, kind, sc, 'lo')), ('within-half-step-hi[%d]' % k, halfstep(i[0][k], c, kind, sc, 'hi'))]
            if b < 12:
                pre = lambda i, k=k, kind=kind: [notnan(x) for x in i[0]] + [in_range(i[0][k], kind)]
                S.check_fn(U, 'pack_' + nm, spec, pre, timeout=S.cap(150, 400), side=False, name='c06.pack_%s.hs%d' % (nm, k), validate=0,
                           mutant=lambda i, o, k=k, b=b, kind=kind, sc=sc: [('quarter-step', z3.fpLEQ(z3.fpSub(RNE, code_to_f64(fld(o[0][0], offs[k], b), kind), z3.FPVal(0.25, F64)),
                                                                                 z3.fpMul(RNE, z3.fpFPToFP(RNE, fp32(i[0][k]), F64), z3.FPVal(float(sc), F64))))],
                           bounds='component %d in [%g,1], slack %g code units' % (k, lo_of(kind), sc * 2.0 ** -24))
            else:
                # 16-bit fields: decided per exponent class for |x| < 2^-6 only (larger classes do not finish)
                for sg in ((0,) if kind == 'u' else (0, 1)):
                    for e in range(0, HS16_MAXEXP + 1):
                        pre = lambda i, k=k, e=e, sg=sg: [z3.Extract(31, 31, i[0][k]) == sg, z3.Extract(30, 23, i[0][k]) == e]
                        S.check_fn(U, 'pack_' + nm, spec, pre, timeout=S.cap(150, 400), side=False, name='c06.pack_%s.hs%d.%s%d' % (nm, k, 'n' if sg else 'e', e), validate=0, witness=False,
                                   bounds='component %d with sign %d, biased exponent %d' % (k, sg, e))
    return run
HS16_MAXEXP = 120

def job_mono(nm, fields_sel=None):
    w, fl = NORM[nm]; offs = offsets(fl); L = len(fl)
    sel = [k for k in (fields_sel if fields_sel is not None else range(L)) if fl[k][0] < 12]
    def run(S):
        def spec(i, o):
            return [('monotone[%d]' % k, code_le(fld(o[0][0], offs[k], fl[k][0]), fld(o[0][1], offs[k], fl[k][0]), fl[k][1])) for k in sel]
        pre = lambda i: [notnan(x) for x in i[0] + i[1]] + [z3.fpLEQ(fp32(i[0][k]), fp32(i[1][k])) for k in range(L)]
        S.check_fn(U, 'mono_' + nm, spec, pre, timeout=S.cap(200, 500), side=False, mutant=lambda i, o: [('strict', z3.Not(code_le(fld(o[0][1], offs[sel[0]], fl[sel[0]][0]), fld(o[0][0], offs[sel[0]], fl[sel[0]][0]), fl[sel[0]][1])))],
                   bounds='all pairs of non-NaN vectors with x_k <= y_k')
    return run

def job_repack(nm, fields_sel=None):
    w, fl = NORM[nm]; offs = offsets(fl); L = len(fl)
    sel = fields_sel if fields_sel is not None else range(L)
    def run(S):
        def spec(i, o):
            g = []
            for k in sel:
                b, kind, sc = fl[k]; c = fld(i[0][0], offs[k], b); r = fld(o[0][0], offs[k], b)
                g.append(('repack[%d]' % k, z3.Implies(canonical(c, b, kind), r == c)))
                if kind == 's': g.append(('most-negative-to-min[%d]' % k, z3.Implies(z3.Not(canonical(c, b, kind)), r == mincode(b, kind, sc))))
            return g
        def mut(i, o):
            k = sel[0]; b, kind, sc = fl[k]; c = fld(i[0][0], offs[k], b); r = fld(o[0][0], offs[k], b)
            return [('also-noncanonical', r == c)] if kind == 's' else [('plus-one', r == c + 1)]
        S.check_fn(U, 'rt_' + nm, spec, timeout=S.cap(200, 500), mutant=mut, bounds='every word (all 2^%d), per field' % ct_bits(w))
        def spec2(i, o): return [('unpack-pack-unpack[%d]' % k, o[0][k].bits == o[1][k].bits) for k in sel]
        S.check_fn(U, 'uru_' + nm, spec2, timeout=S.cap(200, 500), bounds='every word (all 2^%d), per component' % ct_bits(w))
    return run

def ordv(b):
    """position of a binary32 pattern in the IEEE total order (+0 == -0) as a 35-bit signed integer"""
    mag = z3.ZeroExt(4, z3.Extract(30, 0, b)); return z3.If(z3.Extract(31, 31, b) == 1, -mag, mag)
def job_decode(nm):
    w, fl = NORM[nm]; offs = offsets(fl); L = len(fl)
    def run(S):
        def spec(i, o):
            g = []
            for k in range(L):
                b, kind, sc = fl[k]; c = fld(i[0][0], offs[k], b); ob = o[0][k].bits
                g.append(('decode-lower[%d]' % k, ordv(z3.fpToIEEEBV(decode_bound(c, kind, sc, RTN))) - 1 <= ordv(ob)))
                g.append(('decode-upper[%d]' % k, ordv(ob) <= ordv(z3.fpToIEEEBV(decode_bound(c, kind, sc, RTP))) + 1))
                g.append(('decode-one[%d]' % k, z3.Implies(c == maxcode(b, kind, sc), ob == 0x3f800000)))
                g.append(('decode-zero[%d]' % k, z3.Implies(c == 0, ob == 0)))
                if kind == 's': g.append(('decode-minus-one[%d]' % k, z3.Implies(z3.Or(c == mincode(b, kind, sc), z3.Not(canonical(c, b, kind))), ob == 0xbf800000)))
                g.append(('decode-not-nan[%d]' % k, z3.Not(is_nan(ob))))
            return g
        def mut(i, o):
            b, kind, sc = fl[0]; c = fld(i[0][0], offs[0], b)
            return [('scale+1', ordv(o[0][0].bits) <= ordv(z3.fpToIEEEBV(z3.fpDiv(RTP, code_to_f32(c, kind), FPV(float(sc + 1))))) + 1)] + \
                   ([('next-field', ordv(z3.fpToIEEEBV(decode_bound(fld(i[0][0], offs[1], fl[1][0]), fl[1][1], fl[1][2], RTN))) - 1 <= ordv(o[0][0].bits))] if L > 1 else [])
        S.check_fn(U, 'unpack_' + nm, spec, timeout=S.cap(120, 300), mutant=mut,
                   bounds='every word; component k within one binary32 ulp of the directed roundings of field_k/scale (signed: max(.,-1)); end codes decode to exactly 0, 1, -1')
    return run

def jobs(tier):
    q = tier == 'quick'; J = []
    for nm in NORM:
        J.append(('quant_' + nm, job_quant(nm))); J.append(('halfstep_' + nm, job_halfstep(nm))); J.append(('mono_' + nm, job_mono(nm)))
        J.append(('repack_' + nm, job_repack(nm))); J.append(('decode_' + nm, job_decode(nm)))
    return J
