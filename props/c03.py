"""C03 - SIMD-intrinsic builds return the same results as the pure C++ path.

Translation validation: one operation table is compiled (a) with GLM_FORCE_PURE on packed types and (b) with GLM_FORCE_INTRINSICS on
aligned types at each x86 level; both IRs are executed symbolically on shared inputs.  Operations whose result is a single correctly
rounded IEEE operation, an integer/bit operation, a comparison, a selection or a rounding are compared bit-for-bit ([fp]/[bit]);
multi-term floating expressions are compared in the rounding-erased semantics ([real]: the two DAGs compute the same polynomial /
rational function) and their branch decisions are compared as IEEE terms."""
from props.common import *
LEVEL = 'translation_validation'
CLAIM = ("Every vector/matrix/quaternion operation that has a SIMD specialisation in glm/detail/*_simd.inl (plus the generic operators on aligned types) is compiled from /repo as GLM_FORCE_PURE "
         "(packed types) and as GLM_FORCE_INTRINSICS (aligned types) at SSE2, SSE3, SSSE3, SSE4.1, SSE4.2, AVX, AVX2 and AVX2+FMA; both IRs are executed symbolically on shared inputs; the solver shows "
         "bit-identical results for the integer/bitwise/comparison/selection/rounding/single-operation class and exact (rounding-erased) equality of the computed expressions for the multi-term class.")
BOUNDS = 'all argument values in the documented domain (non-NaN for min/max/clamp/step, finite for rounding functions, non-zero integer divisors); operation table in evidence; ISA levels listed in units'
OUTSIDE = ('magnitude of the rounding difference of multi-term expressions (only rounding-erased equality is decided); lowp reciprocal/rsqrt accuracy beyond the Intel SDM contract; AVX-512 / NEON; '
           'NaN payloads; GLM_FORCE_QUAT_DATA_WXYZ x SIMD is covered for the quaternion operations only')
ASSUMPTIONS = ['x86 intrinsic semantics per Intel SDM as modelled in engine/models.py:x86', 'libm transcendentals are shared uninterpreted functions']

INC = ['glm/glm.hpp', 'glm/gtc/quaternion.hpp', 'glm/gtc/matrix_inverse.hpp']
P = Unit('c03pure', includes=INC, defines=['GLM_FORCE_PURE', 'QQ=glm::packed_highp', 'QL=glm::packed_lowp', 'QM=glm::packed_mediump'])
SPEC = {}      # fname -> (class, pre)
def add(name, ins, outs, body, cls='ident', pre=None):
    P.add(name, ins, outs, body); SPEC[name] = (cls, pre)

def nonan(*arrs): return lambda i: [z3.Not(is_nan(x)) for k in arrs for x in i[k]]
def fin(*arrs): return lambda i: [finite(x) for k in arrs for x in i[k]]
for L in (3, 4):
    for s_, T in (('f', 'float'), ('d', 'double')):
        V = 'ldv<%d,%s,QQ>' % (L, T)
        add('add%d_%s' % (L, s_), [(T, L), (T, L)], [(T, L)] * 4, 'stv(o, %s(a) + %s(b)); stv(o2, %s(a) - %s(b)); stv(o3, %s(a) * %s(b)); stv(o4, %s(a) / %s(b));' % ((V,) * 8))
        add('scal%d_%s' % (L, s_), [(T, L), (T, 1)], [(T, L)] * 4, 'stv(o, %s(a) + b[0]); stv(o2, b[0] - %s(a)); stv(o3, %s(a) * b[0]); stv(o4, %s(a) / b[0]);' % ((V,) * 4))
        add('cmp%d_%s' % (L, s_), [(T, L), (T, L)], [('bool', 2)], 'o[0] = (%s(a) == %s(b)); o[1] = (%s(a) != %s(b));' % ((V,) * 4))
        add('neg%d_%s' % (L, s_), [(T, L)], [(T, L)], 'stv(o, -%s(a));' % V)
    V = 'ldv<%d,float,QQ>' % L
    for f in ('abs', 'floor', 'ceil', 'round', 'fract', 'sqrt', 'sign', 'trunc', 'roundEven', 'inversesqrt'):
        add('%s%d_f' % (f, L), [('float', L)], [('float', L)], 'stv(o, glm::%s(%s(a)));' % (f, V), pre=fin(0) if f in ('floor', 'ceil', 'round', 'fract', 'trunc', 'roundEven') else None)
    for f in ('min', 'max', 'step', 'mod'):
        add('%s%d_f' % (f, L), [('float', L), ('float', L)], [('float', L)], 'stv(o, glm::%s(%s(a), %s(b)));' % (f, V, V), pre=nonan(0, 1), cls='ident' if f != 'mod' else 'real')
    add('clamp%d_f' % L, [('float', L), ('float', L), ('float', L)], [('float', L)], 'stv(o, glm::clamp(%s(a), %s(b), %s(c)));' % (V, V, V), pre=nonan(0, 1, 2))
    add('mixb%d_f' % L, [('float', L), ('float', L), ('bool', L)], [('float', L)], 'stv(o, glm::mix(%s(a), %s(b), ldv<%d,bool,QQ>(c)));' % (V, V, L))
    add('mix%d_f' % L, [('float', L), ('float', L), ('float', L)], [('float', L)], 'stv(o, glm::mix(%s(a), %s(b), %s(c)));' % (V, V, V), cls='real')
    add('fma%d_f' % L, [('float', L), ('float', L), ('float', L)], [('float', L)], 'stv(o, glm::fma(%s(a), %s(b), %s(c)));' % (V, V, V), cls='real')
    add('smooth%d_f' % L, [('float', L), ('float', L), ('float', L)], [('float', L)], 'stv(o, glm::smoothstep(%s(a), %s(b), %s(c)));' % (V, V, V), cls='real')
    add('dot%d_f' % L, [('float', L), ('float', L)], [('float', 1)], 'o[0] = glm::dot(%s(a), %s(b));' % (V, V), cls='real')
    add('len%d_f' % L, [('float', L), ('float', L)], [('float', 2)], 'o[0] = glm::length(%s(a)); o[1] = glm::distance(%s(a), %s(b));' % (V, V, V), cls='real')
    add('norm%d_f' % L, [('float', L)], [('float', L)], 'stv(o, glm::normalize(%s(a)));' % V, cls='real')
    add('refl%d_f' % L, [('float', L), ('float', L)], [('float', L)], 'stv(o, glm::reflect(%s(a), %s(b)));' % (V, V), cls='real')
    add('refr%d_f' % L, [('float', L), ('float', L), ('float', 1)], [('float', L)], 'stv(o, glm::refract(%s(a), %s(b), c[0]));' % (V, V), cls='real')
    add('face%d_f' % L, [('float', L), ('float', L), ('float', L)], [('float', L)], 'stv(o, glm::faceforward(%s(a), %s(b), %s(c)));' % (V, V, V), cls='real')
    for s_, T in (('i', 'int32_t'), ('u', 'uint32_t')):
        V = 'ldv<%d,%s,QQ>' % (L, T)
        add('iarith%d_%s' % (L, s_), [(T, L), (T, L)], [(T, L)] * 3, 'stv(o, %s(a) + %s(b)); stv(o2, %s(a) - %s(b)); stv(o3, %s(a) * %s(b));' % ((V,) * 6))
        add('idiv%d_%s' % (L, s_), [(T, L), (T, L)], [(T, L)] * 2, 'stv(o, %s(a) / %s(b)); stv(o2, %s(a) %% %s(b));' % ((V,) * 4),
            pre=lambda i, sg=(s_ == 'i'): [y != 0 for y in i[1]] + ([z3.Not(z3.And(x == (1 << 31), y == -1)) for x, y in zip(i[0], i[1])] if sg else []))
        add('ibit%d_%s' % (L, s_), [(T, L), (T, L)], [(T, L)] * 4, 'stv(o, %s(a) & %s(b)); stv(o2, %s(a) | %s(b)); stv(o3, %s(a) ^ %s(b)); stv(o4, ~%s(a));' % ((V,) * 7))
        add('ishift%d_%s' % (L, s_), [(T, L), (T, 1)], [(T, L)] * 2, 'stv(o, %s(a) << b[0]); stv(o2, %s(a) >> b[0]);' % (V, V), pre=lambda i, sg=(s_ == 'i'): [z3.ULT(i[1][0], 32)] + ([x >= 0 for x in i[0]] if sg else []))
        add('icmp%d_%s' % (L, s_), [(T, L), (T, L)], [('bool', 2)], 'o[0] = (%s(a) == %s(b)); o[1] = (%s(a) != %s(b));' % ((V,) * 4))
        add('iminmax%d_%s' % (L, s_), [(T, L), (T, L), (T, L)], [(T, L)] * 3, 'stv(o, glm::min(%s(a), %s(b))); stv(o2, glm::max(%s(a), %s(b))); stv(o3, glm::clamp(%s(a), %s(b), %s(c)));' % ((V,) * 7))
    add('iabs%d' % L, [('int32_t', L)], [('int32_t', L)], 'stv(o, glm::abs(ldv<%d,int32_t,QQ>(a)));' % L, pre=lambda i: [x != (1 << 31) for x in i[0]])
    add('ubits%d' % L, [('uint32_t', L)], [('int', L), ('uint32_t', L)], 'stv(o, glm::bitCount(ldv<%d,uint32_t,QQ>(a))); stv(o2, glm::bitfieldReverse(ldv<%d,uint32_t,QQ>(a)));' % (L, L))
    add('conv%d' % L, [('float', L), ('int32_t', L)], [('int32_t', L), ('float', L)], 'stv(o, glm::vec<%d,int,QQ>(ldv<%d,float,QQ>(a))); stv(o2, glm::vec<%d,float,QQ>(ldv<%d,int32_t,QQ>(b)));' % (L, L, L, L),
        pre=lambda i: [z3.And(z3.Not(is_nan(x)), z3.fpLT(z3.fpAbs(fpof(x)), FPV(2.0 ** 31))) for x in i[0]])
    # lowp: may use rcp/rsqrt approximations
    VL = 'ldv<%d,float,QL>' % L
add('cross_f', [('float', 3), ('float', 3)], [('float', 3)], 'stv(o, glm::cross(ldv<3,float,QQ>(a), ldv<3,float,QQ>(b)));', cls='real')
add('swz4_f', [('float', 4)], [('float', 4)] * 2, 'glm::vec<4,float,QQ> v = ldv<4,float,QQ>(a); stv(o, glm::vec<4,float,QQ>(v.w, v.z, v.y, v.x)); stv(o2, glm::vec<4,float,QQ>(glm::vec<3,float,QQ>(v), 1.0f));')
for (C, s_) in ((3, 'f'), (4, 'f')):
    M = 'ldm<%d,%d,float,QQ>' % (C, C)
    add('mmul%d' % C, [('float', C * C), ('float', C * C)], [('float', C * C)], 'stm(o, %s(a) * %s(b));' % (M, M), cls='real')
    add('mvec%d' % C, [('float', C * C), ('float', C)], [('float', C)] * 2, 'stv(o, %s(a) * ldv<%d,float,QQ>(b)); stv(o2, ldv<%d,float,QQ>(b) * %s(a));' % (M, C, C, M), cls='real')
    add('mtr%d' % C, [('float', C * C)], [('float', C * C)] * 2, 'stm(o, glm::transpose(%s(a))); stm(o2, glm::matrixCompMult(%s(a), %s(a)));' % (M, M, M))
    add('mdet%d' % C, [('float', C * C)], [('float', 1)], 'o[0] = glm::determinant(%s(a));' % M, cls='real')
    add('minv%d' % C, [('float', C * C)], [('float', C * C)], 'stm(o, glm::inverse(%s(a)));' % M, cls='real')
    add('mops%d' % C, [('float', C * C), ('float', C * C), ('float', 1)], [('float', C * C)] * 4, 'stm(o, %s(a) + %s(b)); stm(o2, %s(a) - %s(b)); stm(o3, %s(a) * c[0]); stm(o4, %s(a) / c[0]);' % ((M,) * 6))
add('outer4', [('float', 4), ('float', 4)], [('float', 16)], 'stm(o, glm::outerProduct(ldv<4,float,QQ>(a), ldv<4,float,QQ>(b)));')
for s_, T in (('f', 'float'), ('d', 'double')):
    Q = 'ldq<%s,QQ>' % T
    add('qadd_' + s_, [(T, 4), (T, 4), (T, 1)], [(T, 4)] * 4, 'stq(o, %s(a) + %s(b)); stq(o2, %s(a) - %s(b)); stq(o3, %s(a) * c[0]); stq(o4, %s(a) / c[0]);' % ((Q,) * 6))
    add('qmul_' + s_, [(T, 4), (T, 4)], [(T, 4)], 'stq(o, %s(a) * %s(b));' % (Q, Q), cls='real')
    add('qrot_' + s_, [(T, 4), (T, 4)], [(T, 4)], 'stv(o, %s(a) * ldv<4,%s,QQ>(b));' % (Q, T), cls='real')
    add('qdot_' + s_, [(T, 4), (T, 4)], [(T, 1)], 'o[0] = glm::dot(%s(a), %s(b));' % (Q, Q), cls='real')

SIMD_DEF = ['GLM_FORCE_INTRINSICS', 'QQ=glm::aligned_highp', 'QL=glm::aligned_lowp', 'QM=glm::aligned_mediump']
ISA = {'sse2': ['-msse2'], 'sse3': ['-msse3'], 'ssse3': ['-mssse3'], 'sse41': ['-msse4.1'], 'sse42': ['-msse4.2'], 'avx': ['-mavx'], 'avx2': ['-mavx2'], 'avx2fma': ['-mavx2', '-mfma']}
QUICK_ISA = ['sse2', 'sse41', 'avx2fma']
def mk_simd(name, cf, extra=()):
    u = P.clone('c03' + name, defines=SIMD_DEF + list(extra), cflags=cf); u.includes = P.includes + ['glm/gtc/type_aligned.hpp']; return u
S_ = {k: mk_simd(k, v) for k, v in ISA.items()}
PW = P.clone('c03pure_wxyz', defines=P.defines + ['GLM_FORCE_QUAT_DATA_WXYZ'])
SW = {k: mk_simd(k + '_wxyz', ISA[k], ['GLM_FORCE_QUAT_DATA_WXYZ']) for k in ('sse2', 'avx2fma')}
NATIVE = False
def units(tier):
    isa = QUICK_ISA if tier == 'quick' else list(ISA)
    return [P, PW] + [S_[k] for k in isa] + [SW[k] for k in SW]

def groups(names, k):
    names = sorted(names); n = (len(names) + k - 1) // k
    return [names[i:i + n] for i in range(0, len(names), n)]
def job(isa, names, wxyz=False):
    def run(S):
        ua, ub = (PW, SW[isa]) if wxyz else (P, S_[isa])
        tag = isa + ('_wxyz' if wxyz else '')
        for fn in names:
            cls, pre = SPEC[fn]
            nm = 'c03.%s.%s' % (tag, fn)
            b = 'all argument values in the documented domain; pure/packed vs intrinsics/aligned at %s' % ' '.join(ISA[isa])
            if cls == 'ident':
                S.diff_fn(ua, ub, fn, pre, name=nm, timeout=S.cap(40, 120), label_a='pure', label_b=tag, bounds=b, known=known_for(isa, fn), solver='portfolio' if fn.startswith('idiv') else 'z3')
            else:
                left = S.diff_fn(ua, ub, fn, pre, name=nm, label_a='pure', label_b=tag, bounds=b + ' [bit-identical terms]', syntactic_only=True)
                if left:       # the two expression DAGs differ: compare them in the rounding-erased semantics
                    n0 = len(S.inconclusive)
                    S.diff_fn(ua, ub, fn, pre, mode='erase', name=nm + '.real', timeout=S.cap(40, 120), label_a='pure', label_b=tag, bounds=b + ' [rounding-erased equality]')
                    ne = [x for x in S.inconclusive[n0:] if 'not encoded' in x]
                    if ne:      # the SIMD code relies on rounding itself (magic-number tricks): rounding erasure is meaningless there, compare bit-precisely instead
                        del S.inconclusive[n0:]
                        S.diff_fn(ua, ub, fn, pre, name=nm + '.bits', timeout=S.cap(60, 180), label_a='pure', label_b=tag, bounds=b + ' [bit-precise; rounding erasure not applicable]', known=known_for(isa, fn))
                    if getattr(S, 'last_approx_ufs', None):
                        S.rec(name=nm + '.no-approx', kind='structure', functions=[fn], bounds=b, solver='term DAG inspection', result='present', status='approximation-intrinsic', mandatory=False,
                              note='hardware approximation %s reachable from a non-lowp result' % sorted(S.last_approx_ufs))
    return run
def known_for(isa, fn):
    k = []
    if fn == 'abs4_f': k.append('KF-C03-abs-negative-zero')
    if fn == 'round4_f': k.append('KF-C03-round-ties')
    if isa in ('sse2', 'sse3', 'ssse3') and re.match(r'(round|floor|ceil|fract|mod)4_f', fn): k.append('KF-C03-sse2-rounding-fallback')
    return k
def _round_tie(res, i):
    xf = fpof(res.ins[0][i])
    return z3.fpToIEEEBV(z3.fpRoundToIntegral(z3.RNA(), xf)) != z3.fpToIEEEBV(z3.fpRoundToIntegral(z3.RNE(), xf))
def _sse2_region(res, i):
    xf = fpof(res.ins[0][i])
    if res.fn.name.startswith('mod'): xf = z3.fpDiv(RNE, xf, fpof(res.ins[1][i]))
    return z3.Or(z3.fpGEQ(z3.fpAbs(xf), FPV(2.0 ** 23)), z3.And(z3.fpLEQ(xf, FPV(0.0)), z3.fpGT(xf, FPV(-1.0))), z3.fpIsNaN(xf))
REGIONS = {'round_tie': _round_tie, 'sse2_round_region': _sse2_region}
def jobs(tier):
    q = tier == 'quick'; J = []
    for isa in (QUICK_ISA if q else list(ISA)):
        for gi, g in enumerate(groups(P.fns, 3 if q else 4)): J.append(('%s.%d' % (isa, gi), job(isa, g)))
    qn = [f for f in P.fns if f.startswith('q')]
    for isa in SW: J.append(('%s_wxyz' % isa, job(isa, qn, True)))
    return J
def PROGRAMS(recs): return len({tuple(x['name'].split('.')[1:3]) for x in recs if x.get('kind') == 'diff'})
