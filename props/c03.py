"""C03 - SIMD-intrinsic builds return the same results as the pure C++ path.

Translation validation: one operation table is compiled (a) with GLM_FORCE_PURE on packed types and (b) with GLM_FORCE_INTRINSICS on
aligned types at each x86 level; both IRs are executed symbolically (bit-exact IEEE / bit-vector semantics) on shared inputs.

 * identical class (integer, bitwise, comparison, selection, conversion, rounding-to-integer, single correctly rounded operation):
   every output element of the SIMD build equals the pure one bit for bit (NaN payloads excepted) - [fp]/[bit] solver query per element.
 * multi-term class (dot, cross, products, determinant, inverse, mix, reflect, refract ...): (1) the two canonicalised IEEE terms are
   the same term, or (2) after rounding erasure at the term level (engine/erase.py) the two DAGs denote the same rational function
   (polynomial normal form, z3 non-linear real arithmetic as fall-back), plus (3) the structure obligation: no hardware rcp/rsqrt
   approximation reachable from a non-lowp result, plus (4) for the operations with a discontinuous branch (refract's total internal
   reflection, faceforward's sign test) the IEEE decision terms of the two builds are proved equivalent bit-precisely.
 * lowp approximations: the rounding-erased lowp result is within 2^-11 relative of the exact one under the Intel SDM contract.
Builds whose LLVM IR for a wrapper is textually identical to an already checked build share that verdict (the executor sees only the IR)."""
from props.common import *
import hashlib, re, time, fnmatch, json
from fractions import Fraction
from harness import _cone_of_influence, _mentions_fp
LEVEL = 'translation_validation'
CLAIM = ("Every vector/matrix/quaternion operation that has a SIMD specialisation in glm/detail/*_simd.inl, glm/ext/*_simd.inl (plus the generic operators on aligned types and the glm_vec4_*/glm_mat4_* kernels of "
         "glm/simd/*.h that no operation reaches) is compiled from /repo as GLM_FORCE_PURE (packed types) and as GLM_FORCE_INTRINSICS (aligned types) at SSE2, SSE3, SSSE3, SSE4.1, SSE4.2, AVX, AVX2 and "
         "AVX2+GLM_FORCE_FMA; both IRs are executed symbolically on shared inputs; the solver shows bit-identical results for the integer/bitwise/comparison/selection/rounding/single-operation class, exact "
         "(rounding-erased) equality of the computed expressions plus bit-precise equivalence of the discontinuous branch decisions for the multi-term class, magnitude domination of the SIMD intermediates (every rounded add/sub/mul/div/fma node n of the SIMD expression satisfies |n| <= c * max(|pure intermediates|, |operands|) with c <= 16 for all inputs: normal forms, a QF_LRA query over monomial variables, a nonlinear query as fall-back; with the erased equality this is the property's 'few units of rounding of the largest intermediate term' to first order, and it excludes SIMD-only overflow / inf - inf), and the 2^-11 bound for the lowp approximations.")
BOUNDS = ('all argument values in the documented domain (non-NaN for min/max/clamp/step, finite for the rounding functions, non-zero integer divisors, shift counts below the width, non-negative signed shift operands); '
          'operation table in evidence; every ISA level in both tiers (builds with textually identical IR for a wrapper share one verdict)')
OUTSIDE = ('magnitude of the rounding difference of multi-term expressions beyond the first-order argument (decided: rounding-erased equality, bit-precise equality of the discontinuous decisions, and the domination of every SIMD intermediate by the pure intermediates and operands - the two operations where it fails are known findings); intermediates of lowp operations and nodes whose normal form could not be computed (count in the evidence note) are not compared; lowp reciprocal/rsqrt accuracy is '
           'decided on rounding-erased terms under the Intel SDM contract (|rel. error| <= 1.5*2^-12, positive normal argument), not for the final rounding; AVX-512 / NEON; NaN payloads; '
           'GLM_FORCE_QUAT_DATA_WXYZ x SIMD: quaternion operations at SSE2 and AVX2+FMA in quick, every level in thorough; aligned_lowp vec3 and aligned_mediump vec3 instances: lowp vec3 in the thorough tier only, mediump vec3 not instantiated (same templates as highp); '
           'lowp operations that merely contain a division or square root (mod, smoothstep, normalize ... on aligned_lowp) are compared with rcpps/rsqrtps read as the exact 1/x, 1/sqrt x (the 2^-11 bound is decided for the '
           'operations that ARE the approximation: lowp operator/ and sqrt); branch decisions of min/max/clamp-like selections inside multi-term expressions are not compared as decisions (continuous; covered by the erased equality); '
           'kernels of glm/simd/*.h that no glm operation calls: sign, mix, add/sub/mul/div, swizzle, vec4_dot, mat4_mul, mat4_mul_vec4, vec4_mul_mat4, mat4_add/sub, determinant_highp/_lowp (thorough) are mandatory; '
           'glm_vec4_roundEven, glm_vec4_clamp, glm_vec4_step, glm_vec4_nan/_inf differ from the operation they are named after and are attempted as optional obligations only (recorded as kernel-differs, no VIOLATION: no glm operation returns their result); '
           'dead specialisations (compute_vec_*<..., IsInt = true, ...>: is_int<int>::value is ~0, never true) cannot be observed')
ASSUMPTIONS = ['x86 intrinsic semantics per Intel SDM as modelled in engine/models.py:x86', 'libm transcendentals are shared uninterpreted functions',
               'the LLVM IR of a wrapper determines its behaviour: two ISA builds with textually identical IR for a wrapper (attributes and metadata stripped) share one verdict']

TRUSTED = ['props/c03.py: term canonicalisation by exact IEEE identities (commutativity of fp.add/fp.mul/fp.eq, a > b as b < a, x ^ signbit as -x), the rational-function normal form used for rounding-erased equality '
           '(exact rational arithmetic; equal cross-multiplied polynomials), the structural-congruence prover (every lemma decided by z3; common subterms generalised to fresh constants; zero-sign case analysis per operator) '
           'and the sharing of verdicts between ISA builds whose LLVM IR for a wrapper (including referenced globals, callees and named types) is textually identical']
INC = ['glm/glm.hpp', 'glm/gtc/quaternion.hpp', 'glm/gtc/matrix_inverse.hpp']
P = Unit('c03pure', includes=INC, defines=['GLM_FORCE_PURE', 'QQ=glm::packed_highp', 'QL=glm::packed_lowp', 'QM=glm::packed_mediump'])
# an aligned vec3 that is the xyz part of an aligned vec4: the 4th SIMD lane (padding) keeps the vec4's w, as after a register-level reinterpretation; the pure build converts component-wise
P.extra_prelude = '''
template<typename T, glm::qualifier Q> static inline glm::vec<3,T,Q> xyz_of4(const T* p){
#if GLM_ARCH & GLM_ARCH_SSE2_BIT
  glm::vec<3,T,Q> v; v.data = ldv<4,T,Q>(p).data; return v;
#else
  return glm::vec<3,T,Q>(ldv<4,T,Q>(p));
#endif
}
'''
SPEC = {}      # fname -> dict(cls, pre, dec, tier, opt, weight, pad)
def add(name, ins, outs, body, cls='ident', pre=None, dec=False, tier='quick', opt=False, weight=1.0, pad=()):
    P.add(name, ins, outs, body); SPEC[name] = dict(cls=cls, pre=pre, dec=dec, tier=tier, opt=opt, weight=weight, pad=tuple(pad))

def nonan(*arrs): return lambda i: [z3.Not(is_nan(x)) for k in arrs for x in i[k]]
def fin(*arrs): return lambda i: [finite(x) for k in arrs for x in i[k]]
ROUNDF = ('floor', 'ceil', 'round', 'fract', 'trunc', 'roundEven')
def vec_ops(L, Q, sfx, tier):
    """operations on vec<L,*,Q>; sfx distinguishes the qualifier instance in the wrapper names"""
    for s_, T in (('f', 'float'), ('d', 'double')):
        V = 'ldv<%d,%s,%s>' % (L, T, Q)
        t2 = tier if s_ == 'f' or L == 4 else 'thorough'
        add('add%d_%s%s' % (L, s_, sfx), [(T, L), (T, L)], [(T, L)] * 4, 'stv(o, %s(a) + %s(b)); stv(o2, %s(a) - %s(b)); stv(o3, %s(a) * %s(b)); stv(o4, %s(a) / %s(b));' % ((V,) * 8), tier=t2,
            cls='ident' if Q != 'QL' else 'lowpdiv')
        add('scal%d_%s%s' % (L, s_, sfx), [(T, L), (T, 1)], [(T, L)] * 4, 'stv(o, %s(a) + b[0]); stv(o2, b[0] - %s(a)); stv(o3, %s(a) * b[0]); stv(o4, %s(a) / b[0]);' % ((V,) * 4), tier=t2,
            cls='ident' if Q != 'QL' else 'lowpdiv')
        add('cmp%d_%s%s' % (L, s_, sfx), [(T, L), (T, L)], [('bool', 2)], 'o[0] = (%s(a) == %s(b)); o[1] = (%s(a) != %s(b));' % ((V,) * 4), tier=t2)
        add('neg%d_%s%s' % (L, s_, sfx), [(T, L)], [(T, L)], 'stv(o, -%s(a));' % V, tier=t2)
    V = 'ldv<%d,float,%s>' % (L, Q)
    for f in ('abs', 'floor', 'ceil', 'round', 'fract', 'sqrt', 'sign', 'trunc', 'roundEven', 'inversesqrt'):
        c = 'ident'
        if Q == 'QL' and f == 'sqrt' and L == 4: c = 'lowpsqrt'
        if Q == 'QL' and f == 'inversesqrt': continue         # lowp inversesqrt is the bit-trick approximation in BOTH builds (same generic code); nothing SIMD specific
        add('%s%d_f%s' % (f, L, sfx), [('float', L)], [('float', L)], 'stv(o, glm::%s(%s(a)));' % (f, V), pre=fin(0) if f in ROUNDF else None, tier=tier, cls=c)
    for f in ('min', 'max', 'step', 'mod'):
        add('%s%d_f%s' % (f, L, sfx), [('float', L), ('float', L)], [('float', L)], 'stv(o, glm::%s(%s(a), %s(b)));' % (f, V, V), pre=nonan(0, 1), cls='ident' if f != 'mod' else 'real', tier=tier)
    add('clamp%d_f%s' % (L, sfx), [('float', L), ('float', L), ('float', L)], [('float', L)], 'stv(o, glm::clamp(%s(a), %s(b), %s(c)));' % (V, V, V), pre=nonan(0, 1, 2), tier=tier)
    add('mixb%d_f%s' % (L, sfx), [('float', L), ('float', L), ('bool', L)], [('float', L)], 'stv(o, glm::mix(%s(a), %s(b), ldv<%d,bool,%s>(c)));' % (V, V, L, Q), tier=tier)
    add('mix%d_f%s' % (L, sfx), [('float', L), ('float', L), ('float', L)], [('float', L)], 'stv(o, glm::mix(%s(a), %s(b), %s(c)));' % (V, V, V), cls='real', tier=tier)
    add('fma%d_f%s' % (L, sfx), [('float', L), ('float', L), ('float', L)], [('float', L)], 'stv(o, glm::fma(%s(a), %s(b), %s(c)));' % (V, V, V), cls='real', tier=tier)
    add('smooth%d_f%s' % (L, sfx), [('float', L), ('float', L), ('float', L)], [('float', L)], 'stv(o, glm::smoothstep(%s(a), %s(b), %s(c)));' % (V, V, V), cls='real', tier=tier)
    add('dot%d_f%s' % (L, sfx), [('float', L), ('float', L)], [('float', 1)], 'o[0] = glm::dot(%s(a), %s(b));' % (V, V), cls='real', tier=tier)
    add('len%d_f%s' % (L, sfx), [('float', L), ('float', L)], [('float', 2)], 'o[0] = glm::length(%s(a)); o[1] = glm::distance(%s(a), %s(b));' % (V, V, V), cls='real', tier=tier)
    add('norm%d_f%s' % (L, sfx), [('float', L)], [('float', L)], 'stv(o, glm::normalize(%s(a)));' % V, cls='real', tier=tier)
    add('refl%d_f%s' % (L, sfx), [('float', L), ('float', L)], [('float', L)], 'stv(o, glm::reflect(%s(a), %s(b)));' % (V, V), cls='real', tier=tier)
    add('refr%d_f%s' % (L, sfx), [('float', L), ('float', L), ('float', 1)], [('float', L)], 'stv(o, glm::refract(%s(a), %s(b), c[0]));' % (V, V), cls='real', dec=True, tier=tier)
    add('face%d_f%s' % (L, sfx), [('float', L), ('float', L), ('float', L)], [('float', L)], 'stv(o, glm::faceforward(%s(a), %s(b), %s(c)));' % (V, V, V), cls='real', dec=True, tier=tier)
    if sfx: return
    for s_, T in (('i', 'int32_t'), ('u', 'uint32_t')):
        V = 'ldv<%d,%s,%s>' % (L, T, Q)
        add('iarith%d_%s' % (L, s_), [(T, L), (T, L)], [(T, L)] * 3, 'stv(o, %s(a) + %s(b)); stv(o2, %s(a) - %s(b)); stv(o3, %s(a) * %s(b));' % ((V,) * 6))
        add('iscal%d_%s' % (L, s_), [(T, L), (T, 1)], [(T, L)] * 3, 'stv(o, %s(a) + b[0]); stv(o2, b[0] - %s(a)); stv(o3, %s(a) * b[0]);' % ((V,) * 3))
        add('idiv%d_%s' % (L, s_), [(T, L), (T, L)], [(T, L)] * 2, 'stv(o, %s(a) / %s(b)); stv(o2, %s(a) %% %s(b));' % ((V,) * 4),
            pre=lambda i, sg=(s_ == 'i'): [y != 0 for y in i[1]] + ([z3.Not(z3.And(x == (1 << 31), y == -1)) for x, y in zip(i[0], i[1])] if sg else []))
        add('ibit%d_%s' % (L, s_), [(T, L), (T, L)], [(T, L)] * 4, 'stv(o, %s(a) & %s(b)); stv(o2, %s(a) | %s(b)); stv(o3, %s(a) ^ %s(b)); stv(o4, ~%s(a));' % ((V,) * 7))
        add('ishift%d_%s' % (L, s_), [(T, L), (T, 1)], [(T, L)] * 2, 'stv(o, %s(a) << b[0]); stv(o2, %s(a) >> b[0]);' % (V, V), pre=lambda i, sg=(s_ == 'i'): [z3.ULT(i[1][0], 32)] + ([x >= 0 for x in i[0]] if sg else []))
        add('ishiftv%d_%s' % (L, s_), [(T, L), (T, L)], [(T, L)] * 2, 'stv(o, %s(a) << %s(b)); stv(o2, %s(a) >> %s(b));' % ((V,) * 4), pre=lambda i, sg=(s_ == 'i'): [z3.ULT(y, 32) for y in i[1]] + ([x >= 0 for x in i[0]] if sg else []))
        add('icmp%d_%s' % (L, s_), [(T, L), (T, L)], [('bool', 2)], 'o[0] = (%s(a) == %s(b)); o[1] = (%s(a) != %s(b));' % ((V,) * 4))
        add('iminmax%d_%s' % (L, s_), [(T, L), (T, L), (T, L)], [(T, L)] * 3, 'stv(o, glm::min(%s(a), %s(b))); stv(o2, glm::max(%s(a), %s(b))); stv(o3, glm::clamp(%s(a), %s(b), %s(c)));' % ((V,) * 7))
    add('iabs%d' % L, [('int32_t', L)], [('int32_t', L)] * 2, 'stv(o, glm::abs(ldv<%d,int32_t,%s>(a))); stv(o2, glm::sign(ldv<%d,int32_t,%s>(a)));' % (L, Q, L, Q), pre=lambda i: [x != (1 << 31) for x in i[0]])
    add('ubits%d' % L, [('uint32_t', L)], [('int', L), ('uint32_t', L)], 'stv(o, glm::bitCount(ldv<%d,uint32_t,%s>(a))); stv(o2, glm::bitfieldReverse(ldv<%d,uint32_t,%s>(a)));' % (L, Q, L, Q))
    add('conv%d' % L, [('float', L), ('int32_t', L)], [('int32_t', L), ('float', L)], 'stv(o, glm::vec<%d,int,%s>(ldv<%d,float,%s>(a))); stv(o2, glm::vec<%d,float,%s>(ldv<%d,int32_t,%s>(b)));' % (L, Q, L, Q, L, Q, L, Q),
        pre=lambda i: [z3.And(z3.Not(is_nan(x)), z3.fpLT(z3.fpAbs(fpof(x)), FPV(2.0 ** 31))) for x in i[0]])
for L in (3, 4): vec_ops(L, 'QQ', '', 'quick')
# ---- padding lane: aligned vec3 operands whose 4th SIMD lane is an arbitrary input value (incl. inf / NaN); no operation on a vec3 may depend on it
X = 'xyz_of4<float,QQ>'; F4 = ('float', 4)
add('pdot3_f', [F4, F4], [('float', 1)], 'o[0] = glm::dot(%s(a), %s(b));' % (X, X), cls='real', pad=(0, 1))
add('plen3_f', [F4, F4], [('float', 2)], 'o[0] = glm::length(%s(a)); o[1] = glm::distance(%s(a), %s(b));' % (X, X, X), cls='real', pad=(0, 1))
add('pnorm3_f', [F4], [('float', 3)], 'stv(o, glm::normalize(%s(a)));' % X, cls='real', pad=(0,))
add('pcross3_f', [F4, F4], [('float', 3)], 'stv(o, glm::cross(%s(a), %s(b)));' % (X, X), cls='real', pad=(0, 1))
add('prefl3_f', [F4, F4], [('float', 3)], 'stv(o, glm::reflect(%s(a), %s(b)));' % (X, X), cls='real', pad=(0, 1))
add('prefr3_f', [F4, F4, ('float', 1)], [('float', 3)], 'stv(o, glm::refract(%s(a), %s(b), c[0]));' % (X, X), cls='real', dec=True, pad=(0, 1))
add('pface3_f', [F4, F4, F4], [('float', 3)], 'stv(o, glm::faceforward(%s(a), %s(b), %s(c)));' % (X, X, X), cls='real', dec=True, pad=(0, 1, 2))
add('padd3_f', [F4, F4], [('float', 3)] * 4, 'stv(o, %s(a) + %s(b)); stv(o2, %s(a) - %s(b)); stv(o3, %s(a) * %s(b)); stv(o4, %s(a) / %s(b));' % ((X,) * 8), pad=(0, 1))
add('pcmp3_f', [F4, F4], [('bool', 2)], 'o[0] = (%s(a) == %s(b)); o[1] = (%s(a) != %s(b));' % ((X,) * 4), pad=(0, 1))
add('pmvec3', [('float', 9), F4], [('float', 3)] * 2, 'stv(o, ldm<3,3,float,QQ>(a) * %s(b)); stv(o2, %s(b) * ldm<3,3,float,QQ>(a));' % (X, X), cls='real', pad=(1,))
add('cross_f', [('float', 3), ('float', 3)], [('float', 3)], 'stv(o, glm::cross(ldv<3,float,QQ>(a), ldv<3,float,QQ>(b)));', cls='real')
add('swz4_f', [('float', 4)], [('float', 4)] * 3, 'glm::vec<4,float,QQ> v = ldv<4,float,QQ>(a); stv(o, glm::vec<4,float,QQ>(v.w, v.z, v.y, v.x)); stv(o2, glm::vec<4,float,QQ>(glm::vec<3,float,QQ>(v), 1.0f)); stv(o3, glm::vec<4,float,QQ>(v.x));')
add('bitsd4', [('uint64_t', 4), ('uint64_t', 4)], [('uint64_t', 4)] * 4, 'typedef glm::vec<4,glm::uint64,QQ> V; V x = ldv<4,glm::uint64,QQ>((const glm::uint64*)a), y = ldv<4,glm::uint64,QQ>((const glm::uint64*)b); '
    'stv(o, x & y); stv(o2, x | y); stv(o3, x ^ y); stv(o4, ~x);')
add('fma4_d', [('double', 4), ('double', 4), ('double', 4)], [('double', 4)], 'stv(o, glm::fma(ldv<4,double,QQ>(a), ldv<4,double,QQ>(b), ldv<4,double,QQ>(c)));', cls='real')
for (C, s_) in ((3, 'f'), (4, 'f')):
    M = 'ldm<%d,%d,float,QQ>' % (C, C)
    add('mmul%d' % C, [('float', C * C), ('float', C * C)], [('float', C * C)], 'stm(o, %s(a) * %s(b));' % (M, M), cls='real')
    add('mvec%d' % C, [('float', C * C), ('float', C)], [('float', C)] * 2, 'stv(o, %s(a) * ldv<%d,float,QQ>(b)); stv(o2, ldv<%d,float,QQ>(b) * %s(a));' % (M, C, C, M), cls='real')
    add('mtr%d' % C, [('float', C * C), ('float', C * C)], [('float', C * C)] * 2, 'stm(o, glm::transpose(%s(a))); stm(o2, glm::matrixCompMult(%s(a), %s(b)));' % (M, M, M))
    add('mdet%d' % C, [('float', C * C)], [('float', 1)], 'o[0] = glm::determinant(%s(a));' % M, cls='real')
    add('minv%d' % C, [('float', C * C)], [('float', C * C)], 'stm(o, glm::inverse(%s(a)));' % M, cls='real', weight=4.0 if C == 4 else 1.0)
    add('mops%d' % C, [('float', C * C), ('float', C * C), ('float', 1)], [('float', C * C)] * 4, 'stm(o, %s(a) + %s(b)); stm(o2, %s(a) - %s(b)); stm(o3, %s(a) * c[0]); stm(o4, %s(a) / c[0]);' % ((M,) * 6))
add('outer4', [('float', 4), ('float', 4)], [('float', 16)], 'stm(o, glm::outerProduct(ldv<4,float,QQ>(a), ldv<4,float,QQ>(b)));')
for s_, T in (('f', 'float'), ('d', 'double')):
    Q = 'ldq<%s,QQ>' % T
    add('qadd_' + s_, [(T, 4), (T, 4), (T, 1)], [(T, 4)] * 4, 'stq(o, %s(a) + %s(b)); stq(o2, %s(a) - %s(b)); stq(o3, %s(a) * c[0]); stq(o4, %s(a) / c[0]);' % ((Q,) * 6))
    add('qscal_' + s_, [(T, 4), (T, 1)], [(T, 4)] * 2, '{ auto q = %s(a); q *= b[0]; stq(o, q); } { auto q = %s(a); q /= b[0]; stq(o2, q); }' % (Q, Q))       # compound forms: the only users of compute_quat_mul_scalar / _div_scalar
    add('qmul_' + s_, [(T, 4), (T, 4)], [(T, 4)], 'stq(o, %s(a) * %s(b));' % (Q, Q), cls='real')
    add('qrot_' + s_, [(T, 4), (T, 4)], [(T, 4)], 'stv(o, %s(a) * ldv<4,%s,QQ>(b));' % (Q, T), cls='real')
    add('qrot3_' + s_, [(T, 4), (T, 3)], [(T, 3)], 'stv(o, %s(a) * ldv<3,%s,QQ>(b));' % (Q, T), cls='real')
    add('qdot_' + s_, [(T, 4), (T, 4)], [(T, 2)], 'o[0] = glm::dot(%s(a), %s(b)); o[1] = glm::length(%s(a));' % (Q, Q, Q), cls='real')
    add('qmisc_' + s_, [(T, 4)], [(T, 4)] * 3, 'stq(o, glm::conjugate(%s(a))); stq(o2, glm::inverse(%s(a))); stq(o3, glm::normalize(%s(a)));' % (Q, Q, Q), cls='real')
QNAMES = [f for f in P.fns if f.startswith('q')]
# precision-qualifier instances: lowp may use the hardware approximations (sqrt, /), mediump must not
vec_ops(4, 'QL', '_lp', 'quick')
vec_ops(4, 'QM', '_mp', 'quick')
vec_ops(3, 'QL', '_lp', 'thorough')

# kernels of glm/simd/*.h that no glm operation reaches: called directly in the SIMD build, compared with the operation they are named after in the pure build
def kernel(name, ins, outs, simd_body, pure_body, **kw):
    add(name, ins, outs, '#if GLM_ARCH & GLM_ARCH_SSE2_BIT\n%s\n#else\n%s\n#endif' % (simd_body, pure_body), **kw)
LV = 'ldv<4,float,QQ>'
def k1(name, kern, pure, n=1, **kw):
    args = ['abc'[j] for j in range(n)]
    kernel('k_' + name, [('float', 4)] * n, [('float', 4)], 'glm::vec<4,float,QQ> r; r.data = %s(%s); stv(o, r);' % (kern, ', '.join('%s(%s).data' % (LV, x) for x in args)),
           'stv(o, %s(%s));' % (pure, ', '.join('%s(%s)' % (LV, x) for x in args)), **kw)
k1('sign', 'glm_vec4_sign', 'glm::sign')
k1('roundEven', 'glm_vec4_roundEven', 'glm::roundEven', pre=fin(0), opt=True)
k1('clamp', 'glm_vec4_clamp', 'glm::clamp', 3, pre=lambda i: nonan(0, 1, 2)(i) + [z3.fpLEQ(fpof(x), fpof(y)) for x, y in zip(i[1], i[2])], opt=True)
k1('mix', 'glm_vec4_mix', 'glm::mix', 3, cls='real')
k1('step', 'glm_vec4_step', 'glm::step', 2, pre=nonan(0, 1), opt=True)
k1('add', 'glm_vec4_add', 'glm::operator+', 2); k1('sub', 'glm_vec4_sub', 'glm::operator-', 2); k1('mul', 'glm_vec4_mul', 'glm::operator*', 2); k1('div', 'glm_vec4_div', 'glm::operator/', 2)
k1('swz', 'glm_vec4_swizzle_xyzw', '', 1)
kernel('k_dot4', [('float', 4), ('float', 4)], [('float', 4)], 'glm::vec<4,float,QQ> r; r.data = glm_vec4_dot(%s(a).data, %s(b).data); stv(o, r);' % (LV, LV), 'stv(o, glm::vec<4,float,QQ>(glm::dot(%s(a), %s(b))));' % (LV, LV), cls='real')
kernel('k_nan', [('float', 4)], [('bool', 4)] * 2, 'glm::vec<4,float,QQ> r, q; r.data = glm_vec4_nan(%s(a).data); q.data = glm_vec4_inf(%s(a).data); for(int i = 0; i < 4; ++i){ uint32_t u, v; std::memcpy(&u, &r[i], 4); std::memcpy(&v, &q[i], 4); o[i] = u != 0; o2[i] = v != 0; }' % (LV, LV),
       'stv(o, glm::isnan(%s(a))); stv(o2, glm::isinf(%s(a)));' % (LV, LV), opt=True)
MV = 'ldm<4,4,float,QQ>'
kernel('k_mmul4', [('float', 16), ('float', 16)], [('float', 16)], 'glm::mat<4,4,float,QQ> x = %s(a), y = %s(b), r; glm_mat4_mul(&x[0].data, &y[0].data, &r[0].data); stm(o, r);' % (MV, MV), 'stm(o, %s(a) * %s(b));' % (MV, MV), cls='real')
kernel('k_mvec4', [('float', 16), ('float', 4)], [('float', 4)] * 2, 'glm::mat<4,4,float,QQ> x = %s(a); glm::vec<4,float,QQ> r, q; r.data = glm_mat4_mul_vec4(&x[0].data, %s(b).data); q.data = glm_vec4_mul_mat4(%s(b).data, &x[0].data); stv(o, r); stv(o2, q);' % (MV, LV, LV),
       'stv(o, %s(a) * %s(b)); stv(o2, %s(b) * %s(a));' % (MV, LV, LV, MV), cls='real')
kernel('k_madd4', [('float', 16), ('float', 16)], [('float', 16)] * 2, 'glm::mat<4,4,float,QQ> x = %s(a), y = %s(b), r, q; glm_mat4_add(&x[0].data, &y[0].data, &r[0].data); glm_mat4_sub(&x[0].data, &y[0].data, &q[0].data); stm(o, r); stm(o2, q);' % (MV, MV),
       'stm(o, %s(a) + %s(b)); stm(o2, %s(a) - %s(b));' % (MV, MV, MV, MV))
kernel('k_mdet4', [('float', 16)], [('float', 2)], 'glm::mat<4,4,float,QQ> x = %s(a); o[0] = _mm_cvtss_f32(glm_mat4_determinant_highp(&x[0].data)); o[1] = _mm_cvtss_f32(glm_mat4_determinant_lowp(&x[0].data));' % MV,
       'o[0] = glm::determinant(%s(a)); o[1] = o[0];' % MV, cls='real', tier='thorough')
KNAMES = [f for f in P.fns if f.startswith('k_')]

SIMD_DEF = ['GLM_FORCE_INTRINSICS', 'QQ=glm::aligned_highp', 'QL=glm::aligned_lowp', 'QM=glm::aligned_mediump']
ISA = {'sse2': ['-msse2'], 'sse3': ['-msse3'], 'ssse3': ['-mssse3'], 'sse41': ['-msse4.1'], 'sse42': ['-msse4.2'], 'avx': ['-mavx'], 'avx2': ['-mavx2'], 'avx2fma': ['-mavx2', '-mfma']}
XDEF = {'avx2fma': ['GLM_FORCE_FMA']}
def mk_simd(name, cf, extra=()):
    u = P.clone('c03' + name, defines=SIMD_DEF + list(extra), cflags=cf); u.includes = P.includes + ['glm/gtc/type_aligned.hpp']; return u
S_ = {k: mk_simd(k, v, XDEF.get(k, ())) for k, v in ISA.items()}
PW = P.clone('c03pure_wxyz', defines=P.defines + ['GLM_FORCE_QUAT_DATA_WXYZ'])
SW = {k: mk_simd(k + '_wxyz', ISA[k], ['GLM_FORCE_QUAT_DATA_WXYZ'] + XDEF.get(k, [])) for k in ISA}
for u_ in [PW] + list(SW.values()): u_.fns = {k: v for k, v in u_.fns.items() if k in QNAMES}
NATIVE = False
WXYZ_QUICK = ('sse2', 'avx2fma')
def wxyz_isas(tier): return WXYZ_QUICK if tier == 'quick' else tuple(ISA)
def prebuild_native(us):
    """every unit is also built natively and each symbolic term is compared with native execution on sampled inputs (validates the x86 intrinsic models).  g++ rejects the AVX2 units
    (compute_fma<4, double> calls _mm256_fmadd_pd without -mfma when the compiler is not clang - a glm build defect outside this property): those are built with clang++-14 instead."""
    from concurrent.futures import ThreadPoolExecutor
    def one(u):
        try: u.native()
        except RuntimeError:
            try: u._lib[('g++', '-O2')] = u.native('clang++-14')
            except RuntimeError: pass
    with ThreadPoolExecutor(max_workers=12) as tp: list(tp.map(one, us))
def units(tier):
    return [P] + [S_[k] for k in ISA] + [PW] + [SW[k] for k in wxyz_isas(tier)]

# ----------------------------------------------------------------------------- IR-level de-duplication of ISA builds
_IRDEFS = {}
def ir_defs(unit):
    if unit.name not in _IRDEFS:
        txt = open(unit.compile_ll()).read(); d = {}
        for part in txt.split('\ndefine ')[1:]:
            body = 'define ' + part[:part.find('\n}\n') + 3]
            m = re.search(r'@([\w.$]+)\(', body)
            if m: d[m.group(1)] = body
        for m in re.finditer(r'^@([\w.$]+) = [^\n]*$', txt, re.M): d[m.group(1)] = m.group(0)
        for m in re.finditer(r'^(%[\w.$]+|%"[^"]+") = type [^\n]*$', txt, re.M): d[m.group(1)] = m.group(0)          # named types: their layout is part of the meaning of the body
        _IRDEFS[unit.name] = d
    return _IRDEFS[unit.name]
def _norm_ir(s):
    s = re.sub(r'#\d+', '', s); s = re.sub(r',? ![\w.]+ !\d+', '', s); s = re.sub(r';[^\n]*', '', s); return s
def ir_key(unit, fname, _seen=None):
    d = ir_defs(unit); seen = _seen if _seen is not None else set()
    name = fname if _seen is not None else 'w_' + fname
    if name in seen or name not in d: return ''
    seen.add(name); b = _norm_ir(d[name]); h = b
    for r in sorted(set(re.findall(r'@([\w.$]+)', b)) | set(re.findall(r'%[\w.$]+|%"[^"]+"', b))):
        if r != name and r in d: h += ir_key(unit, r, seen)
    return hashlib.sha256(h.encode()).hexdigest()[:16] if _seen is None else h

# ----------------------------------------------------------------------------- canonical form of IEEE terms (exact identities only)
def _signop(b):
    """concat(~x[n-1], x[n-2:0]) -> ('neg', x);  concat(0, x[n-2:0]) -> ('abs', x)"""
    if not (z3.is_app_of(b, z3.Z3_OP_CONCAT) and b.num_args() == 2): return None
    hi, lo = b.arg(0), b.arg(1); n = b.size()
    if hi.size() != 1 or not z3.is_app_of(lo, z3.Z3_OP_EXTRACT): return None
    ph, pl = lo.params()
    if ph != n - 2 or pl != 0 or lo.arg(0).size() != n: return None
    x = lo.arg(0)
    if z3.is_bv_value(hi) and hi.as_long() == 0: return 'abs', x
    if z3.is_app_of(hi, z3.Z3_OP_BNOT) and z3.is_app_of(hi.arg(0), z3.Z3_OP_EXTRACT) and hi.arg(0).params() == [n - 1, n - 1] and hi.arg(0).arg(0).eq(x): return 'neg', x
    return None
_CANON = {}
def canon(t):
    """operands of the commutative IEEE operations (fp.add, fp.mul, fp.eq, fp.min/max are NOT commutative on zeros -> untouched) in one order; a > b as b < a; to_fp(to_ieee_bv(x)) as x"""
    k = t.get_id()
    if k in _CANON: return _CANON[k][1]
    r = t
    if z3.is_app(t) and t.num_args() > 0:
        ch = [canon(c) for c in t.children()]; dk = t.decl().kind()
        if dk in (z3.Z3_OP_FPA_ADD, z3.Z3_OP_FPA_MUL) and ch[1].get_id() > ch[2].get_id(): ch = [ch[0], ch[2], ch[1]]
        if dk == z3.Z3_OP_FPA_EQ and ch[0].get_id() > ch[1].get_id(): ch = [ch[1], ch[0]]
        if dk == z3.Z3_OP_FPA_GT: r = z3.fpLT(ch[1], ch[0])
        elif dk == z3.Z3_OP_FPA_GE: r = z3.fpLEQ(ch[1], ch[0])
        elif dk == z3.Z3_OP_FPA_TO_FP and len(ch) == 1 and z3.is_app_of(ch[0], z3.Z3_OP_FPA_TO_IEEE_BV) and ch[0].arg(0).sort() == t.sort(): r = ch[0].arg(0)
        elif dk == z3.Z3_OP_FPA_TO_FP and len(ch) == 1 and _signop(ch[0]) is not None:      # the simplifier's form of x ^ signbit / x & ~signbit under a bitcast: -x / |x| (one NaN)
            op, x = _signop(ch[0]); r = (z3.fpNeg if op == 'neg' else z3.fpAbs)(canon(z3.fpBVToFP(x, t.sort())))
        elif any(not a.eq(b) for a, b in zip(ch, t.children())): r = t.decl()(*ch)
    _CANON[k] = (t, r); return r

def subterms(t, acc=None):
    acc = {} if acc is None else acc; st = [t]
    while st:
        x = st.pop(); k = x.get_id()
        if k in acc: continue
        acc[k] = x; st.extend(x.children())
    return acc
FP_CMP = (z3.Z3_OP_FPA_LT, z3.Z3_OP_FPA_LE, z3.Z3_OP_FPA_GT, z3.Z3_OP_FPA_GE, z3.Z3_OP_FPA_EQ)
def fp_atoms(ts):
    acc = {}
    for t in ts: subterms(t, acc)
    return [x for x in acc.values() if z3.is_app(x) and x.decl().kind() in FP_CMP]

# ----------------------------------------------------------------------------- bit-precise equality by structural congruence
_LEMMAS = {}
_COMM = (z3.Z3_OP_FPA_ADD, z3.Z3_OP_FPA_MUL, z3.Z3_OP_FPA_EQ, z3.Z3_OP_BADD, z3.Z3_OP_BMUL, z3.Z3_OP_BAND, z3.Z3_OP_BOR, z3.Z3_OP_BXOR, z3.Z3_OP_AND, z3.Z3_OP_OR, z3.Z3_OP_EQ, z3.Z3_OP_DISTINCT)
def _alpha_key(asserts):
    """digest of the assertions modulo renaming of the uninterpreted constants and modulo operand order of commutative operators: constants are numbered in the order of a traversal that
    visits commutative operands sorted by their name-blind skeleton digest (sha256 throughout)"""
    sk = {}; keep = []
    def sig(t):
        d = t.decl(); return '%s|%s|%s' % (d.name(), d.params() if d.kind() not in (z3.Z3_OP_UNINTERPRETED,) and t.num_args() > 0 else '', t.sort())
    def skel(t):
        k = t.get_id()
        if k in sk: return sk[k]
        if z3.is_const(t) and t.decl().kind() == z3.Z3_OP_UNINTERPRETED: r = hashlib.sha256(('?' + str(t.sort())).encode()).digest()
        elif t.num_args() == 0: r = hashlib.sha256(t.sexpr().encode()).digest()
        else:
            cs = [skel(c) for c in t.children()]
            if t.decl().kind() in _COMM: cs.sort()
            r = hashlib.sha256(sig(t).encode() + b''.join(cs)).digest()
        sk[k] = r; keep.append(t); return r
    def kids(t):
        ch = t.children()
        if t.decl().kind() in _COMM: ch = sorted(ch, key=skel)
        return ch
    names = {}; vis = set(); st = list(reversed(asserts))
    for a_ in asserts: skel(a_)
    while st:
        t = st.pop()
        if t.get_id() in vis: continue
        vis.add(t.get_id())
        if z3.is_const(t) and t.decl().kind() == z3.Z3_OP_UNINTERPRETED: names.setdefault(t.get_id(), 'c%d' % len(names)); continue
        st.extend(reversed(kids(t)))
    fu = {}
    def full(t):
        k = t.get_id()
        if k in fu: return fu[k]
        if k in names: r = hashlib.sha256((names[k] + str(t.sort())).encode()).digest()
        elif t.num_args() == 0: r = hashlib.sha256(t.sexpr().encode()).digest()
        else: r = hashlib.sha256(sig(t).encode() + b''.join(full(c) for c in kids(t))).digest()
        fu[k] = r; return r
    return b''.join(full(a_) for a_ in asserts)
class Cong:
    """prove x == y for two executor terms under hyps.  Identical terms are equal; terms with the same operator are equal when their operands are (congruence); every other pair is a lemma for the
    solver in which the maximal subterms common to both sides are replaced by fresh constants (a generalisation: sound for 'unsat').  Besides 'eq' (bit-identical, one NaN) the relation 'zs' is tracked
    for IEEE terms: equal, or both a zero (of either sign) - the only way a sum can change when a zero term is added.  A node whose operands are related by eq/zs is decided by a one-operator case
    analysis: every zs operand is either non-zero (then it is the same value on both sides) or one of the four sign combinations of two zeros; the other operands become one fresh constant each."""
    ZP = {32: z3.FPVal(0.0, FSORT[32]), 64: z3.FPVal(0.0, FSORT[64])}
    def __init__(s, S, hyps, per_query=10.0, budget=60.0):
        s.S = S; s.hyps = list(hyps); s.memo = {}; s.per = per_query; s.left = budget; s.lemmas = 0; s.time = 0.0; s.keep = []; s.cases = {}; s.idm = {}; s.hv = {}; s.timeouts = 0; s.cached = 0
    def eq(s, x, y):
        r = s.rel(x, y)
        if r != 'eq' and s.timeouts and s.left > 0:       # a lemma ran out of time (machine under load?): once more with five times the slice; proven lemmas are kept
            s.memo = {k: v for k, v in s.memo.items() if v is not None}; s.per *= 5; s.timeouts = 0; r = s.rel(x, y)
        return r == 'eq'
    def ids(s, t):
        k = t.get_id()
        if k not in s.idm: s.idm[k] = frozenset(subterms(t))
        return s.idm[k]
    def rel(s, x, y):
        if x.eq(y): return 'eq'
        k = (x.get_id(), y.get_id())
        if k in s.memo: return s.memo[k]
        s.keep.append((x, y)); r = None
        if z3.is_app(x) and z3.is_app(y) and x.num_args() > 0 and x.num_args() == y.num_args() and x.decl().eq(y.decl()):
            xc, yc = x.children(), y.children(); alts = [yc]
            if x.decl().kind() in (z3.Z3_OP_FPA_ADD, z3.Z3_OP_FPA_MUL):       # commutative: also the crossed alignment, the one sharing more subterms first
                alts.append([yc[0], yc[2], yc[1]])
                sc = [sum(len(s.ids(a) & s.ids(b)) for a, b in zip(xc, al)) for al in alts]
                if sc[1] > sc[0]: alts.reverse()
            for al in alts:
                cs = []
                for a, b in zip(xc, al):
                    c = s.rel(a, b); cs.append(c)
                    if c is None: break
                if all(c == 'eq' for c in cs): r = 'eq'
                elif all(c is not None for c in cs): r = s.node_cases(x.decl(), xc, al, cs)
                if r is not None: break
        if r is None: r = s.leaf(x, y)
        s.memo[k] = r; return r
    def solve(s, goal, hyps, to=None):
        """'unsat' | 'sat' | 'unknown'.  Verdicts are cached per process modulo renaming of the uninterpreted constants (the four lanes of a vector operation yield the same lemma four times)"""
        g = z3.simplify(goal)
        if z3.is_true(g): return 'unsat'
        if z3.is_false(g) and not hyps: return 'sat'
        asserts = _cone_of_influence(list(hyps) + [z3.Not(goal)])
        key = _alpha_key(asserts)
        if key in _LEMMAS and _LEMMAS[key] != 'unknown': s.cached += 1; return _LEMMAS[key]
        if s.left <= 0: return 'unknown'
        to = min(to or s.per, max(1.0, s.left)); t0 = time.time()
        sv = z3.Solver(); sv.set('timeout', int(to * 1000)); sv.add(*asserts); r = str(sv.check()); dt = time.time() - t0
        s.left -= dt; s.time += dt; s.lemmas += 1; _LEMMAS[key] = r
        if r == 'unknown': s.timeouts += 1
        return r
    HEAVY = (z3.Z3_OP_FPA_MUL, z3.Z3_OP_FPA_DIV, z3.Z3_OP_FPA_SQRT, z3.Z3_OP_FPA_FMA, z3.Z3_OP_FPA_REM, z3.Z3_OP_BMUL, z3.Z3_OP_BUDIV, z3.Z3_OP_BSDIV, z3.Z3_OP_BUREM, z3.Z3_OP_BSREM, z3.Z3_OP_BSMOD,
             z3.Z3_OP_BUDIV_I, z3.Z3_OP_BSDIV_I, z3.Z3_OP_BUREM_I, z3.Z3_OP_BSREM_I, z3.Z3_OP_UNINTERPRETED, z3.Z3_OP_FPA_TO_FP, z3.Z3_OP_FPA_TO_SBV, z3.Z3_OP_FPA_TO_UBV, z3.Z3_OP_FPA_TO_FP_UNSIGNED)
    def heavy(s, t):
        """contains an operation that is expensive to bit-blast (only such common subterms are worth generalising; cheap ones keep their link to the inputs)"""
        k = t.get_id()
        if k not in s.hv:
            dk = t.decl().kind() if z3.is_app(t) else None
            own = t.num_args() > 0 and dk in s.HEAVY and not (dk == z3.Z3_OP_FPA_TO_FP and t.num_args() == 1)
            s.hv[k] = own or any(s.heavy(c) for c in t.children())
        return s.hv[k]
    def leaf(s, x, y):
        if x.sort() != y.sort(): return None
        sy = subterms(y); sub = []; st = [x]; seen = set()
        while st:
            t = st.pop()
            if t.get_id() in seen: continue
            seen.add(t.get_id())
            if t.num_args() > 0 and t.get_id() in sy and not z3.is_bool(t) and s.heavy(t):
                sub.append((t, z3.FreshConst(t.sort(), 'sh'))); continue
            st.extend(t.children())
        for sb in ([sub] if sub else []) + [[]]:          # generalised first; a refuted generalisation is retried on the terms themselves
            hy = s.hyps; x2, y2 = x, y
            if sb:
                x2 = z3.substitute(x, *sb); y2 = z3.substitute(y, *sb); hy = [z3.substitute(h, *sb) for h in hy]
            r = s.solve(x2 == y2, hy)
            if r == 'unsat': return 'eq'
            if r == 'sat' and z3.is_fp(x) and s.solve(z3.Or(x2 == y2, z3.And(z3.fpIsZero(x2), z3.fpIsZero(y2))), hy) == 'unsat': return 'zs'
            if r == 'unknown': break
        return None
    def node_cases(s, d, xc, yc, cs):
        """one-operator case analysis (hypothesis free; cached per operator and operand pattern)"""
        pairs = []; pat = []
        for a, b, c in zip(xc, yc, cs):
            if c == 'zs':
                key = (a.get_id(), b.get_id())
                if key not in pairs: pairs.append(key)
                pat.append(('z', pairs.index(key), a.sort()))
            elif z3.is_app(a) and a.num_args() == 0 and a.decl().kind() != z3.Z3_OP_UNINTERPRETED: pat.append(('c', a))        # numerals, rounding modes
            else: pat.append(('v', a.sort()))
        if len(pairs) > 2: return None
        ck = (d.get_id(), tuple((p[0], p[1].get_id() if p[0] == 'c' else p[1] if p[0] == 'z' else 0, str(p[-1])) for p in pat))
        if ck in s.cases: return s.cases[ck]
        import itertools
        res = 'eq'
        for combo in itertools.product(range(5), repeat=len(pairs)):
            hy = []; za = {}; zb = {}
            for j, cse in enumerate(combo):
                srt = [p[2] for p in pat if p[0] == 'z' and p[1] == j][0]
                if cse == 0:
                    u = z3.FreshConst(srt, 'nz'); hy.append(z3.Not(z3.fpIsZero(u))); za[j] = zb[j] = u
                else:
                    pz = z3.FPVal(0.0, srt); nz = z3.fpNeg(pz); za[j] = (pz, nz)[(cse - 1) & 1]; zb[j] = (pz, nz)[(cse - 1) >> 1]
            aa = []; bb = []
            for p in pat:
                if p[0] == 'z': aa.append(za[p[1]]); bb.append(zb[p[1]])
                elif p[0] == 'c': aa.append(p[1]); bb.append(p[1])
                else:
                    v = z3.FreshConst(p[1], 'op'); aa.append(v); bb.append(v)
            gx = d(*aa); gy = d(*bb)
            if s.solve(gx == gy, hy, 5.0) == 'unsat': continue
            if z3.is_fp(gx) and s.solve(z3.Or(gx == gy, z3.And(z3.fpIsZero(gx), z3.fpIsZero(gy))), hy, 5.0) == 'unsat': res = 'zs'; continue
            res = None; break
        s.cases[ck] = res; return res

# ----------------------------------------------------------------------------- rounding-erased equality: rational-function normal form
class RatNorm:
    """(numerator, denominator) polynomials with rational coefficients of a Real term built from + - * / ; everything else (ite, floor, uninterpreted functions, variables) is an atom identified by its
    term; the fresh sqrt variables of the eraser are identified by the normal form of their radicand.  Equal normal forms (cross-multiplied) => equal values wherever no denominator vanishes."""
    LIMIT = 200000
    def __init__(s, axioms=(), exact_approx=False):
        s.memo = {}; s.atom = {}; s.sq = {}; s.work = 0; s.exact_approx = exact_approx     # exact_approx: read rcpps / rsqrtps as the exact 1/x, 1/sqrt(x) (lowp)
        for ax in axioms:       # And(y >= 0, y*y == x)
            try:
                e = ax.arg(1); y = ax.arg(0).arg(0); s.sq[y.get_id()] = e.arg(1)
            except Exception: pass
    def var(s, key):
        if key not in s.atom: s.atom[key] = len(s.atom)
        return {(s.atom[key],): Fraction(1)}
    @staticmethod
    def add(p, q, f=1):
        r = dict(p)
        for m, c in q.items():
            v = r.get(m, 0) + f * c
            if v: r[m] = v
            else: r.pop(m, None)
        return r
    def mul(s, p, q):
        s.work += len(p) * len(q)
        if s.work > s.LIMIT: raise OverflowError('polynomial normal form too large')
        r = {}
        for m1, c1 in p.items():
            for m2, c2 in q.items():
                m = tuple(sorted(m1 + m2)); v = r.get(m, 0) + c1 * c2
                if v: r[m] = v
                else: r.pop(m, None)
        return r
    ONE = {(): Fraction(1)}
    def rf(s, t):
        k = t.get_id()
        if k in s.memo: return s.memo[k][1]
        r = s._rf(t); s.memo[k] = (t, r); return r
    def _rf(s, t):
        if z3.is_rational_value(t):
            v = Fraction(t.numerator_as_long(), t.denominator_as_long()); return ({(): v} if v else {}, s.ONE)
        if z3.is_int_value(t): return ({(): Fraction(t.as_long())} if t.as_long() else {}, s.ONE)
        dk = t.decl().kind(); a = t.children()
        if dk == z3.Z3_OP_ADD or dk == z3.Z3_OP_SUB:
            p, q = s.rf(a[0])
            for x in a[1:]:
                p2, q2 = s.rf(x); f = 1 if dk == z3.Z3_OP_ADD else -1
                if q == q2: p = s.add(p, p2, f)
                else: p = s.add(s.mul(p, q2), s.mul(p2, q), f); q = s.mul(q, q2)
            return p, q
        if dk == z3.Z3_OP_UMINUS:
            p, q = s.rf(a[0]); return s.add({}, p, -1), q
        if dk == z3.Z3_OP_MUL:
            p, q = s.rf(a[0])
            for x in a[1:]:
                p2, q2 = s.rf(x); p = s.mul(p, p2); q = s.mul(q, q2)
            return p, q
        if dk == z3.Z3_OP_DIV:
            p, q = s.rf(a[0]); p2, q2 = s.rf(a[1]); return s.mul(p, q2), s.mul(q, p2)
        if z3.is_const(t) and t.get_id() in s.sq:
            p, q = s.rf(s.sq[t.get_id()]); return s.var(('sqrt', frozenset(p.items()), frozenset(q.items()))), s.ONE
        if dk == z3.Z3_OP_ITE and z3.is_bool(a[0]):
            return s.var(('ite', s.ckey(a[0]), s.key(a[1]), s.key(a[2]))), s.ONE
        if dk == z3.Z3_OP_UNINTERPRETED and a and s.exact_approx and t.decl().name() == 'R_x86_rcp':
            p, q = s.rf(a[0]); return q, p
        if dk == z3.Z3_OP_UNINTERPRETED and a and s.exact_approx and t.decl().name() == 'R_x86_rsqrt':
            p, q = s.rf(a[0]); return s.ONE, s.var(('sqrt', frozenset(p.items()), frozenset(q.items())))
        if dk == z3.Z3_OP_UNINTERPRETED and a: return s.var(('uf', t.decl().name()) + tuple(s.key(x) for x in a)), s.ONE
        if dk == z3.Z3_OP_TO_REAL and z3.is_app_of(a[0], z3.Z3_OP_TO_INT): return s.var(('floor', s.key(a[0].arg(0)))), s.ONE
        return s.var(('t', t.get_id())), s.ONE
    def key(s, t):
        p, q = s.rf(t)
        if q == s.ONE: return ('p', frozenset(p.items()))
        return ('r', frozenset(p.items()), frozenset(q.items()))
    def ckey(s, c):
        dk = c.decl().kind(); a = c.children()
        if dk in (z3.Z3_OP_LT, z3.Z3_OP_LE, z3.Z3_OP_GT, z3.Z3_OP_GE, z3.Z3_OP_EQ) and z3.is_real(a[0]):
            if dk in (z3.Z3_OP_GT, z3.Z3_OP_GE): a = [a[1], a[0]]; dk = z3.Z3_OP_LT if dk == z3.Z3_OP_GT else z3.Z3_OP_LE
            p, q = s.rf(a[0] - a[1])
            if q == s.ONE: return (dk, frozenset(p.items()))
        if dk in (z3.Z3_OP_AND, z3.Z3_OP_OR, z3.Z3_OP_NOT): return (dk,) + tuple(s.ckey(x) for x in a)
        return ('c', c.get_id())
    def equal(s, x, y):
        """True when the normal forms coincide, None when undecided"""
        try:
            p1, q1 = s.rf(x); p2, q2 = s.rf(y)
            if q1 == q2: return True if p1 == p2 else None
            return True if s.mul(p1, q2) == s.mul(p2, q1) else None
        except (OverflowError, RecursionError): return None

# ----------------------------------------------------------------------------- known findings
def known_for(isa, fn):
    k = []
    if fn.startswith('abs4_f'): k.append('KF-C03-abs-negative-zero')
    if fn.startswith('round4_f'): k.append('KF-C03-round-ties')
    if re.match(r'(round|floor|ceil|fract|mod)4_f', fn): k.append('KF-C03-sse2-rounding-fallback')
    if re.match(r'p?(face|refr)3_f', fn): k.append('KF-C03-sse2-vec3-dot-association')
    if fn.startswith('minv3'): k.append('KF-C03-simd-inverse3-determinant-expansion')
    if fn.startswith('qrot'): k.append('KF-C03-simd-quat-vec4-w-lane-cancellation')
    return k
def _round_tie(res, i):
    xf = fpof(res.ins[0][i])
    return z3.fpToIEEEBV(z3.fpRoundToIntegral(z3.RNA(), xf)) != z3.fpToIEEEBV(z3.fpRoundToIntegral(z3.RNE(), xf))
def _sse2_region(res, i):
    xf = fpof(res.ins[0][i])
    if res.fn.name.startswith('mod'): xf = z3.fpDiv(RNE, xf, fpof(res.ins[1][i]))
    return z3.Or(z3.fpGEQ(z3.fpAbs(xf), FPV(2.0 ** 23)), z3.And(z3.fpLEQ(xf, FPV(0.0)), z3.fpGT(xf, FPV(-1.0))), z3.fpIsNaN(xf))
def _dots3(x, y):
    """the three-term dot product as the generic code adds it, (p0 + p1) + p2, and as the SSE2 branch of glm_vec1_dot on (x, y, z, 0) does, (p0 + p2) + (p1 + 0*0)"""
    p = [canon(z3.fpMul(RNE, fpof(a_), fpof(b_))) for a_, b_ in zip(x[:3], y[:3])]
    def ad(u, v): return canon(z3.fpAdd(RNE, u, v))
    return ad(ad(p[0], p[1]), p[2]), ad(ad(p[0], p[2]), ad(p[1], FPV(0.0)))
def _dot3_assoc(res, i):
    """inputs on which the two summation orders lead to a different decision"""
    I = res.ins
    if 'face' in res.fn.name:
        d1, d2 = _dots3(I[2], I[1]); return canon(z3.simplify(z3.fpLT(d1, FPV(0.0)))) != canon(z3.simplify(z3.fpLT(d2, FPV(0.0))))
    d1, d2 = _dots3(I[1], I[0]); eta = fpof(I[2][0]); one = FPV(1.0)
    def k(d): return z3.fpSub(RNE, one, z3.fpMul(RNE, z3.fpMul(RNE, eta, eta), z3.fpSub(RNE, one, z3.fpMul(RNE, d, d))))
    return canon(z3.simplify(z3.fpLT(k(d1), FPV(0.0)))) != canon(z3.simplify(z3.fpLT(k(d2), FPV(0.0))))
REGIONS = {'round_tie': _round_tie, 'sse2_round_region': _sse2_region, 'dot3_assoc': _dot3_assoc}

_CPU = None
def cpu_has(isa):
    global _CPU
    if _CPU is None:
        try: _CPU = set(re.search(r'^flags\s*:(.*)$', open('/proc/cpuinfo').read(), re.M).group(1).split())
        except Exception: _CPU = set()
    need = {'sse2': ['sse2'], 'sse3': ['pni'], 'ssse3': ['ssse3'], 'sse41': ['sse4_1'], 'sse42': ['sse4_2'], 'avx': ['avx'], 'avx2': ['avx2'], 'avx2fma': ['avx2', 'fma']}[isa]
    return all(f in _CPU for f in need)
# ----------------------------------------------------------------------------- the differential check of one wrapper in one SIMD build
def _native_differs(c, x, y, tol=None):
    if ct_kind(c) == 'b': x &= 1; y &= 1
    if x == y: return False
    if ct_kind(c) == 'f':
        fx, fy = bits_to_float(x, ct_bits(c)), bits_to_float(y, ct_bits(c))
        if fx != fx and fy != fy: return False
        if tol is not None and fx == fx and fy == fy and abs(fx - fy) <= tol * max(1.0, abs(fx), abs(fy)): return False
    return True

def vname(on, variant):
    """c03.<isa>.<fn>.<idx> -> c03.<isa>.<fn>.<variant>.<idx> (known-finding regions take the lane from the trailing number)"""
    h, _, t = on.rpartition('.'); return '%s.%s.%s' % (h, variant, t)
def prop_implied(hyps, goal):
    """goal follows from hyps by propositional reasoning alone (every theory atom opaque)"""
    m = {}; keep = []
    def ab(t):
        k = t.get_id()
        if k in m: return m[k]
        dk = t.decl().kind(); ch = t.children()
        if dk in (z3.Z3_OP_AND, z3.Z3_OP_OR, z3.Z3_OP_NOT, z3.Z3_OP_IMPLIES, z3.Z3_OP_XOR) or (dk in (z3.Z3_OP_EQ, z3.Z3_OP_DISTINCT, z3.Z3_OP_ITE, z3.Z3_OP_IFF) and all(z3.is_bool(c) for c in ch)):
            r = t.decl()(*[ab(c) for c in ch])
        elif z3.is_true(t) or z3.is_false(t): r = t
        else: r = z3.FreshConst(z3.BoolSort(), 'at')
        m[k] = r; keep.append(t); return r
    sv = z3.Solver(); sv.set('timeout', 5000); sv.add(*[ab(h) for h in hyps if z3.is_bool(h)]); sv.add(z3.Not(ab(goal)))
    return sv.check() == z3.unsat

class Pair:
    """both builds of one wrapper executed on shared symbolic inputs"""
    def __init__(s, S, ua, ub, fn, tag, isas):
        s.S = S; s.ua = ua; s.ub = ub; s.fn = fn; s.tag = tag; s.isas = isas; sp = SPEC[fn]; s.sp = sp
        s.fa = ua.fns[fn]; s.nm = 'c03.%s.%s' % (tag, fn)
        s.ins = mkvars(s.fa, 'fp')
        ex = Exec(ua.module('-O1'), fmode='fp', unwind=16)
        s.ra = sym_call(ua, fn, ins=s.ins, mode='fp', ex=ex); n_ob = len(ex.obligations)
        s.rb = sym_call(ub, fn, ins=s.ins, mode='fp', ex=ex); s.ex = ex
        hy = input_wellformed(s.fa, s.ins); p = sp['pre'](s.ins) if sp['pre'] else []
        s.pre = list(p) if isinstance(p, (list, tuple)) else [p]
        hy += s.pre + list(ex.axioms)
        ubA = [c for k, c, d in ex.obligations[:n_ob] if k in ('ub', 'trap', 'unreachable', 'domain')]
        if ubA: hy.append(z3.Not(z3.Or(*ubA)) if len(ubA) > 1 else z3.Not(ubA[0]))
        s.ubB = [(k, c, d) for k, c, d in ex.obligations[n_ob:] if k in ('ub', 'trap', 'unreachable', 'domain')]
        pin = S.pins.get(s.nm)
        if pin:
            for terms, vals in zip(s.ins, pin):
                for t, v in zip(terms, vals):
                    if z3.is_bv(t): hy.append(t == bv(int(v, 16), t.size()))
        s.hyps = hy
        s.fnlist = ['pure|%s: w_%s -> %s' % (tag, fn, s.fa.body.strip().replace('\n', ' ')[:140])]
        s.binfo = 'unwind=16; all argument values in the documented domain; pure/packed vs intrinsics/aligned at %s; ll=%s vs %s' % (', '.join(' '.join(ISA[i] + ['-D' + d for d in XDEF.get(i, [])]) for i in isas), ua.ll_sha(), ub.ll_sha())
        s.known = [k for k in known_for(isas[0], fn) if (S.known.get(k) or {}).get('status', 'open') == 'open']
        s.allvars = [t for terms in s.ins for t in terms]
        s.elems = []
        for oi, ((c, n), va, vb) in enumerate(zip(s.fa.outs, s.ra.outs, s.rb.outs)):
            for i, (a, b) in enumerate(zip(va, vb)):
                ix = 'o%d_%d' % (oi, i) if len(s.fa.outs) > 1 else '%d' % i
                s.elems.append((oi, i, c, s.nm + '.' + ix, a, b))
    def terms(s, c, a, b):
        # both sides through the z3 simplifier first (the executor already simplifies at bitcasts: x - y becomes x + (-y) there), then operand order
        if isinstance(a, FV): return canon(z3.simplify(a.fp)), canon(z3.simplify(b.fp))
        if ct_kind(c) == 'b': return canon(z3.simplify(a & 1)), canon(z3.simplify(b & 1))
        return canon(z3.simplify(a)), canon(z3.simplify(b))
    def replayer(s, oi, i, tol=None):
        def replay(m):
            vals = s.S._model_inputs(m, s.ra); return s.replay_vals(vals, oi, i, tol)
        return replay
    def replay_vals(s, vals, oi, i, tol=None):
        info = {'unit': s.ua.name, 'unit_b': s.ub.name, 'fn': s.fn, 'inputs': [[hex(v) for v in r] for r in vals], 'obligation': s.nm, 'property': s.S.pid, 'pin_name': s.nm}
        if not cpu_has(s.isas[0]): return 'not-replayable(cpu lacks %s)' % s.isas[0], info
        try: na = s.ua.call_native(s.fn, vals); nb = s.ub.call_native(s.fn, vals)
        except RuntimeError:      # g++ rejects a unit (e.g. _mm256_fmadd_pd without -mfma at -mavx2): replay with the compiler that produced the IR
            na = s.ua.call_native(s.fn, vals, cxx='clang++-14'); nb = s.ub.call_native(s.fn, vals, cxx='clang++-14'); info['native_compiler'] = 'clang++-14'
        info['native_pure'] = [[hex(v) for v in r] for r in na]; info['native_' + s.tag] = [[hex(v) for v in r] for r in nb]
        sel = [(oi, i)] if oi is not None else [(o_, j) for o_, (c, n) in enumerate(s.fa.outs) for j in range(n)]
        for o_, j in sel:
            if _native_differs(s.fa.outs[o_][0], na[o_][j], nb[o_][j], tol): return 'reproduced', info
        return 'not-reproduced', info
    def regions(s, oname):
        out = []
        for kid in s.known:
            kf = s.S.known.get(kid)
            if kf is None or not fnmatch.fnmatch(oname, kf['obligation']): continue
            out.append((kid, kf, eval_region(kf['region'], s.ra, oname, s.S.pid)))
        return out
    def probe(s, oname, regs, differ, oi, i, timeout):
        """is the known defect still there?  the recorded witness is replayed natively first (it must lie in the region and make the two builds differ); the solver searches the region otherwise"""
        S = s.S; rp = s.replayer(oi, i)
        for kid, kf, reg in regs:
            base = re.sub(r'_(lp|mp)$', '', s.fn); W = kf.get('witness') or {}; wit = W.get(base)
            if not wit and s.sp['pad'] and W.get(base[1:]):       # padded variant of a recorded vec3 witness: padding lane 0
                wit = [list(row) + ['0x0'] * (n - len(row)) for row, (c_, n) in zip(W[base[1:]], s.fa.ins)]
            if wit:
                vals = [[int(v, 16) for v in row] for row in wit]
                sub = [(t, bv(v, t.size())) for terms, row in zip(s.ins, vals) for t, v in zip(terms, row)]
                inreg = z3.is_true(z3.simplify(z3.substitute(z3.And(reg, *s.pre) if s.pre else reg, *sub)))
                verdict, info = s.replay_vals(vals, oi, i) if inreg else ('not-in-region', {})
                if verdict == 'reproduced':
                    S.rec(name=oname + '.known[%s]' % kid, kind='known-finding-probe', functions=s.fnlist, bounds=s.binfo, solver='recorded witness inside the region, replayed natively', result='sat', time_s=0.0, mandatory=False,
                          status='known-finding', replay='reproduced', replay_info=info)
                    S.known_hits.append((kid, kf['what'])); continue
            r, m, dt, used = S.query(s.hyps + [reg] + list(differ), timeout, 'z3', s.allvars)
            rec = S.rec(name=oname + '.known[%s]' % kid, kind='known-finding-probe', functions=s.fnlist, bounds=s.binfo, solver=used, result=r, time_s=round(dt, 3), mandatory=False)
            if r == 'sat':
                verdict, info = rp(m); rec['replay'] = verdict; rec['replay_info'] = info
                if verdict == 'reproduced': rec['status'] = 'known-finding'; S.known_hits.append((kid, kf['what']))
                else: rec['status'] = 'known-finding-not-reproduced'
            else: rec['status'] = 'known-finding-absent' if r == 'unsat' else 'inconclusive'
    def prove_eq(s, oname, x, y, oi, i, kind='diff', timeout=None, mandatory=True, solver='z3', what='[bit-identical]'):
        """x == y bit-precisely: known-finding regions probed (KNOWN-FINDING while the defect is there) and excluded; structural congruence first, the plain query (with native replay of a counterexample) second"""
        S = s.S; timeout = timeout or S.cap(40, 120); regs = s.regions(oname); rp = s.replayer(oi, i); goal = x == y
        mandatory = mandatory and not s.sp['opt']
        s.probe(oname, regs, [z3.Not(goal)], oi, i, min(timeout, 40))
        hy = s.hyps + [z3.Not(reg) for _, _, reg in regs]
        on2 = oname + ('.outside-known' if regs else ''); b2 = s.binfo + ' ' + what + ('; excluding known-finding regions ' + ','.join(k for k, _, _ in regs) if regs else '')
        return s.decide(on2, goal, hy, kind, b2, rp, timeout, mandatory, solver, (x, y), bool(regs))
    def decide(s, name, goal, hy, kind, b2, rp, timeout, mandatory, solver, pair, has_regs, final_goal=None, cong_budget=None):
        """cheapest first: identical terms, propositional consequence of the hypotheses, a short direct query, structural congruence, the full query (a counterexample is replayed natively)"""
        S = s.S
        def ok(solver_, dt=0.0): S.rec(name=name, kind=kind, functions=s.fnlist, bounds=b2, solver=solver_, result='unsat', time_s=round(dt, 3), status='discharged', mandatory=mandatory); return True
        if z3.is_true(z3.simplify(goal)): return ok('identical terms (commutative operands ordered; z3 simplifier)')
        if has_regs and prop_implied(hy, goal): return ok('z3 (propositional: the compared terms are the terms of the excluded region)')
        if solver == 'z3':
            def cong():
                if pair is None: return False
                cg = Cong(S, hy, per_query=S.cap(20, 40), budget=cong_budget or max(timeout, S.cap(150, 450)))
                return cg.eq(*pair) and ok('z3 (structural congruence: %d lemma(s)%s, common subterms generalised)' % (cg.lemmas, ' + %d cached' % cg.cached if cg.cached else ''), cg.time)
            if getattr(s, 'prefer_cong', False) and cong(): return True          # an earlier element of this wrapper needed the congruence route: try it first
            r, m, dt, used = S.query(list(hy) + [z3.Not(goal)], 3, 'z3', s.allvars)
            if r == 'unsat': return ok(used, dt)
            if r == 'unknown' and not getattr(s, 'prefer_cong', False) and cong(): s.prefer_cong = True; return True
        if s.sp['opt']:       # kernel that no glm operation reaches: a difference is recorded (optional obligation), not reported as a violation of the property
            r, m, dt, used = S.query(list(hy) + [z3.Not(goal)], min(timeout, 8), 'z3', s.allvars)
            rec = S.rec(name=name, kind=kind, functions=s.fnlist, bounds=b2, solver=used, result=r, time_s=round(dt, 3), mandatory=False, status='discharged' if r == 'unsat' else ('kernel-differs' if r == 'sat' else 'inconclusive'))
            if r == 'sat':
                try: rec['replay'], rec['replay_info'] = rp(m)
                except Exception as e: rec['replay'] = 'replay-error'
            return r == 'unsat'
        r, m = S.prove(name, goal if final_goal is None else final_goal, hy, timeout=timeout, solver=solver, kind=kind, functions=s.fnlist, bounds=b2, replay=rp, vars_=s.allvars, mandatory=mandatory)
        return r == 'unsat'

def check_pair(S, ua, ub, fn, tag, isas):
    sp = SPEC[fn]; cls = sp['cls']; mand = not sp['opt']
    try: pr = Pair(S, ua, ub, fn, tag, isas)
    except (Unsupported, z3.Z3Exception, AttributeError, TypeError, KeyError, AssertionError, IndexError) as e:
        S.rec(name='c03.%s.%s' % (tag, fn), kind='encode', result='unsupported', status='not-encoded', note=str(e)[:300], mandatory=mand, functions=[fn])
        if mand: S.inconclusive.append('c03.%s.%s [not encoded: %s]' % (tag, fn, str(e)[:200]))
        return
    if cpu_has(isas[0]):      # translator / intrinsic-model validation: the symbolic terms of both builds against native execution on sampled inputs
        try:
            hv = z3.And(*pr.hyps) if pr.hyps else None
            for r_ in (pr.ra, pr.rb):
                ncmp, bad = validate_translation(r_, S.rnd, 2 if S.quick else 4, pre=hv); S.validated += ncmp
                if bad: S.engine_errors.append('%s: symbolic term disagrees with native execution: %s' % (pr.nm, json.dumps(bad[0])))
        except Exception as e:
            S.rec(name=pr.nm + '.validate', kind='validate', result='error', status='skipped', note=str(e)[:300], mandatory=False)
    if pr.ubB:      # the SIMD build must not divide by zero / convert out of range / trap where the pure build (and the documented domain) does not
        conds = [c for k, c, d in pr.ubB]
        S.prove(pr.nm + '.simd-no-ub', z3.Not(z3.Or(*conds)) if len(conds) > 1 else z3.Not(conds[0]), pr.hyps, timeout=S.cap(30, 90), solver='portfolio' if fn.startswith('idiv') else 'z3', kind='ub', functions=pr.fnlist,
                bounds=pr.binfo + ' [no undefined behaviour in the SIMD build on the inputs on which the pure build has none: %s]' % ', '.join(sorted({d for k, c, d in pr.ubB}))[:200], replay=None, vars_=pr.allvars, mandatory=mand)
    if sp['pad']: check_padding(S, pr)
    rest = []
    for el in pr.elems:
        oi, i, c, on, a, b = el; x, y = pr.terms(c, a, b)
        if x.eq(y) or z3.is_true(z3.simplify(x == y)):
            S.rec(name=on, kind='diff', functions=pr.fnlist, bounds=pr.binfo + ' [bit-identical]', solver='identical terms (commutative operands ordered; z3 simplifier)', result='unsat', time_s=0.0, status='discharged', mandatory=mand)
        else: rest.append(el + (x, y))
    if not rest: return
    # ---- structure: rcpps / rsqrtps (uninterpreted x86_rcp / x86_rsqrt in the terms) may feed lowp results only
    def approx_of(t): return sorted({u.decl().name() for u in subterms(t).values() if z3.is_app(u) and u.num_args() > 0 and u.decl().kind() == z3.Z3_OP_UNINTERPRETED and u.decl().name().startswith('x86_r')})
    if not fn.endswith('_lp'):
        bad = [el for el in rest if approx_of(el[7])]
        if bad:
            info = {'unit': ua.name, 'unit_b': ub.name, 'fn': fn, 'note': 'x86 approximation intrinsic %s feeds the non-lowp result(s) %s' % (approx_of(bad[0][7]), [el[3] for el in bad][:8]), 'pin_name': pr.nm}
            try:       # a concrete input on which the two builds differ (for the report; the structural fact alone already contradicts the property)
                for tup in sample_inputs(pr.fa, S.rnd, 12):
                    v, inf = pr.replay_vals(tup, None, None)
                    if v == 'reproduced': info.update(inf); break
            except Exception: pass
            S.rec(name=pr.nm + '.no-approx', kind='structure', functions=pr.fnlist, bounds=pr.binfo, solver='term DAG inspection', result='sat', time_s=0.0, status='counterexample', mandatory=mand, note=info['note'], replay_info=info)
            if mand: S.violations.append((pr.nm + '.no-approx', info))
            pr.approx_bad = True; rest = [el for el in rest if not approx_of(el[7])]
            if not rest: return
    if cls == 'ident':
        for oi, i, c, on, a, b, x, y in rest:
            pr.prove_eq(on, x, y, oi, i, solver='portfolio' if fn.startswith('idiv') else 'z3')
        return
    if cls in ('lowpdiv', 'lowpsqrt'): return check_lowp(S, pr, rest)
    # ---- multi-term class
    import erase as _er
    E = _er.Eraser(); er = []; bits = []
    for el in rest:
        oi, i, c, on, a, b, x, y = el
        if not isinstance(a, FV): bits.append(el); continue
        try: er.append(el + (E.fp(x), E.fp(y)))
        except (Unsupported, z3.Z3Exception, AttributeError) as e: bits.append(el)       # the code relies on rounding itself (magic-number tricks) or on bit patterns: compared bit-precisely instead
    for oi, i, c, on, a, b, x, y in bits:
        pr.prove_eq(vname(on, 'bits'), x, y, oi, i, timeout=S.cap(60, 180), what='[bit-identical; rounding erasure not applicable]')
    if er:
        lowp = fn.endswith('_lp')
        hy = [h for h in pr.hyps if not _mentions_fp(h)] + list(E.axioms) + ([z3.Not(z3.Or(*E.domain))] if E.domain else [])
        if lowp:      # lowp may use the approximations: the results must be the pure expression when rcpps / rsqrtps are read as exact
            for el in er:
                for t in subterms(el[9]).values():
                    if z3.is_app(t) and t.decl().kind() == z3.Z3_OP_UNINTERPRETED and t.num_args() == 1 and t.decl().name() == 'R_x86_rcp': hy += [t.arg(0) != 0, t * t.arg(0) == 1]
                    if z3.is_app(t) and t.decl().kind() == z3.Z3_OP_UNINTERPRETED and t.num_args() == 1 and t.decl().name() == 'R_x86_rsqrt': hy += [t.arg(0) > 0, t > 0, t * t * t.arg(0) == 1]
        rn = RatNorm(E.axioms, exact_approx=lowp)
        def erased_inputs(m):
            vals = []
            for (c, n), terms in zip(pr.fa.ins, pr.ins):
                row = []
                for t in terms:
                    rv = E.vars.get(t.decl().name()) if ct_kind(c) == 'f' else None
                    if rv is not None: row.append(float_to_bits(float(z3val_to_fraction(m.eval(rv, model_completion=True))), ct_bits(c)))
                    else:
                        v = m.eval(t, model_completion=True); row.append(v.as_long() if z3.is_bv_value(v) else 0)
                vals.append(row)
            return vals
        for oi, i, c, on, a, b, x, y, ea, eb in er:
            b2 = pr.binfo + (' [rounding-erased equality]' if not (lowp and E.approx_ufs) else ' [rounding-erased equality, rcpps/rsqrtps (permitted for lowp) read as the exact 1/x, 1/sqrt x]'); t0 = time.time()
            if rn.equal(ea, eb):
                S.rec(name=vname(on, 'real'), kind='diff', functions=pr.fnlist, bounds=b2, solver='rational-function normal form (exact polynomial arithmetic over the erased term)', result='unsat', time_s=round(time.time() - t0, 3), status='discharged', mandatory=mand)
                continue
            def rp(m, oi=oi, i=i): return pr.replay_vals(erased_inputs(m), oi, i, tol=2e-3 if ct_bits(c) == 32 else 1e-6)
            S.prove(vname(on, 'real'), ea == eb, hy, timeout=S.cap(40, 120), solver='z3', kind='diff', functions=pr.fnlist, bounds=b2, replay=rp, mandatory=mand)
        if lowp:
            S.rec(name=pr.nm + '.approx-only-lowp', kind='structure', functions=pr.fnlist, bounds=pr.binfo, solver='term DAG inspection', result='unsat', time_s=0.0, status='discharged', mandatory=mand, note='lowp result; approximation intrinsics reachable: %s' % (sorted(E.approx_ufs) or 'none'))
        elif not getattr(pr, 'approx_bad', False):
            S.rec(name=pr.nm + '.no-approx', kind='structure', functions=pr.fnlist, bounds=pr.binfo, solver='term DAG inspection', result='unsat', time_s=0.0, status='discharged', mandatory=mand,
                  note='no rcp/rsqrt approximation intrinsic reachable from the results')
        check_domination(S, pr, er, E, rn, mand, erased_inputs)
    if sp['dec']: check_decisions(S, pr, rest)

# ----------------------------------------------------------------------------- magnitude domination of the SIMD intermediates (first-order rounding bound)
FP_ARITH = (z3.Z3_OP_FPA_ADD, z3.Z3_OP_FPA_SUB, z3.Z3_OP_FPA_MUL, z3.Z3_OP_FPA_DIV, z3.Z3_OP_FPA_FMA)
DOM_C = (1, 2, 4, 8, 16)
def check_domination(S, pr, er, E, rn, mand, erased_inputs):
    """Every rounded intermediate n of the SIMD expression (fp.add/sub/mul/div/fma node in the cone of a result) is bounded by the pure expression's intermediates:
    |n| <= c * max_j |p_j| for all inputs, c <= 16.  With the erased equality this gives the property's quantitative clause to first order: each SIMD operation rounds a value no larger
    than c*M (M = largest pure intermediate), so the two results differ by at most (number of operations) * (c + 1) * u * M, and a SIMD intermediate can not overflow (inf - inf = NaN)
    where the pure evaluation stays c times below the overflow threshold.  Decided per SIMD node: (1) same rational normal form (up to sign) as a pure node; otherwise (2) a linear-real-arithmetic
    query in which every monomial of the polynomial normal forms is an independent variable (an over-approximation of the inputs: unsat => the bound holds for all inputs).  A satisfiable
    abstraction is re-asked over the real inputs (nonlinear) and its model replayed natively at growing scales (overflow of the extra intermediate makes the results differ)."""
    if pr.fn.endswith('_lp'): return
    t0 = time.time()
    def nodes(ts):
        out = {}
        for t in ts:
            for k, u in subterms(t).items():
                if z3.is_app(u) and z3.is_fp(u) and u.decl().kind() in FP_ARITH: out[k] = u
        return list(out.values())
    PN = nodes([el[6] for el in er]); SN = nodes([el[7] for el in er])
    def norm(u):
        try: return rn.rf(E.fp(u))
        except (OverflowError, RecursionError, Unsupported, z3.Z3Exception, AttributeError): return None
    def sgnkey(p, q):       # key up to sign: leading coefficient of the numerator made positive
        if not p: return ('0',)
        m0 = min(p); f = 1 if p[m0] > 0 else -1
        return (frozenset((m, f * c) for m, c in p.items()), frozenset(q.items()))
    pf = [norm(u) for u in PN]; pkeys = {sgnkey(*x) for x in pf if x is not None}
    ppoly = [x[0] for x in pf if x is not None and x[1] == rn.ONE and x[0]]
    # the operands themselves count as terms of the pure expression: every input atom that occurs in a pure node
    inputs = sorted({v for p_ in ppoly for m_ in p_ for v in m_})
    ppoly += [{(v,): Fraction(1)} for v in inputs]; pkeys |= {sgnkey({(v,): Fraction(1)}, rn.ONE) for v in inputs}
    todo = []; n_same = 0; skipped = 0
    for u in SN:
        x = norm(u)
        if x is None: skipped += 1; continue
        if not x[0] or sgnkey(*x) in pkeys: n_same += 1; continue
        todo.append((u, x))
    name = pr.nm + '.intermediates-dominated'
    b2 = pr.binfo + ' [rounding-erased; every add/sub/mul/div/fma node of the SIMD results against the nodes of the pure results]'
    if not todo:
        S.rec(name=name, kind='magnitude', functions=pr.fnlist, bounds=b2, solver='rational-function normal forms: each of the %d SIMD intermediates is (up to sign) one of the %d pure intermediates' % (len(SN), len(PN)),
              result='unsat', time_s=round(time.time() - t0, 3), status='discharged', mandatory=mand, note='c = 1; %d nodes not normalised' % skipped)
        return
    mono = {}
    def lin(p):
        t = z3.RealVal(0)
        for m, c in p.items():
            if m == (): t = t + z3.RealVal(str(c)); continue
            if m not in mono: mono[m] = z3.Real('mono!%d' % len(mono))
            t = t + z3.RealVal(str(c)) * mono[m]
        return t
    def ab(t): return z3.If(t >= 0, t, -t)
    inv_atom = {v: k for k, v in rn.atom.items()}
    def atom_name(v):
        k = inv_atom.get(v)
        if k and k[0] == 't' and k[1] in rn.memo: return str(rn.memo[k[1]][0])
        return 'atom%d' % v
    def node_id(p, q):      # stable identity of an intermediate: its polynomial normal form over the named inputs, up to sign
        if q != rn.ONE: return 'rational:' + hashlib.sha1(repr((sorted((tuple(sorted(atom_name(v) for v in m_)), str(abs(c))) for m_, c in p.items()), sorted((tuple(sorted(atom_name(v) for v in m_)), str(abs(c))) for m_, c in q.items()))).encode()).hexdigest()[:10]
        items = sorted(((tuple(sorted(atom_name(v) for v in m_)), c) for m_, c in p.items()), key=lambda kv: kv[0]); f = 1 if items[0][1] > 0 else -1
        return ' '.join('%+g*%s' % (float(f * c), '*'.join(m_) or '1') for m_, c in items)
    worst = 1; bads = []
    P_lin = [lin(p) for p in ppoly]
    for u, (p, q) in todo:
        if q != rn.ONE or not ppoly: bads.append((u, p, q, 'rational node without a pure counterpart')); continue
        n_ = ab(lin(p)); ok = False
        for c in DOM_C:
            sv = z3.SolverFor('QF_LRA'); sv.set('timeout', 10000)
            for pj in P_lin: sv.add(c * ab(pj) < n_)
            if sv.check() == z3.unsat: worst = max(worst, c); ok = True; break
        if not ok: bads.append((u, p, q, 'not bounded by 16 * max |pure intermediate| in the monomial abstraction'))
    # nodes the abstraction could not bound: the nonlinear query over the real inputs decides
    hy = list(E.axioms) + ([z3.Not(z3.Or(*E.domain))] if E.domain else [])
    pure_terms = [E.fp(v) for v in PN] + list(E.vars.values())
    W = max([ct_bits(c) for (c, n_) in pr.fa.ins if ct_kind(c) == 'f'] or [32]); big = 2 ** (130 if W == 32 else 1030); mid = 2 ** (100 if W == 32 else 900)
    dens = [d_.arg(0) for d_ in E.domain if z3.is_app(d_) and d_.num_args() == 2 and d_.decl().kind() == z3.Z3_OP_EQ]
    def finite_pure(info):
        try:
            for (c, n_), row in zip(pr.fa.outs, info.get('native_pure', [])):
                if ct_kind(c) != 'f': continue
                for hx in row:
                    f = bits_to_float(int(hx, 16), ct_bits(c))
                    if f != f or f in (float('inf'), float('-inf')): return False
            return True
        except Exception: return False
    kfs = [(kid, S.known.get(kid)) for kid in pr.known if S.known.get(kid) and (S.known.get(kid) or {}).get('nodes')]
    open_bad = 0
    seen_n = set()
    for u, p, q, why in bads[:16]:
        nr = E.fp(u); nid = node_id(p, q); nname = name + '[%s]' % nid
        if nid in seen_n: continue
        seen_n.add(nid)
        r, m, dt, used = S.query(hy + [16 * ab(t) < ab(nr) for t in pure_terms], S.cap(30, 90), 'z3', [])
        if r == 'unsat': worst = 16; continue
        kf = next(((kid, k_) for kid, k_ in kfs if nid in k_['nodes']), None)
        rec = S.rec(name=nname, kind='magnitude', functions=pr.fnlist, bounds=b2, solver='z3 QF_LRA abstraction (sat) + ' + used, result=r, time_s=round(dt, 3), mandatory=mand and kf is None, note=why + ': ' + str(z3.simplify(nr))[:600])
        tried = []
        r2, m2, dt2, used2 = S.query(hy + [ab(t) <= mid for t in pure_terms] + [ab(nr) >= big] + [ab(d_) >= 1 for d_ in dens], S.cap(30, 60), 'z3', [])
        if r2 == 'sat': tried.append(('overflow of the extra intermediate, pure intermediates <= 2^%d' % (100 if W == 32 else 900), erased_inputs(m2), [0]))
        if r == 'sat': tried.append(('model of the unbounded node', erased_inputs(m), list(range(0, 130, 6))))
        hit = None
        for what, vals, scales in tried:
            for k in scales:
                lim = 3e38 if W == 32 else 1e308
                sc = [[(float_to_bits(bits_to_float(v, ct_bits(c)) * (2.0 ** k), ct_bits(c)) if ct_kind(c) == 'f' and abs(bits_to_float(v, ct_bits(c))) * (2.0 ** k) < lim else v) for v in row] for (c, n_), row in zip(pr.fa.ins, vals)]
                verdict, info = pr.replay_vals(sc, None, None, tol=2e-3)
                if verdict == 'reproduced' and finite_pure(info):
                    info['witness'] = what + ('' if not k else ', inputs scaled by 2^%d' % k); info['unbounded_intermediate'] = nid; hit = info; break
            if hit: break
        if hit:
            rec['replay'] = 'reproduced'; rec['replay_info'] = hit; rec['result'] = 'sat'
            if kf is not None: rec['status'] = 'known-finding'; rec['kind'] = 'known-finding-probe'; S.known_hits.append((kf[0], kf[1]['what']))
            else:
                rec['status'] = 'counterexample'
                if mand: S.violations.append((nname, hit))
            open_bad += 1 if kf is None else 0
        elif kf is not None: rec['status'] = 'known-finding-not-reproduced'; rec['kind'] = 'known-finding-probe'
        else:
            rec['status'] = 'inconclusive'; rec['replay'] = 'not-reproduced'; open_bad += 1
            if mand: S.inconclusive.append(nname)
    if not open_bad:
        kn = [x for x in bads if any(node_id(x[1], x[2]) in k_['nodes'] for kid, k_ in kfs)]
        S.rec(name=name, kind='magnitude', functions=pr.fnlist, bounds=b2 + ('; excluding the %d intermediates of the known finding(s) %s' % (len(kn), ','.join(kid for kid, k_ in kfs)) if kn else ''),
              solver='normal forms + z3 QF_LRA over monomial variables (%d SIMD nodes identical to pure nodes or operands, %d bounded by linear arithmetic%s)' % (n_same, len(todo) - len(bads), '' if not bads else ', %d by the nonlinear query' % (len(bads) - len(kn))),
              result='unsat', time_s=round(time.time() - t0, 3), status='discharged', mandatory=mand, note='|n| <= %d * max(|pure intermediates|, |operands|) for every SIMD intermediate n; %d nodes not normalised' % (worst, skipped))

def check_padding(S, pr):
    """no result of an operation on aligned vec3 operands depends on the 4th SIMD lane of an operand (it is arbitrary: the w of the vec4 the vec3 was cut from, possibly inf / NaN).  Bit-precise:
    the simplified SIMD result does not mention the lane-3 inputs at all, or it equals itself with those inputs set to +0 (for every lane-3 value; both-NaN counts as equal).  A counterexample
    is replayed natively: the SIMD build on the model inputs against the SIMD build on the same inputs with the padding lanes zeroed."""
    lanes = [pr.ins[k][3] for k in pr.sp['pad']]; lid = {v.get_id() for v in lanes}; zero = [(v, bv(0, v.size())) for v in lanes]
    def replayer(oi, i):
        def replay(m):
            vals = S._model_inputs(m, pr.ra); v0 = [list(r) for r in vals]
            for k in pr.sp['pad']: v0[k][3] = 0
            info = {'unit': pr.ub.name, 'unit_b': pr.ub.name, 'fn': pr.fn, 'inputs': [[hex(v) for v in r] for r in vals], 'inputs_padding_zeroed': [[hex(v) for v in r] for r in v0], 'obligation': pr.nm, 'property': S.pid, 'pin_name': pr.nm}
            if not cpu_has(pr.isas[0]): return 'not-replayable(cpu lacks %s)' % pr.isas[0], info
            try: n1 = pr.ub.call_native(pr.fn, vals); n0 = pr.ub.call_native(pr.fn, v0)
            except RuntimeError: n1 = pr.ub.call_native(pr.fn, vals, cxx='clang++-14'); n0 = pr.ub.call_native(pr.fn, v0, cxx='clang++-14'); info['native_compiler'] = 'clang++-14'
            info['native_' + pr.tag] = [[hex(v) for v in r] for r in n1]; info['native_%s_padding_zeroed' % pr.tag] = [[hex(v) for v in r] for r in n0]
            return ('reproduced' if _native_differs(pr.fa.outs[oi][0], n1[oi][i], n0[oi][i]) else 'not-reproduced'), info
        return replay
    for oi, i, c, on, a, b in pr.elems:
        y = pr.terms(c, a, b)[1]; name = vname(on, 'padding')
        b2 = pr.binfo + ' [padding independence of the SIMD build: lane 3 of the vec3 operands unconstrained (any bit pattern)]'
        if not (lid & set(subterms(y))):
            S.rec(name=name, kind='padding', functions=pr.fnlist, bounds=b2, solver='free-variable check on the simplified term (the lane-3 inputs do not occur)', result='unsat', time_s=0.0, status='discharged', mandatory=True); continue
        y0 = canon(z3.simplify(z3.substitute(y, *zero)))
        # a dependence usually shows with an infinite or NaN padding lane (0 * inf): ask the solver for such a counterexample first (a counterexample is a counterexample; the proof below has no such restriction)
        hit = False
        others = [t for (c_, n_), terms in zip(pr.fa.ins, pr.ins) if c_ == 'float' for t in terms if t.get_id() not in lid]
        for pat, pin in ((0x7f800000, True), (0x7f800000, False), (0x7fc00000, False)):
            hint = [v == bv(pat, 32) for v in lanes if v.size() == 32] + ([t == bv(0x3f800000, 32) for t in others] if pin else [])       # pin: every other float input 1.0 (decided by constant folding)
            r, m, dt, used = S.query(pr.hyps + hint + [y != y0], 8, 'z3', pr.allvars)
            if r == 'sat':
                S.prove(name, y == y0, pr.hyps + hint, timeout=20, solver='z3', kind='padding', functions=pr.fnlist, bounds=b2 + ' [counterexample search with the padding lanes fixed to %#x%s]' % (pat, ', all other float inputs 1.0' if pin else ''), replay=replayer(oi, i), vars_=pr.allvars)
                hit = True; break
        if hit: continue
        pr.decide(name, y == y0, pr.hyps, 'padding', b2, replayer(oi, i), S.cap(60, 180), True, 'z3', (y, y0), False, cong_budget=S.cap(40, 120))

def check_decisions(S, pr, rest):
    """the IEEE comparison atoms the SIMD result depends on must each be equivalent (bit-precisely) to one the pure result depends on"""
    A = fp_atoms([el[6] for el in rest]); B = fp_atoms([el[7] for el in rest]); ida = {a.get_id() for a in A}; n = 0
    for bt in B:
        if bt.get_id() in ida: continue
        on = '%s.decision.%d' % (pr.nm, n); n += 1
        cands = [a for a in A if a.decl().kind() == bt.decl().kind()] or A
        # candidates ordered by the number of shared subterms
        sb = subterms(bt); cands.sort(key=lambda a: -len(set(subterms(a)) & set(sb)))
        if not cands:
            S.rec(name=on, kind='decision', functions=pr.fnlist, bounds=pr.binfo, solver='term DAG inspection', result='unknown', status='inconclusive', note='SIMD decision %s has no counterpart' % bt.sexpr()[:200]); S.inconclusive.append(on); continue
        a = cands[0]
        # a counterexample must also change a result (a decision whose flip is not observable is no difference): goal = decisions equal or all results equal
        same_out = z3.And(*[x == y for (_, _, _, _, _, _, x, y) in rest])
        regs = pr.regions(on); rp = pr.replayer(None, None)
        pr.probe(on, regs, [a != bt, z3.Not(same_out)], None, None, S.cap(40, 60))
        hy = pr.hyps + [z3.Not(reg) for _, _, reg in regs]
        on2 = on + ('.outside-known' if regs else ''); b2 = pr.binfo + ' [branch decision: %s]' % bt.decl().name() + ('; excluding known-finding regions ' + ','.join(k for k, _, _ in regs) if regs else '')
        pr.decide(on2, a == bt, hy, 'decision', b2, rp, S.cap(60, 180), True, 'z3', (a, bt), bool(regs), final_goal=z3.Or(a == bt, same_out), cong_budget=S.cap(60, 180))
    if n == 0:
        S.rec(name=pr.nm + '.decision', kind='decision', functions=pr.fnlist, bounds=pr.binfo + ' [branch decisions]', solver='identical terms (commutative operands ordered)', result='unsat', time_s=0.0, status='discharged', mandatory=True,
              note='%d comparison atoms, each the same IEEE term in both builds' % len(B))

def check_lowp(S, pr, rest):
    """lowp: the SIMD result may go through rcpps / rsqrtps; rounding-erased, under the SDM contract r(x) = (1/x or 1/sqrt x)(1 + e), |e| <= 1.5*2^-12 for x > 0, it is within 2^-11 relative of the pure result"""
    import erase as _er
    E = _er.Eraser(); EPS = z3.RealVal('3/8192'); TOL = z3.RealVal('1/2048')
    for oi, i, c, on, a, b, x, y in rest:
        try: ea, eb = E.fp(x), E.fp(y)
        except (Unsupported, z3.Z3Exception, AttributeError) as e:
            S.rec(name=vname(on, 'lowp'), kind='encode', result='unsupported', status='not-encoded', note=str(e)[:200], mandatory=True, functions=pr.fnlist); S.inconclusive.append('%s [not encoded: %s]' % (vname(on, 'lowp'), str(e)[:100])); continue
        ax = []; pos = []
        for t in subterms(eb).values():
            if z3.is_app(t) and t.decl().kind() == z3.Z3_OP_UNINTERPRETED and t.num_args() == 1 and t.decl().name() in ('R_x86_rcp', 'R_x86_rsqrt'):
                arg = t.arg(0); pos.append(arg > 0)
                if t.decl().name() == 'R_x86_rcp': ax.append(z3.And(t * arg <= 1 + EPS, t * arg >= 1 - EPS))
                else:
                    rt = z3.Real('rt!%d' % t.get_id()); ax.append(z3.And(rt > 0, rt * rt == arg, t * rt <= 1 + EPS, t * rt >= 1 - EPS))
        if not ax:      # no approximation in this element: must be the identical-class result
            pr.prove_eq(on, x, y, oi, i); continue
        hy = list(E.axioms) + ([z3.Not(z3.Or(*E.domain))] if E.domain else []) + ax + pos
        d = ea - eb; goal = z3.And(d <= TOL * z3.If(ea >= 0, ea, -ea), -d <= TOL * z3.If(ea >= 0, ea, -ea))
        if not S.quick:      # vacuity guard: the same claim with a bound below the contract (2^-13) must be refutable
            t2 = z3.RealVal('1/8192') * z3.If(ea >= 0, ea, -ea)
            S.prove(vname(on, 'lowp-twin'), z3.And(d <= t2, -d <= t2), hy, timeout=60, solver='z3', kind='mutant-twin', functions=pr.fnlist, bounds='2^-13 instead of 2^-11', expect='sat', mandatory=False)
        S.prove(vname(on, 'lowp'), goal, hy, timeout=S.cap(40, 120), solver='z3', kind='lowp-accuracy', functions=pr.fnlist,
                bounds=pr.binfo + ' [rounding-erased; rcpps/rsqrtps per SDM: relative error <= 1.5*2^-12 on positive arguments; claim: |simd - pure| <= 2^-11 |pure|; approximated arguments > 0]')
    S.rec(name=pr.nm + '.approx-only-lowp', kind='structure', functions=pr.fnlist, bounds=pr.binfo, solver='term DAG inspection', result='unsat', time_s=0.0, status='discharged', mandatory=True, note='approximation intrinsics occur in a lowp result only')

def groups_of(fn, wxyz, tier):
    """ISA builds of one wrapper grouped by identical IR: [(representative, [members], key)] in ISA order"""
    ub_all = SW if wxyz else S_; isas = wxyz_isas(tier) if wxyz else tuple(ISA); g = {}
    for isa in isas: g.setdefault(ir_key(ub_all[isa], fn), []).append(isa)
    return [(v[0], v, k) for k, v in g.items()]
def run_task(S, fn, wxyz, rep, group, key):
    ua = PW if wxyz else P; ub_all = SW if wxyz else S_; sfx = '_wxyz' if wxyz else ''
    n0 = len(S.records)
    check_pair(S, ua, ub_all[rep], fn, rep + sfx, group)
    ok = all(x.get('status') in ('discharged', 'known-finding', 'known-finding-absent', 'ok') for x in S.records[n0:])
    for isa in group[1:]:
        S.rec(name='c03.%s%s.%s.same-ir' % (isa, sfx, fn), kind='diff', functions=[fn], bounds='LLVM IR of w_%s at %s is textually identical (attributes/metadata stripped, sha256 %s) to the IR checked as %s' % (fn, ' '.join(ISA[isa]), key, rep + sfx),
              solver='IR identity with a checked build', result='unsat' if ok else 'unknown', time_s=0.0, status='discharged' if ok else 'see-representative', mandatory=ok and not SPEC[fn]['opt'])
def job(names, wxyz=False):        # all ISA groups of the named wrappers (development helper)
    def run(S):
        for fn in names:
            for rep, group, key in groups_of(fn, wxyz, S.tier): run_task(S, fn, wxyz, rep, group, key)
    return run
def job_tasks(tasks):
    def run(S):
        for t in tasks: run_task(S, *t)
    return run

def table(tier):
    return [f for f in P.fns if tier != 'quick' or SPEC[f]['tier'] == 'quick']
WEIGHT = {'face3_f': 2.5, 'refr3_f': 1.5, 'pface3_f': 2.5, 'prefr3_f': 1.5, 'mod4_f': 3, 'fract4_f': 3, 'floor4_f': 2.5, 'ceil4_f': 2.5, 'k_roundEven': 2, 'face4_f': 1, 'round4_f': 1.5, 'minv4': 1, 'mops4': 1, 'mmul4': 1}
def jobs(tier):
    """one task = one wrapper x one group of ISA builds with identical IR; tasks are packed into jobs of similar estimated cost"""
    prebuild_native(units(tier))
    tasks = []
    for fn in table(tier):
        for wx in ((False, True) if fn in QNAMES else (False,)):
            for rep, group, key in groups_of(fn, wx, tier):
                w = WEIGHT.get(re.sub(r'_(lp|mp)$', '', fn), 0.3)
                if rep != 'sse2' and fn.startswith(('mod4', 'fract4', 'floor4', 'ceil4', 'round4')): w = 0.3
                tasks.append((w, (fn, wx, rep, group, key)))
    nb = 28 if tier == 'quick' else 42
    bins = [[0.0, []] for _ in range(nb)]
    # the SSE2 magic-number rounding lemmas (floor/ceil/round vs roundToIntegral) are shared by the highp/mediump/lowp instances and by fract (floor): one job per family, so the per-process lemma cache serves them
    fam = {}
    for w, t in tasks:
        m = re.match(r'(floor|fract|ceil|mod|round)4_f', t[0])
        if m and t[2] == 'sse2': fam.setdefault({'fract': 'floor'}.get(m.group(1), m.group(1)), []).append((w, t))
    famtasks = {id(t) for ts in fam.values() for w, t in ts}
    for k, ts in fam.items():
        b = min(bins, key=lambda b_: b_[0]); b[0] += max(w for w, t in ts) * 1.5; b[1] += [t for w, t in ts]
    tasks = [(w, t) for w, t in tasks if id(t) not in famtasks]
    for w, t in sorted(tasks, key=lambda x: -x[0]):
        b = min(bins, key=lambda b_: b_[0]); b[0] += w; b[1].append(t)
    return [('g%02d.%s' % (gi, ','.join(sorted({t[0] for t in b[1]}))[:70]), job_tasks(b[1])) for gi, b in enumerate(bins) if b[1]]       # names must be regex-safe (--only / --replay)
JOB_CAP = {'quick': 600, 'thorough': 3600}
def PROGRAMS(recs): return len({tuple(x['name'].split('.')[1:3]) for x in recs if x.get('kind') in ('diff', 'decision', 'lowp-accuracy')})
