"""C10 - inverse, determinant and their gtc/gtx variants satisfy the defining identities
(detail/func_matrix.inl, gtc/matrix_inverse.inl, operator/ of type_mat{2x2,3x3,4x4}.inl, gtx/matrix_operation.inl, gtx/matrix_query.inl, gtx/matrix_factorisation.inl)."""
from props.common import *
from props.c02 import unflat, flat, mmul, mulv, vmul, ssum, Structure
import itertools, functools
LEVEL = 'proof'
CLAIM = ("inverse (2x2, 3x3, 4x4), determinant, inverseTranspose, affineInverse (mat3/mat4), operator/ (mat/mat, mat/vec, vec/mat, /=), gtx adjugate, diagonal builders and "
         "qr_decompose/rq_decompose are executed symbolically from their clang IR over fully symbolic float and double matrices in rounding-erased (real) semantics; every query is made "
         "division-free (outputs read as fractions over the code's own divisors, goals cross-multiplied, each divisor proved non-zero under the precondition). The solver shows "
         "inverse(M)*M = M*inverse(M) = I for every M with det(M) != 0 (no lower bound on |det|), determinant = Leibniz expansion, transpose-invariant and multiplicative, "
         "transpose(inverseTranspose(M)) is a two-sided inverse of M and inverseTranspose = transpose(inverse) entry by entry, affineInverse = inverse (and a two-sided inverse) on affine matrices, "
         "X = A/B solves X*B = A, x = B/v solves B*x = v, y = v/B solves y*B = v (operand order), adjugate(M)*M = M*adjugate(M) = det(M)*I, and Q*R = M, Q^T Q = I, R upper triangular for qr/rq. "
         "Exact clause: for integer matrices with |entries| <= 8 and det = +-1 the bit-precise IEEE term of every one of these functions is shown to consist of exactly rounded operations only "
         "(structure walk, divisor = determinant, solver-proved interval induction: all intermediates are integers below 2^24), so the IEEE results equal the mathematical values and the identities hold with ==; "
         "for 2x2 float this is cross-checked by the solver directly on the bit-precise term. gtx isIdentity is checked bit-precisely, isNull in real semantics.")
BOUNDS = ('rounding-erased semantics: every matrix entry an unconstrained real, hypothesis det(M) != 0 (Leibniz expansion) where an inverse is taken; affine: last row (0,..,0,1); '
          'qr/rq: shapes 2x2, 3x2, 2x3 with linearly independent leading columns / trailing rows (Gram determinant != 0); 3x3 (float; quick and thorough) and 4x4 (thorough) attempted, optional; '
          'exact clause: integer entries |m| <= 8 with det = +-1 (determinant of a product: |m| <= 8 / 4 / 2 for sizes 2 / 3 / 4, the interval bound must stay below 2^24), float and double, sizes 2,3,4; '
          'isIdentity: all non-NaN floats (bit-precise); isNull: all reals')
OUTSIDE = ('the condition-number-proportional rounding bound for general well-conditioned matrices (a numerical-analysis claim; only the rounding-erased identities and the exact unimodular clause are decided); '
           'qr/rq for 3x3 and 4x4: the last Gram-Schmidt pivot != 0 does not finish in nlsat, so the goals that divide by it (last column of Q) are not attempted; the remaining 3x3/4x4 goals are optional; '
           'sign of zero in the exact clause (== does not distinguish +0 and -0); gtx isNormalized/isOrthogonal (their real-mode equivalences with several square roots do not finish in nlsat); SIMD (aligned) inverse variants (C03)')
ASSUMPTIONS = ['rounding-erased (exact real) semantics for obligations named *.real; sqrt(x) is the unique y >= 0 with y*y = x',
               'exact clause: IEEE-754 correct rounding returns an exactly representable result exactly (instances proved in C02 ieee_lemma_*; x / (+-1) and 1 / (+-1) are exact by the same rule); '
               'sums, differences and products of integers are integers (the induction over the term is carried out outside the solver, each step lemma inside)']
TYPES = {'f32': 'float', 'f64': 'double'}
INCLUDES = ['glm/glm.hpp', 'glm/gtc/matrix_inverse.hpp', 'glm/gtx/matrix_operation.hpp', 'glm/gtx/matrix_query.hpp', 'glm/gtx/matrix_factorisation.hpp']
def Mx(C, R, p): return 'ldm<%d,%d,T>(%s)' % (C, R, p)
def Vx(L, p): return 'ldv<%d,T>(%s)' % (L, p)
QR_SHAPES = [(2, 2), (3, 3), (2, 3), (3, 2), (4, 4)]

def build_unit(t):
    ct = TYPES[t]
    U = Unit('c10_' + t, includes=INCLUDES, prelude='typedef %s T;\n' % ct)
    for L in (2, 3, 4):
        N = L * L
        U.add('inv_%d' % L, [(ct, N)], [(ct, N)], 'stm(o, glm::inverse(%s));' % Mx(L, L, 'a'))
        U.add('det_%d' % L, [(ct, N), (ct, N)], [(ct, 3)], 'auto A = %s; auto B = %s; o[0] = glm::determinant(A); o[1] = glm::determinant(glm::transpose(A)); o[2] = glm::determinant(A * B);' % (Mx(L, L, 'a'), Mx(L, L, 'b')))
        U.add('invT_%d' % L, [(ct, N)], [(ct, N), (ct, N)], 'auto A = %s; stm(o, glm::inverseTranspose(A)); stm(o2, glm::inverse(A));' % Mx(L, L, 'a'))
        if L > 2:
            U.add('aff_%d' % L, [(ct, N)], [(ct, N), (ct, N)], 'auto A = %s; stm(o, glm::affineInverse(A)); stm(o2, glm::inverse(A));' % Mx(L, L, 'a'))
        U.add('div_%d' % L, [(ct, N), (ct, N), (ct, L)], [(ct, N), (ct, L), (ct, L), (ct, 2 * N)],
              'auto A = %s; auto B = %s; auto v = %s; stm(o, A / B); stv(o2, B / v); stv(o3, v / B); { auto m = A; m /= B; stm(o4, m); } stm(o4 + %d, glm::inverse(B));' % (Mx(L, L, 'a'), Mx(L, L, 'b'), Vx(L, 'c'), N))
        U.add('adj_%d' % L, [(ct, N)], [(ct, N)], 'stm(o, glm::adjugate(%s));' % Mx(L, L, 'a'))
        U.add('diag_%d' % L, [(ct, L)], [(ct, N), (ct, 1)], 'auto D = glm::diagonal%dx%d(%s); stm(o, glm::inverse(D)); o2[0] = glm::determinant(D);' % (L, L, Vx(L, 'a')))
        U.add('unimod_%d' % L, [(ct, N)], [(ct, N), (ct, N), (ct, N)], 'auto A = %s; auto I = glm::inverse(A); stm(o, I * A); stm(o2, A * I); stm(o3, I);' % Mx(L, L, 'a'))
        U.add('query_%d' % L, [(ct, N), (ct, 1)], [('bool', 1)], 'auto A = %s; o[0] = glm::isIdentity(A, b[0]);' % Mx(L, L, 'a'))
        U.add('null_%d' % L, [(ct, N), (ct, 1)], [('bool', 1)], 'auto A = %s; o[0] = glm::isNull(A, b[0]);' % Mx(L, L, 'a'))
    for (C, R) in QR_SHAPES:
        m = min(C, R)
        U.add('qr_%d%d' % (C, R), [(ct, C * R)], [(ct, m * R), (ct, C * m)],
              'glm::mat<%d,%d,T> q(T(0)); glm::mat<%d,%d,T> r(T(0)); glm::qr_decompose(%s, q, r); stm(o, q); stm(o2, r);' % (m, R, C, m, Mx(C, R, 'a')))
        U.add('rq_%d%d' % (C, R), [(ct, C * R)], [(ct, m * R), (ct, C * m)],
              'glm::mat<%d,%d,T> r(T(0)); glm::mat<%d,%d,T> q(T(0)); glm::rq_decompose(%s, r, q); stm(o, r); stm(o2, q);' % (m, R, C, m, Mx(C, R, 'a')))
    return U
UNITS = {t: build_unit(t) for t in TYPES}
def units(tier): return list(UNITS.values())

# ------------------------------------------------------------------ reference mathematics (independent of glm)
def perm_sign(p):
    s = 1
    for i in range(len(p)):
        for j in range(i + 1, len(p)):
            if p[i] > p[j]: s = -s
    return s
def leibniz(A):
    """det = sum over permutations sgn(p) * prod_i A[i][p(i)]   (A[c][r]; the determinant is transpose-invariant)"""
    L = len(A); tot = None
    for p in itertools.permutations(range(L)):
        term = A[0][p[0]]
        for i in range(1, L): term = term * A[i][p[i]]
        term = term if perm_sign(p) > 0 else -term
        tot = term if tot is None else tot + term
    return tot
_FC = {}            # term id -> Frac (per process; one job per process)
_DV = {}            # divisor terms met by FEq since the last reset: id -> term
def rv(xs):
    """outputs of the code (RV) -> fractions N/D over the code's own divisors"""
    return [Frac.of(x) for x in xs]
def fr(xs):
    """inputs (z3 reals) -> fractions with empty denominator (all specification arithmetic is done on Frac objects: z3's ArithRef.__mul__(Frac) raises
    instead of returning NotImplemented, so mixed products only work with the Frac on the left)"""
    return [Frac.of(x) for x in xs]
def delta(c, r, like=None): return Frac(z3.RealVal(1 if c == r else 0))
def transpose(A): return [[A[c][r] for c in range(len(A))] for r in range(len(A[0]))]


# ------------------------------------------------------------------ division-free goals
# nlsat is fast on polynomial identities but does not finish when every entry of the code's output carries its own quotient (inverseTranspose: cof / det; qr: 1/sqrt).
# Every term of the code is therefore read as a fraction N / D (D a product of powers of the code's own divisors) by the field rules a/b + c/d = (ad + cb)/(bd),
# (a/b)(c/d) = ac/(bd), (a/b)/(c/d) = ad/(bc); an equality goal N1/D1 == N2/D2 is handed to the solver cross-multiplied, N1*D2 == N2*D1, and the sqrt axioms and the
# executor's side conditions are rewritten the same way (nodiv).  This is an equivalence wherever the divisors are non-zero: each divisor is proved non-zero for every
# input satisfying the precondition by an obligation of its own (check_real), and a goal is only attempted when all its divisors are proved.
class Frac:
    """numerator term, denominator as {divisor id: (divisor term, power)}"""
    def __init__(s, n, d=None): s.n = n; s.d = d or {}
    @staticmethod
    def of(x):
        if isinstance(x, Frac): return x
        if isinstance(x, RV): return to_frac(x.r, _FC)
        return Frac(z3.RealVal(x) if isinstance(x, int) else x)
    def den(s):
        t = None
        for k in sorted(s.d):
            term, p = s.d[k]
            for _ in range(p): t = term if t is None else t * term
        return t
    @staticmethod
    def _scale(n, have, want):
        """n * prod(want / have)"""
        for k in sorted(want):
            term, p = want[k]; q = have.get(k, (term, 0))[1]
            for _ in range(p - q): n = n * term
        return n
    @staticmethod
    def _lcm(a, b):
        r = dict(a)
        for k, (term, p) in b.items(): r[k] = (term, max(p, r.get(k, (term, 0))[1]))
        return r
    def is0(s): return z3.is_rational_value(s.n) and s.n.numerator_as_long() == 0
    def __add__(s, o):
        o = Frac.of(o)
        if o.is0(): return s             # a literal zero contributes no divisor (R's zero entries in Q*R)
        if s.is0(): return o
        l = Frac._lcm(s.d, o.d); return Frac(Frac._scale(s.n, s.d, l) + Frac._scale(o.n, o.d, l), l)
    __radd__ = lambda s, o: Frac.of(o) + s
    def __sub__(s, o):
        o = Frac.of(o)
        if o.is0(): return s
        l = Frac._lcm(s.d, o.d); return Frac(Frac._scale(s.n, s.d, l) - Frac._scale(o.n, o.d, l), l)
    __rsub__ = lambda s, o: Frac.of(o) - s
    def __neg__(s): return Frac(-s.n, s.d)
    def __mul__(s, o):
        o = Frac.of(o)
        if s.is0() or o.is0(): return Frac(z3.RealVal(0))
        d = dict(s.d)
        for k, (term, p) in o.d.items(): d[k] = (term, p + d.get(k, (term, 0))[1])
        return Frac(s.n * o.n, d)
    __rmul__ = lambda s, o: Frac.of(o) * s
    def __truediv__(s, o):
        o = Frac.of(o)
        # (n1/d1) / (n2/d2) = n1*d2 / (d1*n2): the numerator of the divisor becomes a base divisor
        r = s * Frac(o.den() if o.d else z3.RealVal(1), {})
        key = o.n.get_id(); d = dict(r.d); d[key] = (o.n, 1 + d.get(key, (o.n, 0))[1])
        return Frac(r.n, d)
def to_frac(t, cache):
    k = t.get_id()
    if k in cache: return cache[k][1]
    kd = t.decl().kind(); ch = t.children()
    if z3.is_rational_value(t) or not ch: r = Frac(t)
    elif kd == z3.Z3_OP_ADD: r = functools.reduce(lambda p, q: p + q, [to_frac(c, cache) for c in ch])
    elif kd == z3.Z3_OP_MUL: r = functools.reduce(lambda p, q: p * q, [to_frac(c, cache) for c in ch])
    elif kd == z3.Z3_OP_SUB: r = functools.reduce(lambda p, q: p - q, [to_frac(c, cache) for c in ch])
    elif kd == z3.Z3_OP_UMINUS: r = -to_frac(ch[0], cache)
    elif kd == z3.Z3_OP_DIV:
        d = to_frac(ch[1], cache)
        r = to_frac(ch[0], cache) * Frac(z3.RealVal(1) / d.n, {}) if (z3.is_rational_value(d.n) and not d.d) else to_frac(ch[0], cache) / d
    elif kd == z3.Z3_OP_ITE and z3.is_real(t):
        # ite(c, n1/d1, n2/d2) = ite(c, n1*(l/d1), n2*(l/d2)) / l with l = lcm(d1, d2); like the cross-multiplication in FEq this needs every divisor to be non-zero
        # on ALL inputs satisfying the precondition (not only on the branch that divides): that is what the 'divisor!=0' obligations added by with_divisors demand.
        # The condition keeps its original form.
        a, b = to_frac(ch[1], cache), to_frac(ch[2], cache); l = Frac._lcm(a.d, b.d)
        r = Frac(z3.If(ch[0], Frac._scale(a.n, a.d, l), Frac._scale(b.n, b.d, l)), l)
    else: r = Frac(t)          # opaque (sqrt variable, uninterpreted function, ...)
    cache[k] = (t, r); return r          # t is kept alive: z3 reuses the ids of freed terms
def FEq(l, r):
    l, r = Frac.of(l), Frac.of(r); m = Frac._lcm(l.d, r.d)
    for k, (term, p) in m.items(): _DV[k] = term
    g = RGoal('eq', Frac._scale(l.n, l.d, m), Frac._scale(r.n, r.d, m)); g.divs = set(m); return g
_CMP = {z3.Z3_OP_EQ: lambda n: n == 0, z3.Z3_OP_DISTINCT: lambda n: n != 0, z3.Z3_OP_LE: lambda n: n <= 0, z3.Z3_OP_LT: lambda n: n < 0, z3.Z3_OP_GE: lambda n: n >= 0, z3.Z3_OP_GT: lambda n: n > 0}
def nodiv(b, used=None):
    """Boolean term -> equivalent division-free Boolean term, valid wherever every divisor of the code is non-zero (the divisors are collected in `used` and _DV;
    each is proved non-zero separately).  l op r  <=>  N op 0 for l - r = N/D and op in {=, !=};  for the order relations N*D' op 0 with D' the product of the divisors
    of odd power (N/D = N*D/D^2)."""
    kd = b.decl().kind(); ch = b.children()
    if kd in _CMP and len(ch) == 2 and z3.is_real(ch[0]):
        f = to_frac(ch[0], _FC) - to_frac(ch[1], _FC)
        if not f.d: return b
        n = f.n
        for k in sorted(f.d):
            term, pw = f.d[k]; _DV[k] = term
            if used is not None: used[k] = term
            if pw % 2 and kd not in (z3.Z3_OP_EQ, z3.Z3_OP_DISTINCT): n = n * term
        return _CMP[kd](n)
    if z3.is_bool(b) and ch and all(z3.is_bool(c) for c in ch) and kd in (z3.Z3_OP_AND, z3.Z3_OP_OR, z3.Z3_OP_NOT, z3.Z3_OP_IMPLIES, z3.Z3_OP_ITE, z3.Z3_OP_EQ, z3.Z3_OP_XOR):
        nc = [nodiv(c, used) for c in ch]
        if kd == z3.Z3_OP_AND: return z3.And(*nc)
        if kd == z3.Z3_OP_OR: return z3.Or(*nc)
        if kd == z3.Z3_OP_NOT: return z3.Not(nc[0])
        if kd == z3.Z3_OP_IMPLIES: return z3.Implies(nc[0], nc[1])
        if kd == z3.Z3_OP_ITE: return z3.If(nc[0], nc[1], nc[2])
        if kd == z3.Z3_OP_XOR: return z3.Xor(nc[0], nc[1])
        return nc[0] == nc[1]
    return b
def _sum_of_squares(cond):
    """cond = (x1*x1 + ... + xn*xn < 0) (as emitted by the executor for sqrt; also Not(0 <= ..)) -> [x1..xn], else None"""
    is0 = lambda x: z3.is_rational_value(x) and x.numerator_as_long() == 0
    kd = cond.decl().kind()
    if kd == z3.Z3_OP_LT and is0(cond.arg(1)): arg = cond.arg(0)                # arg < 0
    elif kd == z3.Z3_OP_GT and is0(cond.arg(0)): arg = cond.arg(1)              # 0 > arg
    elif kd == z3.Z3_OP_NOT and cond.arg(0).decl().kind() == z3.Z3_OP_LE and is0(cond.arg(0).arg(0)): arg = cond.arg(0).arg(1)
    elif kd == z3.Z3_OP_NOT and cond.arg(0).decl().kind() == z3.Z3_OP_GE and is0(cond.arg(0).arg(1)): arg = cond.arg(0).arg(0)
    else: return None
    terms = []; st = [arg]; xs = []
    while st:
        x = st.pop()
        if x.decl().kind() == z3.Z3_OP_ADD: st.extend(x.children())
        else: terms.append(x)
    for m in terms:
        if m.decl().kind() == z3.Z3_OP_MUL and m.num_args() == 2 and m.arg(0).eq(m.arg(1)): xs.append(m.arg(0))
        else: return None
    return xs
def _subterm_ids(t, acc):
    st = [t]
    while st:
        x = st.pop()
        if x.get_id() in acc: continue
        acc.add(x.get_id()); st.extend(x.children())
    return acc

def check_real(S, U, fn, spec, pre, name, bounds, mutant=None, known=(), timeout=None, ins=None, mandatory=True, unwind=16, solver='z3', only=None):
    """Rounding-erased check of one wrapper, every query division-free:
    (1) '<name>.divisor!=0[k]': each divisor of the code (met in the goals, the executor's obligations or the sqrt axioms) is non-zero for EVERY input satisfying pre;
        they are proved in execution order, each from pre, the axioms whose own divisors are already proved and the earlier divisor facts;
    (2) '<name>.domain.<kind>[..]': the executor's side obligations (sqrt arguments >= 0, loop bounds, memory) under pre;
    (3) '<name>.<label>': the goals, cross-multiplied (FEq).   only(label) -> bool selects goals (to split one wrapper over several jobs)."""
    timeout = timeout or S.cap(60, 180); f = U.fns[fn]
    try: res = sym_call(U, fn, ins=ins, mode='real', unwind=unwind)
    except Unsupported as e:
        S.rec(name=name, kind='encode', result='unsupported', status='not-encoded', note=str(e), mandatory=mandatory, functions=[fn])
        if mandatory: S.inconclusive.append('%s [not encoded: %s]' % (name, e))
        return None
    P = list(pre(res.ins)) if pre else []
    pin = S.pins.get(name) or S.pins.get('%s.%s' % (U.name, fn))          # ./check C10 --replay <file>: inputs fixed to the recorded counterexample
    if pin:
        for terms, vals in zip(res.ins, pin):
            for x, v in zip(terms, vals):
                if z3.is_const(x) and x.decl().kind() == z3.Z3_OP_UNINTERPRETED: P.append(x == z3.RealVal(v))
    fnlist = ['w_%s -> %s' % (fn, f.body.strip().replace('\n', ' ')[:160])]
    binfo = ('unwind=%d; ' % unwind) + bounds + '; ll=' + U.ll_sha()
    allvars = [x for row in res.ins for x in row if not z3.is_rational_value(x)]
    _DV.clear()
    goals = list(spec(res.ins, res.outs)) if spec else []
    axs = []
    for a in res.axioms:
        u = {}; axs.append((nodiv(a, u), set(u)))
    obs = [(kind, nodiv(cond), d) for kind, cond, d in res.obligations]
    S.prove(name + '.witness', z3.BoolVal(False), P + list(res.axioms), timeout=S.cap(20, 60), kind='witness', functions=fnlist, bounds=binfo, expect='sat', mandatory=False)
    # (1) divisors, in execution order (position of the executor's own division-by-zero obligation)
    pos = {}
    for n_, (kind, cond, d) in enumerate(res.obligations):
        if 'division by zero' in d:
            ids = _subterm_ids(cond, set())
            for k in _DV:
                if k in ids and k not in pos: pos[k] = n_
    order = sorted(_DV, key=lambda k: (pos.get(k, 1 << 30), k))
    proven = set(); facts = []
    def hyps(): return P + [a for a, ds in axs if ds <= proven] + facts
    sp = (spec, None)
    blocked = False
    for n_, k in enumerate(order):
        d = _DV[k]
        if blocked:          # later divisors are defined through the unproved one (execution order): without its axioms a query would be meaningless
            S.rec(name='%s.divisor!=0[%d]' % (name, n_), kind='domain', functions=fnlist, bounds=binfo, solver='-', result='unknown', time_s=0.0, status='inconclusive', mandatory=mandatory, note='an earlier divisor was not proved non-zero')
            if mandatory: S.inconclusive.append('%s.divisor!=0[%d] [an earlier divisor was not proved non-zero]' % (name, n_))
            continue
        r, _m = S.prove('%s.divisor!=0[%d]' % (name, n_), d != 0, hyps(), timeout=timeout, solver=solver, kind='domain', functions=fnlist, vars_=allvars, mandatory=mandatory,
                        bounds=binfo + '; divisor ' + d.sexpr()[:80].replace('\n', ' '), replay=S._replayer(res, None, pre, U, fn, 'real', name + '.divisor'))
        if r == 'unsat': proven.add(k); facts.append(d != 0)
        else: blocked = True
    H = hyps()
    # (2) executor obligations
    groups = {}; nsq = 0
    for (kind, cond, d), (_k, raw, _d) in zip(obs, res.obligations):
        if 'division by zero' in d and raw.decl().kind() == z3.Z3_OP_EQ and any(c.get_id() in _DV for c in raw.children()): continue      # 'divisor == 0' unconditionally: that is obligation (1)
        sq = _sum_of_squares(raw) if 'sqrt of negative' in d else None
        if sq is not None:
            # sqrt argument of the syntactic form x1*x1 + .. + xn*xn: non-negative whatever the xi are (the xi are replaced by fresh variables: a generalisation)
            ys = [z3.Real('y%d' % k) for k in range(len(sq))]
            S.prove('%s.domain.sqrt-argument[%d]' % (name, nsq), ssum([y * y for y in ys]) >= 0, [], timeout=timeout, kind=kind, functions=fnlist, mandatory=mandatory,
                    bounds=binfo + '; argument is the sum of squares of %d terms of the code, abstracted to free variables' % len(sq)); nsq += 1
            continue
        groups.setdefault((kind, d), []).append(cond)
    for (kind, d), conds in groups.items():
        g = z3.Not(z3.Or(*conds)) if len(conds) > 1 else z3.Not(conds[0])
        if z3.is_true(z3.simplify(g)): continue
        S._prove_known('%s.domain.%s[%s]' % (name, kind, d[:60]), g, H, res, known, timeout=timeout, solver=solver, kind=kind, functions=fnlist, bounds=binfo, spec_fn=None, pre_fn=pre,
                       unit=U, fname=fn, mode='real', vars_=allvars, mandatory=mandatory)
    # (3) goals
    for label, g in goals:
        if only is not None and not only(label): continue
        if not getattr(g, 'divs', set()) <= proven:      # cross-multiplied with a divisor that was not proved non-zero: the goal is not attempted
            S.rec(name='%s.%s' % (name, label), kind='spec', functions=fnlist, bounds=binfo, solver='-', result='unknown', time_s=0.0, status='inconclusive', mandatory=mandatory, note='a divisor of this goal was not proved non-zero')
            if mandatory: S.inconclusive.append('%s.%s [a divisor of this goal was not proved non-zero]' % (name, label))
            continue
        S._prove_known('%s.%s' % (name, label), goal_term(g), H, res, known, timeout=timeout, solver=solver, kind='spec', functions=fnlist, bounds=binfo, spec_fn=(spec, label), pre_fn=pre,
                       unit=U, fname=fn, mode='real', vars_=allvars, mandatory=mandatory)
    if mutant is not None and not S.quick:
        for label, g in mutant(res.ins, res.outs):
            S.prove('%s.twin.%s' % (name, label), goal_term(g), H, timeout=timeout, solver=solver, kind='mutant-twin', functions=fnlist, bounds=binfo, expect='sat', mandatory=False, vars_=allvars)
    return res

def ident_goals(tag, X, Y, L):
    """(X*Y)[c][r] == delta for column-major X, Y (lists of columns)"""
    P = mmul(X, Y)
    return [('%s[%d][%d]' % (tag, c, r), FEq(P[c][r], delta(c, r))) for c in range(L) for r in range(L)]
def det_pre(L, k=0): return lambda i: [leibniz(unflat(i[k], L, L)) != 0]

# ---- specifications (i: input arrays, o: output arrays; used by the rounding-erased jobs and, on the mirrored fp term, by the exact clause)
def inverse_spec(L):
    def spec(i, o):
        A = unflat(fr(i[0]), L, L); I = unflat(rv(o[0]), L, L)
        return ident_goals('inverse(M)*M', I, A, L) + ident_goals('M*inverse(M)', A, I, L)
    return spec
def det_spec(L):
    def spec(i, o):
        A = unflat(fr(i[0]), L, L); B = unflat(fr(i[1]), L, L); d = rv(o[0])
        return [('determinant==Leibniz', FEq(d[0], leibniz(A))), ('determinant(transpose)', FEq(d[1], leibniz(A))), ('determinant(A*B)==det(A)*det(B)', FEq(d[2], leibniz(A) * leibniz(B)))]
    return spec
def invT_specs(L):
    def spec_id(i, o):
        # independent of glm::inverse: X = transpose(inverseTranspose(M)) is a two-sided inverse of M
        A = unflat(fr(i[0]), L, L); IT = unflat(rv(o[0]), L, L)
        return ident_goals('transpose(inverseTranspose(M))*M', transpose(IT), A, L) + ident_goals('M*transpose(inverseTranspose(M))', A, transpose(IT), L)
    def spec_eq(i, o):
        # the literal statement: the two rational functions produced by the code compared entry by entry
        IT = unflat(rv(o[0]), L, L); I = unflat(rv(o[1]), L, L)
        return [('inverseTranspose==transpose(inverse)[%d][%d]' % (c, r), FEq(IT[c][r], I[r][c])) for c in range(L) for r in range(L)]
    return spec_id, (lambda i, o: spec_id(i, o) + spec_eq(i, o))
def affine_spec(L):
    def spec(i, o):
        A = unflat(fr(i[0]), L, L); AI = unflat(rv(o[0]), L, L); I = unflat(rv(o[1]), L, L)
        g = [('affineInverse==inverse[%d][%d]' % (c, r), FEq(AI[c][r], I[c][r])) for c in range(L) for r in range(L)]
        return g + ident_goals('affineInverse(M)*M', AI, A, L) + ident_goals('M*affineInverse(M)', A, AI, L)
    return spec
def div_spec(L):
    """X = A / B is A * inverse(B): the unique X with X * B == A; x = B / v is inverse(B) * v: B * x == v; y = v / B is v * inverse(B): y * B == v (operand order matters)"""
    def spec(i, o):
        A = unflat(fr(i[0]), L, L); B = unflat(fr(i[1]), L, L); v = fr(i[2])
        X = unflat(rv(o[0]), L, L); x = rv(o[1]); y = rv(o[2]); X2 = unflat(rv(o[3][:L * L]), L, L); IB = unflat(rv(o[3][L * L:]), L, L)
        XB = mmul(X, B); X2B = mmul(X2, B); Bx = mulv(B, x); yB = vmul(y, B); AIB = mmul(A, IB); IBv = mulv(IB, v); vIB = vmul(v, IB)
        g = [('(A/B)*B==A[%d][%d]' % (c, r), FEq(XB[c][r], A[c][r])) for c in range(L) for r in range(L)]
        g += [('B*(B/v)==v[%d]' % r, FEq(Bx[r], v[r])) for r in range(L)]
        g += [('(v/B)*B==v[%d]' % k, FEq(yB[k], v[k])) for k in range(L)]
        g += [('(A/=B)*B==A[%d][%d]' % (c, r), FEq(X2B[c][r], A[c][r])) for c in range(L) for r in range(L)]
        # the literal reading, with the code's own inverse(B)
        g += [('A/B==A*inverse(B)[%d][%d]' % (c, r), FEq(X[c][r], AIB[c][r])) for c in range(L) for r in range(L)]
        g += [('B/v==inverse(B)*v[%d]' % r, FEq(x[r], IBv[r])) for r in range(L)]
        g += [('v/B==v*inverse(B)[%d]' % k, FEq(y[k], vIB[k])) for k in range(L)]
        return g
    return spec
def adj_spec(L):
    def spec(i, o):
        A = unflat(fr(i[0]), L, L); J = unflat(rv(o[0]), L, L); P = mmul(J, A); Q = mmul(A, J); d = leibniz(A); z = Frac(z3.RealVal(0))
        return [('adjugate(M)*M==det*I[%d][%d]' % (c, r), FEq(P[c][r], d if c == r else z)) for c in range(L) for r in range(L)] + \
               [('M*adjugate(M)==det*I[%d][%d]' % (c, r), FEq(Q[c][r], d if c == r else z)) for c in range(L) for r in range(L)]
    return spec

def job_inverse(t, L):
    U = UNITS[t]
    def run(S):
        def mut(i, o):
            A = unflat(fr(i[0]), L, L); I = unflat(rv(o[0]), L, L); P = mmul(transpose(I), A)
            return [('transposed-inverse', FEq(P[1][0], Frac(z3.RealVal(0))))]
        check_real(S, U, 'inv_%d' % L, inverse_spec(L), det_pre(L), 'c10_%s.inverse%d.real' % (t, L), 'all real %dx%d matrices with det != 0' % (L, L), mutant=mut, timeout=S.cap(60, 180))
        scaled_instances(S, U, t, 'inv_%d' % L, inverse_spec(L), L, 'c10_%s.inverse%d' % (t, L))
    return run

# Instances M = s * U0 for a fixed small-integer unimodular U0 and one symbolic scale 1/4096 <= |s| <= 4096 (|det| = |s|^L down to 2^-48): redundant with the general obligation
# above, but a counterexample here is a well-scaled matrix whose native replay is robust (a general real counterexample may need entries that overflow or cancel in floats).
UNIMOD0 = {2: [[1, 2], [1, 3]], 3: [[1, 2, 0], [0, 1, 3], [1, 2, 1]], 4: [[1, 2, 0, 1], [0, 1, 3, 0], [1, 2, 1, 2], [0, 1, 3, 1]]}       # columns; det = 1 each
def scaled_ins(L, affine=False):
    s = z3.Real('s'); M = UNIMOD0[L]
    if affine:       # upper-left block s * U0(L-1), translation s*(1,2,..), last row (0,..,0,1)
        B = UNIMOD0[L - 1]
        return [[(s * B[c][r] if c < L - 1 else s * (r + 1)) if r < L - 1 else z3.RealVal(1 if c == L - 1 else 0) for c in range(L) for r in range(L)]], s
    return [[s * M[c][r] for c in range(L) for r in range(L)]], s
def scaled_instances(S, U, t, fn, spec, L, name, affine=False, which=0, nins=1):
    ins, s = scaled_ins(L, affine)
    full = [[z3.Real('%s%d' % ('abcdefgh'[a], k)) for k in range(n)] for a, (c, n) in enumerate(U.fns[fn].ins)]
    full[which] = ins[0]
    pre = lambda i: [z3.Or(z3.And(s >= z3.Q(1, 4096), s <= 4096), z3.And(s <= -z3.Q(1, 4096), s >= -4096))]
    check_real(S, U, fn, spec, pre, name + '.scaled-unimodular.real', 'M = s * U0, U0 = %s (columns), 2^-12 <= |s| <= 2^12' % UNIMOD0[L - 1 if affine else L], ins=full, timeout=S.cap(60, 180))

def job_det(t, L):
    U = UNITS[t]
    def run(S):
        def mut(i, o):
            A = unflat(fr(i[0]), L, L); A2 = [list(c) for c in A]; A2[0][0], A2[0][1] = A2[0][1], A2[0][0]
            return [('swapped-entry', FEq(rv(o[0])[0], leibniz(A2)))]
        check_real(S, U, 'det_%d' % L, det_spec(L), None, 'c10_%s.determinant%d.real' % (t, L), 'all real %dx%d matrices' % (L, L), mutant=mut, timeout=S.cap(60, 180))
    return run

def job_invT(t, L):
    U = UNITS[t]
    def run(S):
        def mut(i, o):
            IT = unflat(rv(o[0]), L, L); I = unflat(rv(o[1]), L, L)
            return [('not-transposed', FEq(IT[1][0], I[1][0]))]
        check_real(S, U, 'invT_%d' % L, invT_specs(L)[1], det_pre(L), 'c10_%s.inverseTranspose%d.real' % (t, L), 'all real %dx%d matrices with det != 0' % (L, L), mutant=mut, timeout=S.cap(60, 180))
        scaled_instances(S, U, t, 'invT_%d' % L, invT_specs(L)[0], L, 'c10_%s.inverseTranspose%d' % (t, L))
    return run

def affine_ins(L):
    """column-major LxL matrix whose last row is (0,..,0,1)"""
    return [[z3.Real('a%d' % (c * L + r)) if r < L - 1 else z3.RealVal(1 if c == L - 1 else 0) for c in range(L) for r in range(L)]]
def job_affine(t, L):
    U = UNITS[t]
    def run(S):
        def mut(i, o):
            AI = unflat(rv(o[0]), L, L); I = unflat(rv(o[1]), L, L)
            return [('translation-sign', FEq(AI[L - 1][0], -I[L - 1][0]))]
        check_real(S, U, 'aff_%d' % L, affine_spec(L), det_pre(L), 'c10_%s.affineInverse%d.real' % (t, L), 'all real affine %dx%d matrices (last row 0..0 1) with det != 0' % (L, L),
                   ins=affine_ins(L), mutant=mut, timeout=S.cap(60, 180))
        scaled_instances(S, U, t, 'aff_%d' % L, affine_spec(L), L, 'c10_%s.affineInverse%d' % (t, L), affine=True)
    return run

def job_div(t, L):
    U = UNITS[t]
    def run(S):
        def mut(i, o):
            A = unflat(fr(i[0]), L, L); B = unflat(fr(i[1]), L, L); X = unflat(rv(o[0]), L, L); BX = mmul(B, X)
            return [('left-division', FEq(BX[1][0], A[1][0]))]
        check_real(S, U, 'div_%d' % L, div_spec(L), det_pre(L, 1), 'c10_%s.divide%d.real' % (t, L), 'all real A, v; all real B with det(B) != 0', mutant=mut, timeout=S.cap(60, 180))
        scaled_instances(S, U, t, 'div_%d' % L, div_spec(L), L, 'c10_%s.divide%d' % (t, L), which=1)
    return run

def job_adj(t, L):
    U = UNITS[t]
    def run(S):
        check_real(S, U, 'adj_%d' % L, adj_spec(L), None, 'c10_%s.adjugate%d.real' % (t, L), 'all real %dx%d matrices' % (L, L), timeout=S.cap(60, 180))
    return run

def job_diag(t, L):
    U = UNITS[t]
    def run(S):
        def spec(i, o):
            v = fr(i[0]); I = unflat(rv(o[0]), L, L); d = rv(o[1])[0]; p = v[0]
            for k in range(1, L): p = p * v[k]
            g = [('inverse(diagonal(v))[%d][%d]' % (c, r), FEq(I[c][r] * v[c], delta(0, 0)) if c == r else FEq(I[c][r], delta(0, 1))) for c in range(L) for r in range(L)]
            return g + [('determinant(diagonal(v))', FEq(d, p))]
        check_real(S, U, 'diag_%d' % L, spec, lambda i: [x != 0 for x in i[0]], 'c10_%s.diagonal%d.real' % (t, L), 'all real v with nonzero components', timeout=S.cap(60, 180))
    return run

def job_qr(t, C, R, which, mandatory, part=None):
    U = UNITS[t]; m = min(C, R)
    def indep(i):
        """the first min(C,R) columns (qr) / last rows (rq) are linearly independent: Gram determinant != 0"""
        A = unflat(i[0], C, R)
        if which == 'qr': vs = [A[c] for c in range(m)]
        else: vs = [[A[c][R - 1 - k] for c in range(C)] for k in range(m)]
        G = [[ssum([x * y for x, y in zip(u, w)]) for w in vs] for u in vs]
        return [leibniz(G) != 0]
    labels = []
    def sel(label):
        """part = (k, n): every n-th goal starting with the k-th (large shapes are split over several jobs)"""
        if part is None: return True
        if label not in labels: labels.append(label)
        return labels.index(label) % part[1] == part[0]
    def run(S):
        def spec(i, o):
            A = unflat(fr(i[0]), C, R)
            if which == 'qr':
                Q = unflat(rv(o[0]), m, R); Rm = unflat(rv(o[1]), C, m)        # Q: m columns of R rows; R: C columns of m rows
                P = mmul(Q, Rm); QtQ = mmul(transpose(Q), Q)
                g = [('Q*R==M[%d][%d]' % (c, r), FEq(P[c][r], A[c][r])) for c in range(C) for r in range(R)]
                g += [('QtQ==I[%d][%d]' % (c, r), FEq(QtQ[c][r], delta(c, r, QtQ[c][r]))) for c in range(m) for r in range(m)]
                g += [('R-upper-triangular[%d][%d]' % (c, r), FEq(Rm[c][r], delta(0, 1))) for c in range(C) for r in range(m) if r > c]
            else:
                Rm = unflat(rv(o[0]), m, R); Q = unflat(rv(o[1]), C, m)        # R: m columns of R rows; Q: C columns of m rows
                P = mmul(Rm, Q); QQt = mmul(Q, transpose(Q))
                g = [('R*Q==M[%d][%d]' % (c, r), FEq(P[c][r], A[c][r])) for c in range(C) for r in range(R)]
                g += [('QQt==I[%d][%d]' % (c, r), FEq(QQt[c][r], delta(c, r, QQt[c][r]))) for c in range(m) for r in range(m)]
                if C == R: g += [('R-upper-triangular[%d][%d]' % (c, r), FEq(Rm[c][r], delta(0, 1))) for c in range(m) for r in range(R) if r > c]
            return g
        check_real(S, U, '%s_%d%d' % (which, C, R), spec, indep, 'c10_%s.%s_decompose%dx%d.real' % (t, which, C, R), 'all real %dx%d matrices with independent leading columns/rows; sqrt as algebraic y>=0, y*y=x' % (C, R),
                   timeout=S.cap(90, 240) if mandatory else S.cap(20, 40), mandatory=mandatory, unwind=8, solver='nra', only=sel)
    return run

# ------------------------------------------------------------------ exact clause (small-integer unimodular matrices)
# Claim: for integer-valued entries |m_ij| <= kmax and det = +-1 the IEEE result of the compiled code equals the mathematical value (so inverse(M)*M == I etc. hold
# with ==).  Established per wrapper on its bit-precise ('fp' mode) term:
#  (1) structure: the term consists of RNE fadd/fsub/fmul/fdiv at the type's own precision, negations, integer-valued literals and the input entries only;
#  (2) every fdiv divides by a node whose exact value is the Leibniz determinant of the stated input matrix (polynomial identity, solver) - hence by +-1;
#  (3) by induction over the term every node's exact value is an integer of magnitude < 2^24 (f32) / 2^53 (f64): the bound of each node follows from its children's
#      bounds by a one-step interval lemma proved by the solver over the integers (|x| <= bx, |y| <= by => |x op y| <= b), x / (+-1) = x * (+-1) likewise;
#      integers of that magnitude are representable, and IEEE correct rounding returns a representable exact result exactly (ASSUMPTIONS), so every rounding is the identity
#      and the IEEE value of each output is the value of its rounding-erased mirror;
#  (4) the rounding-erased mirror satisfies the goal (the same specification functions as the *.real jobs, cross-multiplied; solver).
# A failed goal (4) is re-searched over the integers (entries in range, det = +-1) and replayed natively with exact rational arithmetic.
def _is_rne(x): return x.decl().kind() == z3.Z3_OP_FPA_RM_NEAREST_TIES_TO_EVEN
class ExactWalk:
    def __init__(s, W, leaves, kmax):
        s.W = W; s.leaves = leaves; s.kmax = kmax; s.cache = {}; s.steps = set(); s.divs = {}; s.maxb = 0; s.nodes = 0; s.keep = []
    def lit(s, t):
        if t.isNaN() or t.isInf(): raise Structure('literal ' + t.sexpr())
        v = z3.simplify(z3.fpToReal(t)); f = Fraction(v.numerator_as_long(), v.denominator_as_long())
        if f.denominator != 1: raise Structure('non-integer literal %s' % f)
        return z3.RealVal(int(f)), abs(int(f))
    def fp(s, t):
        key = ('f', t.get_id())
        if key in s.cache: return s.cache[key]
        k = t.decl().kind()
        if k in (z3.Z3_OP_FPA_ADD, z3.Z3_OP_FPA_SUB, z3.Z3_OP_FPA_MUL, z3.Z3_OP_FPA_DIV):
            if not _is_rne(t.arg(0)): raise Structure('rounding mode ' + t.arg(0).sexpr())
            if t.sort().ebits() + t.sort().sbits() != s.W: raise Structure('precision %s' % t.sort())
            (x, bx), (y, by) = s.fp(t.arg(1)), s.fp(t.arg(2)); s.nodes += 1
            if k == z3.Z3_OP_FPA_DIV:
                s.divs.setdefault(t.arg(2).get_id(), y); r = (x / y, bx); s.steps.add(('div', bx, 1))
            elif k == z3.Z3_OP_FPA_MUL: r = (x * y, bx * by); s.steps.add(('mul', bx, by))
            else: r = ((x + y) if k == z3.Z3_OP_FPA_ADD else (x - y), bx + by); s.steps.add(('add' if k == z3.Z3_OP_FPA_ADD else 'sub', bx, by))
            s.maxb = max(s.maxb, r[1])
        elif k == z3.Z3_OP_FPA_NEG:
            x, bx = s.fp(t.arg(0)); r = (-x, bx)
        elif k == z3.Z3_OP_FPA_TO_FP and t.num_args() == 1 and z3.is_bv(t.arg(0)):
            if t.sort().ebits() + t.sort().sbits() != s.W: raise Structure('precision %s' % t.sort())
            r = s.bits(t.arg(0))
        elif z3.is_fp_value(t): r = s.lit(t)
        else: raise Structure('operation ' + t.decl().name())
        s.cache[key] = r; s.keep.append(t); return r
    def bits(s, b):
        key = ('b', b.get_id())
        if key in s.cache: return s.cache[key]
        k = b.decl().kind(); sign = 1 << (s.W - 1)
        if b.get_id() in s.leaves: r = (s.leaves[b.get_id()], s.kmax)
        elif k == z3.Z3_OP_FPA_TO_IEEE_BV: r = s.fp(b.arg(0))
        elif k == z3.Z3_OP_BXOR and b.num_args() == 2 and z3.is_bv_value(b.arg(1)) and b.arg(1).as_long() == sign: x, bx = s.bits(b.arg(0)); r = (-x, bx)
        elif k == z3.Z3_OP_BXOR and b.num_args() == 2 and z3.is_bv_value(b.arg(0)) and b.arg(0).as_long() == sign: x, bx = s.bits(b.arg(1)); r = (-x, bx)
        elif z3.is_bv_value(b): r = s.lit(z3.simplify(z3.fpBVToFP(b, FSORT[s.W])))
        else: raise Structure('bit-level operation ' + b.decl().name())
        s.cache[key] = r; s.keep.append(b); return r

_STEP_DONE = {}
def step_lemma(S, op, bx, by, pfx):
    """|x| <= bx, |y| <= by (integers)  =>  |x op y| <= b;   div: y = +-1  =>  x / y = x * y (an integer of the same magnitude)"""
    key = (op, bx, by, pfx)
    if key in _STEP_DONE: return _STEP_DONE[key]
    x, y = z3.Int('x'), z3.Int('y')
    if op == 'div':
        hy = [z3.Or(y == 1, y == -1)]; goal = z3.ToReal(x) / z3.ToReal(y) == z3.ToReal(x * y); nm = 'x/y==x*y[y=+-1]'
    else:
        hy = [x >= -bx, x <= bx, y >= -by, y <= by]; b = bx * by if op == 'mul' else bx + by
        v = x * y if op == 'mul' else (x + y if op == 'add' else x - y); goal = z3.And(v <= b, v >= -b); nm = '|x%sy|<=%d[|x|<=%d,|y|<=%d]' % ({'mul': '*', 'add': '+', 'sub': '-'}[op], b, bx, by)
    r, _ = S.prove('%s.lemma.%s' % (pfx, nm), goal, hy, timeout=S.cap(20, 60), kind='lemma', functions=['interval step over the integers'], bounds='all integers in the stated ranges')
    _STEP_DONE[key] = (r == 'unsat'); return _STEP_DONE[key]

def _confirm_precision_loss(S, U, fn, t, name, fnlist, binfo, why):
    """The term walk found an operation other than correctly rounded + - * / of the element type in the compiled float term (e.g. a conversion through a narrower
    type).  That is a structural violation of 'differs only by the rounding of the individual operations'; it is reported as VIOLATION only if a native run confirms
    it: on well-conditioned inputs the native result must then differ from the exact value of the rounding-erased term (same code, exact rationals) by far more than
    the element type's rounding (2^-30 relative for double, 2^-12 for float)."""
    import random
    from fractions import Fraction
    W = 32 if t == 'f32' else 64; f = U.fns[fn]; tol = 2.0 ** -30 if W == 64 else 2.0 ** -12
    try: rr = sym_call(U, fn, mode='real')
    except Exception: return False
    rnd = random.Random(20261001); worst = None
    for trial in range(6):
        vals = []; sub = []
        for (c, n), terms in zip(f.ins, rr.ins):
            side = int(round(n ** 0.5)); row = []
            for k, tv in enumerate(terms):
                d = rnd.uniform(0.5, 1.5) + (4.0 if side * side == n and k % (side + 1) == 0 else 0.0)
                b = float_to_bits(d, W); d = bits_to_float(b, W); row.append(b)
                if z3.is_real(tv): sub.append((tv, z3.RealVal(str(Fraction(d)))))
            vals.append(row)
        nat = U.call_native(fn, vals)
        for oi, ((c, n), orow) in enumerate(zip(f.outs, rr.outs)):
            for k, o in enumerate(orow):
                if not isinstance(o, RV): continue
                ev = z3.simplify(z3.substitute(o.r, *sub))
                if not z3.is_rational_value(ev): continue
                ex_ = float(Fraction(ev.numerator_as_long(), ev.denominator_as_long())); got = bits_to_float(nat[oi][k], W)
                rel = abs(got - ex_) / max(abs(ex_), 1e-3)
                if worst is None or rel > worst[0]: worst = (rel, oi, k, vals, got, ex_)
    if worst is None or worst[0] <= tol: return False
    rel, oi, k, vals, got, ex_ = worst
    info = {'unit': U.name, 'fn': fn, 'obligation': name + '.structure', 'inputs': [[hex(v) for v in r] for r in vals], 'output': [oi, k], 'native': got, 'exact_value_of_rounding_erased_term': ex_, 'relative_error': rel, 'allowed': tol, 'structure': why}
    S.rec(name=name + '.structure', kind='structure', functions=fnlist, bounds=binfo, solver='term walk + native confirmation', result='sat', time_s=0.0, status='counterexample', mandatory=True, replay='reproduced', replay_info=info, note=why)
    S.violations.append((name + '.structure', info)); return True

def exact_check(S, U, fn, t, spec, detexpr, name, ins=None, unimod=True, only=None, entries=None, family=None):
    """spec(K, outs) as in the *.real jobs; detexpr(K) -> the Leibniz determinant every fdiv must divide by (None: the wrapper must not divide);
    entries {output array: [indices]} restricts the walk to those output entries (the others are dummies: select the goals over the walked entries with only)"""
    W = 32 if t == 'f32' else 64; LIM = 1 << (24 if t == 'f32' else 53); f = U.fns[fn]
    res = sym_call(U, fn, ins=ins, mode='fp')
    fnlist = ['w_%s -> %s' % (fn, f.body.strip().replace('\n', ' ')[:160])]
    K = []; leaves = {}
    for a, row in enumerate(res.ins):
        kr = []
        for k, x in enumerate(row):
            if z3.is_bv_value(x): kr.append(None)
            else:
                v = z3.Real('k%s%d' % ('abcdefgh'[a], k)); kr.append(v); leaves[x.get_id()] = v
        K.append(kr)
    walk = None; err = None
    for kmax in (8, 4, 2, 1):
        w = ExactWalk(W, leaves, kmax)
        try: outsM = [[RV(W, w.fp(o.fp)[0]) if (entries is None or k_ in entries.get(oi_, ())) else RV(W, z3.RealVal(0)) for k_, o in enumerate(row)] for oi_, row in enumerate(res.outs)]
        except Structure as e: err = e; break
        if w.maxb < LIM: walk = w; break
    binfo = 'entries integer-valued, |x| <= %d%s; bit-precise %s term of the compiled code; ll=%s' % (walk.kmax if walk else 8, ', det = +-1' if unimod else '', TYPES[t], U.ll_sha())
    if walk is None:
        why = ('%s appears in the float term' % err) if err else 'interval bound of an intermediate reaches 2^%d even for |x| <= 1' % (24 if t == 'f32' else 53)
        if err and _confirm_precision_loss(S, U, fn, t, name, fnlist, binfo, why): return
        S.rec(name=name + '.structure', kind='structure', result='unknown', status='inconclusive', note=why, mandatory=True, functions=fnlist, bounds=binfo)
        S.inconclusive.append('%s [exact clause not established: %s]' % (name, why)); return
    S.rec(name=name + '.structure', kind='structure', functions=fnlist, bounds=binfo, solver='term walk: RNE fadd/fsub/fmul/fdiv, negation, integer literals, inputs only (%d nodes)' % walk.nodes, result='unsat', time_s=0.0, status='discharged', mandatory=True)
    # concrete inputs (affine last row) enter as literals; K rows for the specification
    def kval(a, k):
        if K[a][k] is not None: return K[a][k]
        x = res.ins[a][k]; return walk.lit(z3.simplify(z3.fpBVToFP(x, FSORT[W])))[0]
    Kf = [[kval(a, k) for k in range(len(row))] for a, row in enumerate(res.ins)]
    kvars = [v for row in K for v in row if v is not None]
    rng = [h for v in kvars for h in (v >= -walk.kmax, v <= walk.kmax)]
    dets = detexpr(Kf) if detexpr else None
    # (2) divisors
    if walk.divs and dets is None:
        S.rec(name=name + '.divisor', kind='structure', result='unknown', status='inconclusive', note='unexpected fdiv', mandatory=True, functions=fnlist, bounds=binfo)
        S.inconclusive.append('%s [exact clause not established: the float term divides]' % name); return
    for n_, (k, y) in enumerate(sorted(walk.divs.items())):
        _DV.clear(); g = FEq(to_frac(y, _FC), dets)
        S.prove('%s.divisor==determinant[%d]' % (name, n_), g.term(), [d != 0 for d in _DV.values()], timeout=S.cap(60, 180), kind='spec', functions=fnlist, bounds=binfo + '; polynomial identity over the reals')
    # (3) representability
    ok = all([step_lemma(S, op, bx, by, name) for (op, bx, by) in sorted(walk.steps)])
    S.rec(name=name + '.intermediates-representable', kind='spec', functions=fnlist, bounds=binfo + '; %d arithmetic nodes, largest interval bound %d < 2^%d' % (walk.nodes, walk.maxb, 24 if t == 'f32' else 53),
          solver='interval induction over the term; %d one-step lemmas (*.exact.lemma.*) by z3' % len(walk.steps), result='unsat' if ok else 'unknown', time_s=0.0, status='discharged' if ok else 'inconclusive', mandatory=True)
    if not ok: S.inconclusive.append(name + '.intermediates-representable [an interval step lemma was not proved]')
    # (4) values
    _DV.clear(); goals = [(l, g) for l, g in spec(Kf, outsM) if only is None or only(l)]
    hy = [d != 0 for d in _DV.values()]           # the code's divisors: equal to the determinant by (2), which is +-1
    ki = {v.decl().name(): z3.Int(v.decl().name() + 'i') for v in kvars}
    sub = [(v, z3.ToReal(ki[v.decl().name()])) for v in kvars]
    def mkreplay(label, ev):
        def replay(m):
            vals = []
            for a, row in enumerate(res.ins):
                vals.append([float_to_bits(float(m.eval(ev(ki[K[a][k].decl().name()]), model_completion=True).as_long()), W) if K[a][k] is not None else x.as_long() for k, x in enumerate(row)])
            info = {'unit': U.name, 'fn': fn, 'inputs': [[hex(b) for b in row] for row in vals], 'pin_name': name, 'obligation': name + '.' + label}
            cin = [[z3.RealVal(str(bits_to_fraction(v, W))) for v in row] for row in vals]
            bad = False
            for cxx in ('g++', 'clang++-14'):
                nat = U.call_native(fn, vals, cxx=cxx); info['native_out_' + cxx] = [[hex(v) for v in r] for r in nat]
                for r_ in nat:
                    for v in r_:
                        d = bits_to_float(v, W)
                        if d != d or d in (float('inf'), float('-inf')): bad = True
                if not bad:
                    g = dict(spec(cin, concretize(f.outs, nat, mode='real')))[label]
                    if z3val_to_fraction(g.l) != z3val_to_fraction(g.r): bad = True
            return ('reproduced' if bad else 'not-reproduced'), info
        return replay
    ih = [h for v in kvars for h in (ki[v.decl().name()] >= -walk.kmax, ki[v.decl().name()] <= walk.kmax)]
    # a sub-family of the integer matrices with det = +-1 that needs no determinant constraint: M = s * L * U (unit lower times unit upper triangular, parameters in [-2, 2])
    fam = family(lambda a, k: ki[K[a][k].decl().name()] if K[a][k] is not None else None) if (family and unimod) else None
    n_unknown = 0
    for label, g in goals:
        oname = '%s.%s' % (name, label); gt = goal_term(g)
        r, m_, dt, used = S.query(hy + [z3.Not(gt)], S.cap(60, 180), 'z3')
        if r == 'unsat':
            S.rec(name=oname, kind='spec', functions=fnlist, bounds=binfo, solver=used + ' (rounding-erased mirror of the fp term, cross-multiplied)', result='unsat', time_s=round(dt, 3), status='discharged', mandatory=True); continue
        gi = z3.substitute(gt, *sub); hi = [z3.substitute(h, *sub) for h in hy]
        if fam is not None and n_unknown < 2:
            fsub, fhyps = fam
            q = [z3.substitute(x, *fsub) for x in ih + hi] + fhyps + [z3.Not(z3.substitute(gi, *fsub))]
            r2, m2, dt2, used2 = S.query(q, S.cap(20, 60), 'z3')
            if r2 == 'sat':
                rec = S.rec(name=oname, kind='spec', functions=fnlist, bounds=binfo + '; counterexample searched in the family M = s*L*U', solver=used2, result='sat', time_s=round(dt + dt2, 3), mandatory=True, status='counterexample')
                verdict, info = mkreplay(label, lambda v: z3.substitute(v, *fsub))(m2); rec['replay'] = verdict; rec['replay_info'] = info
                if verdict == 'reproduced': S.violations.append((oname, info))
                else:
                    rec['status'] = 'inconclusive(cex not reproduced)'; S.inconclusive.append(oname + ' [counterexample not reproduced natively]')
                continue
        if n_unknown >= 2:
            S.rec(name=oname, kind='spec', functions=fnlist, bounds=binfo, solver=used, result='unknown', time_s=round(dt, 3), mandatory=True, status='inconclusive', note='real identity fails; integer search skipped after two timeouts in this wrapper')
            S.inconclusive.append(oname); continue
        if unimod and dets is not None:
            di = z3.substitute(dets, *sub); ihd = ih + [z3.Or(di == 1, di == -1)]
        else: ihd = ih
        r3, _ = S.prove(oname, gi, ihd + hi, timeout=S.cap(30, 120), kind='spec', functions=fnlist, bounds=binfo + '; integer search after the real identity failed', replay=mkreplay(label, lambda v: v), vars_=list(ki.values()))
        if r3 == 'unknown': n_unknown += 1

def lu_family(L, entry, pfx='p'):
    """entry(c, r) -> Int variable of the matrix entry or None (constant);  returns (substitution, hypotheses) for M = s * Lo * Up"""
    P = lambda i, j: z3.Int('%s%d%d' % (pfx, i, j)); s = z3.Int(pfx + 's')
    Lo = [[(z3.IntVal(1) if r == c else (P(r, c) if r > c else z3.IntVal(0))) for r in range(L)] for c in range(L)]      # [c][r]
    Up = [[(z3.IntVal(1) if r == c else (P(r, c) if r < c else z3.IntVal(0))) for r in range(L)] for c in range(L)]
    M = [[z3.simplify(ssum([Lo[k][r] * Up[c][k] for k in range(L)])) for r in range(L)] for c in range(L)]
    sub = []; hy = [z3.Or(s == 1, s == -1)] + [h for i in range(L) for j in range(L) if i != j for h in (P(i, j) >= -2, P(i, j) <= 2)]
    for c in range(L):
        for r in range(L):
            v = entry(c, r)
            if v is not None: sub.append((v, M[c][r] * s if c == 0 else M[c][r]))
    return sub, hy

def affine_bits(L, W):
    """fp-mode inputs: column-major LxL matrix whose last row is the float constants (0,..,0,1)"""
    one_ = float_to_bits(1.0, W)
    return [[z3.BitVec('a%d' % (c * L + r), W) if r < L - 1 else z3.BitVecVal(one_ if c == L - 1 else 0, W) for c in range(L) for r in range(L)]]

def job_exact(t, L, what):
    U = UNITS[t]; W = 32 if t == 'f32' else 64
    def run(S):
        pfx = 'c10_%s.%s%d.exact' % (t, what, L)
        det0 = lambda K: leibniz(unflat(K[0], L, L)); det1 = lambda K: leibniz(unflat(K[1], L, L))
        if what == 'inverse':
            def spec(i, o):
                A = unflat(fr(i[0]), L, L); IA = unflat(rv(o[0]), L, L); AI = unflat(rv(o[1]), L, L); I = unflat(rv(o[2]), L, L)
                g = [('inverse(M)*M==I[%d][%d]' % (c, r), FEq(IA[c][r], delta(c, r))) for c in range(L) for r in range(L)]
                g += [('M*inverse(M)==I[%d][%d]' % (c, r), FEq(AI[c][r], delta(c, r))) for c in range(L) for r in range(L)]
                return g + ident_goals('inverse(M)·M=I(inverse exact)', I, A, L)
            exact_check(S, U, 'unimod_%d' % L, t, spec, det0, pfx, family=lambda ki: lu_family(L, lambda c, r: ki(0, c * L + r)))
        elif what == 'determinant':
            exact_check(S, U, 'det_%d' % L, t, det_spec(L), None, pfx, unimod=False, entries={0: [0, 1]}, only=lambda l: 'A*B' not in l)
            exact_check(S, U, 'det_%d' % L, t, det_spec(L), None, pfx + '.product', unimod=False, entries={0: [2]}, only=lambda l: 'A*B' in l)
        elif what == 'inverseTranspose':
            exact_check(S, U, 'invT_%d' % L, t, invT_specs(L)[1], det0, pfx, family=lambda ki: lu_family(L, lambda c, r: ki(0, c * L + r)))
        elif what == 'affineInverse':
            exact_check(S, U, 'aff_%d' % L, t, affine_spec(L), det0, pfx, ins=affine_bits(L, W), family=lambda ki: lu_family(L - 1, lambda c, r: ki(0, c * L + r)))
        elif what == 'divide':
            exact_check(S, U, 'div_%d' % L, t, div_spec(L), det1, pfx, family=lambda ki: lu_family(L, lambda c, r: ki(1, c * L + r)))
        elif what == 'adjugate':
            exact_check(S, U, 'adj_%d' % L, t, adj_spec(L), None, pfx, unimod=False)
    return run

def job_bitprecise(t, L, oi, idxs, mandatory=False):
    """the exact clause put to the solver directly on the bit-precise IEEE term (no structural argument): entries = signed 5-bit integers in [-8, 8] converted to
    float, det = +-1 computed over bit-vectors; (inverse(M)*M)[c][r] (oi = 0) / (M*inverse(M))[c][r] (oi = 1) is fp.eq to delta.  Expensive (fp.div is bit-blasted)."""
    U = UNITS[t]; W = 32 if t == 'f32' else 64
    def run(S):
        fn = 'unimod_%d' % L; res = sym_call(U, fn, mode='fp'); f = U.fns[fn]
        ks = [z3.BitVec('k%d' % i, 5) for i in range(L * L)]
        sub = [(a, z3.fpToIEEEBV(z3.fpSignedToFP(RNE, k, FSORT[W]))) for a, k in zip(res.ins[0], ks)]
        det = leibniz(unflat([z3.SignExt(16, k) for k in ks], L, L))
        hy = [z3.And(k >= -8, k <= 8) for k in ks] + [z3.Or(det == 1, det == -1)] + res.axioms
        fnlist = ['w_%s -> %s' % (fn, f.body.strip().replace('\n', ' ')[:160])]
        for idx in idxs:
            c, r = idx // L, idx % L
            def replay(m, idx=idx, c=c, r=r):
                kv = [m.eval(k, model_completion=True).as_signed_long() for k in ks]; vals = [[float_to_bits(float(v), W) for v in kv]]
                info = {'unit': U.name, 'fn': fn, 'inputs': [[hex(b) for b in row] for row in vals], 'expected': 1.0 if c == r else 0.0}
                bad = False
                for cxx in ('g++', 'clang++-14'):
                    got = bits_to_float(U.call_native(fn, vals, cxx=cxx)[oi][idx], W); info['native_' + cxx] = got
                    if got != (1.0 if c == r else 0.0): bad = True
                return ('reproduced' if bad else 'not-reproduced'), info
            goal = z3.fpEQ(z3.substitute(res.outs[oi][idx].fp, *sub), z3.FPVal(1.0 if c == r else 0.0, FSORT[W]))
            S.prove('c10_%s.inverse%d.exact.bit-precise.%s[%d][%d]' % (t, L, 'inverse(M)*M==I' if oi == 0 else 'M*inverse(M)==I', c, r), goal, hy, timeout=S.cap(150, 600), kind='spec', functions=fnlist,
                    bounds='all integer matrices with entries in [-8, 8] and det = +-1; bit-precise %s; ll=%s' % (TYPES[t], U.ll_sha()), mandatory=mandatory, replay=replay, vars_=ks)
    return run

def job_query(t, L):
    U = UNITS[t]; W = 32 if t == 'f32' else 64
    def run(S):
        def spec(i, o):
            A = unflat(i[0], L, L); e = fpof(i[1][0]); onef = FPV(1.0, W)
            conds = []
            for c in range(L):
                for r in range(L):
                    x = fpof(A[c][r])
                    conds.append(z3.fpLEQ(z3.fpAbs(z3.fpSub(RNE, x, onef)) if c == r else z3.fpAbs(x), e))
            return [('isIdentity', (o[0][0] == 1) == z3.And(*conds))]
        S.check_fn(U, 'query_%d' % L, spec, lambda i: [z3.Not(is_nan(x)) for x in i[0] + i[1]], mode='fp', name='c10_%s.isIdentity%d' % (t, L), timeout=S.cap(90, 240),
                   bounds='all non-NaN entries and epsilon; |m[i][j] - delta_ij| <= epsilon evaluated in IEEE arithmetic', unwind=8, side=False)
        def spec_null(i, o):
            # 'null matrix' in the sense of the vector overload it is built from: every column has Euclidean length <= epsilon
            A = unflat(i[0], L, L); e = i[1][0]
            cs = [z3.And(e >= 0, ssum([x * x for x in A[c]]) <= e * e) for c in range(L)]
            return [('isNull=>column%d' % c, z3.Implies(o[0][0] == 1, cs[c])) for c in range(L)] + [('columns=>isNull', z3.Implies(z3.And(*cs), o[0][0] == 1))]
        S.check_fn(U, 'null_%d' % L, spec_null, None, mode='real', name='c10_%s.isNull%d.real' % (t, L), timeout=S.cap(60, 180), bounds='all real entries and epsilon; sqrt as algebraic y>=0, y*y=x', unwind=8, solver='nra')
    return run

QR_QUICK = {('qr', 2, 2), ('qr', 3, 2), ('qr', 2, 3), ('rq', 2, 2), ('rq', 2, 3), ('rq', 3, 2)}
EXACT = ['inverse', 'determinant', 'inverseTranspose', 'affineInverse', 'divide', 'adjugate']
def jobs(tier):
    q = tier == 'quick'; J = []
    for t in ('f32', 'f64'):
        for L in (2, 3, 4):
            J += [('inverse_%s_%d' % (t, L), job_inverse(t, L)), ('det_%s_%d' % (t, L), job_det(t, L)), ('invT_%s_%d' % (t, L), job_invT(t, L)),
                  ('div_%s_%d' % (t, L), job_div(t, L)), ('adj_%s_%d' % (t, L), job_adj(t, L)), ('diag_%s_%d' % (t, L), job_diag(t, L)), ('query_%s_%d' % (t, L), job_query(t, L))]
            if L > 2: J.append(('affine_%s_%d' % (t, L), job_affine(t, L)))
            for what in EXACT:
                if what == 'affineInverse' and L == 2: continue
                J.append(('exact_%s_%s_%d' % (what, t, L), job_exact(t, L, what)))
        if t == 'f32' or not q:       # optional cross-check of the exact clause without the structural argument
            for oi in (0, 1):
                for idx in range(4): J.append(('bitprecise_%s_2_%s_%d' % (t, 'IM' if oi == 0 else 'MI', idx), job_bitprecise(t, 2, oi, [idx])))
        for (C, R) in QR_SHAPES:
            for which in ('qr', 'rq'):
                if (which, C, R) in QR_QUICK: J.append(('%s_%s_%d%d' % (which, t, C, R), job_qr(t, C, R, which, True)))
                elif q and t == 'f32' and (C, R) == (3, 3): J.append(('%s_%s_%d%d' % (which, t, C, R), job_qr(t, C, R, which, False)))       # optional: first two columns finish
                elif not q and t == 'f32':
                    n = 3 if C == 3 else 6
                    for k in range(n): J.append(('%s_%s_%d%d_part%d' % (which, t, C, R, k), job_qr(t, C, R, which, False, (k, n))))
    J.sort(key=lambda j: 0 if j[0].startswith('bitprecise') else 1)      # the long optional jobs start first
    return J
JOB_CAP = {'quick': 600, 'thorough': 2400}
