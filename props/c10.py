"""C10 - inverse, determinant and their gtc/gtx variants satisfy the defining identities
(detail/func_matrix.inl, gtc/matrix_inverse.inl, operator/ of type_mat{2x2,3x3,4x4}.inl, gtx/matrix_operation.inl, gtx/matrix_query.inl, gtx/matrix_factorisation.inl)."""
from props.common import *
from props.c02 import unflat, flat, mmul, mulv, vmul, ssum, one, zero, int_mirror, Structure
import itertools, functools
LEVEL = 'proof'
CLAIM = ("inverse (2x2, 3x3, 4x4), determinant, inverseTranspose, affineInverse (mat3/mat4), operator/ (mat/mat, mat/vec, vec/mat, /=), gtx adjugate, diagonal builders and "
         "qr_decompose/rq_decompose are executed symbolically from their clang IR over fully symbolic float/double matrices in rounding-erased (real) semantics; the solver shows "
         "inverse(M)*M = M*inverse(M) = I for every M with det(M) != 0, determinant = Leibniz expansion (hence transpose-invariant) and multiplicative, inverseTranspose = transpose(inverse), "
         "affineInverse = inverse on affine matrices, X = A/B solves X*B = A (and m/v, v/m solve the linear systems), adjugate(M)*M = det(M)*I, and Q*R = M, Q^T Q = I, R upper triangular. "
         "For integer matrices with |entries| <= 8 and det = +-1 the bit-precise IEEE term of inverse(M)*M, M*inverse(M) is shown to equal I exactly; gtx isIdentity/isNull are checked bit-precisely.")
BOUNDS = ('rounding-erased semantics: every matrix entry an unconstrained real, hypothesis det(M) != 0 (Leibniz expansion) where an inverse is taken; affine: last row (0,..,0,1); '
          'qr/rq: 2x2 and 3x2/2x3 shapes with linearly independent columns (3x3 attempted, optional); exact clause: integer entries |m| <= 8 with det = +-1, float and double, sizes 2,3,4; '
          'isIdentity/isNull: all non-NaN floats (bit-precise)')
OUTSIDE = ('the condition-number-proportional rounding bound for general well-conditioned matrices (a numerical-analysis claim; only the rounding-erased identities and the exact unimodular clause are decided); '
           'qr/rq for 3x3 and larger if the nonlinear solver does not finish (optional obligations); isNormalized/isOrthogonal; SIMD (aligned) inverse variants (C03)')
ASSUMPTIONS = ['rounding-erased (exact real) semantics for obligations named *.real; sqrt(x) is the unique y >= 0 with y*y = x',
               'exact clause: IEEE-754 correct rounding returns an exactly representable result exactly (instances proved in C02 ieee_lemma_*; 1/d for d = +-1 is exact by the same rule)']
TYPES = {'f32': 'float', 'f64': 'double'}
INCLUDES = ['glm/glm.hpp', 'glm/gtc/matrix_inverse.hpp', 'glm/gtx/matrix_operation.hpp', 'glm/gtx/matrix_query.hpp', 'glm/gtx/matrix_factorisation.hpp']
def Mx(C, R, p): return 'ldm<%d,%d,T>(%s)' % (C, R, p)
def Vx(L, p): return 'ldv<%d,T>(%s)' % (L, p)
QR_SHAPES = [(2, 2), (3, 3), (2, 3), (3, 2), (4, 4)]

def build_unit(t):
    ct = TYPES[t]
    U = Unit('c10_' + t, includes=INCLUDES, prelude='typedef %s T;\n' % ct)
    for L in (2, 3, 4):
        N = L * L
        U.add('inv_%d' % L, [(ct, N)], [(ct, N)], 'stm(o, glm::inverse(%s));' % Mx(L, L, 'a'))
        U.add('det_%d' % L, [(ct, N), (ct, N)], [(ct, 3)], 'auto A = %s; auto B = %s; o[0] = glm::determinant(A); o[1] = glm::determinant(glm::transpose(A)); o[2] = glm::determinant(A * B);' % (Mx(L, L, 'a'), Mx(L, L, 'b')))
        U.add('invT_%d' % L, [(ct, N)], [(ct, N), (ct, N)], 'auto A = %s; stm(o, glm::inverseTranspose(A)); stm(o2, glm::inverse(A));' % Mx(L, L, 'a'))
        if L > 2:
            U.add('aff_%d' % L, [(ct, N)], [(ct, N), (ct, N)], 'auto A = %s; stm(o, glm::affineInverse(A)); stm(o2, glm::inverse(A));' % Mx(L, L, 'a'))
        U.add('div_%d' % L, [(ct, N), (ct, N), (ct, L)], [(ct, N), (ct, L), (ct, L), (ct, N)],
              'auto A = %s; auto B = %s; auto v = %s; stm(o, A / B); stv(o2, B / v); stv(o3, v / B); { auto m = A; m /= B; stm(o4, m); }' % (Mx(L, L, 'a'), Mx(L, L, 'b'), Vx(L, 'c')))
        U.add('adj_%d' % L, [(ct, N)], [(ct, N)], 'stm(o, glm::adjugate(%s));' % Mx(L, L, 'a'))
        U.add('diag_%d' % L, [(ct, L)], [(ct, N), (ct, 1)], 'auto D = glm::diagonal%dx%d(%s); stm(o, glm::inverse(D)); o2[0] = glm::determinant(D);' % (L, L, Vx(L, 'a')))
        U.add('unimod_%d' % L, [(ct, N)], [(ct, N), (ct, N), (ct, N)], 'auto A = %s; auto I = glm::inverse(A); stm(o, I * A); stm(o2, A * I); stm(o3, I);' % Mx(L, L, 'a'))
        U.add('query_%d' % L, [(ct, N), (ct, 1)], [('bool', 2)], 'auto A = %s; o[0] = glm::isIdentity(A, b[0]); o[1] = glm::isNull(A, b[0]);' % Mx(L, L, 'a'))
    for (C, R) in QR_SHAPES:
        m = min(C, R)
        U.add('qr_%d%d' % (C, R), [(ct, C * R)], [(ct, m * R), (ct, C * m)],
              'glm::mat<%d,%d,T> q(T(0)); glm::mat<%d,%d,T> r(T(0)); glm::qr_decompose(%s, q, r); stm(o, q); stm(o2, r);' % (m, R, C, m, Mx(C, R, 'a')))
        U.add('rq_%d%d' % (C, R), [(ct, C * R)], [(ct, m * R), (ct, C * m)],
              'glm::mat<%d,%d,T> r(T(0)); glm::mat<%d,%d,T> q(T(0)); glm::rq_decompose(%s, r, q); stm(o, r); stm(o2, q);' % (m, R, C, m, Mx(C, R, 'a')))
    return U
UNITS = {t: build_unit(t) for t in TYPES}
def units(tier): return list(UNITS.values())

# ------------------------------------------------------------------ reference mathematics (independent of glm)
def perm_sign(p):
    s = 1
    for i in range(len(p)):
        for j in range(i + 1, len(p)):
            if p[i] > p[j]: s = -s
    return s
def leibniz(A):
    """det = sum over permutations sgn(p) * prod_i A[i][p(i)]   (A[c][r]; the determinant is transpose-invariant)"""
    L = len(A); tot = None
    for p in itertools.permutations(range(L)):
        term = A[0][p[0]]
        for i in range(1, L): term = term * A[i][p[i]]
        term = term if perm_sign(p) > 0 else -term
        tot = term if tot is None else tot + term
    return tot
_FC = {}            # term id -> Frac (per process; one job per process)
_DV = {}            # divisor terms met by FEq since the last reset: id -> term
def rv(xs):
    """outputs of the code (RV) -> fractions N/D over the code's own divisors"""
    return [Frac.of(x) for x in xs]
def fr(xs):
    """inputs (z3 reals) -> fractions with empty denominator (all specification arithmetic is done on Frac objects: z3's ArithRef.__mul__(Frac) raises
    instead of returning NotImplemented, so mixed products only work with the Frac on the left)"""
    return [Frac.of(x) for x in xs]
def delta(c, r, like=None): return Frac(z3.RealVal(1 if c == r else 0))
def transpose(A): return [[A[c][r] for c in range(len(A))] for r in range(len(A[0]))]


# ------------------------------------------------------------------ division-free goals
# nlsat is fast on polynomial identities but does not finish when every entry of the code's output carries its own quotient (inverseTranspose: cof / det).
# The code's divisors are proved non-zero under the precondition (the executor's 'domain' obligations, name *.domain).  Every output term is then read as a
# fraction N / D (D a product of the code's own divisors) by the field rules a/b + c/d = (ad + cb)/(bd), (a/b)(c/d) = ac/(bd), (a/b)/(c/d) = ad/(bc), and an
# equality goal N1/D1 == N2/D2 is handed to the solver cross-multiplied, N1*D2 == N2*D1 (equivalent because D1, D2 != 0).
class Frac:
    """numerator term, denominator as {divisor id: (divisor term, power)}"""
    def __init__(s, n, d=None): s.n = n; s.d = d or {}
    @staticmethod
    def of(x):
        if isinstance(x, Frac): return x
        if isinstance(x, RV): return to_frac(x.r, _FC)
        return Frac(z3.RealVal(x) if isinstance(x, int) else x)
    def den(s):
        t = None
        for k in sorted(s.d):
            term, p = s.d[k]
            for _ in range(p): t = term if t is None else t * term
        return t
    @staticmethod
    def _scale(n, have, want):
        """n * prod(want / have)"""
        for k in sorted(want):
            term, p = want[k]; q = have.get(k, (term, 0))[1]
            for _ in range(p - q): n = n * term
        return n
    @staticmethod
    def _lcm(a, b):
        r = dict(a)
        for k, (term, p) in b.items(): r[k] = (term, max(p, r.get(k, (term, 0))[1]))
        return r
    def __add__(s, o):
        o = Frac.of(o); l = Frac._lcm(s.d, o.d); return Frac(Frac._scale(s.n, s.d, l) + Frac._scale(o.n, o.d, l), l)
    __radd__ = lambda s, o: Frac.of(o) + s
    def __sub__(s, o):
        o = Frac.of(o); l = Frac._lcm(s.d, o.d); return Frac(Frac._scale(s.n, s.d, l) - Frac._scale(o.n, o.d, l), l)
    __rsub__ = lambda s, o: Frac.of(o) - s
    def __neg__(s): return Frac(-s.n, s.d)
    def __mul__(s, o):
        o = Frac.of(o); d = dict(s.d)
        for k, (term, p) in o.d.items(): d[k] = (term, p + d.get(k, (term, 0))[1])
        return Frac(s.n * o.n, d)
    __rmul__ = lambda s, o: Frac.of(o) * s
    def __truediv__(s, o):
        o = Frac.of(o)
        # (n1/d1) / (n2/d2) = n1*d2 / (d1*n2): the numerator of the divisor becomes a base divisor
        r = s * Frac(o.den() if o.d else z3.RealVal(1), {})
        key = o.n.get_id(); d = dict(r.d); d[key] = (o.n, 1 + d.get(key, (o.n, 0))[1])
        return Frac(r.n, d)
def to_frac(t, cache):
    k = t.get_id()
    if k in cache: return cache[k][1]
    kd = t.decl().kind(); ch = t.children()
    if z3.is_rational_value(t) or not ch: r = Frac(t)
    elif kd == z3.Z3_OP_ADD: r = functools.reduce(lambda p, q: p + q, [to_frac(c, cache) for c in ch])
    elif kd == z3.Z3_OP_MUL: r = functools.reduce(lambda p, q: p * q, [to_frac(c, cache) for c in ch])
    elif kd == z3.Z3_OP_SUB: r = functools.reduce(lambda p, q: p - q, [to_frac(c, cache) for c in ch])
    elif kd == z3.Z3_OP_UMINUS: r = -to_frac(ch[0], cache)
    elif kd == z3.Z3_OP_DIV:
        d = to_frac(ch[1], cache)
        r = to_frac(ch[0], cache) * Frac(z3.RealVal(1) / d.n, {}) if (z3.is_rational_value(d.n) and not d.d) else to_frac(ch[0], cache) / d
    elif kd == z3.Z3_OP_ITE and z3.is_real(t):
        # ite(c, n1/d1, n2/d2) = ite(c, n1*(l/d1), n2*(l/d2)) / l with l = lcm(d1, d2); like the cross-multiplication in FEq this needs every divisor to be non-zero
        # on ALL inputs satisfying the precondition (not only on the branch that divides): that is what the 'divisor!=0' obligations added by with_divisors demand.
        # The condition keeps its original form.
        a, b = to_frac(ch[1], cache), to_frac(ch[2], cache); l = Frac._lcm(a.d, b.d)
        r = Frac(z3.If(ch[0], Frac._scale(a.n, a.d, l), Frac._scale(b.n, b.d, l)), l)
    else: r = Frac(t)          # opaque (sqrt variable, uninterpreted function, ...)
    cache[k] = (t, r); return r          # t is kept alive: z3 reuses the ids of freed terms
def FEq(l, r):
    l, r = Frac.of(l), Frac.of(r); m = Frac._lcm(l.d, r.d)
    for k, (term, p) in m.items(): _DV[k] = term
    return RGoal('eq', Frac._scale(l.n, l.d, m), Frac._scale(r.n, r.d, m))
def with_divisors(spec):
    """spec -> spec + one obligation per divisor of the code met while cross-multiplying: it is non-zero for every input satisfying the precondition"""
    def sp(i, o):
        _DV.clear(); g = list(spec(i, o))
        return g + [('divisor!=0[%d]' % k, d != 0) for k, d in enumerate(_DV[j] for j in sorted(_DV))]
    return sp
def check_real(S, U, fn, spec, pre, name, bounds, mutant=None, known=(), timeout=None, ins=None, mandatory=True, unwind=16, solver='z3'):
    """(1) the executor's side obligations (code's divisors != 0, sqrt arguments >= 0, loop bounds) under pre;  (2) the goals, cross-multiplied"""
    S.check_fn(U, fn, None, pre, mode='real', name=name + '.domain', timeout=timeout, bounds=bounds, ins=ins, mandatory=mandatory, unwind=unwind, solver=solver)
    S.check_fn(U, fn, with_divisors(spec), pre, mode='real', name=name, timeout=timeout, bounds=bounds, ins=ins, mandatory=mandatory, unwind=unwind, side=False, witness=False, mutant=mutant, known=known, solver=solver)

def ident_goals(tag, X, Y, L):
    """(X*Y)[c][r] == delta for column-major X, Y (lists of columns)"""
    P = mmul(X, Y)
    return [('%s[%d][%d]' % (tag, c, r), FEq(P[c][r], delta(c, r, P[c][r]))) for c in range(L) for r in range(L)]

def job_inverse(t, L):
    U = UNITS[t]
    def run(S):
        def spec(i, o):
            A = unflat(fr(i[0]), L, L); I = unflat(rv(o[0]), L, L)
            return ident_goals('inverse(M)*M', I, A, L) + ident_goals('M*inverse(M)', A, I, L)
        def mut(i, o):
            A = unflat(fr(i[0]), L, L); I = unflat(rv(o[0]), L, L); P = mmul(transpose(I), A)
            return [('transposed-inverse', FEq(P[1][0], zero(P[1][0])))]
        check_real(S, U, 'inv_%d' % L, spec, lambda i: [leibniz(unflat(i[0], L, L)) != 0], 'c10_%s.inverse%d.real' % (t, L), 'all real %dx%d matrices with det != 0' % (L, L), mutant=mut, timeout=S.cap(60, 180))
    return run

def job_det(t, L):
    U = UNITS[t]
    def run(S):
        def spec(i, o):
            A = unflat(fr(i[0]), L, L); B = unflat(fr(i[1]), L, L); d = rv(o[0])
            return [('determinant==Leibniz', FEq(d[0], leibniz(A))), ('determinant(transpose)', FEq(d[1], leibniz(A))), ('determinant(A*B)==det(A)*det(B)', FEq(d[2], leibniz(A) * leibniz(B)))]
        def mut(i, o):
            A = unflat(fr(i[0]), L, L); A2 = [list(c) for c in A]; A2[0][0], A2[0][1] = A2[0][1], A2[0][0]
            return [('swapped-entry', FEq(rv(o[0])[0], leibniz(A2)))]
        S.check_fn(U, 'det_%d' % L, spec, mode='real', name='c10_%s.determinant%d.real' % (t, L), mutant=mut, timeout=S.cap(90, 240), bounds='all real %dx%d matrices' % (L, L))
    return run

def job_invT(t, L):
    U = UNITS[t]
    def run(S):
        pre = lambda i: [leibniz(unflat(i[0], L, L)) != 0]
        def spec_eq(i, o):
            IT = unflat(rv(o[0]), L, L); I = unflat(rv(o[1]), L, L)
            return [('inverseTranspose==transpose(inverse)[%d][%d]' % (c, r), FEq(IT[c][r], I[r][c])) for c in range(L) for r in range(L)]
        def spec_id(i, o):
            # independent of glm::inverse: X = transpose(inverseTranspose(M)) is a two-sided inverse of M
            A = unflat(fr(i[0]), L, L); IT = unflat(rv(o[0]), L, L)
            return ident_goals('transpose(inverseTranspose(M))*M', transpose(IT), A, L) + ident_goals('M*transpose(inverseTranspose(M))', A, transpose(IT), L)
        def mut(i, o):
            IT = unflat(rv(o[0]), L, L); I = unflat(rv(o[1]), L, L)
            return [('not-transposed', FEq(IT[1][0], I[1][0]))]
        kn = []
        check_real(S, U, 'invT_%d' % L, spec_id, pre, 'c10_%s.inverseTranspose%d.real' % (t, L), 'all real %dx%d matrices with det != 0' % (L, L), known=kn, mutant=mut, timeout=S.cap(60, 180))
        # the literal statement (two rational functions produced by the code compared entry by entry); for 4x4 the nonlinear solver does not finish -> optional there
        S.check_fn(U, 'invT_%d' % L, spec_eq, pre, mode='real', name='c10_%s.inverseTranspose%d.vs-inverse.real' % (t, L), known=kn, witness=False, side=False,
                   timeout=S.cap(60, 180), bounds='all real %dx%d matrices with det != 0' % (L, L))
    return run

def affine_ins(L):
    """column-major LxL matrix whose last row is (0,..,0,1)"""
    ins = []
    for c in range(L):
        for r in range(L):
            ins.append(z3.Real('a%d' % (c * L + r)) if r < L - 1 else z3.RealVal(1 if c == L - 1 else 0))
    return [ins]
def job_affine(t, L):
    U = UNITS[t]
    def run(S):
        def spec(i, o):
            A = unflat(fr(i[0]), L, L); AI = unflat(rv(o[0]), L, L); I = unflat(rv(o[1]), L, L)
            g = [('affineInverse==inverse[%d][%d]' % (c, r), FEq(AI[c][r], I[c][r])) for c in range(L) for r in range(L)]
            return g + ident_goals('affineInverse(M)*M', AI, A, L)
        def mut(i, o):
            AI = unflat(rv(o[0]), L, L); I = unflat(rv(o[1]), L, L)
            return [('translation-sign', FEq(AI[L - 1][0], -I[L - 1][0]))]
        check_real(S, U, 'aff_%d' % L, spec, lambda i: [leibniz(unflat(i[0], L, L)) != 0], 'c10_%s.affineInverse%d.real' % (t, L), 'all real affine %dx%d matrices (last row 0..0 1) with det != 0' % (L, L),
                   ins=affine_ins(L), mutant=mut, timeout=S.cap(60, 180))
    return run

def job_div(t, L):
    U = UNITS[t]
    def run(S):
        def spec(i, o):
            A = unflat(fr(i[0]), L, L); B = unflat(fr(i[1]), L, L); v = fr(i[2])
            X = unflat(rv(o[0]), L, L); x = rv(o[1]); y = rv(o[2]); X2 = unflat(rv(o[3]), L, L)
            XB = mmul(X, B); X2B = mmul(X2, B); Bx = mulv(B, x); yB = vmul(y, B)
            g = [('(A/B)*B==A[%d][%d]' % (c, r), FEq(XB[c][r], A[c][r])) for c in range(L) for r in range(L)]
            g += [('B*(B/v)==v[%d]' % r, FEq(Bx[r], v[r])) for r in range(L)]
            g += [('(v/B)*B==v[%d]' % k, FEq(yB[k], v[k])) for k in range(L)]
            g += [('(A/=B)*B==A[%d][%d]' % (c, r), FEq(X2B[c][r], A[c][r])) for c in range(L) for r in range(L)]
            return g
        def mut(i, o):
            A = unflat(fr(i[0]), L, L); B = unflat(fr(i[1]), L, L); X = unflat(rv(o[0]), L, L); BX = mmul(B, X)
            return [('left-division', FEq(BX[1][0], A[1][0]))]
        check_real(S, U, 'div_%d' % L, spec, lambda i: [leibniz(unflat(i[1], L, L)) != 0], 'c10_%s.divide%d.real' % (t, L), 'all real A, v; all real B with det(B) != 0', mutant=mut, timeout=S.cap(90, 240))
    return run

def job_adj(t, L):
    U = UNITS[t]
    def run(S):
        def spec(i, o):
            A = unflat(fr(i[0]), L, L); J = unflat(rv(o[0]), L, L); P = mmul(J, A); Q = mmul(A, J); d = leibniz(A)
            return [('adjugate(M)*M==det*I[%d][%d]' % (c, r), FEq(P[c][r], d if c == r else zero(d))) for c in range(L) for r in range(L)] + \
                   [('M*adjugate(M)==det*I[%d][%d]' % (c, r), FEq(Q[c][r], d if c == r else zero(d))) for c in range(L) for r in range(L)]
        kn = {3: ['KF-C10-adjugate3-%d%d' % (c, r) for c in range(3) for r in range(3)], 4: ['KF-C10-adjugate4-%d%d' % (c, r) for c in range(4) for r in range(4)]}.get(L, [])
        S.check_fn(U, 'adj_%d' % L, spec, mode='real', name='c10_%s.adjugate%d.real' % (t, L), known=kn, timeout=S.cap(60, 180), bounds='all real %dx%d matrices' % (L, L))
    return run

def job_diag(t, L):
    U = UNITS[t]
    def run(S):
        def spec(i, o):
            v = fr(i[0]); I = unflat(rv(o[0]), L, L); d = rv(o[1])[0]; p = v[0]
            for k in range(1, L): p = p * v[k]
            g = [('inverse(diagonal(v))[%d][%d]' % (c, r), FEq(I[c][r] * v[c], one(v[0])) if c == r else FEq(I[c][r], zero(v[0]))) for c in range(L) for r in range(L)]
            return g + [('determinant(diagonal(v))', FEq(d, p))]
        check_real(S, U, 'diag_%d' % L, spec, lambda i: [x != 0 for x in i[0]], 'c10_%s.diagonal%d.real' % (t, L), 'all real v with nonzero components', timeout=S.cap(60, 180))
    return run

def job_qr(t, C, R, which, mandatory):
    U = UNITS[t]; m = min(C, R)
    def indep(i):
        """the first min(C,R) columns (qr) / last rows (rq) are linearly independent: Gram determinant != 0"""
        A = unflat(i[0], C, R)
        if which == 'qr': vs = [A[c] for c in range(m)]
        else: vs = [[A[c][R - 1 - k] for c in range(C)] for k in range(m)]
        G = [[ssum([x * y for x, y in zip(u, w)]) for w in vs] for u in vs]
        return [leibniz(G) != 0]
    def run(S):
        def spec(i, o):
            A = unflat(fr(i[0]), C, R)
            if which == 'qr':
                Q = unflat(rv(o[0]), m, R); Rm = unflat(rv(o[1]), C, m)        # Q: m columns of R rows; R: C columns of m rows
                P = mmul(Q, Rm); QtQ = mmul(transpose(Q), Q)
                g = [('Q*R==M[%d][%d]' % (c, r), FEq(P[c][r], A[c][r])) for c in range(C) for r in range(R)]
                g += [('QtQ==I[%d][%d]' % (c, r), FEq(QtQ[c][r], delta(c, r, QtQ[c][r]))) for c in range(m) for r in range(m)]
                g += [('R-upper-triangular[%d][%d]' % (c, r), FEq(Rm[c][r], zero(Rm[c][r]))) for c in range(C) for r in range(m) if r > c]
            else:
                Rm = unflat(rv(o[0]), m, R); Q = unflat(rv(o[1]), C, m)        # R: m columns of R rows; Q: C columns of m rows
                P = mmul(Rm, Q); QQt = mmul(Q, transpose(Q))
                g = [('R*Q==M[%d][%d]' % (c, r), FEq(P[c][r], A[c][r])) for c in range(C) for r in range(R)]
                g += [('QQt==I[%d][%d]' % (c, r), FEq(QQt[c][r], delta(c, r, QQt[c][r]))) for c in range(m) for r in range(m)]
            return g
        check_real(S, U, '%s_%d%d' % (which, C, R), spec, indep, 'c10_%s.%s_decompose%dx%d.real' % (t, which, C, R), 'all real %dx%d matrices with independent leading columns/rows; sqrt as algebraic y>=0, y*y=x' % (C, R),
                   timeout=S.cap(60, 300), mandatory=mandatory, unwind=8)
    return run

def job_query(t, L):
    U = UNITS[t]; W = 32 if t == 'f32' else 64
    def run(S):
        def spec(i, o):
            A = unflat(i[0], L, L); e = fpof(i[1][0]); onef = FPV(1.0, W)
            conds = []
            for c in range(L):
                for r in range(L):
                    x = fpof(A[c][r])
                    conds.append(z3.fpLEQ(z3.fpAbs(z3.fpSub(RNE, x, onef)) if c == r else z3.fpAbs(x), e))
            return [('isIdentity', (o[0][0] == 1) == z3.And(*conds))]
        S.check_fn(U, 'query_%d' % L, spec, lambda i: [z3.Not(is_nan(x)) for x in i[0] + i[1]], mode='fp', name='c10_%s.isIdentity%d' % (t, L), timeout=S.cap(90, 240),
                   bounds='all non-NaN entries and epsilon; |m[i][j] - delta_ij| <= epsilon evaluated in IEEE arithmetic', unwind=8, side=False)
    return run

def jobs(tier):
    q = tier == 'quick'; J = []
    for t in (('f32',) if q else ('f32', 'f64')):
        for L in (2, 3, 4):
            J += [('inverse_%s_%d' % (t, L), job_inverse(t, L)), ('det_%s_%d' % (t, L), job_det(t, L)), ('invT_%s_%d' % (t, L), job_invT(t, L)),
                  ('div_%s_%d' % (t, L), job_div(t, L)), ('adj_%s_%d' % (t, L), job_adj(t, L)), ('diag_%s_%d' % (t, L), job_diag(t, L)), ('query_%s_%d' % (t, L), job_query(t, L))]
            if L > 2: J.append(('affine_%s_%d' % (t, L), job_affine(t, L)))
        for (C, R) in QR_SHAPES:
            J.append(('qr_%s_%d%d' % (t, C, R), job_qr(t, C, R, 'qr', (C, R) == (2, 2))))
            J.append(('rq_%s_%d%d' % (t, C, R), job_qr(t, C, R, 'rq', (C, R) == (2, 2))))
    return J
JOB_CAP = {'quick': 600, 'thorough': 2400}
