"""C17 - swizzles and constructors select and place exactly the named components.

Generator driven: Python enumerates the accessor / constructor space from the *names* and documented argument shapes (the
constructor catalogue is scraped from the declarations in glm/detail/type_vec*.hpp so that added/removed overloads change the
catalogue), emits one wrapper per program, and the solver proves out[k] == static_cast<T>(in[E_k]) for symbolic component values.
"""
from props.common import *
import itertools, re, fnmatch, subprocess, threading
import harness as _h

LEVEL = 'proof'
CLAIM = ("Every 2/3/4-letter swizzle over xyzw/rgba/stpq of vec2-4 in member-function form (GLM_FORCE_SWIZZLE), operator form (anonymous-struct union members, "
         "generic and SSE2/AVX _mm_shuffle specialisations) and every gtx/vec_swizzle free function is compiled from the real headers and executed symbolically; the solver "
         "shows component k of the result is bit-identical to the source component named by letter k for all component values; assignment (=, scalar =, +=, -=) through every "
         "repetition-free operator swizzle changes exactly the named components, also when the right-hand side aliases the written vector: v.PERM = v, v.PERM += / -= / *= / /= v for every full-length "
         "permutation and v.P = v.O / *= / /= for swizzle sources O of the same object (reversal, rotation, identity prefix, repeated letter, shifted letters) place the ORIGINAL values; v.P = w.P "
         "(identical swizzle type on both sides) is checked and reported as a known finding. Every declared vec1-4 constructor (scraped from the headers), the matrix constructors "
         "(scalar->diagonal, C*R scalars, columns, 81 shape conversions, cross-type) and the component-filling quaternion constructors are shown to place "
         "static_cast<T>(i-th supplied component) at component i (sext/zext/trunc, int->float RNE, float->int RTZ in range, bool <=> != 0). Under GLM_FORCE_INTRINSICS the SIMD-specialised "
         "constructors of vec3/vec4 of float, int, uint and double (copy / cross-qualifier for all 6 x 6 destination/source qualifier pairs, scalar broadcast, L scalars, vec<L,float>(ints)) are "
         "enumerated at an SSE2 and an AVX2 instruction-set level. An accessor that the property "
         "names but that does not compile is reported as a violation of its 'exists' obligation.")
BOUNDS = ('component values fully symbolic (all bit patterns); float->integer conversions only for values whose truncation is representable in the target type (outside is C20). '
          'quick: swizzles of float vectors in function form, operator form (packed operands, all three letter sets, incl. assignment, aliasing and swizzle-to-swizzle assignment) and SSE2 form (aligned vec3/vec4, xyzw, read only), free functions for float and int; '
          'SIMD constructor qualifier matrix (6 x 6 qualifiers x {float,int,uint,double} x {vec3,vec4}) at -msse2 and -mavx2 (thorough: also -msse4.2, -mavx); '
          'vector constructors for destination {float,int} x source {float,int,uint8,bool,double} with rotating source types/qualifiers per argument; matrix constructors for float (sources double,int), all 9x9 shapes; quaternion float/double. '
          'thorough: swizzles additionally for int, uint8, double (uint for aligned), AVX2, simulated MS-extension operator form (-D_MSC_EXTENSIONS), GLM_FORCE_XYZW_ONLY; constructors over '
          '{float,double,int,uint,int8,uint16,int64,bool} x the same + uint8, aligned_highp destinations under SSE2 and AVX2, matrices float/double/int, GLM_FORCE_QUAT_DATA_WXYZ')
OUTSIDE = ('wrappers whose optimised IR loads past a (compiler-shrunk) stack slot and that AddressSanitizer does not flag natively are recorded as not encoded (non-mandatory); compilers other than clang++-14 (g++ only through the native replay/validation build); out-of-range float->int conversions; quaternion constructors that compute (from axes, '
           'Euler angles, matrices); swizzle arithmetic helper operators (u.xy + v.zw); initializer-list and default constructors')
ASSUMPTIONS = ['native validation/replay builds of the operator-swizzle units use clang++-14 (g++ needs minutes per TU on these unions); all other units use g++ and clang++-14',
               '"exists" obligations are decided by clang++-14 accepting the generated wrapper (a compile error attributed to a wrapper removes it from the unit and fails its exists obligation)',
               'operator-form swizzles are only reachable on gcc/clang through GLM_FORCE_INTRINSICS (GLM_LANG_CXXMS_FLAG); the pure operator form is reached by defining _MSC_EXTENSIONS by hand']

SETS = ('xyzw', 'rgba', 'stpq')
CT_GLM = {'float': 'float', 'double': 'double', 'int': 'int', 'unsigned': 'glm::uint', 'int8_t': 'glm::int8', 'uint8_t': 'glm::uint8', 'int16_t': 'glm::int16', 'uint16_t': 'glm::uint16',
          'int32_t': 'glm::int32', 'uint32_t': 'glm::uint32', 'int64_t': 'glm::int64', 'uint64_t': 'glm::uint64', 'bool': 'bool'}
TAG = {'float': 'f32', 'double': 'f64', 'int': 'i32', 'unsigned': 'u32', 'int8_t': 'i8', 'uint8_t': 'u8', 'int16_t': 'i16', 'uint16_t': 'u16', 'int64_t': 'i64', 'uint64_t': 'u64', 'bool': 'b'}

# ----------------------------------------------------------------------------- units that survive uncompilable wrappers
class PUnit(Unit):
    """Unit whose wrappers that clang rejects are removed (recorded in .broken) instead of failing the whole TU."""
    def __init__(s, *a, **k):
        Unit.__init__(s, *a, **k); s.broken = {}; s.meta = {}; s.order = []
    native_cxx = None
    def native(s, cxx='g++', opt='-O2'):
        # g++ needs > 2 min per TU on the operator-swizzle unions; those units are validated/replayed with clang++-14 only (stated in ASSUMPTIONS)
        return Unit.native(s, s.native_cxx or cxx, opt)
    def addm(s, name, ins, outs, body, **meta):
        s.add(name, ins, outs, body); s.meta[name] = meta; s.order.append(name); return name
    def _fn_lines(s):
        starts = []
        for n, line in enumerate(s.source().split('\n'), 1):
            m = re.match(r'W w_(\w+)\(', line)
            if m: starts.append((n, m.group(1)))
        return starts
    def prepare(s, opt='-O1'):
        """compile to IR; wrappers named in clang's diagnostics are removed and recorded in .broken.  An invalid template instantiation is diagnosed only at its
        first use, so pruning is repeated (syntax-only) until the TU is accepted."""
        syntax_only = False
        for attempt in range(80):
            src = s._path('src', '.cpp')
            if not os.path.exists(src):
                with open(src, 'w') as f: f.write(s.source())
            ll = s._path(opt, '.ll')
            if os.path.exists(ll): return
            base = ['clang++-14', opt] + _h.BASE_CFLAGS + ['-ferror-limit=0'] + s.cflags + ['-I', _h.REPO]
            p = subprocess.run(base + (['-fsyntax-only', src] if syntax_only else ['-S', '-emit-llvm', src, '-o', ll + '.tmp']), capture_output=True, text=True)
            if p.returncode == 0:
                if syntax_only: syntax_only = False; continue
                os.rename(ll + '.tmp', ll); return
            syntax_only = True
            starts = s._fn_lines(); bad = {}
            blocks = re.split(r'(?m)^(?=\S+:\d+:\d+: (?:fatal )?error:)', p.stderr)
            for b in blocks:
                m0 = re.search(r'error: (.*)', b)
                if not m0: continue
                for ln in re.findall(re.escape(src) + r':(\d+):\d+:', b):
                    ln = int(ln); owner = None
                    for st, nm in starts:
                        if st <= ln: owner = nm
                        else: break
                    if owner is not None and owner in s.fns: bad.setdefault(owner, m0.group(1)[:400])
            if not bad: raise RuntimeError('clang failed for unit %s (not attributable to a wrapper):\n%s' % (s.name, p.stderr[-4000:]))
            for nm, msg in bad.items():
                s.broken[nm] = msg; del s.fns[nm]
        raise RuntimeError('unit %s: still failing after pruning' % s.name)

def exists_ob(S, u, fname, descr):
    """obligation '<accessor> exists and compiles' - decided by the compiler, routed through the session records"""
    oname = '%s.%s.exists' % (u.name, fname)
    fl = ['w_%s -> %s' % (fname, descr)]
    if fname not in u.broken:
        S.prove(oname, z3.BoolVal(True), [], timeout=10, functions=fl, bounds='wrapper accepted by clang++-14')
        return True
    err = u.broken[fname]
    for kid, kf in S.known.items():
        if kf.get('status', 'open') == 'open' and fnmatch.fnmatch(oname, kf['obligation']):
            S.rec(name=oname + '.known[%s]' % kid, kind='known-finding-probe', functions=fl, solver='clang++-14', result='compile-error', status='known-finding', time_s=0, mandatory=False, note=err)
            S.known_hits.append((kid, kf['what'])); return False
    S.rec(name=oname, kind='spec', functions=fl, solver='clang++-14', result='compile-error', status='counterexample', time_s=0, mandatory=True, replay='reproduced', note=err)
    S.violations.append((oname, {'obligation': oname, 'property': S.pid, 'compile_error': err, 'program': descr}))
    return False

# ----------------------------------------------------------------------------- swizzle catalogue (from names only)
def patterns(L, ns=(2, 3, 4)):
    for n in ns:
        for E in itertools.product(range(L), repeat=n): yield E
def alias_sources(E, L):
    """right-hand patterns O (same length as E) for `v.E = v.O` on one object: reversal, rotation, identity prefix, one repeated letter, every letter shifted"""
    n = len(E); c = [tuple(reversed(E)), tuple(E[1:] + E[:1]), tuple(range(n)), (E[-1],) * n, tuple((e + 1) % L for e in E)]; out = []
    for o in c:
        if o != tuple(E) and o not in out: out.append(o)
    return out
def pname(E, S='xyzw'): return ''.join(S[e] for e in E)
def pid_(E): return ''.join(str(e) for e in E)

SW_CFG = {   # form -> (defines, cflags, includes)
    'func':    (['GLM_FORCE_SWIZZLE'], [], ['glm/glm.hpp']),
    'funcxyzw': (['GLM_FORCE_SWIZZLE', 'GLM_FORCE_XYZW_ONLY'], [], ['glm/glm.hpp']),
    'op':      (['GLM_FORCE_SWIZZLE', 'GLM_FORCE_INTRINSICS'], ['-msse2'], ['glm/glm.hpp']),
    'opavx':   (['GLM_FORCE_SWIZZLE', 'GLM_FORCE_INTRINSICS'], ['-mavx2'], ['glm/glm.hpp']),
    'opms':    (['GLM_FORCE_SWIZZLE', '_MSC_EXTENSIONS=1'], [], ['glm/glm.hpp']),
    'free':    ([], [], ['glm/glm.hpp', 'glm/gtx/vec_swizzle.hpp']),
}
def sw_unit(form, ct, Q='defaultp', Ls=(2, 3, 4), sets=SETS, writable=False, compound=True, alias=True):
    d, cf, inc = SW_CFG[form]
    u = PUnit('c17_%s_%s%s' % (form, TAG[ct], '' if Q == 'defaultp' else '_' + Q.replace('aligned_', 'al')), includes=inc, defines=d, cflags=cf)
    g = CT_GLM[ct]; q = 'glm::' + Q
    if form == 'free': sets = ('xyzw',)
    if form == 'funcxyzw': sets = ('xyzw',)
    for L in Ls:
        for S in sets:
            for E in patterns(L):
                n = len(E); nm = pname(E, S)
                ld = 'auto v = ldv<%d,%s,%s>(a);' % (L, g, q)
                if form == 'free':
                    u.addm('r%d_%s_%s' % (L, S, pid_(E)), [(ct, L)], [(ct, n)], ld + ' stv(o, glm::%s(v));' % nm, kind='read', L=L, E=E, descr='glm::%s(vec%d)' % (nm, L), nout=1)
                elif form.startswith('func'):
                    u.addm('r%d_%s_%s' % (L, S, pid_(E)), [(ct, L)], [(ct, n)], ld + ' stv(o, v.%s());' % nm, kind='read', L=L, E=E, descr='vec%d.%s()' % (L, nm), nout=1)
                else:
                    u.addm('r%d_%s_%s' % (L, S, pid_(E)), [(ct, L)], [(ct, n), (ct, n)], ld + ' stv(o, v.%s()); glm::vec<%d,%s,%s> r(v.%s); stv(o2, r);' % (nm, n, g, q, nm),
                           kind='read', L=L, E=E, descr='vec%d.%s (operator() and conversion to vec%d)' % (L, nm, n), nout=2)
                    if writable and len(set(E)) == n:
                        body = ld + ' v.%s = ldv<%d,%s,%s>(b); stv(o, v);' % (nm, n, g, q)
                        body += ' auto s = ldv<%d,%s,%s>(a); s.%s = b[0]; stv(o2, s);' % (L, g, q, nm)
                        outs = [(ct, L), (ct, L)]
                        if compound and ct != 'bool':
                            body += ' auto p = ldv<%d,%s,%s>(a); p.%s += ldv<%d,%s,%s>(b); stv(o3, p);' % (L, g, q, nm, n, g, q)
                            body += ' auto m = ldv<%d,%s,%s>(a); m.%s -= ldv<%d,%s,%s>(b); stv(o4, m);' % (L, g, q, nm, n, g, q)
                            outs += [(ct, L), (ct, L)]
                        u.addm('w%d_%s_%s' % (L, S, pid_(E)), [(ct, L), (ct, n)], outs, body, kind='write', L=L, E=E, descr='vec%d.%s = / += / -= vec%d' % (L, nm, n), nout=len(outs))
                        if not alias: continue
                        ops = ['='] + ([] if ct == 'bool' else ['+', '-', '*'] + (['/'] if ct_kind(ct) == 'f' else []))
                        def seq(stmt, ops_):
                            # one fresh copy of the operand per operator, results stored back to back in o
                            return ' '.join('{ auto t = ldv<%d,%s,%s>(a); %s stv(o + %d, t); }' % (L, g, q, stmt % (op if op != '=' else ''), k * L) for k, op in enumerate(ops_))
                        if n == L:
                            # the right-hand side IS the vector being written (v.zyx = v): the named components must receive the ORIGINAL values
                            u.addm('al%d_%s_%s' % (L, S, pid_(E)), [(ct, L)], [(ct, L * len(ops))], seq('t.' + nm + ' %s= t;', ops), kind='alias', L=L, E=E, O=tuple(range(L)), ops=ops, nout=1,
                                   descr='vec%d v; v.%s = v / += v / -= v / *= v / /= v (right-hand side aliases the written vector)' % (L, nm))
                        # swizzle-to-swizzle assignment from the same object
                        srcs = alias_sources(E, L) if S == 'xyzw' else alias_sources(E, L)[:1]
                        for O in srcs:
                            S2 = S if S == 'xyzw' else SETS[(SETS.index(S) + 1) % 3]; onm = pname(O, S2); ops2 = ['='] + (['*', '/'] if ct_kind(ct) == 'f' else ([] if ct == 'bool' else ['*']))
                            u.addm('ss%d_%s_%s_%s' % (L, S, pid_(E), pid_(O)), [(ct, L)], [(ct, L * len(ops2))], seq('t.' + nm + ' %s= t.' + onm + ';', ops2), kind='alias', L=L, E=E, O=O, ops=ops2, nout=1,
                                   descr='vec%d v; v.%s = v.%s / *= / /= (swizzle of the same object on the right-hand side)' % (L, nm, onm))
                        if S == 'xyzw':
                            # the same swizzle of ANOTHER object (identical index tuple => identical _swizzle type on both sides)
                            u.addm('sc%d_%s_%s' % (L, S, pid_(E)), [(ct, L), (ct, L)], [(ct, L)], ld + ' auto w = ldv<%d,%s,%s>(b); v.%s = w.%s; stv(o, v);' % (L, g, q, nm, nm), kind='copy', L=L, E=E, nout=1,
                                   descr='vec%d v, w; v.%s = w.%s (same swizzle type on both sides)' % (L, nm, nm))
    if form == 'free':     # vec1 sources exist only as free functions
        for E in patterns(1):
            n = len(E); nm = pname(E)
            u.addm('r1_xyzw_%s' % pid_(E), [(ct, 1)], [(ct, n)], 'auto v = ldv<1,%s,%s>(a); stv(o, glm::%s(v));' % (g, q, nm), kind='read', L=1, E=E, descr='glm::%s(vec1)' % nm, nout=1)
    u.ct = ct; u.skip_uninit = Q.startswith('aligned')
    if form.startswith('op'):
        u.native_cxx = 'clang++-14'
        # constructors taking swizzle arguments (declared only in operator mode), catalogue scraped from the headers
        ZC = {2: [(2, (1, 0)), (3, (2, 0)), (4, (3, 1))], 3: [(3, (2, 1, 0)), (4, (0, 3, 1)), (4, (1, 2, 0))], 4: [(4, (3, 2, 1, 0)), (2, (0, 1, 0, 1)), (3, (2, 2, 1, 0))]}
        for L in (2, 3, 4):
            for di, (decl, ps) in enumerate(scrape_vec_ctors(L)):
                if not any(p[0] == 'z' for p in ps): continue
                for v in range(3):
                    ins = []; argx = []; shape = []; ok = True
                    for ai, p in enumerate(ps):
                        an = 'abcdefgh'[ai]
                        if p[0] == 's': ins.append((ct, 1)); argx.append('%s[0]' % an); shape.append(('s', ai, ct, [0]))
                        elif p[0] == 'z':
                            Ls_, E = ZC[p[1]][(v + ai) % 3]
                            if Ls_ not in Ls: ok = False
                            ins.append((ct, Ls_)); argx.append('s%d.%s' % (ai, pname(E, SETS[(v + ai) % len(sets)] if len(sets) == 3 else 'xyzw'))); shape.append(('z', ai, ct, list(E)))
                        else: ok = False
                    if not ok: continue
                    body = ' '.join('auto s%d = ldv<%d,%s,%s>(%s);' % (ai, ins[ai][1], g, q, 'abcdefgh'[ai]) for ai, p in enumerate(ps) if p[0] == 'z')
                    body += ' glm::vec<%d,%s,%s> r(%s); stv(o, r);' % (L, g, q, ', '.join(argx))
                    u.addm('zc%d_d%02d_%d' % (L, di, v), ins, [(ct, L)], body, kind='fill', dct=ct, exp=flat_exp(L, shape), lab='component', descr='%s called as vec%d(%s)' % (decl, L, ', '.join(argx)))
    return u

def eqc(o, x):
    """output component o is bit-identical to term x"""
    return bits_of(o) == x
def arith(ct, op, x, y):
    if ct_kind(ct) == 'f':
        f = {'+': z3.fpAdd, '-': z3.fpSub, '*': z3.fpMul, '/': z3.fpDiv}[op]
        if op in '+*':      # commutative: clang may emit either operand order; the syntactically matching disjunct simplifies to true without bit-blasting the operation
            return lambda o: z3.Or(fpv_of(o) == f(RNE, fpof(x), fpof(y)), fpv_of(o) == f(RNE, fpof(y), fpof(x)))
        return lambda o: fpv_of(o) == f(RNE, fpof(x), fpof(y))
    return lambda o: bits_of(o) == {'+': lambda: x + y, '-': lambda: x - y, '*': lambda: x * y}[op]()
OPN = {'=': 'assign', '+': 'add', '-': 'sub', '*': 'mul', '/': 'div'}
KF_SAMETYPE = 'KF-C17-op-swizzle-same-type-assign'


def run_check(S, u, fname, spec, pre, **kw):
    """check_fn with two refinements.
    (1) units with aligned (SIMD register) operands: the executor's 'uninit-load' obligation is not part of the claim - glm copies the whole 16-byte register of an aligned vec3
        whose 4th lane is indeterminate by design.  An indeterminate lane that reached an output would make the output a fresh variable and fail the equality goal.
    (2) a wrapper that cannot be encoded because its IR loads past the end of an object is queued for an AddressSanitizer run (resolve_oob): a natively confirmed out-of-bounds
        read is a violation of '<wrapper>.memsafe' (or a known finding); an unconfirmed one (clang shrinks a stack slot under a wide vector load) is recorded as not encoded, non-mandatory."""
    n_inc = len(S.inconclusive); n_rec = len(S.records)
    skip = getattr(u, 'skip_uninit', False)
    res = S.check_fn(u, fname, spec, pre, side=False, **kw) if skip else S.check_fn(u, fname, spec, pre, **kw)
    if res is None:
        r = S.records[-1] if len(S.records) > n_rec else None
        if r is not None and r.get('status') == 'not-encoded' and 'oob' in str(r.get('note', '')):
            del S.inconclusive[n_inc:]; r['mandatory'] = False
            if not hasattr(S, 'oob_pending'): S.oob_pending = []
            S.oob_pending.append((u, fname, r))
        return res
    if not skip: return res
    hy = input_wellformed(u.fns[fname], res.ins) + (list(pre(res.ins)) if pre else []) + res.axioms
    groups = {}
    for kind, cond, d in res.obligations:
        if kind != 'uninit-load': groups.setdefault((kind, d), []).append(cond)
    for (kind, d), conds in groups.items():
        S.prove('%s.%s.%s[%s]' % (u.name, fname, kind, d[:60]), z3.Not(z3.Or(*conds)) if len(conds) > 1 else z3.Not(conds[0]), hy, timeout=kw.get('timeout'), kind=kind, functions=[fname])
    return res

def resolve_oob(S):
    """run every queued wrapper natively under AddressSanitizer (one forked child per wrapper, zero inputs)"""
    pend = getattr(S, 'oob_pending', []); S.oob_pending = []
    by_unit = {}
    for u, fname, r in pend: by_unit.setdefault(u.name, (u, []))[1].append((fname, r))
    for u, items in by_unit.values():
        u2 = Unit(u.name + '_asan', u.includes, u.defines, u.cflags, u.extra_prelude, u.experimental)
        for fname, r in items: u2.fns[fname] = u.fns[fname]
        main = ['#include <sys/wait.h>', '#include <unistd.h>', '#include <cstdio>', 'int main(){']
        for fname, r in items:
            fn = u.fns[fname]; args = []
            main.append(' { pid_t p = fork(); if (p == 0) {')
            for k, (c, n) in enumerate(fn.ins):
                main.append('   %s* i%d = new %s[%d](); ' % (c, k, c, n)); args.append('i%d' % k)
            for k, (c, n) in enumerate(fn.outs):
                main.append('   %s* o%d = new %s[%d](); ' % (c, k, c, n)); args.append('o%d' % k)
            main.append('   w_%s(%s); _exit(0); }' % (fname, ', '.join(args)))
            main.append('   int st = 0; waitpid(p, &st, 0); std::printf("RESULT %s %%d\\n", (WIFEXITED(st) && WEXITSTATUS(st) == 0) ? 0 : 1); std::fflush(stdout); }' % fname)
        main.append(' return 0; }')
        base = os.path.join(_h.scratch(), 'asan_%d_%s' % (os.getpid(), u.name))
        with open(base + '.cpp', 'w') as f: f.write(u2.source() + '\n'.join(main) + '\n')
        verdict = {}
        p = subprocess.run(['clang++-14', '-std=c++17', '-O0', '-w', '-ffp-contract=off', '-fsanitize=address', '-fno-omit-frame-pointer'] + u.cflags + ['-I', _h.REPO, base + '.cpp', '-o', base + '.exe'], capture_output=True, text=True)
        out = ''
        if p.returncode == 0:
            env = dict(os.environ); env['ASAN_OPTIONS'] = 'detect_leaks=0'
            q = subprocess.run([base + '.exe'], capture_output=True, text=True, env=env, timeout=600)
            out = q.stderr
            for mm in re.finditer(r'RESULT (\w+) (\d)', q.stdout): verdict[mm.group(1)] = int(mm.group(2))
        for e in ('.cpp', '.exe'):
            try: os.unlink(base + e)
            except OSError: pass
        first = re.search(r'ERROR: AddressSanitizer: ([^\n]*)\n([^\n]*)\n([^\n]*)', out)
        for fname, r in items:
            oname = '%s.%s.memsafe' % (u.name, fname)
            if verdict.get(fname) == 1:
                info = {'obligation': oname, 'property': S.pid, 'program': u.fns[fname].body, 'executor': r.get('note'), 'asan': first.group(0)[:600] if first else 'child terminated abnormally under AddressSanitizer'}
                hit = None
                for kid, kf in S.known.items():
                    if kf.get('status', 'open') == 'open' and fnmatch.fnmatch(oname, kf['obligation']): hit = (kid, kf)
                if hit:
                    r.update(name=oname + '.known[%s]' % hit[0], kind='known-finding-probe', status='known-finding', replay='reproduced', replay_info=info, solver='executor + AddressSanitizer')
                    S.known_hits.append((hit[0], hit[1]['what']))
                else:
                    r.update(name=oname, kind='oob', status='counterexample', replay='reproduced', replay_info=info, mandatory=True, solver='executor + AddressSanitizer')
                    S.violations.append((oname, info))
            else:
                r.update(name=oname, status='not-encoded', mandatory=False, note=str(r.get('note')) + ' ; not confirmed by AddressSanitizer at -O0 (compiler-shrunk stack slot under a wide load): outside the claim')

def sw_check(S, u, fname):
    m = u.meta[fname]
    if not exists_ob(S, u, fname, m['descr']): return
    E = m['E']; L = m['L']; n = len(E); ct = u.ct
    if m['kind'] == 'read':
        def spec(i, o):
            g = [('out%d' % k, eqc(o[0][k], i[0][E[k]])) for k in range(n)]
            if m['nout'] == 2: g += [('conv%d' % k, eqc(o[1][k], i[0][E[k]])) for k in range(n)]
            return g
        def mutant(i, o):
            return [('wrong-index', eqc(o[0][n - 1], i[0][(E[n - 1] + 1) % L]))] if L > 1 else []
        run_check(S, u, fname, spec, None, witness=False, mutant=mutant if m.get('twin') else None, timeout=S.cap(30, 60), bounds='all component bit patterns')
    elif m['kind'] == 'alias':
        O = m['O']
        def spec(i, o):
            g = []; src = i[0]
            for q, op in enumerate(m['ops']):
                for j in range(L):
                    out = o[0][q * L + j]
                    if j not in E: g.append(('alias-%s-untouched%d' % (OPN[op], j), eqc(out, src[j]))); continue
                    x = src[O[E.index(j)]]        # the ORIGINAL value of the component named by the right-hand side
                    g.append(('alias-%s%d' % (OPN[op], j), eqc(out, x) if op == '=' else arith(ct, op, src[j], x)(out)))
            return g
        run_check(S, u, fname, spec, None, witness=False, timeout=S.cap(30, 60), bounds='all component bit patterns')
    elif m['kind'] == 'copy':
        def spec(i, o):
            return [('copy%d' % j, eqc(o[0][j], i[1][j])) if j in E else ('copy-untouched%d' % j, eqc(o[0][j], i[0][j])) for j in range(L)]
        run_check(S, u, fname, spec, None, witness=False, timeout=S.cap(30, 60), bounds='all component bit patterns', known=[KF_SAMETYPE])
    else:
        def spec(i, o):
            g = []
            for j in range(L):
                if j in E:
                    k = E.index(j)
                    g.append(('assign%d' % j, eqc(o[0][j], i[1][k]))); g.append(('assign-scalar%d' % j, eqc(o[1][j], i[1][0])))
                    if m['nout'] == 4:
                        g.append(('add%d' % j, arith(ct, '+', i[0][j], i[1][k])(o[2][j]))); g.append(('sub%d' % j, arith(ct, '-', i[0][j], i[1][k])(o[3][j])))
                else:
                    for q, lab in enumerate(('assign', 'assign-scalar', 'add', 'sub')[:m['nout']]):
                        g.append(('%s-untouched%d' % (lab, j), eqc(o[q][j], i[0][j])))
            return g
        run_check(S, u, fname, spec, None, witness=False, timeout=S.cap(30, 60), bounds='all component bit patterns')

# ----------------------------------------------------------------------------- static_cast semantics as SMT ([conv.integral], [conv.fpint], [conv.double], [conv.bool])
FPBITS = {32: 24, 64: 53}
def cast_pre(sct, dct, x):
    """hypotheses under which static_cast<dct>(x) is defined (float -> integer: truncated value representable)"""
    sk, sw = ct_kind(sct), ct_bits(sct); dk, dw = ct_kind(dct), ct_bits(dct)
    if sk != 'f' or dk not in ('s', 'u'): return []
    fx = fpof(x); srt = FSORT[sw]
    if dk == 'u': return [z3.fpGT(fx, z3.FPVal(-1.0, srt)), z3.fpLT(fx, z3.FPVal(2.0 ** dw, srt))]
    hi = z3.fpLT(fx, z3.FPVal(2.0 ** (dw - 1), srt))
    if dw <= FPBITS[sw]:      # -(2^(dw-1)) - 1 is a value of the source format (needs dw significand bits)
        return [z3.fpGT(fx, z3.FPVal(-(2.0 ** (dw - 1)) - 1.0, srt)), hi]
    return [z3.fpGEQ(fx, z3.FPVal(-(2.0 ** (dw - 1)), srt)), hi]
def cast_goal(sct, dct, x, o):
    """o (output component, type dct) == static_cast<dct>(x) (x: bit pattern of a value of type sct)"""
    sk, sw = ct_kind(sct), ct_bits(sct); dk, dw = ct_kind(dct), ct_bits(dct)
    if sct == dct or (sk == dk and sw == dw and sk != 'f'): return bits_of(o) == x
    if dk == 'b':
        c = z3.Not(z3.fpIsZero(fpof(x))) if sk == 'f' else x != 0
        return bits_of(o) == z3.If(c, z3.BitVecVal(1, 8), z3.BitVecVal(0, 8))
    if dk == 'f':
        if sk == 'f': return fpv_of(o) == z3.fpFPToFP(RNE, fpof(x), FSORT[dw])
        if sk == 's': return fpv_of(o) == z3.fpSignedToFP(RNE, x, FSORT[dw])
        return fpv_of(o) == z3.fpUnsignedToFP(RNE, x, FSORT[dw])
    if sk == 'f':
        return bits_of(o) == (z3.fpToSBV(RTZ, fpof(x), z3.BitVecSort(dw)) if dk == 's' else z3.fpToUBV(RTZ, fpof(x), z3.BitVecSort(dw)))
    return bits_of(o) == (sx(x, dw) if sk == 's' else zx(x, dw))
def const_goal(dct, v, o):
    k, w = ct_kind(dct), ct_bits(dct)
    if k == 'f': return bits_of(o) == z3.BitVecVal(float_to_bits(float(v), w), w)
    return bits_of(o) == z3.BitVecVal(v, w)

def fill_check(S, u, fname):
    """generic: output array k holds static_cast<dct>(expected[k]) where expected = m['exp'](ins) -> [('c', sct, term) | ('k', 0|1)]"""
    m = u.meta[fname]
    if not exists_ob(S, u, fname, m['descr']): return
    dct = m['dct']
    def spec(i, o):
        g = []
        for k, e in enumerate(m['exp'](i)):
            g.append(('%s%d' % (m.get('lab', 'c'), k), cast_goal(e[1], dct, e[2], o[0][k]) if e[0] == 'c' else const_goal(dct, e[1], o[0][k])))
        return g
    def pre(i):
        h = []
        for e in m['exp'](i):
            if e[0] == 'c': h += cast_pre(e[1], dct, e[2])
        return h
    def mutant(i, o):
        ex = m['exp'](i); cs = [e for e in ex if e[0] == 'c']
        if len({id(e[2]) for e in cs}) < 2: return []
        k = len(ex) - 1; e = ex[k]; alt = [c for c in cs if c[2] is not e[2]] if e[0] == 'c' else cs
        return [('wrong-source', cast_goal(alt[0][1], dct, alt[0][2], o[0][k]))]
    run_check(S, u, fname, spec, pre, witness=bool(m.get('twin')), mutant=mutant if m.get('twin') else None, timeout=S.cap(60, 120), known=list(S.known),
               bounds='all component bit patterns; float->int only where the truncated value is representable')

# ----------------------------------------------------------------------------- vector constructor catalogue, scraped from the declarations
_DECL = re.compile(r'((?:template<[^>]*>\s*)?)GLM_(?:CTOR_DECL|DEFAULTED_FUNC_DECL GLM_CONSTEXPR|DEFAULTED_DEFAULT_CTOR_DECL GLM_CONSTEXPR|FUNC_DISCARD_DECL(?: GLM_CONSTEXPR)?)\s+((?:explicit |GLM_EXPLICIT )?)vec\(([^)]*)\)')
def scrape_vec_ctors(L):
    """-> [(decl text, [param])], param = ('s', tname) | ('v', K, tname, qname) | ('z', N)"""
    src = open(os.path.join(_h.REPO, 'glm/detail/type_vec%d.hpp' % L)).read()
    out = []
    for tmpl, expl, args in _DECL.findall(src):
        args = ' '.join(args.split())
        if not args: continue                       # default constructor: value depends on GLM_FORCE_CTOR_INIT, not a component-placing constructor
        ps = []
        for a in [x.strip() for x in re.split(r',(?![^<]*>)', args)]:
            mm = re.match(r'vec<(\d), (\w+), (\w+)> const&', a)
            if mm: ps.append(('v', int(mm.group(1)), mm.group(2), mm.group(3))); continue
            if re.match(r'vec const&', a): ps.append(('v', L, 'T', 'Q')); continue
            mm = re.match(r'detail::_swizzle<(\d),', a)
            if mm: ps.append(('z', int(mm.group(1)))); continue
            mm = re.match(r'(\w+)(?: const&)? \w+$', a)
            if mm: ps.append(('s', mm.group(1))); continue
            raise RuntimeError('C17: cannot parse constructor parameter %r in type_vec%d.hpp' % (a, L))
        out.append(('vec%d(%s)' % (L, args), ps))
    return out

QUALS = ('defaultp', 'mediump', 'lowp')
def flat_exp(L, shape):
    """shape: [(kind, input index, source ctype, [component indices])]; GLSL 5.4.2: components consumed left to right; one component => broadcast"""
    def exp(i):
        comps = [('c', ct, i[ai][k]) for (kd, ai, ct, ks) in shape for k in ks]
        if len(comps) == 1: return comps * L
        assert len(comps) >= L
        return comps[:L]
    return exp
def vec_ctor_units(tier, dsts, srcs, quals_dst=('defaultp',), cfg_name='', defines=(), cflags=(), palt=QUALS, per_unit=420):
    us = []; cur = [None]; cnt = [0]
    def unit():
        if cur[0] is None or len(cur[0].order) >= per_unit:
            cur[0] = PUnit('c17_vctor%s_%02d' % (cfg_name, len(us)), includes=['glm/glm.hpp', 'glm/ext/vector_float1.hpp'], defines=list(defines), cflags=list(cflags)); us.append(cur[0])
            cur[0].skip_uninit = 'aligned' in ''.join(quals_dst) + ''.join(palt)
        return cur[0]
    for L in (1, 2, 3, 4):
        for di, (decl, ps) in enumerate(scrape_vec_ctors(L)):
            if any(p[0] == 'z' for p in ps): continue          # swizzle constructors live in the operator-swizzle units
            tnames = []
            for p in ps:
                tn = p[1] if p[0] == 's' else p[2]
                if tn != 'T' and tn not in tnames: tnames.append(tn)
            hasP = any(p[0] == 'v' and p[3] == 'P' for p in ps)
            for dct in dsts:
                for Q in quals_dst:
                    variants = [None] if not tnames else [None] + list(range(len(srcs)))
                    for vi, rot in enumerate(variants):
                        cnt[0] += 1
                        tmap = {'T': dct}
                        for k, tn in enumerate(tnames): tmap[tn] = dct if rot is None else srcs[(k + rot) % len(srcs)]
                        P = palt[(cnt[0]) % len(palt)] if hasP else Q
                        ins = []; argx = []; shape = []
                        for ai, p in enumerate(ps):
                            an = 'abcdefgh'[ai]
                            if p[0] == 's':
                                ct = tmap[p[1]]; ins.append((ct, 1)); argx.append('%s[0]' % an); shape.append(('s', ai, ct, [0]))
                            else:
                                ct = tmap[p[2]]; qq = Q if p[3] == 'Q' else P
                                ins.append((ct, p[1])); argx.append('ldv<%d,%s,glm::%s>(%s)' % (p[1], CT_GLM[ct], qq, an)); shape.append(('v', ai, ct, list(range(p[1]))))
                        name = 'v%d_d%02d_%s_%s_%d' % (L, di, TAG[dct], Q.replace('aligned_', 'al').replace('defaultp', 'dp'), vi)
                        body = 'glm::vec<%d,%s,glm::%s> r(%s); stv(o, r);' % (L, CT_GLM[dct], Q, ', '.join(argx))
                        descr = '%s with T=%s Q=%s %s' % (decl, dct, Q, ' '.join('%s=%s' % (k, v) for k, v in tmap.items() if k != 'T') + (' P=' + P if hasP else ''))
                        unit().addm(name, ins, [(dct, L)], body, kind='fill', dct=dct, exp=flat_exp(L, shape), descr=descr, lab='component')
    return us

# ----------------------------------------------------------------------------- SIMD-specialised vector constructors: the full qualifier matrix
QUALS6 = ('packed_highp', 'packed_mediump', 'packed_lowp', 'aligned_highp', 'aligned_mediump', 'aligned_lowp')
QTAG = {'packed_highp': 'ph', 'packed_mediump': 'pm', 'packed_lowp': 'pl', 'aligned_highp': 'ah', 'aligned_mediump': 'am', 'aligned_lowp': 'al'}
SIMD_LT = [(L, ct) for ct in ('float', 'int', 'unsigned', 'double') for L in (3, 4)]
def simd_ctor_units(cfg_name, cflags, lts=SIMD_LT):
    """type_vec_simd.inl / type_vec3.inl / type_vec4.inl specialise (per qualifier, through macros and explicit specialisations) the copy/cross-qualifier constructors, the scalar
    broadcast, the L-scalar constructor and vec<L,float>(int...) of the SIMD-backed (L, T) combinations: every destination qualifier x every source qualifier is enumerated."""
    us = []
    for ct in dict.fromkeys(c for _, c in lts):
        u = PUnit('c17_vq%s_%s' % (cfg_name, TAG[ct]), includes=['glm/glm.hpp'], defines=['GLM_FORCE_INTRINSICS'], cflags=list(cflags)); u.skip_uninit = True; us.append(u)
        g = CT_GLM[ct]
        for L in [l for l, c in lts if c == ct]:
            for Q in QUALS6:
                V = 'glm::vec<%d,%s,glm::%s>' % (L, g, Q)
                for P in QUALS6:
                    u.addm('q%d_%s_%s_from_%s' % (L, TAG[ct], QTAG[Q], QTAG[P]), [(ct, L)], [(ct, L)], '%s r(ldv<%d,%s,glm::%s>(a)); stv(o, r);' % (V, L, g, P), kind='fill', dct=ct, lab='component',
                           exp=flat_exp(L, [('v', 0, ct, list(range(L)))]), descr='vec<%d,%s,%s>(vec<%d,%s,%s> const&)' % (L, ct, Q, L, ct, P))
                u.addm('q%d_%s_%s_bcast' % (L, TAG[ct], QTAG[Q]), [(ct, 1)], [(ct, L)], '%s r(a[0]); stv(o, r);' % V, kind='fill', dct=ct, lab='component', exp=flat_exp(L, [('s', 0, ct, [0])]),
                       descr='vec<%d,%s,%s>(scalar)' % (L, ct, Q))
                u.addm('q%d_%s_%s_scalars' % (L, TAG[ct], QTAG[Q]), [(ct, L)], [(ct, L)], '%s r(%s); stv(o, r);' % (V, ', '.join('a[%d]' % k for k in range(L))), kind='fill', dct=ct, lab='component',
                       exp=flat_exp(L, [('v', 0, ct, list(range(L)))]), descr='vec<%d,%s,%s>(%d scalars)' % (L, ct, Q, L))
                if ct == 'float':
                    for sct in ('int', 'unsigned'):
                        u.addm('q%d_%s_%s_scalars_%s' % (L, TAG[ct], QTAG[Q], TAG[sct]), [(sct, L)], [(ct, L)], '%s r(%s); stv(o, r);' % (V, ', '.join('a[%d]' % k for k in range(L))), kind='fill', dct=ct, lab='component',
                               exp=flat_exp(L, [('v', 0, sct, list(range(L)))]), descr='vec<%d,float,%s>(%d x %s)' % (L, Q, L, sct))
                        u.addm('q%d_%s_%s_vec_%s' % (L, TAG[ct], QTAG[Q], TAG[sct]), [(sct, L)], [(ct, L)], '%s r(ldv<%d,%s,glm::%s>(a)); stv(o, r);' % (V, L, CT_GLM[sct], Q), kind='fill', dct=ct, lab='component',
                               exp=flat_exp(L, [('v', 0, sct, list(range(L)))]), descr='vec<%d,float,%s>(vec<%d,%s,%s> const&)' % (L, Q, L, sct, Q))
    return us

# ----------------------------------------------------------------------------- matrix and quaternion constructors (signatures per type_matCxR.hpp / type_quat.hpp)
SHAPES = [(c, r) for c in (2, 3, 4) for r in (2, 3, 4)]
def mat_ctor_units(tier, dsts, srcs, shapes=SHAPES, Q='defaultp', cfg_name='', defines=(), cflags=(), per_unit=300):
    us = []; cur = [None]
    def unit():
        if cur[0] is None or len(cur[0].order) >= per_unit:
            cur[0] = PUnit('c17_mctor%s_%02d' % (cfg_name, len(us)), includes=['glm/glm.hpp', 'glm/ext/matrix_int2x2.hpp'] + ['glm/ext/matrix_int%dx%d.hpp' % s for s in SHAPES] + ['glm/ext/matrix_uint%dx%d.hpp' % s for s in SHAPES], defines=list(defines), cflags=list(cflags))
            us.append(cur[0]); cur[0].skip_uninit = Q.startswith('aligned')
        return cur[0]
    q = 'glm::' + Q
    for (C, R) in shapes:
        N = C * R
        for dct in dsts:
            g = CT_GLM[dct]; M = 'glm::mat<%d,%d,%s,%s>' % (C, R, g, q); tg = 'm%d%d_%s' % (C, R, TAG[dct])
            unit().addm(tg + '_diag', [(dct, 1)], [(dct, N)], '%s m(a[0]); stm(o, m);' % M, kind='fill', dct=dct, lab='entry', descr='mat%dx%d<%s>(scalar)' % (C, R, dct),
                        exp=lambda i, C=C, R=R, dct=dct: [('c', dct, i[0][0]) if c == r else ('k', 0) for c in range(C) for r in range(R)])
            unit().addm(tg + '_scal', [(dct, N)], [(dct, N)], '%s m(%s); stm(o, m);' % (M, ', '.join('a[%d]' % k for k in range(N))), kind='fill', dct=dct, lab='entry',
                        descr='mat%dx%d<%s>(%d scalars)' % (C, R, dct, N), exp=lambda i, N=N, dct=dct: [('c', dct, i[0][k]) for k in range(N)])
            unit().addm(tg + '_cols', [(dct, N)], [(dct, N)], '%s m(%s); stm(o, m);' % (M, ', '.join('ldv<%d,%s,%s>(a+%d)' % (R, g, q, c * R) for c in range(C))), kind='fill', dct=dct, lab='entry',
                        descr='mat%dx%d<%s>(%d columns)' % (C, R, dct, C), exp=lambda i, N=N, dct=dct: [('c', dct, i[0][k]) for k in range(N)])
            for j in range(len(srcs)):
                win = [srcs[(j + t) % len(srcs)] for t in range(min(4, len(srcs)))]; win = list(dict.fromkeys(win))
                tys = [win[k % len(win)] for k in range(N)]
                ins = [(ct, tys.count(ct)) for ct in win]; pos = {ct: 0 for ct in win}; argx = []; refs = []
                for k in range(N):
                    ct = tys[k]; ai = win.index(ct); argx.append('%s[%d]' % ('abcdefgh'[ai], pos[ct])); refs.append((ct, ai, pos[ct])); pos[ct] += 1
                unit().addm('%s_scalx%d' % (tg, j), ins, [(dct, N)], '%s m(%s); stm(o, m);' % (M, ', '.join(argx)), kind='fill', dct=dct, lab='entry',
                            descr='mat%dx%d<%s>(%s)' % (C, R, dct, ','.join(tys)), exp=lambda i, refs=refs: [('c', ct, i[ai][p]) for ct, ai, p in refs])
                ctys = [srcs[(j + c) % len(srcs)] for c in range(C)]
                unit().addm('%s_colx%d' % (tg, j), [(ct, R) for ct in ctys], [(dct, N)],
                            '%s m(%s); stm(o, m);' % (M, ', '.join('ldv<%d,%s,%s>(%s)' % (R, CT_GLM[ctys[c]], q, 'abcdefgh'[c]) for c in range(C))), kind='fill', dct=dct, lab='entry',
                            descr='mat%dx%d<%s>(columns of %s)' % (C, R, dct, ','.join(ctys)), exp=lambda i, ctys=ctys, C=C, R=R: [('c', ctys[c], i[c][r]) for c in range(C) for r in range(R)])
                sct = srcs[j]; P = QUALS[j % 3] if Q == 'defaultp' else Q
                unit().addm('%s_from_%s' % (tg, TAG[sct]), [(sct, N)], [(dct, N)], '%s m(ldm<%d,%d,%s,glm::%s>(a)); stm(o, m);' % (M, C, R, CT_GLM[sct], P), kind='fill', dct=dct, lab='entry',
                            descr='mat%dx%d<%s,%s>(mat%dx%d<%s,%s>)' % (C, R, dct, Q, C, R, sct, P), exp=lambda i, sct=sct, N=N: [('c', sct, i[0][k]) for k in range(N)])
            for (C2, R2) in SHAPES:
                unit().addm('%s_shape%d%d' % (tg, C2, R2), [(dct, C2 * R2)], [(dct, N)], '%s m(ldm<%d,%d,%s,%s>(a)); stm(o, m);' % (M, C2, R2, g, q), kind='fill', dct=dct, lab='entry',
                            descr='mat%dx%d<%s>(mat%dx%d) - identity padding' % (C, R, dct, C2, R2),
                            exp=lambda i, C=C, R=R, C2=C2, R2=R2, dct=dct: [('c', dct, i[0][c * R2 + r]) if (c < C2 and r < R2) else ('k', 1 if c == r else 0) for c in range(C) for r in range(R)])
    return us

def qua_ctor_unit(tier, dsts, srcs, Q='defaultp', cfg_name='', defines=(), cflags=()):
    u = PUnit('c17_qctor' + cfg_name, includes=['glm/glm.hpp', 'glm/gtc/quaternion.hpp'], defines=list(defines), cflags=list(cflags)); q = 'glm::' + Q; u.skip_uninit = Q.startswith('aligned')
    for dct in dsts:
        g = CT_GLM[dct]; QT = 'glm::qua<%s,%s>' % (g, q); tg = 'q_' + TAG[dct]
        wxyz = lambda i, dct=dct: [('c', dct, i[0][k]) for k in range(4)]
        u.addm(tg + '_wxyz_ctor', [(dct, 4)], [(dct, 4)], '%s r(a[0], a[1], a[2], a[3]); stq(o, r);' % QT, kind='fill', dct=dct, lab='wxyz', descr='qua<%s>(w, x, y, z)' % dct, exp=wxyz)
        u.addm(tg + '_wxyz_static', [(dct, 4)], [(dct, 4)], 'stq(o, %s::wxyz(a[0], a[1], a[2], a[3]));' % QT, kind='fill', dct=dct, lab='wxyz', descr='qua<%s>::wxyz(w, x, y, z)' % dct, exp=wxyz)
        u.addm(tg + '_s_vec3', [(dct, 1), (dct, 3)], [(dct, 4)], '%s r(a[0], ldv<3,%s,%s>(b)); stq(o, r);' % (QT, g, q), kind='fill', dct=dct, lab='wxyz', descr='qua<%s>(s, vec3)' % dct,
               exp=lambda i, dct=dct: [('c', dct, i[0][0])] + [('c', dct, i[1][k]) for k in range(3)])
        u.addm(tg + '_copy', [(dct, 4)], [(dct, 4)], '%s s = ldq<%s,%s>(a); %s r(s); stq(o, r);' % (QT, g, q, QT), kind='fill', dct=dct, lab='wxyz', descr='qua<%s>(qua const&)' % dct, exp=wxyz)
        for j, P in enumerate(QUALS if Q == 'defaultp' else (Q, 'packed_highp')):
            u.addm('%s_qual%d' % (tg, j), [(dct, 4)], [(dct, 4)], '%s r(ldq<%s,glm::%s>(a)); stq(o, r);' % (QT, g, P), kind='fill', dct=dct, lab='wxyz', descr='qua<%s,%s>(qua<%s,%s>)' % (dct, Q, dct, P), exp=wxyz)
        for sct in srcs:
            if sct == dct: continue
            u.addm('%s_from_%s' % (tg, TAG[sct]), [(sct, 4)], [(dct, 4)], '%s r(ldq<%s,%s>(a)); stq(o, r);' % (QT, CT_GLM[sct], q), kind='fill', dct=dct, lab='wxyz', descr='qua<%s>(qua<%s>)' % (dct, sct),
                   exp=lambda i, sct=sct: [('c', sct, i[0][k]) for k in range(4)])
    return u

def chunks(xs, n):
    xs = list(xs); return [xs[i:i + n] for i in range(0, len(xs), n)]

# ----------------------------------------------------------------------------- unit/job tables
_UNITS = {}
def build(tier):
    if tier in _UNITS: return _UNITS[tier]
    q = tier == 'quick'; us = []
    # (a) member-function form
    for ct in (('float',) if q else ('float', 'int', 'uint8_t', 'double')): us.append(sw_unit('func', ct))
    # (b) operator form: packed operands (generic _swizzle_base1) and aligned operands (SIMD _mm_shuffle specialisations)
    for ct in (('float',) if q else ('float', 'int', 'uint8_t', 'double')): us.append(sw_unit('op', ct, writable=True))
    for ct in (('float',) if q else ('float', 'int', 'unsigned')):
        full = not q and ct != 'unsigned'      # aligned uint: every 2-letter swizzle is rejected (known finding); fewer aliases keep the pruning rounds short
        us.append(sw_unit('op', ct, Q='aligned_highp', Ls=(3, 4) if q else (2, 3, 4), sets=SETS if full else ('xyzw',), writable=full))
    if q: us.append(sw_unit('opavx', 'float', Q='aligned_highp', Ls=(3, 4), sets=('xyzw',)))      # instruction-set specific shuffle / broadcast specialisations of the SIMD read path
    # (c) free functions
    for ct in (('float', 'int') if q else ('float', 'int', 'uint8_t', 'double', 'bool')): us.append(sw_unit('free', ct))
    if not q:
        us.append(sw_unit('funcxyzw', 'float')); us.append(sw_unit('opms', 'float', writable=True)); us.append(sw_unit('opms', 'int', writable=True))
        us.append(sw_unit('opavx', 'float', Q='aligned_highp', writable=True)); us.append(sw_unit('opavx', 'int', Q='aligned_highp'))
    # constructors
    if q:
        D = ['float', 'int']; Sx = ['float', 'int', 'uint8_t', 'bool', 'double']
        us += vec_ctor_units(tier, D, Sx)
        us += mat_ctor_units(tier, ['float'], ['double', 'int'], shapes=SHAPES)
        us.append(qua_ctor_unit(tier, ['float', 'double'], ['float', 'double', 'int']))
        us.append(qua_ctor_unit(tier, ['float', 'double'], ['float', 'double'], cfg_name='_wxyz', defines=['GLM_FORCE_QUAT_DATA_WXYZ']))      # the constructors have a separate member-init list per memory order
        us += simd_ctor_units('_sse2', ['-msse2']) + simd_ctor_units('_avx2', ['-mavx2'])
    else:
        for nm, fl in (('_sse2', ['-msse2']), ('_sse42', ['-msse4.2']), ('_avx', ['-mavx']), ('_avx2', ['-mavx2'])): us += simd_ctor_units(nm, fl)
        D = ['float', 'double', 'int', 'unsigned', 'int8_t', 'uint16_t', 'int64_t', 'bool']; Sx = D + ['uint8_t']
        us += vec_ctor_units(tier, D, Sx)
        us += vec_ctor_units(tier, ['float', 'int', 'unsigned', 'double'], ['float', 'int', 'unsigned', 'double', 'uint8_t'], quals_dst=('aligned_highp',), cfg_name='_simd', defines=['GLM_FORCE_INTRINSICS'],
                             cflags=['-msse2'], palt=('aligned_highp', 'packed_highp', 'aligned_mediump'))
        us += vec_ctor_units(tier, ['float', 'int', 'double'], ['float', 'int', 'unsigned', 'double'], quals_dst=('aligned_highp',), cfg_name='_avx2', defines=['GLM_FORCE_INTRINSICS'],
                             cflags=['-mavx2'], palt=('aligned_highp', 'packed_highp', 'aligned_lowp'))
        us += mat_ctor_units(tier, ['float', 'double', 'int'], ['float', 'double', 'int', 'unsigned', 'int8_t', 'bool'])
        us += mat_ctor_units(tier, ['float'], ['double', 'int'], Q='aligned_highp', cfg_name='_simd', defines=['GLM_FORCE_INTRINSICS'], cflags=['-msse2'])
        us.append(qua_ctor_unit(tier, ['float', 'double'], ['float', 'double', 'int']))
        us.append(qua_ctor_unit(tier, ['float', 'double'], ['float', 'double'], cfg_name='_wxyz', defines=['GLM_FORCE_QUAT_DATA_WXYZ']))
        us.append(qua_ctor_unit(tier, ['float', 'double'], ['float', 'double'], Q='aligned_highp', cfg_name='_simd', defines=['GLM_FORCE_INTRINSICS'], cflags=['-msse2']))
    flt = os.environ.get('C17_UNITS')
    if flt: us = [u for u in us if re.search(flt, u.name)]
    _UNITS[tier] = us
    return us

def units(tier):
    us = build(tier)
    from concurrent.futures import ThreadPoolExecutor
    with ThreadPoolExecutor(max_workers=int(os.environ.get('VERIF_JOBS', '14'))) as tp:
        list(tp.map(lambda u: u.prepare(), us))
    return us

CHECK = {'read': sw_check, 'write': sw_check, 'alias': sw_check, 'copy': sw_check, 'fill': fill_check}
def jobs(tier):
    J = []
    for u in build(tier):
        for ci, ch in enumerate(chunks(u.order, 130 if u.name.startswith('c17_op') else 260 if u.name.startswith(('c17_func', 'c17_free')) else 110)):
            def run(S, u=u, ch=ch):
                for k, fname in enumerate(ch):
                    if k % 40 == 0: u.meta[fname]['twin'] = True
                    CHECK[u.meta[fname]['kind']](S, u, fname)
                resolve_oob(S)
            J.append(('%s_%02d' % (u.name[4:], ci), run))
    return J
JOB_CAP = {'quick': 900, 'thorough': 3600}
