"""C19 - colour-space conversions are mutually inverse and range-preserving (gtc/color_space.inl, gtx/color_space.inl, gtx/color_space_YCoCg.inl)."""
import re as _re, struct as _struct
from fractions import Fraction
from props.common import *
LEVEL = 'proof'
CLAIM = ("rgb2YCoCgR/YCoCgR2rgb (int8..int64, uint8..uint64): executed bit-precisely from their clang IR with fully symbolic r,g,b; the solver shows YCoCgR2rgb(rgb2YCoCgR(c)) == c and rgb2YCoCgR(YCoCgR2rgb(y)) == y "
         "(composed wrapper and the two separately compiled halves chained), that the forward/inverse transforms are the Malvar-Sullivan lifting steps over the integers (Co = R-B, t = B+floor(Co/2), Cg = G-t, Y = t+floor(Cg/2) = "
         "floor((R+2G+B)/4)) and that N-bit colours need N luma and N+1 chroma bits. Rounding-erased (real arithmetic, float and double instantiations): rgb2YCoCg/YCoCg2rgb and the float rgb2YCoCgR/YCoCgR2rgb are the documented "
         "linear maps and mutually inverse in both orders; saturation(s) is s*I + (1-s)*(w w w)^T with the Rec.709 weights (all 16 entries), saturation(s,c) = lerp(luma(c), c, s) with alpha untouched, identity at s = 1, grey at s = 0, "
         "grey levels preserved for every s; luminosity is the dot product with the weights documented in gtx/color_space.hpp (read from the header); hsvColor: value = max, saturation = (max-min)/max in [0,1], hue in [0,360) and equal "
         "to the textbook hue; rgbColor equals the textbook sector formula, stays in the cube, max = v, min = v(1-s); rgbColor(hsvColor(c)) == c on the cube and hsvColor(rgbColor(hsv)) == hsv (value and saturation exactly, hue on the "
         "circle), floor(h/60) carried exactly per sector. Bit-precise: 0 <= hue < 360 and saturation in [0,1] for all float colours of the cube, grey levels survive rgbColor(hsvColor()) bit for bit. sRGB (convertLinearToSRGB / "
         "convertSRGBToLinear, standard and explicit-Gamma overloads, vec1-4, float/double, highp/mediump/lowp; pow an uninterpreted function constrained by true facts): the documented piecewise curve (constants, threshold side, pow base "
         "and exponent), 0 -> 0, 1 -> 1, [0,1] -> [0,1], monotone on each piece and across the junction, each piece inverted by the matching piece of the other function, alpha untouched (also bit for bit in IEEE mode); the sqrt-based "
         "lowp specialisation: fixed points, range, monotonicity.")
BOUNDS = ("integers: all 2^(3W) triples for unsigned types and int8/int16 (arithmetic modulo 2^W), int32/int64: all non-negative triples (colour depth W-1) or all triples in [-2^(W-2), 2^(W-2)) (no signed overflow); reals: all real "
          "arguments (linear maps, saturation), colours of the cube [0,1]^3, hue in [0,360), s,v in (epsilon,1] for hsvColor(rgbColor()); tolerances 2^-21 (float) / 2^-50 (double) absorb the rounded constant 1/60 and the "
          "epsilon comparisons of gtx/color_space.inl; hue round trip: circular distance * s * v <= 2^-15 (s v + 1) (float); sRGB: components in [0,1], Gamma in [1,3]; linear pieces invert to relative 2^-22 / 2^-51, power pieces to "
          "relative 2.3e-7 (float) / 1.3e-16 (double) for the explicit-Gamma pair resp. 9.3e-5 for the standard pair (whose exponents multiply to 0.41666 * 2.4 = 0.999984); bit-precise HSV obligations: all float bit patterns of the cube (double: thorough tier, optional)")
OUTSIDE = ("numerical accuracy of pow/sqrt and of every float operation in the real-mode obligations (rounding-erased semantics); the value of the sRGB curves exactly at the junction point (the standard selects the linear piece at "
           "0.0031308, glm the power piece) and the size of the junction discontinuity; inverse of a power piece that lands on the other function's linear piece (sRGB values in (0.0404499, 0.04045], 6e-8 wide); Gamma outside [1,3]; accuracy of the lowp "
           "sqrt approximation against the exact curve; colours outside [0,1]; hue of grey colours (0/0 = NaN by design of hsvColor); signed overflow of int32/int64 YCoCg-R for negative/huge components (C20); hsvColor(rgbColor()) "
           "for saturation or value <= epsilon (treated as grey/black by the code)")
ASSUMPTIONS = ['real mode erases rounding: every fadd/fsub/fmul/fdiv is exact, sqrt is the non-negative real root, floor is the integer part (engine/models.py:rcall); decimal literals denote their exact float/double values',
               'pow(b,e) is an uninterpreted real function constrained only by: b>=0,e>0 -> pow>=0; b>0 -> pow>0; pow(0,e>0)=0; pow(1,e)=1; pow(b,1)=b; 0<=b<=1,e>0 -> pow<=1; b>=1,e>0 -> pow>=1; strictly increasing in b for e>0; '
               'b^3 <= pow(b,e) <= b for 0<b<=1, 1<=e<=3 (reversed for b>=1); (pow(x,e1)*K)^e2 = x^(e1 e2) * K^e2; x^1 = x; x <= x^E <= x*b0^(E0-1) for b0<=x<=1, E0<=E<=1; and anchor enclosures of pow at the junction '
               '(0.0031308^e0 resp. 0.0904739^e0, mpmath interval arithmetic, 60 digits) propagated by monotonicity in base and exponent',
               'the luminance weights of saturation() are the ITU-R BT.709 coefficients (0.2126, 0.7152, 0.0722) (the header documents none); those of luminosity() are read from the comment in gtx/color_space.hpp',
               'YCoCg-R lifting steps as published by Malvar & Sullivan (the reference cited in gtx/color_space_YCoCg.hpp); the sRGB curve as in IEC 61966-2-1 / the W3C page cited in gtc/color_space.hpp',
               'cvc5 decides the bit-precise hue bounds (z3 needs 4-6x longer); urem-free integer kernels with floor identities go to cvc5 --solve-bv-as-int=sum']
FT = {'f32': ('float', 32), 'f64': ('double', 64)}
ITY = ['i8', 'u8', 'i16', 'u16', 'i32', 'u32', 'i64', 'u64']
U = Unit('c19', includes=['glm/glm.hpp', 'glm/gtc/color_space.hpp', 'glm/gtx/color_space.hpp', 'glm/gtx/color_space_YCoCg.hpp'])

# ------------------------------------------------------------------ wrappers
for t in ITY:
    c = ITYPES[t]; V = 'ldv<3,%s>(a)' % c
    U.add('yr_fwd_' + t, [(c, 3)], [(c, 3)], 'stv(o, glm::rgb2YCoCgR(%s));' % V)
    U.add('yr_inv_' + t, [(c, 3)], [(c, 3)], 'stv(o, glm::YCoCgR2rgb(%s));' % V)
    U.add('yr_rt_' + t, [(c, 3)], [(c, 3)], 'stv(o, glm::YCoCgR2rgb(glm::rgb2YCoCgR(%s)));' % V)
    U.add('yr_rt2_' + t, [(c, 3)], [(c, 3)], 'stv(o, glm::rgb2YCoCgR(glm::YCoCgR2rgb(%s)));' % V)
for t, (c, w) in FT.items():
    V = 'ldv<3,%s>(a)' % c
    for nm, f, g in (('yc', 'rgb2YCoCg', 'YCoCg2rgb'), ('ycr', 'rgb2YCoCgR', 'YCoCgR2rgb')):
        U.add('%s_fwd_%s' % (nm, t), [(c, 3)], [(c, 3)], 'stv(o, glm::%s(%s));' % (f, V))
        U.add('%s_inv_%s' % (nm, t), [(c, 3)], [(c, 3)], 'stv(o, glm::%s(%s));' % (g, V))
        U.add('%s_rt_%s' % (nm, t), [(c, 3)], [(c, 3)], 'stv(o, glm::%s(glm::%s(%s)));' % (g, f, V))
        U.add('%s_rt2_%s' % (nm, t), [(c, 3)], [(c, 3)], 'stv(o, glm::%s(glm::%s(%s)));' % (f, g, V))
    U.add('sat_mat_' + t, [(c, 1)], [(c, 16)], 'stm(o, glm::saturation(a[0]));')
    U.add('sat3_' + t, [(c, 1), (c, 3)], [(c, 3)], 'stv(o, glm::saturation(a[0], ldv<3,%s>(b)));' % c)
    U.add('sat4_' + t, [(c, 1), (c, 4)], [(c, 4)], 'stv(o, glm::saturation(a[0], ldv<4,%s>(b)));' % c)
    U.add('lum_' + t, [(c, 3)], [(c, 1)], 'o[0] = glm::luminosity(%s);' % V)
    U.add('hsv_' + t, [(c, 3)], [(c, 3)], 'stv(o, glm::hsvColor(%s));' % V)
    U.add('rgb_' + t, [(c, 3)], [(c, 3)], 'stv(o, glm::rgbColor(%s));' % V)
    U.add('hsv_rt_' + t, [(c, 3)], [(c, 3), (c, 3)], 'glm::vec<3,%s> h = glm::hsvColor(%s); stv(o2, h); stv(o, glm::rgbColor(h));' % (c, V))
    U.add('rgb_rt_' + t, [(c, 3)], [(c, 3), (c, 3)], 'glm::vec<3,%s> h = glm::rgbColor(%s); stv(o2, h); stv(o, glm::hsvColor(h));' % (c, V))
    for L in (1, 2, 3, 4):
        VL = 'ldv<%d,%s>(a)' % (L, c)
        U.add('l2s_v%d_%s' % (L, t), [(c, L)], [(c, L)], 'stv(o, glm::convertLinearToSRGB(%s));' % VL)
        U.add('l2sg_v%d_%s' % (L, t), [(c, L), (c, 1)], [(c, L)], 'stv(o, glm::convertLinearToSRGB(%s, b[0]));' % VL)
        U.add('s2l_v%d_%s' % (L, t), [(c, L)], [(c, L)], 'stv(o, glm::convertSRGBToLinear(%s));' % VL)
        U.add('s2lg_v%d_%s' % (L, t), [(c, L), (c, 1)], [(c, L)], 'stv(o, glm::convertSRGBToLinear(%s, b[0]));' % VL)
        if L >= 3:
            VT = 'glm::vec<%d,%s>' % (L, c)
            U.add('sl_v%d_%s' % (L, t), [(c, L)], [(c, L), (c, L)], '%s m = glm::convertLinearToSRGB(%s); stv(o2, m); stv(o, glm::convertSRGBToLinear(m));' % (VT, VL))
            U.add('slg_v%d_%s' % (L, t), [(c, L), (c, 1)], [(c, L), (c, L)], '%s m = glm::convertLinearToSRGB(%s, b[0]); stv(o2, m); stv(o, glm::convertSRGBToLinear(m, b[0]));' % (VT, VL))
            U.add('ls_v%d_%s' % (L, t), [(c, L)], [(c, L), (c, L)], '%s m = glm::convertSRGBToLinear(%s); stv(o2, m); stv(o, glm::convertLinearToSRGB(m));' % (VT, VL))
            U.add('lsg_v%d_%s' % (L, t), [(c, L), (c, 1)], [(c, L), (c, L)], '%s m = glm::convertSRGBToLinear(%s, b[0]); stv(o2, m); stv(o, glm::convertLinearToSRGB(m, b[0]));' % (VT, VL))
    for q in ('mediump', 'lowp'):
        VQ = 'ldv<3,%s,glm::%s>(a)' % (c, q)
        U.add('l2s_%s_v3_%s' % (q, t), [(c, 3)], [(c, 3)], 'stv(o, glm::convertLinearToSRGB(%s));' % VQ)
        U.add('l2sg_%s_v3_%s' % (q, t), [(c, 3), (c, 1)], [(c, 3)], 'stv(o, glm::convertLinearToSRGB(%s, b[0]));' % VQ)
        U.add('s2l_%s_v3_%s' % (q, t), [(c, 3)], [(c, 3)], 'stv(o, glm::convertSRGBToLinear(%s));' % VQ)
        U.add('s2lg_%s_v3_%s' % (q, t), [(c, 3), (c, 1)], [(c, 3)], 'stv(o, glm::convertSRGBToLinear(%s, b[0]));' % VQ)
def units(tier): return [U]

# ------------------------------------------------------------------ specification helpers
def fconst(x, w):
    """exact rational value of the decimal literal x after conversion to float (w = 32) / double (w = 64)"""
    d = float(x)
    if w == 32: d = _struct.unpack('<f', _struct.pack('<f', d))[0]
    return Fraction(d)
def RQ(fr): return z3.RealVal(str(Fraction(fr)))
def R(o): return [v.r if isinstance(v, RV) else v for v in o]
def rabs(x): return z3.If(x >= 0, x, -x)

# ------------------------------------------------------------------ integer YCoCg-R (bit-precise)
def job_ycocgr_int(t):
    c = ITYPES[t]; W = width(t); sg = is_signed(t); X = W + 4
    ext = (lambda v: sx(v, X)) if sg else (lambda v: zx(v, X))
    fdiv2 = lambda v: v >> 1                   # arithmetic shift on the widened two's-complement value = floor(v / 2)
    def fits(v):                               # widened value representable in T
        return z3.And(v >= -(1 << (W - 1)), v <= (1 << (W - 1)) - 1) if sg else z3.And(v >= 0, v <= (1 << W) - 1)
    def lifting(r, g, b):
        """YCoCg-R forward lifting steps (Malvar & Sullivan): Co = R - B; t = B + floor(Co/2); Cg = G - t; Y = t + floor(Cg/2), over the integers"""
        co = r - b; tt = b + fdiv2(co); cg = g - tt; y = tt + fdiv2(cg)
        return y, co, cg, tt
    def unlifting(y, co, cg):
        tt = y - fdiv2(cg); g = cg + tt; b = tt - fdiv2(co); r = b + co
        return r, g, b, tt
    def run(S):
        # domain on which C++ gives the operations a value: unsigned types wrap modulo 2^W; int8/int16 are promoted to int and converted back (modular);
        # int32/int64 must not overflow: every non-negative triple (colour depth W-1), or every triple in [-2^(W-2), 2^(W-2))
        sdom = lambda i: [z3.Or(z3.And(*[x >= 0 for x in i[0]]), z3.And(*[z3.And(x >= -(1 << (W - 2)), x < (1 << (W - 2))) for x in i[0]]))]
        sdom_inv = lambda i: [z3.And(x > -(1 << (W - 3)), x < (1 << (W - 3))) for x in i[0]]
        if sg and W >= 32:
            dom = sdom; dom_inv = sdom_inv
            dtxt = 'all r,g,b >= 0 (colour depth %d) or all in [-2^%d, 2^%d): no signed overflow' % (W - 1, W - 2, W - 2); itxt = '|Y|,|Co|,|Cg| < 2^%d (no signed overflow)' % (W - 3)
        else:
            dom = dom_inv = lambda i: []
            dtxt = itxt = 'all 2^%d triples of %s (arithmetic modulo 2^%d)' % (3 * W, c, W)
        ident = lambda i, o: [('%s' % 'rgb'[k], o[0][k] == i[0][k]) for k in range(3)]
        S.check_fn(U, 'yr_rt_' + t, ident, dom, bounds='YCoCgR2rgb(rgb2YCoCgR(c)) == c; ' + dtxt, mutant=lambda i, o: [('m', o[0][0] == i[0][2])])
        S.check_fn(U, 'yr_rt2_' + t, lambda i, o: [('%s' % ('Y', 'Co', 'Cg')[k], o[0][k] == i[0][k]) for k in range(3)], dom_inv, bounds='rgb2YCoCgR(YCoCgR2rgb(y)) == y; ' + itxt,
                   mutant=lambda i, o: [('m', o[0][1] == i[0][2])])
        # the two separately compiled halves chained at the term level (the compiler cannot cancel the lifting steps against each other here)
        r1 = sym_call(U, 'yr_fwd_' + t); r2 = sym_call(U, 'yr_inv_' + t, ins=[r1.outs[0]])
        for k in range(3):
            S.prove('c19.yr_inv_%s(yr_fwd_%s).%s' % (t, t, 'rgb'[k]), r2.outs[0][k] == r1.ins[0][k], dom(r1.ins) + r1.axioms + r2.axioms, timeout=S.cap(60, 180), functions=['w_yr_fwd_' + t, 'w_yr_inv_' + t],
                    bounds='separately compiled halves chained; ' + dtxt, vars_=r1.ins[0])
        r3 = sym_call(U, 'yr_inv_' + t); r4 = sym_call(U, 'yr_fwd_' + t, ins=[r3.outs[0]])
        for k in range(3):
            S.prove('c19.yr_fwd_%s(yr_inv_%s).%s' % (t, t, ('Y', 'Co', 'Cg')[k]), r4.outs[0][k] == r3.ins[0][k], dom_inv(r3.ins) + r3.axioms + r4.axioms, timeout=S.cap(60, 180), functions=['w_yr_fwd_' + t, 'w_yr_inv_' + t],
                    bounds='separately compiled halves chained; ' + itxt, vars_=r3.ins[0])
        # the forward transform is the documented lifting over the integers wherever its values are representable in T
        def fwd_pre(i):
            if sg: return sdom(i)
            r, g, b = [ext(x) for x in i[0]]; y, co, cg, tt = lifting(r, g, b)
            return [co >= 0, cg >= 0]
        def fwd_spec(i, o):
            r, g, b = [ext(x) for x in i[0]]; y, co, cg, tt = lifting(r, g, b)
            return [('Co', ext(o[0][1]) == co), ('Cg', ext(o[0][2]) == cg), ('Y', ext(o[0][0]) == y)]
        def luma_spec(i, o):
            r, g, b = [ext(x) for x in i[0]]
            return [('Y=floor((R+2G+B)/4)', ext(o[0][0]) == ((r + 2 * g + b) >> 2))]
        S.check_fn(U, 'yr_fwd_' + t, fwd_spec, fwd_pre, solver='portfolio', timeout=S.cap(120, 400), bounds='all triples whose lifting steps Co=R-B, t=B+floor(Co/2), Cg=G-t, Y=t+floor(Cg/2) are representable in %s%s' % (c, '' if sg else ' (i.e. R >= B and G >= t)'),
                   mutant=lambda i, o: [('m', ext(o[0][0]) == ((ext(i[0][0]) + 2 * ext(i[0][1]) + ext(i[0][2]) + 1) >> 2))])
        S.check_fn(U, 'yr_fwd_' + t, luma_spec, fwd_pre, name='c19.yr_fwd_%s.luma' % t, side=False, witness=False, solver='portfolio', timeout=S.cap(120, 400), bounds='same domain; luma is the floor of the (1,2,1)/4 average')
        def inv_pre(i):
            if sg: return sdom_inv(i)
            y, co, cg = [ext(x) for x in i[0]]; r, g, b, tt = unlifting(y, co, cg)
            return [fits(tt), fits(g), fits(b), fits(r)]
        def inv_spec(i, o):
            y, co, cg = [ext(x) for x in i[0]]; r, g, b, tt = unlifting(y, co, cg)
            return [('R', ext(o[0][0]) == r), ('G', ext(o[0][1]) == g), ('B', ext(o[0][2]) == b)]
        S.check_fn(U, 'yr_inv_' + t, inv_spec, inv_pre, solver='portfolio', timeout=S.cap(120, 400), bounds='all (Y,Co,Cg) whose inverse lifting steps are representable in ' + c)
        if sg:
            # low dynamic range: N-bit colours need N bits of luma and N+1 bits of chroma
            N = W - 2
            def rng(i, o):
                y, co, cg = o[0]
                return [('Y-in-[0,2^N)', z3.And(y >= 0, y < (1 << N))), ('Co-in-(-2^N,2^N)', z3.And(co > -(1 << N), co < (1 << N))), ('Cg-in-(-2^N,2^N)', z3.And(cg > -(1 << N), cg < (1 << N)))]
            S.check_fn(U, 'yr_fwd_' + t, rng, lambda i: [z3.And(x >= 0, x < (1 << N)) for x in i[0]], name='c19.yr_fwd_%s.range' % t, side=False, bounds='r,g,b in [0, 2^%d)' % N)
    return run

# ------------------------------------------------------------------ float YCoCg / YCoCg-R (rounding-erased)
def job_ycocg_float(t):
    def run(S):
        tm = S.cap(60, 200)
        def fwd(i, o):
            r, g, b = i[0]; y, co, cg = R(o[0])
            return [('Y', REq(y, r / 4 + g / 2 + b / 4)), ('Co', REq(co, r / 2 - b / 2)), ('Cg', REq(cg, -r / 4 + g / 2 - b / 4))]
        def inv(i, o):
            y, co, cg = i[0]; r, g, b = R(o[0])
            return [('R', REq(r, y + co - cg)), ('G', REq(g, y + cg)), ('B', REq(b, y - co - cg))]
        def fwdr(i, o):
            r, g, b = i[0]; y, co, cg = R(o[0])
            return [('Co', REq(co, r - b)), ('Cg', REq(cg, g - (r + b) / 2)), ('Y', REq(y, g / 2 + (r + b) / 4))]
        def invr(i, o):
            y, co, cg = i[0]; r, g, b = R(o[0])
            return [('G', REq(g, y + cg / 2)), ('B', REq(b, y - cg / 2 - co / 2)), ('R', REq(r, y - cg / 2 + co / 2))]
        ident = lambda i, o: [('c%d' % k, REq(R(o[0])[k], i[0][k])) for k in range(3)]
        S.check_fn(U, 'yc_fwd_' + t, fwd, mode='real', timeout=tm, bounds='all real r,g,b', mutant=lambda i, o: [('m', REq(R(o[0])[1], i[0][0] / 2 - i[0][1] / 2))])
        S.check_fn(U, 'yc_inv_' + t, inv, mode='real', timeout=tm, bounds='all real Y,Co,Cg', mutant=lambda i, o: [('m', REq(R(o[0])[0], i[0][0] - i[0][1] - i[0][2]))])
        S.check_fn(U, 'ycr_fwd_' + t, fwdr, mode='real', timeout=tm, bounds='all real r,g,b', mutant=lambda i, o: [('m', REq(R(o[0])[1], i[0][2] - i[0][0]))])
        S.check_fn(U, 'ycr_inv_' + t, invr, mode='real', timeout=tm, bounds='all real Y,Co,Cg', mutant=lambda i, o: [('m', REq(R(o[0])[1], i[0][0] - i[0][2]))])
        for nm in ('yc', 'ycr'):
            S.check_fn(U, '%s_rt_%s' % (nm, t), ident, mode='real', timeout=tm, bounds='inverse(forward(c)) == c, all real triples', mutant=lambda i, o: [('m', REq(R(o[0])[0], i[0][2]))])
            S.check_fn(U, '%s_rt2_%s' % (nm, t), ident, mode='real', timeout=tm, bounds='forward(inverse(y)) == y, all real triples', mutant=lambda i, o: [('m', REq(R(o[0])[0], i[0][2]))])
    return run

# ------------------------------------------------------------------ saturation / luminosity (rounding-erased)
_HPP = open(os.path.join(REPO, 'glm', 'gtx', 'color_space.hpp')).read()
_m = _re.search(r'luminosity associating ratios \(\s*([0-9.]+)\s*,\s*([0-9.]+)\s*,\s*([0-9.]+)\s*\)', _HPP)
LUM_DOC = tuple(_m.groups()) if _m else ('0.33', '0.59', '0.11')      # the weights documented in gtx/color_space.hpp
REC709 = ('0.2126', '0.7152', '0.0722')                                 # ITU-R BT.709 luma coefficients (saturation matrix)
def job_saturation(t):
    c, w = FT[t]
    def run(S):
        tm = S.cap(60, 200)
        wt = [RQ(fconst(x, w)) for x in REC709]; wsum = sum(fconst(x, w) for x in REC709)
        lw = [RQ(fconst(x, w)) for x in LUM_DOC]; lsum = sum(fconst(x, w) for x in LUM_DOC)
        tol = Fraction(1, 2 ** (22 if w == 32 else 51))
        def mat(i, o):
            s = i[0][0]; M = R(o[0]); g = []
            for cc in range(4):
                for rr in range(4):
                    if cc < 3 and rr < 3: e = (1 - s) * wt[cc] + (s if rr == cc else 0)
                    else: e = z3.RealVal(1 if rr == cc else 0)
                    g.append(('m[%d][%d]' % (cc, rr), REq(M[cc * 4 + rr], e)))
            return g
        S.check_fn(U, 'sat_mat_' + t, mat, mode='real', timeout=tm, bounds='all real s; entry [c][r] = (1-s)*w_c + s*[r==c], w = Rec.709 weights rounded to ' + c,
                   mutant=lambda i, o: [('m', REq(R(o[0])[1], (1 - i[0][0]) * wt[1]))])
        def lumi(cc): return wt[0] * cc[0] + wt[1] * cc[1] + wt[2] * cc[2]
        def sat(n):
            def spec(i, o):
                s = i[0][0]; cc = i[1]; r = R(o[0])
                g = [('lerp(luma,c)[%d]' % k, REq(r[k], (1 - s) * lumi(cc) + s * cc[k])) for k in range(3)]
                if n == 4: g.append(('alpha', REq(r[3], cc[3])))
                return g
            return spec
        S.check_fn(U, 'sat3_' + t, sat(3), mode='real', timeout=tm, bounds='all real s, colour', mutant=lambda i, o: [('m', REq(R(o[0])[0], (1 - i[0][0]) * lumi(i[1]) + i[0][0] * i[1][1]))])
        S.check_fn(U, 'sat4_' + t, sat(4), mode='real', timeout=tm, bounds='all real s, colour, alpha', mutant=lambda i, o: [('m', REq(R(o[0])[3], i[0][0] * i[1][3]))])
        # saturation(1, c) == c exactly; saturation(0, c) is the grey of c's luma; grey levels are preserved up to (sum of the rounded weights - 1)
        s_ = z3.Real('a0'); col = [z3.Real('b%d' % k) for k in range(4)]; y = z3.Real('b0')
        for n in (3, 4):
            S.check_fn(U, 'sat%d_%s' % (n, t), lambda i, o, n=n: [('c%d' % k, REq(R(o[0])[k], i[1][k])) for k in range(n)], mode='real', timeout=tm, ins=[[z3.RealVal(1)], col[:n]], name='c19.sat%d_%s.s=1' % (n, t),
                       bounds='s = 1: identity on every colour', side=False)
        S.check_fn(U, 'sat3_' + t, lambda i, o: [('grey%d' % k, REq(R(o[0])[k], lumi(i[1]))) for k in range(3)], mode='real', timeout=tm, ins=[[z3.RealVal(0)], col[:3]], name='c19.sat3_%s.s=0' % t,
                   bounds='s = 0: every component is the Rec.709 luma', side=False)
        S.prove('c19.rec709-weights-sum.' + t, z3.And(RQ(wsum) - 1 <= RQ(tol / 2), 1 - RQ(wsum) <= RQ(tol / 2)), timeout=10, kind='lemma', bounds='|sum of the rounded Rec.709 weights - 1| <= %s' % (tol / 2))
        for n in (3, 4):
            def grey(i, o, n=n):
                s = i[0][0]; yy = i[1][0]; r = R(o[0])
                return [('grey-level-preserved[%d]' % k, RGoal('le', rabs(r[k] - yy), RQ(tol) * rabs(1 - s) * rabs(yy))) for k in range(3)]
            S.check_fn(U, 'sat%d_%s' % (n, t), grey, mode='real', timeout=tm, ins=[[s_], [y, y, y] + col[3:n]], name='c19.sat%d_%s.grey' % (n, t), side=False,
                       bounds='all real s, grey level y: |out - y| <= %s*|1-s|*|y|' % tol, mutant=lambda i, o: [('m', REq(R(o[0])[0], i[0][0] * i[1][0]))])
        # luminosity: the documented weights, and grey levels
        S.check_fn(U, 'lum_' + t, lambda i, o: [('documented-weights', REq(R(o[0])[0], lw[0] * i[0][0] + lw[1] * i[0][1] + lw[2] * i[0][2]))], mode='real', timeout=tm,
                   bounds='all real colours; weights %s of the header comment, rounded to %s' % (LUM_DOC, c), mutant=lambda i, o: [('m', REq(R(o[0])[0], lw[0] * i[0][0] + lw[1] * i[0][1] + lw[0] * i[0][2]))])
        S.check_fn(U, 'lum_' + t, lambda i, o: [('grey-level-preserved', RGoal('le', rabs(R(o[0])[0] - i[0][0]), RQ(tol) * rabs(i[0][0])))], mode='real', timeout=tm, ins=[[y, y, y]], name='c19.lum_%s.grey' % t, side=False,
                   known=['KF-C19-luminosity-weights-sum'], bounds='all grey levels y: |luminosity(y,y,y) - y| <= %s*|y|' % tol)
    return run

# ------------------------------------------------------------------ HSV <-> RGB
def rmax3(c): return z3.If(c[0] >= c[1], z3.If(c[0] >= c[2], c[0], c[2]), z3.If(c[1] >= c[2], c[1], c[2]))
def rmin3(c): return z3.If(c[0] <= c[1], z3.If(c[0] <= c[2], c[0], c[2]), z3.If(c[1] <= c[2], c[1], c[2]))
def hsv2rgb_textbook(h, s, v):
    """HSV -> RGB as in Foley/van Dam: i = floor(h/60), f = h/60 - i, p = v(1-s), q = v(1-sf), t = v(1-s(1-f)); (v,t,p) (q,v,p) (p,v,t) (p,q,v) (t,p,v) (v,p,q) for i = 0..5"""
    out = None
    for k in range(5, -1, -1):
        f = h / 60 - k; p = v * (1 - s); q = v * (1 - s * f); tt = v * (1 - s * (1 - f))
        tri = [(v, tt, p), (q, v, p), (p, v, tt), (p, q, v), (tt, p, v), (v, p, q)][k]
        out = tri if out is None else tuple(z3.If(h < 60 * (k + 1), a_, b_) for a_, b_ in zip(tri, out))
    return out
def rgb2hue_textbook(c):
    """hue in degrees of a non-grey colour: 60*((g-b)/d mod 6) if max = r, 60*((b-r)/d + 2) if max = g, 60*((r-g)/d + 4) if max = b"""
    r, g, b = c; mx = rmax3(c); d = mx - rmin3(c)
    h6 = z3.If(mx == r, (g - b) / d, z3.If(mx == g, 2 + (b - r) / d, 4 + (r - g) / d))
    return 60 * z3.If(h6 < 0, h6 + 6, h6)
def _to_ints(t, acc, seen):
    if t.get_id() in seen: return
    seen.add(t.get_id())
    if z3.is_app(t):
        if t.decl().kind() == z3.Z3_OP_TO_INT: acc.append(t)
        for ch in t.children(): _to_ints(ch, acc, seen)
def check_by_sector(S, fname, spec, pre, sectors, *, name, bounds, timeout, mutant=None):
    """check_fn for rounding-erased code that takes floor() of ONE real quantity q (here hue/60): the executed term contains to_int(q); for every integer k of `sectors`
    the obligations are proved under k <= q < k+1 with to_int(q) replaced by k (exact), plus the covering obligation sectors[0] <= q < sectors[-1]+1.  Pure real arithmetic
    remains, which z3 decides in milliseconds where the mixed integer/real term takes minutes."""
    res = sym_call(U, fname, mode='real')
    hyps = list(pre(res.ins)) + res.axioms
    acc = []; seen = set()
    for row in res.outs:
        for v in row: _to_ints(v.r, acc, seen)
    for kind, cond, d in res.obligations: _to_ints(cond, acc, seen)
    def inner(t):          # to_int(to_real(to_int(q))) -> q
        a = t.arg(0)
        while z3.is_app(a) and a.decl().kind() == z3.Z3_OP_TO_REAL and z3.is_app(a.arg(0)) and a.arg(0).decl().kind() == z3.Z3_OP_TO_INT: a = a.arg(0).arg(0)
        return a
    q = inner(acc[0]) if acc else None
    for t in acc:
        if not z3.is_true(z3.simplify(inner(t) == q)) and not z3.eq(z3.simplify(inner(t) - q), z3.RealVal(0)):
            S.rec(name=name, kind='encode', result='unsupported', status='not-encoded', note='more than one floor argument', mandatory=True, functions=[fname]); S.inconclusive.append(name + ' [more than one floor argument]'); return None
    fnlist = ['w_%s -> %s' % (fname, U.fns[fname].body.strip()[:160])]; binfo = bounds + '; ll=' + U.ll_sha()
    allvars = [x for row in res.ins for x in row]
    S.prove(name + '.witness', z3.BoolVal(False), hyps, timeout=20, kind='witness', functions=fnlist, bounds=binfo, expect='sat', mandatory=False)
    if q is None: sectors = [None]
    else:
        S.prove(name + '.sectors-cover', z3.And(q >= sectors[0], q < sectors[-1] + 1), hyps, timeout=timeout, kind='spec', functions=fnlist, bounds=binfo + '; floor argument within sectors %d..%d' % (sectors[0], sectors[-1]),
                replay=S._replayer(res, None, pre, U, fname, 'real', name + '.sectors-cover', side_kind='domain'), vars_=allvars)
    for k in sectors:
        sub = [(t, z3.IntVal(k)) for t in acc] if k is not None else []
        hk = hyps + ([q >= k, q < k + 1] if k is not None else [])
        sb = (lambda x: z3.simplify(z3.substitute(x, *sub))) if sub else (lambda x: x)
        outs = [[RV(v.n, sb(v.r)) for v in row] for row in res.outs]
        tag = '%s.sector%d' % (name, k) if k is not None else name
        groups = {}
        for kind, cond, d in res.obligations: groups.setdefault((kind, d), []).append(sb(cond))
        for (kind, d), conds in groups.items():
            S.prove('%s.%s[%s]' % (tag, kind, d[:60]), z3.Not(z3.Or(*conds)) if len(conds) > 1 else z3.Not(conds[0]), hk, timeout=timeout, kind=kind, functions=fnlist, bounds=binfo,
                    replay=S._replayer(res, None, pre, U, fname, 'real', tag, side_kind=kind), vars_=allvars)
        for label, g in spec(res.ins, outs):
            S.prove('%s.%s' % (tag, label), goal_term(g), hk, timeout=timeout, kind='spec', functions=fnlist, bounds=binfo, replay=S._replayer(res, (spec, label), pre, U, fname, 'real', '%s.%s' % (tag, label)), vars_=allvars)
        if mutant is not None and not S.quick and k == sectors[len(sectors) // 2]:
            for label, g in mutant(res.ins, outs):
                S.prove('%s.twin.%s' % (tag, label), goal_term(g), hk, timeout=timeout, kind='mutant-twin', functions=fnlist, bounds=binfo, expect='sat', mandatory=False)
    return res
def job_hsv(t):
    c, w = FT[t]; E = 23 if w == 32 else 52
    eps = RQ(Fraction(1, 2 ** E)); tol = RQ(Fraction(1, 2 ** (E - 2))); k1 = RQ(Fraction(1, 2 ** (E - 8))); k2 = RQ(Fraction(1, 2 ** (E - 8)))
    def run(S):
        tm = S.cap(200, 600)
        cube = lambda i: [z3.And(x >= 0, x <= 1) for x in i[0]]
        nongrey = lambda i: cube(i) + [rmax3(i[0]) - rmin3(i[0]) > 0]
        def hsv_spec(i, o):
            h, s, v = R(o[0]); mx = rmax3(i[0]); mn = rmin3(i[0])
            return [('value==max', REq(v, mx)), ('saturation*max==max-min', RGoal('eq', s * mx, mx - mn, guard=mx > eps)), ('saturation==0-for-black', RGoal('eq', s, z3.RealVal(0), guard=mx <= eps)),
                    ('saturation>=0', RGoal('ge', s, z3.RealVal(0))), ('saturation<=1', RGoal('le', s, z3.RealVal(1))), ('hue>=0', RGoal('ge', h, z3.RealVal(0))), ('hue<360', RGoal('lt', h, z3.RealVal(360)))]
        S.check_fn(U, 'hsv_' + t, hsv_spec, nongrey, mode='real', timeout=tm, bounds='all non-grey colours of the cube [0,1]^3 (rounding-erased)',
                   mutant=lambda i, o: [('m', RGoal('lt', R(o[0])[0], z3.RealVal(300)))])
        # the textbook hue wherever the code's epsilon comparisons agree with exact comparisons (components equal to the maximum or more than epsilon below it)
        def sep(i):
            mx = rmax3(i[0]); return nongrey(i) + [mx > eps] + [z3.Or(x == mx, mx - x > eps) for x in i[0][:2]]
        S.check_fn(U, 'hsv_' + t, lambda i, o: [('hue==textbook', REq(R(o[0])[0], rgb2hue_textbook(i[0])))], sep, mode='real', timeout=tm, name='c19.hsv_%s.hue' % t, side=False,
                   bounds='non-grey colours of the cube whose r and g are equal to the maximum or more than epsilon below it, max > epsilon',
                   mutant=lambda i, o: [('m', REq(R(o[0])[0], 60 * (i[0][1] - i[0][2]) / (rmax3(i[0]) - rmin3(i[0]))))])
        # rgbColor against the textbook formula
        hsvdom = lambda i: [i[0][0] >= 0, i[0][0] < 360, i[0][1] >= 0, i[0][1] <= 1, i[0][2] >= 0, i[0][2] <= 1]
        def rgb_spec(i, o):
            h, s, v = i[0]; r = R(o[0]); tb = hsv2rgb_textbook(h, s, v); g = []
            for k in range(3):
                g += [('textbook-formula[%d].le' % k, RGoal('le', r[k] - tb[k], tol)), ('textbook-formula[%d].ge' % k, RGoal('le', tb[k] - r[k], tol)),
                      ('in-cube[%d].lo' % k, RGoal('ge', r[k], z3.RealVal(0))), ('in-cube[%d].hi' % k, RGoal('le', r[k], z3.RealVal(1)))]
            g += [('max==value', REq(rmax3(r), v)), ('min==value*(1-saturation)', RGoal('eq', rmin3(r), v * (1 - s), guard=s > eps))]
            return g
        check_by_sector(S, 'rgb_' + t, rgb_spec, hsvdom, range(0, 7), name='c19.rgb_' + t, timeout=tm, bounds='hue in [0,360), saturation and value in [0,1]; |component - textbook| <= 2^-%d (1/60 is a rounded constant)' % (E - 2),
                        mutant=lambda i, o: [('m', RGoal('le', rabs(R(o[0])[0] - hsv2rgb_textbook(i[0][0], i[0][1], i[0][2])[1]), tol))])
        # rgbColor(hsvColor(c)) == c on the cube
        def rt_spec(i, o):
            r = R(o[0]); g = []
            for k in range(3): g += [('c[%d].le' % k, RGoal('le', r[k] - i[0][k], tol)), ('c[%d].ge' % k, RGoal('le', i[0][k] - r[k], tol))]
            return g
        check_by_sector(S, 'hsv_rt_' + t, rt_spec, nongrey, range(0, 7), name='c19.hsv_rt_' + t, timeout=tm, bounds='all non-grey colours of the cube; |rgbColor(hsvColor(c)) - c| <= 2^-%d per component' % (E - 2),
                        mutant=lambda i, o: [('m', RGoal('le', rabs(R(o[0])[0] - i[0][1]), tol))])
        # hsvColor(rgbColor(hsv)) == hsv: value and saturation exactly, hue on the circle up to the rounded 1/60 and the epsilon comparisons (ill-conditioned for small chroma s*v)
        def rt2_spec(i, o):
            h, s, v = i[0]; h2, s2, v2 = R(o[0]); d = rabs(h2 - h); bound = k1 * s * v + k2
            return [('value', REq(v2, v)), ('saturation', REq(s2, s)), ('hue>=0', RGoal('ge', h2, z3.RealVal(0))), ('hue<360', RGoal('lt', h2, z3.RealVal(360))),
                    ('hue-on-circle', z3.Or(d * s * v <= bound, (360 - d) * s * v <= bound))]
        check_by_sector(S, 'rgb_rt_' + t, rt2_spec, lambda i: [i[0][0] >= 0, i[0][0] < 360, i[0][1] > eps, i[0][1] <= 1, i[0][2] > eps, i[0][2] <= 1], range(0, 7), name='c19.rgb_rt_' + t, timeout=tm,
                        bounds='hue in [0,360), saturation and value in (epsilon,1]; circular hue distance * s * v <= 2^-%d * (s * v + 1)' % (E - 8),
                        mutant=lambda i, o: [('m', RGoal('le', rabs(R(o[0])[0] - i[0][0] - 60) * i[0][1] * i[0][2], k2))])
    return run
def _hue360(res, k):
    h = res.outs[0][0]; return z3.fpEQ(h.fp, z3.FPVal(360.0, h.fp.sort()))
REGIONS = {'hue_is_360': _hue360}
def job_hsv_fp_hue(t):
    """bit-precise sweep of the whole cube: 0 <= hue < 360 for every non-grey colour except where the known finding applies (hue == 360)"""
    c, w = FT[t]
    def run(S):
        tm = S.cap(400, 1500); K = lambda v: FPV(v, w)
        incube = lambda i: [z3.And(z3.fpGEQ(fpof(x), K(0.0)), z3.fpLEQ(fpof(x), K(1.0))) for x in i[0]]
        nongrey = lambda i: incube(i) + [z3.Not(z3.And(z3.fpEQ(fpof(i[0][0]), fpof(i[0][1])), z3.fpEQ(fpof(i[0][1]), fpof(i[0][2]))))]
        S.check_fn(U, 'hsv_' + t, lambda i, o: [('hue<360', z3.fpLT(o[0][0].fp, K(360.0)))], nongrey, timeout=tm, solver='cvc5', name='c19.hsv_%s.fp' % t, known=['KF-C19-hsv-hue-360'], mandatory=(w == 32),
                   bounds='bit-precise: all non-grey %s colours of the cube' % c)
        S.check_fn(U, 'hsv_' + t, lambda i, o: [('hue>=0', z3.fpGEQ(o[0][0].fp, K(0.0)))], nongrey, timeout=tm, solver='cvc5', name='c19.hsv_%s.fp-lo' % t, side=False, witness=False, mandatory=(w == 32),
                   bounds='bit-precise: all non-grey %s colours of the cube' % c)
    return run
def job_hsv_fp(t):
    c, w = FT[t]
    def run(S):
        tm = S.cap(400, 1500); K = lambda v: FPV(v, w)
        incube = lambda i: [z3.And(z3.fpGEQ(fpof(x), K(0.0)), z3.fpLEQ(fpof(x), K(1.0))) for x in i[0]]
        nongrey = lambda i: incube(i) + [z3.Not(z3.And(z3.fpEQ(fpof(i[0][0]), fpof(i[0][1])), z3.fpEQ(fpof(i[0][1]), fpof(i[0][2]))))]
        hue_lt = lambda i, o: [('hue<360', z3.fpLT(o[0][0].fp, K(360.0)))]
        # the recorded witness of KF-C19-hsv-hue-360 (rounding-erased the hue is < 360 for every non-grey colour: job hsv_*); the bit-precise sweep of the whole cube needs minutes -> thorough tier
        wit = [[z3.BitVecVal(float_to_bits(v, w), w) for v in (1.0, 0.0, 1e-9 if w == 32 else 1e-18)]]
        S.check_fn(U, 'hsv_' + t, hue_lt, nongrey, ins=wit, validate=0, witness=False, side=False, timeout=tm, name='c19.hsv_%s.fp-witness' % t, known=['KF-C19-hsv-hue-360'], bounds='bit-precise: the colour (1, 0, %s)' % ('1e-9' if w == 32 else '1e-18'))
        S.check_fn(U, 'hsv_' + t, lambda i, o: [('saturation>=0', z3.fpGEQ(o[0][1].fp, K(0.0))), ('saturation<=1', z3.fpLEQ(o[0][1].fp, K(1.0))), ('value>=components', z3.And(*[z3.fpGEQ(o[0][2].fp, fpof(x)) for x in i[0]]))], incube, timeout=tm, solver='cvc5',
                   name='c19.hsv_%s.fp-sv' % t, side=False, bounds='bit-precise: all %s colours of the cube' % c)
        # grey levels survive the round trip bit for bit (their hue is 0/0 = NaN in between, which rgbColor never looks at)
        if w == 32 or not S.quick:
            y = z3.BitVec('a0', w)
            S.check_fn(U, 'hsv_rt_' + t, lambda i, o: [('grey[%d]' % k, o[0][k].bits == i[0][0]) for k in range(3)] + [('saturation==0', z3.fpIsZero(o[1][1].fp)), ('value', o[1][2].bits == i[0][0])],
                       lambda i: [z3.fpGEQ(fpof(i[0][0]), K(0.0)), z3.fpLEQ(fpof(i[0][0]), K(1.0))], ins=[[y, y, y]], validate=0, timeout=tm, name='c19.hsv_rt_%s.grey' % t, bounds='bit-precise: every grey level y in [0,1]', side=False)
    return run

# ------------------------------------------------------------------ sRGB transfer curves (rounding-erased; pow is an uninterpreted function constrained by true facts only)
def SC(w):
    """the transfer-curve constants as the exact rational values of the decimal literals of IEC 61966-2-1 rounded to float / double"""
    d = dict(thr=fconst('0.0031308', w), c1292=fconst('12.92', w), c1055=fconst('1.055', w), c055=fconst('0.055', w), g=fconst('0.41666', w),
             k947=fconst('0.94786729857819905213270142180095', w), k077=fconst('0.07739938080495356037151702786378', w), t2=fconst('0.04045', w), G=fconst('2.4', w))
    d['K'] = d['c1055'] * d['k947']; d['B0'] = (d['t2'] + d['c055']) * d['k947']
    return d
def ivpow(b, e):
    """rigorous enclosure [lo, hi] (exact rationals) of b**e for rationals b > 0, e (mpmath interval arithmetic, 60 digits)"""
    from mpmath import iv
    old = iv.dps; iv.dps = 60
    try:
        r = (iv.mpf(str(b.numerator)) / iv.mpf(str(b.denominator))) ** (iv.mpf(str(e.numerator)) / iv.mpf(str(e.denominator)))
        def fr(m):
            sign, man, exp, bc = m; v = Fraction(int(man)) * (Fraction(2) ** int(exp)); return -v if sign else v
        lo, hi = r._mpi_; return fr(lo), fr(hi)
    finally: iv.dps = old
def _contains(t, v):
    seen = set(); st = [t]
    while st:
        x = st.pop()
        if x.get_id() in seen: continue
        seen.add(x.get_id())
        if z3.eq(x, v): return True
        st.extend(x.children())
    return False
class PowTheory:
    """true facts about the real function pow(b, e), instantiated on the Ackermann variables of the executed code (res.ex.trig) and on specification-side applications"""
    def __init__(s, res):
        s.apps = [(v, a[0], a[1]) for key, (v, a) in getattr(res.ex, 'trig', {}).items() if key[0] == 'pow']; s.n = 0; s.extra = []
    def fresh(s, nm):
        s.n += 1; return z3.Real('%s!spec%d' % (nm, s.n))
    def axioms(s, anchors=(), comp=None):
        ax = []
        for v, b, e in s.apps:
            ax += [z3.Implies(z3.And(b >= 0, e > 0), v >= 0), z3.Implies(b > 0, v > 0), z3.Implies(z3.And(b == 0, e > 0), v == 0), z3.Implies(b == 1, v == 1),
                   z3.Implies(z3.And(b >= 0, b <= 1, e > 0), v <= 1), z3.Implies(z3.And(b >= 1, e > 0), v >= 1), z3.Implies(e == 1, v == b),
                   z3.Implies(z3.And(b > 0, b <= 1, e >= 1, e <= 3), z3.And(b * b * b <= v, v <= b)), z3.Implies(z3.And(b >= 1, e >= 1, e <= 3), z3.And(b <= v, v <= b * b * b))]
            for b0, e0, lo, hi in anchors:        # b0 < 1:  x >= b0, 0 < e <= e0  ->  x^e >= b0^e >= b0^e0 >= lo ;   0 <= x <= b0, e >= e0  ->  x^e <= b0^e <= b0^e0 <= hi
                ax += [z3.Implies(z3.And(b >= RQ(b0), e > 0, e <= RQ(e0)), v >= RQ(lo)), z3.Implies(z3.And(b >= 0, b <= RQ(b0), e >= RQ(e0)), v <= RQ(hi))]
        for x in range(len(s.apps)):
            for y in range(x + 1, len(s.apps)):
                (v1, b1, e1), (v2, b2, e2) = s.apps[x], s.apps[y]
                ax.append(z3.Implies(z3.And(e1 == e2, e1 > 0, b1 >= 0, b2 >= 0), z3.And(z3.Implies(b1 < b2, v1 < v2), z3.Implies(b2 < b1, v2 < v1), z3.Implies(b1 == b2, v1 == v2))))
        if comp is not None:
            # pow(pow(x,e1)*K, e2) = x^(e1*e2) * K^e2 for x, K > 0;  x^E = x if E = 1;  x <= x^E <= x*C for b0 <= x <= 1, E0 <= E <= 1 (C >= b0^(E0-1));  K^e between K and K^3 for 1 <= e <= 3
            K, b0, E0, C = comp
            for (v1, b1, e1) in s.apps:
                for (v2, b2, e2) in s.apps:
                    if v1 is v2 or not _contains(b2, v1): continue
                    px = s.fresh('powx'); E = e1 * e2
                    ax += [z3.Implies(E == 1, px == b1), z3.Implies(z3.And(b1 >= RQ(b0), b1 <= 1, E >= RQ(E0), E <= 1), z3.And(px >= b1, px <= b1 * RQ(C))),
                           z3.Implies(z3.And(b2 == v1, b1 > 0), v2 == px)]
                    if K != 1:
                        pk = s.fresh('powk'); lo, hi = min(K, K ** 3), max(K, K ** 3)
                        ax += [z3.Implies(z3.And(e2 >= 1, e2 <= 3), z3.And(pk >= RQ(lo), pk <= RQ(hi))), z3.Implies(z3.And(b2 == v1 * RQ(K), b1 > 0), v2 == px * pk)]
        return ax
def _num(t):
    t = z3.simplify(t)
    return float(z3val_to_fraction(t)) if (z3.is_rational_value(t) or z3.is_algebraic_value(t)) else None
def _pow_of_comp(res, k):
    """the executed pow application whose base mentions input component k only"""
    xs = res.ins[0]
    for key, (v, a) in getattr(res.ex, 'trig', {}).items():
        if key[0] == 'pow' and _contains(a[0], xs[k]) and not any(_contains(a[0], xs[j]) for j in range(len(xs)) if j != k): return v, a[0], a[1]
    return None
def srgb_job(kind, t, L, gam, qual=''):
    """kind: 'l2s' (convertLinearToSRGB) | 's2l' (convertSRGBToLinear); gam: False = standard overload, True = explicit Gamma overload"""
    c, w = FT[t]; E = 23 if w == 32 else 52; k = SC(w)
    fname = '%s%s%s_v%d_%s' % (kind, 'g' if gam else '', qual, L, t); nm = 'c19.' + fname
    tolc = Fraction(1, 2 ** (E - 1))
    thr, c1292, c1055, c055, k947, k077, t2 = [RQ(k[x]) for x in ('thr', 'c1292', 'c1055', 'c055', 'k947', 'k077', 't2')]
    D1292, D1055, D055 = RQ(Fraction('12.92')), RQ(Fraction('1.055')), RQ(Fraction('0.055'))
    G_lo, G_hi = 1, 3
    # anchor points: rigorous enclosures of pow at the junction for the exponents at which the claims change
    anchors = []
    if kind == 'l2s':
        for e0 in ([k['g']] if not gam else [Fraction(1000, 1953), Fraction(10000, 24001)]):
            lo, hi = ivpow(k['thr'], e0); anchors.append((k['thr'], e0, lo, hi))
    else:
        for e0 in ([k['G']] if not gam else [Fraction(12, 5)]):
            lo, hi = ivpow(k['B0'], e0); anchors.append((k['B0'], e0, lo, hi))
    def expo(i): return (1 / i[1][0] if kind == 'l2s' else i[1][0]) if gam else RQ(k['g'] if kind == 'l2s' else k['G'])
    def pre(i): return [z3.And(x >= 0, x <= 1) for x in i[0]] + ([i[1][0] >= G_lo, i[1][0] <= G_hi] if gam else [])
    st = {}
    def hyps(res):
        st['res'] = res; return PowTheory(res).axioms(anchors)
    def piece_lin(x): return x < thr if kind == 'l2s' else x <= t2
    def piece_pow(x): return x > thr if kind == 'l2s' else x > t2        # at x == 0.0031308 the standard selects the linear piece, glm the power piece (junction discontinuity: outside)
    def doc_value(x, gv):
        """numeric value of the documented curve (used only to judge native replays of counterexamples)"""
        import math
        if kind == 'l2s':
            x = min(max(x, 0.0), 1.0); return 12.92 * x if x < 0.0031308 else 1.055 * math.pow(x, (1.0 / gv) if gam else 0.41666) - 0.055
        return x / 12.92 if x <= 0.04045 else math.pow((x + 0.055) / 1.055, gv if gam else 2.4)
    def formula(i, o):
        out = R(o[0]); g = []; conc = all(_num(x) is not None for row in i for x in row)
        for j in range(min(L, 3)):
            x = i[0][j]
            if conc:
                gv = _num(i[1][0]) if gam else None; dvf = doc_value(_num(x), gv); dv = z3.RealVal(repr(dvf))
                ratio = REq(out[j] / dv, z3.RealVal(1)) if dvf != 0 else REq(out[j], dv)        # relative comparison: the replay judge's tolerance is absolute below 1
                g += [('linear-piece[%d]' % j, ratio), ('power-piece[%d]' % j, ratio), ('pow-base[%d]' % j, z3.BoolVal(True)), ('pow-exponent[%d]' % j, z3.BoolVal(True))]; continue
            ent = _pow_of_comp(st['res'], j)
            if ent is None:
                g.append(('power-piece[%d]' % j, z3.BoolVal(False))); continue
            v, b, e = ent
            if kind == 'l2s':
                g += [('linear-piece[%d]' % j, RGoal('eq', out[j], c1292 * x, guard=piece_lin(x))), ('power-piece[%d]' % j, RGoal('eq', out[j], c1055 * v - c055, guard=piece_pow(x))),
                      ('pow-base[%d]' % j, b == x), ('pow-exponent[%d]' % j, e == expo(i))]
            else:
                g += [('linear-piece[%d]' % j, RGoal('le', rabs(out[j] * D1292 - x), RQ(tolc) * x, guard=piece_lin(x))), ('power-piece[%d]' % j, RGoal('eq', out[j], v, guard=piece_pow(x))),
                      ('pow-base[%d]' % j, rabs(b * D1055 - (x + D055)) <= RQ(tolc)), ('pow-exponent[%d]' % j, e == expo(i))]
        if L == 4: g.append(('alpha', REq(out[3], i[0][3])))
        return g
    def rng(i, o):
        out = R(o[0]); g = []
        for j in range(min(L, 3)): g += [('range-lo%d' % j, RGoal('ge', out[j], z3.RealVal(0))), ('range-hi%d' % j, RGoal('le', out[j], 1 + RQ(tolc)))]
        return g
    def mono(i, o):
        out = R(o[0]); x0, x1 = i[0][0], i[0][1]
        return [('monotone-linear-piece', RGoal('le', out[0], out[1], guard=z3.And(x0 <= x1, piece_lin(x1)))), ('monotone-power-piece', RGoal('le', out[0], out[1], guard=z3.And(x0 <= x1, z3.Not(piece_lin(x0))))),
                ('monotone-across-junction', RGoal('le', out[0], out[1], guard=z3.And(piece_lin(x0), z3.Not(piece_lin(x1)))))]
    def fix(i, o):
        out = R(o[0]); return [('0->0', REq(out[0], z3.RealVal(0)))] + ([('1->1', RGoal('le', rabs(out[1] - 1), RQ(tolc)))] if L >= 2 else [])
    def run(S):
        tm = S.cap(90, 300); gtxt = '; Gamma in [1,3]' if gam else ''
        kf_neg = ['KF-C19-l2s-gamma-negative'] if (gam and kind == 'l2s') else []
        kf_jmp = ['KF-C19-srgb-gamma-junction'] if gam else []
        S.check_fn(U, fname, formula, pre, mode='real', timeout=tm, extra_hyps=hyps, bounds='components in [0,1]%s; documented piecewise curve with the decimal constants rounded to %s, pow as an uninterpreted function' % (gtxt, c),
                   mutant=lambda i, o: [('m', RGoal('eq', R(o[0])[0], (c1292 if kind == 'l2s' else k077) * i[0][0], guard=(i[0][0] <= thr) if kind == 'l2s' else (i[0][0] < t2 + 1)))])
        S.check_fn(U, fname, rng, pre, mode='real', timeout=tm, extra_hyps=hyps, side=False, witness=False, known=kf_neg, name=nm + '.range', bounds='components in [0,1]%s; result in [0, 1+2^-%d]' % (gtxt, E - 1),
                   mutant=lambda i, o: [('m', RGoal('le', R(o[0])[0], z3.Q(1, 2)))])
        if L >= 2:
            S.check_fn(U, fname, mono, pre, mode='real', timeout=tm, extra_hyps=hyps, side=False, witness=False, known=kf_jmp, name=nm + '.monotone', bounds='components 0 and 1 of one call compared; inputs in [0,1]' + gtxt,
                       mutant=lambda i, o: [('m', RGoal('lt', R(o[0])[0], R(o[0])[1], guard=i[0][0] <= i[0][1]))])
        xs = [z3.RealVal(0), z3.RealVal(1)] + [z3.Real('a%d' % j) for j in range(2, L)]
        S.check_fn(U, fname, fix, (lambda i: pre(i)), mode='real', timeout=tm, extra_hyps=hyps, side=False, witness=False, ins=[xs[:L]] + ([[z3.Real('b0')]] if gam else []), name=nm + '.fixpoints',
                   bounds='0 -> 0 exactly, 1 -> 1 within 2^-%d%s' % (E - 1, gtxt))
        if gam:      # recorded witnesses of the custom-gamma findings (concrete inputs, replayed natively)
            G = lambda v: [[z3.RealVal(v)]]
            pad = [z3.RealVal(0)] * (L - 2)
            if kind == 'l2s':
                S.check_fn(U, fname, lambda i, o: [('range-lo0', RGoal('ge', R(o[0])[0], z3.RealVal(0)))], None, mode='real', timeout=tm, extra_hyps=hyps, side=False, witness=False, known=kf_neg, name=nm + '.range-witness',
                           ins=[[z3.RealVal('0.004'), z3.RealVal(0)][:L] + pad] + G(1), bounds='recorded witness: x = 0.004, Gamma = 1')
                if L >= 2: S.check_fn(U, fname, lambda i, o: [('monotone-across-junction', RGoal('le', R(o[0])[0], R(o[0])[1]))], None, mode='real', timeout=tm, extra_hyps=hyps, side=False, witness=False, known=kf_jmp, name=nm + '.monotone-witness',
                                      ins=[[z3.RealVal('0.0031'), z3.RealVal('0.0032')] + pad] + G('2.2'), bounds='recorded witness: 0.0031 < 0.0032, Gamma = 2.2')
            elif L >= 2:
                S.check_fn(U, fname, lambda i, o: [('monotone-across-junction', RGoal('le', R(o[0])[0], R(o[0])[1]))], None, mode='real', timeout=tm, extra_hyps=hyps, side=False, witness=False, known=kf_jmp, name=nm + '.monotone-witness',
                           ins=[[z3.RealVal('0.0404'), z3.RealVal('0.0405')] + pad] + G(3), bounds='recorded witness: 0.0404 < 0.0405, Gamma = 3')
    return run
def _gamma_junction(res, k):
    g = res.ins[1][0]
    return g * 10000 < 24001 if res.fn.name.startswith('l2sg') else g * 10 > 24
REGIONS['gamma_junction'] = _gamma_junction

def comp_job(direction, t, L, gam):
    """direction 'sl': convertSRGBToLinear(convertLinearToSRGB(x)); 'ls': convertLinearToSRGB(convertSRGBToLinear(y)); each piece against the matching piece of the other function"""
    c, w = FT[t]; E = 23 if w == 32 else 52; k = SC(w)
    fname = '%s%s_v%d_%s' % (direction, 'g' if gam else '', L, t)
    thr, t2 = RQ(k['thr']), RQ(k['t2']); tolc = Fraction(1, 2 ** (E - 1)); K = k['K']
    E0 = Fraction(1) if gam else k['g'] * k['G']
    b0 = k['thr'] if direction == 'sl' else k['B0']
    C = Fraction(1) if gam else ivpow(b0, E0 - 1)[1]
    if direction == 'sl':
        tolp = max(C * max(1, K, K ** 3) - 1, 1 - min(1, K, K ** 3)) * Fraction(101, 100)
        comp = (K, b0, E0, C)
    else:
        tolp = (1 + k['c055']) * max(abs(K - 1), abs(K * C - 1)) * Fraction(101, 100) + Fraction(1, 2 ** (E + 4))
        comp = (Fraction(1), b0, E0, C)
    top = 1 if direction == 'sl' else 1 - Fraction(1, 2 ** 30)
    def pre(i): return [z3.And(x >= 0, x <= RQ(top)) for x in i[0]] + ([i[1][0] >= 1, i[1][0] <= 3] if gam else [])
    def hyps(res): return PowTheory(res).axioms((), comp)
    def spec(i, o):
        out = R(o[0]); mid = R(o[1]); g = []
        for j in range(3):
            x = i[0][j]; d = rabs(out[j] - x); sc = x
            if (_num(x) or 0) > 0: d = d / x; sc = z3.RealVal(1)           # concrete replay: judge the relative error (the replay judge's tolerance is absolute below 1)
            if direction == 'sl':
                g += [('linear-inverse[%d]' % j, RGoal('le', d, RQ(tolc) * sc, guard=z3.And(x < thr, mid[j] <= t2))), ('power-inverse[%d]' % j, RGoal('le', d, RQ(tolp) * sc, guard=z3.And(x > thr, mid[j] > t2)))]
            else:
                g += [('linear-inverse[%d]' % j, RGoal('le', d, RQ(tolc) * sc, guard=z3.And(x <= t2, mid[j] < thr))), ('power-inverse[%d]' % j, RGoal('le', rabs(out[j] - x), RQ(tolp), guard=z3.And(x > t2, mid[j] >= thr)))]
        if L == 4: g.append(('alpha', REq(out[3], i[0][3])))
        return g
    def mutant(i, o):
        out = R(o[0]); mid = R(o[1]); x = i[0][0]
        gd = z3.And(x > thr, mid[0] > t2) if direction == 'sl' else z3.And(x > t2, mid[0] >= thr)
        return [('m', RGoal('le', rabs(out[0] - x), RQ(tolp / 1024) * (x if direction == 'sl' else 1), guard=gd))]
    def run(S):
        what = 'convertSRGBToLinear(convertLinearToSRGB(x))' if direction == 'sl' else 'convertLinearToSRGB(convertSRGBToLinear(y))'
        S.check_fn(U, fname, spec, pre, mode='real', timeout=S.cap(90, 300), extra_hyps=hyps, mutant=mutant,
                   bounds='%s, components in [0,%s]%s; linear piece: relative error <= 2^-%d; power piece (both calls on their power pieces): %s error <= %.3g' % (what, '1' if direction == 'sl' else '1-2^-30', '; Gamma in [1,3]' if gam else '', E - 1,
                                                                                                                                                 'relative' if direction == 'sl' else 'absolute', float(tolp)))
    return run
def job_lowp(S):
    """the lowp float vec3 specialisation of convertLinearToSRGB (sqrt-based approximation)"""
    fname = 'l2s_lowp_v3_f32'; tm = S.cap(120, 400)
    cube = lambda i: [z3.And(x >= 0, x <= 1) for x in i[0]]
    tol = RQ(Fraction(1, 2 ** 22))
    def rng(i, o):
        out = R(o[0]); g = []
        for j in range(3): g += [('range-lo%d' % j, RGoal('ge', out[j], z3.RealVal(0))), ('range-hi%d' % j, RGoal('le', out[j], 1 + tol))]
        return g
    S.check_fn(U, fname, rng, cube, mode='real', timeout=tm, known=['KF-C19-lowp-srgb-negative'], name='c19.' + fname + '.range', bounds='components in [0,1]; rounding-erased, sqrt exact')
    S.check_fn(U, fname, lambda i, o: [('monotone', RGoal('le', R(o[0])[0], R(o[0])[1], guard=i[0][0] <= i[0][1]))], cube, mode='real', timeout=tm, side=False, witness=False, known=['KF-C19-lowp-srgb-decreasing'],
               name='c19.' + fname + '.monotone', bounds='components 0 and 1 of one call compared; inputs in [0,1]', mutant=lambda i, o: [('m', RGoal('lt', R(o[0])[0], R(o[0])[1], guard=i[0][0] <= i[0][1]))])
    S.check_fn(U, fname, lambda i, o: [('0->0', REq(R(o[0])[0], z3.RealVal(0))), ('1->1', RGoal('le', rabs(R(o[0])[1] - 1), tol))], None, mode='real', timeout=tm, side=False, witness=False,
               ins=[[z3.RealVal(0), z3.RealVal(1), z3.Real('a2')]], name='c19.' + fname + '.fixpoints', bounds='0 -> 0 exactly, 1 -> 1 within 2^-22')
    # recorded witnesses
    S.check_fn(U, fname, lambda i, o: [('range-lo0', RGoal('ge', R(o[0])[0], z3.RealVal(0)))], None, mode='real', timeout=tm, side=False, witness=False, known=['KF-C19-lowp-srgb-negative'],
               ins=[[z3.RealVal('0.0001'), z3.RealVal(0), z3.RealVal(0)]], name='c19.' + fname + '.range-witness', bounds='recorded witness: x = 0.0001')
def job_alpha_fp(t):
    c, w = FT[t]
    def run(S):
        for f in ('l2s', 'l2sg', 's2l', 's2lg'):
            S.check_fn(U, '%s_v4_%s' % (f, t), lambda i, o: [('alpha-bits-untouched', o[0][3].bits == i[0][3])], None, mode='fp', timeout=S.cap(60, 200), name='c19.%s_v4_%s.fp' % (f, t),
                       bounds='bit-precise: all 2^%d bit patterns of every component and of Gamma (NaN payloads included)' % w, mutant=lambda i, o: [('m', o[0][3].bits == i[0][2])])
    return run

def job_hsv_direct(t):
    """cross-check of check_by_sector (thorough tier, optional): the composed wrapper with its floor() left as to_int, decided by z3's mixed integer/real arithmetic (minutes, erratic)"""
    c, w = FT[t]; E = 23 if w == 32 else 52; tol = RQ(Fraction(1, 2 ** (E - 2)))
    def run(S):
        def rt_spec(i, o):
            r = R(o[0]); g = []
            for k in range(3): g += [('c[%d].le' % k, RGoal('le', r[k] - i[0][k], tol)), ('c[%d].ge' % k, RGoal('le', i[0][k] - r[k], tol))]
            return g
        S.check_fn(U, 'hsv_rt_' + t, rt_spec, lambda i: [z3.And(x >= 0, x <= 1) for x in i[0]] + [rmax3(i[0]) - rmin3(i[0]) > 0], mode='real', timeout=600, mandatory=False, name='c19.hsv_rt_%s.direct' % t,
                   bounds='all non-grey colours of the cube; floor() not eliminated')
    return run
def seq(*fs):
    def run(S):
        for f in fs: f(S)
    return run
JOB_CAP = {'quick': 900, 'thorough': 3600}
def jobs(tier):
    q = tier == 'quick'; J = []
    for t in ITY: J.append(('ycocgr_' + t, job_ycocgr_int(t)))
    for t in FT:
        J += [('ycocg_' + t, job_ycocg_float(t)), ('saturation_' + t, job_saturation(t)), ('hsv_' + t, job_hsv(t)), ('hsv_fp_' + t, job_hsv_fp(t)), ('srgb_alpha_fp_' + t, job_alpha_fp(t))]
        for L in (1, 2, 3, 4):
            J.append(('srgb_v%d_%s' % (L, t), seq(*[srgb_job(kind, t, L, gam) for kind in ('l2s', 's2l') for gam in (False, True)])))
        for L in (3, 4):
            J.append(('srgb_roundtrip_v%d_%s' % (L, t), seq(*[comp_job(d, t, L, gam) for d in ('sl', 'ls') for gam in (False, True)])))
        # mediump / lowp instantiate the same generic code, except convertLinearToSRGB(vec<3,float,lowp>) (job srgb_lowp)
        J.append(('srgb_qualifiers_' + t, seq(*[srgb_job(kind, t, 3, gam, qual) for qual in ('_mediump', '_lowp') for kind in ('l2s', 's2l') for gam in (False, True) if (qual, kind, gam, t) != ('_lowp', 'l2s', False, 'f32')])))
        if not q: J.append(('hsv_direct_' + t, job_hsv_direct(t)))
        if t == 'f32' or not q: J.append(('hsv_fp_hue_' + t, job_hsv_fp_hue(t)))
    J.append(('srgb_lowp', job_lowp))
    return J
