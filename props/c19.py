"""C19 - colour-space conversions are mutually inverse and range-preserving (gtc/color_space.inl, gtx/color_space.inl, gtx/color_space_YCoCg.inl)."""
import re as _re, struct as _struct
from fractions import Fraction
from props.common import *
LEVEL = 'proof'
CLAIM = ''
BOUNDS = ''
OUTSIDE = ''
ASSUMPTIONS = []

FT = {'f32': ('float', 32), 'f64': ('double', 64)}
ITY = ['i8', 'u8', 'i16', 'u16', 'i32', 'u32', 'i64', 'u64']
U = Unit('c19', includes=['glm/glm.hpp', 'glm/gtc/color_space.hpp', 'glm/gtx/color_space.hpp', 'glm/gtx/color_space_YCoCg.hpp'])

# ------------------------------------------------------------------ wrappers
for t in ITY:
    c = ITYPES[t]; V = 'ldv<3,%s>(a)' % c
    U.add('yr_fwd_' + t, [(c, 3)], [(c, 3)], 'stv(o, glm::rgb2YCoCgR(%s));' % V)
    U.add('yr_inv_' + t, [(c, 3)], [(c, 3)], 'stv(o, glm::YCoCgR2rgb(%s));' % V)
    U.add('yr_rt_' + t, [(c, 3)], [(c, 3)], 'stv(o, glm::YCoCgR2rgb(glm::rgb2YCoCgR(%s)));' % V)
    U.add('yr_rt2_' + t, [(c, 3)], [(c, 3)], 'stv(o, glm::rgb2YCoCgR(glm::YCoCgR2rgb(%s)));' % V)
for t, (c, w) in FT.items():
    V = 'ldv<3,%s>(a)' % c
    for nm, f, g in (('yc', 'rgb2YCoCg', 'YCoCg2rgb'), ('ycr', 'rgb2YCoCgR', 'YCoCgR2rgb')):
        U.add('%s_fwd_%s' % (nm, t), [(c, 3)], [(c, 3)], 'stv(o, glm::%s(%s));' % (f, V))
        U.add('%s_inv_%s' % (nm, t), [(c, 3)], [(c, 3)], 'stv(o, glm::%s(%s));' % (g, V))
        U.add('%s_rt_%s' % (nm, t), [(c, 3)], [(c, 3)], 'stv(o, glm::%s(glm::%s(%s)));' % (g, f, V))
        U.add('%s_rt2_%s' % (nm, t), [(c, 3)], [(c, 3)], 'stv(o, glm::%s(glm::%s(%s)));' % (f, g, V))
    U.add('sat_mat_' + t, [(c, 1)], [(c, 16)], 'stm(o, glm::saturation(a[0]));')
    U.add('sat3_' + t, [(c, 1), (c, 3)], [(c, 3)], 'stv(o, glm::saturation(a[0], ldv<3,%s>(b)));' % c)
    U.add('sat4_' + t, [(c, 1), (c, 4)], [(c, 4)], 'stv(o, glm::saturation(a[0], ldv<4,%s>(b)));' % c)
    U.add('lum_' + t, [(c, 3)], [(c, 1)], 'o[0] = glm::luminosity(%s);' % V)
def units(tier): return [U]

# ------------------------------------------------------------------ specification helpers
def fconst(x, w):
    """exact rational value of the decimal literal x after conversion to float (w = 32) / double (w = 64)"""
    d = float(x)
    if w == 32: d = _struct.unpack('<f', _struct.pack('<f', d))[0]
    return Fraction(d)
def RQ(fr): return z3.RealVal(str(Fraction(fr)))
def R(o): return [v.r if isinstance(v, RV) else v for v in o]
def rabs(x): return z3.If(x >= 0, x, -x)

# ------------------------------------------------------------------ integer YCoCg-R (bit-precise)
def job_ycocgr_int(t):
    c = ITYPES[t]; W = width(t); sg = is_signed(t); X = W + 4
    ext = (lambda v: sx(v, X)) if sg else (lambda v: zx(v, X))
    fdiv2 = lambda v: v >> 1                   # arithmetic shift on the widened two's-complement value = floor(v / 2)
    def fits(v):                               # widened value representable in T
        return z3.And(v >= -(1 << (W - 1)), v <= (1 << (W - 1)) - 1) if sg else z3.And(v >= 0, v <= (1 << W) - 1)
    def lifting(r, g, b):
        """YCoCg-R forward lifting steps (Malvar & Sullivan): Co = R - B; t = B + floor(Co/2); Cg = G - t; Y = t + floor(Cg/2), over the integers"""
        co = r - b; tt = b + fdiv2(co); cg = g - tt; y = tt + fdiv2(cg)
        return y, co, cg, tt
    def unlifting(y, co, cg):
        tt = y - fdiv2(cg); g = cg + tt; b = tt - fdiv2(co); r = b + co
        return r, g, b, tt
    def run(S):
        # domain on which C++ gives the operations a value: unsigned types wrap modulo 2^W; int8/int16 are promoted to int and converted back (modular);
        # int32/int64 must not overflow: every non-negative triple (colour depth W-1), or every triple in [-2^(W-2), 2^(W-2))
        sdom = lambda i: [z3.Or(z3.And(*[x >= 0 for x in i[0]]), z3.And(*[z3.And(x >= -(1 << (W - 2)), x < (1 << (W - 2))) for x in i[0]]))]
        sdom_inv = lambda i: [z3.And(x > -(1 << (W - 3)), x < (1 << (W - 3))) for x in i[0]]
        if sg and W >= 32:
            dom = sdom; dom_inv = sdom_inv
            dtxt = 'all r,g,b >= 0 (colour depth %d) or all in [-2^%d, 2^%d): no signed overflow' % (W - 1, W - 2, W - 2); itxt = '|Y|,|Co|,|Cg| < 2^%d (no signed overflow)' % (W - 3)
        else:
            dom = dom_inv = lambda i: []
            dtxt = itxt = 'all 2^%d triples of %s (arithmetic modulo 2^%d)' % (3 * W, c, W)
        ident = lambda i, o: [('%s' % 'rgb'[k], o[0][k] == i[0][k]) for k in range(3)]
        S.check_fn(U, 'yr_rt_' + t, ident, dom, bounds='YCoCgR2rgb(rgb2YCoCgR(c)) == c; ' + dtxt, mutant=lambda i, o: [('m', o[0][0] == i[0][2])])
        S.check_fn(U, 'yr_rt2_' + t, lambda i, o: [('%s' % ('Y', 'Co', 'Cg')[k], o[0][k] == i[0][k]) for k in range(3)], dom_inv, bounds='rgb2YCoCgR(YCoCgR2rgb(y)) == y; ' + itxt,
                   mutant=lambda i, o: [('m', o[0][1] == i[0][2])])
        # the two separately compiled halves chained at the term level (the compiler cannot cancel the lifting steps against each other here)
        r1 = sym_call(U, 'yr_fwd_' + t); r2 = sym_call(U, 'yr_inv_' + t, ins=[r1.outs[0]])
        for k in range(3):
            S.prove('c19.yr_inv_%s(yr_fwd_%s).%s' % (t, t, 'rgb'[k]), r2.outs[0][k] == r1.ins[0][k], dom(r1.ins) + r1.axioms + r2.axioms, timeout=S.cap(60, 180), functions=['w_yr_fwd_' + t, 'w_yr_inv_' + t],
                    bounds='separately compiled halves chained; ' + dtxt, vars_=r1.ins[0])
        r3 = sym_call(U, 'yr_inv_' + t); r4 = sym_call(U, 'yr_fwd_' + t, ins=[r3.outs[0]])
        for k in range(3):
            S.prove('c19.yr_fwd_%s(yr_inv_%s).%s' % (t, t, ('Y', 'Co', 'Cg')[k]), r4.outs[0][k] == r3.ins[0][k], dom_inv(r3.ins) + r3.axioms + r4.axioms, timeout=S.cap(60, 180), functions=['w_yr_fwd_' + t, 'w_yr_inv_' + t],
                    bounds='separately compiled halves chained; ' + itxt, vars_=r3.ins[0])
        # the forward transform is the documented lifting over the integers wherever its values are representable in T
        def fwd_pre(i):
            if sg: return sdom(i)
            r, g, b = [ext(x) for x in i[0]]; y, co, cg, tt = lifting(r, g, b)
            return [co >= 0, cg >= 0]
        def fwd_spec(i, o):
            r, g, b = [ext(x) for x in i[0]]; y, co, cg, tt = lifting(r, g, b)
            return [('Co', ext(o[0][1]) == co), ('Cg', ext(o[0][2]) == cg), ('Y', ext(o[0][0]) == y)]
        def luma_spec(i, o):
            r, g, b = [ext(x) for x in i[0]]
            return [('Y=floor((R+2G+B)/4)', ext(o[0][0]) == ((r + 2 * g + b) >> 2))]
        S.check_fn(U, 'yr_fwd_' + t, fwd_spec, fwd_pre, solver='portfolio', timeout=S.cap(120, 400), bounds='all triples whose lifting steps Co=R-B, t=B+floor(Co/2), Cg=G-t, Y=t+floor(Cg/2) are representable in %s%s' % (c, '' if sg else ' (i.e. R >= B and G >= t)'),
                   mutant=lambda i, o: [('m', ext(o[0][0]) == ((ext(i[0][0]) + 2 * ext(i[0][1]) + ext(i[0][2]) + 1) >> 2))])
        S.check_fn(U, 'yr_fwd_' + t, luma_spec, fwd_pre, name='c19.yr_fwd_%s.luma' % t, side=False, witness=False, solver='portfolio', timeout=S.cap(120, 400), bounds='same domain; luma is the floor of the (1,2,1)/4 average')
        def inv_pre(i):
            if sg: return sdom_inv(i)
            y, co, cg = [ext(x) for x in i[0]]; r, g, b, tt = unlifting(y, co, cg)
            return [fits(tt), fits(g), fits(b), fits(r)]
        def inv_spec(i, o):
            y, co, cg = [ext(x) for x in i[0]]; r, g, b, tt = unlifting(y, co, cg)
            return [('R', ext(o[0][0]) == r), ('G', ext(o[0][1]) == g), ('B', ext(o[0][2]) == b)]
        S.check_fn(U, 'yr_inv_' + t, inv_spec, inv_pre, solver='portfolio', timeout=S.cap(120, 400), bounds='all (Y,Co,Cg) whose inverse lifting steps are representable in ' + c)
        if sg:
            # low dynamic range: N-bit colours need N bits of luma and N+1 bits of chroma
            N = W - 2
            def rng(i, o):
                y, co, cg = o[0]
                return [('Y-in-[0,2^N)', z3.And(y >= 0, y < (1 << N))), ('Co-in-(-2^N,2^N)', z3.And(co > -(1 << N), co < (1 << N))), ('Cg-in-(-2^N,2^N)', z3.And(cg > -(1 << N), cg < (1 << N)))]
            S.check_fn(U, 'yr_fwd_' + t, rng, lambda i: [z3.And(x >= 0, x < (1 << N)) for x in i[0]], name='c19.yr_fwd_%s.range' % t, side=False, bounds='r,g,b in [0, 2^%d)' % N)
    return run

# ------------------------------------------------------------------ float YCoCg / YCoCg-R (rounding-erased)
def job_ycocg_float(t):
    def run(S):
        tm = S.cap(60, 200)
        def fwd(i, o):
            r, g, b = i[0]; y, co, cg = R(o[0])
            return [('Y', REq(y, r / 4 + g / 2 + b / 4)), ('Co', REq(co, r / 2 - b / 2)), ('Cg', REq(cg, -r / 4 + g / 2 - b / 4))]
        def inv(i, o):
            y, co, cg = i[0]; r, g, b = R(o[0])
            return [('R', REq(r, y + co - cg)), ('G', REq(g, y + cg)), ('B', REq(b, y - co - cg))]
        def fwdr(i, o):
            r, g, b = i[0]; y, co, cg = R(o[0])
            return [('Co', REq(co, r - b)), ('Cg', REq(cg, g - (r + b) / 2)), ('Y', REq(y, g / 2 + (r + b) / 4))]
        def invr(i, o):
            y, co, cg = i[0]; r, g, b = R(o[0])
            return [('G', REq(g, y + cg / 2)), ('B', REq(b, y - cg / 2 - co / 2)), ('R', REq(r, y - cg / 2 + co / 2))]
        ident = lambda i, o: [('c%d' % k, REq(R(o[0])[k], i[0][k])) for k in range(3)]
        S.check_fn(U, 'yc_fwd_' + t, fwd, mode='real', timeout=tm, bounds='all real r,g,b', mutant=lambda i, o: [('m', REq(R(o[0])[1], i[0][0] / 2 - i[0][1] / 2))])
        S.check_fn(U, 'yc_inv_' + t, inv, mode='real', timeout=tm, bounds='all real Y,Co,Cg', mutant=lambda i, o: [('m', REq(R(o[0])[0], i[0][0] - i[0][1] - i[0][2]))])
        S.check_fn(U, 'ycr_fwd_' + t, fwdr, mode='real', timeout=tm, bounds='all real r,g,b', mutant=lambda i, o: [('m', REq(R(o[0])[1], i[0][2] - i[0][0]))])
        S.check_fn(U, 'ycr_inv_' + t, invr, mode='real', timeout=tm, bounds='all real Y,Co,Cg', mutant=lambda i, o: [('m', REq(R(o[0])[1], i[0][0] - i[0][2]))])
        for nm in ('yc', 'ycr'):
            S.check_fn(U, '%s_rt_%s' % (nm, t), ident, mode='real', timeout=tm, bounds='inverse(forward(c)) == c, all real triples', mutant=lambda i, o: [('m', REq(R(o[0])[0], i[0][2]))])
            S.check_fn(U, '%s_rt2_%s' % (nm, t), ident, mode='real', timeout=tm, bounds='forward(inverse(y)) == y, all real triples', mutant=lambda i, o: [('m', REq(R(o[0])[0], i[0][2]))])
    return run

# ------------------------------------------------------------------ saturation / luminosity (rounding-erased)
_HPP = open(os.path.join(REPO, 'glm', 'gtx', 'color_space.hpp')).read()
_m = _re.search(r'luminosity associating ratios \(\s*([0-9.]+)\s*,\s*([0-9.]+)\s*,\s*([0-9.]+)\s*\)', _HPP)
LUM_DOC = tuple(_m.groups()) if _m else ('0.33', '0.59', '0.11')      # the weights documented in gtx/color_space.hpp
REC709 = ('0.2126', '0.7152', '0.0722')                                 # ITU-R BT.709 luma coefficients (saturation matrix)
def job_saturation(t):
    c, w = FT[t]
    def run(S):
        tm = S.cap(60, 200)
        wt = [RQ(fconst(x, w)) for x in REC709]; wsum = sum(fconst(x, w) for x in REC709)
        lw = [RQ(fconst(x, w)) for x in LUM_DOC]; lsum = sum(fconst(x, w) for x in LUM_DOC)
        tol = Fraction(1, 2 ** (22 if w == 32 else 51))
        def mat(i, o):
            s = i[0][0]; M = R(o[0]); g = []
            for cc in range(4):
                for rr in range(4):
                    if cc < 3 and rr < 3: e = (1 - s) * wt[cc] + (s if rr == cc else 0)
                    else: e = z3.RealVal(1 if rr == cc else 0)
                    g.append(('m[%d][%d]' % (cc, rr), REq(M[cc * 4 + rr], e)))
            return g
        S.check_fn(U, 'sat_mat_' + t, mat, mode='real', timeout=tm, bounds='all real s; entry [c][r] = (1-s)*w_c + s*[r==c], w = Rec.709 weights rounded to ' + c,
                   mutant=lambda i, o: [('m', REq(R(o[0])[1], (1 - i[0][0]) * wt[1]))])
        def lumi(cc): return wt[0] * cc[0] + wt[1] * cc[1] + wt[2] * cc[2]
        def sat(n):
            def spec(i, o):
                s = i[0][0]; cc = i[1]; r = R(o[0])
                g = [('lerp(luma,c)[%d]' % k, REq(r[k], (1 - s) * lumi(cc) + s * cc[k])) for k in range(3)]
                if n == 4: g.append(('alpha', REq(r[3], cc[3])))
                return g
            return spec
        S.check_fn(U, 'sat3_' + t, sat(3), mode='real', timeout=tm, bounds='all real s, colour', mutant=lambda i, o: [('m', REq(R(o[0])[0], (1 - i[0][0]) * lumi(i[1]) + i[0][0] * i[1][1]))])
        S.check_fn(U, 'sat4_' + t, sat(4), mode='real', timeout=tm, bounds='all real s, colour, alpha', mutant=lambda i, o: [('m', REq(R(o[0])[3], i[0][0] * i[1][3]))])
        # saturation(1, c) == c exactly; saturation(0, c) is the grey of c's luma; grey levels are preserved up to (sum of the rounded weights - 1)
        s_ = z3.Real('a0'); col = [z3.Real('b%d' % k) for k in range(4)]; y = z3.Real('b0')
        for n in (3, 4):
            S.check_fn(U, 'sat%d_%s' % (n, t), lambda i, o, n=n: [('c%d' % k, REq(R(o[0])[k], i[1][k])) for k in range(n)], mode='real', timeout=tm, ins=[[z3.RealVal(1)], col[:n]], name='c19.sat%d_%s.s=1' % (n, t),
                       bounds='s = 1: identity on every colour', side=False)
        S.check_fn(U, 'sat3_' + t, lambda i, o: [('grey%d' % k, REq(R(o[0])[k], lumi(i[1]))) for k in range(3)], mode='real', timeout=tm, ins=[[z3.RealVal(0)], col[:3]], name='c19.sat3_%s.s=0' % t,
                   bounds='s = 0: every component is the Rec.709 luma', side=False)
        S.prove('c19.rec709-weights-sum.' + t, z3.And(RQ(wsum) - 1 <= RQ(tol / 2), 1 - RQ(wsum) <= RQ(tol / 2)), timeout=10, kind='lemma', bounds='|sum of the rounded Rec.709 weights - 1| <= %s' % (tol / 2))
        for n in (3, 4):
            def grey(i, o, n=n):
                s = i[0][0]; yy = i[1][0]; r = R(o[0])
                return [('grey-level-preserved[%d]' % k, RGoal('le', rabs(r[k] - yy), RQ(tol) * rabs(1 - s) * rabs(yy))) for k in range(3)]
            S.check_fn(U, 'sat%d_%s' % (n, t), grey, mode='real', timeout=tm, ins=[[s_], [y, y, y] + col[3:n]], name='c19.sat%d_%s.grey' % (n, t), side=False,
                       bounds='all real s, grey level y: |out - y| <= %s*|1-s|*|y|' % tol, mutant=lambda i, o: [('m', REq(R(o[0])[0], i[0][0] * i[1][0]))])
        # luminosity: the documented weights, and grey levels
        S.check_fn(U, 'lum_' + t, lambda i, o: [('documented-weights', REq(R(o[0])[0], lw[0] * i[0][0] + lw[1] * i[0][1] + lw[2] * i[0][2]))], mode='real', timeout=tm,
                   bounds='all real colours; weights %s of the header comment, rounded to %s' % (LUM_DOC, c), mutant=lambda i, o: [('m', REq(R(o[0])[0], lw[0] * i[0][0] + lw[1] * i[0][1] + lw[0] * i[0][2]))])
        S.check_fn(U, 'lum_' + t, lambda i, o: [('grey-level-preserved', RGoal('le', rabs(R(o[0])[0] - i[0][0]), RQ(tol) * rabs(i[0][0])))], mode='real', timeout=tm, ins=[[y, y, y]], name='c19.lum_%s.grey' % t, side=False,
                   known=['KF-C19-luminosity-weights-sum'], bounds='all grey levels y: |luminosity(y,y,y) - y| <= %s*|y|' % tol)
    return run

def jobs(tier):
    q = tier == 'quick'; J = []
    for t in ITY: J.append(('ycocgr_' + t, job_ycocgr_int(t)))
    for t in FT: J += [('ycocg_' + t, job_ycocg_float(t)), ('saturation_' + t, job_saturation(t))]
    return J
