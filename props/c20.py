"""C20 - no sanitizer-observable undefined behaviour inside the documented domains.

Every wrapper is compiled with clang's UBSan checks in trap mode (-fsanitize=undefined,float-cast-overflow,integer-divide-by-zero
-fsanitize-trap=all): each check the sanitizer would perform is an explicit branch to llvm.ubsantrap in the IR.  The IR is executed
symbolically with fully symbolic arguments; the solver must show every trap block (and every executor-level obligation: out-of-range
float->int conversion, division by zero, out-of-bounds / uninitialised / null access, unreachable, unwinding) unreachable under the
function's documented precondition.  Counterexamples are replayed under -fsanitize=undefined -fno-sanitize-recover."""
from props.common import *
LEVEL = 'proof'
CLAIM = ("(i) UBSan-trap-instrumented (incl. -fsanitize=alignment) clang IR of the scalar/vector integer, bitfield, rounding, conversion, packing, half, power-of-two/multiple and indexing functions (the sites named in the property: abs/sign "
         "bit tricks, roundEven/iround/uround casts, mask/rotate/fill shifts, pack narrowing conversions, type_half, swizzle/operator[] indexing) is executed symbolically over all argument values; the solver "
         "shows every sanitizer trap and every executor-detected UB unreachable under the documented precondition; counterexamples are replayed under a -fno-sanitize-recover build. (ii) The same for the aligned 4-component SIMD slice (GLM_FORCE_INTRINSICS, SSE2; thorough also AVX2) including packed<->aligned conversions from deliberately misaligned sources, "
         "(v) an extension table (props/c20_ext.py): the matrix / quaternion / geometric / transform / projection part of C15's operation table and 60 wrappers over the gtx / gtc helpers (fast_exponential, fast_square_root, fast_trigonometry, component_wise, bit, texture, easing, colour spaces, noise, matrix_access, decompose/recompose, qr/rq, range, associated/extended min-max, intersect, closest_point, norms, vector queries, rotate_vector, euler_angles, gtx quaternion and dual quaternion, spline, matrix query / major storage / interpolation / 2-D and 3-D transforms, type_ptr, n-step ULP) with glm's own assert()s taken as the documented preconditions; (vi) quaternion component access (operator[] const and non-const, relational functions, value_ptr / make_quat) in both memory orders, an out-of-bounds access at a concrete offset being confirmed under AddressSanitizer; (iii) for the whole float catalogue of C01 (func_common / exponential / trigonometric / relational / ext common, vec1-4 and the scalar references) under C01's preconditions, and (iv) an out-of-bounds-only claim on the unoptimised (-O0) IR of the memcpy / union / pointer based functions (packing, bit casts, make_vec/mat/quat), where an executor-detected out-of-bounds access is confirmed natively under AddressSanitizer.")
BOUNDS = 'all argument values of the listed function instances within the documented precondition (evidence: functions_encoded, per-obligation bounds); loops unwound with unwinding assertions; pure build at -O1, plus the aligned 4-component slice (c20_sse2, thorough also c20_avx2) in the GLM_FORCE_INTRINSICS build'
OUTSIDE = ('UB no sanitizer reports (strict-aliasing of the reinterpret_cast bit casts and lowp inversesqrt - compared across optimisation levels by C15 instead); misaligned access (wrappers pass naturally aligned arrays); '
           'functions not in the tables (gtc/random, gtx/hash, string_cast, io, pca eigen solvers, gtx/matrix_factorisation beyond 3x3 / 4x2); ASan-class heap errors (the checked functions do not allocate); the exact int32 domain of prev/floor/roundMultiple (x - Multiple representable is assumed instead; the exact ceil-direction domain IS decided)')
ASSUMPTIONS = ['documented preconditions as listed per obligation (GLSL: bitfield offset/bits in range, non-zero divisors; gtc docs: positive Multiple; abs(INT_MIN) has no representable result and is outside)',
               'NaN arguments of the pack functions and of the float->int conversions are outside the documented domain']
INC = ['glm/glm.hpp', 'glm/ext.hpp']
U = Unit('c20', includes=INC)
T = {}     # name -> (pre, bounds text, known ids, unwind)
OPTIONAL = set()
def add(name, ins, outs, body, pre=None, bounds='all argument values', known=(), unwind=16):
    U.add(name, ins, outs, body); T[name] = (pre, bounds, list(known), unwind)
ITY = ['i8', 'u8', 'i16', 'u16', 'i32', 'u32', 'i64', 'u64']
def smin(W): return 1 << (W - 1)
def _dist(x, y):
    w = x.size(); mx = z3.ZeroExt(3, z3.Extract(w - 2, 0, x)); my = z3.ZeroExt(3, z3.Extract(w - 2, 0, y))
    same = z3.Extract(w - 1, w - 1, x) == z3.Extract(w - 1, w - 1, y)
    return z3.If(same, z3.If(z3.UGE(mx, my), mx - my, my - mx), mx + my)
for t in ITY:
    c = ITYPES[t]; W = width(t); sg = is_signed(t)
    if sg:
        add('abs_' + t, [(c, 1)], [(c, 1)], 'o[0] = glm::abs(a[0]);', lambda i, W=W: [i[0][0] != smin(W)], 'x != INT_MIN (result not representable)')
        add('sign_' + t, [(c, 1)], [(c, 1)], 'o[0] = glm::sign(a[0]);')
        add('absv_' + t, [(c, 3)], [(c, 3)], 'stv(o, glm::abs(ldv<3,%s>(a))); ' % c, lambda i, W=W: [x != smin(W) for x in i[0]], 'x != INT_MIN')
        add('signv_' + t, [(c, 4)], [(c, 4)], 'stv(o, glm::sign(ldv<4,%s>(a)));' % c)
    add('bits_' + t, [(c, 1)], [('int', 3)], 'o[0] = glm::bitCount(a[0]); o[1] = glm::findLSB(a[0]); o[2] = glm::findMSB(a[0]);')
    add('bitsv_' + t, [(c, 2)], [('int', 2)] * 3, 'stv(o, glm::bitCount(ldv<2,%s>(a))); stv(o2, glm::findLSB(ldv<2,%s>(a))); stv(o3, glm::findMSB(ldv<2,%s>(a)));' % (c, c, c))
    fld = lambda i, W=W: [i[1][0] >= 0, i[1][1] >= 0, i[1][0] + i[1][1] <= W, i[1][0] <= W, i[1][1] <= W]
    add('extract_' + t, [(c, 1), ('int', 2)], [(c, 1)], 'o[0] = glm::bitfieldExtract(a[0], b[0], b[1]);', fld, '0 <= offset, 0 <= bits, offset + bits <= %d' % W, known=['KF-C20-bitfieldExtract-offset-width'])
    if W >= 32:
        add('reverse_' + t, [(c, 1)], [(c, 1)], 'o[0] = glm::bitfieldReverse(a[0]);')
        add('insert_' + t, [(c, 2), ('int', 2)], [(c, 1)], 'o[0] = glm::bitfieldInsert(a[0], a[1], b[0], b[1]);', fld, '0 <= offset, 0 <= bits, offset + bits <= %d' % W, known=['KF-C20-bitfieldInsert-offset-width'] + (['KF-C20-bitfieldInsert-signed-shift'] if sg else []))
    # gtc/bitfield
    add('mask_' + t, [(c, 1)], [(c, 1)], 'o[0] = glm::mask(a[0]);', (lambda i, W=W: [i[0][0] >= 0]) if sg else None, 'non-negative bit count')
    rot = lambda i, W=W: [i[1][0] >= 0, i[1][0] < W]
    add('rotr_' + t, [(c, 1), ('int', 1)], [(c, 1)], 'o[0] = glm::bitfieldRotateRight(a[0], b[0]);', rot, '0 <= shift < %d' % W)
    add('rotl_' + t, [(c, 1), ('int', 1)], [(c, 1)], 'o[0] = glm::bitfieldRotateLeft(a[0], b[0]);', rot, '0 <= shift < %d' % W)
    fl = lambda i, W=W: [i[1][0] >= 0, i[1][1] >= 0, i[1][0] + i[1][1] <= W, i[1][0] <= W, i[1][1] <= W]
    add('fill_' + t, [(c, 1), ('int', 2)], [(c, 2)], 'o[0] = glm::bitfieldFillOne(a[0], b[0], b[1]); o[1] = glm::bitfieldFillZero(a[0], b[0], b[1]);', fl, '0 <= first, 0 <= count, first + count <= %d' % W, known=['KF-C20-bitfieldFill-first-width'])
    # ext/scalar_integer + gtc/round
    # zero is inside the domain: the power-of-two family returns a conventional value there (it must still be evaluated without undefined behaviour)
    pos = (lambda i, W=W: [i[0][0] >= 0, i[0][0] <= (1 << (W - 2))]) if sg else (lambda i, W=W: [z3.ULE(i[0][0], 1 << (W - 1))])
    add('pow2_' + t, [(c, 1)], [(c, 2)], 'o[0] = glm::nextPowerOfTwo(a[0]); o[1] = glm::ceilPowerOfTwo(a[0]);', pos, 'x >= 0 and the next power of two representable')
    add('pow2f_' + t, [(c, 1)], [('bool', 1), (c, 2)], 'o[0] = glm::isPowerOfTwo(a[0]); o2[0] = glm::prevPowerOfTwo(a[0]); o2[1] = glm::floorPowerOfTwo(a[0]);', (lambda i: [i[0][0] >= 0]) if sg else None, 'all x >= 0')
    add('pow2r_' + t, [(c, 1)], [(c, 1)], 'o[0] = glm::roundPowerOfTwo(a[0]);', (lambda i, W=W: [i[0][0] >= 0, i[0][0] < 3 * (1 << (W - 3))]) if sg else (lambda i, W=W: [z3.ULT(i[0][0], 3 * (1 << (W - 2)))]),
        'x >= 0 and the nearest power of two representable (x < 1.5 * 2^%d)' % (W - 2 if sg else W - 1))
    def mulpre(i, W=W, sg=sg, part='cf'):
        x, m = i[0][0], i[0][1]; X = sx(x, W + 2) if sg else zx(x, W + 2); M = sx(m, W + 2) if sg else zx(m, W + 2)
        MAX = (1 << (W - 1)) - 1 if sg else (1 << W) - 1; MIN = -(1 << (W - 1)) if sg else 0
        # the mathematical results must be representable (not more): ceil = x + ((m - x mod m) mod m) <= MAX, floor = x - (x mod m) >= MIN, floor-mod in W+2 bits
        if W > 32 or (sg and W == 32 and part == 'f'): return [m > 0 if sg else m != 0] + ([X + M <= MAX] if 'c' in part else []) + ([X - M >= MIN] if sg and 'f' in part else [])     # 64 bit: the 66-bit remainders of the exact domain are out of reach; x +- Multiple representable instead
        r = z3.SRem(X, M) if sg else z3.URem(X, M); fm = z3.If(r < 0, r + M, r) if sg else r
        up = z3.If(fm == 0, fm, M - fm)
        return [m > 0 if sg else m != 0] + ([(X + up <= MAX) if sg else z3.ULE(X + up, z3.BitVecVal(MAX, W + 2))] if 'c' in part else []) + ([X - fm >= MIN] if sg and 'f' in part else [])
    # one wrapper per direction: the path conditions of the six functions do not pile up in one query, and each direction carries exactly its own representability condition
    add('multc_' + t, [(c, 2)], [('bool', 1), (c, 2)], 'o[0] = glm::isMultiple(a[0], a[1]); o2[0] = glm::nextMultiple(a[0], a[1]); o2[1] = glm::ceilMultiple(a[0], a[1]);',
        lambda i, W=W, sg=sg: mulpre(i, W, sg, 'c'), 'Multiple > 0 and the next multiple representable (64-bit types: x + Multiple representable)')
    add('multf_' + t, [(c, 2)], [(c, 3)], 'o[0] = glm::prevMultiple(a[0], a[1]); o[1] = glm::floorMultiple(a[0], a[1]); o[2] = glm::roundMultiple(a[0], a[1]);',
        lambda i, W=W, sg=sg: mulpre(i, W, sg, 'f'), 'Multiple > 0 and the previous multiple representable (int32 and 64-bit types: x - Multiple representable; the exact int32 domain needs srem(x+1, m) related to srem(x, m) over 34 bits, which no back end decides)')
    add('findNSB_' + t, [(c, 1), ('int', 1)], [('int', 1)], 'o[0] = glm::findNSB(a[0], b[0]);', lambda i, W=W: [i[1][0] >= 1, i[1][0] <= W], '1 <= n <= %d' % W, unwind=9)
add('carry', [('uint32_t', 2)], [('uint32_t', 6)], 'glm::uint c, b, m, l; o[0] = glm::uaddCarry(a[0], a[1], c); o[1] = c; o[2] = glm::usubBorrow(a[0], a[1], b); o[3] = b; glm::umulExtended(a[0], a[1], m, l); o[4] = m; o[5] = l;')
add('imulext', [('int32_t', 2)], [('int32_t', 2)], 'int m, l; glm::imulExtended(a[0], a[1], m, l); o[0] = m; o[1] = l;')
add('interleave', [('uint32_t', 2), ('uint16_t', 3), ('uint8_t', 4)], [('uint64_t', 2), ('uint32_t', 1)], 'o[0] = glm::bitfieldInterleave(a[0], a[1]); o[1] = glm::bitfieldInterleave(b[0], b[1], b[2]); o2[0] = glm::bitfieldInterleave(c[0], c[1], c[2], c[3]);')
add('interleave_s', [('int32_t', 2), ('int16_t', 3), ('int8_t', 4)], [('int64_t', 2), ('int32_t', 1)], 'o[0] = glm::bitfieldInterleave(a[0], a[1]); o[1] = glm::bitfieldInterleave(b[0], b[1], b[2]); o2[0] = glm::bitfieldInterleave(c[0], c[1], c[2], c[3]);')
add('ivecops', [('int32_t', 4), ('int32_t', 4)], [('int32_t', 4)] * 2, 'stv(o, ldv<4,int32_t>(a) / ldv<4,int32_t>(b)); stv(o2, ldv<4,int32_t>(a) % ldv<4,int32_t>(b));',
    lambda i: [y != 0 for y in i[1]] + [z3.Not(z3.And(x == (1 << 31), y == -1)) for x, y in zip(i[0], i[1])], 'divisor != 0, not INT_MIN / -1')
add('gtxint', [('int32_t', 2), ('uint32_t', 1)], [('int32_t', 3), ('uint32_t', 2)], 'o[0] = glm::mod(a[0], a[1]); o[1] = glm::factorial(a[0]); o[2] = glm::sqrt(a[0]); o2[0] = glm::nlz(b[0]); o2[1] = glm::log2(b[0] | 1u);',
    lambda i: [i[0][0] >= 0, i[0][0] <= 12, i[0][1] > 0, i[0][1] <= (1 << 30)], '0 <= x <= 12 (factorial representable), 0 < y <= 2^30', unwind=14)
for s_, Tf, W in (('f', 'float', 32), ('d', 'double', 64)):
    for f in 'floor ceil trunc round roundEven fract abs sign'.split():
        add('%s_%s' % (f, s_), [(Tf, 1)], [(Tf, 1)], 'o[0] = glm::%s(a[0]);' % f, known=['KF-C20-roundEven-int-cast'] if f == 'roundEven' else ())
    add('roundEvenv_' + s_, [(Tf, 3)], [(Tf, 3)], 'stv(o, glm::roundEven(ldv<3,%s>(a)));' % Tf, known=['KF-C20-roundEven-int-cast'])
    add('modf_' + s_, [(Tf, 2)], [(Tf, 3)], '%s ip; o[0] = glm::modf(a[0], ip); o[1] = ip; o[2] = glm::mod(a[0], a[1]);' % Tf)
    rep = lambda i, W=W: [z3.Not(is_nan(i[0][0])), z3.fpGEQ(fpof(i[0][0]), FPV(0.0, W)), z3.fpLT(z3.fpRoundToIntegral(z3.RNA(), fpof(i[0][0])), FPV(2.0 ** 31, W))]
    add('iround_' + s_, [(Tf, 1)], [('int32_t', 1)], 'o[0] = glm::iround(a[0]);', rep, 'x >= 0 (asserted by glm) and the nearest integer of x representable as int', known=[])
    add('uround_' + s_, [(Tf, 1)], [('uint32_t', 1)], 'o[0] = glm::uround(a[0]);', lambda i, W=W: [z3.Not(is_nan(i[0][0])), z3.fpGEQ(fpof(i[0][0]), FPV(0.0, W)), z3.fpLT(z3.fpRoundToIntegral(z3.RNA(), fpof(i[0][0])), FPV(2.0 ** 32, W))],
        'x >= 0 and the nearest integer of x representable as uint', known=[])
    add('iroundv_' + s_, [(Tf, 3)], [('int32_t', 3)], 'stv(o, glm::iround(ldv<3,%s>(a)));' % Tf, lambda i, W=W: [h for x in i[0] for h in (z3.Not(is_nan(x)), z3.fpGEQ(fpof(x), FPV(0.0, W)), z3.fpLT(z3.fpRoundToIntegral(z3.RNA(), fpof(x)), FPV(2.0 ** 31, W)))],
        'x >= 0 and the nearest integer of x representable as int (vector overload)')
    add('uroundv_' + s_, [(Tf, 3)], [('uint32_t', 3)], 'stv(o, glm::uround(ldv<3,%s>(a)));' % Tf, lambda i, W=W: [h for x in i[0] for h in (z3.Not(is_nan(x)), z3.fpGEQ(fpof(x), FPV(0.0, W)), z3.fpLT(z3.fpRoundToIntegral(z3.RNA(), fpof(x)), FPV(2.0 ** 32, W)))],
        'x >= 0 and the nearest integer of x representable as uint (vector overload)')
    add('wrap_' + s_, [(Tf, 1)], [(Tf, 4)], 'o[0] = glm::clamp(a[0]); o[1] = glm::repeat(a[0]); o[2] = glm::mirrorClamp(a[0]); o[3] = glm::mirrorRepeat(a[0]);')
    add('ulp_' + s_, [(Tf, 2)], [(Tf, 2), ('int64_t', 1)], 'o[0] = glm::nextFloat(a[0]); o[1] = glm::prevFloat(a[0]); o2[0] = glm::floatDistance(a[0], a[1]);', lambda i, W=W: [z3.Not(is_nan(x)) for x in i[0]] + [_dist(i[0][0], i[0][1]) < (1 << (W - 1))], 'non-NaN, ULP distance representable in the return type')
    add('fminmax_' + s_, [(Tf, 4)], [(Tf, 4)], 'o[0] = glm::fmin(a[0], a[1], a[2], a[3]); o[1] = glm::fmax(a[0], a[1], a[2]); o[2] = glm::fclamp(a[0], a[1], a[2]); o[3] = glm::smoothstep(a[0], a[1], a[2]);')
    add('conv_' + s_, [(Tf, 4)], [('int32_t', 4), ('uint32_t', 4)], 'stv(o, glm::ivec4(ldv<4,%s>(a))); stv(o2, glm::uvec4(glm::abs(ldv<4,%s>(a))));' % (Tf, Tf),
        lambda i, W=W: [z3.And(z3.Not(is_nan(x)), z3.fpLT(z3.fpAbs(fpof(x)), FPV(2.0 ** 31, W))) for x in i[0]], '|x| < 2^31, non-NaN (value-preserving static_cast domain)')
add('bitcasts', [('float', 1), ('int32_t', 1), ('double', 1)], [('int32_t', 1), ('uint32_t', 1), ('float', 2), ('int64_t', 1)], 'o[0] = glm::floatBitsToInt(a[0]); o2[0] = glm::floatBitsToUint(a[0]); o3[0] = glm::intBitsToFloat(b[0]); o3[1] = glm::uintBitsToFloat(glm::uint(b[0])); o4[0] = glm::floatBitsToInt(c[0]);')
add('frexp_ldexp', [('float', 1), ('int', 1)], [('float', 2), ('int', 1)], 'int e; o[0] = glm::frexp(a[0], e); o2[0] = e; o[1] = glm::ldexp(a[0], b[0]);')
add('lowp_isqrt', [('float', 4)], [('float', 4)], 'stv(o, glm::inversesqrt(ldv<4,float,glm::lowp>(a)));')
# packing (narrowing conversions after round(clamp()*scale)), half
NN = lambda *ks: (lambda i: [z3.Not(is_nan(x)) for k in ks for x in i[k]])
add('pk_norm', [('float', 4)], [('uint32_t', 4), ('uint16_t', 2), ('uint8_t', 2)], 'glm::vec4 v = ldv<4,float>(a); o[0] = glm::packUnorm4x8(v); o[1] = glm::packSnorm4x8(v); o[2] = glm::packUnorm2x16(glm::vec2(v)); o[3] = glm::packSnorm2x16(glm::vec2(v)); o2[0] = glm::packUnorm2x8(glm::vec2(v)); o2[1] = glm::packSnorm2x8(glm::vec2(v)); o3[0] = glm::packUnorm1x8(v.x); o3[1] = glm::packSnorm1x8(v.x);', NN(0), 'non-NaN components')
add('pk_norm2', [('float', 4)], [('uint64_t', 2), ('uint32_t', 3), ('uint16_t', 5)], 'glm::vec4 v = ldv<4,float>(a); o[0] = glm::packUnorm4x16(v); o[1] = glm::packSnorm4x16(v); o2[0] = glm::packUnorm3x10_1x2(v); o2[1] = glm::packSnorm3x10_1x2(v); o2[2] = glm::packF2x11_1x10(glm::vec3(v)); o3[0] = glm::packUnorm1x16(v.x); o3[1] = glm::packSnorm1x16(v.x); o3[2] = glm::packUnorm1x5_1x6_1x5(glm::vec3(v)); o3[3] = glm::packUnorm3x5_1x1(v); o3[4] = glm::packUnorm4x4(v);', NN(0), 'non-NaN components',
    )
add('pk_small', [('float', 3)], [('uint8_t', 2)], 'glm::vec3 v = ldv<3,float>(a); o[0] = glm::packUnorm2x4(glm::vec2(v)); o[1] = glm::packUnorm2x3_1x2(v);',
    lambda i: [z3.And(z3.Not(is_nan(x)), z3.fpGEQ(fpof(x), FPV(0.0)), z3.fpLEQ(fpof(x), FPV(65408.0))) for x in i[0]], 'components in [0, 65408] (shared-exponent range)')
add('pk_int', [('int32_t', 4)], [('uint32_t', 2), ('uint64_t', 2)], 'glm::ivec4 v = ldv<4,int32_t>(a); o[0] = glm::packI3x10_1x2(v); o[1] = glm::packU3x10_1x2(glm::uvec4(v)); o2[0] = glm::packInt2x32(glm::i32vec2(v)); o2[1] = glm::packUint4x16(glm::u16vec4(v));')
add('upk', [('uint32_t', 1), ('uint64_t', 1), ('uint16_t', 1), ('uint8_t', 1)], [('float', 4)] * 4, 'stv(o, glm::unpackUnorm4x8(a[0]) + glm::unpackSnorm4x8(a[0]) + glm::unpackUnorm3x10_1x2(a[0]) + glm::unpackSnorm3x10_1x2(a[0])); stv(o2, glm::unpackUnorm4x16(b[0]) + glm::unpackSnorm4x16(b[0]) + glm::unpackHalf4x16(b[0])); stv(o3, glm::vec4(glm::unpackF2x11_1x10(a[0]), glm::unpackHalf1x16(c[0])) + glm::vec4(glm::unpackF3x9_E1x5(a[0]), 0.f)); stv(o4, glm::unpackUnorm4x4(c[0]) + glm::unpackUnorm3x5_1x1(c[0]) + glm::vec4(glm::unpackUnorm2x4(d[0]), glm::unpackUnorm1x8(d[0]), glm::unpackSnorm1x8(d[0])));', unwind=12)
for L in (1, 2, 3, 4):      # the length-templated gtc packers (memcpy-based for half)
    add('pk_tmpl%d' % L, [('float', L)], [('uint16_t', L), ('uint8_t', L), ('int16_t', L), ('float', L)],
        'stv(o, glm::packHalf(ldv<%d,float>(a))); stv(o2, glm::packUnorm<glm::uint8>(ldv<%d,float>(a))); stv(o3, glm::packSnorm<glm::int16>(ldv<%d,float>(a))); stv(o4, glm::unpackHalf(glm::packHalf(ldv<%d,float>(a))));' % (L, L, L, L), NN(0), 'non-NaN components', unwind=12)
add('half', [('float', 4)], [('uint16_t', 1), ('uint32_t', 1), ('uint64_t', 1)], 'o[0] = glm::packHalf1x16(a[0]); o2[0] = glm::packHalf2x16(ldv<2,float>(a)); o3[0] = glm::packHalf4x16(ldv<4,float>(a));', unwind=12)
# indexing: operator[] with a symbolic in-range index on vec / mat / quat
for L in (2, 3, 4):
    add('index_v%d' % L, [('float', L), ('int', 1)], [('float', 1)], 'glm::vec<%d,float> v = ldv<%d,float>(a); o[0] = v[b[0]];' % (L, L), lambda i, L=L: [i[1][0] >= 0, i[1][0] < L], '0 <= i < %d' % L)
add('index_m', [('float', 12), ('int', 2)], [('float', 1)], 'glm::mat<4,3,float> m = ldm<4,3,float>(a); o[0] = m[b[0]][b[1]];', lambda i: [i[1][0] >= 0, i[1][0] < 4, i[1][1] >= 0, i[1][1] < 3], '0 <= c < 4, 0 <= r < 3')
add('index_q', [('float', 4), ('int', 1)], [('float', 1)], 'glm::quat q = ldq<float>(a); o[0] = q[b[0]];', lambda i: [i[1][0] >= 0, i[1][0] < 4], '0 <= i < 4')
add('index_set', [('int32_t', 4), ('int', 1)], [('int32_t', 4)], 'glm::ivec4 v = ldv<4,int32_t>(a); v[b[0]] = 7; stv(o, v);', lambda i: [i[1][0] >= 0, i[1][0] < 4], '0 <= i < 4')

# quaternion component access in both memory orders (GLM_FORCE_QUAT_DATA_WXYZ has its own operator[] / value_ptr / relational code paths)
UQ = {}
for lay, defs in (('xyzw', []), ('wxyz', ['GLM_FORCE_QUAT_DATA_WXYZ'])):
    uq = Unit('c20_q' + lay, includes=INC + ['glm/gtc/type_ptr.hpp'], defines=defs); TQ = {}
    def addq(name, ins, outs, body, pre=None, bounds='all argument values', uq=uq, TQ=TQ): uq.add(name, ins, outs, body); TQ[name] = (pre, bounds, [], 16)
    for s_, Tf in (('f', 'float'), ('d', 'double')):
        idx = lambda i: [i[1][0] >= 0, i[1][0] < 4]
        addq('qidx_c_' + s_, [(Tf, 4), ('int', 1)], [(Tf, 1)], 'glm::qua<%s> const q = ldq<%s>(a); o[0] = q[b[0]];' % (Tf, Tf), idx, '0 <= i < 4 (const access)')
        addq('qidx_m_' + s_, [(Tf, 4), ('int', 1)], [(Tf, 4)], 'glm::qua<%s> q = ldq<%s>(a); q[b[0]] = q[3 - b[0]]; stq(o, q);' % (Tf, Tf), idx, '0 <= i < 4 (read and write through the non-const operator[])')
        addq('qrel_' + s_, [(Tf, 4), (Tf, 4), (Tf, 1)], [('bool', 4)] * 6, 'glm::qua<%s> const p = ldq<%s>(a), q = ldq<%s>(b); stv(o, glm::equal(p, q)); stv(o2, glm::notEqual(p, q)); stv(o3, glm::lessThan(p, q)); stv(o4, glm::greaterThanEqual(p, q)); stv(o5, glm::equal(p, q, c[0])); stv(o6, glm::isnan(p));' % (Tf, Tf, Tf))
        addq('qptr_' + s_, [(Tf, 4)], [(Tf, 4), (Tf, 4)], 'glm::qua<%s> const q = ldq<%s>(a); %s const* p = glm::value_ptr(q); for (int k = 0; k < 4; ++k) o[k] = p[k]; glm::qua<%s> r = glm::make_quat(p); stq(o2, r);' % (Tf, Tf, Tf, Tf))
    UQ[lay] = (uq, TQ)
def job_quat(lay):
    uq, TQ = UQ[lay]
    def run(S):
        for n in sorted(TQ):
            pre, btxt, known, unw = TQ[n]
            n_inc = len(S.inconclusive); n_rec = len(S.records)
            res = S.check_fn(uq, n, None, pre, ubsan=True, unwind=unw, bounds=btxt + '; UBSan-trap IR' + ('' if lay == 'xyzw' else ', GLM_FORCE_QUAT_DATA_WXYZ'), timeout=S.cap(60, 240), validate=0, assume_asserts=True, name='c20.q%s.%s' % (lay, n))
            if res is None:
                r = S.records[-1] if len(S.records) > n_rec else None
                if r is not None and r.get('status') == 'not-encoded' and 'oob' in str(r.get('note', '')):      # access at a concrete out-of-bounds offset: confirmed natively under AddressSanitizer
                    del S.inconclusive[n_inc:]; r['mandatory'] = False
                    if not hasattr(S, 'oob_pending'): S.oob_pending = []
                    S.oob_pending.append((uq, n, r))
        _resolve_oob(S)
    return run

def _roundeven_region(res, i):
    out = []
    for x in res.ins[0]:
        W = x.size(); xf = fpof(x)
        out.append(z3.Or(z3.fpIsNaN(xf), z3.fpIsInf(xf), z3.fpGEQ(z3.fpAbs(xf), FPV(2.0 ** 31, W))))
    return z3.Or(*out)
REGIONS = {'roundeven_out_of_int': _roundeven_region}
# ---- SIMD slice: aligned 4-component vectors in the GLM_FORCE_INTRINSICS build (the *_simd.inl specialisations and glm/simd/*.h kernels)
def _simd_unit(isa, flag):
    u = Unit('c20_' + isa, includes=INC, defines=['GLM_FORCE_INTRINSICS'], cflags=[flag]); TS = {}
    def addS(name, ins, outs, body, pre=None, bounds='all argument values', known=(), unwind=16):
        u.add(name, ins, outs, body); TS[name] = (pre, bounds, list(known), unwind)
    AI = 'ldv<4,int32_t,glm::aligned_highp>'; AU = 'ldv<4,uint32_t,glm::aligned_highp>'; AF = 'ldv<4,float,glm::aligned_highp>'
    addS('a_iabs', [('int32_t', 4)], [('int32_t', 4)] * 2, 'stv(o, glm::abs(%s(a))); stv(o2, glm::sign(%s(a)));' % (AI, AI), lambda i: [x != smin(32) for x in i[0]], 'x != INT_MIN')
    addS('a_iminmax', [('int32_t', 4)] * 3, [('int32_t', 4)] * 3, 'stv(o, glm::min(%s(a), %s(b))); stv(o2, glm::max(%s(a), %s(b))); stv(o3, glm::clamp(%s(a), %s(b), %s(c)));' % (AI, AI, AI, AI, AI, AI, AI))
    addS('a_uminmax', [('uint32_t', 4)] * 3, [('uint32_t', 4)] * 3, 'stv(o, glm::min(%s(a), %s(b))); stv(o2, glm::max(%s(a), %s(b))); stv(o3, glm::clamp(%s(a), %s(b), %s(c)));' % (AU, AU, AU, AU, AU, AU, AU))
    addS('a_ibitops', [('int32_t', 4)] * 2, [('int32_t', 4)] * 4, 'stv(o, %s(a) & %s(b)); stv(o2, %s(a) | %s(b)); stv(o3, %s(a) ^ %s(b)); stv(o4, ~%s(a));' % (AI, AI, AI, AI, AI, AI, AI))
    addS('a_ushift', [('uint32_t', 4), ('uint32_t', 1)], [('uint32_t', 4)] * 2, 'stv(o, %s(a) << b[0]); stv(o2, %s(a) >> b[0]);' % (AU, AU), lambda i: [z3.ULT(i[1][0], 32)], '0 <= shift < 32')
    addS('a_iarith', [('int32_t', 4)] * 2, [('int32_t', 4)] * 3, 'stv(o, %s(a) + %s(b)); stv(o2, %s(a) - %s(b)); stv(o3, %s(a) * %s(b));' % (AI, AI, AI, AI, AI, AI),
         lambda i: [h for x, y in zip(i[0], i[1]) for h in (sx(x, 66) + sx(y, 66) <= 2 ** 31 - 1, sx(x, 66) + sx(y, 66) >= -2 ** 31, sx(x, 66) - sx(y, 66) <= 2 ** 31 - 1, sx(x, 66) - sx(y, 66) >= -2 ** 31, sx(x, 66) * sx(y, 66) <= 2 ** 31 - 1, sx(x, 66) * sx(y, 66) >= -2 ** 31)], 'results representable')
    addS('a_bits', [('uint32_t', 4)], [('int', 4)] * 3 + [('uint32_t', 4)], 'stv(o, glm::bitCount(%s(a))); stv(o2, glm::findLSB(%s(a))); stv(o3, glm::findMSB(%s(a))); stv(o4, glm::bitfieldReverse(%s(a)));' % (AU, AU, AU, AU))
    addS('a_fround', [('float', 4)], [('float', 4)] * 4, 'stv(o, glm::floor(%s(a))); stv(o2, glm::ceil(%s(a))); stv(o3, glm::round(%s(a))); stv(o4, glm::trunc(%s(a)));' % (AF, AF, AF, AF))
    addS('a_fmisc', [('float', 4)] * 2, [('float', 4)] * 4, 'stv(o, glm::abs(%s(a))); stv(o2, glm::fract(%s(a))); stv(o3, glm::mod(%s(a), %s(b))); stv(o4, glm::sign(%s(a)));' % (AF, AF, AF, AF, AF))
    addS('a_fbool', [('float', 4), ('float', 4)], [('bool', 4)] * 4, 'stv(o, glm::isnan(%s(a))); stv(o2, glm::isinf(%s(a))); stv(o3, glm::lessThan(%s(a), %s(b))); stv(o4, glm::equal(%s(a), %s(b)));' % (AF, AF, AF, AF, AF, AF))      # bool results must be 0/1 bytes (UBSan bool)
    addS('a_fconv', [('float', 4)], [('int32_t', 4)], 'stv(o, glm::vec<4,int,glm::aligned_highp>(%s(a)));' % AF, lambda i: [z3.And(z3.Not(is_nan(x)), z3.fpLT(z3.fpAbs(fpof(x)), FPV(2.0 ** 31, 32))) for x in i[0]], '|x| < 2^31, non-NaN')
    for nm, ct in (('i', 'int32_t'), ('u', 'uint32_t'), ('f', 'float'), ('d', 'double')):
        for L in (3, 4):        # packed <-> aligned conversion constructors: unaligned source objects must be read with unaligned loads
            addS('a_conv%d%s' % (L, nm), [(ct, L)], [(ct, L)] * 2, 'struct alignas(16) H { %s pad; glm::vec<%d,%s,glm::packed_highp> p; } h; h.pad = a[0]; h.p = ldv<%d,%s,glm::packed_highp>(a);   /* packed source deliberately at a non-16-byte-aligned address */\n glm::vec<%d,%s,glm::aligned_highp> v(h.p); stv(o, v); H g; g.pad = a[0]; g.p = glm::vec<%d,%s,glm::packed_highp>(v); stv(o2, g.p);' % (ct, L, ct, L, ct, L, ct, L, ct))
    addS('a_index', [('float', 4), ('int', 1)], [('float', 1)], 'auto v = %s(a); o[0] = v[b[0]];' % AF, lambda i: [i[1][0] >= 0, i[1][0] < 4], '0 <= i < 4')
    return u, TS
SIMD = {isa: _simd_unit(isa, fl) for isa, fl in (('sse2', '-msse2'), ('avx2', '-mavx2'))}
def simd_isas(tier): return ['sse2'] if tier == 'quick' else ['sse2', 'avx2']
def units(tier): return [(U, '-O1', True)] + [(SIMD[i][0], '-O1', True) for i in simd_isas(tier)] + [(UM, '-O0', False), (UMS, '-O0', False)] + [(u, '-O1', True) for (g, t, ql, u, cases) in _sweep()] + [(_X.UT, '-O1', True), (_X.UX, '-O1', True)] + [(UQ[l][0], '-O1', True) for l in UQ]
NATIVE = False

def job(names):
    def run(S):
        for n in names:
            pre, btxt, known, unw = T[n]
            S.check_fn(U, n, None, pre, ubsan=True, unwind=unw, known=known, bounds=btxt + '; UBSan-trap IR', timeout=S.cap(240, 480) if n.startswith('mult') else S.cap(60, 240), validate=0, solver='portfolio' if n.startswith(('mult', 'ivecops', 'gtxint')) else 'z3', split_side=n.startswith('mult'), mandatory=n not in OPTIONAL)
    return run
# ---- memory-safety slice: the memcpy / union / pointer based functions in UNOPTIMISED IR (-O0 keeps every memcpy with its byte count; at -O1 clang folds an
# out-of-bounds copy between two stack objects away).  An out-of-bounds or uninitialised access seen by the executor is confirmed natively under AddressSanitizer.
from props.c17 import run_check as _run_check, resolve_oob as _resolve_oob
UM = Unit('c20_mem', includes=INC + ['glm/gtc/type_ptr.hpp'])
for L in (1, 2, 3, 4):
    UM.add('m_half%d' % L, [('float', L)], [('uint16_t', L), ('float', L)], 'stv(o, glm::packHalf(ldv<%d,float>(a))); stv(o2, glm::unpackHalf(glm::packHalf(ldv<%d,float>(a))));' % (L, L))
UM.add('m_halfx', [('float', 4)], [('uint16_t', 1), ('uint32_t', 1), ('uint64_t', 1), ('float', 4)], 'o[0] = glm::packHalf1x16(a[0]); o2[0] = glm::packHalf2x16(ldv<2,float>(a)); o3[0] = glm::packHalf4x16(ldv<4,float>(a)); stv(o4, glm::unpackHalf4x16(glm::packHalf4x16(ldv<4,float>(a))));')
UM.add('m_norm', [('float', 4)], [('uint32_t', 4), ('uint64_t', 2), ('uint16_t', 4), ('uint8_t', 3)], 'glm::vec4 v = ldv<4,float>(a); o[0] = glm::packUnorm4x8(v); o[1] = glm::packSnorm4x8(v); o[2] = glm::packUnorm2x16(glm::vec2(v)); o[3] = glm::packSnorm2x16(glm::vec2(v)); o2[0] = glm::packUnorm4x16(v); o2[1] = glm::packSnorm4x16(v); o3[0] = glm::packUnorm2x8(glm::vec2(v)); o3[1] = glm::packSnorm2x8(glm::vec2(v)); o3[2] = glm::packUnorm1x5_1x6_1x5(glm::vec3(v)); o3[3] = glm::packUnorm4x4(v); o4[0] = glm::packUnorm2x4(glm::vec2(v)); o4[1] = glm::packUnorm2x3_1x2(glm::vec3(v)); o4[2] = glm::packUnorm1x8(v.x);')
UM.add('m_small', [('float', 4)], [('uint32_t', 5)], 'glm::vec4 v = ldv<4,float>(a); o[0] = glm::packUnorm3x10_1x2(v); o[1] = glm::packSnorm3x10_1x2(v); o[2] = glm::packF2x11_1x10(glm::vec3(v)); o[3] = glm::packF3x9_E1x5(glm::vec3(v)); o[4] = glm::packI3x10_1x2(glm::ivec4(1, 2, 3, 1));')
UM.add('m_unpack', [('uint32_t', 1), ('uint64_t', 1), ('uint16_t', 1)], [('float', 4)] * 4, 'stv(o, glm::unpackUnorm4x8(a[0]) + glm::unpackSnorm4x8(a[0]) + glm::unpackUnorm3x10_1x2(a[0]) + glm::unpackSnorm3x10_1x2(a[0])); stv(o2, glm::unpackUnorm4x16(b[0]) + glm::unpackSnorm4x16(b[0]) + glm::unpackHalf4x16(b[0])); stv(o3, glm::vec4(glm::unpackF2x11_1x10(a[0]), glm::unpackHalf1x16(c[0]))); stv(o4, glm::unpackUnorm4x4(c[0]) + glm::unpackUnorm3x5_1x1(c[0]));')
UM.add('m_int', [('int32_t', 4), ('uint64_t', 1), ('double', 1)], [('uint64_t', 3), ('int32_t', 2), ('uint32_t', 2), ('double', 1)], 'glm::ivec4 v = ldv<4,int32_t>(a); o[0] = glm::packInt2x32(glm::i32vec2(v)); o[1] = glm::packUint4x16(glm::u16vec4(v)); o[2] = glm::packInt4x16(glm::i16vec4(v)); stv(o2, glm::unpackInt2x32(b[0])); stv(o3, glm::unpackDouble2x32(c[0])); o4[0] = glm::packDouble2x32(glm::unpackDouble2x32(c[0]));')
UM.add('m_bits', [('float', 4), ('int32_t', 4)], [('int32_t', 4), ('uint32_t', 4), ('float', 4), ('float', 4)], 'stv(o, glm::floatBitsToInt(ldv<4,float>(a))); stv(o2, glm::floatBitsToUint(ldv<4,float>(a))); stv(o3, glm::intBitsToFloat(ldv<4,int32_t>(b))); stv(o4, glm::uintBitsToFloat(glm::uvec4(ldv<4,int32_t>(b))));')
for L in (2, 3, 4):
    UM.add('m_makev%d' % L, [('float', L)], [('float', L)], 'glm::vec<%d,float> v = glm::make_vec%d(a); float const* p = glm::value_ptr(v); for (int k = 0; k < %d; ++k) o[k] = p[k];' % (L, L, L))
for (C, R) in ((2, 2), (2, 3), (3, 3), (4, 3), (3, 4), (4, 4)):
    UM.add('m_makem%d%d' % (C, R), [('float', C * R)], [('float', C * R)], 'glm::mat<%d,%d,float> m = glm::make_mat%dx%d(a); float const* p = glm::value_ptr(m); for (int k = 0; k < %d; ++k) o[k] = p[k];' % (C, R, C, R, C * R))
UM.add('m_makeq', [('float', 4)], [('float', 4)], 'glm::quat q = glm::make_quat(a); float const* p = glm::value_ptr(q); for (int k = 0; k < 4; ++k) o[k] = p[k];')
# the same out-of-bounds-only claim for the SIMD conversion constructors (packed -> aligned and back, every precision pair): their loads/stores have a static size in -O0 IR
UMS = Unit('c20_mem_sse2', includes=INC, defines=['GLM_FORCE_INTRINSICS'], cflags=['-msse2'])
for nm_, ct_ in (('f', 'float'), ('i', 'int32_t'), ('u', 'uint32_t'), ('d', 'double')):
    for L_ in (3, 4):
        for ps_, pd_ in (('highp', 'highp'), ('mediump', 'mediump'), ('lowp', 'highp'), ('mediump', 'highp'), ('highp', 'lowp')):
            UMS.add('mc%d%s_%s_%s' % (L_, nm_, ps_, pd_), [(ct_, L_)], [(ct_, L_)] * 2,
                    'glm::vec<%d,%s,glm::packed_%s> p = ldv<%d,%s,glm::packed_%s>(a); glm::vec<%d,%s,glm::aligned_%s> v(p); stv(o, v); glm::vec<%d,%s,glm::packed_%s> r(v); stv(o2, r);' % (L_, ct_, ps_, L_, ct_, ps_, L_, ct_, pd_, L_, ct_, ps_))
def job_mem(names, UM_=None):
    if UM_ is not None: return _job_mem(names, UM_)
    return _job_mem(names, UM)
def _job_mem(names, UM):
    def run(S):
        for n in names:
            n_inc = len(S.inconclusive); n_rec = len(S.records)
            res = S.check_fn(UM, n, None, None, side=False, opt='-O0', validate=0, unwind=24, witness=False, bounds='all argument values; unoptimised IR (every memcpy / load / store with its static size); only out-of-bounds accesses are claimed here')
            if res is None:
                r = S.records[-1] if len(S.records) > n_rec else None
                if r is not None and r.get('status') == 'not-encoded' and 'oob' in str(r.get('note', '')):      # concrete out-of-bounds access: confirm natively under AddressSanitizer
                    del S.inconclusive[n_inc:]; r['mandatory'] = False
                    if not hasattr(S, 'oob_pending'): S.oob_pending = []
                    S.oob_pending.append((UM, n, r))
                continue
            conds = [c for k, c, d in res.obligations if k == 'oob']
            name = 'c20_mem.%s.in-bounds' % n
            if not conds:
                S.rec(name=name, kind='oob', functions=[n], bounds='unoptimised IR', solver='executor: every access at a concrete in-bounds offset', result='unsat', time_s=0.0, status='discharged', mandatory=True)
            else:
                S.prove(name, z3.Not(z3.Or(*conds)) if len(conds) > 1 else z3.Not(conds[0]), input_wellformed(UM.fns[n], res.ins) + res.axioms, timeout=S.cap(60, 200), kind='oob', functions=[n], bounds='unoptimised IR; symbolic offsets')
        _resolve_oob(S)
    return run
# ---- catalogue sweep: the float (f32, all vector lengths 1-4) function catalogue of C01 (func_common, func_exponential, func_trigonometric, relational, ext/vector_common ...)
# re-executed from UBSan-trap IR under C01's documented preconditions: no trap reachable in the vector overloads nor in the scalar references
import props.c01 as _C01
def _sweep():
    _C01.build('quick')
    return [(g, t, ql, u, cases) for (g, t, ql, u, cases) in _C01.CASES.get('quick', []) if (t == 'f32' and g in ('common', 'exptrig', 'rel', 'ext')) or (t in ('u8', 'i32') and g == 'rel')]       # integer function families have their own table entries with the documented preconditions
def job_sweep(u, cases):
    def run(S):
        for C in cases:
            if C.mode != 'fp' or C.name.startswith('floatDistance'): continue      # floatDistance: the distance must fit the return type (table entry ulp_* carries that precondition)
            S.check_fn(u, C.name, None, C.pre, ubsan=True, unwind=C.unwind, validate=0, witness=False, timeout=S.cap(60, 200), name='c20.sweep.%s.%s' % (u.name, C.name), bounds=(C.bounds or 'all values') + '; UBSan-trap IR of the C01 wrapper (vector overload and scalar reference)')
    return run
def job_simd(isa, names):
    u, TS = SIMD[isa]
    def run(S):
        for n in names:
            pre, btxt, known, unw = TS[n]
            S.check_fn(u, n, None, pre, ubsan=True, unwind=unw, known=known, bounds=btxt + '; UBSan-trap IR, GLM_FORCE_INTRINSICS ' + isa, timeout=S.cap(60, 240), validate=0)
    return run
# ---- extension: matrix / quaternion / geometric / transform / gtx-helper functions (props/c20_ext.py); glm's own assert()s are assumed (documented preconditions)
import props.c20_ext as _X
def job_ext(unit, names, table):
    def run(S):
        for n in names:
            if table is None: pre, btxt, unw = _X.TPRE.get(n), 'all argument values' + ('' if n not in _X.TPRE else ' within the documented domain of the operation (C15 table precondition)'), 16
            else: pre, btxt, unw = table[n]
            S.check_fn(unit, n, None, pre, ubsan=True, unwind=unw, bounds=btxt + '; glm assert()s assumed to hold; UBSan-trap IR', timeout=S.cap(60, 240), validate=0, assume_asserts=True,
                       solver='portfolio' if n.startswith('gtxint') else 'z3', name='c20.%s.%s' % ('tab' if table is None else 'ext', n))
    return run
def jobs_ext(tier):
    tab = list(_X.TAB); ext = sorted(_X.XT)
    if tier == 'quick': ext = [n for n in ext if n not in ('decompose', 'gtxbit_i64')]
    return [('tab_%d' % k, job_ext(_X.UT, tab[k::6], None)) for k in range(6)] + [('ext_%d' % k, job_ext(_X.UX, ext[k::6], _X.XT)) for k in range(6)]
def jobs(tier):
    mem = sorted(UM.fns); sw = []
    for (g, t, ql, u, cases) in _sweep():
        for k in range(3):
            if cases[k::3]: sw.append(('sweep_%s_%s_%s_%d' % (g, t, ql, k), job_sweep(u, cases[k::3])))
    return jobs_pure(tier) + jobs_ext(tier) + [('quat_' + l, job_quat(l)) for l in UQ] + sw + [('mem_%d' % k, job_mem(mem[k::4])) for k in range(4)] + [('memsimd_%d' % k, job_mem(sorted(UMS.fns)[k::4], UMS)) for k in range(4)] + [('simd_%s_%d' % (isa, k), job_simd(isa, sorted(SIMD[isa][1])[k::3])) for isa in simd_isas(tier) for k in range(3)]
def jobs_pure(tier):
    names = sorted(U.fns)
    if tier == 'quick': names = [n for n in names if not re.search(r'_(i8|u16|i16)$', n) and n not in OPTIONAL]
    k = 14; n = (len(names) + k - 1) // k
    return [('g%02d' % j, job(names[j * n:(j + 1) * n])) for j in range(k) if names[j * n:(j + 1) * n]]
