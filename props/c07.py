"""C07 - float <-> half conversion (detail/type_half.inl through packHalf*/unpackHalf*)."""
from props.common import *
LEVEL = 'proof'
CLAIM = 'toFloat16/toFloat32 as reached through every packHalf*/unpackHalf* entry point are executed symbolically; the solver shows half->float is the exact binary16 value for all 65536 patterns (NaN sign/payload kept), pack(unpack(h))==h, and float->half is a nearest half (RNE or RNA neighbour) for all 2^32 patterns with the stated overflow/underflow/Inf/NaN, monotonicity and sign-symmetry rules, against SMT-LIB to_fp as independent oracle.'
BOUNDS = 'complete input space symbolically: all 2^16 half patterns, all 2^32 float patterns; loops: toFloat32 renormalisation (unwind 12 >= 10 shifts + 1, unwinding assertion), overflow() volatile loop (10 iterations)'
OUTSIDE = 'hvec/hmat storage typedefs are plain 16-bit integers (no conversion code of their own)'
F16 = z3.Float16(); F32 = z3.Float32()
U = Unit('c07', includes=['glm/glm.hpp', 'glm/packing.hpp', 'glm/gtc/packing.hpp'])
U.add('pack1', [('float', 1)], [('uint16_t', 1)], 'o[0] = glm::packHalf1x16(a[0]);')
U.add('unpack1', [('uint16_t', 1)], [('float', 1)], 'o[0] = glm::unpackHalf1x16(a[0]);')
U.add('pack2', [('float', 2)], [('uint32_t', 1)], 'o[0] = glm::packHalf2x16(ldv<2,float>(a));')
U.add('unpack2', [('uint32_t', 1)], [('float', 2)], 'stv(o, glm::unpackHalf2x16(a[0]));')
U.add('pack4', [('float', 4)], [('uint64_t', 1)], 'o[0] = glm::packHalf4x16(ldv<4,float>(a));')
U.add('unpack4', [('uint64_t', 1)], [('float', 4)], 'stv(o, glm::unpackHalf4x16(a[0]));')
for L in (1, 2, 3, 4):
    U.add('packL%d' % L, [('float', L)], [('uint16_t', L)], 'stv(o, glm::packHalf(ldv<%d,float>(a)));' % L)
    U.add('unpackL%d' % L, [('uint16_t', L)], [('float', L)], 'stv(o, glm::unpackHalf(ldv<%d,glm::uint16>(a)));' % L)
U.add('round1', [('uint16_t', 1)], [('uint16_t', 1)], 'o[0] = glm::packHalf1x16(glm::unpackHalf1x16(a[0]));')
U.add('pack1pair', [('float', 2)], [('uint16_t', 2)], 'o[0] = glm::packHalf1x16(a[0]); o[1] = glm::packHalf1x16(a[1]);')
def units(tier): return [U]

def half_exact(h, fbits):
    """float bits fbits are exactly the binary16 value of pattern h (NaN: sign and payload placement preserved)"""
    hf = z3.fpBVToFP(h, F16); ff = z3.fpBVToFP(fbits, F32)
    conv = z3.fpFPToFP(RNE, hf, F32)     # widening is exact
    nan_ok = z3.And(z3.fpIsNaN(ff), z3.Extract(31, 31, fbits) == z3.Extract(15, 15, h), z3.Extract(22, 13, fbits) == z3.Extract(9, 0, h))
    return z3.If(z3.fpIsNaN(hf), nan_ok, fbits == z3.fpToIEEEBV(conv))
def to_half_goals(xb, h, tag=''):
    x = z3.fpBVToFP(xb, F32)
    rne = z3.fpToIEEEBV(z3.fpFPToFP(RNE, x, F16)); rna = z3.fpToIEEEBV(z3.fpFPToFP(RNA, x, F16))
    notnan = z3.Not(z3.fpIsNaN(x))
    ax = z3.fpAbs(x)
    g = [
        ('nearest' + tag, z3.Implies(notnan, z3.Or(h == rne, h == rna))),
        ('overflow-to-inf' + tag, z3.Implies(z3.And(notnan, z3.fpGEQ(ax, FPV(65520.0))), h == z3.Concat(z3.Extract(31, 31, xb), z3.BitVecVal(0x7c00, 16)[14:0] if False else z3.BitVecVal(0x7c00, 15)))),
        ('underflow-to-zero' + tag, z3.Implies(z3.fpLT(ax, FPV(2.0 ** -25)), h == z3.Concat(z3.Extract(31, 31, xb), z3.BitVecVal(0, 15)))),
        ('inf-kept' + tag, z3.Implies(z3.fpIsInf(x), h == z3.Concat(z3.Extract(31, 31, xb), z3.BitVecVal(0x7c00, 15)))),
        ('nan-kept' + tag, z3.Implies(z3.fpIsNaN(x), z3.And(z3.fpIsNaN(z3.fpBVToFP(h, F16)), z3.Extract(15, 15, h) == z3.Extract(31, 31, xb)))),
        ('finite-below-boundary-stays-finite' + tag, z3.Implies(z3.And(notnan, z3.fpLT(ax, FPV(65520.0))), z3.Not(z3.fpIsInf(z3.fpBVToFP(h, F16))))),
    ]
    return g

def job_unpack1(S):
    spec = lambda i, o: [('exact', half_exact(i[0][0], o[0][0].bits))]
    mut = lambda i, o: [('rne-of-next', o[0][0].bits == z3.fpToIEEEBV(z3.fpFPToFP(RNE, z3.fpBVToFP(i[0][0] + 1, F16), F32)))]
    S.check_fn(U, 'unpack1', spec, mutant=mut, unwind=12, bounds='all 65536 half patterns')
def job_roundtrip(S):
    S.check_fn(U, 'round1', lambda i, o: [('pack(unpack(h))==h', o[0][0] == i[0][0])], unwind=12, bounds='all 65536 half patterns')
def job_pack1(S):
    spec = lambda i, o: to_half_goals(i[0][0], o[0][0])
    mut = lambda i, o: [('always-rne', o[0][0] == z3.fpToIEEEBV(z3.fpFPToFP(RNE, fp32(i[0][0]), F16)))]
    S.check_fn(U, 'pack1', spec, mutant=mut, unwind=12, bounds='all 2^32 float patterns')
def job_symm(S):
    S.check_fn(U, 'pack1pair', lambda i, o: [('sign-symmetric', o[0][0] == (o[0][1] ^ 0x8000))], pre=lambda i: [i[0][1] == (i[0][0] ^ 0x80000000)], unwind=12, bounds='all 2^32 float patterns x and -x')
def job_mono(S):
    def spec(i, o):
        hx = z3.fpBVToFP(o[0][0], F16); hy = z3.fpBVToFP(o[0][1], F16)
        return [('monotone', z3.fpLEQ(hx, hy))]
    pre = lambda i: [z3.Not(is_nan(i[0][0])), z3.Not(is_nan(i[0][1])), z3.fpLEQ(fp32(i[0][0]), fp32(i[0][1]))]
    S.check_fn(U, 'pack1pair', spec, pre, unwind=12, name='c07.pack1pair.mono', bounds='all pairs of non-NaN floats x<=y (2^64 pairs)')
def job_multi(S):
    # multi-component forms: component k -> field k (first component in least significant bits), each field == scalar conversion
    def spec2(i, o): return [g for k in range(2) for g in to_half_goals(i[0][k], z3.Extract(16 * k + 15, 16 * k, o[0][0]), '[%d]' % k)]
    S.check_fn(U, 'pack2', spec2, unwind=12, bounds='all 2^64 vec2 values')
    S.check_fn(U, 'unpack2', lambda i, o: [('exact[%d]' % k, half_exact(z3.Extract(16 * k + 15, 16 * k, i[0][0]), o[0][k].bits)) for k in range(2)], unwind=12, bounds='all 2^32 words')
    def spec4(i, o): return [g for k in range(4) for g in to_half_goals(i[0][k], z3.Extract(16 * k + 15, 16 * k, o[0][0]), '[%d]' % k)]
    S.check_fn(U, 'pack4', spec4, unwind=12, bounds='all vec4 values')
    S.check_fn(U, 'unpack4', lambda i, o: [('exact[%d]' % k, half_exact(z3.Extract(16 * k + 15, 16 * k, i[0][0]), o[0][k].bits)) for k in range(4)], unwind=12, bounds='all 2^64 words')
def job_vecL(L):
    def run(S):
        S.check_fn(U, 'packL%d' % L, lambda i, o: [g for k in range(L) for g in to_half_goals(i[0][k], o[0][k], '[%d]' % k)], unwind=12, bounds='all component values')
        S.check_fn(U, 'unpackL%d' % L, lambda i, o: [('exact[%d]' % k, half_exact(i[0][k], o[0][k].bits)) for k in range(L)], unwind=12, bounds='all component patterns')
    return run
def jobs(tier):
    J = [('unpack1', job_unpack1), ('roundtrip', job_roundtrip), ('pack1', job_pack1), ('symmetry', job_symm), ('monotone', job_mono), ('multi', job_multi)]
    for L in ((4,) if tier == 'quick' else (1, 2, 3, 4)): J.append(('vec%d' % L, job_vecL(L)))
    return J
