"""C08 - projection builders map the view volume onto the configured clip volume (ext/matrix_clip_space.inl, ext/matrix_projection.inl)."""
import re as _re
from props.common import *
LEVEL = 'proof'
CLAIM = ("Every ortho/frustum/perspective/perspectiveFov/infinitePerspective/tweakedInfinitePerspective builder (all fully suffixed variants, and the unsuffixed / half-suffixed ones under the "
         "default configuration) is executed symbolically from its clang IR over rounding-erased (real) arithmetic with fully symbolic parameters; the solver shows that the returned matrix sends "
         "the 8 corners of the view volume (4 for 2-D ortho; near corners and an arbitrary depth d >= near for the infinite variants), after the perspective divide with w > 0, to x,y = -1/+1, "
         "z = -1 (NO) or 0 (ZO) on the near plane and +1 on the far plane, RH looking down -z and LH down +z; that perspective is the symmetric frustum with top = near*tan(fovy/2) and "
         "perspectiveFov is perspective(aspect = width/height); that ndc_z(d) = 1 - k*near/d (k = 2 NO, 1 ZO) for the infinite variants. Under the four clip-control configurations "
         "({}, GLM_FORCE_LEFT_HANDED, GLM_FORCE_DEPTH_ZERO_TO_ONE, both) every unsuffixed and half-suffixed builder, project and unProject is shown bit-exactly (IEEE, all float/double inputs, "
         "libm as uninterpreted functions) equal to the selected fully suffixed variant. projectNO/ZO equal viewport(ndc(proj*model*p)) with depth (z+1)/2 resp. z, send the clip-cube corners "
         "to the viewport rectangle x [0,1]; unProject inverts project (both orders) and pickMatrix maps the pick rectangle onto the NDC square. "
         "project*/unProject*/pickMatrix are templated on the viewport's element type U: all of the above (general specification with symbolic matrices, clip cube -> viewport rectangle, "
         "viewport rectangle -> clip cube, unProject(project(p)) == p, pickMatrix, dispatch) is repeated for U = int, uint and the other floating type with fully symbolic viewport components "
         "(every 32-bit value; T(viewport[k]) is the exact integer once rounding is erased), and the clip-cube corners are additionally decided bit-exactly (IEEE) for a uvec4 viewport with float matrices.")
BOUNDS = ('rounding-erased real arithmetic (tan/sin/cos Ackermannised: tan(fovy/2) > 0, sin(fov/2) > 0, cos(fov/2) > 0, tan*cos = sin, sin^2+cos^2 = 1); left<right, bottom<top, 0<near<far, aspect>0, '
          'width,height>0, 0<ep<1; project: clip w != 0; unProject/project round trip: model affine with symbolic 3x4 part and proj of the perspective/ortho sparsity pattern (general 4x4 x 4x4 attempted, '
          'non-mandatory); integer viewports: all 32-bit component values (bit-exact corner check: components < 2^16, quick: 2 opposite corners, thorough: all 8); '
          'dispatch: bit-exact, all bit patterns on which the selected variant passes its own assert()s')
OUTSIDE = ('float rounding of the matrix entries; fovy at the ends of (0,pi); infinitePerspectiveLH/infinitePerspectiveRH are declared in matrix_clip_space.hpp but have no definition in this tree '
           '(cannot be instantiated; checked automatically once a definition appears); unProject(project(p)) for two fully general 4x4 matrices is attempted non-mandatory; float rounding of T(viewport[k]) for integer viewport components beyond 2^24 (float) is erased like every other '
           'rounding; the bit-exact corner check for a signed (ivec4) viewport is attempted non-mandatory in the thorough tier only (signed int->float conversion + add does not bit-blast within the cap)')
ASSUMPTIONS = ['rounding-erased semantics: every float operation is exact; tan/sin/cos are uninterpreted reals constrained only by the listed identities and sign facts for angles in (0, pi/2)',
               'dispatch: libm tan/sin/cos are uninterpreted functions (the same function on both sides)']

_CLIP_INL = open(os.path.join(REPO, 'glm', 'ext', 'matrix_clip_space.inl')).read()
HAVE_INF_HALF = bool(_re.search(r'\binfinitePerspectiveLH\s*\(', _CLIP_INL)) and bool(_re.search(r'\binfinitePerspectiveRH\s*\(', _CLIP_INL))

FT = {'f32': 'float', 'f64': 'double'}
FULL = ['LH_ZO', 'LH_NO', 'RH_ZO', 'RH_NO']
HALF = ['ZO', 'NO', 'LH', 'RH']
VARS9 = [''] + FULL + HALF
INFV = [''] + FULL + (['LH', 'RH'] if HAVE_INF_HALF else [])
INC = ['glm/glm.hpp', 'glm/ext/matrix_clip_space.hpp', 'glm/ext/matrix_projection.hpp', 'glm/ext/matrix_transform.hpp', 'glm/gtc/matrix_transform.hpp']
U = Unit('c08', includes=INC + ['cmath'])
VPT = {'i': ('int', 'int'), 'u': ('unsigned', 'glm::uint')}
def vp_types(t):
    """viewport element types U != T: tag -> (wrapper ctype, glm type)"""
    d = dict(VPT); d['x'] = ('double', 'double') if t == 'f32' else ('float', 'float'); return d
def args(n): return ', '.join('a[%d]' % k for k in range(n))
for t, c in FT.items():
    U.add('ortho2d_' + t, [(c, 4)], [(c, 16)], 'stm(o, glm::ortho(%s));' % args(4))
    for v in VARS9:
        U.add('ortho%s_%s' % (v, t), [(c, 6)], [(c, 16)], 'stm(o, glm::ortho%s(%s));' % (v, args(6)))
        U.add('frustum%s_%s' % (v, t), [(c, 6)], [(c, 16)], 'stm(o, glm::frustum%s(%s));' % (v, args(6)))
        # o2[0] = tan(fovy/2) as the specification's view of the half-angle tangent
        U.add('perspective%s_%s' % (v, t), [(c, 4)], [(c, 16), (c, 1)], 'stm(o, glm::perspective%s(%s)); o2[0] = std::tan(a[0] / %s(2));' % (v, args(4), c))
        U.add('perspectiveFov%s_%s' % (v, t), [(c, 5)], [(c, 16), (c, 1)], 'stm(o, glm::perspectiveFov%s(%s)); o2[0] = std::tan(a[0] / %s(2));' % (v, args(5), c))
    for v in FULL:
        # perspective == symmetric frustum; perspectiveFov == perspective(aspect = w/h)
        U.add('persp_eq_frustum%s_%s' % (v, t), [(c, 4)], [(c, 16), (c, 16)],
              '%s t = a[2] * std::tan(a[0] / %s(2)); %s r = t * a[1]; stm(o, glm::perspective%s(%s)); stm(o2, glm::frustum%s(-r, r, -t, t, a[2], a[3]));' % (c, c, c, v, args(4), v))
        U.add('fov_eq_persp%s_%s' % (v, t), [(c, 5)], [(c, 16), (c, 16)],
              'stm(o, glm::perspectiveFov%s(%s)); stm(o2, glm::perspective%s(a[0], a[1] / a[2], a[3], a[4]));' % (v, args(5), v))
    for v in INFV:
        U.add('infinitePerspective%s_%s' % (v, t), [(c, 3), (c, 2)], [(c, 16), (c, 1)], 'stm(o, glm::infinitePerspective%s(%s)); o2[0] = std::tan(a[0] / %s(2));' % (v, args(3), c))
    U.add('tweaked4_' + t, [(c, 4), (c, 2)], [(c, 16), (c, 1)], 'stm(o, glm::tweakedInfinitePerspective(%s)); o2[0] = std::tan(a[0] / %s(2));' % (args(4), c))
    U.add('tweaked3_' + t, [(c, 3), (c, 2)], [(c, 16), (c, 1)], 'stm(o, glm::tweakedInfinitePerspective(%s)); o2[0] = std::tan(a[0] / %s(2));' % (args(3), c))
    PJ = 'ldv<3,%s>(a), ldm<4,4,%s>(b), ldm<4,4,%s>(c), ldv<4,%s>(d)' % (c, c, c, c)
    for v in ('', 'ZO', 'NO'):
        U.add('project%s_%s' % (v, t), [(c, 3), (c, 16), (c, 16), (c, 4)], [(c, 3)], 'stv(o, glm::project%s(%s));' % (v, PJ))
        U.add('unProject%s_%s' % (v, t), [(c, 3), (c, 16), (c, 16), (c, 4)], [(c, 3)], 'stv(o, glm::unProject%s(%s));' % (v, PJ))
        U.add('unproj_proj%s_%s' % (v, t), [(c, 3), (c, 16), (c, 16), (c, 4)], [(c, 3)],
              'stv(o, glm::unProject%s(glm::project%s(%s), ldm<4,4,%s>(b), ldm<4,4,%s>(c), ldv<4,%s>(d)));' % (v, v, PJ, c, c, c))
        U.add('proj_unproj%s_%s' % (v, t), [(c, 3), (c, 16), (c, 16), (c, 4)], [(c, 3)],
              'stv(o, glm::project%s(glm::unProject%s(%s), ldm<4,4,%s>(b), ldm<4,4,%s>(c), ldv<4,%s>(d)));' % (v, v, PJ, c, c, c))
    # project / unProject / pickMatrix are templated on the viewport's element type U: int, uint and the other float type as U
    for vt, (vc, vg) in vp_types(t).items():
        PJV = 'ldv<3,%s>(a), ldm<4,4,%s>(b), ldm<4,4,%s>(c), ldv<4,%s>(d)' % (c, c, c, vg)
        sig = [(c, 3), (c, 16), (c, 16), (vc, 4)]
        for v in ('', 'ZO', 'NO'):
            U.add('project%s_%svp_%s' % (v, vt, t), sig, [(c, 3)], 'stv(o, glm::project%s(%s));' % (v, PJV))
            U.add('unProject%s_%svp_%s' % (v, vt, t), sig, [(c, 3)], 'stv(o, glm::unProject%s(%s));' % (v, PJV))
            U.add('unproj_proj%s_%svp_%s' % (v, vt, t), sig, [(c, 3)],
                  'stv(o, glm::unProject%s(glm::project%s(%s), ldm<4,4,%s>(b), ldm<4,4,%s>(c), ldv<4,%s>(d)));' % (v, v, PJV, c, c, vg))
        U.add('pickMatrix_%svp_%s' % (vt, t), [(c, 2), (c, 2), (vc, 4), (c, 1)], [(c, 16)], 'stm(o, glm::pickMatrix(ldv<2,%s>(a), ldv<2,%s>(b), ldv<4,%s>(c)));' % (c, c, vg))
    U.add('pickMatrix_' + t, [(c, 2), (c, 2), (c, 4), (c, 1)], [(c, 16)], 'stm(o, glm::pickMatrix(ldv<2,%s>(a), ldv<2,%s>(b), ldv<4,%s>(c)));' % (c, c, c))

CONFIGS = {'RH_NO': [], 'LH_NO': ['GLM_FORCE_LEFT_HANDED'], 'RH_ZO': ['GLM_FORCE_DEPTH_ZERO_TO_ONE'], 'LH_ZO': ['GLM_FORCE_LEFT_HANDED', 'GLM_FORCE_DEPTH_ZERO_TO_ONE']}
UC = {k: (U if not d else U.clone('c08_' + k, defines=d)) for k, d in CONFIGS.items()}
def units(tier): return list(UC.values())
NATIVE = True

# ----------------------------------------------------------------------------- specification helpers (pure, column-major m[c*4+r])
def rv(x): return x.r if isinstance(x, RV) else x
def mulv(M, v):
    """clip = M * v for a 4x4 column-major list of 16 and a 4-vector"""
    M = [rv(x) for x in M]
    return [sum(M[c * 4 + r] * v[c] for c in range(4)) for r in range(4)]
def matmul(A, B):
    A = [rv(x) for x in A]; B = [rv(x) for x in B]
    return [sum(A[k * 4 + r] * B[c * 4 + k] for k in range(4)) for c in range(4) for r in range(4)]
def selected(v, cfg='RH_NO'):
    """fully suffixed variant that a (possibly half-/un-suffixed) name denotes under configuration cfg"""
    if v in FULL: return v
    h, d = cfg.split('_')
    if v == '': return cfg
    if v in ('ZO', 'NO'): return h + '_' + v
    return v + '_' + d
def corner_goals(M, corners, hand, tag=''):
    """corners: [(label, x, y, depth, ex, ey, ez)] ; the point (x, y, -depth | +depth, 1) must land on (ex, ey, ez) after the divide, w > 0"""
    g = []
    for lab, x, y, dpt, ex_, ey_, ez_ in corners:
        z = -dpt if hand == 'RH' else dpt
        cx, cy, cz, cw = mulv(M, [x, y, z, 1])
        g += [('%s%s.w>0' % (tag, lab), RGoal('gt', cw, z3.RealVal(0))), ('%s%s.x' % (tag, lab), REq(cx, ex_ * cw)),
              ('%s%s.y' % (tag, lab), REq(cy, ey_ * cw)), ('%s%s.z' % (tag, lab), REq(cz, ez_ * cw))]
    return g
def box_corners(l, r, b, t, n, f, depth, persp):
    """the 8 corners of an ortho box / frustum: far-plane extents scale with f/n for a frustum"""
    zn = -1 if depth == 'NO' else 0
    out = []
    for (sxn, X) in (('l', l), ('r', r)):
        for (syn, Y) in (('b', b), ('t', t)):
            ex_ = -1 if sxn == 'l' else 1; ey_ = -1 if syn == 'b' else 1
            out.append(('near-%s%s' % (sxn, syn), X, Y, n, ex_, ey_, zn))
            if persp: out.append(('far-%s%s' % (sxn, syn), X * f / n, Y * f / n, f, ex_, ey_, 1))
            else: out.append(('far-%s%s' % (sxn, syn), X, Y, f, ex_, ey_, 1))
    return out
def wrong_twin(spec):
    """mutant twin: the same specification with the near and far clip depths exchanged must be refutable"""
    def m(i, o):
        g = dict(spec(i, o)); a = g['near-lb.z']; b = g['far-lb.z'] if 'far-lb.z' in g else g['depth-d.z-form']
        return [('near-z-as-far', RGoal('eq', a.l, a.r + (b.r - a.r if 'far-lb.z' in g else 1)))]
    return m
def trig_pos(res):
    """all angles passed to tan/sin/cos here are fovy/2 with 0 < fovy < pi: the functions are positive"""
    return [v > 0 for (v, a) in getattr(res.ex, 'trig', {}).values()]

def pre_box(i):
    l, r, b, t, n, f = i[0]; return [l < r, b < t, n > 0, n < f]
PI_LO = z3.Q(314159, 100000)     # fovy only reaches the code through tan/sin/cos (Ackermannised); the range keeps counterexample replays inside the documented domain
def fov_ok(x): return [x > 0, x < PI_LO]
def pre_persp(i):
    fovy, asp, n, f = i[0]; return fov_ok(fovy) + [asp > 0, n > 0, n < f]
def pre_persp_ne(c):
    # aspect == epsilon trips glm's assertion (known finding, reported bit-exactly by the assert_* jobs); a native replay would abort the checker
    return lambda i: pre_persp(i) + [i[0][1] != eps_of(c)]
def pre_fov(i):
    fov, w, h, n, f = i[0]; return fov_ok(fov) + [w > 0, h > 0, n > 0, n < f]
def _aspect_eps(res, k):
    a = res.ins[0][1]; c = res.fn.ins[0][0]
    if z3.is_bv(a): return a == z3.BitVecVal(float_to_bits(2.0 ** (-23 if c == 'float' else -52), a.size()), a.size())
    return a == eps_of(c)
REGIONS = {'aspect_eps': _aspect_eps}
def eps_of(c): return z3.Q(1, 2 ** (23 if c == 'float' else 52))
KF_ASSERT = 'KF-C08-perspective-assert-aspect-epsilon'

# ----------------------------------------------------------------------------- jobs: view volume -> clip volume (real)
def job_ortho(t, vs):
    c = FT[t]
    def run(S):
        def spec2(i, o):
            l, r, b, tp = i[0]; g = []
            for (sxn, X) in (('l', l), ('r', r)):
                for (syn, Y) in (('b', b), ('t', tp)):
                    cx, cy, cz, cw = mulv(o[0], [X, Y, z3.RealVal(1), 1]); lab = sxn + syn      # 2-D ortho == ortho with near=-1, far=1 (z -> -z)
                    g += [(lab + '.w', REq(cw, z3.RealVal(1))), (lab + '.x', REq(cx, z3.RealVal(-1 if sxn == 'l' else 1))), (lab + '.y', REq(cy, z3.RealVal(-1 if syn == 'b' else 1))), (lab + '.z', REq(cz, z3.RealVal(-1)))]
            M = [rv(x) for x in o[0]]
            g += [('z-linear[%d]' % k, REq(M[k], z3.RealVal(0))) for k in (2, 6, 14)] + [('z-scale', REq(M[10], z3.RealVal(-1)))]
            return g
        if '2d' in vs:
            S.check_fn(U, 'ortho2d_' + t, spec2, lambda i: [i[0][0] < i[0][1], i[0][2] < i[0][3]], mode='real', bounds='left<right, bottom<top',
                       mutant=lambda i, o: [('m', REq(mulv(o[0], [i[0][0], i[0][2], 0, 1])[0], z3.RealVal(1)))])
        for v in vs:
            if v == '2d': continue
            hand, depth = selected(v).split('_')
            def spec(i, o, hand=hand, depth=depth):
                l, r, b, tp, n, f = i[0]
                return corner_goals(o[0], box_corners(l, r, b, tp, n, f, depth, False), hand)
            S.check_fn(U, 'ortho%s_%s' % (v, t), spec, pre_box, mode='real', bounds='left<right, bottom<top, 0<near<far',
                       mutant=lambda i, o, hand=hand: [('m', REq(mulv(o[0], [i[0][0], i[0][2], (-1 if hand == 'RH' else 1) * i[0][4], 1])[2], z3.RealVal(1)))])
    return run
def job_frustum(t, vs):
    def run(S):
        for v in vs:
            hand, depth = selected(v).split('_')
            def spec(i, o, hand=hand, depth=depth):
                l, r, b, tp, n, f = i[0]
                return corner_goals(o[0], box_corners(l, r, b, tp, n, f, depth, True), hand)
            S.check_fn(U, 'frustum%s_%s' % (v, t), spec, pre_box, mode='real', bounds='left<right, bottom<top, 0<near<far',
                       mutant=lambda i, o, hand=hand: [('m', REq(mulv(o[0], [i[0][0], i[0][2], (-1 if hand == 'RH' else 1) * i[0][4], 1])[2], mulv(o[0], [i[0][0], i[0][2], (-1 if hand == 'RH' else 1) * i[0][4], 1])[3]))])
    return run
def job_persp(t, vs):
    c = FT[t]
    def run(S):
        for v in vs:
            hand, depth = selected(v).split('_')
            def spec(i, o, hand=hand, depth=depth):
                fovy, asp, n, f = i[0]; T = rv(o[1][0]); top = n * T; right = top * asp
                return corner_goals(o[0], box_corners(-right, right, -top, top, n, f, depth, True), hand)
            S.check_fn(U, 'perspective%s_%s' % (v, t), spec, pre_persp_ne(c), mode='real', extra_hyps=trig_pos, mutant=wrong_twin(spec), bounds='aspect>0, aspect != epsilon (see ' + KF_ASSERT + '), 0<near<far, tan(fovy/2)>0')
    return run
def job_fov(t, vs):
    def run(S):
        for v in vs:
            hand, depth = selected(v).split('_')
            def spec(i, o, hand=hand, depth=depth):
                fov, w, h, n, f = i[0]; T = rv(o[1][0]); top = n * T; right = top * w / h
                return corner_goals(o[0], box_corners(-right, right, -top, top, n, f, depth, True), hand)
            S.check_fn(U, 'perspectiveFov%s_%s' % (v, t), spec, pre_fov, mode='real', extra_hyps=trig_pos, mutant=wrong_twin(spec), bounds='fov>0, width>0, height>0, 0<near<far, sin,cos,tan(fov/2)>0')
    return run
def job_equiv(t, vs):
    def run(S):
        for v in vs:
            S.check_fn(U, 'persp_eq_frustum%s_%s' % (v, t), lambda i, o: [('m[%d]' % k, REq(rv(o[0][k]), rv(o[1][k]))) for k in range(16)], pre_persp, mode='real', extra_hyps=trig_pos, side=False,
                       bounds='perspective(fovy,aspect,n,f) == frustum(-r,r,-t,t,n,f), t = n*tan(fovy/2), r = t*aspect')
            S.check_fn(U, 'fov_eq_persp%s_%s' % (v, t), lambda i, o: [('m[%d]' % k, REq(rv(o[0][k]), rv(o[1][k]))) for k in range(16)], pre_fov, mode='real', extra_hyps=trig_pos, side=False,
                       bounds='perspectiveFov(fov,w,h,n,f) == perspective(fov,w/h,n,f)')
    return run
def inf_goals(M, i, T, hand, k, lim, slope):
    """near corners -> (+-1,+-1,near-z); a point at symbolic depth d >= near on the frustum boundary -> x,y=+-1, ndc_z = lim - slope*near/d"""
    fovy, asp, n = i[0][0], i[0][1], i[0][2]; d, d2 = i[1]      # b[0], b[1]: two symbolic depths (not passed to glm)
    g = corner_goals(M, [('near-%s%s' % ('lr'[a], 'bt'[b]), (2 * a - 1) * n * T * asp, (2 * b - 1) * n * T, n, 2 * a - 1, 2 * b - 1, lim - slope) for a in (0, 1) for b in (0, 1)], hand)
    z = -d if hand == 'RH' else d
    cx, cy, cz, cw = mulv(M, [d * T * asp, -d * T, z, 1])
    g += [('depth-d.w', REq(cw, d)), ('depth-d.x', REq(cx, cw)), ('depth-d.y', REq(cy, -cw)), ('depth-d.z-form', REq(cz, lim * d - slope * n)),
          ('depth-d.below-limit', RGoal('lt', cz, lim * cw))]
    # strictly increasing in depth: ndc_z(d) < ndc_z(d2) for d < d2 (cross-multiplied, both w > 0)
    z2 = -d2 if hand == 'RH' else d2
    ex2, ey2, ez2, ew2 = mulv(M, [z3.RealVal(0), z3.RealVal(0), z2, 1])
    ex1, ey1, ez1, ew1 = mulv(M, [z3.RealVal(0), z3.RealVal(0), z, 1])
    g += [('depth-monotone', z3.Implies(z3.And(d >= n, d2 > d), ez1 * ew2 < ez2 * ew1))]
    return g
def job_inf(t, vs):
    c = FT[t]
    def run(S):
        for v in vs:
            if v == 'tweaked': continue
            hand, depth = selected(v).split('_'); k = 2 if depth == 'NO' else 1
            def spec(i, o, hand=hand, k=k):
                return inf_goals(o[0], i, rv(o[1][0]), hand, k, z3.RealVal(1), z3.RealVal(k))
            S.check_fn(U, 'infinitePerspective%s_%s' % (v, t), spec, mutant=wrong_twin(spec), pre=lambda i: fov_ok(i[0][0]) + [i[0][1] > 0, i[0][2] > 0, i[1][0] >= i[0][2]], mode='real', extra_hyps=trig_pos, bounds='aspect>0, near>0, tan(fovy/2)>0; depth d >= near symbolic')
        if 'tweaked' in vs:
            def spec4(i, o):
                ep = i[0][3]; return inf_goals(o[0], i, rv(o[1][0]), 'RH', 2, 1 - ep, 2 - ep)
            S.check_fn(U, 'tweaked4_' + t, spec4, lambda i: fov_ok(i[0][0]) + [i[0][1] > 0, i[0][2] > 0, i[0][3] > 0, i[0][3] < 1, i[1][0] >= i[0][2]], mode='real', extra_hyps=trig_pos, bounds='aspect>0, near>0, 0<ep<1; ndc_z(d) = (1-ep) - (2-ep)*near/d')
            def spec3(i, o):
                ep = eps_of(c); return inf_goals(o[0], i, rv(o[1][0]), 'RH', 2, 1 - ep, 2 - ep)
            S.check_fn(U, 'tweaked3_' + t, spec3, lambda i: fov_ok(i[0][0]) + [i[0][1] > 0, i[0][2] > 0, i[1][0] >= i[0][2]], mode='real', extra_hyps=trig_pos, bounds='ep = machine epsilon of T')
    return run
def job_assert(t):
    """bit-precise: the only way the builders' assertions can fire for aspect > 0 (known finding: aspect == epsilon)"""
    def run(S):
        for v in FULL:
            S.check_fn(U, 'perspective%s_%s' % (v, t), None, lambda i: [finite(x) for x in i[0]] + [z3.fpGT(fpof(i[0][1]), FPV(0.0, i[0][1].size()))], mode='fp', known=[KF_ASSERT],
                       name='c08.assert.perspective%s_%s' % (v, t), bounds='all finite inputs with aspect > 0 (bit-exact)', validate=0)
            S.check_fn(U, 'perspectiveFov%s_%s' % (v, t), None, lambda i: [finite(x) for x in i[0]] + [z3.fpGT(fpof(i[0][k]), FPV(0.0, i[0][k].size())) for k in (0, 1, 2)], mode='fp',
                       name='c08.assert.perspectiveFov%s_%s' % (v, t), bounds='all finite inputs with fov,width,height > 0 (bit-exact)', validate=0)
    return run

# ----------------------------------------------------------------------------- jobs: dispatch (bit-exact differential under the four configurations)
def dispatch_list():
    L = []
    for fam in ('ortho', 'frustum', 'perspective', 'perspectiveFov'):
        for v in [''] + HALF: L.append((fam, v))
    for v in INFV:
        if v not in FULL: L.append(('infinitePerspective', v))
    for fam in ('project', 'unProject'):
        L.append((fam, ''))
        for vt in ('i', 'u', 'x'): L.append((fam, '', '_%svp' % vt))
    return L
def native_guarded(unit, fname, vals):
    """native call in a forked child: a failed assert() inside a (mutated) function must not take the worker process down.  None = the child did not finish normally."""
    unit.native()
    r, w = os.pipe(); pid = os.fork()
    if pid == 0:
        code = 3
        try:
            os.close(r); out = unit.call_native(fname, vals); os.write(w, json.dumps(out).encode()); code = 0
        finally: os._exit(code)
    os.close(w); data = b''
    while True:
        ch = os.read(r, 65536)
        if not ch: break
        data += ch
    os.close(r); _, st = os.waitpid(pid, 0)
    if st != 0 or not data: return None
    return json.loads(data)
def job_dispatch(cfg, t):
    def run(S):
        Ux = UC[cfg]
        for fam, v, *sfx in dispatch_list():
            sfx = sfx[0] if sfx else ''
            if fam in ('project', 'unProject'): sel = cfg.split('_')[1]
            else: sel = selected(v, cfg)
            f1 = '%s%s%s_%s' % (fam, v, sfx, t); f2 = '%s%s%s_%s' % (fam, sel, sfx, t)
            try:
                r1 = sym_call(Ux, f1, mode='fp'); r2 = sym_call(Ux, f2, ins=r1.ins, mode='fp')
            except Unsupported as e:
                S.rec(name='c08.dispatch.%s.%s' % (cfg, f1), kind='encode', result='unsupported', status='not-encoded', note=str(e), mandatory=True, functions=[f1])
                S.inconclusive.append('c08.dispatch.%s.%s [not encoded: %s]' % (cfg, f1, e)); continue
            n = len(r1.outs[0]); hy = r1.axioms + r2.axioms
            # equality is demanded where the selected variant itself runs to completion (no failed assert()): a counterexample replay then never aborts in the reference
            ubB = [c_ for k_, c_, d_ in r2.obligations if k_ in ('ub', 'trap', 'unreachable', 'domain')]
            if ubB: hy.append(z3.Not(z3.Or(*ubB)) if len(ubB) > 1 else z3.Not(ubB[0]))
            try:        # translator validation of both terms against native execution on sampled inputs
                for rr in (r1, r2):
                    ncmp, bad = validate_translation(rr, S.rnd, 3 if S.quick else 8)
                    S.validated += ncmp
                    if bad: S.engine_errors.append('%s: symbolic term disagrees with native execution: %s' % (rr.fn.name, json.dumps(bad[0])))
            except Exception as e:
                S.rec(name='c08.dispatch.%s.%s.validate' % (cfg, f1), kind='validate', result='error', status='skipped', note=str(e)[:300], mandatory=False)
            # identical term DAGs are the common case: the goal then simplifies to true without the solver doing any work
            for k in range(n):
                a, b = r1.outs[0][k], r2.outs[0][k]
                def replay(m, f1=f1, f2=f2, r1=r1, k=k):
                    vals = S._model_inputs(m, r1)
                    o1 = native_guarded(Ux, f1, vals); o2 = native_guarded(Ux, f2, vals)
                    info = {'unit': Ux.name, 'fn': f1, 'inputs': [[hex(x) for x in r] for r in vals], 'native': hex(o1[0][k]) if o1 else 'aborted', 'native_selected': hex(o2[0][k]) if o2 else 'aborted', 'property': 'C08'}
                    if o1 is None or o2 is None: return ('reproduced' if (o1 is None) != (o2 is None) else 'not-reproduced'), info
                    return ('reproduced' if o1[0][k] != o2[0][k] else 'not-reproduced'), info
                nm = 'c08.dispatch.%s.%s==%s[%d]' % (cfg, f1, f2, k)
                r, m = S.prove(nm, a.bits == b.bits, hy, timeout=S.cap(30, 60), kind='spec', functions=['w_' + f1, 'w_' + f2],
                               bounds='bit-exact, all inputs on which the selected variant passes its own assert()s; config ' + cfg + '; ll=' + Ux.ll_sha(), replay=replay)
                if r == 'unknown':
                    # the terms differ and the solver found neither proof nor model: help the model search with pinned candidate inputs
                    # (a verdict still needs a solver model reproduced natively; the obligation above stays inconclusive otherwise)
                    for h in range(4):
                        pins = []
                        for (c_, n_), terms in zip(r1.fn.ins, r1.ins):
                            for tt in terms:
                                if ct_kind(c_) == 'f': pins.append(tt == z3.BitVecVal(float_to_bits(round(S.rnd.uniform(0.5, 4.0), 2), tt.size()), tt.size()))
                                else: pins.append(tt == z3.BitVecVal(S.rnd.randint(1, 9), tt.size()))
                        r_, m_ = S.prove(nm + '.hint%d' % h, a.bits == b.bits, hy + pins, timeout=20, kind='spec', functions=['w_' + f1, 'w_' + f2], bounds='model search with pinned inputs', replay=replay, mandatory=False)
                        if r_ == 'sat': break
        # the mutant twin: the unsuffixed builder must differ from a NON-selected variant somewhere
        if not S.quick:
            other = {'RH_NO': 'LH_ZO', 'LH_NO': 'RH_ZO', 'RH_ZO': 'LH_NO', 'LH_ZO': 'RH_NO'}[cfg]
            for fam in ('ortho', 'frustum', 'perspective'):
                r1 = sym_call(Ux, '%s_%s' % (fam, t), mode='fp'); r2 = sym_call(Ux, '%s%s_%s' % (fam, other, t), ins=r1.ins, mode='fp')
                S.prove('c08.dispatch.%s.%s.twin' % (cfg, fam), z3.And(*[a.bits == b.bits for a, b in zip(r1.outs[0], r2.outs[0])]), r1.axioms + r2.axioms, timeout=60, kind='mutant-twin', expect='sat', mandatory=False)
    return run

# ----------------------------------------------------------------------------- jobs: project / unProject / pickMatrix (real)
def proj_spec(depth):
    def spec(i, o):
        p, model, proj, vp = i
        cx, cy, cz, cw = mulv(matmul(proj, model), [p[0], p[1], p[2], 1])
        half = z3.RealVal(1) / 2
        wz = (cz + cw) * half if depth == 'NO' else cz
        return [('win.x', REq(rv(o[0][0]) * cw, vp[0] * cw + vp[2] * (cx + cw) * half)), ('win.y', REq(rv(o[0][1]) * cw, vp[1] * cw + vp[3] * (cy + cw) * half)), ('win.z', REq(rv(o[0][2]) * cw, wz))]
    return spec
def clipw(i):
    p, model, proj, vp = i
    return mulv(matmul(proj, model), [p[0], p[1], p[2], 1])[3]
IDENT = [z3.RealVal(1 if k % 5 == 0 else 0) for k in range(16)]
def job_project(t):
    c = FT[t]
    def run(S):
        for v in ('ZO', 'NO', ''):
            depth = v or 'NO'
            S.check_fn(U, 'project%s_%s' % (v, t), proj_spec(depth), lambda i: [clipw(i) != 0], mode='real', timeout=S.cap(60, 200),
                       bounds='symbolic 4x4 model and proj, symbolic viewport; clip w != 0')
            if v == '': continue
            # the clip cube corners (model = proj = identity) go to the viewport rectangle x depth [0,1]
            zn = -1 if depth == 'NO' else 0
            vp = [z3.Real('vp%d' % k) for k in range(4)]
            for a in (-1, 1):
                for b in (-1, 1):
                    for (zc, wz) in ((zn, 0), (1, 1)):
                        ins = [[z3.RealVal(a), z3.RealVal(b), z3.RealVal(zc)], IDENT, IDENT, vp]
                        def spec(i, o, a=a, b=b, wz=wz):
                            w_ = i[3]; return [('x', REq(rv(o[0][0]), w_[0] + (w_[2] if a == 1 else 0))), ('y', REq(rv(o[0][1]), w_[1] + (w_[3] if b == 1 else 0))), ('depth', REq(rv(o[0][2]), z3.RealVal(wz)))]
                        S.check_fn(U, 'project%s_%s' % (v, t), spec, None, mode='real', ins=ins, name='c08.project%s_%s.cube(%d,%d,%d)' % (v, t, a, b, zc), witness=False,
                                   bounds='clip-cube corner, model = proj = I, symbolic viewport')
    return run
PROJ_NZ = (0, 5, 8, 9, 10, 11, 12, 13, 14, 15)      # union of the sparsity patterns of every builder in matrix_clip_space.inl
def symmat(n, nz=None, diag1=()):
    return [z3.Real('%s%d' % (n, k)) if (nz is None or k in nz) else z3.RealVal(1 if k in diag1 else 0) for k in range(16)]
FAMILIES = {   # name -> (model, proj, mandatory)
    'model=I,proj=builder-pattern': lambda: (IDENT, symmat('q', PROJ_NZ)),
    'model=affine,proj=I': lambda: (symmat('m', (0, 1, 2, 4, 5, 6, 8, 9, 10, 12, 13, 14), (15,)), IDENT),
    'model=translate*scale,proj=builder-pattern': lambda: (symmat('m', (0, 5, 10, 12, 13, 14), (15,)), symmat('q', PROJ_NZ)),
    'model=affine,proj=perspective-pattern': lambda: (symmat('m', (0, 1, 2, 4, 5, 6, 8, 9, 10, 12, 13, 14), (15,)), symmat('q', (0, 5, 10, 11, 14))),
    'general': lambda: (symmat('m'), symmat('q')),
}
MANDATORY_FAM = ('model=I,proj=builder-pattern', 'model=affine,proj=I', 'model=translate*scale,proj=builder-pattern')
def det4(M):
    M = [rv(x) for x in M]
    def m(r, c): return M[c * 4 + r]
    def det3(rows, cols):
        a = [[m(r, c) for c in cols] for r in rows]
        return a[0][0] * (a[1][1] * a[2][2] - a[1][2] * a[2][1]) - a[0][1] * (a[1][0] * a[2][2] - a[1][2] * a[2][0]) + a[0][2] * (a[1][0] * a[2][1] - a[1][1] * a[2][0])
    return sum(((-1) ** c) * m(0, c) * det3((1, 2, 3), [x for x in range(4) if x != c]) for c in range(4))
def cof4(M, r, c):
    M = [rv(x) for x in M]
    rows = [x for x in range(4) if x != r]; cols = [x for x in range(4) if x != c]
    a = [[M[cc * 4 + rr] for cc in cols] for rr in rows]
    d = a[0][0] * (a[1][1] * a[2][2] - a[1][2] * a[2][1]) - a[0][1] * (a[1][0] * a[2][2] - a[1][2] * a[2][0]) + a[0][2] * (a[1][0] * a[2][1] - a[1][1] * a[2][0])
    return d if (r + c) % 2 == 0 else -d
def win_to_ndc(w, vp, depth):
    return [2 * (w[0] - vp[0]) / vp[2] - 1, 2 * (w[1] - vp[1]) / vp[3] - 1, (2 * w[2] - 1) if depth == 'NO' else w[2], z3.RealVal(1)]
def job_roundtrip(t, fams):
    """unProject(project(p)) == p, and project-spec(unProject(win)) == win, on families of (model, proj)"""
    def PMof(i): return matmul(i[2], i[1])
    def run(S):
        for fam in fams:
            mand = fam in MANDATORY_FAM
            for v in ('NO', 'ZO'):
                p = [z3.Real('p%d' % k) for k in range(3)]; vp = [z3.Real('vp%d' % k) for k in range(4)]
                model, proj = FAMILIES[fam](); ins = [p, model, proj, vp]
                hy = lambda i: [det4(PMof(i)) != 0, mulv(PMof(i), [i[0][0], i[0][1], i[0][2], 1])[3] != 0, i[3][2] != 0, i[3][3] != 0]
                S.check_fn(U, 'unproj_proj%s_%s' % (v, t), lambda i, o: [('p[%d]' % k, REq(rv(o[0][k]), i[0][k])) for k in range(3)], hy, mode='real', ins=ins, side=False,
                           name='c08.unproj_proj%s_%s.%s' % (v, t, fam), timeout=S.cap(40, 120), mandatory=mand, bounds='unProject(project(p)) == p; det(proj*model) != 0, clip w != 0, viewport w,h != 0; ' + fam)
                # direct specification of unProject: r = unProject(win) satisfies proj*model*(r,1) = lambda * ndc(win)  (i.e. project(r) == win)
                def wadj(i, v=v):       # det * (inverse(PM) * ndc).w : the un-projected point must be finite
                    n = win_to_ndc(i[0], i[3], v); PM = PMof(i)
                    return sum(cof4(PM, cc, 3) * n[cc] for cc in range(4))
                hy2 = lambda i: [det4(PMof(i)) != 0, wadj(i) != 0, i[3][2] != 0, i[3][3] != 0]
                def spec(i, o, v=v):
                    n = win_to_ndc(i[0], i[3], v)
                    c_ = mulv(PMof(i), [rv(x) for x in o[0]] + [1])
                    return [('clip[%d]~ndc' % k, REq(c_[k], n[k] * c_[3])) for k in range(3)]
                S.check_fn(U, 'unProject%s_%s' % (v, t), spec, hy2, mode='real', ins=ins, name='c08.unProject%s_%s.%s' % (v, t, fam), timeout=S.cap(40, 120), mandatory=mand,
                           bounds='proj*model*(unProject(win),1) is parallel to ndc(win); det != 0, un-projected w != 0, viewport w,h != 0; ' + fam)
    return run
def job_pick(t):
    def run(S):
        def spec(i, o):
            (cx, cy), (dx, dy), vp, (zs,) = i; g = []      # d[0]: symbolic z (not passed to glm)
            for a in (-1, 1):
                for b in (-1, 1):
                    # window point on the pick rectangle -> NDC of the viewport -> must land on the NDC square corner
                    wx = cx + a * dx / 2; wy = cy + b * dy / 2
                    nx = 2 * (wx - vp[0]) / vp[2] - 1; ny = 2 * (wy - vp[1]) / vp[3] - 1
                    r = mulv(o[0], [nx, ny, zs, 1]); lab = '(%d,%d)' % (a, b)
                    g += [(lab + '.x', REq(r[0], z3.RealVal(a))), (lab + '.y', REq(r[1], z3.RealVal(b))), (lab + '.z', REq(r[2], zs)), (lab + '.w', REq(r[3], z3.RealVal(1)))]
            return g
        S.check_fn(U, 'pickMatrix_' + t, spec, lambda i: [i[1][0] > 0, i[1][1] > 0, i[2][2] != 0, i[2][3] != 0], mode='real', bounds='delta > 0, viewport w,h != 0')
    return run
# ----------------------------------------------------------------------------- viewports whose element type U differs from T (int, uint, the other float type)
VPW = [z3.Real('vpr%d' % k) for k in range(4)]
def _mentions(t, vars_):
    ids = {v.get_id() for v in vars_}; seen = set(); st = [t]
    while st:
        x = st.pop()
        if x.get_id() in seen: continue
        seen.add(x.get_id())
        if x.get_id() in ids: return True
        st.extend(x.children())
    return False
def check_vp(S, fname, spec, pre, vpi=3, ins=None, name=None, timeout=None, mandatory=True, bounds='', side=True):
    """check_fn(mode='real') for a wrapper whose viewport (input vpi) may have an integer element type.  The code reaches an integer viewport through T(viewport[k])
    (sitofp/uitofp: to_real(bv2int(.)) once rounding is erased).  Stage 1 replaces every such conversion term by a real constant vpr_k (a generalisation: unsat for all
    reals implies unsat for the integer-valued ones) which leaves a pure real-arithmetic query when the code uses the viewport only through these conversions.  Whatever
    stage 1 does not discharge (e.g. integer arithmetic on the viewport components) is decided on the unabstracted mixed bit-vector/real query with native replay."""
    fn = U.fns[fname]; name = name or 'c08.' + fname; vc = fn.ins[vpi][0]; timeout = timeout or S.cap(60, 180)
    if ct_kind(vc) == 'f':
        return S.check_fn(U, fname, spec, pre, mode='real', ins=ins, name=name, timeout=timeout, mandatory=mandatory, bounds=bounds, side=side)
    try: res = sym_call(U, fname, ins=ins, mode='real')
    except Unsupported as e:
        S.rec(name=name, kind='encode', result='unsupported', status='not-encoded', note=str(e), mandatory=mandatory, functions=[fname])
        if mandatory: S.inconclusive.append('%s [not encoded: %s]' % (name, e))
        return None
    vb = res.ins[vpi]; conv = [z3.ToReal(z3.BV2Int(x, ct_kind(vc) == 's')) for x in vb]; sub = list(zip(conv, VPW))
    A = lambda t_: z3.substitute(t_, *sub)
    ins_c = [list(r) for r in res.ins]; ins_c[vpi] = conv          # the viewport as the code sees it
    ins_a = [list(r) for r in res.ins]; ins_a[vpi] = VPW           # ... abstracted
    outs_a = [[RV(o.n, A(o.r)) if isinstance(o, RV) else o for o in row] for row in res.outs]
    spec_c = lambda i, o: spec([list(r) for r in i[:vpi]] + [[z3.ToReal(z3.BV2Int(x, ct_kind(vc) == 's')) for x in i[vpi]]] + [list(r) for r in i[vpi + 1:]], o)
    pre_c = (lambda i: pre([list(r) for r in i[:vpi]] + [[z3.ToReal(z3.BV2Int(x, ct_kind(vc) == 's')) for x in i[vpi]]] + [list(r) for r in i[vpi + 1:]])) if pre else None
    hy_c = list(pre(ins_c) if pre else []) + res.axioms
    hy_a = list(pre(ins_a) if pre else []) + [A(x) for x in res.axioms]
    fnlist = ['w_%s -> %s' % (fname, fn.body.strip().replace('\n', ' ')[:160])]
    binfo = bounds + '; viewport element type %s, every value; ll=%s' % (vc, U.ll_sha())
    S.prove(name + '.witness', z3.BoolVal(False), hy_a, timeout=S.cap(20, 60), kind='witness', functions=fnlist, bounds=binfo, expect='sat', mandatory=False)
    def two_stage(oname, g_a, g_c, kind, replay):
        if not _mentions(g_a, vb) and not any(_mentions(h, vb) for h in hy_a):
            r, m, dt, used = S.query(hy_a + [z3.Not(g_a)], timeout, 'z3')
            if r == 'unsat':
                S.rec(name=oname, kind=kind, functions=fnlist, bounds=binfo, solver=used + ' (viewport int->float conversions abstracted to real constants)', result='unsat', time_s=round(dt, 3),
                      status='discharged', mandatory=mandatory); return
        # model search first inside a small viewport range: an off-by-one-pixel error must stay above the tolerance of the numeric replay
        # (stage 2 never runs on a tree whose code touches the viewport only through T(viewport[k]); its total time per job is budgeted so that a defective tree is reported well inside the job cap)
        spent = getattr(S, '_vp_stage2', 0.0); t2 = time.time(); short = spent > 150
        sg = ct_kind(vc) == 's'; small = [z3.And(x >= -100, x <= 100) if sg else z3.ULE(x, 100) for x in vb]; nv = len(S.violations)
        r, m = S.prove(oname + '.small-viewport', g_c, hy_c + small, timeout=3 if short else min(timeout, 12), kind=kind, functions=fnlist, bounds=binfo + '; mixed bit-vector/real query, |viewport components| <= 100',
                       replay=replay, mandatory=False)
        if not (r == 'sat' and len(S.violations) > nv):
            S.prove(oname, g_c, hy_c, timeout=3 if short else min(timeout, 20), kind=kind, functions=fnlist, bounds=binfo + '; mixed bit-vector/real query', replay=replay, mandatory=mandatory)
        S._vp_stage2 = spent + time.time() - t2
    if side:
        groups = {}
        for kind, cond, d in res.obligations: groups.setdefault((kind, d), []).append(cond)
        for (kind, d), conds in groups.items():
            g = z3.Not(z3.Or(*conds)) if len(conds) > 1 else z3.Not(conds[0])
            two_stage('%s.%s[%s]' % (name, kind, d[:60]), A(g), g, kind, None)
    ga = spec(ins_a, outs_a); gc = spec(ins_c, res.outs)
    for (label, a_), (_, c_) in zip(ga, gc):
        oname = '%s.%s' % (name, label)
        two_stage(oname, goal_term(a_), goal_term(c_), 'spec', S._replayer(res, (spec_c, label), pre_c, U, fname, 'real', oname))
    return res

def pre_clipw(i): return [clipw(i) != 0]
def job_project_vp(t, vt):
    """project*(obj, model, proj, vec<4,U>) for U != T: general specification (symbolic matrices) and clip cube -> viewport rectangle"""
    def run(S):
        for v in ('ZO', 'NO', ''):
            depth = v or 'NO'; fname = 'project%s_%svp_%s' % (v, vt, t)
            check_vp(S, fname, proj_spec(depth), pre_clipw, timeout=S.cap(60, 200), bounds='symbolic 4x4 model and proj, symbolic viewport; clip w != 0')
            zn = -1 if depth == 'NO' else 0
            for a in (-1, 1):
                for b in (-1, 1):
                    for (zc, wz) in ((zn, 0), (1, 1)):
                        ins = [[z3.RealVal(a), z3.RealVal(b), z3.RealVal(zc)], IDENT, IDENT, mkvars(U.fns[fname], 'real')[3]]
                        def spec(i, o, a=a, b=b, wz=wz):
                            w_ = i[3]; return [('x', REq(rv(o[0][0]), w_[0] + (w_[2] if a == 1 else 0))), ('y', REq(rv(o[0][1]), w_[1] + (w_[3] if b == 1 else 0))), ('depth', REq(rv(o[0][2]), z3.RealVal(wz)))]
                        check_vp(S, fname, spec, None, ins=ins, name='c08.%s.cube(%d,%d,%d)' % (fname, a, b, zc), bounds='clip-cube corner, model = proj = I, symbolic viewport')
    return run
def job_cube_bits(t, vt, corners, mandatory=True, lim=1 << 16):
    """bit-exact (IEEE) version of clip cube -> viewport rectangle for integer viewports: with model = proj = I every intermediate value is exactly representable, so the
    result must equal the exactly converted integer corner x0 (+ width), y0 (+ height) whatever the evaluation order - for every integer viewport inside the stated range"""
    c = FT[t]; w = ct_bits(c); vc = vp_types(t)[vt][0]; sg = ct_kind(vc) == 's'
    def fb(x): return z3.BitVecVal(float_to_bits(float(x), w), w)
    identb = [fb(1 if k % 5 == 0 else 0) for k in range(16)]
    def run(S):
        for v in ('ZO', 'NO'):
            fname = 'project%s_%svp_%s' % (v, vt, t); zn = -1 if v == 'NO' else 0
            for (a, b, far) in corners:
                zc, wz = (1, 1) if far else (zn, 0)
                ins = [[fb(a), fb(b), fb(zc)], identb, identb, mkvars(U.fns[fname], 'fp')[3]]
                def ext(x): return (z3.SignExt(32, x) if sg else z3.ZeroExt(32, x))
                def tofp(x): return z3.fpSignedToFP(RNE, x, FSORT[w])
                def spec(i, o, a=a, b=b, wz=wz):
                    d = i[3]
                    return [('x', z3.fpEQ(o[0][0].fp, tofp(ext(d[0]) + (ext(d[2]) if a == 1 else 0)))), ('y', z3.fpEQ(o[0][1].fp, tofp(ext(d[1]) + (ext(d[3]) if b == 1 else 0)))),
                            ('depth', z3.fpEQ(o[0][2].fp, FPV(float(wz), w)))]
                def pre(i):
                    d = i[3]
                    if sg: return [d[k] > -lim for k in range(4)] + [d[k] < lim for k in range(4)]
                    return [z3.ULT(d[k], lim) for k in range(4)]
                S.check_fn(U, fname, spec, pre, mode='fp', ins=ins, name='c08.%s.cube-bits(%d,%d,%d)' % (fname, a, b, zc), witness=False, validate=0, timeout=S.cap(120, 240), mandatory=mandatory,
                           bounds='bit-exact; clip-cube corner, model = proj = I, |viewport components| < %d (sums exactly representable)' % lim)
    return run
def job_roundtrip_vp(t, vt, fams):
    """unProject(project(p)) == p and the direct specification of unProject for U != T"""
    def PMof(i): return matmul(i[2], i[1])
    def run(S):
        for fam in fams:
            mand = fam in MANDATORY_FAM
            for v in ('NO', 'ZO', ''):
                depth = v or 'NO'
                fn1 = 'unproj_proj%s_%svp_%s' % (v, vt, t); fn2 = 'unProject%s_%svp_%s' % (v, vt, t)
                p = [z3.Real('p%d' % k) for k in range(3)]; model, proj = FAMILIES[fam](); ins = [p, model, proj, mkvars(U.fns[fn1], 'real')[3]]
                hy = lambda i: [det4(PMof(i)) != 0, mulv(PMof(i), [i[0][0], i[0][1], i[0][2], 1])[3] != 0, i[3][2] != 0, i[3][3] != 0]
                check_vp(S, fn1, lambda i, o: [('p[%d]' % k, REq(rv(o[0][k]), i[0][k])) for k in range(3)], hy, ins=ins, side=False, name='c08.%s.%s' % (fn1, fam), timeout=S.cap(40, 120), mandatory=mand,
                         bounds='unProject(project(p)) == p; det(proj*model) != 0, clip w != 0, viewport w,h != 0; ' + fam)
                def wadj(i, depth=depth):
                    n = win_to_ndc(i[0], i[3], depth); PM = PMof(i)
                    return sum(cof4(PM, cc, 3) * n[cc] for cc in range(4))
                hy2 = lambda i: [det4(PMof(i)) != 0, wadj(i) != 0, i[3][2] != 0, i[3][3] != 0]
                def spec(i, o, depth=depth):
                    n = win_to_ndc(i[0], i[3], depth)
                    c_ = mulv(PMof(i), [rv(x) for x in o[0]] + [1])
                    return [('clip[%d]~ndc' % k, REq(c_[k], n[k] * c_[3])) for k in range(3)]
                check_vp(S, fn2, spec, hy2, ins=ins, name='c08.%s.%s' % (fn2, fam), timeout=S.cap(40, 120), mandatory=mand,
                         bounds='proj*model*(unProject(win),1) is parallel to ndc(win); det != 0, un-projected w != 0, viewport w,h != 0; ' + fam)
            # viewport rectangle corners x depth {0,1} -> clip cube corners (model = proj = I)
        for v in ('NO', 'ZO'):
            fn2 = 'unProject%s_%svp_%s' % (v, vt, t); zn = -1 if v == 'NO' else 0
            for a in (-1, 1):
                for b in (-1, 1):
                    for (zc, wz) in ((zn, 0), (1, 1)):
                        vpv = mkvars(U.fns[fn2], 'real')[3]
                        # the window corner itself is a symbolic real tied to the viewport by hypothesis (win = corner of the rectangle)
                        win = [z3.Real('win%d' % k) for k in range(3)]
                        ins = [win, IDENT, IDENT, vpv]
                        def pre(i, a=a, b=b, wz=wz): return [i[0][0] == i[3][0] + (i[3][2] if a == 1 else 0), i[0][1] == i[3][1] + (i[3][3] if b == 1 else 0), i[0][2] == wz, i[3][2] != 0, i[3][3] != 0]
                        def spec(i, o, a=a, b=b, zc=zc): return [('x', REq(rv(o[0][0]), z3.RealVal(a))), ('y', REq(rv(o[0][1]), z3.RealVal(b))), ('z', REq(rv(o[0][2]), z3.RealVal(zc)))]
                        check_vp(S, fn2, spec, pre, ins=ins, name='c08.%s.rect(%d,%d,%d)' % (fn2, a, b, zc), bounds='viewport-rectangle corner, model = proj = I, symbolic viewport with w,h != 0')
    return run
def job_pick_vp(t, vt):
    def run(S):
        def spec(i, o):
            (cx, cy), (dx, dy), vp, (zs,) = i; g = []
            for a in (-1, 1):
                for b in (-1, 1):
                    wx = cx + a * dx / 2; wy = cy + b * dy / 2
                    nx = 2 * (wx - vp[0]) / vp[2] - 1; ny = 2 * (wy - vp[1]) / vp[3] - 1
                    r = mulv(o[0], [nx, ny, zs, 1]); lab = '(%d,%d)' % (a, b)
                    g += [(lab + '.x', REq(r[0], z3.RealVal(a))), (lab + '.y', REq(r[1], z3.RealVal(b))), (lab + '.z', REq(r[2], zs)), (lab + '.w', REq(r[3], z3.RealVal(1)))]
            return g
        check_vp(S, 'pickMatrix_%svp_%s' % (vt, t), spec, lambda i: [i[1][0] > 0, i[1][1] > 0, i[2][2] != 0, i[2][3] != 0], vpi=2, bounds='delta > 0, viewport w,h != 0')
    return run

def jobs(tier):
    q = tier == 'quick'; J = []
    for t in FT:
        J += [('ortho_' + t, job_ortho(t, ['2d'] + VARS9)), ('frustum_' + t, job_frustum(t, VARS9)), ('perspective_' + t, job_persp(t, VARS9)), ('perspectiveFov_' + t, job_fov(t, VARS9)),
              ('equiv_' + t, job_equiv(t, FULL)), ('infinite_' + t, job_inf(t, INFV + ['tweaked'])), ('assert_' + t, job_assert(t)), ('project_' + t, job_project(t)), ('pick_' + t, job_pick(t)),
              ('roundtrip_' + t, job_roundtrip(t, MANDATORY_FAM))]
        for vt in vp_types(t):
            J += [('project_%svp_%s' % (vt, t), job_project_vp(t, vt)), ('roundtrip_%svp_%s' % (vt, t), job_roundtrip_vp(t, vt, MANDATORY_FAM)), ('pick_%svp_%s' % (vt, t), job_pick_vp(t, vt))]
            if vt == 'u' and t == 'f32': J.append(('cubebits_uvp_f32', job_cube_bits(t, vt, [(-1, -1, 0), (1, 1, 1)])))
        for cfg in CONFIGS: J.append(('dispatch_%s_%s' % (cfg, t), job_dispatch(cfg, t)))
    if not q:
        for t in FT:
            J += [('roundtrip_opt1_' + t, job_roundtrip(t, ['model=affine,proj=perspective-pattern'])), ('roundtrip_opt2_' + t, job_roundtrip(t, ['general']))]
            allc = [(a, b, f) for a in (-1, 1) for b in (-1, 1) for f in (0, 1)]
            J += [('cubebits_all_uvp_' + t, job_cube_bits(t, 'u', allc)), ('cubebits_opt_ivp_' + t, job_cube_bits(t, 'i', [(-1, -1, 0), (1, 1, 1)], mandatory=False, lim=1 << 12))]
    return J
