"""C16 - storage layout contract of vec / mat / qua (packed and aligned, per configuration).

Generator driven: every instantiation gets wrappers that return the static layout facts (sizeof, alignof, length(), length type), the byte offset of
&v[i] / &m[c][r] for a SYMBOLIC index, element reads/writes through operator[] and value_ptr for a symbolic index, the byte image of the object, and the
make_vec* / make_mat* / make_quat round trips.  The solver proves them equal to the documented layout for all indices in range and all component values.
"""
from props.common import *
from props.c17 import PUnit, exists_ob, run_check, resolve_oob, chunks, CT_GLM, TAG
import re

LEVEL = 'proof'
CLAIM = ("For every generated vec<L,T,Q>, mat<C,R,T,Q> and qua<T,Q> instantiation in each listed configuration the real headers are compiled and executed symbolically: sizeof/alignof/length() equal the documented "
         "values (packed: L*sizeof(T) contiguous, alignment of T; aligned float vec2/vec3/vec4: 8/16/16 bytes with equal alignment; matrices: C consecutive columns, column-major); the byte offset of &v[i], "
         "&m[c][r] (symbolic i, c, r in range) and of value_ptr is i*sizeof(T) resp. c*sizeof(column)+r*sizeof(T); reads and writes through operator[] and value_ptr with a symbolic index hit exactly that "
         "element of the byte image; quaternion memory order is x,y,z,w (w,x,y,z under GLM_FORCE_QUAT_DATA_WXYZ); make_vec2/3/4, make_mat*, make_quat and value_ptr round-trip a raw array unchanged.")
BOUNDS = ('indices symbolic within [0,L) / [0,C)x[0,R) (the in-range assert of operator[] is the precondition); component values fully symbolic; element types bool, int8..int64, uint8..uint64, float, double; '
          'qualifiers packed_{highp,mediump,lowp} and (where the configuration enables them) aligned_{highp,mediump,lowp}; configurations: default, GLM_FORCE_INTRINSICS at SSE2 (quick) and AVX/AVX2, GLM_FORCE_SWIZZLE '
          '(function and operator form), XYZW_ONLY, ALIGNED_GENTYPES (simulated MS extensions), DEFAULT_ALIGNED_GENTYPES, SIZE_T_LENGTH, QUAT_DATA_WXYZ, CTOR_INIT (thorough)')
OUTSIDE = ('ABI of compilers/targets other than clang++-14 x86-64 (g++ only through native validation); sizes/alignments of aligned types that GLM does not document (non-float element types: only element order, '
           'column consecutiveness and sizeof % alignof are asserted); precision typedef names of gtc/type_precision (the underlying vec<L,T,Q> instantiations are covered)')
ASSUMPTIONS = ['configurations with aligned types: the executor\'s uninitialised-load obligation is not part of the claim (an aligned vec3 is a 16-byte register whose 4th lane is indeterminate by design and is copied with the object; a lane reaching an output would fail the equality goals)',
               'sizeof/alignof/offsetof facts are compile-time constants of clang++-14 for x86-64 routed through the solver as trivial obligations; symbolic-index offsets are computed from the IR (pointer difference inside one object)',
               'pointer-to-integer conversion is modelled as a fresh base address per object plus the byte offset']

SCAL = ['float', 'double', 'int', 'unsigned', 'int8_t', 'uint8_t', 'int16_t', 'uint16_t', 'int64_t', 'uint64_t', 'bool']
PQ = ['packed_highp', 'packed_mediump', 'packed_lowp']
AQ = ['aligned_highp', 'aligned_mediump', 'aligned_lowp']
CFG = {  # name -> defines, cflags, aligned qualifiers usable, default qualifier is aligned, length type (bytes, signed), quaternion memory order (named components)
    'default':  dict(defines=[], cflags=[]),
    'sse2':     dict(defines=['GLM_FORCE_INTRINSICS'], cflags=['-msse2'], aligned=True),
    'avx':      dict(defines=['GLM_FORCE_INTRINSICS'], cflags=['-mavx'], aligned=True),
    'avx2':     dict(defines=['GLM_FORCE_INTRINSICS'], cflags=['-mavx2'], aligned=True),
    'swzfunc':  dict(defines=['GLM_FORCE_SWIZZLE'], cflags=[]),
    'swzop':    dict(defines=['GLM_FORCE_SWIZZLE', 'GLM_FORCE_INTRINSICS'], cflags=['-msse2'], aligned=True, slow=True),
    'xyzw':     dict(defines=['GLM_FORCE_XYZW_ONLY'], cflags=[]),
    'algen':    dict(defines=['GLM_FORCE_ALIGNED_GENTYPES', '_MSC_EXTENSIONS=1'], cflags=[], aligned=True),
    'defal':    dict(defines=['GLM_FORCE_DEFAULT_ALIGNED_GENTYPES', 'GLM_FORCE_INTRINSICS'], cflags=['-msse2'], aligned=True, default_aligned=True),
    'sizet':    dict(defines=['GLM_FORCE_SIZE_T_LENGTH'], cflags=[], length=(8, 0)),
    'wxyz':     dict(defines=['GLM_FORCE_QUAT_DATA_WXYZ'], cflags=[], qorder='wxyz'),
    'wxyzsse2': dict(defines=['GLM_FORCE_QUAT_DATA_WXYZ', 'GLM_FORCE_INTRINSICS'], cflags=['-msse2'], aligned=True, qorder='wxyz'),
    'ctorinit': dict(defines=['GLM_FORCE_CTOR_INIT'], cflags=[]),
}
ALIGNED_F32 = {2: 8, 3: 16, 4: 16}        # documented: aligned float vec2 8 bytes, vec3/vec4 16 bytes, alignment = size
def sz(ct): return ct_bits(ct) // 8

def is_al(Q): return Q.startswith('aligned')
def sel(vals, idx):
    r = vals[-1]
    for k in range(len(vals) - 2, -1, -1): r = z3.If(idx == k, vals[k], r)
    return r
def I64(v): return z3.BitVecVal(v, 64)

INC = ['glm/glm.hpp', 'glm/gtc/type_ptr.hpp', 'glm/gtc/quaternion.hpp', 'glm/ext/vector_float1.hpp']
PRE = r'''
#include <type_traits>
template<class V> static inline void lenfacts(int64_t* o){ typedef typename V::length_type LT; o[0] = (int64_t)V::length(); o[1] = sizeof(LT); o[2] = std::is_signed<LT>::value ? 1 : 0; o[3] = std::is_same<LT, glm::length_t>::value ? 1 : 0; }
'''
def qtag(Q): return Q.replace('packed_', 'p').replace('aligned_', 'a').replace('highp', 'h').replace('mediump', 'm').replace('lowp', 'l').replace('defaultp', 'd')

def layout_units(cfg, scal, quals, Ls=(1, 2, 3, 4), shapes=None, quat=True, per_unit=500, mk=True):
    c = CFG[cfg]; us = []; cur = [None]
    if shapes is None: shapes = [(a, b) for a in (2, 3, 4) for b in (2, 3, 4)]
    def unit():
        if cur[0] is None or len(cur[0].order) >= per_unit:
            cur[0] = PUnit('c16_%s_%02d' % (cfg, len(us)), includes=INC, defines=list(c['defines']), cflags=list(c['cflags']), prelude=PRE); us.append(cur[0])
            cur[0].cfg = cfg; cur[0].skip_uninit = bool(c.get('aligned'))
            if c.get('slow'): cur[0].native_cxx = 'clang++-14'
        return cur[0]
    for ct in scal:
        g = CT_GLM[ct]; s = sz(ct)
        for Q in quals:
            q = 'glm::' + Q; al = is_al(Q) or (Q == 'defaultp' and c.get('default_aligned'))
            for L in Ls:
                V = 'glm::vec<%d,%s,%s>' % (L, g, q); tg = 'v%d_%s_%s' % (L, TAG[ct], qtag(Q)); d = 'vec<%d,%s,%s>' % (L, ct, Q)
                m = dict(ct=ct, L=L, Q=Q, al=al, cfg=cfg)
                unit().addm(tg + '_facts', [], [('int64_t', 8)],
                            'typedef %s V; V v; o[0] = sizeof(V); o[1] = alignof(V); lenfacts<V>(o + 2); o[6] = (char*)&v.x - (char*)&v; o[7] = (char*)glm::value_ptr(v) - (char*)&v;' % V,
                            kind='vfacts', descr='sizeof/alignof/length of ' + d, **m)
                unit().addm(tg + '_off', [('int', 1)], [('int64_t', 3)],
                            'typedef %s V; V v; V const& cv = v; o[0] = (char*)&v[a[0]] - (char*)&v; o[1] = (char*)&cv[a[0]] - (char*)&cv; o[2] = (char*)(glm::value_ptr(v) + a[0]) - (char*)&v.x;' % V,
                            kind='voff', descr='byte offset of &v[i] in ' + d, **m)
                unit().addm(tg + '_get', [(ct, L), ('int', 1)], [(ct, 3)],
                            'typedef %s V; V v = ldv<%d,%s,%s>(a); V const& cv = v; o[0] = v[b[0]]; o[1] = cv[b[0]]; o[2] = glm::value_ptr(cv)[b[0]];' % (V, L, g, q),
                            kind='vget', descr='v[i], value_ptr(v)[i] of ' + d, **m)
                unit().addm(tg + '_set', [(ct, L), ('int', 1), (ct, 1)], [(ct, L), (ct, L)],
                            'typedef %s V; V v = ldv<%d,%s,%s>(a); v[b[0]] = c[0]; std::memcpy(o, &v, %d); V w = ldv<%d,%s,%s>(a); glm::value_ptr(w)[b[0]] = c[0]; stv(o2, w);' % (V, L, g, q, L * s, L, g, q),
                            kind='vset', descr='v[i] = s; byte image of ' + d, **m)
                if mk and L > 1 and Q in ('packed_highp', 'defaultp') and not (c.get('default_aligned') and Q != 'defaultp'):
                    VD = 'glm::vec<%d,%s,glm::defaultp>' % (L, g)
                    unit().addm(tg + '_make', [(ct, L)], [(ct, L), (ct, L)],
                                '%s v = glm::make_vec%d(a); stv(o, v); std::memcpy(o2, glm::value_ptr(v), %d);' % (VD, L, L * s),
                                kind='vmake', descr='make_vec%d(%s const*) -> value_ptr image' % (L, ct), **m)
            for (C, R) in shapes:
                M = 'glm::mat<%d,%d,%s,%s>' % (C, R, g, q); tg = 'm%d%d_%s_%s' % (C, R, TAG[ct], qtag(Q)); d = 'mat<%d,%d,%s,%s>' % (C, R, ct, Q)
                m = dict(ct=ct, C=C, R=R, Q=Q, al=al, cfg=cfg)
                unit().addm(tg + '_facts', [], [('int64_t', 12)],
                            'typedef %s M; M m; o[0] = sizeof(M); o[1] = alignof(M); lenfacts<M>(o + 2); o[6] = sizeof(M::col_type); o[7] = alignof(M::col_type); o[8] = (int64_t)M::col_type::length(); o[9] = (int64_t)M::row_type::length();'
                            ' o[10] = (char*)glm::value_ptr(m) - (char*)&m; o[11] = (char*)&m[0] - (char*)&m;' % M, kind='mfacts', descr='sizeof/alignof/length of ' + d, **m)
                unit().addm(tg + '_off', [('int', 2)], [('int64_t', 4)],
                            'typedef %s M; M m; M const& cm = m; o[0] = (char*)&m[a[0]][a[1]] - (char*)glm::value_ptr(m); o[1] = (char*)&cm[a[0]][a[1]] - (char*)glm::value_ptr(cm); o[2] = (char*)&m[a[0]] - (char*)&m; o[3] = sizeof(M::col_type);' % M,
                            kind='moff', descr='byte offset of &m[c][r] from value_ptr(m) in ' + d, **m)
                unit().addm(tg + '_get', [(ct, C * R), ('int', 2)], [(ct, 3)],
                            'typedef %s M; M m = ldm<%d,%d,%s,%s>(a); M const& cm = m; o[0] = m[b[0]][b[1]]; o[1] = cm[b[0]][b[1]]; o[2] = *(%s const*)((char const*)glm::value_ptr(cm) + b[0] * sizeof(M::col_type) + b[1] * sizeof(%s));' % (M, C, R, g, q, g, g),
                            kind='mget', descr='m[c][r] and the value_ptr image of ' + d, **m)
                if not al:
                    unit().addm(tg + '_set', [(ct, C * R), ('int', 2), (ct, 1)], [(ct, C * R), (ct, C * R)],
                                'typedef %s M; M m = ldm<%d,%d,%s,%s>(a); m[b[0]][b[1]] = c[0]; std::memcpy(o, glm::value_ptr(m), %d); M w = ldm<%d,%d,%s,%s>(a); glm::value_ptr(w)[b[0] * %d + b[1]] = c[0]; stm(o2, w);' % (M, C, R, g, q, C * R * s, C, R, g, q, R),
                                kind='mset', descr='m[c][r] = s / value_ptr(m)[c*R+r] = s; column-major byte image of ' + d, **m)
                if mk and Q in ('packed_highp', 'defaultp') and not (c.get('default_aligned') and Q != 'defaultp'):
                    MD = 'glm::mat<%d,%d,%s,glm::defaultp>' % (C, R, g)
                    unit().addm(tg + '_make', [(ct, C * R)], [(ct, C * R)] * (1 if al else 2),       # aligned columns: the value_ptr image has padding, only the elements are compared
                                '%s m = glm::make_mat%dx%d(a); stm(o, m);%s' % (MD, C, R, '' if al else ' std::memcpy(o2, glm::value_ptr(m), %d);' % (C * R * s)),
                                kind='mmake', descr='make_mat%dx%d(%s const*) -> value_ptr image' % (C, R, ct), **m)
            if quat and ct in ('float', 'double'):
                QT = 'glm::qua<%s,%s>' % (g, q); tg = 'q_%s_%s' % (TAG[ct], qtag(Q)); d = 'qua<%s,%s>' % (ct, Q)
                m = dict(ct=ct, Q=Q, al=al, cfg=cfg, qorder=c.get('qorder', 'xyzw'))
                unit().addm(tg + '_facts', [], [('int64_t', 7)], 'typedef %s V; V v; o[0] = sizeof(V); o[1] = alignof(V); lenfacts<V>(o + 2); o[6] = (char*)glm::value_ptr(v) - (char*)&v;' % QT, kind='qfacts', descr='sizeof/alignof/length of ' + d, **m)
                unit().addm(tg + '_off', [('int', 1)], [('int64_t', 6)],
                            'typedef %s V; V v; V const& cv = v; o[0] = (char*)&v[a[0]] - (char*)&v; o[1] = (char*)&cv[a[0]] - (char*)&cv; o[2] = (char*)&v.w - (char*)&v; o[3] = (char*)&v.x - (char*)&v; o[4] = (char*)&v.y - (char*)&v; o[5] = (char*)&v.z - (char*)&v;' % QT,
                            kind='qoff', descr='byte offsets of &q[i], &q.w, &q.x, &q.y, &q.z in ' + d, **m)
                unit().addm(tg + '_get', [(ct, 4), ('int', 1)], [(ct, 2), (ct, 4), (ct, 4)],
                            'typedef %s V; V v = ldq<%s,%s>(a); V const& cv = v; o[0] = v[b[0]]; o[1] = cv[b[0]]; std::memcpy(o2, &v, %d); for (int k = 0; k < 4; ++k) o3[k] = glm::value_ptr(cv)[k];' % (QT, g, q, 4 * s),
                            kind='qget', descr='q[i], byte image and value_ptr image of ' + d, **m)
                unit().addm(tg + '_set', [(ct, 4), ('int', 1), (ct, 1)], [(ct, 4)],
                            'typedef %s V; V v = ldq<%s,%s>(a); v[b[0]] = c[0]; std::memcpy(o, &v, %d);' % (QT, g, q, 4 * s), kind='qset', descr='q[i] = s; byte image of ' + d, **m)
                if mk and Q in ('packed_highp', 'defaultp') and not (c.get('default_aligned') and Q != 'defaultp'):
                    unit().addm(tg + '_make', [(ct, 4)], [(ct, 4), (ct, 4)], 'glm::qua<%s,glm::defaultp> v = glm::make_quat(a); stq(o, v); std::memcpy(o2, glm::value_ptr(v), %d);' % (g, 4 * s),
                                kind='qmake', descr='make_quat(%s const*) -> named components and value_ptr image' % ct, **m)
    return us

def named_unit(cfg):
    """typedef names of gtc/type_aligned.hpp and the manual's struct-padding example"""
    c = CFG[cfg]
    u = PUnit('c16_%s_named' % cfg, includes=INC + (['glm/gtc/type_aligned.hpp'] if c.get('aligned') else []), defines=list(c['defines']), cflags=list(c['cflags']), prelude=PRE + 'struct ManualStruct { glm::vec4 a; float b; glm::vec3 c; };\n')
    u.cfg = cfg; u.skip_uninit = bool(c.get('aligned'))
    if c.get('slow'): u.native_cxx = 'clang++-14'
    u.addm('manual_struct', [], [('int64_t', 1)], 'o[0] = sizeof(ManualStruct);', kind='named', exp=[48 if c.get('default_aligned') else 32], descr='manual 2.10: struct { vec4 a; float b; vec3 c; } is %s' % ('48 bytes with aligned defaults' if c.get('default_aligned') else '32 bytes tightly packed'))
    dal = c.get('default_aligned')
    for L, (ps, as_) in {2: (8, 8), 3: (12, 16), 4: (16, 16)}.items():
        u.addm('default_vec%d' % L, [], [('int64_t', 2)], 'o[0] = sizeof(glm::vec%d); o[1] = alignof(glm::vec%d);' % (L, L), kind='named', exp=[as_, as_] if dal else [ps, 4], descr='sizeof/alignof glm::vec%d (default qualifier)' % L)
    if c.get('aligned'):
        for nm, (size, al) in {'aligned_vec2': (8, 8), 'aligned_vec3': (16, 16), 'aligned_vec4': (16, 16), 'packed_vec2': (8, 4), 'packed_vec3': (12, 4), 'packed_vec4': (16, 4),
                               'aligned_mat2': (16, 8), 'aligned_mat3': (48, 16), 'aligned_mat4': (64, 16), 'aligned_mat4x2': (32, 8), 'aligned_mat2x4': (32, 16), 'aligned_mat3x2': (24, 8),
                               'packed_mat3': (36, 4), 'packed_mat4': (64, 4), 'aligned_highp_vec4': (16, 16), 'aligned_mediump_vec3': (16, 16), 'aligned_lowp_vec2': (8, 8)}.items():
            u.addm(nm, [], [('int64_t', 2)], 'o[0] = sizeof(glm::%s); o[1] = alignof(glm::%s);' % (nm, nm), kind='named', exp=[size, al], descr='sizeof/alignof glm::%s (gtc/type_aligned.hpp)' % nm)
        # every typedef name of gtc/type_aligned.hpp (scraped from the header) denotes the type its name spells: <aligned|packed>_[<precision>_]<d|i|u|b>vecL / matCxR
        names = sorted(set(re.findall(r'typedef\s+[^;]*?\b((?:aligned|packed)_(?:highp_|mediump_|lowp_)?[diub]?(?:vec[1-4]|mat[2-4](?:x[2-4])?))\s*;', open(os.path.join(REPO, 'glm/gtc/type_aligned.hpp')).read())))
        TP = {'': 'float', 'd': 'double', 'i': 'int', 'u': 'glm::uint', 'b': 'bool'}
        for k0 in range(0, len(names), 24):
            chunk = names[k0:k0 + 24]; body = []
            for j, nm in enumerate(chunk):
                m_ = re.fullmatch(r'(aligned|packed)_(highp_|mediump_|lowp_)?([diub]?)(vec|mat)([1-4])(?:x([2-4]))?', nm)
                ql = 'glm::%s_%s' % (m_.group(1), (m_.group(2) or 'highp_')[:-1]); T_ = TP[m_.group(3)]
                ty = 'glm::vec<%s, %s, %s>' % (m_.group(5), T_, ql) if m_.group(4) == 'vec' else 'glm::mat<%s, %s, %s, %s>' % (m_.group(5), m_.group(6) or m_.group(5), T_, ql)
                body.append('o[%d] = std::is_same<glm::%s, %s>::value ? 1 : 0;' % (j, nm, ty))
            u.addm('typedef_names_%02d' % (k0 // 24), [], [('int64_t', len(chunk))], ' '.join(body), kind='named', exp=[1] * len(chunk), descr='gtc/type_aligned.hpp: ' + ', '.join(chunk[:3]) + ' ... denote the types their names spell')
    return u

# ----------------------------------------------------------------------------- specifications
def inrange(x, n): return [x >= 0, x < n]
def colsize(m):
    """documented column size of an aligned float matrix / packed matrix; None if GLM does not document it"""
    if not m['al']: return m['R'] * sz(m['ct'])
    if m['ct'] == 'float': return ALIGNED_F32[m['R']]
    return None
def len_goals(o, k0, n, cfg, what='length'):
    lb, ls = CFG[cfg].get('length', (4, 1))
    return [(what + '==%d' % n, o[k0] == I64(n)), ('sizeof(length_type)', o[k0 + 1] == I64(lb)), ('length_type-signedness', o[k0 + 2] == I64(ls)), ('length_type-is-length_t', o[k0 + 3] == I64(1))]

def check(S, u, fname):
    m = u.meta[fname]
    if not exists_ob(S, u, fname, m['descr']): return
    k = m['kind']; kw = dict(witness=False, timeout=S.cap(30, 90), known=list(S.known))
    if k == 'named':
        run_check(S, u, fname, lambda i, o: [('fact%d' % j, o[0][j] == I64(v)) for j, v in enumerate(m['exp'])], None, bounds='static fact', **kw); return
    ct = m['ct']; s = sz(ct); al = m['al']
    if k in ('vfacts', 'qfacts'):
        L = m.get('L', 4)
        def spec(i, o):
            o = o[0]; g = []
            if not al: g += [('sizeof==L*sizeof(T)', o[0] == I64(L * s)), ('alignof==alignof(T)', o[1] == I64(s))]
            elif ct == 'float' and L in ALIGNED_F32: g += [('sizeof-aligned-documented', o[0] == I64(ALIGNED_F32[L])), ('alignof-aligned-documented', o[1] == I64(ALIGNED_F32[L]))]
            else:
                g += [('sizeof>=L*sizeof(T)', z3.UGE(o[0], I64(L * s))), ('sizeof%alignof==0', z3.URem(o[0], o[1]) == 0), ('alignof>=alignof(T)', z3.UGE(o[1], I64(s)))]
                # manual.md 2.9: 'aligned GLM types align addresses based on the size of the value type of a GLM type': an aligned vector is aligned to its own size
                # (L * sizeof(T) for L = 1, 2, 4; a vec3 is stored and aligned like the vec4)
                if k == 'vfacts': g += [('aligned: sizeof==%d*sizeof(T)' % (4 if L == 3 else L), o[0] == I64((4 if L == 3 else L) * s)), ('aligned: alignof>=min(sizeof,16)', z3.UGE(o[1], z3.If(z3.ULT(o[0], I64(16)), o[0], I64(16))))]         # 32-byte vectors may be two 16-byte SIMD registers below AVX
            g += len_goals(o, 2, L, m['cfg'])
            if k == 'vfacts': g += [('&v.x==&v', o[6] == 0), ('value_ptr(v)==&v', o[7] == 0)]
            else: g += [('value_ptr(q)==&q', o[6] == 0)]
            return g
        run_check(S, u, fname, spec, None, bounds='static facts', **kw)
    elif k == 'voff':
        L = m['L']
        run_check(S, u, fname, lambda i, o: [('&v[i]', o[0][0] == sx(i[0][0], 64) * s), ('&cv[i]', o[0][1] == sx(i[0][0], 64) * s), ('value_ptr(v)+i', o[0][2] == sx(i[0][0], 64) * s)], lambda i: inrange(i[0][0], L),
                   mutant=lambda i, o: [('m', o[0][0] == sx(i[0][0], 64) * s + s)], bounds='0<=i<L symbolic', **kw)
    elif k == 'vget':
        L = m['L']
        run_check(S, u, fname, lambda i, o: [(nm, bits_of(o[0][j]) == sel(i[0], i[1][0])) for j, nm in enumerate(('v[i]', 'cv[i]', 'value_ptr(v)[i]'))], lambda i: inrange(i[1][0], L), bounds='0<=i<L symbolic', **kw)
    elif k == 'vset':
        L = m['L']
        def spec(i, o):
            g = []
            for j in range(L):
                e = z3.If(i[1][0] == j, i[2][0], i[0][j])
                g += [('image%d' % j, bits_of(o[0][j]) == e), ('via-value_ptr%d' % j, bits_of(o[1][j]) == e)]
            return g
        run_check(S, u, fname, spec, lambda i: inrange(i[1][0], L), bounds='0<=i<L symbolic; byte image of the first L*sizeof(T) bytes', **kw)
    elif k in ('vmake', 'mmake'):
        n = m['L'] if k == 'vmake' else m['C'] * m['R']
        run_check(S, u, fname, lambda i, o: [('components%d' % j, bits_of(o[0][j]) == i[0][j]) for j in range(n)] + ([('image%d' % j, bits_of(o[1][j]) == i[0][j]) for j in range(n)] if len(o) > 1 else []), None, bounds='all bit patterns', **kw)
    elif k == 'mfacts':
        C, R = m['C'], m['R']; cs = colsize(m)
        def spec(i, o):
            o = o[0]; g = []
            if cs is not None: g += [('sizeof(col)', o[6] == I64(cs)), ('sizeof(mat)', o[0] == I64(C * cs)), ('alignof(mat)', o[1] == I64(cs if al else s)), ('alignof(col)', o[7] == I64(cs if al else s))]
            else: g += [('sizeof(col)>=R*sizeof(T)', z3.UGE(o[6], I64(R * s))), ('alignof(mat)==alignof(col)', o[1] == o[7])]
            g += [('sizeof(mat)==C*sizeof(col)', o[0] == o[6] * C)]
            g += len_goals(o, 2, C, m['cfg'])
            g += [('col_type::length()==R', o[8] == I64(R)), ('row_type::length()==C', o[9] == I64(C)), ('value_ptr(m)==&m', o[10] == 0), ('&m[0]==&m', o[11] == 0)]
            return g
        run_check(S, u, fname, spec, None, bounds='static facts', **kw)
    elif k == 'moff':
        C, R = m['C'], m['R']; cs = colsize(m)
        def spec(i, o):
            c_, r_ = sx(i[0][0], 64), sx(i[0][1], 64); col = I64(cs) if cs is not None else o[0][3]
            g = [('&m[c][r]', o[0][0] == c_ * col + r_ * s), ('&cm[c][r]', o[0][1] == c_ * col + r_ * s), ('&m[c]', o[0][2] == c_ * col)]
            if not al: g.append(('&m[c][r]==value_ptr+(c*R+r)', o[0][0] == (c_ * R + r_) * s))
            return g
        run_check(S, u, fname, spec, lambda i: inrange(i[0][0], C) + inrange(i[0][1], R), mutant=lambda i, o: [('m', o[0][0] == (sx(i[0][1], 64) * C + sx(i[0][0], 64)) * s)], bounds='0<=c<C, 0<=r<R symbolic', **kw)
    elif k == 'mget':
        C, R = m['C'], m['R']
        def spec(i, o):
            e = sel(i[0], sx(i[1][0], 32) * R + sx(i[1][1], 32))
            return [(nm, bits_of(o[0][j]) == e) for j, nm in enumerate(('m[c][r]', 'cm[c][r]', 'value_ptr-image[c][r]'))]
        run_check(S, u, fname, spec, lambda i: inrange(i[1][0], C) + inrange(i[1][1], R), bounds='0<=c<C, 0<=r<R symbolic', **kw)
    elif k == 'mset':
        C, R = m['C'], m['R']
        def spec(i, o):
            g = []; idx = sx(i[1][0], 32) * R + sx(i[1][1], 32)
            for j in range(C * R):
                e = z3.If(idx == j, i[2][0], i[0][j])
                g += [('image%d' % j, bits_of(o[0][j]) == e), ('via-value_ptr%d' % j, bits_of(o[1][j]) == e)]
            return g
        run_check(S, u, fname, spec, lambda i: inrange(i[1][0], C) + inrange(i[1][1], R), bounds='0<=c<C, 0<=r<R symbolic; column-major byte image', **kw)
    elif k in ('qoff', 'qget', 'qset', 'qmake'):
        order = m['qorder']; pos = {nm: order.index(nm) for nm in 'wxyz'}        # memory slot of each named component; wrapper I/O is [w,x,y,z]
        named = 'wxyz'
        if k == 'qoff':
            run_check(S, u, fname, lambda i, o: [('&q[i]', o[0][0] == sx(i[0][0], 64) * s), ('&cq[i]', o[0][1] == sx(i[0][0], 64) * s)] + [('&q.%s' % nm, o[0][2 + j] == I64(pos[nm] * s)) for j, nm in enumerate(named)],
                       lambda i: inrange(i[0][0], 4), bounds='0<=i<4 symbolic', **kw)
        elif k == 'qget':
            def spec(i, o):
                mem = [i[0][named.index(order[p])] for p in range(4)]          # expected memory image
                return [('q[i]', bits_of(o[0][0]) == sel(mem, i[1][0])), ('cq[i]', bits_of(o[0][1]) == sel(mem, i[1][0]))] + [('image%d' % p, bits_of(o[1][p]) == mem[p]) for p in range(4)] + \
                       [('value_ptr%d' % p, bits_of(o[2][p]) == mem[p]) for p in range(4)]
            run_check(S, u, fname, spec, lambda i: inrange(i[1][0], 4), bounds='0<=i<4 symbolic', **kw)
        elif k == 'qset':
            def spec(i, o):
                mem = [i[0][named.index(order[p])] for p in range(4)]
                return [('image%d' % p, bits_of(o[0][p]) == z3.If(i[1][0] == p, i[2][0], mem[p])) for p in range(4)]
            run_check(S, u, fname, spec, lambda i: inrange(i[1][0], 4), bounds='0<=i<4 symbolic', **kw)
        else:
            run_check(S, u, fname, lambda i, o: [('named-%s' % nm, bits_of(o[0][j]) == i[0][pos[nm]]) for j, nm in enumerate(named)] + [('image%d' % p, bits_of(o[1][p]) == i[0][p]) for p in range(4)], None, bounds='all bit patterns', **kw)
    else:
        raise RuntimeError('unknown kind ' + k)

# ----------------------------------------------------------------------------- units / jobs
_UNITS = {}
def build(tier):
    if tier in _UNITS: return _UNITS[tier]
    q = tier == 'quick'; us = []
    if q:
        us += layout_units('default', SCAL, PQ)
        us += layout_units('sse2', ['float', 'int', 'unsigned', 'double'], ['aligned_highp', 'packed_highp', 'aligned_lowp'])
        us += [named_unit('default'), named_unit('sse2')]
        us += layout_units('wxyz', ['float'], ['packed_highp'], Ls=(), shapes=[])
        us += layout_units('wxyzsse2', ['float', 'double'], ['aligned_highp', 'packed_highp'], Ls=(), shapes=[])      # the SIMD build has its own member list (anonymous-struct union)
        # every other configuration at least with float / packed_highp (all lengths and shapes): a typedef or member list changed under one macro only
        for cfg in ('sizet', 'xyzw', 'ctorinit', 'swzfunc'): us += layout_units(cfg, ['float', 'int'], ['packed_highp'])
        us += layout_units('defal', ['float'], ['defaultp', 'packed_highp'])
        us += layout_units('avx2', ['float', 'double'], ['aligned_highp'])
        us += layout_units('swzop', ['float', 'uint8_t'], ['packed_highp', 'aligned_highp'], shapes=[(2, 2), (3, 3), (4, 3), (2, 4)])      # operator swizzles put proxy members into the vec unions
        us += layout_units('algen', ['float', 'int', 'bool', 'int16_t', 'int64_t'], ['aligned_highp', 'aligned_mediump'], shapes=[(3, 3)]); us.append(named_unit('algen'))       # aligned types without SIMD (generic storage<L,T,true>)
    else:
        us += layout_units('default', SCAL, PQ)
        for cfg in ('sse2', 'avx', 'avx2', 'algen'): us += layout_units(cfg, SCAL, AQ + PQ)
        us += layout_units('defal', ['float', 'double', 'int', 'unsigned', 'uint8_t', 'bool'], ['defaultp', 'packed_highp', 'aligned_mediump'])
        for cfg in ('swzfunc', 'xyzw', 'sizet', 'ctorinit'): us += layout_units(cfg, SCAL, PQ)
        us += layout_units('swzop', ['float', 'int', 'double', 'uint8_t'], ['aligned_highp', 'packed_highp'], shapes=[(2, 2), (3, 3), (4, 4), (4, 3), (2, 4)])
        us += layout_units('wxyz', ['float', 'double'], PQ, Ls=(), shapes=[]); us += layout_units('wxyzsse2', ['float', 'double'], AQ + PQ, Ls=(), shapes=[])
        us += [named_unit(c) for c in ('default', 'sse2', 'avx2', 'algen', 'defal', 'swzfunc', 'xyzw', 'sizet', 'ctorinit')]
    flt = os.environ.get('C16_UNITS')
    if flt: us = [u for u in us if re.search(flt, u.name)]
    _UNITS[tier] = us
    return us

def units(tier):
    us = build(tier)
    from concurrent.futures import ThreadPoolExecutor
    with ThreadPoolExecutor(max_workers=int(os.environ.get('VERIF_JOBS', '14'))) as tp:
        list(tp.map(lambda u: u.prepare(), us))
    return us

def jobs(tier):
    J = []
    for u in build(tier):
        for ci, ch in enumerate(chunks(u.order, 130)):
            def run(S, u=u, ch=ch):
                for fname in ch: check(S, u, fname)
                resolve_oob(S)
            J.append(('%s_%02d' % (u.name[4:], ci), run))
    return J
JOB_CAP = {'quick': 900, 'thorough': 3600}
