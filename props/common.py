"""shared specification helpers (pure SMT, no code shared with glm)"""
import os, sys
sys.path.insert(0, os.path.join(os.path.dirname(os.path.abspath(__file__)), '..', 'engine'))
import z3
from harness import *

ITYPES = {'i8': 'int8_t', 'u8': 'uint8_t', 'i16': 'int16_t', 'u16': 'uint16_t', 'i32': 'int32_t', 'u32': 'uint32_t', 'i64': 'int64_t', 'u64': 'uint64_t'}
def is_signed(t): return t[0] == 'i'
def width(t): return int(t[1:])

def popcount(x, outw=32):
    n = x.size(); r = z3.BitVecVal(0, outw)
    for i in range(n): r = r + z3.ZeroExt(outw - 1, z3.Extract(i, i, x))
    return r
def lowest_set(x, outw=32):
    """index of lowest set bit, -1 if none"""
    n = x.size(); r = z3.BitVecVal(-1, outw)
    for i in range(n - 1, -1, -1): r = z3.If(z3.Extract(i, i, x) == 1, z3.BitVecVal(i, outw), r)
    return r
def highest_set(x, outw=32):
    n = x.size(); r = z3.BitVecVal(-1, outw)
    for i in range(n): r = z3.If(z3.Extract(i, i, x) == 1, z3.BitVecVal(i, outw), r)
    return r
def bitrev(x):
    n = x.size(); return z3.Concat(*[z3.Extract(i, i, x) for i in range(n)])
def bit(x, i): return z3.Extract(i, i, x)
def sx(x, n): return z3.SignExt(n - x.size(), x) if x.size() < n else (z3.Extract(n - 1, 0, x) if x.size() > n else x)
def zx(x, n): return z3.ZeroExt(n - x.size(), x) if x.size() < n else (z3.Extract(n - 1, 0, x) if x.size() > n else x)
def fp32(t): return z3.fpBVToFP(t, z3.Float32())
def fp64(t): return z3.fpBVToFP(t, z3.Float64())
def fpof(t): return z3.fpBVToFP(t, FSORT[t.size()])
def FPV(x, w=32): return z3.FPVal(x, FSORT[w])
def bits_of(v): return v.bits if isinstance(v, FV) else v
def fpv_of(v): return v.fp if isinstance(v, FV) else fpof(v)
def is_nan(t): return z3.fpIsNaN(fpof(t))
def finite(t): return z3.And(z3.Not(z3.fpIsNaN(fpof(t))), z3.Not(z3.fpIsInf(fpof(t))))
def same_float(a, b):
    """bit-identical, or both NaN (payloads are not part of any property here)"""
    a = bits_of(a); b = bits_of(b)
    return z3.Or(a == b, z3.And(is_nan(a), is_nan(b)))
def conj(xs):
    xs = list(xs); return z3.And(*xs) if len(xs) > 1 else (xs[0] if xs else z3.BoolVal(True))
