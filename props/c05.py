"""C05 - GLSL integer and bitfield functions return the specified exact result (glm/integer.hpp, detail/func_integer.inl)."""
from props.common import *

LEVEL = 'proof'
CLAIM = ("bitCount, findLSB, findMSB, bitfieldReverse, bitfieldExtract, bitfieldInsert (8/16/32/64-bit signed and unsigned element types, scalar and vec1-4 overloads, plus the aligned 4 x 32-bit SIMD "
         "specialisations of func_integer_simd.inl) and uaddCarry, usubBorrow, umulExtended, imulExtended (scalar and vec1-4) are executed symbolically from their clang IR with full-width free inputs; "
         "the solver shows each result equal to the GLSL 4.20 section 8.8 definition written directly over bit-vectors (population count, lowest / highest set bit with the signed rule of findMSB, "
         "bit reversal, sign- or zero-extended field extraction, bit-by-bit insertion, 33-bit sum / difference and 64-bit product split into the two output words), for every value and every "
         "(offset, bits) pair of the documented domain including zero-width and full-width fields.")
BOUNDS = 'no bound on values: every input is a free bit-vector of the full machine width (8,16,32,64 bit); no loops in the encoded code'
OUTSIDE = 'behaviour outside the documented (offset,bits) domain; SIMD specialisations other than the aligned 4 x 32-bit ones of func_integer_simd.inl at SSE2/AVX2 (quick) and SSE2..AVX2 (thorough) - the rest of the SIMD surface is C03'
ASSUMPTIONS = ['bitfieldExtract/Insert: 0<=offset, 0<=bits, offset+bits<=width (GLSL: otherwise undefined)']

U = Unit('c05', includes=['glm/glm.hpp', 'glm/integer.hpp'])
TYS = ['i8', 'u8', 'i16', 'u16', 'i32', 'u32', 'i64', 'u64']
WIDE = TYS      # (8/16-bit bitfieldReverse/bitfieldInsert did not instantiate before the fix recorded in known_findings.json)
for t in TYS:
    c = ITYPES[t]
    U.add('bitCount_' + t, [(c, 1)], [('int', 1)], 'o[0] = glm::bitCount(a[0]);')
    U.add('findLSB_' + t, [(c, 1)], [('int', 1)], 'o[0] = glm::findLSB(a[0]);')
    U.add('findMSB_' + t, [(c, 1)], [('int', 1)], 'o[0] = glm::findMSB(a[0]);')
    U.add('bitfieldExtract_' + t, [(c, 1), ('int', 2)], [(c, 1)], 'o[0] = glm::bitfieldExtract(a[0], b[0], b[1]);')
    if t in WIDE:
        U.add('bitfieldReverse_' + t, [(c, 1)], [(c, 1)], 'o[0] = glm::bitfieldReverse(a[0]);')
        U.add('bitfieldInsert_' + t, [(c, 2), ('int', 2)], [(c, 1)], 'o[0] = glm::bitfieldInsert(a[0], a[1], b[0], b[1]);')
    for L in (1, 2, 3, 4):
        U.add('bitCount_v%d_%s' % (L, t), [(c, L)], [('int', L)], 'stv(o, glm::bitCount(ldv<%d,%s>(a)));' % (L, c))
        U.add('findLSB_v%d_%s' % (L, t), [(c, L)], [('int', L)], 'stv(o, glm::findLSB(ldv<%d,%s>(a)));' % (L, c))
        U.add('findMSB_v%d_%s' % (L, t), [(c, L)], [('int', L)], 'stv(o, glm::findMSB(ldv<%d,%s>(a)));' % (L, c))
        U.add('bitfieldExtract_v%d_%s' % (L, t), [(c, L), ('int', 2)], [(c, L)], 'stv(o, glm::bitfieldExtract(ldv<%d,%s>(a), b[0], b[1]));' % (L, c))
        if t not in WIDE: continue
        U.add('bitfieldReverse_v%d_%s' % (L, t), [(c, L)], [(c, L)], 'stv(o, glm::bitfieldReverse(ldv<%d,%s>(a)));' % (L, c))
        U.add('bitfieldInsert_v%d_%s' % (L, t), [(c, L), (c, L), ('int', 2)], [(c, L)], 'stv(o, glm::bitfieldInsert(ldv<%d,%s>(a), ldv<%d,%s>(b), c[0], c[1]));' % (L, c, L, c))
U.add('uaddCarry', [('uint32_t', 2)], [('uint32_t', 2)], 'glm::uint c; o[0] = glm::uaddCarry(a[0], a[1], c); o[1] = c;')
U.add('usubBorrow', [('uint32_t', 2)], [('uint32_t', 2)], 'glm::uint c; o[0] = glm::usubBorrow(a[0], a[1], c); o[1] = c;')
U.add('umulExtended', [('uint32_t', 2)], [('uint32_t', 2)], 'glm::uint m, l; glm::umulExtended(a[0], a[1], m, l); o[0] = m; o[1] = l;')
U.add('imulExtended', [('int32_t', 2)], [('int32_t', 2)], 'int m, l; glm::imulExtended(a[0], a[1], m, l); o[0] = m; o[1] = l;')
for L in (1, 2, 3, 4):
    U.add('uaddCarry_v%d' % L, [('uint32_t', L), ('uint32_t', L)], [('uint32_t', L), ('uint32_t', L)], 'glm::vec<%d,glm::uint> c; stv(o, glm::uaddCarry(ldv<%d,glm::uint>(a), ldv<%d,glm::uint>(b), c)); stv(o2, c);' % (L, L, L))
    U.add('usubBorrow_v%d' % L, [('uint32_t', L), ('uint32_t', L)], [('uint32_t', L), ('uint32_t', L)], 'glm::vec<%d,glm::uint> c; stv(o, glm::usubBorrow(ldv<%d,glm::uint>(a), ldv<%d,glm::uint>(b), c)); stv(o2, c);' % (L, L, L))
    U.add('umulExtended_v%d' % L, [('uint32_t', L), ('uint32_t', L)], [('uint32_t', L), ('uint32_t', L)], 'glm::vec<%d,glm::uint> m, l; glm::umulExtended(ldv<%d,glm::uint>(a), ldv<%d,glm::uint>(b), m, l); stv(o, m); stv(o2, l);' % (L, L, L))
    U.add('imulExtended_v%d' % L, [('int32_t', L), ('int32_t', L)], [('int32_t', L), ('int32_t', L)], 'glm::vec<%d,int> m, l; glm::imulExtended(ldv<%d,int>(a), ldv<%d,int>(b), m, l); stv(o, m); stv(o2, l);' % (L, L, L))

# SIMD specialisations of func_integer_simd.inl: aligned 4 x 32-bit vectors under GLM_FORCE_INTRINSICS
SIMD_ISAS = {'sse2': ['-msse2'], 'sse41': ['-msse4.1'], 'avx': ['-mavx'], 'avx2': ['-mavx2']}
US = {}
for isa, fl in SIMD_ISAS.items():
    u = Unit('c05_' + isa, includes=['glm/glm.hpp', 'glm/integer.hpp'], defines=['GLM_FORCE_INTRINSICS'], cflags=fl)
    for t in ('i32', 'u32'):
        c = ITYPES[t]; ld = 'ldv<4,%s,glm::aligned_highp>(a)' % c
        u.add('bitCount_a4_' + t, [(c, 4)], [('int', 4)], 'stv(o, glm::bitCount(%s));' % ld)
        u.add('findLSB_a4_' + t, [(c, 4)], [('int', 4)], 'stv(o, glm::findLSB(%s));' % ld)
        u.add('findMSB_a4_' + t, [(c, 4)], [('int', 4)], 'stv(o, glm::findMSB(%s));' % ld)
        u.add('bitfieldReverse_a4_' + t, [(c, 4)], [(c, 4)], 'stv(o, glm::bitfieldReverse(%s));' % ld)
        u.add('bitfieldExtract_a4_' + t, [(c, 4), ('int', 2)], [(c, 4)], 'stv(o, glm::bitfieldExtract(%s, b[0], b[1]));' % ld)
        u.add('bitfieldInsert_a4_' + t, [(c, 4), (c, 4), ('int', 2)], [(c, 4)], 'stv(o, glm::bitfieldInsert(%s, ldv<4,%s,glm::aligned_highp>(b), c[0], c[1]));' % (ld, c))
    US[isa] = u
def simd_isas(tier): return ['sse2', 'avx2'] if tier == 'quick' else list(SIMD_ISAS)
def units(tier): return [U] + [US[i] for i in simd_isas(tier)]

# ---- specifications (GLSL 4.20 section 8.8 as quoted in glm/integer.hpp), bit level
def spec_findMSB(x, signed):
    if not signed: return highest_set(x)
    return z3.If(x < 0, highest_set(~x), highest_set(x))
def spec_extract(v, off, bits, signed):
    W = v.size(); w2 = 2 * W
    wide = z3.ZeroExt(W, v)
    o = zx(off, w2) if off.size() < w2 else z3.Extract(w2 - 1, 0, off); b = zx(bits, w2) if bits.size() < w2 else z3.Extract(w2 - 1, 0, bits)
    t = wide << (z3.BitVecVal(w2, w2) - (o + b))
    sh = z3.BitVecVal(w2, w2) - b
    r = (t >> sh) if signed else z3.LShR(t, sh)
    return z3.If(bits == 0, z3.BitVecVal(0, W), z3.Extract(W - 1, 0, r))
def spec_insert(base, ins, off, bits):
    W = base.size(); outb = []
    for i in range(W):
        inside = z3.And(off <= i, z3.BitVecVal(i, 32) < off + bits)
        k = z3.BitVecVal(i, 32) - off
        insbit = z3.Extract(0, 0, z3.LShR(ins, zx(k, W) if W >= 32 else z3.Extract(W - 1, 0, k)))
        outb.append(z3.If(inside, insbit, bit(base, i)))
    outb.reverse(); return z3.Concat(*outb)
def pre_field(W):
    def pre(off, bits): return [off >= 0, bits >= 0, off + bits <= W, off <= W, bits <= W]
    return pre

def job_simple(fam, t, L, unit=None, nm=None):
    """bitCount/findLSB/findMSB/bitfieldReverse for type t; L=0 scalar"""
    def run(S, U=U):
        if unit is not None: U = unit
        sg = is_signed(t)
        f = {'bitCount': lambda x: popcount(x), 'findLSB': lambda x: lowest_set(x), 'findMSB': lambda x: spec_findMSB(x, sg), 'bitfieldReverse': bitrev}[fam]
        wrong = {'bitCount': lambda x: popcount(x) + z3.ZeroExt(31, bit(x, 0)), 'findLSB': lambda x: highest_set(x), 'findMSB': lambda x: lowest_set(x), 'bitfieldReverse': lambda x: x}[fam]
        n = max(L, 1)
        name = nm or ('%s_%s' % (fam, t) if L == 0 else '%s_v%d_%s' % (fam, L, t))
        spec = lambda ins, outs: [('c%d' % i, outs[0][i] == f(ins[0][i])) for i in range(n)]
        mut = lambda ins, outs: [('c%d' % i, outs[0][i] == wrong(ins[0][i])) for i in range(n)]
        known = []
        S.check_fn(U, name, spec, known=known, mutant=mut, timeout=S.cap(120, 300), bounds='all 2^%d values per component' % width(t))
    return run

def job_extract(t, L, unit=None, nm=None):
    def run(S, U=U):
        if unit is not None: U = unit
        W = width(t); sg = is_signed(t); n = max(L, 1)
        name = nm or ('bitfieldExtract_%s' % t if L == 0 else 'bitfieldExtract_v%d_%s' % (L, t))
        pre = lambda ins: pre_field(W)(ins[1][0], ins[1][1])
        spec = lambda ins, outs: [('c%d' % i, outs[0][i] == spec_extract(ins[0][i], ins[1][0], ins[1][1], sg)) for i in range(n)]
        mut = lambda ins, outs: [('c%d' % i, outs[0][i] == spec_extract(ins[0][i], ins[1][0] + 1, ins[1][1], sg)) for i in range(n)]
        known = []
        if sg: known.append('KF-C05-bitfieldExtract-signext')

        S.check_fn(U, name, spec, pre, known=known, mutant=mut, timeout=S.cap(120, 300), bounds='all values, all (offset,bits) with 0<=offset, 0<=bits, offset+bits<=%d' % W, side=False)
    return run
def job_insert(t, L, unit=None, nm=None):
    def run(S, U=U):
        if unit is not None: U = unit
        W = width(t); n = max(L, 1)
        if L == 0:
            name = 'bitfieldInsert_%s' % t
            pre = lambda ins: pre_field(W)(ins[1][0], ins[1][1])
            spec = lambda ins, outs: [('c0', outs[0][0] == spec_insert(ins[0][0], ins[0][1], ins[1][0], ins[1][1]))]
            mut = lambda ins, outs: [('c0', outs[0][0] == spec_insert(ins[0][1], ins[0][0], ins[1][0], ins[1][1]))]
        else:
            name = nm or 'bitfieldInsert_v%d_%s' % (L, t)
            pre = lambda ins: pre_field(W)(ins[2][0], ins[2][1])
            spec = lambda ins, outs: [('c%d' % i, outs[0][i] == spec_insert(ins[0][i], ins[1][i], ins[2][0], ins[2][1])) for i in range(n)]
            mut = lambda ins, outs: [('c%d' % i, outs[0][i] == spec_insert(ins[1][i], ins[0][i], ins[2][0], ins[2][1])) for i in range(n)]
        known = []
        S.check_fn(U, name, spec, pre, mutant=mut, known=known, timeout=S.cap(120, 300), bounds='all values, all (offset,bits) with 0<=offset, 0<=bits, offset+bits<=%d' % W, side=False)
    return run

def job_carry(fam, L):
    def run(S):
        n = max(L, 1)
        name = fam if L == 0 else '%s_v%d' % (fam, L)
        def xs(ins, i): return (ins[0][0], ins[0][1]) if L == 0 else (ins[0][i], ins[1][i])
        def os_(outs, i): return (outs[0][0], outs[0][1]) if L == 0 else (outs[0][i], outs[1][i])
        def spec(ins, outs):
            g = []
            for i in range(n):
                x, y = xs(ins, i); r0, r1 = os_(outs, i)
                if fam == 'uaddCarry':
                    s33 = z3.ZeroExt(1, x) + z3.ZeroExt(1, y)
                    g += [('sum%d' % i, r0 == z3.Extract(31, 0, s33)), ('carry%d' % i, r1 == z3.ZeroExt(31, z3.Extract(32, 32, s33)))]
                elif fam == 'usubBorrow':
                    d33 = z3.ZeroExt(1, x) - z3.ZeroExt(1, y)      # 2^32 + (x-y) when negative == low 32 bits
                    g += [('diff%d' % i, r0 == z3.Extract(31, 0, d33)), ('borrow%d' % i, r1 == z3.If(z3.UGE(x, y), z3.BitVecVal(0, 32), z3.BitVecVal(1, 32)))]
                elif fam == 'umulExtended':
                    p = z3.ZeroExt(32, x) * z3.ZeroExt(32, y)
                    g += [('msb%d' % i, r0 == z3.Extract(63, 32, p)), ('lsb%d' % i, r1 == z3.Extract(31, 0, p))]
                else:
                    p = z3.SignExt(32, x) * z3.SignExt(32, y)
                    g += [('msb%d' % i, r0 == z3.Extract(63, 32, p)), ('lsb%d' % i, r1 == z3.Extract(31, 0, p))]
            return g
        def mut(ins, outs):
            x, y = xs(ins, 0); r0, r1 = os_(outs, 0)
            return [('m', r0 == x + y + 1)] if fam == 'uaddCarry' else [('m', r0 == x)]
        known = ['KF-C05-usubBorrow', 'KF-C05-usubBorrow-vec'] if fam == 'usubBorrow' else []
        S.check_fn(U, name, spec, known=known, mutant=mut, timeout=S.cap(120, 300), bounds='all 2^64 argument pairs per component')
    return run

def jobs(tier):
    J = []
    q = tier == 'quick'
    for fam in ('bitCount', 'findLSB', 'findMSB', 'bitfieldReverse'):
        for t in (WIDE if fam == 'bitfieldReverse' else TYS):
            J.append(('%s_%s' % (fam, t), job_simple(fam, t, 0)))
            for L in (((1, 2, 3, 4) if t in ('i32', 'u32', 'u8', 'i8') else (3,)) if q else (1, 2, 3, 4)):
                J.append(('%s_v%d_%s' % (fam, L, t), job_simple(fam, t, L)))
    for t in TYS:
        J.append(('bitfieldExtract_' + t, job_extract(t, 0)))
        if t in WIDE: J.append(('bitfieldInsert_' + t, job_insert(t, 0)))
        for L in (((1, 2, 3, 4) if t in ('i32', 'u32') else (2,)) if q else (1, 2, 3, 4)):
            J.append(('bitfieldExtract_v%d_%s' % (L, t), job_extract(t, L)))
            if t in WIDE: J.append(('bitfieldInsert_v%d_%s' % (L, t), job_insert(t, L)))
    for fam in ('uaddCarry', 'usubBorrow', 'umulExtended', 'imulExtended'):
        J.append((fam, job_carry(fam, 0)))
        for L in (1, 2, 3, 4): J.append(('%s_v%d' % (fam, L), job_carry(fam, L)))
    for isa in simd_isas(tier):
        for t in ('i32', 'u32'):
            for fam in ('bitCount', 'findLSB', 'findMSB', 'bitfieldReverse'):
                J.append(('%s_%s_a4_%s' % (isa, fam, t), job_simple(fam, t, 4, US[isa], '%s_a4_%s' % (fam, t))))
            J.append(('%s_bitfieldExtract_a4_%s' % (isa, t), job_extract(t, 4, US[isa], 'bitfieldExtract_a4_' + t)))
            J.append(('%s_bitfieldInsert_a4_%s' % (isa, t), job_insert(t, 4, US[isa], 'bitfieldInsert_a4_' + t)))
    return J
