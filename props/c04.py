"""C04 - quaternion, matrix, axis-angle and Euler forms of a rotation agree (also under GLM_FORCE_QUAT_DATA_WXYZ)."""
from props.common import *
import math, struct, time
from fractions import Fraction
import realtrig
from irsym import Exec

LEVEL = 'proof'
CLAIM = ("operator*(qua,vec3/vec4), gtx rotate, mat3_cast/mat4_cast, quat_cast (all four largest-component branches), the Hamilton product, conjugate/inverse, "
         "angle/axis/angleAxis, qua(u,v), gtx rotation(u,v), every gtx/euler_angles constructor (single, double, all 12 triple orders, yawPitchRoll, orientate*, derived*) "
         "and extractEulerAngle* and quat(eulerAngles(q)) are executed symbolically from their clang IR in rounding-erased real arithmetic; the solver shows, for every unit "
         "quaternion / vector / angle tuple, that they agree with the mathematical definitions (v -> q v q*, products of single-axis rotation matrices) and with each other, "
         "in the default and the GLM_FORCE_QUAT_DATA_WXYZ layout; bit-precisely the two layouts yield identical named components. "
         "Decision level: on a free symbolic 3x3/4x4 matrix quat_cast (and qua(mat)) makes the strictly largest of the four candidates 4q_k^2-1 the pivot (+sqrt(candidate+1)/2) and derives every other "
         "component from it; pitch/yaw/roll/eulerAngles return exactly atan2(R21,R22) / asin(-R20) / atan2(R10,R00) of the rotation matrix of q as the same function applications, and "
         "2 atan2(x,w) / 0 exactly when their epsilon guards hold; code-free lemma chains show that these angles rebuild the rotation of q (regular branches) and q itself at exact gimbal lock. "
         "For each of the 12 orders eulerAngleABC(extractEulerAngleABC(M)) == M for the rotation matrix M of every unit quaternion off the gimbal lock of that order AND for every rotation exactly at the lock (M = R_A(a) R_B(lock), whatever angle atan2 returns at the origin), by a per-order chain of "
         "polynomial identities of the entries (decided in the quaternion components) and scalar links over the executor's own atan2/sqrt axioms.")
BOUNDS = ("rounding-erased semantics (every + - * / exact, sqrt algebraic); sin/cos/acos/asin/atan2 as real variables constrained only by true identities (engine/realtrig.py); "
          "all unit quaternions (w^2+x^2+y^2+z^2 = 1), all vectors, all angle tuples; float and double instantiations; XYZW and WXYZ layouts")
OUTSIDE = ("size of the rounding error (closeness claims near w~0, w~+-1, gimbal lock are decided only in exact arithmetic; branch conditions are those of the exact values); "
           "qua(u,v)/rotation(u,v) on their 'opposite vectors' fallback branches only up to the orthogonality of the chosen axis; rotation(u,v) in its cos>=1-eps shortcut returns the identity "
           "(u and v then differ by < sqrt(2 eps)); quat_cast when two candidates tie for the largest (there only the rotation-matrix round trip, not the free-matrix pivot rule); "
           "eulerAngles inside the epsilon guard but off the exact singularity (the guarded value is then an approximation: only the returned formula is checked, the rebuild q only at R21 == R22 == 0); "
           "extractEulerAngleABC on matrices that are not rotations (at EXACT gimbal lock - middle angle 0 / pi resp. +-pi/2 - the rebuild is decided by the lock[..] obligations for an arbitrary value of the atan2 evaluated at the origin; the open neighbourhoods of the lock are covered by the regular chain, whose hypothesis is only that the first hypotenuse is > 0); "
           "memory order of the components (C16)")
ASSUMPTIONS = ['layout differential: IEEE addition and multiplication are commutative (operands are sorted before the two builds are compared)',
               'float/double literals that are the correctly rounded value of k*pi/4 denote k*pi/4 in the rounding-erased semantics (C11 checks the literals themselves)',
               'libm sin/cos/acos/asin/atan2 are the mathematical functions (only identities true of the real functions are used)',
               'lemmas euler.* / gimbal.*: scalar variables stand for cos/sin of the angles and carry exactly the facts engine/realtrig.py attaches to atan2 / asin plus the double-angle identities and cos(yaw/2) > 0 (|yaw| <= pi/2)']

FT = {'f32': 'float', 'f64': 'double'}
INC = ['glm/glm.hpp', 'glm/gtc/quaternion.hpp', 'glm/gtx/quaternion.hpp', 'glm/gtx/euler_angles.hpp', 'glm/gtx/rotate_vector.hpp', 'glm/gtc/matrix_transform.hpp']
U = Unit('c04', includes=INC)

EULER3 = ['XYZ', 'YXZ', 'XZX', 'XYX', 'YXY', 'YZY', 'ZYZ', 'ZXZ', 'XZY', 'YZX', 'ZYX', 'ZXY']
EULER2 = ['XY', 'YX', 'XZ', 'ZX', 'YZ', 'ZY']
for t, c in FT.items():
    Q = 'ldq<%s>' % c; V3 = 'ldv<3,%s>' % c
    U.add('qv_' + t, [(c, 4), (c, 3)], [(c, 3), (c, 3), (c, 4), (c, 3)],
          'auto q=%s(a); auto v=%s(b); stv(o, q*v); stv(o2, glm::mat3_cast(q)*v); stv(o3, glm::mat4_cast(q)*glm::vec<4,%s>(v,1)); stv(o4, glm::rotate(q, v));' % (Q, V3, c))
    U.add('qv4_' + t, [(c, 4), (c, 4)], [(c, 4), (c, 4), (c, 3)],
          'auto q=%s(a); auto v=ldv<4,%s>(b); stv(o, q*v); stv(o2, glm::rotate(q, v)); stv(o3, glm::vec<3,%s>(v)*q);' % (Q, c, c))
    U.add('m3_' + t, [(c, 4)], [(c, 9), (c, 16), (c, 9), (c, 16)],
          'auto q=%s(a); stm(o, glm::mat3_cast(q)); stm(o2, glm::mat4_cast(q)); stm(o3, glm::toMat3(q)); stm(o4, glm::mat<4,4,%s>(q));' % (Q, c))
    U.add('rt_' + t, [(c, 4)], [(c, 4)], 'stq(o, glm::quat_cast(glm::mat3_cast(%s(a))));' % Q)
    U.add('rt4_' + t, [(c, 4)], [(c, 4)], 'stq(o, glm::quat_cast(glm::mat4_cast(%s(a))));' % Q)
    U.add('rtc_' + t, [(c, 4)], [(c, 4)], 'stq(o, glm::qua<%s>(glm::mat4_cast(%s(a))));' % (c, Q))
    U.add('rtg_' + t, [(c, 4)], [(c, 4)], 'stq(o, glm::toQuat(glm::toMat3(%s(a))));' % Q)
    U.add('mm_' + t, [(c, 4), (c, 4)], [(c, 9), (c, 9), (c, 4), (c, 4)],
          'auto p=%s(a); auto q=%s(b); stm(o, glm::mat3_cast(p*q)); stm(o2, glm::mat3_cast(p)*glm::mat3_cast(q)); stq(o3, p*q); stq(o4, glm::cross(p, q));' % (Q, Q))
    U.add('inv_' + t, [(c, 4)], [(c, 4), (c, 4), (c, 4)], 'auto q=%s(a); stq(o, q*glm::inverse(q)); stq(o2, glm::conjugate(q)); stq(o3, glm::inverse(q));' % Q)
    U.add('aa_' + t, [(c, 4)], [(c, 4)], 'auto q=%s(a); stq(o, glm::angleAxis(glm::angle(q), glm::axis(q)));' % Q)
    U.add('ang_' + t, [(c, 4)], [(c, 1), (c, 3)], 'auto q=%s(a); o[0]=glm::angle(q); stv(o2, glm::axis(q));' % Q)
    U.add('angax_' + t, [(c, 1), (c, 3), (c, 3)], [(c, 4), (c, 3)], 'auto q=glm::angleAxis(a[0], %s(b)); stq(o, q); stv(o2, q*%s(c));' % (V3, V3))
    U.add('uv_' + t, [(c, 3), (c, 3)], [(c, 4)], 'stq(o, glm::qua<%s>(%s(a), %s(b)));' % (c, V3, V3))
    U.add('rot_' + t, [(c, 3), (c, 3)], [(c, 4)], 'stq(o, glm::rotation(%s(a), %s(b)));' % (V3, V3))
    U.add('ctor_' + t, [(c, 4)], [(c, 4), (c, 4), (c, 4), (c, 4)],
          'stq(o, glm::qua<%s>(a[0],a[1],a[2],a[3])); stq(o2, glm::qua<%s>::wxyz(a[0],a[1],a[2],a[3])); stq(o3, glm::qua<%s>(a[0], glm::vec<3,%s>(a[1],a[2],a[3])));'
          ' { auto q=%s(a); o4[0]=q[0]; o4[1]=q[1]; o4[2]=q[2]; o4[3]=q[3]; }' % (c, c, c, c, Q))
    for ax in 'XYZ':
        U.add('ea%s_%s' % (ax, t), [(c, 1)], [(c, 16)], 'stm(o, glm::eulerAngle%s(a[0]));' % ax)
        U.add('dea%s_%s' % (ax, t), [(c, 2)], [(c, 16)], 'stm(o, glm::derivedEulerAngle%s(a[0], a[1]));' % ax)
    for n in EULER2:
        U.add('ea%s_%s' % (n, t), [(c, 2)], [(c, 16)], 'stm(o, glm::eulerAngle%s(a[0], a[1]));' % n)
    for n in EULER3:
        U.add('ea%s_%s' % (n, t), [(c, 3)], [(c, 16)], 'stm(o, glm::eulerAngle%s(a[0], a[1], a[2]));' % n)
        U.add('xea%s_%s' % (n, t), [(c, 9)], [(c, 16), (c, 3)],
              'glm::mat<4,4,%s> M(ldm<3,3,%s>(a)); %s t1, t2, t3; glm::extractEulerAngle%s(M, t1, t2, t3); stm(o, glm::eulerAngle%s(t1, t2, t3)); o2[0]=t1; o2[1]=t2; o2[2]=t3;' % (c, c, c, n, n))
    U.add('ypr_' + t, [(c, 3)], [(c, 16), (c, 9), (c, 16)],
          'stm(o, glm::yawPitchRoll(a[0], a[1], a[2])); stm(o2, glm::orientate3(%s(a))); stm(o3, glm::orientate4(%s(a)));' % (V3, V3))
    U.add('or2_' + t, [(c, 1)], [(c, 4), (c, 9)], 'stm(o, glm::orientate2(a[0])); stm(o2, glm::orientate3(a[0]));')
    U.add('qeul_' + t, [(c, 3)], [(c, 4), (c, 9)], 'glm::qua<%s> q(%s(a)); stq(o, q); stm(o2, glm::mat3_cast(q));' % (c, V3))
    U.add('eulq_' + t, [(c, 4)], [(c, 4), (c, 3)], 'auto q=%s(a); auto e=glm::eulerAngles(q); stq(o, glm::qua<%s>(e)); stv(o2, e);' % (Q, c))
    U.add('aliasm_' + t, [(c, 4)], [(c, 4), (c, 4), (c, 4), (c, 4)],
          '{ auto r=%s(a); r *= r; stq(o, r); } { auto r=%s(a); glm::qua<%s>& s = r; r *= s; stq(o2, r); } { auto r=%s(a); glm::qua<%s> const& ret = (r *= r); stq(o3, ret); }'
          ' { auto r=%s(a); glm::qua<%s> const* ps = &r; r *= *ps; r *= *ps; stq(o4, r); }' % (Q, Q, c, Q, c, Q, c))
    U.add('aliasa_' + t, [(c, 4)], [(c, 4), (c, 4), (c, 4), (c, 4)],
          '{ auto r=%s(a); r += r; stq(o, r); } { auto r=%s(a); glm::qua<%s>& s = r; r -= s; stq(o2, r); } { auto r=%s(a); r *= r.w; stq(o3, r); } { auto r=%s(a); r /= r.w; stq(o4, r); }' % (Q, Q, c, Q, Q))
    U.add('qc3_' + t, [(c, 9)], [(c, 4)], 'stq(o, glm::quat_cast(ldm<3,3,%s>(a)));' % c)
    U.add('qc4_' + t, [(c, 16)], [(c, 4), (c, 4)], 'auto m=ldm<4,4,%s>(a); stq(o, glm::quat_cast(m)); stq(o2, glm::qua<%s>(m));' % (c, c))
    U.add('pyr_' + t, [(c, 4)], [(c, 3), (c, 3)], 'auto q=%s(a); o[0]=glm::pitch(q); o[1]=glm::yaw(q); o[2]=glm::roll(q); stv(o2, glm::eulerAngles(q));' % Q)
UW = U.clone('c04w', defines=['GLM_FORCE_QUAT_DATA_WXYZ'])
UX = U.clone('c04x', defines=['GLM_FORCE_QUAT_DATA_XYZW'])        # documented in manual.md 2.21: switches the argument order of the four-scalar constructor (x, y, z, w); memory order stays x,y,z,w
UNITS = {'xyzw': U, 'wxyz': UW, 'xyzwctor': UX}
def units(tier): return [U, UW, UX]

# ------------------------------------------------------------------------------------------------ specification side (pure mathematics)
def qmul(p, q):
    """Hamilton product, components [w,x,y,z]"""
    pw, px, py, pz = p; qw, qx, qy, qz = q
    return [pw * qw - px * qx - py * qy - pz * qz, pw * qx + px * qw + py * qz - pz * qy, pw * qy - px * qz + py * qw + pz * qx, pw * qz + px * qy - py * qx + pz * qw]
def qconj(q): return [q[0], -q[1], -q[2], -q[3]]
def qrot(q, v):
    """v -> q (0,v) q*   (a rotation when |q| = 1)"""
    r = qmul(qmul(q, [z3.RealVal(0)] + list(v)), qconj(q)); return r[1:]
def norm2(v):
    r = v[0] * v[0]
    for x in v[1:]: r = r + x * x
    return r
def dot(u, v):
    r = u[0] * v[0]
    for x, y in zip(u[1:], v[1:]): r = r + x * y
    return r
def rotmat(q):
    """3x3 rotation matrix of unit q as rows [r][c]: column c is the image of the basis vector e_c"""
    one, zero = z3.RealVal(1), z3.RealVal(0)
    cols = [qrot(q, [one if i == c else zero for i in range(3)]) for c in range(3)]
    return [[cols[c][r] for c in range(3)] for r in range(3)]
def matmul(A, B):
    n = len(A); m = len(B[0]); k = len(B)
    return [[sum_([A[r][j] * B[j][c] for j in range(k)]) for c in range(m)] for r in range(n)]
def sum_(xs):
    r = xs[0]
    for x in xs[1:]: r = r + x
    return r
def unit(q): return norm2(q) == 1
def rv(x): return x.r if isinstance(x, RV) else x
def M(o, C, R):
    """output array (column-major, o[c*R+r]) -> rows[r][c] of real terms"""
    return [[rv(o[c * R + r]) for c in range(C)] for r in range(R)]
def embed4(m3):
    one, zero = z3.RealVal(1), z3.RealVal(0)
    return [[m3[r][c] if r < 3 and c < 3 else (one if r == c else zero) for c in range(4)] for r in range(4)]
def mat_goals(tag, got, want):
    return [('%s[r%dc%d]' % (tag, r, c), REq(got[r][c], want[r][c])) for r in range(len(want)) for c in range(len(want[0]))]
def vec_goals(tag, got, want): return [('%s[%d]' % (tag, k), REq(rv(g), w)) for k, (g, w) in enumerate(zip(got, want))]

def is_num(t):
    t = z3.simplify(t); return z3.is_rational_value(t) or z3.is_algebraic_value(t) or z3.is_int_value(t)
class Trig:
    """sin/cos of specification angles: the executor's own table variable when symbolic, the numeric value on replay"""
    def __init__(s, ex): s.ex = ex
    def _f(s, fn, x):
        if is_num(x): return z3.RealVal(repr(getattr(math, fn)(float(z3val_to_fraction(x)))))
        return realtrig.trig_var(s.ex, fn, (x,))
    def sin(s, x): return s._f('sin', x)
    def cos(s, x): return s._f('cos', x)
    @property
    def pi(s): return realtrig.real_pi(s.ex)
    def sqrt(s, k, X):
        """the k-th square root evaluated by the executed code (a variable y with y >= 0, y*y = its argument); X is the specification's expression for that
        argument - the link 'argument == X' is proved separately via sqrt_arg; on numeric replay the value sqrt(X)"""
        if is_num(X): return z3.RealVal(repr(math.sqrt(max(0.0, float(z3val_to_fraction(X))))))
        return s.ex.sqrt_log[k][1]
    def sqrt_arg(s, k, X): return X if is_num(X) else s.ex.sqrt_log[k][0]
    def _calls(s, fn): return [(v, argt) for key, (v, argt) in s.ex.trig.items() if key[0] == fn]
    def inv(s, fn, k, *X):
        """result variable of the k-th distinct acos/asin/atan/atan2 call executed by the code (X: the specification's expression(s) for its argument(s),
        linked separately through inv_arg); on numeric replay the libm value"""
        if all(is_num(x) for x in X):
            a = [float(z3val_to_fraction(x)) for x in X]
            if fn in ('acos', 'asin'): a = [max(-1.0, min(1.0, a[0]))]
            return z3.RealVal(repr(getattr(math, fn)(*a)))
        return s._calls(fn)[k][0]
    def inv_arg(s, fn, k, j, X): return X if is_num(X) else s._calls(fn)[k][1][j]
    def atan2(s, y, x):
        """atan2(y, x) as the SAME table variable the executed code obtains for these arguments (same argument polynomial -> same variable; otherwise a variable tied to
        the code's by the congruence axiom 'equal arguments -> equal value'); numerically the libm value"""
        if is_num(y) and is_num(x): return z3.RealVal(repr(math.atan2(float(z3val_to_fraction(y)), float(z3val_to_fraction(x)))))
        return realtrig.trig_var(s.ex, 'atan2', (y, x))
def Rx(T, a):
    c, s = T.cos(a), T.sin(a); return [[1, 0, 0], [0, c, -s], [0, s, c]]
def Ry(T, a):
    c, s = T.cos(a), T.sin(a); return [[c, 0, s], [0, 1, 0], [-s, 0, c]]
def Rz(T, a):
    c, s = T.cos(a), T.sin(a); return [[c, -s, 0], [s, c, 0], [0, 0, 1]]
def R(T, ax, a):
    m = {'X': Rx, 'Y': Ry, 'Z': Rz}[ax](T, a)
    return [[z3.RealVal(x) if isinstance(x, int) else x for x in row] for row in m]
def dR(T, ax, a, w):
    """d/dt R_ax(a(t)) with da/dt = w"""
    c, s = T.cos(a) * w, T.sin(a) * w; z = z3.RealVal(0)
    return {'X': [[z, z, z], [z, -s, -c], [z, c, -s]], 'Y': [[-s, z, c], [z, z, z], [-c, z, -s]], 'Z': [[-s, -c, z], [c, -s, z], [z, z, z]]}[ax]
def euler_product(T, order, angles):
    m = R(T, order[0], angles[0])
    for ax, a in zip(order[1:], angles[1:]): m = matmul(m, R(T, ax, a))
    return m

# ------------------------------------------------------------------------------------------------ harness glue
def mkex(unit, mode, unwind):
    ex = Exec(unit.module(), fmode='real' if mode == 'real' else 'fp', unwind=unwind)
    if mode == 'real':
        realtrig.map_pi_literals(ex); ex.trig_domain = True; ex.model_inputs_hook = realtrig.model_inputs_hook
    return ex
def abstract_ites(t, tag='ite'):
    """generalise: every maximal If-subterm of real sort (reached through arithmetic / comparisons / connectives) becomes a fresh real (sound for proving validity)"""
    subs = {}
    def go(x):
        if z3.is_app(x) and x.decl().kind() == z3.Z3_OP_ITE and z3.is_real(x):
            k = x.get_id()
            if k not in subs: subs[k] = (x, z3.Real('%s!abs%d' % (tag, len(subs))))
            return
        for c in x.children(): go(c)
    go(t)
    return z3.substitute(t, *subs.values()) if subs else t
def linearise(t, tab=None):
    """generalisation used for decision-level goals: every real arithmetic subterm is put into polynomial normal form (engine/realtrig.poly_of) and each NON-LINEAR monomial
    becomes a fresh real, so two syntactically different writings of the same polynomial become the same linear term.  If the generalised formula is valid, so is the original."""
    tab = {} if tab is None else tab
    ARITH = (z3.Z3_OP_ADD, z3.Z3_OP_SUB, z3.Z3_OP_UMINUS, z3.Z3_OP_MUL, z3.Z3_OP_DIV)
    memo = {}
    def has_ite(x):
        if not z3.is_app(x): return False
        k = x.decl().kind()
        if k == z3.Z3_OP_ITE: return True
        return k in ARITH and any(has_ite(c) for c in x.children())
    def go(x):
        k = x.get_id()
        if k in memo: return memo[k]
        r = x
        if z3.is_app(x) and x.num_args():
            kind = x.decl().kind()
            if z3.is_real(x) and kind in ARITH and not has_ite(x):
                p = realtrig.poly_of(x); parts = []
                for m, c in sorted(p.t.items()):
                    if len(m) == 0: parts.append(z3.RealVal(str(c))); continue
                    if len(m) == 1: v = p.atoms[m[0]]
                    else: v = tab.setdefault(m, z3.Real('mono!%d' % len(tab)))
                    parts.append(v if c == 1 else z3.RealVal(str(c)) * v)
                r = sum_(parts) if parts else z3.RealVal(0)
            else:
                r = x.decl()(*[go(c) for c in x.children()])
        memo[k] = r; return r
    return go(t)
def staged(S, name, goal, pre_hyps, all_hyps, replay, timeout, meta, focus=None):
    """decision-level obligation, cheapest route first: (A) hypothesis-free on the monomial-abstracted goal (linear arithmetic; decides 'same polynomial, same function application'),
    (B) under the precondition only (exact arithmetic, no trig axioms): unsat proves it, a model is only a candidate and counts when the native replay reproduces it, (C) the full query"""
    if focus is not None:       # (F) only the function axioms that talk about the focus terms (and the inputs): a sub-conjunction of the hypotheses, so 'unsat' is a proof
        cm = {}; keep = term_consts(goal, cm) | {realtrig.PI_NAME}
        for x in list(pre_hyps) + list(focus): keep = keep | term_consts(x, cm)
        rel = [a for a in all_hyps if term_consts(a, cm) <= keep]
        r, m, dt, used = S.query(rel + [z3.Not(goal)], 10, 'nra')
        if r == 'unsat':
            S.rec(name=name, solver=used + ' (%d of %d hypotheses: those over the inputs and the focus terms)' % (len(rel), len(all_hyps)), result='unsat', time_s=round(dt, 3), status='discharged', mandatory=True, **meta); return
        S.prove(name, goal, all_hyps, timeout=timeout, solver='nra', replay=replay, **meta); return
    t0 = time.time(); r, m, dt, used = S.query([z3.Not(linearise(goal))], 10, 'z3')
    if r == 'unsat':
        S.rec(name=name, solver='z3 (hypothesis-free; non-linear monomials abstracted to fresh reals)', result='unsat', time_s=round(dt, 3), status='discharged', mandatory=True, **meta); return
    r, m, dt, used = S.query(list(pre_hyps) + [z3.Not(goal)], 10, 'nra')
    if r == 'unsat':
        S.rec(name=name, solver=used + ' (precondition only, no function axioms)', result='unsat', time_s=round(dt, 3), status='discharged', mandatory=True, **meta); return
    if r == 'sat':
        try: verdict, info = replay(m)
        except Exception as e: verdict, info = 'replay-error', {'error': str(e)[:300]}
        if verdict == 'reproduced':
            S.rec(name=name, solver=used + ' (precondition only, no function axioms)', result='sat', time_s=round(dt, 3), status='counterexample', replay=verdict, replay_info=info, mandatory=True, **meta)
            S.violations.append((name, info)); return
    S.prove(name, goal, all_hyps, timeout=timeout, solver='nra', replay=replay, **meta)

def chk(S, unit, fn, spec, pre=None, setup=None, abstract_side=False, staged_if=None, focus=None, **kw):
    """check_fn in real mode; spec(i, o, T) gets a Trig context bound to the executor that ran the code; setup(res, T) may instantiate lemmas.
    abstract_side: the executor's side obligations (sqrt/division domains, traps) are discharged on a generalisation in which merged-path If-terms are fresh reals"""
    box = {}
    def xh(res):
        box['T'] = Trig(res.ex); box['res'] = res
        box['extra'] = list(setup(res, box['T']) or []) if setup else []
        return box['extra']
    kw.setdefault('mode', 'real'); kw.setdefault('timeout', S.cap(60, 150)); kw.setdefault('solver', 'nra')
    if abstract_side: kw['side'] = False
    full = lambda i, o: spec(i, o, box['T'])
    def sp(i, o):
        goals = full(i, o)
        if staged_if is None or is_num(i[0][0]): return goals          # numeric replay: all labels
        res = box['res']; name = kw.get('name') or '%s.%s' % (unit.name, fn); rest = []
        p = pre(res.ins) if pre else []
        p = list(p if isinstance(p, (list, tuple)) else [p])
        for label, g in goals:
            if not staged_if(label): rest.append((label, g)); continue
            oname = '%s.%s' % (name, label)
            staged(S, oname, goal_term(g), p, p + box['extra'] + res.axioms, S._replayer(res, (full, label), pre, unit, fn, 'real', oname), kw['timeout'],
                   dict(kind='spec', functions=['w_' + fn], bounds=kw.get('bounds', '')), focus=(focus or {}).get(label))
        return rest
    res = S.check_fn(unit, fn, sp, pre, extra_hyps=xh, ex=mkex, **kw)
    if abstract_side and res is not None:
        p = pre(res.ins) if pre else []
        hy = list(p if isinstance(p, (list, tuple)) else [p]) + res.axioms
        name = kw.get('name') or '%s.%s' % (unit.name, fn)
        for k, (kind, cond, d) in enumerate(res.obligations):
            S.prove('%s.%s[%s]#%d' % (name, kind, d[:60], k), z3.Not(abstract_ites(cond)), hy, timeout=kw['timeout'], solver=kw['solver'], kind=kind, functions=['w_' + fn],
                    bounds='generalised over merged-path If-terms')
    return res

# ------------------------------------------------------------------------------------------------ jobs
def job_rotate(lay, t):
    Un = UNITS[lay]
    def run(S):
        def spec(i, o, T):
            q, v = i; w = qrot(q, v)
            return vec_goals('q*v', o[0], w) + vec_goals('mat3_cast(q)*v', o[1], w) + vec_goals('mat4_cast(q)*(v,1)', o[2], w + [z3.RealVal(1)]) + vec_goals('gtx.rotate', o[3], w)
        chk(S, Un, 'qv_' + t, spec, lambda i: [unit(i[0])], bounds='all unit q, all v',
            mutant=lambda i, o: [('m', REq(o[0][0].r, qrot(qconj(i[0]), i[1])[0]))])
        def spec4(i, o, T):
            q, v = i; w = qrot(q, v[:3]); wi = qrot(qconj(q), v[:3])
            return vec_goals('q*v4', o[0], w + [v[3]]) + vec_goals('gtx.rotate4', o[1], w + [v[3]]) + vec_goals('v*q', o[2], wi)
        chk(S, Un, 'qv4_' + t, spec4, lambda i: [unit(i[0])], bounds='all unit q, all v')
        def specm(i, o, T):
            Rm = rotmat(i[0])
            return mat_goals('mat3_cast', M(o[0], 3, 3), Rm) + mat_goals('mat4_cast', M(o[1], 4, 4), embed4(Rm)) + mat_goals('toMat3', M(o[2], 3, 3), Rm) + mat_goals('mat4(q)', M(o[3], 4, 4), embed4(Rm))
        chk(S, Un, 'm3_' + t, specm, lambda i: [unit(i[0])], bounds='all unit q')
    return run

def job_roundtrip(lay, t, fns=('rt', 'rt4')):
    Un = UNITS[lay]
    def run(S):
        def spec(i, o, T):
            q = i[0]; r = [rv(x) for x in o[0]]
            g = [('square[%d]' % a, REq(r[a] * r[a], q[a] * q[a])) for a in range(4)]
            return g + [('parallel[%d,%d]' % (a, b), REq(r[a] * q[b], r[b] * q[a])) for a in range(4) for b in range(a + 1, 4)]
        for f in fns:
            chk(S, Un, '%s_%s' % (f, t), spec, lambda i: [unit(i[0])], bounds='all unit q (all four largest-component branches); equal squares + parallel to q <=> result in {q,-q}',
                mutant=lambda i, o: [('m', REq(o[0][1].r, i[0][1]))])
    return run

def absle(x, e): return z3.And(x <= e, -x <= e)
NAMES = 'wxyz'
def pivot_candidates(Rm):
    """4 q_k^2 - 1 for k = w,x,y,z, written in the entries of the rotation matrix rows[r][c] of a unit quaternion (trace identities)"""
    d0, d1, d2 = Rm[0][0], Rm[1][1], Rm[2][2]
    return [d0 + d1 + d2, d0 - d1 - d2, d1 - d0 - d2, d2 - d0 - d1]
def pivot_pairs(Rm):
    """4 q_j q_k (j < k over w,x,y,z) in the entries of the rotation matrix of a unit quaternion"""
    return {(0, 1): Rm[2][1] - Rm[1][2], (0, 2): Rm[0][2] - Rm[2][0], (0, 3): Rm[1][0] - Rm[0][1],
            (1, 2): Rm[1][0] + Rm[0][1], (1, 3): Rm[0][2] + Rm[2][0], (2, 3): Rm[2][1] + Rm[1][2]}
def job_pivot(lay, t, fns=('qc3', 'qc4')):
    """decision level of quat_cast on a FREE symbolic matrix (no unit-quaternion hypothesis): whichever of the four candidates 4q_k^2-1 is strictly the largest, the component k
    of the result is the pivot +sqrt(candidate+1)/2 (so the code divides by the largest available pivot, never by a small one), and every other component j is
    (4 q_j q_k)/(4 pivot).  Everything is stated on inputs and outputs only, hence replayable natively."""
    Un = UNITS[lay]
    def run(S):
        def mk(n, outs):
            def spec(i, o, T):
                Rm = [[i[0][c * n + r] for c in range(3)] for r in range(3)]        # column-major input, upper-left 3x3
                cand = pivot_candidates(Rm); pair = pivot_pairs(Rm); g = []
                for oi in outs:
                    r = [rv(x) for x in o[oi]]; tag = '' if oi == 0 else 'qua(m).'
                    for k in range(4):
                        big = z3.And(*[cand[k] > cand[j] for j in range(4) if j != k])
                        g += [('%spivot=%s.sign' % (tag, NAMES[k]), RGoal('ge', r[k], ZERO, big)), ('%spivot=%s.value' % (tag, NAMES[k]), RGoal('eq', 4 * r[k] * r[k], cand[k] + 1, big))]
                        g += [('%spivot=%s.other[%s]' % (tag, NAMES[k], NAMES[j]), RGoal('eq', 4 * r[j] * r[k], pair[(min(j, k), max(j, k))], big)) for j in range(4) if j != k]
                return g
            return spec
        box = lambda i: [z3.And(x >= -1, x <= 1) for x in i[0]]
        for f in fns:
            n, outs = (3, (0,)) if f == 'qc3' else (4, (0, 1))
            chk(S, Un, '%s_%s' % (f, t), mk(n, outs), box, bounds='every real matrix with entries in [-1,1] (not only rotation matrices); all four largest-candidate branches; ties between candidates excluded')
    return run

def job_alias(lay, t):
    """compound assignment with the object itself on the right-hand side (directly, through a reference, through a pointer): the result is the binary operator applied to two copies"""
    Un = UNITS[lay]
    def run(S):
        def specm(i, o, T):
            q = i[0]; qq = qmul(q, q); q4 = qmul(qq, qq)
            return (vec_goals('r*=r == q*q', o[0], qq) + vec_goals('r*=ref(r) == q*q', o[1], qq) + vec_goals('returned reference of r*=r == q*q', o[2], qq)
                    + vec_goals('r*=*ptr(r) twice == (q*q)*(q*q)', o[3], q4))
        chk(S, Un, 'aliasm_' + t, specm, lambda i: [z3.And(x >= -8, x <= 8) for x in i[0]], bounds='all quaternions with components in [-8,8] (no unit-length hypothesis); Hamilton product of two copies')
        def speca(i, o, T):
            q = i[0]; w = q[0]
            return (vec_goals('r+=r == q+q', o[0], [2 * x for x in q]) + vec_goals('r-=ref(r) == q-q', o[1], [ZERO] * 4) + vec_goals('r*=r.w == q*w', o[2], [x * w for x in q])
                    + [('r/=r.w == q/w [%d]' % k, REq(rv(o[3][k]) * w, q[k])) for k in range(4)])
        chk(S, Un, 'aliasa_' + t, speca, lambda i: [z3.And(x >= -8, x <= 8) for x in i[0]] + [i[0][0] * i[0][0] >= z3.RealVal('1/16')],
            bounds='all quaternions with components in [-8,8], |w| >= 1/4 (scalar taken from the object itself)')
    return run

def job_product(lay, t):
    Un = UNITS[lay]
    def run(S):
        def spec(i, o, T):
            p, q = i; pq = qmul(p, q); Rp, Rq = rotmat(p), rotmat(q)
            return (vec_goals('p*q', o[2], pq) + vec_goals('cross(p,q)', o[3], pq) + mat_goals('mat3_cast(p*q)==mat3_cast(p)*mat3_cast(q)', M(o[0], 3, 3), M(o[1], 3, 3))
                    + mat_goals('mat3_cast(p)*mat3_cast(q)', M(o[1], 3, 3), matmul(Rp, Rq)))
        chk(S, Un, 'mm_' + t, spec, lambda i: [unit(i[0]), unit(i[1])], bounds='all unit p, q')
        def speci(i, o, T):
            q = i[0]; one = [z3.RealVal(1), z3.RealVal(0), z3.RealVal(0), z3.RealVal(0)]
            return vec_goals('q*inverse(q)', o[0], one) + vec_goals('conjugate', o[1], qconj(q)) + vec_goals('inverse==conjugate', o[2], qconj(q))
        chk(S, Un, 'inv_' + t, speci, lambda i: [unit(i[0])], bounds='all unit q')
    return run


def cross(a, b): return [a[1] * b[2] - a[2] * b[1], a[2] * b[0] - a[0] * b[2], a[0] * b[1] - a[1] * b[0]]
def absr(x): return z3.If(x >= 0, x, -x)
def fr(x): return z3.RealVal(str(Fraction(x)))
E6 = fr(struct.unpack('<f', struct.pack('<f', 1e-6))[0])          # static_cast<T>(1.e-6f)
EPS = {'f32': fr(2.0 ** -23), 'f64': fr(2.0 ** -52)}
ZERO, ONE = z3.RealVal(0), z3.RealVal(1)

def uv_parts(i, T):
    """qua(u,v) as documented in type_quat.inl: normalize(|u||v| + u.v, u x v), or a half turn about an axis orthogonal to u when u, v are (nearly) opposite"""
    u, v = i
    X0 = norm2(u) * norm2(v); s = T.sqrt(0, X0); c = s + dot(u, v); opp = c < E6 * s
    pick = absr(u[0]) > absr(u[2]); t1 = [-u[1], u[0], ZERO]; t2 = [ZERO, -u[2], u[1]]
    raw_opp = [ZERO] + [z3.If(pick, a, b) for a, b in zip(t1, t2)]; raw_std = [c] + cross(u, v)
    X1 = z3.simplify(z3.If(opp, norm2(raw_opp), norm2(raw_std))); L = T.sqrt(1, X1)
    return dict(s=s, c=c, opp=opp, std=z3.Not(opp), raw_std=raw_std, raw_opp=raw_opp, L=L, X0=X0, X1=X1)

def job_twovec(lay, t):
    Un = UNITS[lay]
    def run(S):
        nz = lambda i: [norm2(i[0]) > 0, norm2(i[1]) > 0]
        def spec(i, o, T):
            P = uv_parts(i, T); q = [rv(x) for x in o[0]]
            g = [('sqrt0.arg', REq(T.sqrt_arg(0, P['X0']), P['X0'])), ('|u||v|>0', RGoal('gt', P['s'], ZERO))]
            for br in ('std', 'opp'):
                raw = P['raw_' + br]
                g += [(br + '.sqrt1.arg', RGoal('eq', T.sqrt_arg(1, P['X1']), norm2(raw), P[br])), (br + '.len>0', RGoal('gt', P['L'], ZERO, P[br]))]
                g += [('%s.q*len==raw[%d]' % (br, k), RGoal('eq', q[k] * P['L'], raw[k], P[br])) for k in range(4)]
            return g
        chk(S, Un, 'uv_' + t, spec, nz, abstract_side=True, bounds='all non-zero u, v; chain: q = raw/|raw| (here) + lemmas.* => q maps u/|u| to v/|v| (to -u/|u| on the opposite-vectors branch)')
        # gtx rotation(orig, dest), documented for normalised arguments
        un = lambda i: [unit(i[0]), unit(i[1])]
        eps = EPS[t]
        def specr(i, o, T):
            u, v = i; q = [rv(x) for x in o[0]]; c = dot(u, v); X0 = (ONE + c) * 2; Sq = T.sqrt(0, X0); t_ = cross(u, v)
            same = c >= 1 - eps; opp = c < -1 + eps; std = z3.And(z3.Not(same), z3.Not(opp))
            g = [('std.sqrt.arg', REq(T.sqrt_arg(0, X0), X0)), ('std.s>0', RGoal('gt', Sq, ZERO, std)), ('std.w*2==s', RGoal('eq', q[0] * 2, Sq, std))]
            g += [('std.xyz*s==cross[%d]' % k, RGoal('eq', q[k + 1] * Sq, t_[k], std)) for k in range(3)]
            g += [('same.identity[%d]' % k, RGoal('eq', q[k], ONE if k == 0 else ZERO, same)) for k in range(4)]
            g += [('opp.axis-orthogonal', RGoal('eq', dot(q[1:], u), ZERO, opp)), ('opp.axis-unit', RGoal('eq', norm2(q[1:]), ONE, opp)),
                  ('opp.w<=1e-7', RGoal('le', q[0], fr(1e-7), opp)), ('opp.w>=-1e-7', RGoal('ge', q[0], fr(-1e-7), opp))]
            return g
        chk(S, Un, 'rot_' + t, specr, un, abstract_side=True, bounds='all unit u, v; chain: q = (s/2, u x v / s), s = sqrt(2(1+u.v)) (here) + lemmas.* => q maps u to v; cos>=1-eps: identity; cos<-1+eps: half turn about a unit axis orthogonal to u')
    return run

def job_lemmas(S):
    """code-free links of the lemma chains (pure polynomial / scalar facts); every chain link is a discharged obligation"""
    u = list(z3.Reals('u0 u1 u2')); v = list(z3.Reals('v0 v1 v2')); p = list(z3.Reals('p0 p1 p2 p3')); s, lam = z3.Reals('s lam')
    P = lambda n, g, h=(): S.prove('c04.lemmas.' + n, g, list(h), timeout=S.cap(30, 90), solver='nra', kind='lemma', functions=['(specification-side lemma)'])
    uu, vv = norm2(u), norm2(v); c = s + dot(u, v); raw = [c] + cross(u, v)
    for k in range(3):
        P('scale[%d]: rot(lam*p, u) == lam^2 rot(p, u)' % k, qrot([lam * x for x in p], u)[k] == lam * lam * qrot(p, u)[k])
        P('rot.std[%d]: rot((s+u.v, u x v), u) == 2|u|^2 (s+u.v) v  given s^2=|u|^2|v|^2' % k, qrot(raw, u)[k] == 2 * uu * c * v[k], [s * s == uu * vv])
        P('rot.opp1[%d]' % k, qrot([ZERO, -u[1], u[0], ZERO], u)[k] == -(u[1] * u[1] + u[0] * u[0]) * u[k])
        P('rot.opp2[%d]' % k, qrot([ZERO, ZERO, -u[2], u[1]], u)[k] == -(u[2] * u[2] + u[1] * u[1]) * u[k])
    P('norm.std: |(s+u.v, u x v)|^2 == 2 s (s+u.v)', norm2(raw) == 2 * s * c, [s * s == uu * vv])
    X, L2, cc, n2, vk, uk, nu, nv, S2 = z3.Reals('X L2 cc n2 vk uk nu nv S2')
    P('c>0.std', cc > 0, [s > 0, z3.Not(cc < E6 * s)])
    P('final.std: rot(q,u)_k |v| == v_k |u|', X * nv == nu * vk, [X * L2 == 2 * n2 * cc * vk, L2 == 2 * s * cc, cc > 0, s == nu * nv, n2 == nu * nu, nu > 0, nv > 0])
    P('final.opp: rot(q,u)_k == -u_k', X == -uk, [X * L2 == -L2 * uk, L2 > 0])
    P('rotation.glue0', (2 * s) * p[0] == 2 * (1 + cc), [p[0] * 2 == s, s * s == 2 * (1 + cc)])
    P('rotation.glue1', (2 * s) * p[1] == 2 * vk, [p[1] * s == vk])
    P('final.rotation: rot(q,u)_k == v_k', X == vk, [X * (4 * S2) == 4 * S2 * vk, S2 > 0])
    # product chain is not needed (decided directly); homomorphism on the specification side, hypothesis-free:
    q = list(z3.Reals('q0 q1 q2 q3'))
    Rp, Rq, Rpq = rotmat(p), rotmat(q), rotmat(qmul(p, q))
    for r in range(3):
        for cidx in range(3): P('rotmat(p q) == rotmat(p) rotmat(q) [r%dc%d]' % (r, cidx), Rpq[r][cidx] == matmul(Rp, Rq)[r][cidx])

def job_lemmas_euler(S):
    """code-free chain behind quat(eulerAngles(q)): the angles that props pyr_* pin down (pitch = atan2(R21,R22) / 2 atan2(x,w) on the guarded branch, yaw = asin(-R20),
    roll = atan2(R10,R00) / 0 on the guarded branch) rebuild the rotation of q.  Trig values are scalar variables constrained by the facts engine/realtrig.py attaches to
    atan2 (r cos = x, r sin = y, r^2 = x^2+y^2, r > 0 off the origin), asin (sin = t, cos >= 0) and the double-angle identities for yaw/2 (|yaw/2| <= pi/4 => cos > 0)."""
    P = lambda n, g, h=(): S.prove('c04.lemmas.' + n, g, list(h), timeout=S.cap(30, 90), solver='nra', kind='lemma', functions=['(specification-side lemma)'])
    p = list(z3.Reals('p0 p1 p2 p3')); w, x, y, z = p; A = euler_spec_args(p); Rm = rotmat(p); U1 = [unit(p)]
    xP, yP, xR, yR, sY = A['xP'], A['yP'], A['xR'], A['yR'], A['sY']
    cP, sP, rP, cR, sR, rR, sinY, cosY, X, c2, a, b, c, d = z3.Reals('cP sP rP cR sR rR sinY cosY X c2 a b c d')
    # --- regular branches: Rz(roll) Ry(yaw) Rx(pitch) == rotmat(q), entry by entry
    P('euler.circle.pitch: R21^2+R22^2 == 1-R20^2', xP * xP + yP * yP == 1 - sY * sY, U1)
    P('euler.circle.roll: R10^2+R00^2 == 1-R20^2', xR * xR + yR * yR == 1 - sY * sY, U1)
    P('euler.asin-domain.lo: -R20 >= -1', sY >= -1, U1); P('euler.asin-domain.hi: -R20 <= 1', sY <= 1, U1)
    P('euler.hyp==cos(yaw)', rP == cosY, [rP * rP == c2, cosY * cosY == c2, rP > 0, cosY >= 0])
    P('euler.cos(yaw)>0 off the singularity', cosY > 0, [rP == cosY, rP > 0])
    P('euler.entry.easy: cos(yaw) sin(pitch) == R21', cosY * sP == d, [rP == cosY, rP * sP == d])
    hard = {(0, 1): (xR * sY * yP - yR * xP, cR * sinY * sP - sR * cP, a * sinY * d - b * c), (0, 2): (xR * sY * xP + yR * yP, cR * sinY * cP + sR * sP, a * sinY * c + b * d),
            (1, 1): (yR * sY * yP + xR * xP, sR * sinY * sP + cR * cP, b * sinY * d + a * c), (1, 2): (yR * sY * xP - xR * yP, sR * sinY * cP - cR * sP, b * sinY * c - a * d)}
    for (r, cc), (poly, entry, scal) in hard.items():
        P('euler.cofactor[r%dc%d]: R_rc (1-R20^2) == combination of first column / last row' % (r, cc), Rm[r][cc] * (1 - sY * sY) == poly, U1)
        P('euler.entry[r%dc%d]' % (r, cc), entry == X, [rR == cosY, rP == cosY, cosY > 0, rR * cR == a, rR * sR == b, rP * cP == c, rP * sP == d, X * (cosY * cosY) == scal])
    # half-angle axis quaternions are the single-axis rotations (links props qeul_*: qua(euler) == qz*qy*qx, and lemmas 'rotmat(p q) == rotmat(p) rotmat(q)')
    ch, sh, ca, sa = z3.Reals('ch sh ca sa'); T0 = type('T0', (), {'cos': staticmethod(lambda _: ca), 'sin': staticmethod(lambda _: sa)})
    for ax, qa in (('X', [ch, sh, ZERO, ZERO]), ('Y', [ch, ZERO, sh, ZERO]), ('Z', [ch, ZERO, ZERO, sh])):
        Ra = R(T0, ax, None); Rq = rotmat(qa)
        for r in range(3):
            for cc in range(3): P('euler.axisquat.%s[r%dc%d]: rotmat(cos a/2, sin a/2 e_%s) == R%s(a)' % (ax, r, cc, ax, ax), Rq[r][cc] == Ra[r][cc], [ch * ch + sh * sh == 1, ca == ch * ch - sh * sh, sa == 2 * sh * ch])
    # --- exact gimbal lock (R21 == R22 == 0): pitch = 2 atan2(x, w), roll = 0, yaw = +-pi/2 give back q itself
    H = U1 + [xP == 0, yP == 0]; G = H + [xR == 0, yR == 0]; half = z3.RealVal('1/2')
    P('gimbal.roll-guard.x: R00 == 0', xR == 0, H); P('gimbal.roll-guard.y: R10 == 0', yR == 0, H)
    P('gimbal.w^2+x^2==1/2', w * w + x * x == half, G); P('gimbal.R20^2==1', sY * sY == 1, H)
    P('gimbal.y==w sin(yaw)', y == w * sY, G); P('gimbal.z==-x sin(yaw)', z == -x * sY, G)
    c5, s5, r5, cy, sy = z3.Reals('c5 s5 r5 cy sy')
    P('gimbal.hyp>0', r5 > 0, [r5 * r5 == half, r5 >= 0])
    F = [r5 * r5 == half, r5 > 0, r5 * c5 == w, r5 * s5 == x, sinY * sinY == 1, cosY >= 0, sinY * sinY + cosY * cosY == 1, cy * cy - sy * sy == cosY, 2 * sy * cy == sinY, cy * cy + sy * sy == 1, cy > 0,
         y == w * sinY, z == -x * sinY]
    for k, got in enumerate([c5 * cy, s5 * cy, c5 * sy, -s5 * sy]):        # qy(yaw) * qx(pitch) with roll = 0 (props qeul_*: qua(euler) == qz*qy*qx)
        P('gimbal.quat(2atan2(x,w), yaw, 0)[%s] == q[%s]' % (NAMES[k], NAMES[k]), got == p[k], F)

def rodrigues(T, axis, a, w):
    """rotation of w about the unit axis by angle a"""
    c, s = T.cos(a), T.sin(a); k = dot(axis, w); x = cross(axis, w)
    return [w[j] * c + x[j] * s + axis[j] * k * (1 - c) for j in range(3)]

def job_axisangle(lay, t):
    Un = UNITS[lay]
    def run(S):
        chk(S, Un, 'aa_' + t, lambda i, o, T: vec_goals('angleAxis(angle(q),axis(q))', o[0], i[0]), lambda i: [unit(i[0])],
            bounds='all unit q, both branches of angle() (|w| > cos(1/2): asin form, with the w<0 reflection 2pi-a; else acos form)', mutant=lambda i, o: [('m', REq(o[0][2].r, -i[0][2]))])
        def setup(res, T):
            realtrig.trig_double(res.ex, res.ins[0][0] * z3.RealVal('1/2')); return []
        def spec(i, o, T):
            a, ax, w = i[0][0], i[1], i[2]; h = a * z3.RealVal('1/2')
            want = [T.cos(h)] + [x * T.sin(h) for x in ax]
            return vec_goals('angleAxis', o[0], want) + vec_goals('angleAxis(a,n)*w==rodrigues', o[1], rodrigues(T, ax, a, w))
        chk(S, Un, 'angax_' + t, spec, lambda i: [unit(i[1])], setup=setup, bounds='all angles, unit axes, vectors; double-angle identities instantiated for a/2')
    return run

def job_euler(t, names, lay='xyzw'):
    def run(S):
        for n in names:
            if n == 'qeul':
                def specq(i, o, T):
                    e = i[0]; h = [x * z3.RealVal('1/2') for x in e]
                    qx = [T.cos(h[0]), T.sin(h[0]), ZERO, ZERO]; qy = [T.cos(h[1]), ZERO, T.sin(h[1]), ZERO]; qz = [T.cos(h[2]), ZERO, ZERO, T.sin(h[2])]
                    return vec_goals('qua(euler)==qz*qy*qx', o[0], qmul(qmul(qz, qy), qx))
                chk(S, UNITS[lay], 'qeul_' + t, specq, bounds='all angle triples (pitch, yaw, roll): Hamilton product of the three axis quaternions')
                continue
            if n.startswith('d'):
                ax = n[1]
                chk(S, U, 'dea%s_%s' % (ax, t), lambda i, o, T, ax=ax: mat_goals('derivedEulerAngle' + ax, M(o[0], 4, 4), [r + [ZERO] for r in dR(T, ax, i[0][0], i[0][1])] + [[ZERO] * 4]), bounds='all angles and angular velocities')
            elif n == 'ypr':
                def spec(i, o, T):
                    a = i[0]
                    return (mat_goals('yawPitchRoll', M(o[0], 4, 4), embed4(euler_product(T, 'YXZ', a))) + mat_goals('orientate3', M(o[1], 3, 3), euler_product(T, 'YXZ', [a[2], a[0], a[1]]))
                            + mat_goals('orientate4', M(o[2], 4, 4), embed4(euler_product(T, 'YXZ', [a[2], a[0], a[1]]))))
                chk(S, U, 'ypr_' + t, spec, bounds='all angle triples')
            elif n == 'or2':
                def spec2(i, o, T):
                    a = i[0][0]; c, s_ = T.cos(a), T.sin(a)
                    return mat_goals('orientate2', M(o[0], 2, 2), [[c, -s_], [s_, c]]) + mat_goals('orientate3(angle)', M(o[1], 3, 3), R(T, 'Z', a))
                chk(S, U, 'or2_' + t, spec2, bounds='all angles')
            else:
                chk(S, U, 'ea%s_%s' % (n, t), lambda i, o, T, n=n: mat_goals('eulerAngle%s==%s' % (n, '*'.join('R' + x for x in n)), M(o[0], 4, 4), embed4(euler_product(T, n, i[0]))),
                    bounds='all angle tuples; product of the standard single-axis rotation matrices R%s' % n,
                    mutant=lambda i, o, n=n: [('m', REq(o[0][1].r, -o[0][1].r + 1))])
    return run

def euler_spec_args(q):
    """arguments of the documented extraction for R(q) = Rz(roll) Ry(yaw) Rx(pitch): pitch = atan2(R21, R22), yaw = asin(-R20), roll = atan2(R10, R00) (rows[r][c] of the
    rotation matrix of q, written with the mathematical v -> q v q* matrix, not with glm's polynomials)"""
    Rm = rotmat(q)
    return dict(yP=Rm[2][1], xP=Rm[2][2], sY=-Rm[2][0], yR=Rm[1][0], xR=Rm[0][0])
def job_eulerq(lay, t):
    """pitch/yaw/roll/eulerAngles of a unit quaternion, INCLUDING the guarded singular branches (decision level + value level)"""
    Un = UNITS[lay]; eps = EPS[t]
    def run(S):
        box = {}; foc = {}
        def terms(q, T):
            A = euler_spec_args(q)
            A['gP'] = z3.And(absle(A['xP'], eps), absle(A['yP'], eps)); A['gR'] = z3.And(absle(A['xR'], eps), absle(A['yR'], eps))
            A['P.sing'] = 2 * T.atan2(q[1], q[0]); A['P.reg'] = T.atan2(A['yP'], A['xP']); A['R.reg'] = T.atan2(A['yR'], A['xR'])
            return A
        def setup(res, T):
            terms(res.ins[0], T); return []         # creates the specification's atan2 applications in the executor's table (same variable as the code's when the arguments agree)
        def spec(i, o, T):
            q = i[0]; A = terms(q, T); g = []
            for oi, tag in ((0, ''), (1, 'eulerAngles.')):
                P, Y, Rl = [rv(x) for x in o[oi]]
                g += [(tag + 'pitch.singular==2atan2(x,w)', RGoal('eq', P, A['P.sing'], A['gP'])), (tag + 'pitch.regular==atan2(R21,R22)', RGoal('eq', P, A['P.reg'], z3.Not(A['gP']))),
                      (tag + 'roll.singular==0', RGoal('eq', Rl, ZERO, A['gR'])), (tag + 'roll.regular==atan2(R10,R00)', RGoal('eq', Rl, A['R.reg'], z3.Not(A['gR']))),
                      (tag + 'yaw.sin==-R20', REq(T.sin(Y), A['sY'])), (tag + 'yaw.cos>=0', RGoal('ge', T.cos(Y), ZERO))]
                if not is_num(Y): foc[tag + 'yaw.sin==-R20'] = foc[tag + 'yaw.cos>=0'] = [Y, T.sin(Y), T.cos(Y)]
            return g
        bnd = 'all unit q; guard |R22|,|R21| <= epsilon<T>() (pitch) / |R00|,|R10| <= epsilon<T>() (roll) decided on the exact values; atan2/asin as shared function applications'
        res = chk(S, Un, 'pyr_' + t, spec, lambda i: [unit(i[0])], setup=setup, staged_if=lambda l: True, focus=foc, side=False, bounds=bnd)
        if res is not None:          # the executor's own obligations (asin domain), with the hypotheses restricted to those about the asin application
            pre = [unit(res.ins[0])]; T = Trig(res.ex); av = [v for key, (v, a_) in res.ex.trig.items() if key[0] == 'asin']
            for k, (kind, cond, d) in enumerate(res.obligations):
                staged(S, '%s.pyr_%s.%s[%s]#%d' % (Un.name, t, kind, d[:60], k), z3.Not(cond), pre, pre + res.axioms, lambda m: ('no-replay', {}), S.cap(60, 150),
                       dict(kind=kind, functions=['w_pyr_' + t], bounds=bnd), focus=av + [T.sin(v) for v in av] + [T.cos(v) for v in av])
    return run

# ------------------------------------------------------------------------------------------------ extractEulerAngleABC: generic lemma chain
def term_consts(t, memo):
    k = t.get_id()
    if k in memo: return memo[k]
    if z3.is_const(t): r = frozenset() if (z3.is_rational_value(t) or z3.is_int_value(t) or z3.is_true(t) or z3.is_false(t)) else frozenset([t.decl().name()])
    else:
        r = frozenset()
        for c in t.children(): r = r | term_consts(c, memo)
    memo[k] = r; return r
def abstract_over(t, names, tab):
    """generalisation: every maximal real subterm built only from the constants in `names` (the quaternion components) becomes a fresh real, one per polynomial (up to sign);
    valid generalised formula => valid formula.  Used for the scalar links of a chain, where the matrix entries are opaque numbers."""
    memo = {}; cm = {}
    def go(x):
        k = x.get_id()
        if k in memo: return memo[k]
        cs = term_consts(x, cm)
        if not cs or not z3.is_app(x): r = x
        elif z3.is_real(x) and cs <= names:
            p = realtrig.poly_of(x); c0 = p.t.get((), Fraction(0)); p0 = realtrig._Poly({m: c for m, c in p.t.items() if m != ()}, p.atoms)
            lead = p0.t[sorted(p0.t)[0]]; sg = -1 if lead < 0 else 1; key = p0.scale(sg).key()
            v = tab.setdefault(key, z3.Real('ent!%d' % len(tab)))
            r = v if sg == 1 else -v
            if c0: r = r + z3.RealVal(str(c0))
        else: r = x.decl()(*[go(c) for c in x.children()]) if x.num_args() else x
        memo[k] = r; return r
    return go(t)
def conjuncts(axioms):
    out = []
    def go(a):
        if z3.is_and(a):
            for c in a.children(): go(c)
        else: out.append(a)
    for a in axioms: go(a)
    return out
def job_extract(t, orders, lay='xyzw'):
    """extractEulerAngleABC(M) followed by eulerAngleABC rebuilds M, for M = rotation matrix of a unit quaternion with the first atan2 off the origin (no gimbal lock / t2 not 0 or pi):
    the code runs on nine opaque entries; the chain consists of (poly) polynomial identities of the entries, decided after writing the entries in a unit quaternion (a model is
    replayed natively), and (link) scalar steps over the opaque entries.  Every fact about atan2/sqrt used is, literally, a conjunct of the executor's axioms for THIS run."""
    Un = UNITS[lay]; tol = 2e-3 if t == 'f32' else 1e-6
    def run(S):
        for n in orders:
            fn = 'xea%s_%s' % (n, t); name = '%s.%s' % (Un.name, fn)
            q = list(z3.Reals('q0 q1 q2 q3')); Rq = rotmat(q); UN = [unit(q)]
            res = sym_call(Un, fn, mode='real', ex=mkex(Un, 'real', 16)); ex = res.ex; T = Trig(ex)
            ent = res.ins[0]; Rm = [[ent[c * 3 + r] for c in range(3)] for r in range(3)]                  # opaque entries, rows[r][c]
            inq = [(ent[c * 3 + r], Rq[r][c]) for c in range(3) for r in range(3)]
            toq = lambda x: z3.substitute(x, *inq)
            at = [(v, a) for k, (v, a) in ex.trig.items() if k[0] == 'atan2']
            meta = dict(kind='spec', functions=['w_' + fn], bounds='all unit q with the first extracted atan2 off the origin; M = rotation matrix of q')
            def shape(msg):
                S.rec(name=name + '.chain', kind='encode', result='unsupported', status='not-encoded', note=msg, mandatory=True, functions=[fn]); S.inconclusive.append('%s.chain [%s]' % (name, msg))
            if len(at) != 3 or len(ex.__dict__.get('sqrt_log', [])) != 1:
                shape('shape of the extraction changed: expected three atan2 and one sqrt, found %d and %d' % (len(at), len(ex.__dict__.get('sqrt_log', [])))); continue
            if [d for k_, c_, d in res.obligations] != ['sqrt of negative']:
                shape('unexpected executor side obligations %r (only the sqrt domain is discharged by this chain)' % [d for k_, c_, d in res.obligations]); continue
            sqa, sqv = ex.sqrt_log[0]; cj = conjuncts(res.axioms)
            def fact(f):
                """only literal conjuncts of the executor's axioms may be used as facts about atan2/sqrt"""
                assert any(f.eq(c) for c in cj), 'not an axiom of this run: %s' % f
                return f
            rr = [ex.trig_hyp[v.sexpr()] for v, a in at]; cs = [(T.cos(v), T.sin(v)) for v, a in at]
            (y1, x1), (y2, x2), (y3, x3) = [a for v, a in at]; r1, r2, r3 = rr; (c1, s1), (c2, s2), (c3, s3) = cs
            A = [[fact(r * c == x), fact(r * s_ == y), fact(r * r == x * x + y * y), fact(r >= 0)] for r, (c, s_), (y, x) in zip(rr, cs, [a for v, a in at])]
            SQ = [fact(sqv * sqv == sqa), fact(sqv >= 0)]
            en = frozenset(x.decl().name() for x in ent)
            par = [a for a in res.axioms if not (term_consts(a, {}) & en)]          # entry-free axioms: parity of sin/cos under t -> -t, sin^2+cos^2 = 1, ranges
            def native_replay(m):
                vals = [float(z3val_to_fraction(m.eval(x, model_completion=True))) for x in q]; nrm = math.sqrt(sum(v * v for v in vals)) or 1.0; vals = [v / nrm for v in vals]
                Rn = rotmat([z3.RealVal(repr(v)) for v in vals]); Mx = [[float(z3val_to_fraction(z3.simplify(Rn[r][c]))) for c in range(3)] for r in range(3)]
                w = 32 if t == 'f32' else 64
                bits = [[float_to_bits(Mx[r][c], w) for c in range(3) for r in range(3)]]
                nat = Un.call_native(fn, bits); info = {'unit': Un.name, 'fn': fn, 'inputs': [[hex(v) for v in bits[0]]], 'q': vals, 'native_out': [[hex(v) for v in r_] for r_ in nat], 'property': 'C04', 'obligation': name}
                bad = False
                for r in range(3):
                    for c in range(3):
                        g = bits_to_float(nat[0][c * 4 + r], w); want = bits_to_float(bits[0][c * 3 + r], w)
                        if g != g or abs(g - want) > tol: bad = True
                return ('reproduced' if bad else 'not-reproduced'), info
            def P(label, goal, hyps, poly=False):
                if poly:
                    # unrestricted query decides; when its model is a degenerate rotation on which the native run happens to agree, a second model in general position is tried
                    oname = '%s.chain.%s' % (name, label); g = toq(goal); hy = [toq(h) for h in hyps] + UN; to = S.cap(30, 90)
                    r_, m_, dt, used = S.query(hy + [z3.Not(g)], to, 'nra')
                    if r_ == 'sat' and native_replay(m_)[0] != 'reproduced':
                        r2_, m2_, dt2, _ = S.query(hy + generic + [z3.Not(g)], to, 'nra')
                        if r2_ == 'sat' and native_replay(m2_)[0] == 'reproduced':
                            S.rec(name=oname, solver=used + ' (second model in general position)', result='sat', time_s=round(dt + dt2, 3), status='counterexample', replay='reproduced', replay_info=native_replay(m2_)[1], mandatory=True, **meta)
                            S.violations.append((oname, native_replay(m2_)[1])); return
                    S.prove(oname, g, hy, timeout=to, solver='nra', replay=native_replay, **meta)
                else: S.prove('%s.chain.%s' % (name, label), goal, list(hyps), timeout=S.cap(30, 90), solver='nra', replay=lambda m: ('no-replay', {'note': 'scalar link of the chain (opaque entries)'}), **meta)
            reg = r1 > 0; rho2 = x1 * x1 + y1 * y1
            generic = [x * x >= z3.RealVal('1/25') for x in q] + [toq(rho2) >= z3.RealVal('1/10')]
            P('sqrt.domain', sqa >= 0, [], poly=True)
            L1 = rho2 == sqa; P('hyp1^2==sqrt.arg', L1, [], poly=True)
            P('hyp1==sqrt', r1 == sqv, [A[0][2], L1] + SQ + [A[0][3]])
            if not (x2.eq(sqv) or y2.eq(sqv)): shape('second atan2 does not take the square root as an argument'); continue
            e = y2 if x2.eq(sqv) else x2
            L3 = sqa + e * e == 1; P('sqrt.arg+e^2==1', L3, [], poly=True)
            P('hyp2==1', r2 == 1, [A[1][2], SQ[0], L3, A[1][3]])
            P('cos2==x2', c2 == x2, [r2 == 1, A[1][0]]); P('sin2==y2', s2 == y2, [r2 == 1, A[1][1]])
            sub1 = [(c1, x1), (s1, y1)]; X3, Y3 = z3.substitute(x3, *sub1), z3.substitute(y3, *sub1)
            P('hyp1*x3', r1 * x3 == X3, A[0][:2]); P('hyp1*y3', r1 * y3 == Y3, A[0][:2])
            # which entry (up to sign) the two cofactor-like combinations are: chosen by evaluation at one rotation, then proved for all
            probe = [(a_, z3.RealVal(str(Fraction(b_, 9)))) for a_, b_ in zip(q, (2, 4, 5, 6))]
            def pick(Z):
                zv = z3val_to_fraction(z3.simplify(z3.substitute(toq(Z), *probe)))
                for r in range(3):
                    for c in range(3):
                        ev = z3val_to_fraction(z3.simplify(z3.substitute(Rq[r][c], *probe)))
                        if ev == zv: return Rm[r][c]
                        if ev == -zv: return -Rm[r][c]
                return None
            m3x, m3y = pick(X3), pick(Y3)
            if m3x is None or m3y is None:
                P('circle3.direct: (hyp1 x3)^2+(hyp1 y3)^2 == hyp1^2', X3 * X3 + Y3 * Y3 == rho2, [], poly=True)        # necessary for the rebuild; its model (if any) is replayed natively
                shape('third atan2: arguments are not +-entries of the matrix after scaling by the first hypotenuse'); continue
            L7x = X3 == m3x; L7y = Y3 == m3y; P('cofactor.x3', L7x, [], poly=True); P('cofactor.y3', L7y, [], poly=True)
            L8 = m3x * m3x + m3y * m3y == rho2; P('circle3', L8, [], poly=True)
            u_, v_, U_, V_, mx_, my_, R2_ = z3.Reals('x3!g y3!g X3!g Y3!g m3x!g m3y!g rho2!g')
            def gen(x):
                for a_, b_ in ((X3, U_), (Y3, V_), (x3, u_), (y3, v_), (rho2, R2_), (m3x, mx_), (m3y, my_)): x = z3.substitute(x, (a_, b_))
                return x
            H9 = [gen(h) for h in (A[2][2], r1 * x3 == X3, r1 * y3 == Y3, L7x, L7y, L8, A[0][2], reg, A[2][3])]          # compound terms generalised to fresh reals
            P('hyp3.circle', r1 * r1 * (u_ * u_ + v_ * v_) == R2_, H9[1:6]); P('hyp3^2==1', r3 * r3 == 1, [H9[0], r1 * r1 * (u_ * u_ + v_ * v_) == R2_, H9[6], H9[7]])
            P('hyp3==1', r3 == 1, [r3 * r3 == 1, A[2][3]])
            P('cos3*hyp1', r1 * c3 == m3x, [r3 == 1, A[2][0], r1 * x3 == X3, L7x]); P('sin3*hyp1', r1 * s3 == m3y, [r3 == 1, A[2][1], r1 * y3 == Y3, L7y])
            # entries of the rebuilt matrix
            G = M(res.outs[0], 4, 4)
            neg = {}
            for key, (v, argt) in ex.trig.items():
                if key[0] in ('sin', 'cos') and len(argt) == 1:
                    for i_, (av, _) in enumerate(at):
                        if z3.simplify(argt[0] + av).eq(z3.RealVal(0)): neg[v.get_id()] = (v, cs[i_][0] if key[0] == 'cos' else -cs[i_][1])
            base = {c1.get_id(): (x1, 1), s1.get_id(): (y1, 1), c3.get_id(): (m3x, 1), s3.get_id(): (m3y, 1), c2.get_id(): (x2, 0), s2.get_id(): (y2, 0)}
            links = A[0][:2] + [r1 * c3 == m3x, r1 * s3 == m3y, c2 == x2, s2 == y2]
            for r in range(3):
                for c in range(3):
                    N = G[r][c]; Ns = z3.substitute(N, *neg.values()) if neg else N
                    P('entry[r%dc%d].parity' % (r, c), N == Ns, par)
                    p = realtrig.poly_of(z3.simplify(Ns)); Z = []; ok = True
                    for mono, coef in p.t.items():
                        d = 0; f = z3.RealVal(str(coef))
                        for k_ in mono:
                            a_ = p.atoms[k_]
                            if a_.get_id() not in base: ok = False; break
                            rep, dd = base[a_.get_id()]; d += dd; f = f * rep
                        if not ok or d > 2: ok = False; break
                        Z.append((f, 2 - d))
                    if not ok: shape('entry[r%dc%d]: rebuilt entry is not a polynomial of degree <= 2 in the cos/sin of the extracted angles' % (r, c)); continue
                    Zt = sum_([f * r1 * r1 if k_ == 2 else (f * r1 if k_ == 1 else f) for f, k_ in Z]) if Z else ZERO
                    P('entry[r%dc%d].scaled' % (r, c), r1 * r1 * Ns == Zt, links)
                    # reduce modulo hyp1 == sqrt, hyp1^2 == rho2: Zt = even + hyp1 * odd with even, odd polynomials of the entries alone
                    pz = realtrig.poly_of(z3.substitute(Zt, (sqv, r1))); rk = r1.sexpr(); even = []; odd = []
                    for mono, coef in pz.t.items():
                        k_ = sum(1 for a_ in mono if a_ == rk); f = z3.RealVal(str(coef))
                        for a_ in mono:
                            if a_ != rk: f = f * pz.atoms[a_]
                        for _ in range(k_ // 2): f = f * rho2
                        (odd if k_ % 2 else even).append(f)
                    Ev = sum_(even) if even else ZERO; Od = sum_(odd) if odd else ZERO
                    P('entry[r%dc%d].reduce' % (r, c), Zt == Ev + r1 * Od, [r1 == sqv, A[0][2]])
                    P('entry[r%dc%d].identity.even' % (r, c), Ev == rho2 * Rm[r][c], [], poly=True)
                    P('entry[r%dc%d].identity.odd' % (r, c), Od == 0, [], poly=True)
                    Nn, Nsn, Ztn, Evn, Odn, Mn = z3.Reals('N!g Ns!g Z!g even!g odd!g M!g')         # final step with the compound terms generalised to fresh reals (same instance for every entry)
                    P('entry[r%dc%d]' % (r, c), Nn == Mn, [Nn == Nsn, r1 * r1 * Nsn == Ztn, Ztn == Evn + r1 * Odn, Evn == R2_ * Mn, Odn == 0, r1 * r1 == R2_, reg])
    return run

def subterm_ids(t):
    seen = set(); st = [t]
    while st:
        x = st.pop(); k = x.get_id()
        if k in seen: continue
        seen.add(k); st.extend(x.children())
    return seen
def _rax(ax, c, s_):
    o, z = z3.RealVal(1), z3.RealVal(0)
    return {'X': [[o, z, z], [z, c, -s_], [z, s_, c]], 'Y': [[c, z, s_], [z, o, z], [-s_, z, c]], 'Z': [[c, -s_, z], [s_, c, z], [z, z, o]]}[ax]
def job_extract_lock(t, orders, lay='xyzw'):
    """extractEulerAngleABC AT exact gimbal lock: M = R_A(a) R_B(lock) R_C(c) with the middle angle 0 or pi (orders ABA) resp. +-pi/2 (orders ABC) and symbolic unit pairs
    (cos a, sin a), (cos c, sin c).  The first atan2 of the extraction is then evaluated at the origin, where the executor's model leaves its value an ARBITRARY angle
    (cos^2 + sin^2 = 1 only): the obligation is that for whatever angle the library returns there, eulerAngleABC of the three extracted angles rebuilds M entry by entry
    (the code compensates through sin/cos of the first angle in the arguments of the third atan2)."""
    Un = UNITS[lay]; tol = 2e-3 if t == 'f32' else 1e-6; w = 32 if t == 'f32' else 64
    def run(S):
        for n in orders:
            fn = 'xea%s_%s' % (n, t)
            locks = [(1, 0, 't2=0'), (-1, 0, 't2=pi')] if n[0] == n[2] else [(0, 1, 't2=+pi/2'), (0, -1, 't2=-pi/2')]
            for c2, s2, tag in locks:
                name = '%s.%s.lock[%s]' % (Un.name, fn, tag)
                cA, sA = z3.Reals('cA sA'); cC, sC = z3.RealVal(1), z3.RealVal(0)       # WLOG c = 0: at lock R_A(a) R_B(lock) R_C(c) = R_A(a +- c) R_B(lock)
                Mx = matmul(matmul(_rax(n[0], cA, sA), _rax(n[1], z3.RealVal(c2), z3.RealVal(s2))), _rax(n[2], cC, sC)); Mx = [[z3.simplify(x) for x in row] for row in Mx]
                try: res = sym_call(Un, fn, ins=[[Mx[r][c] for c in range(3) for r in range(3)]], mode='real', ex=mkex(Un, 'real', 16))
                except Unsupported as e:
                    S.rec(name=name, kind='encode', result='unsupported', status='not-encoded', note=str(e)[:300], mandatory=True, functions=[fn]); S.inconclusive.append(name + ' [not encoded]'); continue
                G = M(res.outs[0], 4, 4); ex = res.ex; T = Trig(ex); cj = conjuncts(res.axioms)
                def native_replay(m, n=n, fn=fn, c2=c2, s2=s2):
                    v = [float(z3val_to_fraction(m.eval(x, model_completion=True))) for x in (cA, sA)] + [1.0, 0.0]
                    na = math.hypot(v[0], v[1]) or 1.0; v = [v[0] / na, v[1] / na, 1.0, 0.0]
                    def rn(ax, c_, s__): return [[float(z3val_to_fraction(z3.simplify(x))) for x in row] for row in _rax(ax, z3.RealVal(repr(c_)), z3.RealVal(repr(s__)))]
                    A_, B_, C_ = rn(n[0], v[0], v[1]), rn(n[1], float(c2), float(s2)), rn(n[2], v[2], v[3])
                    mm = lambda X, Y: [[sum(X[r][j] * Y[j][c] for j in range(3)) for c in range(3)] for r in range(3)]
                    Mn = mm(mm(A_, B_), C_); bits = [[float_to_bits(Mn[r][c], w) for c in range(3) for r in range(3)]]
                    nat = Un.call_native(fn, bits); info = {'unit': Un.name, 'fn': fn, 'inputs': [[hex(b) for b in bits[0]]], 'cos_sin_a': v[:2], 'native_out': [[hex(b) for b in r_] for r_ in nat], 'property': 'C04', 'obligation': name}
                    bad = False
                    for r in range(3):
                        for c in range(3):
                            g = bits_to_float(nat[0][c * 4 + r], w); want = bits_to_float(bits[0][c * 3 + r], w)
                            if g != g or abs(g - want) > tol: bad = True
                    return ('reproduced' if bad else 'not-reproduced'), info
                meta = dict(kind='spec', functions=['w_' + fn], bounds='M = R_%s(a) R_%s(%s) for every unit pair (cos a, sin a) - every rotation at this gimbal lock has that form (R_A(a) R_B(lock) R_C(c) = R_A(a +- c) R_B(lock)); atan2 at the origin = arbitrary angle; rounding-erased' % (n[0], n[1], tag[3:]))
                # small chain: every link is a solver query whose hypotheses are literal conjuncts of the executor's axioms for THIS run (non-implication ones) plus links already proved
                circles = [cA * cA + sA * sA == 1] + [c_ for c_ in cj if z3.is_eq(c_) and z3.is_rational_value(c_.arg(1)) and c_.arg(1).numerator_as_long() == 1 and c_.arg(1).denominator_as_long() == 1 and ('sin!' in str(c_.arg(0)) and 'cos!' in str(c_.arg(0)))]
                facts = []; subst = []
                def basic(vs):      # non-implication axiom conjuncts mentioning one of the variables
                    ids = {v.get_id() for v in vs}; out = []
                    for c_ in cj:
                        if z3.is_implies(c_): continue
                        if ids & set(subterm_ids(c_)): out.append(c_)
                    return out
                def link(label, goal, hyps):
                    S.prove('%s.chain.%s' % (name, label), goal, list(hyps), timeout=S.cap(20, 60), solver='nra', replay=lambda m: ('no-replay', {'note': 'scalar link of the chain'}), **meta)
                    facts.append(goal)
                for k_, (sqa, sqv) in enumerate(ex.__dict__.get('sqrt_log', [])):
                    a0 = z3.simplify(z3.substitute(sqa, *subst)) if subst else z3.simplify(sqa)
                    S.prove('%s.domain[sqrt %d]' % (name, k_), sqa >= 0, circles + facts, timeout=S.cap(20, 60), solver='nra', replay=native_replay, **dict(meta, kind='domain'))
                    if z3.is_rational_value(a0) and a0.numerator_as_long() == 0:
                        link('sqrt%d==0' % k_, sqv == 0, basic([sqv])); subst.append((sqv, z3.RealVal(0)))
                at = [(v, a) for k, (v, a) in ex.trig.items() if k[0] == 'atan2']; free = 0
                for k_, (v, (y_, x_)) in enumerate(at):
                    r_ = ex.trig_hyp[v.sexpr()]; cv, sv = T.cos(v), T.sin(v); ys, xs = z3.simplify(z3.substitute(y_, *subst)), z3.simplify(z3.substitute(x_, *subst))
                    if all(z3.is_rational_value(u) and u.numerator_as_long() == 0 for u in (ys, xs)): free += 1; continue        # atan2 at the origin: arbitrary angle, nothing is assumed
                    hb = basic([r_, cv, sv]) + facts + circles
                    link('circle%d' % k_, xs * xs + ys * ys == 1, circles); link('x%d' % k_, x_ == xs, facts + circles); link('y%d' % k_, y_ == ys, facts + circles)
                    link('hyp%d^2==1' % k_, r_ * r_ == 1, basic([r_]) + [xs * xs + ys * ys == 1, x_ == xs, y_ == ys]); link('hyp%d==1' % k_, r_ == 1, [r_ * r_ == 1, r_ >= 0] if any(c_.eq(r_ >= 0) for c_ in cj) else hb)
                    link('cos%d' % k_, cv == x_, basic([r_, cv, sv]) + [r_ == 1]); link('sin%d' % k_, sv == y_, basic([r_, cv, sv]) + [r_ == 1])
                    subst += [(cv, xs), (sv, ys)]
                    link('cos%d.value' % k_, cv == xs, facts + circles); link('sin%d.value' % k_, sv == ys, facts + circles)
                S.rec(name=name + '.origin', kind='structure', functions=[fn], bounds=meta['bounds'], solver='term inspection', result='unsat', time_s=0.0, status='discharged', mandatory=True, note='%d of the %d atan2 calls are evaluated at the origin (value unconstrained)' % (free, len(at)))
                eqs = [a_ == b_ for a_, b_ in subst]
                # parity facts of the executor's table (sin(-t) == -sin t, cos(-t) == cos t): literal equality conjuncts between table variables
                def tabvar(x): return (z3.is_const(x) and x.decl().name().startswith(('sin!', 'cos!'))) or (z3.is_app(x) and x.num_args() == 1 and x.decl().kind() == z3.Z3_OP_UMINUS and tabvar(x.arg(0))) or (z3.is_app(x) and x.decl().kind() == z3.Z3_OP_MUL and x.num_args() == 2 and z3.is_rational_value(x.arg(0)) and tabvar(x.arg(1)))
                eqs += [c_ for c_ in cj if z3.is_eq(c_) and tabvar(c_.arg(0)) and tabvar(c_.arg(1))]
                for r in range(3):
                    for c in range(3):
                        S.prove('%s.rebuild[r%dc%d]' % (name, r, c), G[r][c] == Mx[r][c], eqs + circles, timeout=S.cap(20, 60), solver='nra', replay=native_replay, **meta)
    return run

def job_nan_free(lay, t):
    """bit-precise: for every quaternion that is unit up to rounding (|fl(w^2+x^2+y^2+z^2) - 1| <= 2^-20, components finite) the arguments that pitch / yaw / roll / eulerAngles and
    angle / axis hand to asin / acos lie in [-1, 1] and every square root is taken of a non-negative number: the sine of the yaw 2(wy - xz) may round above 1 at gimbal lock and
    must not turn the Euler angles into NaN.  A counterexample is replayed natively (a NaN result on the model input)."""
    Un = UNITS[lay]; w = 32 if t == 'f32' else 64
    def run(S):
        for fn in ('pyr_' + t,):        # (angle / axis guard their square root with a branch; a path-insensitive argument check would be a false alarm there)
            if fn is None: continue
            try: res = sym_call(Un, fn, mode='fp')
            except Unsupported as e:
                S.rec(name='%s.%s.nan-free' % (Un.name, fn), kind='encode', result='unsupported', status='not-encoded', note=str(e)[:200], mandatory=True, functions=[fn]); S.inconclusive.append('%s.%s.nan-free [not encoded]' % (Un.name, fn)); continue
            q = res.ins[0][:4]; f = [fpof(x) for x in q]; one = FPV(1.0, w); RNE_ = z3.RNE()
            n2 = z3.fpAdd(RNE_, z3.fpAdd(RNE_, z3.fpAdd(RNE_, z3.fpMul(RNE_, f[0], f[0]), z3.fpMul(RNE_, f[1], f[1])), z3.fpMul(RNE_, f[2], f[2])), z3.fpMul(RNE_, f[3], f[3]))
            tol = FPV(2.0 ** -20, w)
            hy = [z3.Not(is_nan(x)) for x in q] + [z3.fpLEQ(z3.fpAbs(x_), FPV(2.0, w)) for x_ in f] + [z3.fpLEQ(z3.fpSub(RNE_, one, tol), n2), z3.fpLEQ(n2, z3.fpAdd(RNE_, one, tol))] + list(res.axioms)
            for terms in res.ins[1:]: hy += [z3.Not(is_nan(x)) for x in terms]
            seen = {}; st = [o_.fp if isinstance(o_, FV) else o_ for o in res.outs for o_ in o]
            while st:
                x = st.pop(); k = x.get_id()
                if k in seen: continue
                seen[k] = x; st.extend(x.children())
            goals = []
            for x in seen.values():
                if not z3.is_app(x): continue
                if x.decl().kind() == z3.Z3_OP_UNINTERPRETED and x.num_args() == 1 and re.sub(r'(32|64)$', '', x.decl().name().split('!')[0]) in ('asin', 'acos'):
                    a_ = x.arg(0); goals.append(('%s-argument-in-[-1,1]' % x.decl().name().split('!')[0], z3.And(z3.fpLEQ(FPV(-1.0, w), a_), z3.fpLEQ(a_, one))))
                if x.decl().kind() == z3.Z3_OP_FPA_SQRT:
                    a_ = x.arg(1); goals.append(('sqrt-argument>=0', z3.Not(z3.fpLT(a_, FPV(0.0, w)))))
            def replay(m, fn=fn, res=res):
                vals = S._model_inputs(m, res); nat = Un.call_native(fn, vals)
                info = {'unit': Un.name, 'fn': fn, 'inputs': [[hex(v) for v in r] for r in vals], 'native_out': [[hex(v) for v in r] for r in nat], 'property': 'C04', 'obligation': '%s.%s.nan-free' % (Un.name, fn)}
                bad = any(bits_to_float(v, w) != bits_to_float(v, w) for row in nat for v in row)
                return ('reproduced' if bad else 'not-reproduced'), info
            if not goals:
                S.rec(name='%s.%s.nan-free' % (Un.name, fn), kind='structure', functions=[fn], bounds='bit-precise', solver='term inspection', result='unsat', time_s=0.0, status='discharged', mandatory=True, note='no asin / acos / sqrt in the results'); continue
            def generalise(g):      # every maximal arithmetic sub-term becomes an arbitrary float: the clamp in front of asin must do its job whatever it is handed
                subs = []; seen2 = set(); st2 = [g]; byval = {}
                while st2:
                    x = st2.pop(); k = x.get_id()
                    if k in seen2: continue
                    seen2.add(k)
                    if z3.is_app(x) and z3.is_fp(x) and x.decl().kind() in (z3.Z3_OP_FPA_ADD, z3.Z3_OP_FPA_SUB, z3.Z3_OP_FPA_MUL, z3.Z3_OP_FPA_DIV, z3.Z3_OP_FPA_FMA, z3.Z3_OP_FPA_NEG):
                        kk = z3.simplify(x).sexpr()       # the same value reached through different bit-cast wrappers gets the same variable
                        if kk not in byval: byval[kk] = z3.FreshConst(x.sort(), 'anyfp')
                        subs.append((x, byval[kk])); continue
                    st2.extend(x.children())
                return (z3.substitute(g, *subs), [z3.Not(z3.fpIsNaN(v)) for v in byval.values()]) if subs else (g, [])
            for k_, (lab, g) in enumerate(goals):
                gg, nn = generalise(g)
                if nn:
                    r_, m_, dt_, used_ = S.query(nn + [z3.Not(gg)], 20, 'z3', [])
                    if r_ == 'unsat':
                        S.rec(name='%s.%s.nan-free[%d:%s]' % (Un.name, fn, k_, lab), kind='domain', functions=['w_' + fn], bounds='bit-precise IEEE; the arithmetic sub-terms generalised to arbitrary non-NaN floats (stronger than the claim)', solver=used_, result='unsat', time_s=round(dt_, 3), status='discharged', mandatory=True)
                        continue
                S.prove('%s.%s.nan-free[%d:%s]' % (Un.name, fn, k_, lab), g, hy, timeout=S.cap(60, 120), solver='z3', kind='domain', functions=['w_' + fn], replay=replay,
                        bounds='bit-precise IEEE; all quaternions with finite components |c| <= 2 and |fl(|q|^2) - 1| <= 2^-20')
    return run

def fp_canon(t, memo=None):
    """sort the operands of IEEE add/mul (commutative, single NaN in SMT-LIB FP) so that clang's operand-order choices do not matter"""
    memo = {} if memo is None else memo
    def go(x):
        k = x.get_id()
        if k in memo: return memo[k]
        ch = x.children()
        if ch:
            nc = [go(c) for c in ch]
            if z3.is_app(x) and x.decl().kind() in (z3.Z3_OP_FPA_ADD, z3.Z3_OP_FPA_MUL) and len(nc) == 3 and nc[1].get_id() > nc[2].get_id(): nc = [nc[0], nc[2], nc[1]]
            r = x.decl()(*nc) if not all(a.eq(b) for a, b in zip(nc, ch)) else x
        else: r = x
        memo[k] = r; return r
    import sys as _s; lim = _s.getrecursionlimit(); _s.setrecursionlimit(max(lim, 20000))
    try: return go(t)
    finally: _s.setrecursionlimit(lim)
def job_layout(t, fns):
    """[bit] differential: the named components of every result are bit-identical in the XYZW and the WXYZ build (same symbolic inputs, libm as shared uninterpreted functions)"""
    def run(S):
        for f in fns:
            name = f + '_' + t
            try:
                r1 = sym_call(U, name, mode='fp'); r2 = sym_call(UW, name, ins=r1.ins, mode='fp')
            except Unsupported as e:
                S.rec(name='c04.layout.' + name, kind='encode', result='unsupported', status='not-encoded', note=str(e), mandatory=True, functions=[name]); S.inconclusive.append('layout %s [not encoded: %s]' % (name, e)); continue
            memo = {}
            for k, (a1, a2) in enumerate(zip(r1.outs, r2.outs)):
                for j, (x, y) in enumerate(zip(a1, a2)):
                    x, y = fp_canon(bits_of(x), memo), fp_canon(bits_of(y), memo)
                    S.prove('c04.layout.%s.out%d[%d]' % (name, k, j), same_float(x, y), r1.axioms + r2.axioms, timeout=S.cap(30, 90), kind='spec', functions=['w_' + name + ' (XYZW vs WXYZ)'],
                            bounds='all bit patterns', vars_=[v for row in r1.ins for v in row])
    return run

def job_ctor(lay, t):
    Un = UNITS[lay]
    def run(S):
        def spec(i, o):
            a = i[0]; idx = [0, 1, 2, 3] if lay == 'wxyz' else [1, 2, 3, 0]
            arg = [3, 0, 1, 2] if lay == 'xyzwctor' else [0, 1, 2, 3]          # GLM_FORCE_QUAT_DATA_XYZW: the four-scalar constructor takes (x, y, z, w) (manual.md 2.21); named results travel as [w,x,y,z]
            return ([('qua(%s)[%d]' % ('x,y,z,w' if lay == 'xyzwctor' else 'w,x,y,z', k), o[0][k].bits == a[arg[k]]) for k in range(4)] + [('qua::wxyz[%d]' % k, o[1][k].bits == a[k]) for k in range(4)]
                    + [('qua(s,vec3)[%d]' % k, o[2][k].bits == a[k]) for k in range(4)] + [('operator[%d]' % k, o[3][k].bits == a[idx[k]]) for k in range(4)])
        S.check_fn(Un, 'ctor_' + t, spec, None, mode='fp', bounds='all bit patterns; components travel as [w,x,y,z]; operator[] follows the documented member order of the layout')
    return run

def jobs(tier):
    q = tier == 'quick'; J = [('lemmas', job_lemmas), ('lemmas_euler', job_lemmas_euler)]
    for lay in UNITS:
        for t in FT:
            J += [('rotate_%s_%s' % (lay, t), job_rotate(lay, t)), ('roundtrip_%s_%s' % (lay, t), job_roundtrip(lay, t, ('rt', 'rt4') if q else ('rt', 'rt4', 'rtc', 'rtg'))),
                  ('product_%s_%s' % (lay, t), job_product(lay, t)), ('axisangle_%s_%s' % (lay, t), job_axisangle(lay, t)), ('twovec_%s_%s' % (lay, t), job_twovec(lay, t)),
                  ('ctor_%s_%s' % (lay, t), job_ctor(lay, t)), ('pivot_%s_%s' % (lay, t), job_pivot(lay, t)), ('alias_%s_%s' % (lay, t), job_alias(lay, t)), ('eulerq_%s_%s' % (lay, t), job_eulerq(lay, t))]
    for t in FT:
        names = ['X', 'Y', 'Z', 'dX', 'dY', 'dZ'] + EULER2 + EULER3 + ['ypr', 'or2', 'qeul']
        J.append(('euler_wxyz_%s' % t, job_euler(t, ['qeul'], 'wxyz')))
        for k in range(0, len(names), 7): J.append(('euler_%s_%d' % (t, k // 7), job_euler(t, names[k:k + 7])))
        J.append(('layout_' + t, job_layout(t, ['qv', 'm3', 'rt', 'mm', 'inv', 'aa', 'uv', 'rot', 'qeul', 'eulq'])))
        for k in range(0, 12, 3): J.append(('extract_%s_%d' % (t, k // 3), job_extract(t, EULER3[k:k + 3])))
        for k in range(0, 12, 2): J.append(('extractlock_%s_%d' % (t, k // 2), job_extract_lock(t, EULER3[k:k + 2])))
        J.append(('nanfree_%s' % t, job_nan_free('xyzw', t)))
    return J
