"""C04 - quaternion, matrix, axis-angle and Euler forms of a rotation agree (also under GLM_FORCE_QUAT_DATA_WXYZ)."""
from props.common import *
import math, struct
from fractions import Fraction
import realtrig
from irsym import Exec

LEVEL = 'proof'
CLAIM = ("operator*(qua,vec3/vec4), gtx rotate, mat3_cast/mat4_cast, quat_cast (all four largest-component branches), the Hamilton product, conjugate/inverse, "
         "angle/axis/angleAxis, qua(u,v), gtx rotation(u,v), every gtx/euler_angles constructor (single, double, all 12 triple orders, yawPitchRoll, orientate*, derived*) "
         "and extractEulerAngle* and quat(eulerAngles(q)) are executed symbolically from their clang IR in rounding-erased real arithmetic; the solver shows, for every unit "
         "quaternion / vector / angle tuple, that they agree with the mathematical definitions (v -> q v q*, products of single-axis rotation matrices) and with each other, "
         "in the default and the GLM_FORCE_QUAT_DATA_WXYZ layout; bit-precisely the two layouts yield identical named components.")
BOUNDS = ("rounding-erased semantics (every + - * / exact, sqrt algebraic); sin/cos/acos/asin/atan2 as real variables constrained only by true identities (engine/realtrig.py); "
          "all unit quaternions (w^2+x^2+y^2+z^2 = 1), all vectors, all angle tuples; float and double instantiations; XYZW and WXYZ layouts")
OUTSIDE = ("size of the rounding error (closeness claims near w~0, w~+-1, gimbal lock are decided only in exact arithmetic; branch conditions are those of the exact values); "
           "qua(u,v)/rotation(u,v) on their 'opposite vectors' fallback branches only up to the orthogonality of the chosen axis; rotation(u,v) in its cos>=1-eps shortcut returns the identity "
           "(u and v then differ by < sqrt(2 eps)); extractEulerAngle*/eulerAngles round trips are attempted with a cap and reported as optional; memory order of the components (C16)")
ASSUMPTIONS = ['float/double literals that are the correctly rounded value of k*pi/4 denote k*pi/4 in the rounding-erased semantics (C11 checks the literals themselves)',
               'libm sin/cos/acos/asin/atan2 are the mathematical functions (only identities true of the real functions are used)']

FT = {'f32': 'float', 'f64': 'double'}
INC = ['glm/glm.hpp', 'glm/gtc/quaternion.hpp', 'glm/gtx/quaternion.hpp', 'glm/gtx/euler_angles.hpp', 'glm/gtx/rotate_vector.hpp', 'glm/gtc/matrix_transform.hpp']
U = Unit('c04', includes=INC)

EULER3 = ['XYZ', 'YXZ', 'XZX', 'XYX', 'YXY', 'YZY', 'ZYZ', 'ZXZ', 'XZY', 'YZX', 'ZYX', 'ZXY']
EULER2 = ['XY', 'YX', 'XZ', 'ZX', 'YZ', 'ZY']
for t, c in FT.items():
    Q = 'ldq<%s>' % c; V3 = 'ldv<3,%s>' % c
    U.add('qv_' + t, [(c, 4), (c, 3)], [(c, 3), (c, 3), (c, 4), (c, 3)],
          'auto q=%s(a); auto v=%s(b); stv(o, q*v); stv(o2, glm::mat3_cast(q)*v); stv(o3, glm::mat4_cast(q)*glm::vec<4,%s>(v,1)); stv(o4, glm::rotate(q, v));' % (Q, V3, c))
    U.add('qv4_' + t, [(c, 4), (c, 4)], [(c, 4), (c, 4), (c, 3)],
          'auto q=%s(a); auto v=ldv<4,%s>(b); stv(o, q*v); stv(o2, glm::rotate(q, v)); stv(o3, glm::vec<3,%s>(v)*q);' % (Q, c, c))
    U.add('m3_' + t, [(c, 4)], [(c, 9), (c, 16), (c, 9), (c, 16)],
          'auto q=%s(a); stm(o, glm::mat3_cast(q)); stm(o2, glm::mat4_cast(q)); stm(o3, glm::toMat3(q)); stm(o4, glm::mat<4,4,%s>(q));' % (Q, c))
    U.add('rt_' + t, [(c, 4)], [(c, 4), (c, 4), (c, 4)],
          'auto q=%s(a); stq(o, glm::quat_cast(glm::mat3_cast(q))); stq(o2, glm::quat_cast(glm::mat4_cast(q))); stq(o3, glm::qua<%s>(glm::mat3_cast(q)));' % (Q, c))
    U.add('mm_' + t, [(c, 4), (c, 4)], [(c, 9), (c, 9), (c, 4), (c, 4)],
          'auto p=%s(a); auto q=%s(b); stm(o, glm::mat3_cast(p*q)); stm(o2, glm::mat3_cast(p)*glm::mat3_cast(q)); stq(o3, p*q); stq(o4, glm::cross(p, q));' % (Q, Q))
    U.add('inv_' + t, [(c, 4)], [(c, 4), (c, 4), (c, 4)], 'auto q=%s(a); stq(o, q*glm::inverse(q)); stq(o2, glm::conjugate(q)); stq(o3, glm::inverse(q));' % Q)
    U.add('aa_' + t, [(c, 4)], [(c, 4)], 'auto q=%s(a); stq(o, glm::angleAxis(glm::angle(q), glm::axis(q)));' % Q)
    U.add('ang_' + t, [(c, 4)], [(c, 1), (c, 3)], 'auto q=%s(a); o[0]=glm::angle(q); stv(o2, glm::axis(q));' % Q)
    U.add('angax_' + t, [(c, 1), (c, 3)], [(c, 4), (c, 3)], 'auto v=%s(b); auto q=glm::angleAxis(a[0], v); stq(o, q); stv(o2, q*%s(b+0));' % (V3, V3))
    U.add('uv_' + t, [(c, 3), (c, 3)], [(c, 3), (c, 4)], 'auto u=%s(a); auto v=%s(b); glm::qua<%s> q(u, v); stv(o, q*u); stq(o2, q);' % (V3, V3, c))
    U.add('rot_' + t, [(c, 3), (c, 3)], [(c, 3), (c, 4)], 'auto u=%s(a); auto v=%s(b); auto q=glm::rotation(u, v); stv(o, q*u); stq(o2, q);' % (V3, V3))
    U.add('ctor_' + t, [(c, 4)], [(c, 4), (c, 4), (c, 4), (c, 4)],
          'stq(o, glm::qua<%s>(a[0],a[1],a[2],a[3])); stq(o2, glm::qua<%s>::wxyz(a[0],a[1],a[2],a[3])); stq(o3, glm::qua<%s>(a[0], glm::vec<3,%s>(a[1],a[2],a[3])));'
          ' { auto q=%s(a); o4[0]=q[0]; o4[1]=q[1]; o4[2]=q[2]; o4[3]=q[3]; }' % (c, c, c, c, Q))
    for ax in 'XYZ':
        U.add('ea%s_%s' % (ax, t), [(c, 1)], [(c, 16)], 'stm(o, glm::eulerAngle%s(a[0]));' % ax)
        U.add('dea%s_%s' % (ax, t), [(c, 2)], [(c, 16)], 'stm(o, glm::derivedEulerAngle%s(a[0], a[1]));' % ax)
    for n in EULER2:
        U.add('ea%s_%s' % (n, t), [(c, 2)], [(c, 16)], 'stm(o, glm::eulerAngle%s(a[0], a[1]));' % n)
    for n in EULER3:
        U.add('ea%s_%s' % (n, t), [(c, 3)], [(c, 16)], 'stm(o, glm::eulerAngle%s(a[0], a[1], a[2]));' % n)
        U.add('xea%s_%s' % (n, t), [(c, 9)], [(c, 16), (c, 3)],
              'glm::mat<4,4,%s> M(ldm<3,3,%s>(a)); %s t1, t2, t3; glm::extractEulerAngle%s(M, t1, t2, t3); stm(o, glm::eulerAngle%s(t1, t2, t3)); o2[0]=t1; o2[1]=t2; o2[2]=t3;' % (c, c, c, n, n))
    U.add('ypr_' + t, [(c, 3)], [(c, 16), (c, 9), (c, 16)],
          'stm(o, glm::yawPitchRoll(a[0], a[1], a[2])); stm(o2, glm::orientate3(%s(a))); stm(o3, glm::orientate4(%s(a)));' % (V3, V3))
    U.add('or2_' + t, [(c, 1)], [(c, 4), (c, 9)], 'stm(o, glm::orientate2(a[0])); stm(o2, glm::orientate3(a[0]));')
    U.add('qeul_' + t, [(c, 3)], [(c, 4), (c, 9)], 'glm::qua<%s> q(%s(a)); stq(o, q); stm(o2, glm::mat3_cast(q));' % (c, V3))
    U.add('eulq_' + t, [(c, 4)], [(c, 4), (c, 3)], 'auto q=%s(a); auto e=glm::eulerAngles(q); stq(o, glm::qua<%s>(e)); stv(o2, e);' % (Q, c))
UW = U.clone('c04w', defines=['GLM_FORCE_QUAT_DATA_WXYZ'])
UNITS = {'xyzw': U, 'wxyz': UW}
def units(tier): return [U, UW]

# ------------------------------------------------------------------------------------------------ specification side (pure mathematics)
def qmul(p, q):
    """Hamilton product, components [w,x,y,z]"""
    pw, px, py, pz = p; qw, qx, qy, qz = q
    return [pw * qw - px * qx - py * qy - pz * qz, pw * qx + px * qw + py * qz - pz * qy, pw * qy - px * qz + py * qw + pz * qx, pw * qz + px * qy - py * qx + pz * qw]
def qconj(q): return [q[0], -q[1], -q[2], -q[3]]
def qrot(q, v):
    """v -> q (0,v) q*   (a rotation when |q| = 1)"""
    r = qmul(qmul(q, [z3.RealVal(0)] + list(v)), qconj(q)); return r[1:]
def norm2(v):
    r = v[0] * v[0]
    for x in v[1:]: r = r + x * x
    return r
def dot(u, v):
    r = u[0] * v[0]
    for x, y in zip(u[1:], v[1:]): r = r + x * y
    return r
def rotmat(q):
    """3x3 rotation matrix of unit q as rows [r][c]: column c is the image of the basis vector e_c"""
    one, zero = z3.RealVal(1), z3.RealVal(0)
    cols = [qrot(q, [one if i == c else zero for i in range(3)]) for c in range(3)]
    return [[cols[c][r] for c in range(3)] for r in range(3)]
def matmul(A, B):
    n = len(A); m = len(B[0]); k = len(B)
    return [[sum_([A[r][j] * B[j][c] for j in range(k)]) for c in range(m)] for r in range(n)]
def sum_(xs):
    r = xs[0]
    for x in xs[1:]: r = r + x
    return r
def unit(q): return norm2(q) == 1
def rv(x): return x.r if isinstance(x, RV) else x
def M(o, C, R):
    """output array (column-major, o[c*R+r]) -> rows[r][c] of real terms"""
    return [[rv(o[c * R + r]) for c in range(C)] for r in range(R)]
def embed4(m3):
    one, zero = z3.RealVal(1), z3.RealVal(0)
    return [[m3[r][c] if r < 3 and c < 3 else (one if r == c else zero) for c in range(4)] for r in range(4)]
def mat_goals(tag, got, want):
    return [('%s[r%dc%d]' % (tag, r, c), REq(got[r][c], want[r][c])) for r in range(len(want)) for c in range(len(want[0]))]
def vec_goals(tag, got, want): return [('%s[%d]' % (tag, k), REq(rv(g), w)) for k, (g, w) in enumerate(zip(got, want))]

def is_num(t):
    t = z3.simplify(t); return z3.is_rational_value(t) or z3.is_algebraic_value(t) or z3.is_int_value(t)
class Trig:
    """sin/cos of specification angles: the executor's own table variable when symbolic, the numeric value on replay"""
    def __init__(s, ex): s.ex = ex
    def _f(s, fn, x):
        if is_num(x): return z3.RealVal(repr(getattr(math, fn)(float(z3val_to_fraction(x)))))
        return realtrig.trig_var(s.ex, fn, (x,))
    def sin(s, x): return s._f('sin', x)
    def cos(s, x): return s._f('cos', x)
    @property
    def pi(s): return realtrig.real_pi(s.ex)
def Rx(T, a):
    c, s = T.cos(a), T.sin(a); return [[1, 0, 0], [0, c, -s], [0, s, c]]
def Ry(T, a):
    c, s = T.cos(a), T.sin(a); return [[c, 0, s], [0, 1, 0], [-s, 0, c]]
def Rz(T, a):
    c, s = T.cos(a), T.sin(a); return [[c, -s, 0], [s, c, 0], [0, 0, 1]]
def R(T, ax, a):
    m = {'X': Rx, 'Y': Ry, 'Z': Rz}[ax](T, a)
    return [[z3.RealVal(x) if isinstance(x, int) else x for x in row] for row in m]
def dR(T, ax, a, w):
    """d/dt R_ax(a(t)) with da/dt = w"""
    c, s = T.cos(a) * w, T.sin(a) * w; z = z3.RealVal(0)
    return {'X': [[z, z, z], [z, -s, -c], [z, c, -s]], 'Y': [[-s, z, c], [z, z, z], [-c, z, -s]], 'Z': [[-s, -c, z], [c, -s, z], [z, z, z]]}[ax]
def euler_product(T, order, angles):
    m = R(T, order[0], angles[0])
    for ax, a in zip(order[1:], angles[1:]): m = matmul(m, R(T, ax, a))
    return m

# ------------------------------------------------------------------------------------------------ harness glue
def mkex(unit, mode, unwind):
    ex = Exec(unit.module(), fmode='real' if mode == 'real' else 'fp', unwind=unwind)
    if mode == 'real':
        realtrig.map_pi_literals(ex); ex.trig_domain = True
    return ex
def chk(S, unit, fn, spec, pre=None, setup=None, **kw):
    """check_fn in real mode; spec(i, o, T) gets a Trig context bound to the executor that ran the code; setup(res, T) may instantiate lemmas"""
    box = {}
    def xh(res):
        box['T'] = Trig(res.ex); box['res'] = res
        return list(setup(res, box['T']) or []) if setup else []
    kw.setdefault('mode', 'real'); kw.setdefault('timeout', S.cap(40, 120))
    return S.check_fn(unit, fn, lambda i, o: spec(i, o, box['T']), pre, extra_hyps=xh, ex=mkex, **kw)

# ------------------------------------------------------------------------------------------------ jobs
def job_rotate(lay, t):
    Un = UNITS[lay]
    def run(S):
        def spec(i, o, T):
            q, v = i; w = qrot(q, v)
            return vec_goals('q*v', o[0], w) + vec_goals('mat3_cast(q)*v', o[1], w) + vec_goals('mat4_cast(q)*(v,1)', o[2], w + [z3.RealVal(1)]) + vec_goals('gtx.rotate', o[3], w)
        chk(S, Un, 'qv_' + t, spec, lambda i: [unit(i[0])], bounds='all unit q, all v',
            mutant=lambda i, o: [('m', REq(o[0][0].r, qrot(qconj(i[0]), i[1])[0]))])
        def spec4(i, o, T):
            q, v = i; w = qrot(q, v[:3]); wi = qrot(qconj(q), v[:3])
            return vec_goals('q*v4', o[0], w + [v[3]]) + vec_goals('gtx.rotate4', o[1], w + [v[3]]) + vec_goals('v*q', o[2], wi)
        chk(S, Un, 'qv4_' + t, spec4, lambda i: [unit(i[0])], bounds='all unit q, all v')
        def specm(i, o, T):
            Rm = rotmat(i[0])
            return mat_goals('mat3_cast', M(o[0], 3, 3), Rm) + mat_goals('mat4_cast', M(o[1], 4, 4), embed4(Rm)) + mat_goals('toMat3', M(o[2], 3, 3), Rm) + mat_goals('mat4(q)', M(o[3], 4, 4), embed4(Rm))
        chk(S, Un, 'm3_' + t, specm, lambda i: [unit(i[0])], bounds='all unit q')
    return run

def job_roundtrip(lay, t):
    Un = UNITS[lay]
    def run(S):
        def spec(i, o, T):
            q = i[0]; g = []
            for nm, out in (('quat_cast(mat3)', o[0]), ('quat_cast(mat4)', o[1]), ('qua(mat3)', o[2])):
                r = [rv(x) for x in out]
                g.append((nm + '.unit', REq(norm2(r), z3.RealVal(1))))
                for a in range(4):
                    for b in range(a + 1, 4):
                        g.append(('%s.parallel[%d,%d]' % (nm, a, b), REq(r[a] * q[b], r[b] * q[a])))
            return g
        chk(S, Un, 'rt_' + t, spec, lambda i: [unit(i[0])], bounds='all unit q (all four largest-component branches); unit + parallel to q <=> result in {q,-q}',
            mutant=lambda i, o: [('m', REq(o[0][1].r, i[0][1]))])
    return run

def job_product(lay, t):
    Un = UNITS[lay]
    def run(S):
        def spec(i, o, T):
            p, q = i; pq = qmul(p, q); Rp, Rq = rotmat(p), rotmat(q)
            return (vec_goals('p*q', o[2], pq) + vec_goals('cross(p,q)', o[3], pq) + mat_goals('mat3_cast(p*q)==mat3_cast(p)*mat3_cast(q)', M(o[0], 3, 3), M(o[1], 3, 3))
                    + mat_goals('mat3_cast(p)*mat3_cast(q)', M(o[1], 3, 3), matmul(Rp, Rq)))
        chk(S, Un, 'mm_' + t, spec, lambda i: [unit(i[0]), unit(i[1])], bounds='all unit p, q')
        def speci(i, o, T):
            q = i[0]; one = [z3.RealVal(1), z3.RealVal(0), z3.RealVal(0), z3.RealVal(0)]
            return vec_goals('q*inverse(q)', o[0], one) + vec_goals('conjugate', o[1], qconj(q)) + vec_goals('inverse==conjugate', o[2], qconj(q))
        chk(S, Un, 'inv_' + t, speci, lambda i: [unit(i[0])], bounds='all unit q')
    return run

def jobs(tier):
    q = tier == 'quick'; J = []
    for lay in UNITS:
        for t in FT:
            J += [('rotate_%s_%s' % (lay, t), job_rotate(lay, t)), ('roundtrip_%s_%s' % (lay, t), job_roundtrip(lay, t)), ('product_%s_%s' % (lay, t), job_product(lay, t))]
    return J
