"""C15 - non-semantic configuration macros and build settings never change results.

Translation-validation style: one operation table (wrapper TU) is compiled by clang under the baseline and under every
configuration; each operation is executed symbolically in both builds on SHARED symbolic inputs and the solver must show the
outputs equal for every input (libm transcendentals are shared uninterpreted functions, so "std vs bundled fallback" is compared on
all inputs)."""
from props.common import *
LEVEL = 'translation_validation'
CLAIM = ("An operation table spanning every function family (scalar/vector/matrix/quaternion, float/double/int/uint, packing, transforms) is compiled from /repo under the baseline and under "
         "each non-semantic configuration (language levels CXX98..CXX20, INLINE, EXPLICIT_CTOR, CTOR_INIT, SIZE_T_LENGTH, XYZW_ONLY, SWIZZLE, UNRESTRICTED_GENTYPE, QUAT_DATA_WXYZ, aligned gentypes "
         "without intrinsics, COMPILER/PLATFORM/ARCH_UNKNOWN, PURE, selected pairs) and at -O0/-O2/-O3; both IRs are executed symbolically on shared inputs and the solver shows every output "
         "bit-identical (NaN payloads excepted) for all argument values.")
BOUNDS = 'the operation table listed in the evidence (functions_encoded); all argument values (full-width symbolic); loops unwound 16 with unwinding assertions; single-macro configurations plus the listed pairs'
OUTSIDE = '-O0 against -O1 bit-precisely for the operations whose unoptimised term is not identical after simplification (there the rounding-erased equality and the bit-precise query are attempted as optional obligations with 60 s / 15 s caps; -O2 and -O3 are compared bit-precisely for every operation); pickMatrix / tweakedInfinitePerspective / 2-D ortho under cxx98+compiler_unknown (decided under each macro separately); macro combinations beyond the listed pairs, triples and the quadruple (12 combinations in the thorough tier; every non-semantic macro occurs in at least two of them); operations not in the table; code generation of compilers other than clang-14; NaN payload bits'
ASSUMPTIONS = ['libm transcendental functions are uninterpreted functions shared by both builds (same arguments => same result)',
               'documented preconditions of the operations (non-zero divisors, bitfield ranges) are assumed on both sides']

INC = ['glm/glm.hpp', 'glm/ext.hpp', 'glm/gtx/common.hpp', 'glm/gtx/compatibility.hpp', 'glm/gtc/ulp.hpp', 'glm/gtx/dual_quaternion.hpp']
B = Unit('c15base', includes=INC)
PRE = {}       # fname -> pre(ins)
def add(name, ins, outs, body, pre=None):
    B.add(name, ins, outs, body)
    if pre: PRE[name] = pre

FT = (('f', 'float'), ('d', 'double'))
for s_, T in FT:
    for f in 'abs sign floor trunc round roundEven ceil fract exp log exp2 log2 sqrt inversesqrt sin cos tan asin acos atan sinh cosh tanh asinh acosh atanh radians degrees'.split():
        add('%s_%s' % (f, s_), [(T, 1)], [(T, 1)], 'o[0] = glm::%s(a[0]);' % f)
    for f in ('isnan', 'isinf'):
        add('%s_%s' % (f, s_), [(T, 1)], [('bool', 1)], 'o[0] = glm::%s(a[0]);' % f)
    for f in 'mod min max step pow atan fmin fmax'.split():
        add('%s2_%s' % (f, s_), [(T, 2)], [(T, 1)], 'o[0] = glm::%s(a[0], a[1]);' % f)
    for f in 'clamp mix smoothstep fma fclamp fmin fmax'.split():
        add('%s3_%s' % (f, s_), [(T, 3)], [(T, 1)], 'o[0] = glm::%s(a[0], a[1], a[2]);' % f)
    add('modf_' + s_, [(T, 1)], [(T, 2)], '%s i; o[0] = glm::modf(a[0], i); o[1] = i;' % T)
    add('frexp_' + s_, [(T, 1)], [(T, 1), ('int', 1)], 'int e; o[0] = glm::frexp(a[0], e); o2[0] = e;')
    add('ldexp_' + s_, [(T, 1), ('int', 1)], [(T, 1)], 'o[0] = glm::ldexp(a[0], b[0]);')
    add('nextprev_' + s_, [(T, 1)], [(T, 2)], 'o[0] = glm::nextFloat(a[0]); o[1] = glm::prevFloat(a[0]);')
    add('wrap_' + s_, [(T, 1)], [(T, 4)], 'o[0] = glm::clamp(a[0]); o[1] = glm::repeat(a[0]); o[2] = glm::mirrorClamp(a[0]); o[3] = glm::mirrorRepeat(a[0]);')
    for L in (2, 3, 4):
        V = 'ldv<%d,%s>' % (L, T)
        add('varith%d_%s' % (L, s_), [(T, L), (T, L)], [(T, L)] * 4, 'stv(o, %s(a) + %s(b)); stv(o2, %s(a) - %s(b)); stv(o3, %s(a) * %s(b)); stv(o4, %s(a) / %s(b));' % ((V,) * 8))
        add('vscal%d_%s' % (L, s_), [(T, L), (T, 1)], [(T, L)] * 4, 'stv(o, %s(a) + b[0]); stv(o2, b[0] - %s(a)); stv(o3, %s(a) * b[0]); stv(o4, b[0] / %s(a));' % ((V,) * 4))
        add('vgeo%d_%s' % (L, s_), [(T, L), (T, L)], [(T, 3)], 'o[0] = glm::dot(%s(a), %s(b)); o[1] = glm::length(%s(a)); o[2] = glm::distance(%s(a), %s(b));' % ((V,) * 5))
        add('vnorm%d_%s' % (L, s_), [(T, L)], [(T, L)], 'stv(o, glm::normalize(%s(a)));' % V)
        add('vrefl%d_%s' % (L, s_), [(T, L), (T, L), (T, 1)], [(T, L)] * 2, 'stv(o, glm::reflect(%s(a), %s(b))); stv(o2, glm::refract(%s(a), %s(b), c[0]));' % ((V,) * 4))
        add('vface%d_%s' % (L, s_), [(T, L), (T, L), (T, L)], [(T, L)], 'stv(o, glm::faceforward(%s(a), %s(b), %s(c)));' % ((V,) * 3))
        add('vcommon%d_%s' % (L, s_), [(T, L), (T, L)], [(T, L)] * 4, 'stv(o, glm::floor(%s(a))); stv(o2, glm::round(%s(a))); stv(o3, glm::min(%s(a), %s(b))); stv(o4, glm::mix(%s(a), %s(b), %s(a)));' % ((V,) * 7))
        add('vcmp%d_%s' % (L, s_), [(T, L), (T, L)], [('bool', L), ('bool', 3)], 'stv(o, glm::lessThan(%s(a), %s(b))); o2[0] = glm::any(glm::equal(%s(a), %s(b))); o2[1] = glm::all(glm::greaterThanEqual(%s(a), %s(b))); o2[2] = (%s(a) == %s(b));' % ((V,) * 8))
    add('cross_' + s_, [(T, 3), (T, 3)], [(T, 3)], 'stv(o, glm::cross(ldv<3,%s>(a), ldv<3,%s>(b)));' % (T, T))
    add('vctor_' + s_, [(T, 4)], [(T, 4)] * 3, 'stv(o, glm::vec<4,%s>(ldv<2,%s>(a), ldv<2,%s>(a+2))); stv(o2, glm::vec<4,%s>(ldv<3,%s>(a), a[3])); stv(o3, glm::vec<4,%s>(a[0], ldv<2,%s>(a+1), a[3]));' % ((T,) * 7))
    # matrices
    for (C, R) in ((2, 2), (3, 3), (4, 4)):
        M = 'ldm<%d,%d,%s>' % (C, R, T)
        add('mmul%d_%s' % (C, s_), [(T, C * R), (T, C * R)], [(T, C * R)], 'stm(o, %s(a) * %s(b));' % (M, M))
        add('mvec%d_%s' % (C, s_), [(T, C * R), (T, C)], [(T, C)] * 2, 'stv(o, %s(a) * ldv<%d,%s>(b)); stv(o2, ldv<%d,%s>(b) * %s(a));' % (M, C, T, C, T, M))
        add('mdet%d_%s' % (C, s_), [(T, C * R)], [(T, 1)], 'o[0] = glm::determinant(%s(a));' % M)
        add('minv%d_%s' % (C, s_), [(T, C * R)], [(T, C * R)], 'stm(o, glm::inverse(%s(a)));' % M)
        add('mtr%d_%s' % (C, s_), [(T, C * R)], [(T, C * R)] * 2, 'stm(o, glm::transpose(%s(a))); stm(o2, glm::matrixCompMult(%s(a), %s(a)));' % (M, M, M))
        add('mops%d_%s' % (C, s_), [(T, C * R), (T, 1)], [(T, C * R)] * 4, 'stm(o, %s(a) + b[0]); stm(o2, %s(a) * b[0]); stm(o3, -%s(a)); stm(o4, %s(a) / b[0]);' % ((M,) * 4))
    add('mmul23_' + s_, [(T, 6), (T, 6)], [(T, 4)], 'stm(o, ldm<3,2,%s>(a) * ldm<2,3,%s>(b));' % (T, T))
    add('mconv_' + s_, [(T, 16)], [(T, 9), (T, 16), (T, 12)], 'stm(o, glm::mat<3,3,%s>(ldm<4,4,%s>(a))); stm(o2, glm::mat<4,4,%s>(glm::mat<2,3,%s>(ldm<4,4,%s>(a)))); stm(o3, glm::mat<3,4,%s>(ldm<4,4,%s>(a)));' % ((T,) * 7))
    add('outer_' + s_, [(T, 3), (T, 2)], [(T, 6)], 'stm(o, glm::outerProduct(ldv<3,%s>(a), ldv<2,%s>(b)));' % (T, T))
    # quaternions (named components w,x,y,z)
    Q = 'ldq<%s>' % T
    add('qmul_' + s_, [(T, 4), (T, 4)], [(T, 4)], 'stq(o, %s(a) * %s(b));' % (Q, Q))
    add('qrot_' + s_, [(T, 4), (T, 3)], [(T, 3)] * 2, 'stv(o, %s(a) * ldv<3,%s>(b)); stv(o2, ldv<3,%s>(b) * %s(a));' % (Q, T, T, Q))
    add('qmisc_' + s_, [(T, 4), (T, 4)], [(T, 4)] * 3 + [(T, 2)], 'stq(o, glm::conjugate(%s(a))); stq(o2, glm::inverse(%s(a))); stq(o3, glm::normalize(%s(a))); o4[0] = glm::dot(%s(a), %s(b)); o4[1] = glm::length(%s(a));' % ((Q,) * 6))
    add('qcast_' + s_, [(T, 4)], [(T, 9), (T, 16)], 'stm(o, glm::mat3_cast(%s(a))); stm(o2, glm::mat4_cast(%s(a)));' % (Q, Q))
    add('qfrom_' + s_, [(T, 9)], [(T, 4)], 'stq(o, glm::quat_cast(ldm<3,3,%s>(a)));' % T)
    add('qaa_' + s_, [(T, 1), (T, 3)], [(T, 4)], 'stq(o, glm::angleAxis(a[0], ldv<3,%s>(b)));' % T)
    add('qang_' + s_, [(T, 4)], [(T, 1), (T, 3)], 'o[0] = glm::angle(%s(a)); stv(o2, glm::axis(%s(a)));' % (Q, Q))
    add('qslerp_' + s_, [(T, 4), (T, 4), (T, 1)], [(T, 4)] * 2, 'stq(o, glm::slerp(%s(a), %s(b), c[0])); stq(o2, glm::mix(%s(a), %s(b), c[0]));' % ((Q,) * 4))
    add('qeuler_' + s_, [(T, 4), (T, 3)], [(T, 3), (T, 4)], 'stv(o, glm::eulerAngles(%s(a))); stq(o2, glm::qua<%s>(ldv<3,%s>(b)));' % (Q, T, T))
    add('qctor_' + s_, [(T, 4)], [(T, 4)] * 2, 'stq(o, glm::qua<%s>(a[0], a[1], a[2], a[3])); stq(o2, glm::qua<%s>(a[0], ldv<3,%s>(a+1)));' % (T, T, T))
    # transforms / projections
    M4 = 'ldm<4,4,%s>' % T
    add('translate_' + s_, [(T, 16), (T, 3)], [(T, 16)] * 2, 'stm(o, glm::translate(%s(a), ldv<3,%s>(b))); stm(o2, glm::scale(%s(a), ldv<3,%s>(b)));' % (M4, T, M4, T))
    add('rotate_' + s_, [(T, 16), (T, 1), (T, 3)], [(T, 16)], 'stm(o, glm::rotate(%s(a), b[0], ldv<3,%s>(c)));' % (M4, T))
    add('lookat_' + s_, [(T, 3), (T, 3), (T, 3)], [(T, 16)], 'stm(o, glm::lookAt(ldv<3,%s>(a), ldv<3,%s>(b), ldv<3,%s>(c)));' % (T, T, T))
    add('proj_' + s_, [(T, 6)], [(T, 16)] * 4, 'stm(o, glm::ortho(a[0], a[1], a[2], a[3], a[4], a[5])); stm(o2, glm::frustum(a[0], a[1], a[2], a[3], a[4], a[5])); stm(o3, glm::perspective(a[0], a[1], a[2], a[3])); stm(o4, glm::infinitePerspective(a[0], a[1], a[2]));')
    # every fully- and half-suffixed clip-space builder (each is a separate function body with its own temporaries / constructor calls)
    for hv in ('RH_ZO', 'RH_NO', 'LH_ZO', 'LH_NO', 'RH', 'LH', 'ZO', 'NO'):
        add('projv_%s_%s' % (hv, s_), [(T, 6)], [(T, 16)] * 4, 'stm(o, glm::ortho%s(a[0], a[1], a[2], a[3], a[4], a[5])); stm(o2, glm::frustum%s(a[0], a[1], a[2], a[3], a[4], a[5])); stm(o3, glm::perspective%s(a[0], a[1], a[2], a[3])); stm(o4, glm::perspectiveFov%s(a[0], a[1], a[2], a[3], a[4]));' % ((hv,) * 4))
    for hv in ('RH_ZO', 'RH_NO', 'LH_ZO', 'LH_NO'):
        add('projinf_%s_%s' % (hv, s_), [(T, 4)], [(T, 16)], 'stm(o, glm::infinitePerspective%s(a[0], a[1], a[2]));' % hv)
    add('projmisc_' + s_, [(T, 7)], [(T, 16)] * 4, 'stm(o, glm::tweakedInfinitePerspective(a[0], a[1], a[2])); stm(o2, glm::tweakedInfinitePerspective(a[0], a[1], a[2], a[3])); stm(o3, glm::ortho(a[0], a[1], a[2], a[3])); stm(o4, glm::pickMatrix(ldv<2,%s>(a), ldv<2,%s>(a+2), ldv<4,%s>(a+3)));' % (T, T, T),
        lambda i: [z3.fpGT(fpof(i[0][2]), FPV(0.0, i[0][2].size())), z3.fpGT(fpof(i[0][3]), FPV(0.0, i[0][3].size()))])
    add('unproject_' + s_, [(T, 3), (T, 16), (T, 16), (T, 4)], [(T, 3)] * 3, 'stv(o, glm::unProject(ldv<3,%s>(a), %s(b), %s(c), ldv<4,%s>(d))); stv(o2, glm::unProjectZO(ldv<3,%s>(a), %s(b), %s(c), ldv<4,%s>(d))); stv(o3, glm::projectNO(ldv<3,%s>(a), %s(b), %s(c), ldv<4,%s>(d)));' % (T, M4, M4, T, T, M4, M4, T, T, M4, M4, T))
    # conversions between element types and construction forms of quaternions (separate constructor bodies per memory order)
    OT = 'double' if T == 'float' else 'float'
    add('qconv_' + s_, [(T, 4), (T, 9)], [(OT, 4), (T, 4), (T, 4)], 'stq(o, glm::qua<%s>(%s(a))); stq(o2, glm::qua<%s>(ldm<3,3,%s>(b))); stq(o3, glm::qua<%s>::wxyz(a[0], a[1], a[2], a[3]));' % (OT, Q, T, T, T))
    add('qmat4_' + s_, [(T, 16)], [(T, 4), (T, 16)], 'glm::qua<%s> q = glm::quat_cast(%s(a)); stq(o, q); stm(o2, glm::mat4_cast(q));' % (T, M4))
    add('vconv_' + s_, [(T, 4)], [(OT, 4), ('int32_t', 3), ('uint32_t', 2)], 'stv(o, glm::vec<4,%s>(ldv<4,%s>(a))); stv(o2, glm::ivec3(ldv<4,%s>(a))); stv(o3, glm::uvec2(glm::abs(ldv<3,%s>(a))));' % (OT, T, T, T),
        lambda i: [z3.And(z3.Not(is_nan(x)), z3.fpLT(z3.fpAbs(fpof(x)), FPV(2.0 ** 31, x.size()))) for x in i[0]])
    add('project_' + s_, [(T, 3), (T, 16), (T, 16), (T, 4)], [(T, 3)], 'stv(o, glm::project(ldv<3,%s>(a), %s(b), %s(c), ldv<4,%s>(d)));' % (T, M4, M4, T))
add('bits_f', [('float', 1), ('int32_t', 1)], [('int32_t', 1), ('uint32_t', 1), ('float', 2)], 'o[0] = glm::floatBitsToInt(a[0]); o2[0] = glm::floatBitsToUint(a[0]); o3[0] = glm::intBitsToFloat(b[0]); o3[1] = glm::uintBitsToFloat(glm::uint(b[0]));')
add('fdist_f', [('float', 2)], [('int32_t', 1)], 'o[0] = glm::floatDistance(a[0], a[1]);')
add('fdist_d', [('double', 2)], [('int64_t', 1)], 'o[0] = glm::floatDistance(a[0], a[1]);')
# iround/uround assert their sign domain; stay inside int range (outside is C20's and C11's business)
add('iround_f', [('float', 1)], [('int32_t', 1)], 'o[0] = glm::iround(a[0]);', lambda i: [z3.fpLT(z3.fpAbs(fpof(i[0][0])), FPV(2.0 ** 30))])
add('uround_f', [('float', 1)], [('uint32_t', 1)], 'o[0] = glm::uround(a[0]);', lambda i: [z3.fpGEQ(fpof(i[0][0]), FPV(0.0)), z3.fpLT(fpof(i[0][0]), FPV(2.0 ** 30))])
for s_, T in (('i', 'int32_t'), ('u', 'uint32_t')):
    gl = 'int' if s_ == 'i' else 'glm::uint'
    add('iarith4_' + s_, [(T, 4), (T, 4)], [(T, 4)] * 3, 'stv(o, ldv<4,%s>(a) + ldv<4,%s>(b)); stv(o2, ldv<4,%s>(a) * ldv<4,%s>(b)); stv(o3, ldv<4,%s>(a) - b[0]);' % ((T,) * 5))
    add('idiv3_' + s_, [(T, 3), (T, 3)], [(T, 3)] * 2, 'stv(o, ldv<3,%s>(a) / ldv<3,%s>(b)); stv(o2, ldv<3,%s>(a) %% ldv<3,%s>(b));' % ((T,) * 4),
        lambda i, sg=(s_ == 'i'): [y != 0 for y in i[1]] + ([z3.Not(z3.And(x == (1 << 31), y == -1)) for x, y in zip(i[0], i[1])] if sg else []))
    add('ibit4_' + s_, [(T, 4), (T, 4)], [(T, 4)] * 4, 'stv(o, ldv<4,%s>(a) & ldv<4,%s>(b)); stv(o2, ldv<4,%s>(a) | ldv<4,%s>(b)); stv(o3, ldv<4,%s>(a) ^ ldv<4,%s>(b)); stv(o4, ~ldv<4,%s>(a));' % ((T,) * 7))
    add('ishift2_' + s_, [(T, 2), (T, 1)], [(T, 2)] * 2, 'stv(o, ldv<2,%s>(a) << b[0]); stv(o2, ldv<2,%s>(a) >> b[0]);' % (T, T), lambda i: [z3.ULT(i[1][0], 32)] + ([x >= 0 for x in i[0]] if s_ == 'i' else []))
    add('icommon_' + s_, [(T, 3)], [(T, 4)], 'o[0] = glm::min(a[0], a[1]); o[1] = glm::max(a[0], a[1]); o[2] = glm::clamp(a[0], a[1], a[2]); o[3] = %s;' % ('glm::abs(a[0])' if s_ == 'i' else 'glm::mix(a[0], a[1], true)'),
        (lambda i: [i[0][0] != (1 << 31)]) if s_ == 'i' else None)
    add('ibits_' + s_, [(T, 1)], [('int', 3), (T, 1)], 'o[0] = glm::bitCount(a[0]); o[1] = glm::findLSB(a[0]); o[2] = glm::findMSB(a[0]); o2[0] = glm::bitfieldReverse(a[0]);')
    add('ifield_' + s_, [(T, 2), ('int', 2)], [(T, 2)], 'o[0] = glm::bitfieldExtract(a[0], b[0], b[1]); o[1] = glm::bitfieldInsert(a[0], a[1], b[0], b[1]);',
        lambda i: [i[1][0] >= 0, i[1][1] >= 0, i[1][0] + i[1][1] <= 32, i[1][0] <= 32, i[1][1] <= 32])
    add('ipow2_' + s_, [(T, 1)], [('bool', 1), (T, 2)], 'o[0] = glm::isPowerOfTwo(a[0]); o2[0] = glm::ceilPowerOfTwo(a[0]); o2[1] = glm::floorPowerOfTwo(a[0]);',
        lambda i, sg=(s_ == 'i'): [i[0][0] > 0, i[0][0] <= (1 << 30)] if sg else [i[0][0] != 0, z3.ULE(i[0][0], 1 << 31)])
    add('imult_' + s_, [(T, 2)], [('bool', 1), (T, 2)], 'o[0] = glm::isMultiple(a[0], a[1]); o2[0] = glm::ceilMultiple(a[0], a[1]); o2[1] = glm::floorMultiple(a[0], a[1]);',
        lambda i, sg=(s_ == 'i'): ([i[0][1] > 0, i[0][1] < (1 << 20), i[0][0] > -(1 << 30), i[0][0] < (1 << 30)] if sg else [i[0][1] != 0, z3.ULT(i[0][1], 1 << 20), z3.ULT(i[0][0], 1 << 30)]))
for s_, T in (('i64', 'int64_t'), ('u64', 'uint64_t'), ('i16', 'int16_t'), ('i8', 'int8_t')):      # width-dependent integer code paths (sign / abs bit tricks are selected per architecture macro)
    sg = s_[0] == 'i'; W = int(s_[1:])
    add('icommonw_' + s_, [(T, 3)], [(T, 5)], 'o[0] = glm::min(a[0], a[1]); o[1] = glm::max(a[0], a[1]); o[2] = glm::clamp(a[0], a[1], a[2]); o[3] = %s; o[4] = %s;' % (('glm::abs(a[0])', 'glm::sign(a[0])') if sg else ('glm::mix(a[0], a[1], true)', 'a[0] >> 1')),
        (lambda i, W=W: [i[0][0] != (1 << (W - 1))]) if sg else None)
    add('ivecw_' + s_, [(T, 3)], [(T, 3)] * 2, 'stv(o, %s); stv(o2, ldv<3,%s>(a) + ldv<3,%s>(a));' % (('glm::sign(ldv<3,%s>(a))' % T) if sg else ('glm::min(ldv<3,%s>(a), ldv<3,%s>(a) >> %s(1))' % (T, T, T)), T, T))
add('carry_u', [('uint32_t', 2)], [('uint32_t', 4)], 'glm::uint c, m, l; o[0] = glm::uaddCarry(a[0], a[1], c); o[1] = c; glm::umulExtended(a[0], a[1], m, l); o[2] = m; o[3] = l;')
add('interleave_u', [('uint32_t', 2)], [('uint64_t', 1), ('uint32_t', 2)], 'o[0] = glm::bitfieldInterleave(a[0], a[1]); o2[0] = glm::mask(a[0]); o2[1] = glm::bitfieldFillOne(a[0], 3, 7);')
# packing
add('pk_unorm', [('float', 4)], [('uint32_t', 3), ('uint16_t', 1)], 'o[0] = glm::packUnorm4x8(ldv<4,float>(a)); o[1] = glm::packSnorm4x8(ldv<4,float>(a)); o[2] = glm::packUnorm2x16(ldv<2,float>(a)); o2[0] = glm::packUnorm2x8(ldv<2,float>(a));')
add('pk_half', [('float', 4)], [('uint32_t', 1), ('uint64_t', 1), ('uint16_t', 1)], 'o[0] = glm::packHalf2x16(ldv<2,float>(a)); o2[0] = glm::packHalf4x16(ldv<4,float>(a)); o3[0] = glm::packHalf1x16(a[0]);')
add('upk_unorm', [('uint32_t', 1)], [('float', 4)] * 2 + [('float', 2)], 'stv(o, glm::unpackUnorm4x8(a[0])); stv(o2, glm::unpackSnorm4x8(a[0])); stv(o3, glm::unpackSnorm2x16(a[0]));')
add('upk_half', [('uint32_t', 1)], [('float', 2)], 'stv(o, glm::unpackHalf2x16(a[0]));')
add('pk_f11', [('float', 3)], [('uint32_t', 2)], 'o[0] = glm::packF2x11_1x10(ldv<3,float>(a)); o[1] = glm::packUnorm3x10_1x2(glm::vec4(a[0], a[1], a[2], a[0]));')
add('upk_f11', [('uint32_t', 1)], [('float', 3), ('float', 4)], 'stv(o, glm::unpackF2x11_1x10(a[0])); stv(o2, glm::unpackUnorm3x10_1x2(a[0]));')
add('srgb_f', [('float', 3)], [('float', 3)] * 2, 'stv(o, glm::convertLinearToSRGB(ldv<3,float>(a))); stv(o2, glm::convertSRGBToLinear(ldv<3,float>(a)));')

# operations with a language-level dependent body outside the core headers
add('gtxcommon_f', [('float', 3), ('double', 1)], [('bool', 9), ('float', 2)], 'o[0] = glm::isdenormal(a[0]); o[1] = glm::isdenormal(b[0]); o[2] = glm::isfinite(a[0]); o[3] = glm::isfinite(b[0]); stv(o + 4, glm::isdenormal(ldv<3,float>(a))); stv(o + 7, glm::isfinite(ldv<2,float>(a))); o2[0] = glm::fmod(a[0], a[1]); o2[1] = glm::lerp(a[0], a[1], a[2]);')
add('gtculp_f', [('float', 2), ('double', 2)], [('float', 2), ('double', 2), ('int32_t', 1), ('int64_t', 1)], 'o[0] = glm::next_float(a[0]); o[1] = glm::prev_float(a[0]); o2[0] = glm::next_float(b[0]); o2[1] = glm::prev_float(b[0]); o3[0] = glm::float_distance(a[0], a[1]); o4[0] = glm::float_distance(b[0], b[1]);',
    lambda i: [z3.Not(is_nan(x)) for x in i[0] + i[1]] + [z3.Extract(31, 31, i[0][0]) == z3.Extract(31, 31, i[0][1]), z3.Extract(63, 63, i[1][0]) == z3.Extract(63, 63, i[1][1])])       # same-sign pairs: the distance always fits
add('dualquat_f', [('float', 8), ('float', 8), ('float', 1)], [('float', 8)] * 3, 'glm::dualquat A(ldq<float>(a), ldq<float>(a + 4)), B(ldq<float>(b), ldq<float>(b + 4)); glm::dualquat C(A); stq(o, C.real); stq(o + 4, C.dual); C = B; stq(o2, C.real); stq(o2 + 4, C.dual); C = A * c[0] + B; stq(o3, C.real); stq(o3 + 4, C.dual);')
add('mixu_f', [('float', 3), ('float', 3), ('double', 1), ('double', 3), ('float', 1)], [('float', 3), ('double', 3)], 'stv(o, glm::mix(ldv<3,float>(a), ldv<3,float>(b), c[0])); stv(o2, glm::mix(ldv<3,double>(d), ldv<3,double>(d), e[0]));')       # interpolant of another floating type than the components
add('qrel_f', [('float', 4), ('float', 4)], [('bool', 4)] * 4, 'stv(o, glm::equal(ldq<float>(a), ldq<float>(b))); stv(o2, glm::lessThan(ldq<float>(a), ldq<float>(b))); stv(o3, glm::greaterThanEqual(ldq<float>(a), ldq<float>(b))); stv(o4, glm::isnan(ldq<float>(a)));')

# the same relational results read in NAMED order (index of x, y, z, w taken from the object itself): invariant under the memory order, so everything but the index convention of the known
# finding KF-C15-quat-relational-storage-order stays checked under GLM_FORCE_QUAT_DATA_WXYZ
add('qreln_f', [('float', 4), ('float', 4)], [('bool', 4)] * 4, 'glm::quat p = ldq<float>(a), q = ldq<float>(b); int ix = int(&p.x - &p[0]), iy = int(&p.y - &p[0]), iz = int(&p.z - &p[0]), iw = int(&p.w - &p[0]);'
    ' glm::bvec4 r = glm::equal(p, q); o[0] = r[ix]; o[1] = r[iy]; o[2] = r[iz]; o[3] = r[iw]; r = glm::lessThan(p, q); o2[0] = r[ix]; o2[1] = r[iy]; o2[2] = r[iz]; o2[3] = r[iw];'
    ' r = glm::greaterThanEqual(p, q); o3[0] = r[ix]; o3[1] = r[iy]; o3[2] = r[iz]; o3[3] = r[iw]; r = glm::notEqual(p, q); o4[0] = r[ix]; o4[1] = r[iy]; o4[2] = r[iz]; o4[3] = r[iw];')

# every matrix constructor has a second body for compilers without initializer lists (GLM_HAS_INITIALIZER_LISTS == 0 under GLM_FORCE_CXX98/03): all 81 shape conversions, the
# scalar / column / component constructors, row()/column() access, transpose and outerProduct for all nine shapes (the wrappers of C02's float unit, re-used verbatim)
import props.c02 as _C02
B.extra_prelude += _C02.PRE_T % 'float'
for (C_, R_) in _C02.SHAPES:
    for nm_ in ('cv_%d%d' % (C_, R_), 'tr_%d%d' % (C_, R_)):
        f_ = _C02.UNITS['f32'].fns[nm_]; add('m' + nm_, f_.ins, f_.outs, f_.body)

# ----------------------------------------------------------------------------- configurations
CFG = {
    'cxx98': ['GLM_FORCE_CXX98'], 'cxx03': ['GLM_FORCE_CXX03'], 'cxx11': ['GLM_FORCE_CXX11'], 'cxx14': ['GLM_FORCE_CXX14'], 'cxx17': ['GLM_FORCE_CXX17'], 'cxx20': ['GLM_FORCE_CXX20'],
    'inline': ['GLM_FORCE_INLINE'], 'explicit_ctor': ['GLM_FORCE_EXPLICIT_CTOR'], 'ctor_init': ['GLM_FORCE_CTOR_INIT'], 'size_t_length': ['GLM_FORCE_SIZE_T_LENGTH'],
    'xyzw_only': ['GLM_FORCE_XYZW_ONLY'], 'swizzle': ['GLM_FORCE_SWIZZLE'], 'unrestricted_gentype': ['GLM_FORCE_UNRESTRICTED_GENTYPE'], 'quat_wxyz': ['GLM_FORCE_QUAT_DATA_WXYZ'],
    'aligned_pure': ['GLM_FORCE_DEFAULT_ALIGNED_GENTYPES', 'GLM_FORCE_PURE'], 'compiler_unknown': ['GLM_FORCE_COMPILER_UNKNOWN'], 'platform_unknown': ['GLM_FORCE_PLATFORM_UNKNOWN'],
    'arch_unknown': ['GLM_FORCE_ARCH_UNKNOWN'], 'pure': ['GLM_FORCE_PURE'], 'cxx_unknown': ['GLM_FORCE_CXX_UNKNOWN'],
    'cxx98+compiler_unknown': ['GLM_FORCE_CXX98', 'GLM_FORCE_COMPILER_UNKNOWN'],       # with clang the GLM_HAS_* feature tests follow the compiler, not the forced language level: only an unknown compiler takes the pre-C++11 bodies (as g++ does under GLM_FORCE_CXX98)
    'cxx98+xyzw_only': ['GLM_FORCE_CXX98', 'GLM_FORCE_XYZW_ONLY'], 'inline+ctor_init': ['GLM_FORCE_INLINE', 'GLM_FORCE_CTOR_INIT'], 'swizzle+size_t_length': ['GLM_FORCE_SWIZZLE', 'GLM_FORCE_SIZE_T_LENGTH'],
    'quat_wxyz+explicit_ctor': ['GLM_FORCE_QUAT_DATA_WXYZ', 'GLM_FORCE_EXPLICIT_CTOR'], 'cxx11+pure+inline': ['GLM_FORCE_CXX11', 'GLM_FORCE_PURE', 'GLM_FORCE_INLINE'],
    # further combinations (thorough tier): each non-semantic macro appears in at least two different companies
    'cxx03+ctor_init+size_t_length': ['GLM_FORCE_CXX03', 'GLM_FORCE_CTOR_INIT', 'GLM_FORCE_SIZE_T_LENGTH'], 'pure+xyzw_only+quat_wxyz': ['GLM_FORCE_PURE', 'GLM_FORCE_XYZW_ONLY', 'GLM_FORCE_QUAT_DATA_WXYZ'],
    'cxx14+explicit_ctor+aligned_pure': ['GLM_FORCE_CXX14', 'GLM_FORCE_EXPLICIT_CTOR', 'GLM_FORCE_DEFAULT_ALIGNED_GENTYPES', 'GLM_FORCE_PURE'], 'inline+unrestricted_gentype+swizzle': ['GLM_FORCE_INLINE', 'GLM_FORCE_UNRESTRICTED_GENTYPE', 'GLM_FORCE_SWIZZLE'],
    'cxx98+quat_wxyz+ctor_init': ['GLM_FORCE_CXX98', 'GLM_FORCE_QUAT_DATA_WXYZ', 'GLM_FORCE_CTOR_INIT'], 'compiler_unknown+platform_unknown+arch_unknown': ['GLM_FORCE_COMPILER_UNKNOWN', 'GLM_FORCE_PLATFORM_UNKNOWN', 'GLM_FORCE_ARCH_UNKNOWN'],
    'cxx17+size_t_length+xyzw_only+explicit_ctor': ['GLM_FORCE_CXX17', 'GLM_FORCE_SIZE_T_LENGTH', 'GLM_FORCE_XYZW_ONLY', 'GLM_FORCE_EXPLICIT_CTOR'],
}
QUICK_CFG = ['cxx98', 'cxx98+compiler_unknown', 'unrestricted_gentype', 'cxx11', 'inline', 'ctor_init', 'xyzw_only', 'swizzle', 'quat_wxyz', 'aligned_pure', 'compiler_unknown', 'size_t_length', 'arch_unknown', 'platform_unknown', 'explicit_ctor']
OPTS_Q = ['-O2']; OPTS_T = ['-O0', '-O2', '-O3']
UNITS = {k: B.clone('c15' + re.sub(r'\W', '_', k), defines=v) for k, v in CFG.items()}
NATIVE = False        # native builds are made lazily, only when a counterexample has to be replayed

def units(tier):
    cf = QUICK_CFG if tier == 'quick' else list(CFG)
    return [B] + [(B, o, False) for o in (OPTS_Q if tier == 'quick' else OPTS_T)] + [UNITS[k] for k in cf]

# configuration-dependent results recorded as known findings: (config regex, function regex) -> finding ids
KNOWN = [
    (r'cxx98|cxx03|cxx_unknown', r'^(round|roundEven|vcommon\d|iround|uround)_', ['KF-C15-cxx98-round']),
    (r'cxx98|cxx03|cxx_unknown', r'^(pk_unorm|pk_f11)$', ['KF-C15-cxx98-round-pack']),
    (r'cxx98|cxx03|cxx_unknown', r'^(log2|exp2|asinh|acosh|atanh|fma3)_', ['KF-C15-cxx98-libm-fallbacks']),
    (r'quat_wxyz', r'^qrel_', ['KF-C15-quat-relational-storage-order']),
]
def known_for(cfg, fn):
    out = []
    for cr, fr, ids in KNOWN:
        if re.search(cr, cfg) and re.search(fr, fn): out += ids
    return out

def _round_region(res, i):
    """inputs on which the pre-C++11 fallback int(x +- 0.5) differs from std::round (incl. the out-of-range / NaN casts)"""
    fn = res.fn; x = res.ins[0][i if len(res.ins[0]) > i else 0]; w = x.size(); xf = fpof(x)
    std = z3.fpRoundToIntegral(z3.RNA(), xf)
    y = z3.If(z3.fpLT(xf, FPV(0.0, w)), z3.fpSub(RNE, xf, FPV(0.5, w)), z3.fpAdd(RNE, xf, FPV(0.5, w)))
    inr = z3.And(z3.Not(z3.fpIsNaN(y)), z3.fpLT(y, FPV(2.0 ** 31, w)), z3.fpGT(y, FPV(-2.0 ** 31 - 1, w)))
    fb = z3.fpSignedToFP(RNE, z3.fpToSBV(z3.RTZ(), y, z3.BitVecSort(32)), FSORT[w])
    return z3.Or(z3.Not(inr), z3.fpToIEEEBV(std) != z3.fpToIEEEBV(fb))
def _rdiff(xf, w=32):
    std = z3.fpRoundToIntegral(z3.RNA(), xf)
    y = z3.If(z3.fpLT(xf, FPV(0.0, w)), z3.fpSub(RNE, xf, FPV(0.5, w)), z3.fpAdd(RNE, xf, FPV(0.5, w)))
    inr = z3.And(z3.Not(z3.fpIsNaN(y)), z3.fpLT(y, FPV(2.0 ** 31, w)), z3.fpGT(y, FPV(-2.0 ** 31 - 1, w)))
    fb = z3.fpSignedToFP(RNE, z3.fpToSBV(z3.RTZ(), y, z3.BitVecSort(32)), FSORT[w])
    return z3.Or(z3.Not(inr), z3.fpToIEEEBV(std) != z3.fpToIEEEBV(fb))
def _pack_region(res, i):
    """pack functions quantise with round(clamp(v)*scale): inputs on which that round argument hits the fallback-round difference set"""
    a = res.ins[0]
    def q(x, lo, scale):
        xf = fpof(x); c = z3.If(z3.fpLT(xf, FPV(lo)), FPV(lo), z3.If(z3.fpGT(xf, FPV(1.0)), FPV(1.0), xf))
        return _rdiff(z3.fpMul(RNE, c, FPV(scale)))
    if res.fn.name == 'pk_unorm':
        spec = {0: [(k, 0.0, 255.0) for k in range(4)], 1: [(k, -1.0, 127.0) for k in range(4)], 2: [(k, 0.0, 65535.0) for k in range(2)]}[i]
    else: spec = [(0, 0.0, 1023.0), (1, 0.0, 1023.0), (2, 0.0, 1023.0), (0, 0.0, 3.0)]
    return z3.Or(*[q(a[k], lo, sc) for k, lo, sc in spec])
REGIONS = {'round_fallback_differs': _round_region, 'pack_round_differs': _pack_region}

def solver_for(fn): return 'portfolio' if re.match(r'imult|idiv', fn) else 'z3'      # symbolic-by-symbolic remainders: cvc5 int-blasting
def fn_groups(k):
    names = sorted(B.fns); n = (len(names) + k - 1) // k
    return [names[i:i + n] for i in range(0, len(names), n)]

def job_cfg(cfg, names):
    def run(S):
        ub = UNITS[cfg]
        for fn in names:
            if 'compiler_unknown' in cfg and fn.startswith('projmisc_') and 'cxx98' in cfg: continue      # pickMatrix: operands associate differently without constexpr folding; 140 s per entry, too fragile (covered by cxx98 and compiler_unknown separately)
            S.diff_fn(B, ub, fn, PRE.get(fn), name='c15.%s.%s' % (cfg, fn), known=known_for(cfg, fn), timeout=S.cap(150, 300), solver=solver_for(fn), label_a='baseline', label_b=cfg,
                      bounds='all argument values; configuration %s = %s' % (cfg, ' '.join(CFG[cfg])))
    return run
def job_opt(opt, names):
    def run(S):
        for fn in names:
            if opt == '-O0':
                # unoptimised IR keeps every temporary and library-call detour: (1) bit-identical wherever the two terms coincide after simplification (mandatory); for the rest
                # (2) rounding-erased equality of the float results (mandatory) and (3) the bit-precise query as an optional attempt with a short cap
                kw = dict(opt_a='-O1', opt_b=opt, solver=solver_for(fn), label_a='-O1', label_b=opt)
                n = S.diff_fn(B, B, fn, PRE.get(fn), name='c15.%s.%s' % (opt[1:], fn), syntactic_only=True, bounds='all argument values; clang -O0 vs -O1 [identical terms]', **kw)
                if n:
                    S.diff_fn(B, B, fn, PRE.get(fn), name='c15.%s.%s.erased' % (opt[1:], fn), mode='erase', timeout=S.cap(60, 60), mandatory=False, bounds='all argument values; clang -O0 vs -O1 [rounding-erased equality, optional]', **kw)
                    S.diff_fn(B, B, fn, PRE.get(fn), name='c15.%s.%s.bits' % (opt[1:], fn), timeout=S.cap(15, 15), mandatory=False, bounds='all argument values; clang -O0 vs -O1 [bit-precise, optional]', **kw)
                continue
            S.diff_fn(B, B, fn, PRE.get(fn), name='c15.%s.%s' % (opt[1:], fn), opt_a='-O1', opt_b=opt, timeout=S.cap(150, 300), solver=solver_for(fn), label_a='-O1', label_b=opt, bounds='all argument values; clang %s vs -O1' % opt)
    return run

def jobs(tier):
    J = []; q = tier == 'quick'
    for cfg in (QUICK_CFG if q else list(CFG)):
        for gi, g in enumerate(fn_groups(2 if q else 3)): J.append(('%s.%d' % (cfg, gi), job_cfg(cfg, g)))
    for o in (OPTS_Q if q else OPTS_T):
        for gi, g in enumerate(fn_groups(14 if o == '-O0' else 3)): J.append(('%s.%d' % (o[1:], gi), job_opt(o, g)))       # unoptimised IR: deep call trees, slow to execute
    return J
def PROGRAMS(recs): return len({tuple(x['name'].split('.')[1:3]) for x in recs if x.get('kind') == 'diff'})
