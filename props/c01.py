"""C01 - vector functions/operators equal the scalar overload applied per component.

Catalogue driven: Python tables -> one extern "C" wrapper per (function/operator, element type, length, qualifier).  A wrapper
evaluates the real GLM *vector* overload (every overload shape: vec.vec, vec.scalar, scalar.vec, vec.vec1, vec1.vec, compound
assignment ...) into output array o (o3) and, on the SAME component values, the real GLM *scalar* overload (for builtin operators: the
compiler's scalar `T r = a op b`) per component into o2 (o4).  The obligation is o[k] == o2[k] for every k, one solver query per
component and shape.  libm transcendentals are uninterpreted functions (same argument => same result), which is all that is needed.
"""
from props.common import *
import subprocess
LEVEL = 'proof'
CLAIM = ("For every catalogued component-wise operator and function (vector operators + - * / % & | ^ << >> ~ unary+- ++ -- == != && || and their "
         "compound/scalar/vec1 overload shapes, including compound assignments whose scalar right-hand side is a component of the assigned vector (v *= v.x); func_common, func_exponential, func_trigonometric, func_vector_relational, func_integer; ext/vector_common, "
         "vector_relational, vector_integer, vector_reciprocal, vector_ulp; gtc/epsilon, gtc/round; gtx/component_wise folds, 3/4-argument min/max with gtx/extended_min_max; "
         "matrix abs/mix/equal/notEqual) the clang IR of the "
         "vector overload and of the scalar overload applied to the same symbolic component values are executed into SMT terms and the solver shows "
         "component i of the vector result is bit-identical (NaN payload excepted) to the scalar result, for all component values, lengths 1-4, "
         "element types and qualifiers of the tier; fma is shown equal in rounding-erased (real) arithmetic because scalar fma is std::fma and vector fma is a*b+c; "
         "lowp inversesqrt (bit hack + one Newton step) is shown to have relative error below 2^-8 for every positive normal float by a lemma chain over the executed code (props/c01_lowp.py).")
BOUNDS = ("values unbounded (every bit pattern incl. +-0, subnormals, inf, NaN, integer extremes) except documented preconditions: integer / and % with divisor != 0 and not INT_MIN/-1; "
          "shift counts 0 <= s < max(32, width); iround/uround 0 <= x and x+0.5 below 2^31; bitfieldExtract/Insert 0 <= offset, 0 <= bits, offset+bits <= width; "
          "isMultiple/next/prev/ceil/floor/roundMultiple with multiple > 0 and (signed) x +- multiple representable; signed *PowerOfTwo with |x| <= 2^(width-2); abs/sign/isPowerOfTwo except INT_MIN; nextFloat/prevFloat(x, n) with 0 <= n <= 3; findNSB bit count in 1..width (loop unwound 8 times). Signed overflow (a+b, -INT_MIN, abs(INT_MIN), ++INT_MAX) is UB in the scalar "
          "reference and the vector code alike; both are compared under the two's complement wrap-around the IR computes. "
          "quick: all lengths 1-4, element types float/int32/uint8, qualifier highp (defaultp); thorough: float/double/int8-64/uint8-64 and highp/mediump/lowp, mutant twins.")
OUTSIDE = ("size of the rounding difference between scalar std::fma and vector a*b+c (shown equal only in exact real arithmetic); lowp inversesqrt on zero, subnormal, negative, infinite and NaN arguments and in aligned/SIMD lowp builds (its 2^-8 accuracy IS decided for every positive normal float, props/c01_lowp.py); accuracy of libm itself; "
           ""
           "aligned_* qualifiers and SIMD builds (C03); gtx/extended_min_max: its scalar 3/4-argument overloads are ambiguous with ext/scalar_common (do not compile) and its C<T> overloads cannot bind vec<L,T,Q>, "
           "vector calls resolve to ext/vector_common which is covered; compound assignments with a right-hand side of another element type U != T.")
ASSUMPTIONS = ['libm transcendentals (sin, exp, pow, fmod, ...) are uninterpreted functions: the vector and the scalar overload are shown to call the same library function on the same argument; modf/frexp/ldexp/nextafter use the bit-level models of engine/models.py',
               'IEEE addition and multiplication are commutative and 1*x == x: both sides are brought to a canonical operand order before comparison (props/c01.py:canon), because clang orders commutative operands differently in the two computations',
               'the scalar reference for builtin operators is the compiler\'s own scalar expression (T)(a op b) in the same translation unit',
               'clang -O1 may already merge the two computations; then the obligation is decided by term identity (clang lowering is in the trusted base)']
NATIVE = True
JOB_CAP = {'quick': 600, 'thorough': 2400}

TY = {'f32': 'float', 'f64': 'double', 'i8': 'int8_t', 'u8': 'uint8_t', 'i16': 'int16_t', 'u16': 'uint16_t', 'i32': 'int32_t', 'u32': 'uint32_t', 'i64': 'int64_t', 'u64': 'uint64_t', 'bool': 'bool'}
FLOATS = ['f32', 'f64']; SINTS = ['i8', 'i16', 'i32', 'i64']; UINTS = ['u8', 'u16', 'u32', 'u64']; INTS = SINTS + UINTS; NUM = FLOATS + INTS
def isf(t): return t[0] == 'f'
def issg(t): return t[0] == 'i'
def wd(t): return 8 if t == 'bool' else int(t[1:])

INCLUDES = ['glm/glm.hpp', 'glm/ext/scalar_common.hpp', 'glm/ext/vector_common.hpp', 'glm/ext/scalar_relational.hpp', 'glm/ext/vector_relational.hpp',
            'glm/ext/scalar_integer.hpp', 'glm/ext/vector_integer.hpp', 'glm/ext/scalar_reciprocal.hpp', 'glm/ext/vector_reciprocal.hpp',
            'glm/ext/matrix_common.hpp', 'glm/ext/matrix_relational.hpp', 'glm/gtc/epsilon.hpp', 'glm/gtx/component_wise.hpp',
            'glm/ext/vector_int1_sized.hpp', 'glm/ext/vector_uint1_sized.hpp', 'glm/ext/scalar_ulp.hpp', 'glm/ext/vector_ulp.hpp', 'glm/gtc/round.hpp']

# ------------------------------------------------------------------------------------------------ case = one wrapper
class Ctx:
    def __init__(s, t, L, q): s.t = t; s.c = TY[t]; s.L = L; s.q = q
    def V(s, x, c=None, L=None): return 'ldv<%d,%s,glm::%s>(%s)' % (L or s.L, c or s.c, s.q, x)
    def V1(s, x, c=None): return s.V(x, c, 1)
    def VT(s, c=None, L=None): return 'glm::vec<%d,%s,glm::%s>' % (L or s.L, c or s.c, s.q)
    def M(s, x, C, R): return 'ldm<%d,%d,%s,glm::%s>(%s)' % (C, R, s.c, s.q, x)

class Case:
    """blocks: (label, n, vcode, scode, indep).  vcode uses $0/$1 for the vector-side output pointer of channel 0/1 (already offset),
    scode is instantiated per component # and uses $0/$1 for the reference-side pointer (already offset)."""
    def __init__(s, name, ins, outs, pre=None, mode='fp', known=(), unwind=16, side=True, veq=False, bounds='', timeout=None, solver='z3'):
        s.name = name; s.ins = ins; s.outs = outs; s.blocks = []; s.pre = pre; s.mode = mode; s.known = list(known); s.unwind = unwind
        s.side = side; s.veq = veq; s.bounds = bounds; s.timeout = timeout; s.solver = solver; s.n = 0
    def raw(s, label, n, vcode, scode, indep=True, base=0):
        s.blocks.append((label, n, s.n, vcode, scode, indep, base)); s.n += n; return s
    def fn(s, label, vexpr, sexpr, n, scalar_result=False, indep=True):
        c0 = s.outs[0]
        v = ('$0[0] = (%s)(%s);' % (c0, vexpr)) if scalar_result else 'stv($0, %s);' % vexpr
        return s.raw(label, n, v, '$0[#] = (%s)(%s);' % (c0, sexpr), indep)
    def body(s):
        lines = []
        for label, n, off, vcode, scode, indep, base in s.blocks:
            lines.append('  { ' + vcode.replace('$0', '(o+%d)' % off).replace('$1', '(o3+%d)' % off) + ' }')
            for i in range(n):
                lines.append('  { ' + scode.replace('$0', '(o2+%d)' % off).replace('$1', '(o4+%d)' % off).replace('#', str(i)) + ' }')
        return '\n'.join(lines)
    def add_to(s, U):
        outs = []
        for c in s.outs: outs += [(c, s.n), (c, s.n)]
        U.add(s.name, s.ins, outs, s.body())
    def spec(s):
        def f(i, o):
            g = []
            for label, n, off, vcode, scode, indep, base in s.blocks:
                for ch, c in enumerate(s.outs):
                    for k in range(n):
                        lab = '%s%s.%d' % (label, '' if ch == 0 else '.out%d' % (ch + 1), base + k)
                        g.append((lab, s.eq(c, o[2 * ch][off + k], o[2 * ch + 1][off + k])))
            return g
        return f
    def eq(s, c, x, y):
        if ct_kind(c) == 'f':
            if s.mode == 'real': return REq(x.r, y.r)
            x = canon(bits_of(x)); y = canon(bits_of(y))
            if s.veq:       # same value (+0 == -0), or both NaN
                return z3.Or(z3.fpEQ(fpv_of(x), fpv_of(y)), z3.And(z3.fpIsNaN(fpv_of(x)), z3.fpIsNaN(fpv_of(y))))
            return same_float(x, y)
        if z3.is_bv(x) and z3.is_bv(y): return canon(z3.simplify(x)) == canon(z3.simplify(y))      # integer results computed through floating point (mix with a float interpolant): same operand order
        return x == y
    def mutant(s):
        """wrong spec (component 0 of the vector result against component 1 of the reference) - must be satisfiable"""
        for label, n, off, vcode, scode, indep, base in s.blocks:
            if n >= 2 and indep:
                c = s.outs[0]
                def f(i, o, off=off, c=c):
                    if ct_kind(c) == 'f' and s.mode == 'real': return [('shifted-index', REq(o[0][off].r, o[1][off + 1].r))]
                    return [('shifted-index', s.eq(c, o[0][off], o[1][off + 1]))]
                return f
        return None

# clang orders the operands of commutative fadd/fmul differently in the two computations ((1-a)*x + a*y against y*a + x*(1-a)); IEEE addition and
# multiplication are commutative (SMT-LIB FP has a single NaN), so both sides are rewritten to a canonical operand order before they are compared.
_CANON = {}
def canon(t):
    k = t.get_id()
    if k in _CANON: return _CANON[k][1]
    if z3.is_app(t) and t.num_args() > 0:
        ch = [canon(t.arg(j)) for j in range(t.num_args())]
        dk = t.decl().kind()
        if dk in (z3.Z3_OP_FPA_ADD, z3.Z3_OP_FPA_MUL) and len(ch) == 3:
            a, b = ch[1], ch[2]
            if a.get_id() > b.get_id(): a, b = b, a      # children are already canonical and z3 hash-conses: equal subterms have equal ids
            one = lambda v: z3.is_fp_value(v) and not v.isNaN() and not v.isInf() and z3.simplify(z3.fpEQ(v, z3.FPVal(1.0, v.sort()))).eq(z3.BoolVal(True)) and not v.isNegative()
            if dk == z3.Z3_OP_FPA_MUL and (one(a) or one(b)): r = b if one(a) else a        # 1*x == x exactly for every x (clang folds it on one side only)
            else: r = (z3.fpAdd if dk == z3.Z3_OP_FPA_ADD else z3.fpMul)(ch[0], a, b)
        elif dk == z3.Z3_OP_FPA_TO_FP and len(ch) == 1 and z3.is_app(ch[0]) and ch[0].decl().kind() == z3.Z3_OP_FPA_TO_IEEE_BV and ch[0].arg(0).sort() == t.sort():
            r = ch[0].arg(0)          # fpToFP(to_ieee_bv(x)) of a non-NaN-sensitive use: same FP value
        elif any(not c.eq(t.arg(j)) for j, c in enumerate(ch)): r = t.decl()(*ch)
        else: r = t
    else: r = t
    _CANON[k] = (t, r)     # keep t alive so that its id is not reused
    return r

# ------------------------------------------------------------------------------------------------ preconditions
def p_all(*ps):
    ps = [p for p in ps if p]
    return (lambda i: [h for p in ps for h in p(i)]) if ps else None
def bvv(v, x): return z3.BitVecVal(v, x.size())
def p_div(t, L):
    """integer division/modulo: every divisor used by any shape is non-zero and no INT_MIN/-1 pair"""
    if isf(t): return None
    W = wd(t)
    def pre(i):
        a, b = i[0], i[1]
        h = [y != 0 for y in b]          # b[*] is the divisor in vv/vs/v1 shapes and in sv/1v shapes (a[0] op b[#])
        if issg(t) and W >= 32:
            mn = 1 << (W - 1)
            pairs = [(a[k], b[k]) for k in range(L)] + [(a[k], b[0]) for k in range(L)] + [(a[0], b[k]) for k in range(L)]
            h += [z3.Not(z3.And(x == bvv(mn, x), y == bvv(-1, y))) for x, y in pairs]
        return h
    return pre
def p_shift(t, L):
    W = max(32, wd(t))
    def pre(i):
        h = []
        for y in i[1]:
            h.append(z3.ULT(zx(y, 64), z3.BitVecVal(W, 64)) if not issg(t) else z3.And(y >= 0, sx(y, 64) < W))
        return h
    return pre
def p_not_intmin(t, L):
    """abs / sign / *PowerOfTwo negate their argument: INT_MIN is signed overflow (UB) in the scalar and the vector overload alike"""
    if not issg(t): return None
    def pre(i): return [x != bvv(1 << (wd(t) - 1), x) for x in i[0]]
    return pre
def p_mult_pos(t, L):
    """multiple > 0; signed types additionally x - m and x + m representable (the scalar code forms Source +- Multiple: signed overflow is UB in both overloads)"""
    W = wd(t)
    def pre(i):
        h = [(y > 0) if issg(t) else (y != 0) for y in i[1]]
        if issg(t):
            for k in range(L):
                for m_ in {k, 0}:
                    X = sx(i[0][k], W + 2); M = sx(i[1][m_], W + 2)
                    h += [X + M <= (1 << (W - 1)) - 1, X - M >= -(1 << (W - 1))]
        return h
    return pre
def p_pow2_range(t, L):
    """signed power-of-two rounding: |x| <= 2^(W-2) so that the next power of two is representable (signed overflow otherwise, UB in both overloads)"""
    if not issg(t): return None
    W = wd(t)
    def pre(i): return [z3.And(x >= -(1 << (W - 2)), x <= (1 << (W - 2))) for x in i[0]]
    return pre

# ------------------------------------------------------------------------------------------------ catalogue: operators
ARITH = [('add', '+'), ('sub', '-'), ('mul', '*'), ('div', '/')]
BITOPS = [('mod', '%'), ('and', '&'), ('or', '|'), ('xor', '^'), ('shl', '<<'), ('shr', '>>')]
# overload shapes whose instantiation does not compile in the unchanged tree (explicit vec(vec1) conversion / copy-paste of the vec3 body into vec4);
# they live in a separate probe unit (job vec1_compound_probe) so that they are checked as soon as they compile
BROKEN = {(3, 'add', 'v1'), (3, 'add', 'cv1'), (3, 'sub', 'cv1'), (3, 'shl', 'cv1'), (4, 'mod', 'cv1')}

def binop_case(G, nm, op, only=None, skip=()):
    t, L, c = G.t, G.L, G.c
    pre = p_div(t, L) if op in ('/', '%') else (p_shift(t, L) if op in ('<<', '>>') else None)
    C = Case('op_%s_L%d' % (nm, L) + ('_probe' if only else ''), [(c, L), (c, L)], [c], pre=pre,
             bounds={'/': 'divisors != 0, no INT_MIN/-1', '%': 'divisors != 0, no INT_MIN/-1', '<<': '0 <= count < max(32,width)', '>>': '0 <= count < max(32,width)'}.get(op, 'all values'))
    VT = G.VT(); Va, Vb = G.V('a'), G.V('b')
    sh = [('vv', '%s %s %s' % (Va, op, Vb), 'a[#] %s b[#]' % op, True),
          ('vs', '%s %s b[0]' % (Va, op), 'a[#] %s b[0]' % op, True),
          ('sv', 'a[0] %s %s' % (op, Vb), 'a[0] %s b[#]' % op, True),
          ('cvv', '[&]{ %s v = %s; v %s= %s; return v; }()' % (VT, Va, op, Vb), 'a[#] %s b[#]' % op, True),
          ('cvs', '[&]{ %s v = %s; v %s= b[0]; return v; }()' % (VT, Va, op), 'a[#] %s b[0]' % op, True)]
    if L > 1:
        sh += [('v1', '%s %s %s' % (Va, op, G.V1('b')), 'a[#] %s b[0]' % op, True),
               ('1v', '%s %s %s' % (G.V1('a'), op, Vb), 'a[0] %s b[#]' % op, True),
               ('cv1', '[&]{ %s v = %s; v %s= %s; return v; }()' % (VT, Va, op, G.V1('b')), 'a[#] %s b[0]' % op, True)]
    for lab, v, s_, ind in sh:
        if only is not None and lab not in only: continue
        if (L, nm, lab) in skip: continue
        C.fn(lab, v, s_, L, indep=ind)
    return C

def binop_alias_case(G, nm, op):
    """compound assignment whose scalar right-hand side is a COMPONENT OF THE ASSIGNED VECTOR (v *= v.x, v /= v[L-1]): every component is combined with the original value"""
    t, L, c = G.t, G.L, G.c; W = wd(t); VT = G.VT(); Va = G.V('a'); ks = sorted({0, L - 1})
    def pre(i):
        a = i[0]; h = []
        for k in ks:
            if op in ('/', '%') and not isf(t):
                h.append(a[k] != 0)
                if issg(t) and W >= 32: h += [z3.Not(z3.And(x == bvv(1 << (W - 1), x), a[k] == bvv(-1, x))) for x in a]
            if op in ('<<', '>>'):
                WW = max(32, W); h.append(z3.ULT(zx(a[k], 64), z3.BitVecVal(WW, 64)) if not issg(t) else z3.And(a[k] >= 0, sx(a[k], 64) < WW))
        return h
    C = Case('op_%s_alias_L%d' % (nm, L), [(c, L)], [c], pre=pre if (op in ('/', '%', '<<', '>>') and not isf(t)) else None,
             bounds='right-hand side is a component of the assigned vector; ' + {'/': 'divisors != 0, no INT_MIN/-1', '%': 'divisors != 0, no INT_MIN/-1', '<<': '0 <= count < max(32,width)', '>>': '0 <= count < max(32,width)'}.get(op, 'all values'))
    for k in ks:
        C.fn('self%d' % k, '[&]{ %s v = %s; v %s= v[%d]; return v; }()' % (VT, Va, op, k), 'a[#] %s a[%d]' % (op, k), L)
    return C

def unary_case(G):
    t, L, c = G.t, G.L, G.c; VT = G.VT(); Va = G.V('a')
    C = Case('op_unary_L%d' % L, [(c, L)], [c], bounds='all values', known=['KF-C01-vec34-negate-zero'] if isf(t) and L >= 3 else [])
    C.fn('plus', '+%s' % Va, '+a[#]', L)
    C.fn('neg', '-%s' % Va, '-a[#]', L)
    if not isf(t): C.fn('not', '~%s' % Va, '~a[#]', L)
    for nm, op in (('inc', '++'), ('dec', '--')):
        C.fn('pre' + nm, '[&]{ %s v = %s; return %sv; }()' % (VT, Va, op), '[&]{ %s x = a[#]; return %sx; }()' % (c, op), L)
        C.fn('pre' + nm + '-object', '[&]{ %s v = %s; %sv; return v; }()' % (VT, Va, op), '[&]{ %s x = a[#]; %sx; return x; }()' % (c, op), L)
        C.fn('post' + nm, '[&]{ %s v = %s; return v%s; }()' % (VT, Va, op), '[&]{ %s x = a[#]; return x%s; }()' % (c, op), L)
        C.fn('post' + nm + '-object', '[&]{ %s v = %s; v%s; return v; }()' % (VT, Va, op), '[&]{ %s x = a[#]; x%s; return x; }()' % (c, op), L)
    return C

def eqop_case(G):
    t, L, c = G.t, G.L, G.c; Va, Vb = G.V('a'), G.V('b')
    C = Case('op_eq_L%d' % L, [(c, L), (c, L)], ['bool'], bounds='all values (NaN != NaN)')
    C.raw('eq', 1, '$0[0] = (%s == %s);' % (Va, Vb), '$0[0] = %s;' % ' && '.join('(a[%d] == b[%d])' % (k, k) for k in range(L)))
    C.raw('ne', 1, '$0[0] = (%s != %s);' % (Va, Vb), '$0[0] = %s;' % ' || '.join('(a[%d] != b[%d])' % (k, k) for k in range(L)))
    return C

def gen_ops(G):
    t = G.t; out = []
    for nm, op in ARITH: out.append(binop_case(G, nm, op, skip=BROKEN)); out.append(binop_alias_case(G, nm, op))
    if not isf(t):
        for nm, op in BITOPS: out.append(binop_case(G, nm, op, skip=BROKEN)); out.append(binop_alias_case(G, nm, op))
    out += [unary_case(G), eqop_case(G)]
    return out

def gen_probe(G):
    out = []
    for (L, nm, lab) in sorted(BROKEN):
        if L != G.L: continue
        op = dict(ARITH + BITOPS)[nm]
        if isf(G.t) and (nm, op) in BITOPS: continue
        out.append((nm, lab, binop_case(G, nm, op, only=[lab])))
    # merge per op
    res = {}
    for nm, lab, C in out:
        if nm in res:
            for b in C.blocks: res[nm].raw(b[0], b[1], b[3], b[4], b[5], b[6])
        else: res[nm] = C
    return list(res.values())

# ------------------------------------------------------------------------------------------------ catalogue: functions
ARGC = {'v': None, 's': None, 'i': 'int', 'j': 'int', 'b': 'bool', 'B': 'bool', 'u': 'glm::uint'}
def fn_case(G, name, shapes, out='T', glm=None, sglm=None, pre=None, sexpr=None, vexpr=None, **kw):
    """glm::NAME(args) with argument k taken from input array 'abcd'[k]: v = vec<L,T>, s = T scalar (element 0), i = ivec, j = int scalar, b = bvec, B = bool scalar, u = uvec.
    reference: glm::NAME(scalars) with v/i/b/u -> x[#], s/j/B -> x[0]."""
    t, L, c = G.t, G.L, G.c
    glm = glm or 'glm::' + name; sglm = sglm or glm
    arity = len(shapes[0]); ins = []
    for k in range(arity):
        kinds = {sh[k] for sh in shapes}
        cc = {{'i': 'int', 'j': 'int', 'b': 'bool', 'B': 'bool', 'u': 'uint32_t'}.get(x, c) for x in kinds}; assert len(cc) == 1, (name, shapes)
        ins.append((cc.pop(), L))
    oc = {'T': c, 'bool': 'bool', 'int': 'int', 'uint': 'uint32_t', 'float': 'float', 'int64': 'int64_t'}[out]
    C = Case('%s_L%d' % (name, L), ins, [oc], pre=pre, **kw)
    for sh in shapes:
        va = []; sa = []
        for k, ch in enumerate(sh):
            x = 'abcd'[k]
            if ch == 'v': va.append(G.V(x)); sa.append('%s[#]' % x)
            elif ch in 'ibu': va.append(G.V(x, {'i': 'int', 'b': 'bool', 'u': 'glm::uint'}[ch])); sa.append('%s[#]' % x)
            else: va.append('%s[0]' % x); sa.append('%s[0]' % x)
        v = (vexpr or (glm + '(%s)')) % ', '.join(va) if not callable(vexpr) else vexpr(va)
        s_ = (sexpr or (sglm + '(%s)')) % ', '.join(sa) if not callable(sexpr) else sexpr(sa)
        C.fn(sh, v, s_, L)
    return C

def fold_case(G, name, fexpr, out='T', ins_c=None, init=None, **kw):
    """vector -> scalar reductions: reference is the left fold of the scalar operation (from the identity element `init` if given, else from component 0)"""
    t, L, c = G.t, G.L, G.c; ic = ins_c or c
    oc = {'T': c, 'bool': 'bool'}[out]
    C = Case('%s_L%d' % (name, L), [(ic, L)], [oc], **kw)
    r = 'a[0]' if init is None else fexpr % ('(%s)(%s)' % (c, init), 'a[0]')
    for k in range(1, L): r = fexpr % (r, 'a[%d]' % k)
    C.raw('fold', 1, '$0[0] = glm::%s(%s);' % (name, G.V('a', ic)), '$0[0] = (%s)(%s);' % (oc, r))
    return C

def p_round_range(t, L, hi):
    def pre(i):
        F = FSORT[wd(t)]
        return [z3.And(z3.fpGEQ(fpof(x), z3.FPVal(0.0, F)), z3.fpLT(fpof(x), z3.FPVal(hi, F))) for x in i[0]]
    return pre
def p_bitfield(t, L, offk, bitk):
    W = wd(t)
    def pre(i):
        off, bits = i[offk][0], i[bitk][0]
        return [off >= 0, bits >= 0, off + bits <= W, off <= W, bits <= W]
    return pre

def gen_common(G):
    t, L, c = G.t, G.L, G.c; o = []
    o.append(fn_case(G, 'abs', ['v'], pre=p_not_intmin(t, L), bounds='all values except INT_MIN (signed overflow)' if issg(t) else 'all values'))
    o.append(fn_case(G, 'min', ['vv', 'vs'])); o.append(fn_case(G, 'max', ['vv', 'vs']))
    o.append(fn_case(G, 'clamp', ['vvv', 'vss']))
    o.append(fn_case(G, 'mix_bool', ['vvb', 'vvB'], glm='glm::mix'))
    if issg(t) or isf(t): o.append(fn_case(G, 'sign', ['v'], pre=p_not_intmin(t, L), bounds='all values except INT_MIN (signed overflow)' if issg(t) else 'all values'))
    if isf(t):
        for f in ('floor', 'trunc', 'round', 'ceil', 'fract'): o.append(fn_case(G, f, ['v']))
        o.append(fn_case(G, 'roundEven', ['v'], side=False, bounds='all values; int(x) of |x| >= 2^31 or NaN (UB in both overloads) as the same unspecified function'))
        o.append(fn_case(G, 'mod', ['vv', 'vs'], timeout=90)); o.append(fn_case(G, 'step', ['vv', 'sv']))
        o.append(fn_case(G, 'mix', ['vvv', 'vvs'], timeout=90)); o.append(fn_case(G, 'smoothstep', ['vvv', 'ssv'], timeout=90))
        o.append(fn_case(G, 'isnan', ['v'], out='bool')); o.append(fn_case(G, 'isinf', ['v'], out='bool'))
        o.append(fn_case(G, 'fma', ['vvv'], mode='real', bounds='rounding-erased: scalar std::fma and vector a*b+c agree as exact real expressions'))
        # out-parameter functions: second channel carries the out value
        VT = G.VT(); Va = G.V('a')
        C = Case('modf_L%d' % L, [(c, L)], [c, c], bounds='all values')
        C.raw('v', L, '%s ip; stv($0, glm::modf(%s, ip)); stv($1, ip);' % (VT, Va), '%s ip; $0[#] = glm::modf(a[#], ip); $1[#] = ip;' % c)
        o.append(C)
        C = Case('frexp_L%d' % L, [(c, L)], [c, 'int'], bounds='all values')
        C.raw('v', L, '%s e; stv($0, glm::frexp(%s, e)); stv($1, e);' % (G.VT('int'), Va), 'int e; $0[#] = glm::frexp(a[#], e); $1[#] = e;')
        o.append(C)
        o.append(fn_case(G, 'ldexp', ['vi']))
    if t == 'f32':
        o.append(fn_case(G, 'floatBitsToInt', ['v'], out='int')); o.append(fn_case(G, 'floatBitsToUint', ['v'], out='uint'))
    if t == 'i32': o.append(fn_case(G, 'intBitsToFloat', ['v'], out='float'))
    if t == 'u32': o.append(fn_case(G, 'uintBitsToFloat', ['v'], out='float'))
    return o

def gen_exptrig(G):
    t, L, c = G.t, G.L, G.c; o = []
    if not isf(t): return o
    o.append(fn_case(G, 'pow', ['vv']))
    for f in ('exp', 'log', 'exp2', 'log2', 'sqrt'): o.append(fn_case(G, f, ['v']))
    if t == 'f32' and G.q == 'lowp':
        # scalars carry no qualifier: the "scalar lowp overload" is the vec1 lowp instantiation of the same fast approximation
        o.append(fn_case(G, 'inversesqrt', ['v'], sexpr='glm::inversesqrt(ldv<1,float,glm::lowp>(%s)).x'.replace('%s', '&%s'), bounds='lowp fast approximation: vector against vec<1,float,lowp> per component'))
    else: o.append(fn_case(G, 'inversesqrt', ['v']))
    for f in ('radians', 'degrees', 'sin', 'cos', 'tan', 'asin', 'acos', 'atan', 'sinh', 'cosh', 'tanh', 'asinh', 'acosh', 'atanh',
              'sec', 'csc', 'cot', 'asec', 'acsc', 'acot', 'sech', 'csch', 'coth', 'asech', 'acsch', 'acoth'):
        o.append(fn_case(G, f, ['v']))
    o.append(fn_case(G, 'atan2', ['vv'], glm='glm::atan'))
    return o

REL = [('lessThan', '<'), ('lessThanEqual', '<='), ('greaterThan', '>'), ('greaterThanEqual', '>='), ('equal', '=='), ('notEqual', '!=')]
def gen_rel(G):
    t, L, c = G.t, G.L, G.c; o = []
    if t == 'bool':
        o.append(fold_case(G, 'any', '(%s || %s)', out='bool', ins_c='bool')); o.append(fold_case(G, 'all', '(%s && %s)', out='bool', ins_c='bool'))
        o.append(fn_case(G, 'not_', ['v'], out='bool', sexpr='!%s'))
        o.append(fn_case(G, 'equal', ['vv'], out='bool', sexpr=lambda a: '%s == %s' % tuple(a))); o.append(fn_case(G, 'notEqual', ['vv'], out='bool', sexpr=lambda a: '%s != %s' % tuple(a)))
        o.append(fn_case(G, 'logical_and', ['vv'], out='bool', vexpr=lambda a: '%s && %s' % tuple(a), sexpr=lambda a: '%s && %s' % tuple(a)))
        o.append(fn_case(G, 'logical_or', ['vv'], out='bool', vexpr=lambda a: '%s || %s' % tuple(a), sexpr=lambda a: '%s || %s' % tuple(a)))
        return o
    for f, op in REL: o.append(fn_case(G, f, ['vv'], out='bool', sexpr=lambda a, op=op: '%s %s %s' % (a[0], op, a[1])))
    if isf(t):
        o.append(fn_case(G, 'equal_eps', ['vvs', 'vvv'], out='bool', glm='glm::equal')); o.append(fn_case(G, 'notEqual_eps', ['vvs', 'vvv'], out='bool', glm='glm::notEqual'))
        o.append(fn_case(G, 'equal_ulp', ['vvj', 'vvi'], out='bool', glm='glm::equal', known=['KF-C01-ulp-equal-opposite-signs'], bounds='all values, all ULP counts'))
        o.append(fn_case(G, 'notEqual_ulp', ['vvj', 'vvi'], out='bool', glm='glm::notEqual', known=['KF-C01-ulp-equal-opposite-signs'], bounds='all values, all ULP counts'))
        o.append(fn_case(G, 'epsilonEqual', ['vvs', 'vvv'], out='bool')); o.append(fn_case(G, 'epsilonNotEqual', ['vvs', 'vvv'], out='bool'))
    return o

def gen_int(G):
    t, L, c = G.t, G.L, G.c; o = []
    if isf(t) or t == 'bool': return o
    for f in ('bitCount', 'findLSB', 'findMSB'): o.append(fn_case(G, f, ['v'], out='int'))
    if True:            # (8/16-bit instantiations compile since repair f0b2f03)
        o.append(fn_case(G, 'bitfieldReverse', ['v']))
        o.append(fn_case(G, 'bitfieldInsert', ['vvjj'], pre=p_bitfield(t, L, 2, 3), bounds='0 <= offset, 0 <= bits, offset+bits <= width'))
    o.append(fn_case(G, 'bitfieldExtract', ['vjj'], pre=p_bitfield(t, L, 1, 2), bounds='0 <= offset, 0 <= bits, offset+bits <= width'))
    o.append(fn_case(G, 'isPowerOfTwo', ['v'], out='bool', pre=p_not_intmin(t, L), bounds='all values except INT_MIN (abs overflows)' if issg(t) else 'all values'))
    for f in ('nextPowerOfTwo', 'prevPowerOfTwo'):
        o.append(fn_case(G, f, ['v'], pre=p_pow2_range(t, L), bounds='|x| <= 2^(width-2) (result representable)' if issg(t) else 'all values'))
    o.append(fn_case(G, 'isMultiple', ['vv', 'vs'], out='bool', pre=p_mult_pos(t, L), solver='portfolio', timeout=120, bounds='multiple > 0, x +- multiple representable'))
    o.append(fn_case(G, 'nextMultiple', ['vv', 'vs'], pre=p_mult_pos(t, L), solver='portfolio', timeout=120, bounds='multiple > 0, x +- multiple representable'))
    o.append(fn_case(G, 'prevMultiple', ['vv', 'vs'], pre=p_mult_pos(t, L), solver='portfolio', timeout=120, bounds='multiple > 0, x +- multiple representable'))
    W = wd(t)
    o.append(fn_case(G, 'findNSB', ['vi'], out='int', pre=lambda i: [z3.And(k >= 1, k <= W) for k in i[1]], unwind=9, bounds='1 <= n <= %d, loop unwound 8 times' % W))
    # gtc/round on integer vectors
    for f in ('ceilPowerOfTwo', 'floorPowerOfTwo', 'roundPowerOfTwo'):
        o.append(fn_case(G, f, ['v'], pre=p_pow2_range(t, L), bounds='|x| <= 2^(width-2) (result representable)' if issg(t) else 'all values'))
    for f in ('ceilMultiple', 'floorMultiple', 'roundMultiple'):
        o.append(fn_case(G, f, ['vv'], pre=p_mult_pos(t, L), solver='portfolio', timeout=120, bounds='multiple > 0, x +- multiple representable'))
    VTu = G.VT('glm::uint'); VTi = G.VT('int')
    if t == 'u32':
        for f in ('uaddCarry', 'usubBorrow'):
            C = Case('%s_L%d' % (f, L), [(c, L), (c, L)], [c, c], bounds='all values')
            C.raw('v', L, '%s cy; stv($0, glm::%s(%s, %s, cy)); stv($1, cy);' % (VTu, f, G.V('a', 'glm::uint'), G.V('b', 'glm::uint')), 'glm::uint cy; $0[#] = glm::%s(a[#], b[#], cy); $1[#] = cy;' % f)
            o.append(C)
        C = Case('umulExtended_L%d' % L, [(c, L), (c, L)], [c, c], bounds='all values')
        C.raw('v', L, '%s m, l; glm::umulExtended(%s, %s, m, l); stv($0, m); stv($1, l);' % (VTu, G.V('a', 'glm::uint'), G.V('b', 'glm::uint')), 'glm::uint m, l; glm::umulExtended(a[#], b[#], m, l); $0[#] = m; $1[#] = l;')
        o.append(C)
        # output parameters that alias an input (in-place use): the scalar overloads read both operands before they write; the vector overloads must do the same
        C = Case('umulExtended_alias_L%d' % L, [(c, L), (c, L)], [c, c], bounds='all values; lsb aliases x / msb aliases y')
        C.raw('lsb=x', L, '%s x = %s, y = %s, m; glm::umulExtended(x, y, m, x); stv($0, m); stv($1, x);' % (VTu, G.V('a', 'glm::uint'), G.V('b', 'glm::uint')), 'glm::uint x = a[#], y = b[#], m; glm::umulExtended(x, y, m, x); $0[#] = m; $1[#] = x;')
        C.raw('msb=y', L, '%s x = %s, y = %s, l; glm::umulExtended(x, y, y, l); stv($0, y); stv($1, l);' % (VTu, G.V('a', 'glm::uint'), G.V('b', 'glm::uint')), 'glm::uint x = a[#], y = b[#], l; glm::umulExtended(x, y, y, l); $0[#] = y; $1[#] = l;')
        o.append(C)
        for f in ('uaddCarry', 'usubBorrow'):
            C = Case('%s_alias_L%d' % (f, L), [(c, L), (c, L)], [c, c], bounds='all values; carry aliases x')
            C.raw('carry=x', L, '%s x = %s, y = %s; %s r = glm::%s(x, y, x); stv($0, r); stv($1, x);' % (VTu, G.V('a', 'glm::uint'), G.V('b', 'glm::uint'), VTu, f), 'glm::uint x = a[#], y = b[#]; glm::uint r = glm::%s(x, y, x); $0[#] = r; $1[#] = x;' % f)
            o.append(C)
    if t == 'i32':
        C = Case('imulExtended_alias_L%d' % L, [(c, L), (c, L)], [c, c], bounds='all values; lsb aliases x')
        C.raw('lsb=x', L, '%s x = %s, y = %s, m; glm::imulExtended(x, y, m, x); stv($0, m); stv($1, x);' % (VTi, G.V('a', 'int'), G.V('b', 'int')), 'int x = a[#], y = b[#], m; glm::imulExtended(x, y, m, x); $0[#] = m; $1[#] = x;')
        o.append(C)
        C = Case('imulExtended_L%d' % L, [(c, L), (c, L)], [c, c], bounds='all values')
        C.raw('v', L, '%s m, l; glm::imulExtended(%s, %s, m, l); stv($0, m); stv($1, l);' % (VTi, G.V('a', 'int'), G.V('b', 'int')), 'int m, l; glm::imulExtended(a[#], b[#], m, l); $0[#] = m; $1[#] = l;')
        o.append(C)
    return o

def gen_ext(G):
    t, L, c = G.t, G.L, G.c; o = []
    if t == 'bool': return o
    o.append(fn_case(G, 'min3', ['vvv'], glm='glm::min')); o.append(fn_case(G, 'max3', ['vvv'], glm='glm::max'))
    o.append(fn_case(G, 'min4', ['vvvv'], glm='glm::min')); o.append(fn_case(G, 'max4', ['vvvv'], glm='glm::max'))
    o.append(fold_case(G, 'compAdd', '(%s)(%s + %s)'.replace('(%s)', '(' + c + ')', 1), init='0', bounds='all values; reference: left fold of scalar + from the empty sum T(0)'))
    o.append(fold_case(G, 'compMul', '(%s)(%s * %s)'.replace('(%s)', '(' + c + ')', 1), init='1', bounds='all values; reference: left fold of scalar * from the empty product T(1)'))
    o.append(fold_case(G, 'compMin', 'glm::min(%s, %s)')); o.append(fold_case(G, 'compMax', 'glm::max(%s, %s)'))
    if isf(t):
        o.append(fn_case(G, 'fmin', ['vv', 'vs'])); o.append(fn_case(G, 'fmax', ['vv', 'vs']))
        o.append(fn_case(G, 'fmin3', ['vvv'], glm='glm::fmin')); o.append(fn_case(G, 'fmax3', ['vvv'], glm='glm::fmax'))
        o.append(fn_case(G, 'fmin4', ['vvvv'], glm='glm::fmin')); o.append(fn_case(G, 'fmax4', ['vvvv'], glm='glm::fmax'))
        o.append(fn_case(G, 'fclamp', ['vvv', 'vss']))
        o.append(fn_case(G, 'clamp01', ['v'], glm='glm::clamp')); o.append(fn_case(G, 'repeat', ['v'])); o.append(fn_case(G, 'mirrorClamp', ['v']))
        o.append(fn_case(G, 'mirrorRepeat', ['v'], timeout=90))
        o.append(fn_case(G, 'iround', ['v'], out='int', pre=p_round_range(t, L, 2147483000.0), bounds='0 <= x < 2147483000 (assert x >= 0; int conversion in range)'))
        o.append(fn_case(G, 'uround', ['v'], out='uint', pre=p_round_range(t, L, 4294967000.0), bounds='0 <= x < 4294967000 (assert x >= 0; uint conversion in range)'))
        o.append(fold_case(G, 'fcompMin', 'glm::fmin(%s, %s)')); o.append(fold_case(G, 'fcompMax', 'glm::fmax(%s, %s)'))
        # ext/vector_ulp against ext/scalar_ulp
        o.append(fn_case(G, 'nextFloat', ['v'])); o.append(fn_case(G, 'prevFloat', ['v']))
        ulps = lambda i: [z3.And(k >= 0, k <= 3) for k in i[1]]
        o.append(fn_case(G, 'nextFloat_n', ['vj', 'vi'], glm='glm::nextFloat', pre=ulps, unwind=6, bounds='0 <= ULPs <= 3 (loop unwound)'))
        o.append(fn_case(G, 'prevFloat_n', ['vj', 'vi'], glm='glm::prevFloat', pre=ulps, unwind=6, bounds='0 <= ULPs <= 3 (loop unwound)'))
        C = fn_case(G, 'floatDistance', ['vv'], out='int' if t == 'f32' else 'int64')
        o.append(C)
        # gtc/round on floating-point vectors (fmod is an uninterpreted libm call)
        for f in ('ceilMultiple', 'floorMultiple', 'roundMultiple'): o.append(fn_case(G, f, ['vv']))
    return o

MATS_Q = [(2, 2), (3, 2), (4, 4)]
MATS_T = [(C_, R_) for C_ in (2, 3, 4) for R_ in (2, 3, 4)]
def gen_mat(G, shapes, probe=None):
    t, c = G.t, G.c; o = []
    for (Cn, Rn) in shapes:
        N = Cn * Rn; Ma, Mb, Mc = G.M('a', Cn, Rn), G.M('b', Cn, Rn), G.M('c', Cn, Rn); sfx = '_m%dx%d' % (Cn, Rn)
        C = Case('abs' + sfx, [(c, N)], [c], bounds='all values')
        C.raw('m', N, 'stm($0, glm::abs(%s));' % Ma, '$0[#] = glm::abs(a[#]);')
        if probe is None: o.append(C)
        C = Case('equal' + sfx, [(c, N), (c, N)], ['bool'], bounds='all values')
        for cc in range(Cn):
            idx = [cc * Rn + r for r in range(Rn)]
            C.raw('equal', 1, 'glm::vec<%d,bool,glm::%s> r = glm::equal(%s, %s); $0[0] = r[%d];' % (Cn, G.q, Ma, Mb, cc), '$0[0] = %s;' % ' && '.join('(a[%d] == b[%d])' % (k, k) for k in idx), base=cc)
            C.raw('notEqual', 1, 'glm::vec<%d,bool,glm::%s> r = glm::notEqual(%s, %s); $0[0] = r[%d];' % (Cn, G.q, Ma, Mb, cc), '$0[0] = %s;' % ' || '.join('(a[%d] != b[%d])' % (k, k) for k in idx), base=cc)
        if probe is None: o.append(C)
        if not isf(t) and probe is None:        # integer matrices blended with a floating interpolant: per element what the scalar mix(int, int, float) returns
            C = Case('mixf' + sfx, [(c, N), (c, N), ('float', 1)], [c], side=False, timeout=90,
                     bounds='all element values, every interpolant; the float -> integer conversion of an out-of-range blend (UB in the scalar and the matrix overload alike) as the same unspecified function')
            C.raw('scalar-a', N, 'stm($0, glm::mix(%s, %s, c[0]));' % (Ma, Mb), '$0[#] = glm::mix(a[#], b[#], c[0]);')
            o.append(C)
        if isf(t):
            C = Case('mix' + sfx, [(c, N), (c, N), (c, N)], [c], bounds='all values', timeout=90)
            if probe is None:
                C.raw('scalar-a', N, 'stm($0, glm::mix(%s, %s, c[0]));' % (Ma, Mb), '$0[#] = glm::mix(a[#], b[#], c[0]);')
            # mix(mat, mat, mat) needs operator-(T, mat), which only the square shapes declare: non-square instantiations do not compile (probe unit)
            if (probe is None and Cn == Rn) or (probe == 'mixmat' and Cn != Rn):
                C.raw('matrix-a', N, 'stm($0, glm::mix(%s, %s, %s));' % (Ma, Mb, Mc), '$0[#] = glm::mix(a[#], b[#], c[#]);')
            if C.blocks: o.append(C)
            if probe is not None: continue
            C = Case('equal_eps' + sfx, [(c, N), (c, N), (c, Cn)], ['bool'], bounds='all values')
            Ve = G.V('c', L=Cn)
            for cc in range(Cn):
                idx = [cc * Rn + r for r in range(Rn)]
                for lab, f, e, join in (('equal-s', 'equal', 'c[0]', ' && '), ('notEqual-s', 'notEqual', 'c[0]', ' || '), ('equal-v', 'equal', Ve, ' && '), ('notEqual-v', 'notEqual', Ve, ' || ')):
                    se = 'c[0]' if lab.endswith('-s') else 'c[%d]' % cc
                    C.raw(lab, 1, 'glm::vec<%d,bool,glm::%s> r = glm::%s(%s, %s, %s); $0[0] = r[%d];' % (Cn, G.q, f, Ma, Mb, e, cc),
                          '$0[0] = %s;' % join.join('glm::%s(a[%d], b[%d], %s)' % (f, k, k, se) for k in idx), base=cc)
            o.append(C)
            C = Case('equal_ulp' + sfx, [(c, N), (c, N), ('int', Cn)], ['bool'], bounds='all values, all ULP counts', known=['KF-C01-ulp-equal-opposite-signs-mat'])
            Vi = G.V('c', 'int', Cn)
            for cc in range(Cn):
                idx = [cc * Rn + r for r in range(Rn)]
                for lab, f, e, join in (('equal-s', 'equal', 'c[0]', ' && '), ('notEqual-s', 'notEqual', 'c[0]', ' || '), ('equal-v', 'equal', Vi, ' && '), ('notEqual-v', 'notEqual', Vi, ' || ')):
                    se = 'c[0]' if lab.endswith('-s') else 'c[%d]' % cc
                    C.raw(lab, 1, 'glm::vec<%d,bool,glm::%s> r = glm::%s(%s, %s, %s); $0[0] = r[%d];' % (Cn, G.q, f, Ma, Mb, e, cc),
                          '$0[0] = %s;' % join.join('glm::%s(a[%d], b[%d], %s)' % (f, k, k, se) for k in idx), base=cc)
            o.append(C)
    return o

def gen_gtxmm(G):
    """with gtx/extended_min_max.hpp included, the 3/4-argument vector calls must still be the component-wise min/max (reference: nested 2-argument scalar glm::min/max;
    the 3/4-argument scalar overloads are ambiguous once this header is included)"""
    o = []
    for f in ('min', 'max'):
        o.append(fn_case(G, f + '3', ['vvv'], glm='glm::' + f, sexpr=lambda a, f=f: 'glm::%s(glm::%s(%s, %s), %s)' % (f, f, a[0], a[1], a[2])))
        o.append(fn_case(G, f + '4', ['vvvv'], glm='glm::' + f, sexpr=lambda a, f=f: 'glm::%s(glm::%s(%s, %s), glm::%s(%s, %s))' % (f, f, a[0], a[1], f, a[2], a[3])))
    return o

GROUPS = {'ops': gen_ops, 'common': gen_common, 'exptrig': gen_exptrig, 'rel': gen_rel, 'int': gen_int, 'ext': gen_ext}

def _ulp_mat_region(res, col):
    m = re.search(r'_m(\d)x(\d)$', res.fn.name); R = int(m.group(2))
    a, b = res.ins[0], res.ins[1]
    return z3.Or(*[(a[col * R + r] < 0) != (b[col * R + r] < 0) for r in range(R)])
REGIONS = {'ulp_mat': _ulp_mat_region}

# ------------------------------------------------------------------------------------------------ tiers -> units, jobs
_BUILT = {}
CASES = {}        # tier -> [(group, type, qualifier, Unit, cases)]  (props/c20.py sweeps the float catalogue under UBSan-trap IR)
def build(tier):
    if tier in _BUILT: return _BUILT[tier]
    q = tier == 'quick'
    types = ['f32', 'i32', 'u8'] if q else NUM
    quals = ['highp'] if q else ['highp', 'mediump', 'lowp']
    units = []; jobs = []; probes = []
    def mk(group, t, ql, cases, split=1, includes=INCLUDES):
        if not cases: return
        U = Unit('c01_%s_%s_%s' % (group, t, ql), includes=includes)
        for C in cases: C.add_to(U)
        units.append(U); CASES.setdefault(tier, []).append((group, t, ql, U, cases))
        per = (len(cases) + split - 1) // split
        for k in range(split):
            part = cases[k * per:(k + 1) * per]
            if part: jobs.append(('%s_%s_%s' % (group, t, ql) + ('' if split == 1 else '_p%d' % k), make_job(U, part)))
    for ql in quals:
        for t in types + ['bool']:
            for group, gen in GROUPS.items():
                if t == 'bool' and group != 'rel': continue
                cases = []
                for L in (1, 2, 3, 4): cases += gen(Ctx(t, L, ql))
                mk(group, t, ql, cases, split=2 if group in ('ops', 'exptrig', 'common') else 1)
            if t != 'bool':
                mk('mat', t, ql, gen_mat(Ctx(t, 0, ql), MATS_Q if q else MATS_T), split=3 if isf(t) else 1)
    if q:   # the carry / extended-multiply overloads exist for uint only: keep the uint integer group in the quick tier
        mk('int', 'u32', 'highp', [C for L in (1, 2, 3, 4) for C in gen_int(Ctx('u32', L, 'highp'))])
    if q:   # the lowp specialisation of inversesqrt is separate code: keep it in the quick tier
        mk('exptrig', 'f32', 'lowp', [C for L in (1, 2, 3, 4) for C in gen_exptrig(Ctx('f32', L, 'lowp')) if C.name.startswith(('inversesqrt', 'sqrt', 'exp2'))])
    for t in (['f32', 'i32'] if q else ['f32', 'f64', 'i32', 'u8', 'i64']):
        mk('gtxmm', t, 'highp', [C for L in (1, 2, 3, 4) for C in gen_gtxmm(Ctx(t, L, 'highp'))], includes=['glm/glm.hpp', 'glm/gtx/extended_min_max.hpp'])
    # overload shapes that do not compile in the unchanged tree: compiled lazily inside the job, reported as KNOWN-FINDING while they fail
    for t in (['f32', 'i32'] if q else ['f32', 'i32', 'u8', 'f64', 'i64']):
        cases = []
        for L in (3, 4): cases += gen_probe(Ctx(t, L, 'highp'))
        U = Unit('c01_probe_%s' % t, includes=INCLUDES)
        for C in cases: C.add_to(U)
        jobs.append(('vec1_compound_probe_%s' % t, make_probe_job(U, cases, 'KF-C01-vec1-compound-does-not-compile')))
    for t in (['f32'] if q else FLOATS):
        cases = gen_mat(Ctx(t, 0, 'highp'), [(3, 2)] if q else [m_ for m_ in MATS_T if m_[0] != m_[1]], probe='mixmat')
        U = Unit('c01_probe_mixmat_%s' % t, includes=INCLUDES)
        for C in cases: C.add_to(U)
        jobs.append(('mix_nonsquare_probe_%s' % t, make_probe_job(U, cases, 'KF-C01-mix-nonsquare-matrix-does-not-compile')))
    _BUILT[tier] = (units, jobs)
    return _BUILT[tier]

def run_case(S, U, C):
    n0 = len(S.records)
    res = S.check_fn(U, C.name, C.spec(), C.pre, mode=C.mode, unwind=C.unwind, timeout=S.cap(max(C.timeout or 0, 150), max(C.timeout or 0, 150) * 2), solver=C.solver, known=C.known,
                     bounds=C.bounds, side=C.side, validate=2 if S.quick else 4)
    if res is not None and C.mode == 'fp': retry_unreproduced(S, U, C, res, n0)
    if res is not None and not S.quick: mutant_twin(S, U, C, res)

def mutant_twin(S, U, C, res):
    """vacuity guard: the deliberately wrong spec 'vector component 0 == scalar result of component 1' must be refutable.  Searching a refuting model through a
    bit-blasted double division costs minutes, so the floating-point inputs are first pinned to distinct generic constants (the query then only evaluates);
    only if that does not refute the twin the solver searches freely (short cap; 'unknown' is recorded as inconclusive, a real 'unsat' is a vacuity error)."""
    mg = C.mutant()
    if mg is None: return
    fn = U.fns[C.name]
    hyps = input_wellformed(fn, res.ins) + list(C.pre(res.ins) if C.pre else []) + res.axioms
    label, g = mg(res.ins, res.outs)[0]; g = goal_term(g)
    name = '%s.%s.twin.%s' % (U.name, C.name, label); t0 = time.time()
    pins = []
    if C.mode == 'fp':
        elem = fn.ins[0][0]; base = [0.4, 1.9, 1.1]
        for k, ((c, n), terms) in enumerate(zip(fn.ins, res.ins)):
            if c != elem: continue          # count / offset / ULP arguments stay free
            if ct_kind(c) == 'f':
                pins += [t == z3.fpToIEEEBV(z3.FPVal(base[k % 3] + 0.17 * j * (k + 1), FSORT[t.size()])) for j, t in enumerate(terms)]
            elif ct_kind(c) in 'su':
                pins += [t == z3.BitVecVal((30 + 7 * j + (j * j) % 3) if k == 0 else (4 + 3 * j + 5 * (k - 1)), t.size()) for j, t in enumerate(terms)]
    r = 'unknown'; used = 'z3'
    if pins:
        r, m, dt, used = S.query(hyps + pins + [z3.Not(g)], 20, 'z3'); used += ' (element-typed inputs pinned to distinct constants)'
    if r != 'sat':
        r, m, dt, used = S.query(hyps + [z3.Not(g)], 10, 'z3')
    S.rec(name=name, kind='mutant-twin', expect='sat', functions=[C.name], bounds=C.bounds, solver=used, result=r, time_s=round(time.time() - t0, 3), mandatory=False,
          status='ok' if r == 'sat' else ('vacuous' if r == 'unsat' else 'inconclusive'))
    if r == 'unsat': S.engine_errors.append('%s: mutant twin is not refutable (vacuous obligation?)' % name)

def retry_unreproduced(S, U, C, res, n0):
    """libm calls are uninterpreted: a counterexample may sit on a point where two different library functions happen to agree natively (exp2(0) == exp(0)),
    which the harness files as 'counterexample not reproduced'.  Ask the solver for further counterexamples away from the inputs already tried; a reproduced one
    is a VIOLATION (an unsat/unknown retry changes nothing: the obligation stays inconclusive)."""
    bad = [r for r in S.records[n0:] if r.get('status') == 'inconclusive(cex not reproduced)' and r.get('kind') == 'spec' and not r['name'].endswith('.outside-known')]
    if not bad: return
    fn = U.fns[C.name]
    hyps = input_wellformed(fn, res.ins) + list(C.pre(res.ins) if C.pre else []) + res.axioms
    goals = dict(C.spec()(res.ins, res.outs)); pfx = '%s.%s.' % (U.name, C.name)
    for r in bad[:8]:
        oname = r['name']; label = oname[len(pfx):]; g = goals.get(label)
        if g is None or not isinstance(r.get('replay_info'), dict) or 'inputs' not in r['replay_info']: continue
        inputs = r['replay_info']['inputs']; blocked = []
        rp = S._replayer(res, (C.spec(), label), C.pre, U, C.name, C.mode, oname)
        for attempt in range(4):
            blocked += [t != z3.BitVecVal(int(v, 16), t.size()) for terms, vals in zip(res.ins, inputs) for t, v in zip(terms, vals)]
            # solver models favour tiny bit patterns (subnormals), exactly where exp/exp2/sin/... coincide: steer float inputs to generic magnitudes
            rng = [(0.3, 0.9), (1.25, 7.0), (-0.9, -0.3), None][attempt]; steer = []
            if rng:
                for (c, n_), terms in zip(fn.ins, res.ins):
                    if ct_kind(c) == 'f': steer += [z3.And(z3.fpGT(fpof(t), z3.FPVal(rng[0], FSORT[t.size()])), z3.fpLT(fpof(t), z3.FPVal(rng[1], FSORT[t.size()]))) for t in terms]
            rr, m = S.prove('%s.retry%d' % (oname, attempt), goal_term(g), hyps + blocked + steer, timeout=S.cap(20, 60), replay=rp, mandatory=False, kind='spec-retry',
                            bounds='further counterexample away from the inputs that did not reproduce')
            rec = S.records[-1]
            if rr == 'sat' and rec.get('replay') == 'reproduced':
                S.inconclusive[:] = [x for x in S.inconclusive if not x.startswith(oname + ' [')]
                break
            if rr != 'sat' or not isinstance(rec.get('replay_info'), dict): break
            inputs = rec['replay_info'].get('inputs', inputs)

def make_job(U, cases):
    def run(S):
        for C in cases: run_case(S, U, C)
    return run
def make_probe_job(U, cases, kid):
    def run(S):
        src = os.path.join(scratch(), U.name + '.probe.%d.cpp' % os.getpid())
        with open(src, 'w') as f: f.write(U.source())
        p = subprocess.run(['clang++-14', '-std=c++17', '-fsyntax-only', '-w', '-I', REPO, src], capture_output=True, text=True)
        os.unlink(src)
        if p.returncode != 0:
            errs = [re.sub(r'^.*/glm/', 'glm/', l)[:200] for l in p.stderr.split('\n') if ': error:' in l]
            kf = S.known.get(kid)
            if kf is not None and kf.get('status', 'open') == 'open' and errs:
                S.known_hits.append((kf['id'], kf['what']))
                S.rec(name=U.name + '.compile', kind='known-finding-probe', result='does-not-compile', status='known-finding', mandatory=False, note=' | '.join(errs[:8]))
                return
            raise RuntimeError('probe unit %s does not compile and no open known finding %s: %s' % (U.name, kid, ' | '.join(errs[:4])))
        for C in cases: run_case(S, U, C)
    return run

import props.c01_lowp as LOWP        # lowp inversesqrt: relative error < 2^-8 for every positive normal float (lemma chain over the executed code)
def units(tier): return build(tier)[0] + LOWP.units(tier)
def jobs(tier): return build(tier)[1] + LOWP.jobs(tier)
