"""C12 - geometric functions satisfy Euclidean identities on vec1..4 (detail/func_geometric.inl and the gtx norm / projection /
perpendicular / orthonormalize / vector_angle / closest_point / normal / exterior_product / mixed_product helpers)."""
from props.common import *
LEVEL = 'proof'
CLAIM = ("dot, length, distance, cross, normalize, faceforward, reflect, refract (vec1-4 and the scalar genType overloads, float and double) and the gtx helpers length2, distance2, "
         "l1Norm, l2Norm, lMaxNorm, lxNorm, proj, perp, orthonormalize, angle, orientedAngle, closestPointOnLine, triangleNormal, cross(vec2), mixedProduct are executed symbolically from "
         "their clang IR. In rounding-erased (real) semantics the solver shows the Euclidean identities of the property for every input vector (sum of products, non-negative root of the "
         "squared norm, orthogonality / anti-commutativity / determinant formula of cross, unit positive multiple, reflection formula with involution and length preservation for unit N, "
         "Snell's law for unit I, N, Gram-Schmidt characterisation of orthonormalize, clamped-projection definition of closestPointOnLine, cos(angle) = dot for unit vectors). In bit-precise "
         "IEEE semantics it shows that refract returns the all-zero bit pattern whenever k = 1 - eta*eta*(1 - dot(N,I)^2) < 0 and the GLSL formula otherwise, and that faceforward returns N "
         "bit-for-bit when dot(Nref,I) < 0 and N with flipped sign bits otherwise (dot = +-0, NaN included), identically in the vec1 and scalar overloads.")
BOUNDS = ("real mode: all real inputs satisfying the stated non-degeneracy precondition of each obligation (v != 0, unit N, eta > 0, linearly independent columns ...), L = 1..4, float and double "
          "instantiations; fp mode: all 2^32 / 2^64 bit patterns per component (refract: inputs for which the documented k is not NaN); lxNorm: Depth in {1, 2, 3} only")
OUTSIDE = ("magnitude of floating-point rounding error in any identity (orthogonality of cross under cancellation is decided in the rounding-erased sense only); overflow/underflow of squared norms; "
           "lxNorm for Depth > 3 and the numerical accuracy of pow/acos; the value of angle() beyond cos(angle) = dot and 0 <= angle <= pi; aligned/SIMD qualifiers (C03)")
ASSUMPTIONS = ['real mode erases rounding: every fadd/fsub/fmul/fdiv is exact, sqrt(x) is the non-negative real root (engine/models.py:rcall)',
               'acos is specified by cos(acos(t)) = t and 0 <= acos(t) <= pi for -1 <= t <= 1 (cos an uninterpreted even function at the specification level, pi a real in (3.14159, 3.1416))',
               'pow(x,1) = x, pow(x,2) = x*x, pow(x,3) = x*x*x, pow(x,1/n) = the non-negative n-th root for x >= 0 (used for lxNorm only)',
               'fp mode: "dot(N,I)" is read as the IEEE evaluation of the component products summed left to right ((x+y)+z; (x+y)+(z+w) for vec4), k and the result as the GLSL formula evaluated operation by operation in IEEE double/float']
FT = {'f32': ('float', 32), 'f64': ('double', 64)}
U = Unit('c12', includes=['glm/glm.hpp', 'glm/gtx/norm.hpp', 'glm/gtx/projection.hpp', 'glm/gtx/perpendicular.hpp', 'glm/gtx/orthonormalize.hpp', 'glm/gtx/vector_angle.hpp',
                          'glm/gtx/closest_point.hpp', 'glm/gtx/normal.hpp', 'glm/gtx/exterior_product.hpp', 'glm/gtx/mixed_product.hpp'])
for t, (c, w) in FT.items():
    for L in (1, 2, 3, 4):
        V = lambda p, L=L, c=c: 'ldv<%d,%s>(%s)' % (L, c, p)
        s = '_v%d_%s' % (L, t)
        U.add('dot' + s, [(c, L), (c, L)], [(c, 1)], 'o[0] = glm::dot(%s, %s);' % (V('a'), V('b')))
        U.add('length' + s, [(c, L)], [(c, 1)], 'o[0] = glm::length(%s);' % V('a'))
        U.add('distance' + s, [(c, L), (c, L)], [(c, 2)], 'o[0] = glm::distance(%s, %s); o[1] = glm::length(%s - %s);' % (V('a'), V('b'), V('a'), V('b')))
        U.add('normalize' + s, [(c, L)], [(c, L)], 'stv(o, glm::normalize(%s));' % V('a'))
        U.add('faceforward' + s, [(c, L), (c, L), (c, L)], [(c, L)], 'stv(o, glm::faceforward(%s, %s, %s));' % (V('a'), V('b'), V('c')))
        U.add('reflect' + s, [(c, L), (c, L)], [(c, L)], 'stv(o, glm::reflect(%s, %s));' % (V('a'), V('b')))
        U.add('reflect2' + s, [(c, L), (c, L)], [(c, L)], 'stv(o, glm::reflect(glm::reflect(%s, %s), %s));' % (V('a'), V('b'), V('b')))
        U.add('refract' + s, [(c, L), (c, L), (c, 1)], [(c, L)], 'stv(o, glm::refract(%s, %s, c[0]));' % (V('a'), V('b')))
        U.add('length2' + s, [(c, L)], [(c, 1)], 'o[0] = glm::length2(%s);' % V('a'))
        U.add('distance2' + s, [(c, L), (c, L)], [(c, 1)], 'o[0] = glm::distance2(%s, %s);' % (V('a'), V('b')))
        U.add('angle' + s, [(c, L), (c, L)], [(c, 1)], 'o[0] = glm::angle(%s, %s);' % (V('a'), V('b')))
        if L >= 2:
            U.add('proj' + s, [(c, L), (c, L)], [(c, L), (c, L)], 'stv(o, glm::proj(%s, %s)); stv(o2, glm::perp(%s, %s));' % (V('a'), V('b'), V('a'), V('b')))
    # scalar genType overloads
    U.add('s_dot_' + t, [(c, 2)], [(c, 1)], 'o[0] = glm::dot(a[0], a[1]);')
    U.add('s_length_' + t, [(c, 1)], [(c, 1)], 'o[0] = glm::length(a[0]);')
    U.add('s_distance_' + t, [(c, 2)], [(c, 1)], 'o[0] = glm::distance(a[0], a[1]);')
    U.add('s_faceforward_' + t, [(c, 1), (c, 1), (c, 1)], [(c, 1)], 'o[0] = glm::faceforward(a[0], b[0], c[0]);')
    U.add('s_reflect_' + t, [(c, 1), (c, 1)], [(c, 1)], 'o[0] = glm::reflect(a[0], b[0]);')
    U.add('s_refract_' + t, [(c, 1), (c, 1), (c, 1)], [(c, 1)], 'o[0] = glm::refract(a[0], b[0], c[0]);')
    U.add('s_length2_' + t, [(c, 1)], [(c, 1)], 'o[0] = glm::length2(a[0]);')
    U.add('s_distance2_' + t, [(c, 2)], [(c, 1)], 'o[0] = glm::distance2(a[0], a[1]);')
    U.add('s_angle_' + t, [(c, 2)], [(c, 1)], 'o[0] = glm::angle(a[0], a[1]);')
    V3 = lambda p, c=c: 'ldv<3,%s>(%s)' % (c, p)
    V2 = lambda p, c=c: 'ldv<2,%s>(%s)' % (c, p)
    U.add('cross_' + t, [(c, 3), (c, 3)], [(c, 3), (c, 3)], 'stv(o, glm::cross(%s, %s)); stv(o2, glm::cross(%s, %s));' % (V3('a'), V3('b'), V3('b'), V3('a')))
    U.add('cross2_' + t, [(c, 2), (c, 2)], [(c, 2)], 'o[0] = glm::cross(%s, %s); o[1] = glm::cross(%s, %s);' % (V2('a'), V2('b'), V2('b'), V2('a')))
    U.add('mixed_' + t, [(c, 3), (c, 3), (c, 3)], [(c, 1)], 'o[0] = glm::mixedProduct(%s, %s, %s);' % (V3('a'), V3('b'), V3('c')))
    U.add('norms_' + t, [(c, 3), (c, 3)], [(c, 6)], 'o[0] = glm::l1Norm(%s, %s); o[1] = glm::l1Norm(%s); o[2] = glm::l2Norm(%s, %s); o[3] = glm::l2Norm(%s); o[4] = glm::lMaxNorm(%s, %s); o[5] = glm::lMaxNorm(%s);'
          % (V3('a'), V3('b'), V3('a'), V3('a'), V3('b'), V3('a'), V3('a'), V3('b'), V3('a')))
    U.add('lxnorm_' + t, [(c, 3), (c, 3), ('uint32_t', 1)], [(c, 2)], 'o[0] = glm::lxNorm(%s, %s, c[0]); o[1] = glm::lxNorm(%s, c[0]);' % (V3('a'), V3('b'), V3('a')))
    U.add('ortho_m3_' + t, [(c, 9)], [(c, 9)], 'stm(o, glm::orthonormalize(ldm<3,3,%s>(a)));' % c)
    U.add('ortho_v3_' + t, [(c, 3), (c, 3)], [(c, 3)], 'stv(o, glm::orthonormalize(%s, %s));' % (V3('a'), V3('b')))
    U.add('oangle2_' + t, [(c, 2), (c, 2)], [(c, 1)], 'o[0] = glm::orientedAngle(%s, %s);' % (V2('a'), V2('b')))
    U.add('oangle3_' + t, [(c, 3), (c, 3), (c, 3)], [(c, 1)], 'o[0] = glm::orientedAngle(%s, %s, %s);' % (V3('a'), V3('b'), V3('c')))
    U.add('closest3_' + t, [(c, 3), (c, 3), (c, 3)], [(c, 3)], 'stv(o, glm::closestPointOnLine(%s, %s, %s));' % (V3('a'), V3('b'), V3('c')))
    U.add('closest2_' + t, [(c, 2), (c, 2), (c, 2)], [(c, 2)], 'stv(o, glm::closestPointOnLine(%s, %s, %s));' % (V2('a'), V2('b'), V2('c')))
    U.add('trinormal_' + t, [(c, 3), (c, 3), (c, 3)], [(c, 3)], 'stv(o, glm::triangleNormal(%s, %s, %s));' % (V3('a'), V3('b'), V3('c')))
def units(tier): return [U]

# ------------------------------------------------------------------ specification helpers (reals)
def rdot(x, y): return sum((p * q for p, q in zip(x[1:], y[1:])), x[0] * y[0])
def rsub(x, y): return [p - q for p, q in zip(x, y)]
def rabs(x): return z3.If(x >= 0, x, -x)
def rmax(xs):
    m = xs[0]
    for x in xs[1:]: m = z3.If(x > m, x, m)
    return m
def rcross(a, b): return [a[1] * b[2] - a[2] * b[1], a[2] * b[0] - a[0] * b[2], a[0] * b[1] - a[1] * b[0]]
def rdet3(a, b, c):
    return a[0] * b[1] * c[2] + a[1] * b[2] * c[0] + a[2] * b[0] * c[1] - a[2] * b[1] * c[0] - a[1] * b[0] * c[2] - a[0] * b[2] * c[1]
def R(o): return [v.r for v in o]
def pairs(n): return [(i, j) for i in range(n) for j in range(i + 1, n)]

# ------------------------------------------------------------------ core functions, rounding-erased
def job_core_real(t, L):
    s = '_v%d_%s' % (L, t)
    def run(S):
        tm = S.cap(60, 200)
        S.check_fn(U, 'dot' + s, lambda i, o: [('sum-of-products', REq(o[0][0].r, rdot(i[0], i[1])))], mode='real', timeout=tm,
                   mutant=lambda i, o: [('m', REq(o[0][0].r, rdot(i[0], i[1]) - i[0][L - 1] * i[1][L - 1]))], bounds='all real vectors')
        S.check_fn(U, 'length' + s, lambda i, o: [('nonneg', RGoal('ge', o[0][0].r, 0)), ('square', REq(o[0][0].r * o[0][0].r, rdot(i[0], i[0])))], mode='real', timeout=tm, bounds='all real vectors')
        def dspec(i, o):
            d = rsub(i[0], i[1])
            return [('nonneg', RGoal('ge', o[0][0].r, 0)), ('square', REq(o[0][0].r * o[0][0].r, rdot(d, d))), ('eq-length-of-difference', REq(o[0][0].r, o[0][1].r))]
        S.check_fn(U, 'distance' + s, dspec, mode='real', timeout=tm, bounds='all real vectors')
        def nspec(i, o):
            r = R(o[0]); v = i[0]
            return [('unit', REq(rdot(r, r), 1)), ('same-direction', RGoal('gt', rdot(r, v), 0))] + [('parallel%d%d' % (p, q), REq(r[p] * v[q], r[q] * v[p])) for p, q in pairs(L)]
        S.check_fn(U, 'normalize' + s, nspec, lambda i: [rdot(i[0], i[0]) > 0], mode='real', timeout=tm, bounds='all real v != 0',
                   mutant=lambda i, o: [('m', RGoal('lt', rdot(R(o[0]), i[0]), 1))])
        def ffspec(i, o):
            N, I, Nref = i; d = rdot(Nref, I)
            return [('c%d' % k, REq(o[0][k].r, z3.If(d < 0, N[k], -N[k]))) for k in range(L)]
        S.check_fn(U, 'faceforward' + s, ffspec, mode='real', timeout=tm, bounds='all real vectors',
                   mutant=lambda i, o: [('m', REq(o[0][0].r, z3.If(rdot(i[2], i[1]) <= 0, i[0][0], -i[0][0])))])
        def rfspec(i, o):
            I, N = i; d = rdot(N, I)
            return [('formula%d' % k, REq(o[0][k].r, I[k] - 2 * d * N[k])) for k in range(L)]
        S.check_fn(U, 'reflect' + s, rfspec, mode='real', timeout=tm, bounds='all real vectors',
                   mutant=lambda i, o: [('m', REq(o[0][0].r, i[0][0] - rdot(i[1], i[0]) * i[1][0]))])
        unitN = lambda i: [rdot(i[1], i[1]) == 1]
        S.check_fn(U, 'reflect' + s, lambda i, o: [('length-preserving', REq(rdot(R(o[0]), R(o[0])), rdot(i[0], i[0])))], unitN, mode='real', timeout=tm, name='c12.reflect%s.unitN' % s, bounds='all real I, unit N', side=False)
        S.check_fn(U, 'reflect2' + s, lambda i, o: [('involution%d' % k, REq(o[0][k].r, i[0][k])) for k in range(L)], unitN, mode='real', timeout=tm, bounds='all real I, unit N')
        # refract: Snell's law for unit I, N and eta > 0
        def kk(i): d = rdot(i[1], i[0]); return 1 - i[2][0] * i[2][0] * (1 - d * d)
        pre_t = lambda i: [rdot(i[0], i[0]) == 1, rdot(i[1], i[1]) == 1, i[2][0] > 0, kk(i) >= 0]
        def snell(i, o):
            I, N, eta = i[0], i[1], i[2][0]; r = R(o[0]); rn = rdot(r, N); d = rdot(N, I)
            g = [('tangential%d' % k, REq(r[k] - rn * N[k], eta * (I[k] - d * N[k]))) for k in range(L)]
            g += [('unit', REq(rdot(r, r), 1)), ('into-surface', RGoal('le', rn, 0)), ('normal-part', REq(rn * rn, kk(i)))]
            return g
        S.check_fn(U, 'refract' + s, lambda i, o: [g for g in snell(i, o) if g[0] != 'unit'], pre_t, mode='real', timeout=tm, name='c12.refract%s.transmit' % s, bounds='unit I, unit N, eta > 0, k >= 0',
                   mutant=lambda i, o: [('m', RGoal('ge', rdot(R(o[0]), i[1]), 0))])
        S.check_fn(U, 'refract' + s, lambda i, o: [g for g in snell(i, o) if g[0] == 'unit'], pre_t, mode='real', timeout=S.cap(150, 400), solver='qfnra', name='c12.refract%s.transmit' % s, bounds='unit I, unit N, eta > 0, k >= 0', side=False, witness=False)
        # (k < 0 cannot be examined in real mode: the model's sqrt axiom y*y == k has no real solution; the bit-precise jobs fp_* decide that half)
        # gtx norm
        S.check_fn(U, 'length2' + s, lambda i, o: [('sum-of-squares', REq(o[0][0].r, rdot(i[0], i[0])))], mode='real', timeout=tm, bounds='all real vectors')
        S.check_fn(U, 'distance2' + s, lambda i, o: [('sum-of-squares', REq(o[0][0].r, rdot(rsub(i[0], i[1]), rsub(i[0], i[1]))))], mode='real', timeout=tm, bounds='all real vectors')
        if L >= 2:
            def pspec(i, o):
                x, n = i; p = R(o[0]); q = R(o[1])
                g = [('proj-parallel%d%d' % (a_, b_), REq(p[a_] * n[b_], p[b_] * n[a_])) for a_, b_ in pairs(L)]
                g += [('proj-residual-orthogonal', REq(rdot(rsub(x, p), n), 0)), ('perp-orthogonal', REq(rdot(q, n), 0))]
                g += [('perp-complement-parallel%d%d' % (a_, b_), REq((x[a_] - q[a_]) * n[b_], (x[b_] - q[b_]) * n[a_])) for a_, b_ in pairs(L)]
                g += [('proj+perp%d' % k, REq(p[k] + q[k], x[k])) for k in range(L)]
                return g
            S.check_fn(U, 'proj' + s, pspec, lambda i: [rdot(i[1], i[1]) > 0], mode='real', timeout=tm, bounds='all real x, Normal != 0',
                       mutant=lambda i, o: [('m', REq(rdot(R(o[0]), i[1]), 0))])
    return run

# ------------------------------------------------------------------ scalar genType overloads, rounding-erased
def job_scalar_real(t):
    def run(S):
        tm = S.cap(60, 200); x = lambda i, k=0: i[0][k]
        S.check_fn(U, 's_dot_' + t, lambda i, o: [('product', REq(o[0][0].r, i[0][0] * i[0][1]))], mode='real', timeout=tm, bounds='all reals')
        S.check_fn(U, 's_length_' + t, lambda i, o: [('abs', REq(o[0][0].r, rabs(i[0][0])))], mode='real', timeout=tm, bounds='all reals')
        S.check_fn(U, 's_distance_' + t, lambda i, o: [('abs-difference', REq(o[0][0].r, rabs(i[0][0] - i[0][1])))], mode='real', timeout=tm, bounds='all reals')
        S.check_fn(U, 's_length2_' + t, lambda i, o: [('square', REq(o[0][0].r, i[0][0] * i[0][0]))], mode='real', timeout=tm, bounds='all reals')
        S.check_fn(U, 's_distance2_' + t, lambda i, o: [('square-difference', REq(o[0][0].r, (i[0][0] - i[0][1]) * (i[0][0] - i[0][1])))], mode='real', timeout=tm, bounds='all reals')
        S.check_fn(U, 's_faceforward_' + t, lambda i, o: [('decision', REq(o[0][0].r, z3.If(i[2][0] * i[1][0] < 0, i[0][0], -i[0][0])))], mode='real', timeout=tm, bounds='all reals')
        S.check_fn(U, 's_reflect_' + t, lambda i, o: [('formula', REq(o[0][0].r, i[0][0] - 2 * (i[1][0] * i[0][0]) * i[1][0]))], mode='real', timeout=tm, bounds='all reals')
        def kk(i): d = i[1][0] * i[0][0]; return 1 - i[2][0] * i[2][0] * (1 - d * d)
        # in one dimension unit I, N are +-1, so k = 1 and the refracted ray is -N
        S.check_fn(U, 's_refract_' + t, lambda i, o: [('transmitted', REq(o[0][0].r, -i[1][0]))], lambda i: [i[0][0] * i[0][0] == 1, i[1][0] * i[1][0] == 1, i[2][0] > 0], mode='real', timeout=tm, bounds='I, N in {-1, 1}, eta > 0')
        S.check_fn(U, 's_refract_' + t, lambda i, o: [('formula', REq((o[0][0].r - i[2][0] * i[0][0] + i[2][0] * i[1][0] * i[0][0] * i[1][0]) * (o[0][0].r - i[2][0] * i[0][0] + i[2][0] * i[1][0] * i[0][0] * i[1][0]), kk(i) * i[1][0] * i[1][0])),
                                                      ('root-sign', RGoal('le', (o[0][0].r - i[2][0] * i[0][0] + i[2][0] * i[1][0] * i[0][0] * i[1][0]) * i[1][0], 0))],
                   lambda i: [i[2][0] > 0, kk(i) >= 0], mode='real', timeout=tm, name='c12.s_refract_%s.general' % t, bounds='all real I, N, eta > 0 with k >= 0')
    return run

# ------------------------------------------------------------------ gtx helpers, rounding-erased
ACOS = z3.Real('acos_of_dot_spec')
def acos_link(dotf):
    """acos is a function: every acos(t) evaluated by the code with t == dot(x,y) equals the specification's acos(dot(x,y))"""
    def hyps(res):
        d = dotf(res.ins)
        return [z3.Implies(args[0] == d, var == ACOS) for key, (var, args) in getattr(res.ex, 'trig', {}).items() if key[0] == 'acos']
    return hyps
def acos_of(d):
    import math
    d = z3.simplify(d)
    if z3.is_rational_value(d) or z3.is_algebraic_value(d):
        v = float(z3val_to_fraction(d)); return z3.RealVal(repr(math.acos(max(-1.0, min(1.0, v)))))
    return ACOS
def pow_axioms(res):
    """pow(x,1) = x, pow(x,2) = x*x, pow(x,3) = x*x*x, pow(x,1/n) = non-negative n-th root (x >= 0)"""
    hy = []
    for key, (var, args) in getattr(res.ex, 'trig', {}).items():
        if key[0] != 'pow': continue
        b, e = args; e = z3.simplify(e)
        if not z3.is_rational_value(e): continue
        n, dn = e.numerator_as_long(), e.denominator_as_long()
        if dn == 1 and 1 <= n <= 3:
            p = b
            for _ in range(n - 1): p = p * b
            hy.append(var == p)
        elif n == 1 and 2 <= dn <= 3:
            p = var
            for _ in range(dn - 1): p = p * var
            hy.append(z3.Implies(b >= 0, z3.And(var >= 0, p == b)))
    return hy
def job_angle(t, L):
    s = '_v%d_%s' % (L, t)
    def run(S):
        tm = S.cap(90, 300)
        unit2 = lambda i: [rdot(i[0], i[0]) == 1, rdot(i[1], i[1]) == 1]
        S.check_fn(U, 'angle' + s, lambda i, o: [('acos-of-dot', REq(o[0][0].r, acos_of(rdot(i[0], i[1]))))], unit2, mode='real', timeout=tm, solver='qfnra' if L == 4 else 'z3', extra_hyps=acos_link(lambda i: rdot(i[0], i[1])),
                   bounds='unit x, y; acos only as a function (congruence)', mutant=lambda i, o: [('m', REq(o[0][0].r, acos_of(rdot(i[0], i[0]))))])
    return run
def job_gtx3(t):
    def run(S):
        tm = S.cap(90, 300)
        S.check_fn(U, 's_angle_' + t, lambda i, o: [('acos-of-product', REq(o[0][0].r, acos_of(i[0][0] * i[0][1])))], lambda i: [i[0][0] * i[0][0] == 1, i[0][1] * i[0][1] == 1], mode='real', timeout=tm,
                   extra_hyps=acos_link(lambda i: i[0][0] * i[0][1]), bounds='x, y in {-1, 1}')
        unit2 = lambda i: [rdot(i[0], i[0]) == 1, rdot(i[1], i[1]) == 1]
        def oa2(i, o):
            x, y = i[0], i[1]; A = acos_of(rdot(x, y)); cr = x[0] * y[1] - x[1] * y[0]
            return [('signed-acos', REq(o[0][0].r, z3.If(cr > 0, A, -A)))]
        S.check_fn(U, 'oangle2_' + t, oa2, unit2, mode='real', timeout=tm, extra_hyps=acos_link(lambda i: rdot(i[0], i[1])), bounds='unit x, y in the plane; counter-clockwise positive',
                   mutant=lambda i, o: [('m', REq(o[0][0].r, z3.If(i[0][0] * i[1][1] - i[0][1] * i[1][0] < 0, acos_of(rdot(i[0], i[1])), -acos_of(rdot(i[0], i[1])))))])
        def oa3(i, o):
            x, y, ref = i; A = acos_of(rdot(x, y)); sgn = rdot(ref, rcross(x, y))
            return [('signed-acos', REq(o[0][0].r, z3.If(sgn < 0, -A, A)))]
        S.check_fn(U, 'oangle3_' + t, oa3, unit2, mode='real', timeout=tm, extra_hyps=acos_link(lambda i: rdot(i[0], i[1])), bounds='unit x, y; any ref; sign of dot(ref, cross(x,y))')
        # cross, exterior and mixed product
        def cspec(i, o):
            a_, b_ = i; c_ = R(o[0]); c2 = R(o[1]); dt = rcross(a_, b_)
            return [('orthogonal-to-x', REq(rdot(c_, a_), 0)), ('orthogonal-to-y', REq(rdot(c_, b_), 0))] + [('anti-commutative%d' % k, REq(c_[k], -c2[k])) for k in range(3)] + [('determinant%d' % k, REq(c_[k], dt[k])) for k in range(3)]
        S.check_fn(U, 'cross_' + t, cspec, mode='real', timeout=tm, bounds='all real vectors', mutant=lambda i, o: [('m', REq(o[0][1].r, i[0][0] * i[1][2] - i[0][2] * i[1][0]))])
        S.check_fn(U, 'cross2_' + t, lambda i, o: [('determinant', REq(o[0][0].r, i[0][0] * i[1][1] - i[0][1] * i[1][0])), ('anti-commutative', REq(o[0][0].r, -o[0][1].r))], mode='real', timeout=tm, bounds='all real vectors')
        S.check_fn(U, 'mixed_' + t, lambda i, o: [('determinant', REq(o[0][0].r, rdet3(i[0], i[1], i[2]))), ('cyclic', REq(o[0][0].r, rdot(i[0], rcross(i[1], i[2]))))], mode='real', timeout=tm, bounds='all real vectors',
                   mutant=lambda i, o: [('m', REq(o[0][0].r, rdet3(i[1], i[0], i[2])))])
        # norms
        def nspec(i, o):
            a_, b_ = i; d = rsub(b_, a_); r = R(o[0])
            return [('l1-between', REq(r[0], sum(rabs(x) for x in d))), ('l1', REq(r[1], sum(rabs(x) for x in a_))),
                    ('l2-between-nonneg', RGoal('ge', r[2], 0)), ('l2-between-square', REq(r[2] * r[2], rdot(d, d))), ('l2-nonneg', RGoal('ge', r[3], 0)), ('l2-square', REq(r[3] * r[3], rdot(a_, a_))),
                    ('lmax-between', REq(r[4], rmax([rabs(x) for x in d]))), ('lmax', REq(r[5], rmax([rabs(x) for x in a_])))]
        S.check_fn(U, 'norms_' + t, nspec, mode='real', timeout=tm, bounds='all real vec3', mutant=lambda i, o: [('m', REq(o[0][5].r, rmax([rabs(x) for x in i[0][:2]])))])
        for n in (1, 2, 3):
            def lx(i, o, n=n):
                a_, b_ = i[0], i[1]; r = R(o[0]); pw = lambda x: x if n == 1 else (x * x if n == 2 else x * x * x)
                return [('between-nonneg', RGoal('ge', r[0], 0)), ('between-power', REq(pw(r[0]), sum(pw(rabs(q - p)) for p, q in zip(a_, b_)))), ('nonneg', RGoal('ge', r[1], 0)), ('power', REq(pw(r[1]), sum(pw(rabs(p)) for p in a_)))]
            ins = [[z3.Real('a%d' % k) for k in range(3)], [z3.Real('b%d' % k) for k in range(3)], [z3.BitVecVal(n, 32)]]
            S.check_fn(U, 'lxnorm_' + t, lx, mode='real', timeout=tm, ins=ins, extra_hyps=pow_axioms, name='c12.lxnorm_%s.depth%d' % (t, n), bounds='all real vec3, Depth = %d' % n, mandatory=(n < 3))
        # orthonormalize(x, y): unit y
        def ov(i, o):
            x, y = i; r = R(o[0])
            return [('unit', REq(rdot(r, r), 1)), ('orthogonal-to-y', REq(rdot(r, y), 0)), ('in-span', REq(rdet3(x, y, r), 0)), ('towards-x', RGoal('gt', rdot(r, x), 0))]
        S.check_fn(U, 'ortho_v3_' + t, ov, lambda i: [rdot(i[1], i[1]) == 1, rdot(rcross(i[0], i[1]), rcross(i[0], i[1])) > 0], mode='real', timeout=tm, bounds='unit y, x not parallel to y')
        # triangleNormal
        def tn(i, o):
            p1, p2, p3 = i; r = R(o[0]); e1 = rsub(p2, p1); e2 = rsub(p3, p1)
            return [('unit', REq(rdot(r, r), 1)), ('orthogonal-to-edge12', REq(rdot(r, e1), 0)), ('orthogonal-to-edge13', REq(rdot(r, e2), 0)), ('right-handed', RGoal('gt', rdot(r, rcross(e1, e2)), 0))]
        S.check_fn(U, 'trinormal_' + t, tn, lambda i: [rdot(rcross(rsub(i[1], i[0]), rsub(i[2], i[0])), rcross(rsub(i[1], i[0]), rsub(i[2], i[0]))) > 0], mode='real', timeout=tm, bounds='non-degenerate triangles')
        # closestPointOnLine = a + clamp(dot(p-a, b-a)/|b-a|^2, 0, 1) (b-a)
        for nm, L in (('closest3_', 3), ('closest2_', 2)):
            def cp(i, o, L=L):
                p, a_, b_ = i; ab = rsub(b_, a_); tt = rdot(rsub(p, a_), ab) / rdot(ab, ab); tc = z3.If(tt <= 0, z3.RealVal(0), z3.If(tt >= 1, z3.RealVal(1), tt))
                return [('clamped-projection%d' % k, REq(o[0][k].r, a_[k] + tc * ab[k])) for k in range(L)]
            S.check_fn(U, nm + t, cp, lambda i: [rdot(rsub(i[2], i[1]), rsub(i[2], i[1])) > 0], mode='real', timeout=tm, bounds='all real point, a != b',
                       mutant=lambda i, o: [('m', REq(o[0][0].r, i[1][0] + (rdot(rsub(i[0], i[1]), rsub(i[2], i[1])) / rdot(rsub(i[2], i[1]), rsub(i[2], i[1]))) * (i[2][0] - i[1][0])))])
    return run
def job_ortho_m3(t):
    def run(S):
        tm = S.cap(150, 400)
        def om(i, o):
            m = [i[0][0:3], i[0][3:6], i[0][6:9]]; r = [R(o[0][0:3]), R(o[0][3:6]), R(o[0][6:9])]
            g = [('unit%d' % k, REq(rdot(r[k], r[k]), 1)) for k in range(3)] + [('orthogonal%d%d' % (p, q), REq(rdot(r[p], r[q]), 0)) for p, q in pairs(3)]
            g += [('col0-parallel%d%d' % (p, q), REq(r[0][p] * m[0][q], r[0][q] * m[0][p])) for p, q in pairs(3)] + [('col0-direction', RGoal('gt', rdot(r[0], m[0]), 0))]
            g += [('col1-in-span', REq(rdet3(m[0], m[1], r[1]), 0)), ('col1-direction', RGoal('gt', rdot(r[1], m[1]), 0)), ('col2-direction', RGoal('gt', rdot(r[2], m[2]), 0))]
            return g
        S.check_fn(U, 'ortho_m3_' + t, om, lambda i: [rdet3(i[0][0:3], i[0][3:6], i[0][6:9]) != 0], mode='real', timeout=tm, solver='qfnra', bounds='all real matrices with linearly independent columns', mandatory=False)
    return run

# ------------------------------------------------------------------ bit-precise decisions of refract / faceforward
def fdot(x, y):
    """IEEE dot product of two lists of FP terms: products summed left to right, vec4 pairwise"""
    p = [z3.fpMul(RNE, a_, b_) for a_, b_ in zip(x, y)]
    if len(p) == 4: return z3.fpAdd(RNE, z3.fpAdd(RNE, p[0], p[1]), z3.fpAdd(RNE, p[2], p[3]))
    r = p[0]
    for q in p[1:]: r = z3.fpAdd(RNE, r, q)
    return r
def fk(i, w):
    """k = 1 - eta*eta*(1 - dot(N,I)*dot(N,I)) evaluated operation by operation in IEEE; returns (k, d)"""
    I = [fpof(x) for x in i[0]]; N = [fpof(x) for x in i[1]]; eta = fpof(i[2][0]); one = FPV(1.0, w)
    d = fdot(N, I)
    return z3.fpSub(RNE, one, z3.fpMul(RNE, z3.fpMul(RNE, eta, eta), z3.fpSub(RNE, one, z3.fpMul(RNE, d, d)))), d
def val_eq(x, y): return z3.Or(z3.fpEQ(x, y), z3.And(z3.fpIsNaN(x), z3.fpIsNaN(y)))
def _is_const(t, v):
    return z3.is_fp_value(t) and not t.isNaN() and not t.isInf() and not t.isNegative() and z3.is_true(z3.simplify(z3.fpEQ(t, z3.FPVal(v, t.sort()))))
def _facts(c, val):
    """sub-formulas whose truth value follows from c == val (one level of and/or/not)"""
    out = [(c, z3.BoolVal(val))]
    if z3.is_not(c): out += _facts(c.arg(0), not val)
    elif (z3.is_and(c) and val) or (z3.is_or(c) and not val):
        for x in c.children(): out += _facts(x, val)
    return out
def concrete(i): return all(z3.is_bv_value(x) or z3.is_rational_value(x) for row in i for x in row)
def canon(e, abstract_sqrt=True):
    """Normal form of a formula over IEEE terms so that the compiled code and the transcribed formula meet syntactically (bit-blasting
    two commuted 53-bit multipliers against each other does not finish).  Every rewrite is an exact IEEE identity (proved as the
    'ieee-lemma' obligations below) except the last one, which is a sound over-approximation for proving:
      fp.mul/fp.add operands sorted (commutativity);  x < y  ->  not NaN x, not NaN y, not (y <= x);  uitofp(c ? 1 : 0) -> c ? 1.0 : 0.0;
      x * (c ? 1.0 : 0.0) -> c ? x : x * 0.0;  to_fp(to_ieee_bv(x)) -> x (z3 has a single NaN);  (c ? A : B) -> (c ? A[c:=true] : B[c:=false]);  sqrt(t) -> (t < 0 ? NaN : fresh constant keyed by t)   [skipped when replaying concrete values]"""
    memo = {}
    def go(t):
        k = t.get_id()
        if k in memo: return memo[k][1]
        r = None
        if z3.is_app(t) and t.num_args() > 0:
            ch = [go(c_) for c_ in t.children()]; dk = t.decl().kind()
            if dk == z3.Z3_OP_FPA_TO_FP_UNSIGNED and len(ch) == 2 and z3.is_app(ch[1]) and ch[1].decl().kind() == z3.Z3_OP_ITE and all(z3.is_bv_value(ch[1].arg(n_)) and ch[1].arg(n_).as_long() <= 1 for n_ in (1, 2)):
                r = z3.If(ch[1].arg(0), z3.FPVal(float(ch[1].arg(1).as_long()), t.sort()), z3.FPVal(float(ch[1].arg(2).as_long()), t.sort()))
            elif dk == z3.Z3_OP_FPA_TO_FP and len(ch) == 1 and z3.is_app(ch[0]) and ch[0].decl().kind() == z3.Z3_OP_FPA_TO_IEEE_BV and ch[0].arg(0).sort() == t.sort():
                r = ch[0].arg(0)
            elif dk == z3.Z3_OP_ITE:
                r = z3.If(ch[0], z3.substitute(ch[1], *_facts(ch[0], True)), z3.substitute(ch[2], *_facts(ch[0], False)))
            elif dk == z3.Z3_OP_IMPLIES:
                r = z3.Implies(ch[0], z3.substitute(ch[1], *_facts(ch[0], True)))
            elif dk == z3.Z3_OP_FPA_MUL:
                for x, y in ((ch[1], ch[2]), (ch[2], ch[1])):
                    if z3.is_app(y) and y.decl().kind() == z3.Z3_OP_ITE and _is_const(y.arg(1), 1.0) and _is_const(y.arg(2), 0.0):
                        r = z3.If(y.arg(0), x, go(z3.fpMul(ch[0], x, y.arg(2)))); break
            elif dk == z3.Z3_OP_FPA_LT:
                r = z3.And(z3.Not(go(z3.fpIsNaN(ch[0]))), z3.Not(go(z3.fpIsNaN(ch[1]))), z3.Not(go(z3.fpLEQ(ch[1], ch[0]))))
            elif dk == z3.Z3_OP_FPA_GT:
                r = z3.And(z3.Not(go(z3.fpIsNaN(ch[0]))), z3.Not(go(z3.fpIsNaN(ch[1]))), z3.Not(go(z3.fpLEQ(ch[0], ch[1]))))
            elif dk == z3.Z3_OP_FPA_GE: r = go(z3.fpLEQ(ch[1], ch[0]))
            elif dk == z3.Z3_OP_FPA_SQRT and abstract_sqrt:
                srt = ch[1].sort()
                r = z3.If(go(z3.fpLT(ch[1], z3.FPVal(0.0, srt))), z3.fpNaN(srt), z3.Const('sqrt_of_%d' % ch[1].get_id(), srt))
            if r is None:
                if dk in (z3.Z3_OP_FPA_MUL, z3.Z3_OP_FPA_ADD) and ch[1].get_id() > ch[2].get_id(): ch = [ch[0], ch[2], ch[1]]
                r = t.decl()(*ch)
        else: r = t
        memo[k] = (t, r); return r      # keep t alive: ids of collected temporaries are reused
    return z3.simplify(go(z3.simplify(e)))
def job_lemmas(S):
    """the IEEE identities canon() relies on, all bit patterns"""
    for t, (c, w) in FT.items():
        x = z3.BitVec('x', w); y = z3.BitVec('y', w); X, Y = fpof(x), fpof(y); one = FPV(1.0, w); z = FPV(0.0, w); tm = S.cap(120, 300)
        S.prove('c12.ieee-lemma.%s.mul-one' % t, val_eq(z3.fpMul(RNE, X, one), X), timeout=tm, kind='lemma', bounds='all x')
        S.prove('c12.ieee-lemma.%s.lt-as-not-leq' % t, z3.fpLT(X, Y) == z3.And(z3.Not(z3.fpIsNaN(X)), z3.Not(z3.fpIsNaN(Y)), z3.Not(z3.fpLEQ(Y, X))), timeout=tm, kind='lemma', bounds='all x, y')
        S.prove('c12.ieee-lemma.%s.sqrt-negative-is-nan' % t, z3.Implies(z3.fpLT(X, z), z3.fpIsNaN(z3.fpSqrt(RNE, X))), timeout=tm, kind='lemma', bounds='all x', mandatory=(w == 32))
REGIONS = {'tir': lambda res, k: canon(z3.fpLT(fk(res.ins, res.ins[0][0].size())[0], FPV(0.0, res.ins[0][0].size())))}
def knan(w): return lambda i: [canon(z3.Not(z3.fpIsNaN(fk(i, w)[0])))]
def refract_fp_spec(L, w, split):
    """'==' on FP terms is SMT-LIB '=': identical value, +0 and -0 distinct, all NaNs identified (i.e. bit-identical or both NaN).
    split=False: one atom per component  out == (k < 0 ? +0 : eta*I - (eta*dot(N,I) + sqrt(k))*N);
    split=True: the two halves as separate labels (needed where a known finding covers only the k < 0 half)"""
    def spec(i, o):
        I = [fpof(x) for x in i[0]]; N = [fpof(x) for x in i[1]]; eta = fpof(i[2][0]); zero = FPV(0.0, w); ab = not concrete(i)
        k, d = fk(i, w); c = z3.fpAdd(RNE, z3.fpMul(RNE, eta, d), z3.fpSqrt(RNE, k)); g = []
        for j in range(L):
            f = z3.fpSub(RNE, z3.fpMul(RNE, eta, I[j]), z3.fpMul(RNE, c, N[j]))
            g.append(('zero-on-total-reflection%d' % j, canon(z3.Implies(z3.fpLT(k, zero), fpv_of(o[0][j]) == zero), ab)))
            if split: g.append(('formula-otherwise%d' % j, canon(z3.Implies(z3.fpGEQ(k, zero), fpv_of(o[0][j]) == f), ab)))
            else: g.append(('glsl-definition%d' % j, canon(fpv_of(o[0][j]) == z3.If(z3.fpLT(k, zero), zero, f), ab)))
        return g
    return spec
def faceforward_fp_spec(L, w):
    def spec(i, o):
        N = i[0]; d = fdot([fpof(x) for x in i[2]], [fpof(x) for x in i[1]])
        return [('decision%d' % j, canon(z3.If(z3.fpLT(d, FPV(0.0, w)), fpv_of(o[0][j]) == fpof(N[j]), val_eq(fpv_of(o[0][j]), z3.fpNeg(fpof(N[j])))))) for j in range(L)]
    return spec
def signflip_spec(L, w):
    def spec(i, o):
        d = fdot([fpof(x) for x in i[2]], [fpof(x) for x in i[1]])
        return [('sign-flip%d' % j, canon(z3.Implies(z3.Not(z3.fpLT(d, FPV(0.0, w))), fpv_of(o[0][j]) == z3.fpNeg(fpof(i[0][j]))))) for j in range(L)]
    return spec
def job_fp(t, L):
    c, w = FT[t]; s = '_v%d_%s' % (L, t)
    def run(S):
        tm = S.cap(90, 300); sv = 'cvc5' if w == 64 else 'z3'      # z3 does not find models of double-precision product chains; cvc5 does
        res = S.check_fn(U, 'refract' + s, refract_fp_spec(L, w, False), knan(w), timeout=tm, solver=sv, witness=(w == 32), name='c12.refract%s.fp' % s, bounds='all bit patterns of I, N, eta for which the documented k is not NaN',
                         mutant=lambda i, o: [('m', z3.Implies(z3.fpLEQ(fk(i, w)[0], FPV(0.0, w)), fpv_of(o[0][0]) == FPV(0.0, w)))])
        if w == 64 and res is not None:
            S.prove('c12.refract%s.fp.witness' % s, z3.BoolVal(False), knan(w)(res.ins), timeout=S.cap(30, 60), solver='cvc5', kind='witness', expect='sat', mandatory=False, vars_=[x for r_ in res.ins for x in r_])
        S.check_fn(U, 'faceforward' + s, faceforward_fp_spec(L, w), timeout=tm, solver=sv, name='c12.faceforward%s.fp' % s, bounds='all bit patterns (NaN, inf, +-0 included)',
                   mutant=lambda i, o: [('m', z3.If(z3.fpLEQ(fdot([fpof(x) for x in i[2]], [fpof(x) for x in i[1]]), FPV(0.0, w)), fpv_of(o[0][0]) == fpof(i[0][0]), val_eq(fpv_of(o[0][0]), z3.fpNeg(fpof(i[0][0])))))])
        if L <= 2:   # vec1/vec2 unary minus is a pure sign-bit flip (vec3/vec4 compute 0 - v: value-equal, sign of a zero component differs -> C01)
            S.check_fn(U, 'faceforward' + s, signflip_spec(L, w), timeout=tm, solver=sv, name='c12.faceforward%s.fp-signflip' % s, side=False, witness=False, validate=0, bounds='all bit patterns (NaN payloads not compared)')
    return run
def job_fp_scalar(t):
    c, w = FT[t]
    def run(S):
        tm = S.cap(90, 300)
        S.check_fn(U, 's_refract_' + t, refract_fp_spec(1, w, True), knan(w), timeout=tm, solver='cvc5', name='c12.s_refract_%s.fp' % t, known=['KF-C12-scalar-refract-nan'], bounds='all bit patterns for which the documented k is not NaN')
        S.check_fn(U, 's_faceforward_' + t, faceforward_fp_spec(1, w), timeout=tm, name='c12.s_faceforward_%s.fp' % t, bounds='all bit patterns')
        S.check_fn(U, 's_faceforward_' + t, signflip_spec(1, w), timeout=tm, name='c12.s_faceforward_%s.fp-signflip' % t, side=False, witness=False, validate=0, bounds='all bit patterns (NaN payloads not compared)')
        # scalar and vec1 overloads take the same decision on the same values
        for f, hyp in (('faceforward', lambda i: []), ('refract', lambda i: knan(w)(i) + [canon(z3.fpGEQ(fk(i, w)[0], FPV(0.0, w)))])):
            ins = mkvars(U.fns['s_%s_%s' % (f, t)])
            r1 = sym_call(U, 's_%s_%s' % (f, t), ins=ins); r2 = sym_call(U, '%s_v1_%s' % (f, t), ins=ins)
            S.prove('c12.%s_%s.scalar-vs-vec1' % (f, t), canon(same_float(r1.outs[0][0], r2.outs[0][0])), hyp(ins) + r1.axioms + r2.axioms, timeout=tm,
                    functions=['s_%s_%s' % (f, t), '%s_v1_%s' % (f, t)], bounds='all bit patterns' + ('' if f == 'faceforward' else ' with k >= 0 (k < 0: see KF-C12-scalar-refract-nan)'))
        def rspec(i, o):
            I, N = fpof(i[0][0]), fpof(i[1][0])
            return [('formula', canon(same_float(o[0][0], z3.fpToIEEEBV(z3.fpSub(RNE, I, z3.fpMul(RNE, z3.fpMul(RNE, N, z3.fpMul(RNE, N, I)), FPV(2.0, w)))))))]
        S.check_fn(U, 's_reflect_' + t, rspec, timeout=tm, name='c12.s_reflect_%s.fp' % t, bounds='all bit patterns; I - N*dot(N,I)*2 evaluated in IEEE')
    return run

def jobs(tier):
    q = tier == 'quick'; J = []
    for t in FT:
        for L in (1, 2, 3, 4):
            J.append(('core_real_v%d_%s' % (L, t), job_core_real(t, L)))
            J.append(('fp_v%d_%s' % (L, t), job_fp(t, L)))
            J.append(('angle_v%d_%s' % (L, t), job_angle(t, L)))
        J += [('scalar_real_' + t, job_scalar_real(t)), ('gtx_' + t, job_gtx3(t)), ('ortho_m3_' + t, job_ortho_m3(t))]
        J.append(('fp_scalar_' + t, job_fp_scalar(t)))
    J.append(('ieee_lemmas', job_lemmas))
    return J
