"""C12 - geometric functions satisfy Euclidean identities on vec1..4 (detail/func_geometric.inl and the gtx norm / projection /
perpendicular / orthonormalize / vector_angle / closest_point / normal / exterior_product / mixed_product helpers)."""
from props.common import *
LEVEL = 'proof'
CLAIM = ("dot, length, distance, cross, normalize, faceforward, reflect, refract (vec1-4 and the scalar genType overloads, float and double) and the gtx helpers length2, distance2, "
         "l1Norm, l2Norm, lMaxNorm, lxNorm, proj, perp, orthonormalize, angle, orientedAngle, closestPointOnLine, triangleNormal, cross(vec2), mixedProduct are executed symbolically from "
         "their clang IR. In rounding-erased (real) semantics the solver shows the Euclidean identities of the property for every input vector (sum of products, non-negative root of the "
         "squared norm, orthogonality / anti-commutativity / determinant formula of cross, unit positive multiple, reflection formula with involution and length preservation for unit N, "
         "Snell's law for unit I, N and the GLSL formula eta I - (eta N.I + sqrt k) N for arbitrary I, N with k >= 0, Gram-Schmidt characterisation of orthonormalize(x, y) and orthonormalize(mat3) (orthonormal columns spanning the same flag with the same orientation, for "
         "every matrix with det != 0), clamped-projection definition of closestPointOnLine, cos(angle) = dot for unit vectors). The harder identities (orthonormalize, triangleNormal, |refract| = 1, "
         "Cauchy-Schwarz for angle) are proved as chains of small lemmas over one symbolic execution, each step a separate solver query, some after generalising sub-terms to fresh reals. In bit-precise "
         "IEEE semantics it shows that refract returns the all-zero bit pattern whenever k = 1 - eta*eta*(1 - dot(N,I)^2) < 0 and the GLSL formula otherwise (k = 0 included), that faceforward returns N "
         "bit-for-bit when dot(Nref,I) < 0 and N with flipped sign bits otherwise (dot = +-0, NaN included), identically in the vec1 and scalar overloads, and that angle / orientedAngle hand acos an "
         "argument in [-1, 1] (or NaN when the dot product is NaN) for every input, so that unit vectors whose dot product rounds above 1 cannot produce NaN.")
BOUNDS = ("real mode: all real inputs satisfying the stated non-degeneracy precondition of each obligation (v != 0, unit N, eta > 0, linearly independent columns ...), L = 1..4, float and double "
          "instantiations; fp mode: all 2^32 / 2^64 bit patterns per component (refract: inputs for which the documented k is not NaN); lxNorm: Depth in {1, 2, 3, 4} only")
OUTSIDE = ("magnitude of floating-point rounding error in any identity (orthogonality of cross under cancellation is decided in the rounding-erased sense only); overflow/underflow of squared norms themselves; overflow of intermediates is decided (no-overflow obligations: every add/sub/mul/div node below the overflow threshold for squared norms in [2^-100, 2^100] resp. [2^-900, 2^900]) only for proj/perp (vec2), normalize, cross, length2, dot (L <= 2), distance2 (L <= 2), faceforward (L <= 2) and their scalar overloads - sums of three or more products need Cauchy-Schwarz over large constants, which nlsat does not finish, and reflect/refract exceed the threshold for non-unit N; "
           "lxNorm for Depth > 4 and the numerical accuracy of pow/acos; the value of angle() beyond cos(angle) = dot and 0 <= angle <= pi; refract on total internal reflection in real mode (sqrt of a "
           "negative has no real model: that half is decided bit-precisely); the sign of zero components of -N in faceforward for vec3/vec4 (0 - v, C01); aligned/SIMD qualifiers (C03). "
           "Optional (attempted, not part of the claim): the ieee-lemma.*.sqrt-facts lemmas, which only shape counterexamples, and the steps of a lemma chain that do not go through (the goals they serve are then "
           "decided by their direct queries)")
ASSUMPTIONS = ['real mode erases rounding: every fadd/fsub/fmul/fdiv is exact, sqrt(x) is the non-negative real root (engine/models.py:rcall)',
               'acos is specified by cos(acos(t)) = t and 0 <= acos(t) <= pi for -1 <= t <= 1 (cos an uninterpreted even function at the specification level, pi a real in (3.14159, 3.1416))',
               'pow(x,n) = x*..*x for n = 1..4, pow(x,1/n) = the non-negative n-th root for x >= 0 (used for lxNorm only)',
               'libm acos returns NaN exactly for arguments outside [-1, 1] (used only to evaluate the angle obligations on natively replayed values; the proved statement is about the argument handed to acos)',
               'fp mode: "dot(N,I)" is read as the IEEE evaluation of the component products summed left to right ((x+y)+z; (x+y)+(z+w) for vec4), k and the result as the GLSL formula evaluated operation by operation in IEEE double/float']
FT = {'f32': ('float', 32), 'f64': ('double', 64)}
U = Unit('c12', includes=['glm/glm.hpp', 'glm/gtx/norm.hpp', 'glm/gtx/projection.hpp', 'glm/gtx/perpendicular.hpp', 'glm/gtx/orthonormalize.hpp', 'glm/gtx/vector_angle.hpp',
                          'glm/gtx/closest_point.hpp', 'glm/gtx/normal.hpp', 'glm/gtx/exterior_product.hpp', 'glm/gtx/mixed_product.hpp'])
for t, (c, w) in FT.items():
    for L in (1, 2, 3, 4):
        V = lambda p, L=L, c=c: 'ldv<%d,%s>(%s)' % (L, c, p)
        s = '_v%d_%s' % (L, t)
        U.add('dot' + s, [(c, L), (c, L)], [(c, 1)], 'o[0] = glm::dot(%s, %s);' % (V('a'), V('b')))
        U.add('length' + s, [(c, L)], [(c, 1)], 'o[0] = glm::length(%s);' % V('a'))
        U.add('distance' + s, [(c, L), (c, L)], [(c, 2)], 'o[0] = glm::distance(%s, %s); o[1] = glm::length(%s - %s);' % (V('a'), V('b'), V('a'), V('b')))
        U.add('normalize' + s, [(c, L)], [(c, L)], 'stv(o, glm::normalize(%s));' % V('a'))
        U.add('faceforward' + s, [(c, L), (c, L), (c, L)], [(c, L)], 'stv(o, glm::faceforward(%s, %s, %s));' % (V('a'), V('b'), V('c')))
        U.add('reflect' + s, [(c, L), (c, L)], [(c, L)], 'stv(o, glm::reflect(%s, %s));' % (V('a'), V('b')))
        U.add('reflect2' + s, [(c, L), (c, L)], [(c, L)], 'stv(o, glm::reflect(glm::reflect(%s, %s), %s));' % (V('a'), V('b'), V('b')))
        U.add('refract' + s, [(c, L), (c, L), (c, 1)], [(c, L)], 'stv(o, glm::refract(%s, %s, c[0]));' % (V('a'), V('b')))
        U.add('length2' + s, [(c, L)], [(c, 1)], 'o[0] = glm::length2(%s);' % V('a'))
        U.add('distance2' + s, [(c, L), (c, L)], [(c, 1)], 'o[0] = glm::distance2(%s, %s);' % (V('a'), V('b')))
        U.add('angle' + s, [(c, L), (c, L)], [(c, 1)], 'o[0] = glm::angle(%s, %s);' % (V('a'), V('b')))
        if L >= 2:
            U.add('proj' + s, [(c, L), (c, L)], [(c, L), (c, L)], 'stv(o, glm::proj(%s, %s)); stv(o2, glm::perp(%s, %s));' % (V('a'), V('b'), V('a'), V('b')))
    # scalar genType overloads
    U.add('s_dot_' + t, [(c, 2)], [(c, 1)], 'o[0] = glm::dot(a[0], a[1]);')
    U.add('s_length_' + t, [(c, 1)], [(c, 1)], 'o[0] = glm::length(a[0]);')
    U.add('s_distance_' + t, [(c, 2)], [(c, 1)], 'o[0] = glm::distance(a[0], a[1]);')
    U.add('s_faceforward_' + t, [(c, 1), (c, 1), (c, 1)], [(c, 1)], 'o[0] = glm::faceforward(a[0], b[0], c[0]);')
    U.add('s_reflect_' + t, [(c, 1), (c, 1)], [(c, 1)], 'o[0] = glm::reflect(a[0], b[0]);')
    U.add('s_refract_' + t, [(c, 1), (c, 1), (c, 1)], [(c, 1)], 'o[0] = glm::refract(a[0], b[0], c[0]);')
    U.add('s_length2_' + t, [(c, 1)], [(c, 1)], 'o[0] = glm::length2(a[0]);')
    U.add('s_distance2_' + t, [(c, 2)], [(c, 1)], 'o[0] = glm::distance2(a[0], a[1]);')
    U.add('s_angle_' + t, [(c, 2)], [(c, 1)], 'o[0] = glm::angle(a[0], a[1]);')
    V3 = lambda p, c=c: 'ldv<3,%s>(%s)' % (c, p)
    V2 = lambda p, c=c: 'ldv<2,%s>(%s)' % (c, p)
    U.add('cross_' + t, [(c, 3), (c, 3)], [(c, 3), (c, 3)], 'stv(o, glm::cross(%s, %s)); stv(o2, glm::cross(%s, %s));' % (V3('a'), V3('b'), V3('b'), V3('a')))
    U.add('cross2_' + t, [(c, 2), (c, 2)], [(c, 2)], 'o[0] = glm::cross(%s, %s); o[1] = glm::cross(%s, %s);' % (V2('a'), V2('b'), V2('b'), V2('a')))
    U.add('mixed_' + t, [(c, 3), (c, 3), (c, 3)], [(c, 1)], 'o[0] = glm::mixedProduct(%s, %s, %s);' % (V3('a'), V3('b'), V3('c')))
    U.add('norms_' + t, [(c, 3), (c, 3)], [(c, 6)], 'o[0] = glm::l1Norm(%s, %s); o[1] = glm::l1Norm(%s); o[2] = glm::l2Norm(%s, %s); o[3] = glm::l2Norm(%s); o[4] = glm::lMaxNorm(%s, %s); o[5] = glm::lMaxNorm(%s);'
          % (V3('a'), V3('b'), V3('a'), V3('a'), V3('b'), V3('a'), V3('a'), V3('b'), V3('a')))
    U.add('lxnorm_' + t, [(c, 3), (c, 3), ('uint32_t', 1)], [(c, 2)], 'o[0] = glm::lxNorm(%s, %s, c[0]); o[1] = glm::lxNorm(%s, c[0]);' % (V3('a'), V3('b'), V3('a')))
    U.add('ortho_m3_' + t, [(c, 9)], [(c, 9)], 'stm(o, glm::orthonormalize(ldm<3,3,%s>(a)));' % c)
    U.add('ortho_v3_' + t, [(c, 3), (c, 3)], [(c, 3)], 'stv(o, glm::orthonormalize(%s, %s));' % (V3('a'), V3('b')))
    U.add('oangle2_' + t, [(c, 2), (c, 2)], [(c, 1)], 'o[0] = glm::orientedAngle(%s, %s);' % (V2('a'), V2('b')))
    U.add('oangle3_' + t, [(c, 3), (c, 3), (c, 3)], [(c, 1)], 'o[0] = glm::orientedAngle(%s, %s, %s);' % (V3('a'), V3('b'), V3('c')))
    U.add('closest3_' + t, [(c, 3), (c, 3), (c, 3)], [(c, 3)], 'stv(o, glm::closestPointOnLine(%s, %s, %s));' % (V3('a'), V3('b'), V3('c')))
    U.add('closest2_' + t, [(c, 2), (c, 2), (c, 2)], [(c, 2)], 'stv(o, glm::closestPointOnLine(%s, %s, %s));' % (V2('a'), V2('b'), V2('c')))
    U.add('trinormal_' + t, [(c, 3), (c, 3), (c, 3)], [(c, 3)], 'stv(o, glm::triangleNormal(%s, %s, %s));' % (V3('a'), V3('b'), V3('c')))
def units(tier): return [U]

# ------------------------------------------------------------------ specification helpers (reals)
def pin_hyps(S, name, ins):
    """./check C12 --replay <file>: the inputs of the named check are fixed to the recorded counterexample"""
    hy = []
    for terms, vals in zip(ins, S.pins.get(name) or []):
        for t, v in zip(terms, vals): hy.append(t == bv(int(v, 16), t.size()) if z3.is_bv(t) else t == z3.RealVal(v))
    return hy
def rdot(x, y): return sum((p * q for p, q in zip(x[1:], y[1:])), x[0] * y[0])
def rsub(x, y): return [p - q for p, q in zip(x, y)]
def rabs(x): return z3.If(x >= 0, x, -x)
def rmax(xs):
    m = xs[0]
    for x in xs[1:]: m = z3.If(x > m, x, m)
    return m
def rcross(a, b): return [a[1] * b[2] - a[2] * b[1], a[2] * b[0] - a[0] * b[2], a[0] * b[1] - a[1] * b[0]]
def rdet3(a, b, c):
    return a[0] * b[1] * c[2] + a[1] * b[2] * c[0] + a[2] * b[0] * c[1] - a[2] * b[1] * c[0] - a[1] * b[0] * c[2] - a[0] * b[2] * c[1]
def R(o): return [v.r for v in o]
_RGoal = RGoal
def _rv(x): return z3.RealVal(x) if isinstance(x, (int, float)) else x
def RGoal(kind, l, r, guard=None):
    """harness.RGoal with Python numbers coerced to z3 reals (harness.real_replay evaluates both sides with z3.simplify: a bare 0 or 1 made every replay fail)"""
    return _RGoal(kind, _rv(l), _rv(r), guard)
def REq(l, r): return RGoal('eq', l, r)
def pairs(n): return [(i, j) for i in range(n) for j in range(i + 1, n)]

# ------------------------------------------------------------------ lemma chains over one rounding-erased execution
class Chain:
    """Monolithic nlsat queries over 6-9 inputs with square roots are erratic (3 s or > 200 s for the same formula), so the harder identities are
    proved as chains of small steps over ONE symbolic execution of the compiled function.  A step proves a formula over the execution's own
    terms from explicitly listed hypotheses / earlier steps, optionally after GENERALISATION: listed sub-terms are replaced by fresh reals (if the
    generalised implication is valid, so is every instance of it - sound for 'unsat'; a generalised counterexample means nothing and is never reported).
    User-facing goals fall back to the direct query over all hypotheses (with native replay) when the chain does not close, so a defect in the
    code still surfaces as a reproduced VIOLATION."""
    def __init__(s, S, fname, name=None, pre=None, bounds='', mandatory=True, timeout=None, extra_hyps=None, ins=None, witness=True, direct_solver='nra', witness_at=None, slices=()):
        s.S = S; s.slices = list(slices); s.direct_solver = direct_solver; s.fname = fname; s.name = name or 'c12.' + fname; s.prefn = pre; s.mandatory = mandatory; s.tm = timeout or S.cap(60, 200)
        s.fn = U.fns[fname]; s.facts = {}; s.nf = 0
        if getattr(S, 'c12_fail', 0) >= 3: s.tm = min(s.tm, S.cap(20, 60))        # several obligations of this job have already failed: keep the rest short
        try: s.res = sym_call(U, fname, ins=ins, mode='real')
        except Unsupported as e:
            S.rec(name=s.name, kind='encode', result='unsupported', status='not-encoded', note=str(e), mandatory=mandatory, functions=[fname])
            if mandatory: S.inconclusive.append('%s [not encoded: %s]' % (s.name, e))
            s.res = None; return
        p = pre(s.res.ins) if pre else []
        s.pre = list(p) if isinstance(p, (list, tuple)) else [p]
        s.extra = list(extra_hyps(s.res)) if extra_hyps else []
        s.base = input_wellformed(s.fn, s.res.ins) + s.pre + s.extra + s.res.axioms + pin_hyps(S, s.name, s.res.ins)
        s.i = s.res.ins; s.o = s.res.outs; s.sq = list(getattr(s.res.ex, 'sqrt_log', []))
        s.fnlist = ['w_%s -> %s' % (fname, s.fn.body.strip().replace('\n', ' ')[:160])]
        s.binfo = bounds + '; ll=' + U.ll_sha()
        s.vars = [t for row in s.res.ins for t in row]
        if witness and not S.pins: S.prove(s.name + '.witness', z3.BoolVal(False), s.base + (list(witness_at(s.res.ins)) if witness_at else []),       # witness_at: a point at which the hypotheses are satisfiable
                             timeout=S.cap(20, 60), kind='witness', functions=s.fnlist, bounds=s.binfo, expect='sat', mandatory=False)
    def sqrt_ax(s, k):
        """the defining axiom of the k-th executed square root: (argument, variable, [variable >= 0, variable^2 == argument])"""
        A, y = s.sq[k]; ax = z3.And(y >= 0, y * y == A)
        if not any(ax.eq(a_) for a_ in s.res.axioms): return A, y, []     # not the executor's axiom (engine changed): offer no hypothesis, the steps then fail and the direct queries decide
        return A, y, [y >= 0, y * y == A]
    def _gen(s, terms, gen):
        sub = []
        for g in gen:
            s.nf += 1; sub.append((g, z3.Real('gen!%d' % s.nf)))
        out = []
        for t in terms:
            for pr in sub: t = z3.substitute(t, pr)          # sequentially, in the listed order (list enclosing terms first)
            out.append(t)
        return out
    def _hyps(s, use, hyps):
        hy = list(s.base) if isinstance(hyps, str) else list(hyps)          # hyps='base': every hypothesis of the execution (precondition, axioms)
        for u in use:
            if u not in s.facts: return None
            hy.append(s.facts[u])
        return hy
    def lemma(s, label, goal, use=(), hyps=(), gen=(), timeout=None, solver='nra'):
        """intermediate step: proved (possibly generalised) from the listed hypotheses only; becomes available as fact `label`.  A step that does not go through is
        recorded as optional: it is a means, the user-facing goals that needed it are then decided by their direct queries."""
        oname = '%s.lemma.%s' % (s.name, label); hy = s._hyps(use, hyps); r, dt, used = 'skipped', 0.0, '-'
        if hy is not None:
            tt = s._gen(hy + [goal], gen)
            try: r, m, dt, used = s.S.query(tt[:-1] + [z3.Not(tt[-1])], timeout or s.S.cap(20, 60), solver)
            except z3.Z3Exception as e: r, used = 'unknown', '%s error: %s' % (solver, e)
        ok = r == 'unsat'
        s.S.rec(name=oname, kind='lemma', functions=s.fnlist, bounds=s.binfo + ('; generalised over %d sub-terms' % len(gen) if gen else ''), solver=used, result=r, time_s=round(dt, 3),
                status='discharged' if ok else 'not-established', mandatory=ok and s.mandatory, note='' if hy is not None else 'an earlier step of the chain is missing')
        if ok: s.facts[label] = goal
        return ok
    def _final(s, oname, goal, kind, use, hyps, gen, spec_fn, timeout, solver, rgoal=None):
        def done(r, dt, used, how, note=''):
            s.S.rec(name=oname, kind=kind, functions=s.fnlist, bounds=s.binfo + how, solver=used, result=r, time_s=round(dt, 3), status='discharged', mandatory=s.mandatory, note=note)
        hy = s._hyps(use, hyps) if (use or hyps or gen) else None
        if hy is not None:
            tt = s._gen(hy + [goal], gen)
            try: r, m, dt, used = s.S.query(tt[:-1] + [z3.Not(tt[-1])], timeout or s.S.cap(20, 60), solver)
            except z3.Z3Exception: r, dt, used = 'unknown', 0.0, solver
            if r == 'unsat': done(r, dt, used, '; via lemma chain' + (' generalised over %d sub-terms' % len(gen) if gen else ''), 'uses ' + ','.join(use)); return True
        # The chain did not close (or there is none).  Counterexamples are searched ROBUSTLY: bounded inputs, no division by zero / sqrt of a negative on the way (x/0 is
        # uninterpreted in the model and NaN natively), the atom violated by a margin - nlsat otherwise returns models that violate an equality by 1e-9 and do not survive the float
        # replay - and first inside the function's sparse input SLICES (most inputs fixed), where a counterexample is small enough to be found.  These constraints only narrow
        # the search: any model is a counterexample of the unrestricted obligation, and nothing is ever proved from them.
        far = None
        if rgoal is not None:
            l, r_ = rgoal.l, rgoal.r; half = z3.RealVal('1/2')
            far = {'eq': z3.Or(l - r_ > half, r_ - l > half), 'le': l - r_ > half, 'lt': l - r_ > half, 'ge': r_ - l > half, 'gt': r_ - l > half}[rgoal.kind]
            if rgoal.guard is not None: far = z3.And(rgoal.guard, far)
        box = [z3.And(v >= -4, v <= 4) for v in s.vars if z3.is_real(v)]
        if spec_fn is None: far = z3.Not(goal)          # an obligation of the executor itself (division by zero ...): any bounded input reaching it
        else: box += [z3.Not(c_) for k_, c_, d_ in s.res.obligations if k_ == 'domain']
        def search(cands):
            for cons in cands:
                try: r2, m2, dt2, used2 = s.S.query(s.base + box + cons + [far], s.S.cap(20, 60) if not cons else s.S.cap(10, 30), s.direct_solver, s.vars)
                except z3.Z3Exception: r2 = 'unknown'
                if r2 == 'sat': return s.base + box + cons + [far]
            return None
        chain_failed = bool(use or hyps or gen); sl = [f(s.i) for f in s.slices]; found = None; r = 'sat'
        if chain_failed and far is not None and sl: found = search(sl)          # a step of the chain broke: the code has probably changed, look for the counterexample before the long direct query
        if found is None:
            try: r, m, dt, used = s.S.query(s.base + [z3.Not(goal)], s.tm, s.direct_solver, s.vars)
            except z3.Z3Exception: r, dt, used = 'unknown', 0.0, s.direct_solver
            if r == 'unsat': done(r, dt, used, ''); return True
            if far is not None: found = search(([] if chain_failed else sl) + [[]])
        s.tm = min(s.tm, s.S.cap(20, 60))          # something is wrong with this function: the remaining direct queries get a short budget (the job must end inside its cap)
        s.S.c12_fail = getattr(s.S, 'c12_fail', 0) + 1
        hy = found if found is not None else s.base
        nv = len(s.S.violations)
        s.S._prove_known(oname, goal, hy, s.res, (), timeout=s.tm if r != 'unknown' or hy is not s.base else 1, solver=s.direct_solver, kind=kind, functions=s.fnlist, bounds=s.binfo, spec_fn=spec_fn, pre_fn=s.prefn,
                         unit=U, fname=s.fname, mode='real', vars_=s.vars, mandatory=s.mandatory, replayer=None if spec_fn else s._side_replay(oname))
        for v in s.S.violations[nv:]:
            if isinstance(v[1], dict): v[1]['pin_name'] = s.name
        return False
    def _side_replay(s, oname):
        """a violated domain obligation (division by zero, sqrt of a negative under the stated precondition) is reproduced when the native function, run on the nearest
        floats of the model, returns a NaN or an infinity"""
        def replay(m):
            vals = s.S._model_inputs(m, s.res); bits = []
            for (c, n), row in zip(s.fn.ins, vals): bits.append([float_to_bits(float(v), ct_bits(c)) if ct_kind(c) == 'f' else int(v) for v in row])
            nat = U.call_native(s.fname, bits)
            info = {'unit': U.name, 'fn': s.fname, 'obligation': oname, 'property': s.S.pid, 'inputs': [[str(v) for v in r_] for r_ in vals], 'native_out': [[hex(v) for v in r_] for r_ in nat]}
            bad = False
            for (c, n), r_ in zip(s.fn.outs, nat):
                if ct_kind(c) == 'f':
                    for v in r_:
                        d_ = bits_to_float(v, ct_bits(c)); bad = bad or d_ != d_ or d_ in (float('inf'), float('-inf'))
            return ('reproduced' if bad else 'not-reproduced'), info
        return replay
    def goals(s, spec, recipes=None, timeout=None, solver='nra'):
        """spec(i, o) -> [(label, RGoal)] as for check_fn; recipes[label] = dict(use=[...], hyps=[...], gen=[...]) (labels without a recipe: direct query)"""
        for label, g in spec(s.i, s.o):
            rc = (recipes or {}).get(label, {})
            s._final('%s.%s' % (s.name, label), goal_term(g), 'spec', rc.get('use', ()), rc.get('hyps', ()), rc.get('gen', ()), (spec, label), timeout, solver, rgoal=g if isinstance(g, _RGoal) else None)
    def twins(s, mutant, at=None):
        """deliberately wrong goals that must be refutable (thorough tier): guards against vacuous hypotheses.  at(i): optional point / slice in which the refutation is searched"""
        if mutant is None or s.S.quick: return
        for label, g in mutant(s.i, s.o):
            s.S.prove('%s.twin.%s' % (s.name, label), goal_term(g), s.base + (list(at(s.i)) if at else []), timeout=s.S.cap(30, 60), solver='z3', kind='mutant-twin', functions=s.fnlist, bounds=s.binfo, expect='sat', mandatory=False, vars_=s.vars)
    def side(s, recipe=None, timeout=None, solver='nra'):
        """the executor's own obligations (sqrt of a negative, division by zero ...), one by one; recipe(kind, descr, cond, k) -> dict(use, hyps, gen) | None"""
        for k, (kind, cond, d) in enumerate(s.res.obligations):
            rc = (recipe(kind, d, cond, k) if recipe else None) or {}
            s._final('%s.%s[%s]#%d' % (s.name, kind, d[:60], k), z3.Not(cond), kind, rc.get('use', ()), rc.get('hyps', ()), rc.get('gen', ()), None, timeout, solver)
def rcheck(S, fname, spec, pre=None, *, name=None, bounds='', timeout=None, mutant=None, side=True, witness=True, extra_hyps=None, ins=None, mandatory=True, solver='nra', mode='real'):
    """check_fn for rounding-erased obligations without a lemma chain: direct queries, robust counterexample search, native replay (see Chain._final)"""
    C = Chain(S, fname, name=name, pre=pre, bounds=bounds, timeout=timeout, extra_hyps=extra_hyps, ins=ins, witness=witness, mandatory=mandatory, direct_solver=solver)
    if C.res is None: return None
    if side: C.side()
    C.goals(spec); C.twins(mutant)
    return C
def at_e0(*rows, **sc):
    """witness point: the listed input vectors are the first unit vector e0, listed scalars (row=value) take the given value"""
    return lambda i: [x == (1 if k == 0 else 0) for r_ in rows for k, x in enumerate(i[r_])] + [i[int(r_[1:])][0] == v for r_, v in sc.items()]
def opaque(A, T):
    """[A] when the code's term A may be generalised independently of the transcription T it has been linked to (A == T is a proved fact); [] when both are the SAME
    term (hash-consed), where replacing A would also replace T and lose what is known about its structure"""
    return [] if A.eq(T) else [A]
def normalize_shape(C, k, V, out, tag, pos_use=(), pos_hyps=(), gen=()):
    """the code's k-th square root is sqrt(V.V) and `out` (real terms) is V / sqrt(V.V): establishes facts  tag.arg: argument == V.V,  tag.spos: root > 0
    (given fact(s) pos_use / hypotheses pos_hyps that imply V.V > 0 literally),  tag.out<j>: out[j] * root == V[j],  tag.unit: out.out == 1.
    gen: sub-terms of V (earlier outputs) to generalise in the two linking steps.  Returns the root variable."""
    A, y, ax = C.sqrt_ax(k); VV = rdot(V, V); outs = ['%s.out%d' % (tag, j) for j in range(len(V))]
    C.lemma(tag + '.arg', A == VV, gen=gen)
    C.lemma(tag + '.spos', y > 0, use=[tag + '.arg'] + list(pos_use), hyps=ax + list(pos_hyps), gen=[A, VV])
    for j in range(len(V)): C.lemma(outs[j], out[j] * y == V[j], use=[tag + '.spos'], gen=gen)
    C.lemma(tag + '.unit', rdot(out, out) == 1, use=outs + [tag + '.spos', tag + '.arg'], hyps=ax, gen=opaque(A, VV) + list(out) + list(V))
    return y
def along(C, tag, out, V, y, T, label, gen_extra=()):
    """fact label: (out . T) * root == V . T   from tag.out<j> (bilinear step, every vector generalised)"""
    C.lemma(label, rdot(out, T) * y == rdot(V, T), use=['%s.out%d' % (tag, j) for j in range(len(V))], gen=list(out) + list(V) + [x for x in T if not z3.is_const(x)] + list(gen_extra))
def cs_lemma(C, x, y):
    """fact cauchy-schwarz: -1 <= x.y <= 1 for unit x, y, through Lagrange's identity (x.x)(y.y) - (x.y)^2 = sum of the squared 2x2 minors"""
    D = rdot(x, y); xx = rdot(x, x); yy = rdot(y, y); mn = [x[p] * y[q] - x[q] * y[p] for p, q in pairs(len(x))]
    sq = sum((m_ * m_ for m_ in mn), z3.RealVal(0))
    assert all(any(h.eq(p_) for p_ in C.pre) for h in (xx == 1, yy == 1))
    C.lemma('lagrange', xx * yy - D * D == sq)
    C.lemma('cauchy-schwarz', z3.And(D >= -1, D <= 1), use=['lagrange'], hyps=[xx == 1, yy == 1], gen=[D, xx, yy] + mn)

# ------------------------------------------------------------------ core functions, rounding-erased
def job_core_real(t, L):
    s = '_v%d_%s' % (L, t)
    def run(S):
        tm = S.cap(60, 200)
        rcheck(S, 'dot' + s, lambda i, o: [('sum-of-products', REq(o[0][0].r, rdot(i[0], i[1])))], mode='real', timeout=tm,
                   mutant=lambda i, o: [('m', REq(o[0][0].r, rdot(i[0], i[1]) - i[0][L - 1] * i[1][L - 1]))], bounds='all real vectors')
        rcheck(S, 'length' + s, lambda i, o: [('nonneg', RGoal('ge', o[0][0].r, 0)), ('square', REq(o[0][0].r * o[0][0].r, rdot(i[0], i[0])))], mode='real', timeout=tm, bounds='all real vectors')
        def dspec(i, o):
            d = rsub(i[0], i[1])
            return [('nonneg', RGoal('ge', o[0][0].r, 0)), ('square', REq(o[0][0].r * o[0][0].r, rdot(d, d))), ('eq-length-of-difference', REq(o[0][0].r, o[0][1].r))]
        rcheck(S, 'distance' + s, dspec, mode='real', timeout=tm, bounds='all real vectors')
        def nspec(i, o):
            r = R(o[0]); v = i[0]
            return [('unit', REq(rdot(r, r), 1)), ('same-direction', RGoal('gt', rdot(r, v), 0))] + [('parallel%d%d' % (p, q), REq(r[p] * v[q], r[q] * v[p])) for p, q in pairs(L)]
        rcheck(S, 'normalize' + s, nspec, lambda i: [rdot(i[0], i[0]) > 0], mode='real', timeout=tm, bounds='all real v != 0',
                   mutant=lambda i, o: [('m', RGoal('lt', rdot(R(o[0]), i[0]), 1))])
        def ffspec(i, o):
            N, I, Nref = i; d = rdot(Nref, I)
            return [('c%d' % k, REq(o[0][k].r, z3.If(d < 0, N[k], -N[k]))) for k in range(L)]
        rcheck(S, 'faceforward' + s, ffspec, mode='real', timeout=tm, bounds='all real vectors',
                   mutant=lambda i, o: [('m', REq(o[0][0].r, z3.If(rdot(i[2], i[1]) <= 0, i[0][0], -i[0][0])))])
        def rfspec(i, o):
            I, N = i; d = rdot(N, I)
            return [('formula%d' % k, REq(o[0][k].r, I[k] - 2 * d * N[k])) for k in range(L)]
        rcheck(S, 'reflect' + s, rfspec, mode='real', timeout=tm, bounds='all real vectors',
                   mutant=lambda i, o: [('m', REq(o[0][0].r, i[0][0] - rdot(i[1], i[0]) * i[1][0]))])
        unitN = lambda i: [rdot(i[1], i[1]) == 1]
        rcheck(S, 'reflect' + s, lambda i, o: [('length-preserving', REq(rdot(R(o[0]), R(o[0])), rdot(i[0], i[0])))], unitN, mode='real', timeout=tm, name='c12.reflect%s.unitN' % s, bounds='all real I, unit N', side=False)
        rcheck(S, 'reflect2' + s, lambda i, o: [('involution%d' % k, REq(o[0][k].r, i[0][k])) for k in range(L)], unitN, mode='real', timeout=tm, bounds='all real I, unit N')
        # refract: Snell's law for unit I, N and eta > 0
        def kk(i): d = rdot(i[1], i[0]); return 1 - i[2][0] * i[2][0] * (1 - d * d)
        pre_t = lambda i: [rdot(i[0], i[0]) == 1, rdot(i[1], i[1]) == 1, i[2][0] > 0, kk(i) >= 0]
        def snell(i, o):
            I, N, eta = i[0], i[1], i[2][0]; r = R(o[0]); rn = rdot(r, N); d = rdot(N, I)
            g = [('tangential%d' % k, REq(r[k] - rn * N[k], eta * (I[k] - d * N[k]))) for k in range(L)]
            g += [('unit', REq(rdot(r, r), 1)), ('into-surface', RGoal('le', rn, 0)), ('normal-part', REq(rn * rn, kk(i)))]
            return g
        C = Chain(S, 'refract' + s, name='c12.refract%s.transmit' % s, pre=pre_t, timeout=tm, bounds='unit I, unit N, eta > 0, k >= 0', direct_solver='qfnra', witness_at=at_e0(0, 1, r2=1),
                  slices=[lambda i: [x == (1 if k == 0 else 0) for k, x in enumerate(i[0])] + [x == (1 if k == 1 else 0) for k, x in enumerate(i[1])]] if L >= 2 else [])      # I = e0, N = e1: k = 1 - eta^2
        if C.res is not None and len(C.sq) == 1:
            # r = eta I - c N with c = eta d + sqrt(k), d = N.I:  |r|^2 = eta^2 |I|^2 - 2 eta c d + c^2 |N|^2 = eta^2 (1 - d^2) + k = 1  and  r.N = eta d - c |N|^2 = -sqrt(k)  for unit I, N
            I, N, eta = C.i[0], C.i[1], C.i[2][0]; r = R(C.o[0]); A, sv, ax = C.sqrt_ax(0); d = rdot(N, I); c_ = eta * d + sv; f = [eta * I[k] - c_ * N[k] for k in range(L)]
            II = rdot(I, I); NN = rdot(N, N); rr = rdot(r, r); ff = rdot(f, f); rN = rdot(r, N); fN = rdot(f, N); K = kk(C.i); outs = ['out%d' % k for k in range(L)]
            C.lemma('k', A == K)
            for k in range(L): C.lemma('out%d' % k, r[k] == f[k], hyps=C.pre[3:])       # under k >= 0 the select takes the formula branch
            C.lemma('rr', rr == ff, use=outs, gen=r + f)
            C.lemma('expand', ff == eta * eta * II - 2 * eta * c_ * d + c_ * c_ * NN, gen=[c_])
            C.lemma('rN', rN == fN, use=outs, gen=r + f)
            C.lemma('fN', fN == eta * d - c_ * NN, gen=[c_])
            C.side(lambda kind, dsc, cond, k: dict(use=['k'], hyps=C.pre[3:], gen=[A, K]))
            C.goals(snell, {'unit': dict(use=['k', 'rr', 'expand'], hyps=ax + C.pre[:2], gen=[rr, ff] + opaque(A, K) + [II, NN, d]),
                            'normal-part': dict(use=['k', 'rN', 'fN'], hyps=ax + C.pre[1:2], gen=[rN, fN, K, A, NN, d]),
                            'into-surface': dict(use=['rN', 'fN'], hyps=ax + C.pre[1:2], gen=[rN, fN, A, NN, d])})
            C.twins(lambda i, o: [('m', RGoal('ge', rdot(R(o[0]), i[1]), 0))])
        elif C.res is not None: C.side(); C.goals(snell)
        # the GLSL formula for arbitrary (non-unit) I, N: out = eta I - (eta d + s) N with s >= 0, s^2 = k, stated without the root: (out - eta I + eta d N)_j = -s N_j
        def glsl(i, o):
            I, N, eta = i[0], i[1], i[2][0]; d = rdot(N, I); r = R(o[0]); g = []
            for j in range(L):
                e_ = r[j] - eta * I[j] + eta * d * N[j]
                g += [('formula%d' % j, REq(e_ * e_, kk(i) * (N[j] * N[j]))), ('root-sign%d' % j, RGoal('le', e_ * N[j], 0))]
            return g
        C = Chain(S, 'refract' + s, name='c12.refract%s.general' % s, pre=lambda i: [kk(i) >= 0], timeout=tm, bounds='all real I, N, eta with k >= 0', direct_solver='qfnra', witness_at=at_e0(0, 1, r2=1))
        if C.res is not None and len(C.sq) == 1:
            I, N, eta = C.i[0], C.i[1], C.i[2][0]; r = R(C.o[0]); A, sv, ax = C.sqrt_ax(0); d = rdot(N, I); K = kk(C.i); ed = eta * d
            C.lemma('k', A == K)
            for j in range(L): C.lemma('out%d' % j, r[j] == eta * I[j] - (ed + sv) * N[j], hyps=C.pre)
            C.side(lambda kind, dsc, cond, k: dict(use=['k'], hyps=C.pre, gen=[A, K]))
            rc = {}
            for j in range(L):
                rc['formula%d' % j] = dict(use=['k', 'out%d' % j], hyps=ax, gen=[r[j]] + opaque(A, K) + [K, ed])
                rc['root-sign%d' % j] = dict(use=['out%d' % j], hyps=ax, gen=[r[j], A, ed])
            C.goals(glsl, rc)
        elif C.res is not None: C.side(); C.goals(glsl)
        # (k < 0 cannot be examined in real mode: the model's sqrt axiom y*y == k has no real solution; the bit-precise jobs fp_* decide that half)
        # gtx norm
        rcheck(S, 'length2' + s, lambda i, o: [('sum-of-squares', REq(o[0][0].r, rdot(i[0], i[0])))], mode='real', timeout=tm, bounds='all real vectors')
        rcheck(S, 'distance2' + s, lambda i, o: [('sum-of-squares', REq(o[0][0].r, rdot(rsub(i[0], i[1]), rsub(i[0], i[1]))))], mode='real', timeout=tm, bounds='all real vectors')
        if L >= 2:
            def pspec(i, o):
                x, n = i; p = R(o[0]); q = R(o[1])
                g = [('proj-parallel%d%d' % (a_, b_), REq(p[a_] * n[b_], p[b_] * n[a_])) for a_, b_ in pairs(L)]
                g += [('proj-residual-orthogonal', REq(rdot(rsub(x, p), n), 0)), ('perp-orthogonal', REq(rdot(q, n), 0))]
                g += [('perp-complement-parallel%d%d' % (a_, b_), REq((x[a_] - q[a_]) * n[b_], (x[b_] - q[b_]) * n[a_])) for a_, b_ in pairs(L)]
                g += [('proj+perp%d' % k, REq(p[k] + q[k], x[k])) for k in range(L)]
                return g
            rcheck(S, 'proj' + s, pspec, lambda i: [rdot(i[1], i[1]) > 0], mode='real', timeout=tm, bounds='all real x, Normal != 0',
                       mutant=lambda i, o: [('m', REq(rdot(R(o[0]), i[1]), 0))])
    return run

# ------------------------------------------------------------------ scalar genType overloads, rounding-erased
def job_scalar_real(t):
    def run(S):
        tm = S.cap(60, 200); x = lambda i, k=0: i[0][k]
        rcheck(S, 's_dot_' + t, lambda i, o: [('product', REq(o[0][0].r, i[0][0] * i[0][1]))], mode='real', timeout=tm, bounds='all reals')
        rcheck(S, 's_length_' + t, lambda i, o: [('abs', REq(o[0][0].r, rabs(i[0][0])))], mode='real', timeout=tm, bounds='all reals')
        rcheck(S, 's_distance_' + t, lambda i, o: [('abs-difference', REq(o[0][0].r, rabs(i[0][0] - i[0][1])))], mode='real', timeout=tm, bounds='all reals')
        rcheck(S, 's_length2_' + t, lambda i, o: [('square', REq(o[0][0].r, i[0][0] * i[0][0]))], mode='real', timeout=tm, bounds='all reals')
        rcheck(S, 's_distance2_' + t, lambda i, o: [('square-difference', REq(o[0][0].r, (i[0][0] - i[0][1]) * (i[0][0] - i[0][1])))], mode='real', timeout=tm, bounds='all reals')
        rcheck(S, 's_faceforward_' + t, lambda i, o: [('decision', REq(o[0][0].r, z3.If(i[2][0] * i[1][0] < 0, i[0][0], -i[0][0])))], mode='real', timeout=tm, bounds='all reals')
        rcheck(S, 's_reflect_' + t, lambda i, o: [('formula', REq(o[0][0].r, i[0][0] - 2 * (i[1][0] * i[0][0]) * i[1][0]))], mode='real', timeout=tm, bounds='all reals')
        def kk(i): d = i[1][0] * i[0][0]; return 1 - i[2][0] * i[2][0] * (1 - d * d)
        # in one dimension unit I, N are +-1, so k = 1 and the refracted ray is -N
        rcheck(S, 's_refract_' + t, lambda i, o: [('transmitted', REq(o[0][0].r, -i[1][0]))], lambda i: [i[0][0] * i[0][0] == 1, i[1][0] * i[1][0] == 1, i[2][0] > 0], mode='real', timeout=tm, bounds='I, N in {-1, 1}, eta > 0')
        rcheck(S, 's_refract_' + t, lambda i, o: [('formula', REq((o[0][0].r - i[2][0] * i[0][0] + i[2][0] * i[1][0] * i[0][0] * i[1][0]) * (o[0][0].r - i[2][0] * i[0][0] + i[2][0] * i[1][0] * i[0][0] * i[1][0]), kk(i) * i[1][0] * i[1][0])),
                                                      ('root-sign', RGoal('le', (o[0][0].r - i[2][0] * i[0][0] + i[2][0] * i[1][0] * i[0][0] * i[1][0]) * i[1][0], 0))],
                   lambda i: [i[2][0] > 0, kk(i) >= 0], mode='real', timeout=tm, name='c12.s_refract_%s.general' % t, bounds='all real I, N, eta > 0 with k >= 0')
    return run

# ------------------------------------------------------------------ gtx helpers, rounding-erased
ACOS = z3.Real('acos_of_dot_spec')
def acos_link(dotf):
    """acos is a function: every acos(t) evaluated by the code with t == dot(x,y) equals the specification's acos(dot(x,y))"""
    def hyps(res):
        d = dotf(res.ins)
        return [z3.Implies(args[0] == d, var == ACOS) for key, (var, args) in getattr(res.ex, 'trig', {}).items() if key[0] == 'acos']
    return hyps
def acos_of(d):
    import math
    d = z3.simplify(d)
    if z3.is_rational_value(d) or z3.is_algebraic_value(d):
        v = float(z3val_to_fraction(d)); return z3.RealVal(repr(math.acos(max(-1.0, min(1.0, v)))))
    return ACOS
def pow_axioms(res):
    """pow(x,n) = x*..*x (n = 1..4), pow(x,1/n) = non-negative n-th root (x >= 0, n = 2..4)"""
    hy = []
    for key, (var, args) in getattr(res.ex, 'trig', {}).items():
        if key[0] != 'pow': continue
        b, e = args; e = z3.simplify(e)
        if not z3.is_rational_value(e): continue
        n, dn = e.numerator_as_long(), e.denominator_as_long()
        if dn == 1 and 1 <= n <= 4:
            p = b
            for _ in range(n - 1): p = p * b
            hy.append(var == p)
        elif n == 1 and 2 <= dn <= 4:
            p = var
            for _ in range(dn - 1): p = p * var
            hy.append(z3.Implies(b >= 0, z3.And(var >= 0, p == b)))
    return hy
def job_angle(t, L):
    s = '_v%d_%s' % (L, t)
    def run(S):
        tm = S.cap(90, 300)
        unit2 = lambda i: [rdot(i[0], i[0]) == 1, rdot(i[1], i[1]) == 1]
        C = Chain(S, 'angle' + s, pre=unit2, timeout=tm, extra_hyps=acos_link(lambda i: rdot(i[0], i[1])), bounds='unit x, y; acos only as a function (congruence)', witness_at=at_e0(0, 1))
        if C.res is not None:
            cs_lemma(C, C.i[0], C.i[1]); C.side()
            C.goals(lambda i, o: [('acos-of-dot', REq(o[0][0].r, acos_of(rdot(i[0], i[1]))))], {'acos-of-dot': dict(use=['cauchy-schwarz'], hyps='base')})
            C.twins(lambda i, o: [('m', REq(o[0][0].r, -acos_of(rdot(i[0], i[1]))))], at=lambda i: [x == (1 if k == 0 else 0) for k, x in enumerate(i[0])] + [y == (-1 if k == 0 else 0) for k, y in enumerate(i[1])])
    return run
def job_gtx3(t):
    def run(S):
        tm = S.cap(90, 300)
        rcheck(S, 's_angle_' + t, lambda i, o: [('acos-of-product', REq(o[0][0].r, acos_of(i[0][0] * i[0][1])))], lambda i: [i[0][0] * i[0][0] == 1, i[0][1] * i[0][1] == 1], mode='real', timeout=tm,
                   extra_hyps=acos_link(lambda i: i[0][0] * i[0][1]), bounds='x, y in {-1, 1}')
        unit2 = lambda i: [rdot(i[0], i[0]) == 1, rdot(i[1], i[1]) == 1]
        def oa3(i, o):
            x, y, ref = i; A = acos_of(rdot(x, y)); sgn = rdot(ref, rcross(x, y))
            return [('signed-acos', REq(o[0][0].r, z3.If(sgn < 0, -A, A)))]
        def oa2(i, o):
            x, y = i[0], i[1]; A = acos_of(rdot(x, y)); cr = x[0] * y[1] - x[1] * y[0]
            return [('signed-acos', REq(o[0][0].r, z3.If(cr > 0, A, -A)))]
        for fn_, sp_, bd_ in (('oangle2_', oa2, 'unit x, y in the plane; counter-clockwise positive'), ('oangle3_', oa3, 'unit x, y; any ref; sign of dot(ref, cross(x,y))')):
            C = Chain(S, fn_ + t, pre=unit2, timeout=tm, extra_hyps=acos_link(lambda i: rdot(i[0], i[1])), bounds=bd_, witness_at=at_e0(0, 1))
            if C.res is not None:
                cs_lemma(C, C.i[0], C.i[1]); C.side()
                C.goals(sp_, {'signed-acos': dict(use=['cauchy-schwarz'], hyps='base')})
                if fn_ == 'oangle2_': C.twins(lambda i, o: [('m', REq(o[0][0].r, z3.If(i[0][0] * i[1][1] - i[0][1] * i[1][0] < 0, acos_of(rdot(i[0], i[1])), -acos_of(rdot(i[0], i[1])))))])
        # cross, exterior and mixed product
        def cspec(i, o):
            a_, b_ = i; c_ = R(o[0]); c2 = R(o[1]); dt = rcross(a_, b_)
            return [('orthogonal-to-x', REq(rdot(c_, a_), 0)), ('orthogonal-to-y', REq(rdot(c_, b_), 0))] + [('anti-commutative%d' % k, REq(c_[k], -c2[k])) for k in range(3)] + [('determinant%d' % k, REq(c_[k], dt[k])) for k in range(3)]
        rcheck(S, 'cross_' + t, cspec, mode='real', timeout=tm, bounds='all real vectors', mutant=lambda i, o: [('m', REq(o[0][1].r, i[0][0] * i[1][2] - i[0][2] * i[1][0]))])
        rcheck(S, 'cross2_' + t, lambda i, o: [('determinant', REq(o[0][0].r, i[0][0] * i[1][1] - i[0][1] * i[1][0])), ('anti-commutative', REq(o[0][0].r, -o[0][1].r))], mode='real', timeout=tm, bounds='all real vectors')
        rcheck(S, 'mixed_' + t, lambda i, o: [('determinant', REq(o[0][0].r, rdet3(i[0], i[1], i[2]))), ('cyclic', REq(o[0][0].r, rdot(i[0], rcross(i[1], i[2]))))], mode='real', timeout=tm, bounds='all real vectors',
                   mutant=lambda i, o: [('m', REq(o[0][0].r, rdet3(i[1], i[0], i[2])))])
        # norms
        def nspec(i, o):
            a_, b_ = i; d = rsub(b_, a_); r = R(o[0])
            return [('l1-between', REq(r[0], sum(rabs(x) for x in d))), ('l1', REq(r[1], sum(rabs(x) for x in a_))),
                    ('l2-between-nonneg', RGoal('ge', r[2], 0)), ('l2-between-square', REq(r[2] * r[2], rdot(d, d))), ('l2-nonneg', RGoal('ge', r[3], 0)), ('l2-square', REq(r[3] * r[3], rdot(a_, a_))),
                    ('lmax-between', REq(r[4], rmax([rabs(x) for x in d]))), ('lmax', REq(r[5], rmax([rabs(x) for x in a_])))]
        rcheck(S, 'norms_' + t, nspec, mode='real', timeout=tm, bounds='all real vec3', mutant=lambda i, o: [('m', REq(o[0][5].r, rmax([rabs(x) for x in i[0][:2]])))])
        def ipow(x, n): return x if n == 1 else x * ipow(x, n - 1)
        for n in (1, 2, 3, 4):
            def lx(i, o, n=n):
                a_, b_ = i[0], i[1]; r = R(o[0]); pw = lambda x: ipow(x, n)
                return [('between-nonneg', RGoal('ge', r[0], 0)), ('between-power', REq(pw(r[0]), sum(pw(rabs(q - p)) for p, q in zip(a_, b_)))), ('nonneg', RGoal('ge', r[1], 0)), ('power', REq(pw(r[1]), sum(pw(rabs(p)) for p in a_)))]
            ins = [[z3.Real('a%d' % k) for k in range(3)], [z3.Real('b%d' % k) for k in range(3)], [z3.BitVecVal(n, 32)]]
            rcheck(S, 'lxnorm_' + t, lx, mode='real', timeout=tm, ins=ins, extra_hyps=pow_axioms, name='c12.lxnorm_%s.depth%d' % (t, n), bounds='all real vec3, Depth = %d' % n)
        # orthonormalize(x, y): unit y
        def ov(i, o):
            x, y = i; r = R(o[0])
            return [('unit', REq(rdot(r, r), 1)), ('orthogonal-to-y', REq(rdot(r, y), 0)), ('in-span', REq(rdet3(x, y, r), 0)), ('towards-x', RGoal('gt', rdot(r, x), 0))]
        C = Chain(S, 'ortho_v3_' + t, pre=lambda i: [rdot(i[1], i[1]) == 1, rdot(rcross(i[0], i[1]), rcross(i[0], i[1])) > 0], timeout=tm, bounds='unit y, x not parallel to y', slices=[lambda i: [i[1][0] == 0, i[1][1] == 1, i[1][2] == 0]])
        if C.res is not None:
            x, y = C.i; r = R(C.o[0]); d = rdot(y, x); dd = d * d; w = [x[k] - y[k] * d for k in range(3)]; W = rdot(w, w); c_ = rcross(x, y); cc = rdot(c_, c_); yy = rdot(y, y); q = rdot(x, x) - dd
            C.lemma('lagrange', W == cc + (1 - yy) * q)                               # |x - y (y.x)|^2 = |x cross y|^2 for unit y (polynomial identity, no hypotheses)
            C.lemma('Wpos', W > 0, use=['lagrange'], hyps=C.pre, gen=[W, cc, yy, q])
            sv = normalize_shape(C, 0, w, r, 'n', pos_use=['Wpos']); A, _, ax = C.sqrt_ax(0); outs = ['n.out%d' % k for k in range(3)]
            rx = rdot(r, x); wx = rdot(w, x)
            C.lemma('rx', rx * sv == wx, use=outs, gen=r + w)
            C.lemma('wx', wx == W + dd * (1 - yy))
            C.side(lambda kind, dsc, cond, k: dict(use=['n.arg', 'Wpos'], gen=[A, W]) if 'sqrt' in dsc else dict(use=['n.spos']))
            C.goals(ov, {'unit': dict(use=['n.unit']),
                         'towards-x': dict(use=['rx', 'wx', 'Wpos', 'n.spos'], hyps=C.pre[:1], gen=[rx, wx, W, dd, yy])})
            C.twins(lambda i, o: [('m', REq(rdot(R(o[0]), i[0]), 0))])
        # triangleNormal
        def tn(i, o):
            p1, p2, p3 = i; r = R(o[0]); e1 = rsub(p2, p1); e2 = rsub(p3, p1)
            return [('unit', REq(rdot(r, r), 1)), ('orthogonal-to-edge12', REq(rdot(r, e1), 0)), ('orthogonal-to-edge13', REq(rdot(r, e2), 0)), ('right-handed', RGoal('gt', rdot(r, rcross(e1, e2)), 0))]
        C = Chain(S, 'trinormal_' + t, pre=lambda i: [rdot(rcross(rsub(i[1], i[0]), rsub(i[2], i[0])), rcross(rsub(i[1], i[0]), rsub(i[2], i[0]))) > 0], timeout=tm, bounds='non-degenerate triangles', slices=[lambda i: [x == 0 for x in i[0]] + [x == (1 if k == 0 else 0) for k, x in enumerate(i[1])]])
        if C.res is not None:
            p1, p2, p3 = C.i; r = R(C.o[0]); V = rcross(rsub(p2, p1), rsub(p3, p1)); VV = rdot(V, V)
            sv = normalize_shape(C, 0, V, r, 'n', pos_hyps=C.pre); A = C.sqrt_ax(0)[0]
            along(C, 'n', r, V, sv, V, 'rV')
            C.side(lambda kind, dsc, cond, k: dict(use=['n.arg'], hyps=C.pre, gen=[A, VV]) if 'sqrt' in dsc else dict(use=['n.spos']))
            C.goals(tn, {'unit': dict(use=['n.unit']), 'right-handed': dict(use=['rV', 'n.spos'], hyps=C.pre, gen=[rdot(r, V), VV])})
            C.twins(lambda i, o: [('m', RGoal('lt', rdot(R(o[0]), rcross(rsub(i[1], i[0]), rsub(i[2], i[0]))), 0))], at=C.slices[0])
        # closestPointOnLine = a + clamp(dot(p-a, b-a)/|b-a|^2, 0, 1) (b-a)
        for nm, L in (('closest3_', 3), ('closest2_', 2)):
            def cp(i, o, L=L):
                p, a_, b_ = i; ab = rsub(b_, a_); tt = rdot(rsub(p, a_), ab) / rdot(ab, ab); tc = z3.If(tt <= 0, z3.RealVal(0), z3.If(tt >= 1, z3.RealVal(1), tt))
                return [('clamped-projection%d' % k, REq(o[0][k].r, a_[k] + tc * ab[k])) for k in range(L)]
            C = Chain(S, nm + t, pre=lambda i: [rdot(rsub(i[2], i[1]), rsub(i[2], i[1])) > 0], timeout=tm, bounds='all real point, a != b', slices=[lambda i: [x == 0 for x in i[1]] + [x == (1 if k == 0 else 0) for k, x in enumerate(i[2])]])
            if C.res is None: continue
            if len(C.sq) == 1:
                # the code works with the length s = |b - a| and the signed distance D = (p - a).(b - a)/s; the definition with the parameter t = (p - a).(b - a)/|b - a|^2 = D/s
                p, a_, b_ = C.i; o = R(C.o[0]); ab = rsub(b_, a_); q = rdot(ab, ab); n_ = rdot(rsub(p, a_), ab); A, sv, ax = C.sqrt_ax(0); dr = [ab[k] / sv for k in range(L)]; D = rdot(rsub(p, a_), dr)
                C.lemma('arg', A == q); C.lemma('spos', sv > 0, use=['arg'], hyps=ax + C.pre, gen=[A, q]); C.lemma('D*s', D * sv == n_, use=['spos'])
                for k in range(L): C.lemma('out%d' % k, o[k] == z3.If(D <= 0, a_[k], z3.If(D >= sv, b_[k], a_[k] + dr[k] * D)), use=['spos'])
                C.side(lambda kind, dsc, cond, k: dict(use=['arg'], hyps=C.pre, gen=[A, q]) if 'sqrt' in dsc else dict(use=['spos']))
                C.goals(cp, {'clamped-projection%d' % k: dict(use=['out%d' % k, 'D*s', 'spos', 'arg'], hyps=ax, gen=[o[k], D, n_] + opaque(A, q) + [q]) for k in range(L)})
            else: C.side(); C.goals(cp)
            C.twins(lambda i, o: [('m', REq(o[0][0].r, i[1][0] + (rdot(rsub(i[0], i[1]), rsub(i[2], i[1])) / rdot(rsub(i[2], i[1]), rsub(i[2], i[1]))) * (i[2][0] - i[1][0])))])
    return run
def job_ortho_m3(t):
    """orthonormalize(mat3) = Gram-Schmidt on the columns.  One execution, ~70 small steps: per column k the shape r_k * s_k = u_k (u_k = m_k minus its components along the
    earlier r_j, s_k = sqrt(u_k.u_k)), u_k.u_k > 0 from det(m) != 0 (Lagrange / Gram identities), then unit length, orthogonality, spans and orientations."""
    def run(S):
        tm = S.cap(60, 200)
        def om(i, o):
            m = [i[0][0:3], i[0][3:6], i[0][6:9]]; r = [R(o[0][0:3]), R(o[0][3:6]), R(o[0][6:9])]
            g = [('unit%d' % k, REq(rdot(r[k], r[k]), 1)) for k in range(3)] + [('orthogonal%d%d' % (p, q), REq(rdot(r[p], r[q]), 0)) for p, q in pairs(3)]
            g += [('col0-parallel%d%d' % (p, q), REq(r[0][p] * m[0][q], r[0][q] * m[0][p])) for p, q in pairs(3)] + [('col0-direction', RGoal('gt', rdot(r[0], m[0]), 0))]
            g += [('col1-in-span', REq(rdet3(m[0], m[1], r[1]), 0)), ('col1-direction', RGoal('gt', rdot(r[1], m[1]), 0)), ('col2-direction', RGoal('gt', rdot(r[2], m[2]), 0))]
            return g
        C = Chain(S, 'ortho_m3_' + t, pre=lambda i: [rdet3(i[0][0:3], i[0][3:6], i[0][6:9]) != 0], timeout=tm, bounds='all real matrices with linearly independent columns',
                  slices=[lambda i: [x == v for x, v in zip(i[0], (1, 0, 0, None, 1, 0, None, None, 1)) if v is not None]],       # unit lower-triangular matrices
                  witness_at=lambda i: [x == (1 if k in (0, 4, 8) else 0) for k, x in enumerate(i[0])])
        if C.res is None: return
        m0, m1, m2 = C.i[0][0:3], C.i[0][3:6], C.i[0][6:9]; o = R(C.o[0]); r0, r1, r2 = o[0:3], o[3:6], o[6:9]; det = rdet3(m0, m1, m2); L = C.lemma
        if len(C.sq) != 3: C.goals(om); C.side(); return
        # ---- column 0: r0 = m0 / |m0|
        c12 = rcross(m1, m2); m0m0 = rdot(m0, m0)
        L('det=m0.(m1xm2)', det == rdot(m0, c12))
        L('m0pos', m0m0 > 0, use=['det=m0.(m1xm2)'], hyps=C.pre, gen=[det] + c12)
        s0 = normalize_shape(C, 0, m0, r0, 'n0', pos_use=['m0pos'])
        along(C, 'n0', r0, m0, s0, m0, 'r0.m0')
        # ---- column 1: u1 = m1 - r0 (r0.m1)
        e = rdot(r0, m1); u1 = [m1[k] - r0[k] * e for k in range(3)]; u1u1 = rdot(u1, u1); n0 = rdot(r0, r0); x1 = rcross(r0, m1); cm = rcross(m0, m1); q1 = rdot(m1, m1) - e * e
        L('lagrange1', u1u1 == rdot(x1, x1) + (1 - n0) * q1, gen=r0)
        for k in range(3): L('x1s%d' % k, x1[k] * s0 == cm[k], use=['n0.out%d' % j for j in range(3)], gen=r0)
        L('det=(m0xm1).m2', det == rdot(cm, m2))
        L('cmpos', rdot(cm, cm) > 0, use=['det=(m0xm1).m2'], hyps=C.pre, gen=[det] + cm)
        L('x1pos', rdot(x1, x1) > 0, use=['x1s0', 'x1s1', 'x1s2', 'cmpos', 'n0.spos'], gen=x1 + cm)
        L('u1pos', u1u1 > 0, use=['lagrange1', 'x1pos', 'n0.unit'], gen=[u1u1, rdot(x1, x1), n0, q1])
        s1 = normalize_shape(C, 1, u1, r1, 'n1', pos_use=['u1pos'], gen=r0)
        L('r0.u1', rdot(u1, r0) == e * (1 - n0), gen=r0)
        along(C, 'n1', r1, u1, s1, r0, 'r0.r1*s1')
        L('orth01', rdot(r1, r0) == 0, use=['r0.r1*s1', 'r0.u1', 'n0.unit', 'n1.spos'], gen=[rdot(r1, r0), rdot(u1, r0), e, n0])
        along(C, 'n1', r1, u1, s1, m1, 'r1.m1*s1')
        L('u1.m1', rdot(u1, m1) == u1u1 + e * e * (1 - n0), gen=r0)
        d_r0 = rdet3(m0, m1, r0); d_r1 = rdet3(m0, m1, r1); d_u1 = rdet3(m0, m1, u1)
        L('span-r0', d_r0 == 0, use=['n0.out0', 'n0.out1', 'n0.out2', 'n0.spos'], gen=r0)
        L('span-u1', d_u1 == -e * d_r0, gen=r0)
        L('span-r1*s1', d_r1 * s1 == d_u1, use=['n1.out0', 'n1.out1', 'n1.out2'], gen=r1 + u1)
        # ---- column 2: u2 = m2 - (r0 (r0.m2) + r1 (r1.m2))
        f = rdot(r0, m2); g = rdot(r1, m2); u2 = [m2[k] - (r0[k] * f + r1[k] * g) for k in range(3)]; u2u2 = rdot(u2, u2); n1 = rdot(r1, r1); p01 = rdot(r1, r0); m2m2 = rdot(m2, m2); gR = r0 + r1
        corr = f * f * (n0 - 1) + g * g * (n1 - 1) + 2 * f * g * p01
        L('expand2', u2u2 == m2m2 - f * f - g * g + corr, gen=gR)
        D2 = rdet3(r0, r1, m2)
        L('gram', D2 * D2 == n0 * (n1 * m2m2 - g * g) - p01 * (p01 * m2m2 - g * f) + f * (p01 * g - n1 * f), gen=gR)
        Du = rdet3(r0, u1, m2); Dm = rdet3(r0, m1, m2)
        L('D2*s1', D2 * s1 == Du, use=['n1.out0', 'n1.out1', 'n1.out2'], gen=r1 + u1 + r0)
        L('Du=Dm', Du == Dm, gen=r0)
        L('Dm*s0', Dm * s0 == det, use=['n0.out0', 'n0.out1', 'n0.out2'], gen=r0)
        L('D2nz', D2 != 0, use=['D2*s1', 'Du=Dm', 'Dm*s0', 'n0.spos', 'n1.spos'], hyps=C.pre, gen=[D2, Du, Dm, det])
        L('u2pos', u2u2 > 0, use=['expand2', 'gram', 'D2nz', 'n0.unit', 'n1.unit', 'orth01'], gen=[u2u2, D2, m2m2, n0, n1, p01, f, g])
        s2 = normalize_shape(C, 2, u2, r2, 'n2', pos_use=['u2pos'], gen=gR)
        L('r0.u2', rdot(u2, r0) == f - (n0 * f + p01 * g), gen=gR)
        L('r1.u2', rdot(u2, r1) == g - (p01 * f + n1 * g), gen=gR)
        along(C, 'n2', r2, u2, s2, r0, 'r0.r2*s2'); along(C, 'n2', r2, u2, s2, r1, 'r1.r2*s2'); along(C, 'n2', r2, u2, s2, m2, 'r2.m2*s2')
        L('u2.m2', rdot(u2, m2) == u2u2 - corr, gen=gR)
        L('orth02', rdot(r2, r0) == 0, use=['r0.r2*s2', 'r0.u2', 'n0.unit', 'orth01', 'n2.spos'], gen=[rdot(r2, r0), rdot(u2, r0), f, g, n0, p01])
        L('orth12', rdot(r2, r1) == 0, use=['r1.r2*s2', 'r1.u2', 'n1.unit', 'orth01', 'n2.spos'], gen=[rdot(r2, r1), rdot(u2, r1), f, g, n1, p01])
        A = [C.sqrt_ax(k)[0] for k in range(3)]; VV = [m0m0, u1u1, u2u2]; pos = ['m0pos', 'u1pos', 'u2pos']; cnt = {'sqrt': 0, 'div': 0}
        def side_recipe(kind, dsc, cond, k):
            key = 'sqrt' if 'sqrt' in dsc else 'div'; j = cnt[key]; cnt[key] += 1
            if j > 2: return None
            return dict(use=['n%d.arg' % j, pos[j]], gen=[A[j], VV[j]]) if key == 'sqrt' else dict(use=['n%d.spos' % j])
        C.side(side_recipe)
        rc = {'unit%d' % k: dict(use=['n%d.unit' % k]) for k in range(3)}
        rc['orthogonal01'] = dict(use=['orth01'], gen=r0 + r1)
        rc['orthogonal02'] = dict(use=['orth02'], gen=r0 + r2); rc['orthogonal12'] = dict(use=['orth12'], gen=r1 + r2)
        for p_, q_ in pairs(3): rc['col0-parallel%d%d' % (p_, q_)] = dict(use=['n0.out%d' % p_, 'n0.out%d' % q_, 'n0.spos'], gen=r0)
        rc['col0-direction'] = dict(use=['r0.m0', 'm0pos', 'n0.spos'], gen=[rdot(r0, m0), m0m0])
        rc['col1-in-span'] = dict(use=['span-r0', 'span-u1', 'span-r1*s1', 'n1.spos'], gen=[d_r1, d_u1, d_r0, e])
        rc['col1-direction'] = dict(use=['r1.m1*s1', 'u1.m1', 'u1pos', 'n0.unit', 'n1.spos'], gen=[rdot(r1, m1), rdot(u1, m1), u1u1, e, n0])
        rc['col2-direction'] = dict(use=['r2.m2*s2', 'u2.m2', 'u2pos', 'n0.unit', 'n1.unit', 'orth01', 'n2.spos'], gen=[rdot(r2, m2), rdot(u2, m2), u2u2, f, g, n0, n1, p01])
        C.goals(om, rc)
    return run

# ------------------------------------------------------------------ bit-precise decisions of refract / faceforward
def fdot(x, y):
    """IEEE dot product of two lists of FP terms: products summed left to right, vec4 pairwise"""
    p = [z3.fpMul(RNE, a_, b_) for a_, b_ in zip(x, y)]
    if len(p) == 4: return z3.fpAdd(RNE, z3.fpAdd(RNE, p[0], p[1]), z3.fpAdd(RNE, p[2], p[3]))
    r = p[0]
    for q in p[1:]: r = z3.fpAdd(RNE, r, q)
    return r
def fk(i, w):
    """k = 1 - eta*eta*(1 - dot(N,I)*dot(N,I)) evaluated operation by operation in IEEE; returns (k, d)"""
    I = [fpof(x) for x in i[0]]; N = [fpof(x) for x in i[1]]; eta = fpof(i[2][0]); one = FPV(1.0, w)
    d = fdot(N, I)
    return z3.fpSub(RNE, one, z3.fpMul(RNE, z3.fpMul(RNE, eta, eta), z3.fpSub(RNE, one, z3.fpMul(RNE, d, d)))), d
def val_eq(x, y): return z3.Or(z3.fpEQ(x, y), z3.And(z3.fpIsNaN(x), z3.fpIsNaN(y)))
def _is_const(t, v):
    return z3.is_fp_value(t) and not t.isNaN() and not t.isInf() and not t.isNegative() and z3.is_true(z3.simplify(z3.fpEQ(t, z3.FPVal(v, t.sort()))))
def _facts(c, val):
    """sub-formulas whose truth value follows from c == val (one level of and/or/not)"""
    out = [(c, z3.BoolVal(val))]
    if z3.is_not(c): out += _facts(c.arg(0), not val)
    elif (z3.is_and(c) and val) or (z3.is_or(c) and not val):
        for x in c.children(): out += _facts(x, val)
    return out
def concrete(i): return all(z3.is_bv_value(x) or z3.is_rational_value(x) for row in i for x in row)
SQRT_CONSTS = {}          # name -> (argument, constant) of every square root canon() has abstracted (keeps the argument alive: the name is its id)
def sqrt_fact(t, c):
    """true facts about c = sqrt(t) in the branch where canon() uses the constant (t not below zero); proved for all bit patterns as ieee-lemma.*.sqrt-facts.
    Never needed for a proof - they keep the models of a FAILING query close to genuine ones (a constant with c = inf for t = 0 would not replay)"""
    z = z3.FPVal(0.0, c.sort()); one = z3.FPVal(1.0, c.sort())
    return z3.Implies(z3.Not(z3.fpLT(t, z)), z3.And(z3.fpIsNaN(c) == z3.fpIsNaN(t), z3.fpIsInf(c) == z3.fpIsInf(t), z3.Implies(z3.fpIsZero(t), c == t), z3.Or(z3.fpIsNaN(t), z3.fpGEQ(c, z)),
                                                    z3.Implies(t == one, c == one), z3.Implies(z3.fpLT(t, one), z3.fpLEQ(c, one)), z3.Implies(z3.fpGT(t, one), z3.fpGEQ(c, one))))
def abstract_arith(terms):
    """generalisation: every maximal sub-term rooted at an IEEE arithmetic operation becomes a fresh constant (one per distinct term).  Valid generalised => valid."""
    AR = (z3.Z3_OP_FPA_ADD, z3.Z3_OP_FPA_SUB, z3.Z3_OP_FPA_MUL, z3.Z3_OP_FPA_DIV, z3.Z3_OP_FPA_SQRT, z3.Z3_OP_FPA_FMA, z3.Z3_OP_FPA_REM)
    tab = {}; seen = set()
    def go(t):
        k = t.get_id()
        if k in seen: return
        seen.add(k)
        if z3.is_app(t) and t.decl().kind() in AR:
            tab[k] = (t, z3.Const('arith!%d' % len(tab), t.sort())); return
        for c_ in t.children(): go(c_)
    for t in terms: go(t)
    return [z3.substitute(t, *tab.values()) if tab else t for t in terms]
def canon(e, abstract_sqrt=True):
    """Normal form of a formula over IEEE terms so that the compiled code and the transcribed formula meet syntactically (bit-blasting
    two commuted 53-bit multipliers against each other does not finish).  Every rewrite is an exact IEEE identity (proved as the
    'ieee-lemma' obligations below) except the last one, which is a sound over-approximation for proving:
      fp.mul/fp.add operands sorted (commutativity);  x < y  ->  not NaN x, not NaN y, not (y <= x);  uitofp(c ? 1 : 0) -> c ? 1.0 : 0.0;
      x * (c ? 1.0 : 0.0) -> c ? x : x * 0.0;  to_fp(to_ieee_bv(x)) -> x (z3 has a single NaN);  (c ? A : B) -> (c ? A[c:=true] : B[c:=false]);  sqrt(t) -> (t < 0 ? NaN : fresh constant keyed by t)   [skipped when replaying concrete values]"""
    memo = {}
    def go(t):
        k = t.get_id()
        if k in memo: return memo[k][1]
        r = None
        if z3.is_app(t) and t.num_args() > 0:
            ch = [go(c_) for c_ in t.children()]; dk = t.decl().kind()
            if dk == z3.Z3_OP_FPA_TO_FP_UNSIGNED and len(ch) == 2 and z3.is_app(ch[1]) and ch[1].decl().kind() == z3.Z3_OP_ITE and all(z3.is_bv_value(ch[1].arg(n_)) and ch[1].arg(n_).as_long() <= 1 for n_ in (1, 2)):
                r = z3.If(ch[1].arg(0), z3.FPVal(float(ch[1].arg(1).as_long()), t.sort()), z3.FPVal(float(ch[1].arg(2).as_long()), t.sort()))
            elif dk == z3.Z3_OP_FPA_TO_FP and len(ch) == 1 and z3.is_app(ch[0]) and ch[0].decl().kind() == z3.Z3_OP_FPA_TO_IEEE_BV and ch[0].arg(0).sort() == t.sort():
                r = ch[0].arg(0)
            elif dk == z3.Z3_OP_ITE:
                r = z3.If(ch[0], z3.substitute(ch[1], *_facts(ch[0], True)), z3.substitute(ch[2], *_facts(ch[0], False)))
            elif dk == z3.Z3_OP_IMPLIES:
                r = z3.Implies(ch[0], z3.substitute(ch[1], *_facts(ch[0], True)))
            elif dk == z3.Z3_OP_FPA_MUL:
                for x, y in ((ch[1], ch[2]), (ch[2], ch[1])):
                    if z3.is_app(y) and y.decl().kind() == z3.Z3_OP_ITE and _is_const(y.arg(1), 1.0) and _is_const(y.arg(2), 0.0):
                        r = z3.If(y.arg(0), x, go(z3.fpMul(ch[0], x, y.arg(2)))); break
            elif dk == z3.Z3_OP_FPA_LT:
                r = z3.And(z3.Not(go(z3.fpIsNaN(ch[0]))), z3.Not(go(z3.fpIsNaN(ch[1]))), z3.Not(go(z3.fpLEQ(ch[1], ch[0]))))
            elif dk == z3.Z3_OP_FPA_GT:
                r = z3.And(z3.Not(go(z3.fpIsNaN(ch[0]))), z3.Not(go(z3.fpIsNaN(ch[1]))), z3.Not(go(z3.fpLEQ(ch[0], ch[1]))))
            elif dk == z3.Z3_OP_FPA_GE: r = go(z3.fpLEQ(ch[1], ch[0]))
            elif dk == z3.Z3_OP_FPA_SQRT and abstract_sqrt:
                srt = ch[1].sort()
                cst = z3.Const('sqrt_of_%d' % ch[1].get_id(), srt); SQRT_CONSTS[cst.decl().name()] = (ch[1], cst)
                r = z3.If(go(z3.fpLT(ch[1], z3.FPVal(0.0, srt))), z3.fpNaN(srt), cst)
            if r is None:
                if dk in (z3.Z3_OP_FPA_MUL, z3.Z3_OP_FPA_ADD) and ch[1].get_id() > ch[2].get_id(): ch = [ch[0], ch[2], ch[1]]
                r = t.decl()(*ch)
        else: r = t
        memo[k] = (t, r); return r      # keep t alive: ids of collected temporaries are reused
    return z3.simplify(go(z3.simplify(e)))
def job_lemmas(S):
    """the IEEE identities canon() relies on, all bit patterns"""
    for t, (c, w) in FT.items():
        x = z3.BitVec('x', w); y = z3.BitVec('y', w); X, Y = fpof(x), fpof(y); one = FPV(1.0, w); z = FPV(0.0, w); tm = S.cap(120, 300)
        S.prove('c12.ieee-lemma.%s.mul-one' % t, val_eq(z3.fpMul(RNE, X, one), X), timeout=tm, kind='lemma', bounds='all x')
        S.prove('c12.ieee-lemma.%s.lt-as-not-leq' % t, z3.fpLT(X, Y) == z3.And(z3.Not(z3.fpIsNaN(X)), z3.Not(z3.fpIsNaN(Y)), z3.Not(z3.fpLEQ(Y, X))), timeout=tm, kind='lemma', bounds='all x, y')
        S.prove('c12.ieee-lemma.%s.sqrt-negative-is-nan' % t, z3.Implies(z3.fpLT(X, z), z3.fpIsNaN(z3.fpSqrt(RNE, X))), timeout=tm, kind='lemma', bounds='all x')
        S.prove('c12.ieee-lemma.%s.sqrt-facts' % t, sqrt_fact(X, z3.fpSqrt(RNE, X)), timeout=tm, kind='lemma', bounds='all x', mandatory=False)
REGIONS = {'tir': lambda res, k: canon(z3.fpLT(fk(res.ins, res.ins[0][0].size())[0], FPV(0.0, res.ins[0][0].size())))}
def knan(w): return lambda i: [canon(z3.Not(z3.fpIsNaN(fk(i, w)[0])))]
def refract_fp_spec(L, w, split):
    """'==' on FP terms is SMT-LIB '=': identical value, +0 and -0 distinct, all NaNs identified (i.e. bit-identical or both NaN).
    split=False: one atom per component  out == (k < 0 ? +0 : eta*I - (eta*dot(N,I) + sqrt(k))*N);
    split=True: the two halves as separate labels (needed where a known finding covers only the k < 0 half)"""
    def spec(i, o):
        I = [fpof(x) for x in i[0]]; N = [fpof(x) for x in i[1]]; eta = fpof(i[2][0]); zero = FPV(0.0, w); ab = not concrete(i)
        k, d = fk(i, w); c = z3.fpAdd(RNE, z3.fpMul(RNE, eta, d), z3.fpSqrt(RNE, k)); g = []
        for j in range(L):
            f = z3.fpSub(RNE, z3.fpMul(RNE, eta, I[j]), z3.fpMul(RNE, c, N[j]))
            g.append(('zero-on-total-reflection%d' % j, canon(z3.Implies(z3.fpLT(k, zero), fpv_of(o[0][j]) == zero), ab)))
            if split: g.append(('formula-otherwise%d' % j, canon(z3.Implies(z3.fpGEQ(k, zero), fpv_of(o[0][j]) == f), ab)))
            else: g.append(('glsl-definition%d' % j, canon(fpv_of(o[0][j]) == z3.If(z3.fpLT(k, zero), zero, f), ab)))
        return g
    return spec
def faceforward_fp_spec(L, w):
    def spec(i, o):
        N = i[0]; d = fdot([fpof(x) for x in i[2]], [fpof(x) for x in i[1]])
        return [('decision%d' % j, canon(z3.If(z3.fpLT(d, FPV(0.0, w)), fpv_of(o[0][j]) == fpof(N[j]), val_eq(fpv_of(o[0][j]), z3.fpNeg(fpof(N[j])))))) for j in range(L)]
    return spec
def signflip_spec(L, w):
    def spec(i, o):
        d = fdot([fpof(x) for x in i[2]], [fpof(x) for x in i[1]])
        return [('sign-flip%d' % j, canon(z3.Implies(z3.Not(z3.fpLT(d, FPV(0.0, w))), fpv_of(o[0][j]) == z3.fpNeg(fpof(i[0][j]))))) for j in range(L)]
    return spec
def fp_check(S, fname, spec, pre=None, *, name, timeout, solver='z3', bounds='', slices=(), witness=True, side=True, validate=None, mutant=None):
    """check_fn for bit-precise obligations, built for detection as much as for proof.  Per goal: (1) the query generalised over its arithmetic sub-terms
    (decides in ms on the unchanged tree, where code and transcription meet syntactically); (2) the direct query; (3) if that times out, the direct query restricted
    to sparse input SLICES (most components +0) in which a counterexample is small enough to be found - a model is a genuine counterexample of the unrestricted
    obligation and is replayed natively like any other.  A restriction is never used to prove anything."""
    SQRT_CONSTS.clear()
    res = S.check_fn(U, fname, None, pre, timeout=timeout, solver=solver, name=name, bounds=bounds, witness=False, side=side, validate=validate)
    if res is None: return None
    fn = U.fns[fname]; p = pre(res.ins) if pre else []
    hyps = input_wellformed(fn, res.ins) + list(p if isinstance(p, (list, tuple)) else [p]) + res.axioms + pin_hyps(S, name, res.ins)
    if witness and not S.pins:     # the hypotheses are satisfiable: witnessed at the all-zero input (searching one costs the solver 20 s of multiplier bit-blasting)
        S.prove(name + '.witness', z3.BoolVal(False), hyps + [x == 0 for r_ in res.ins for x in r_], timeout=S.cap(20, 60), kind='witness', functions=['w_' + fname], bounds=bounds, expect='sat', mandatory=False)
    goals = spec(res.ins, res.outs); facts = [sqrt_fact(t_, c_) for t_, c_ in SQRT_CONSTS.values()]; vars_ = [x for r_ in res.ins for x in r_]
    fnlist = ['w_%s -> %s' % (fname, fn.body.strip().replace('\n', ' ')[:160])]; binfo = bounds + '; ll=' + U.ll_sha(); found = False
    for label, g in goals:
        oname = '%s.%s' % (name, label); rp = S._replayer(res, (spec, label), pre, U, fname, 'fp', oname)
        def done(used, dt, how=''):
            S.rec(name=oname, kind='spec', functions=fnlist, bounds=binfo + how, solver=used, result='unsat', time_s=round(dt, 3), status='discharged', mandatory=True)
        ga = abstract_arith(hyps + [g])
        r, m, dt, used = S.query(ga[:-1] + [z3.Not(ga[-1])], S.cap(10, 30), 'z3')
        if r == 'unsat': done(used, dt, '; generalised over the arithmetic sub-terms'); continue
        t1 = 5 if found else (S.cap(10, 30) if getattr(S, 'c12_fail', 0) >= 3 else S.cap(30, 90)); t2 = 5 if found else S.cap(10, 30)
        last = None; proved = False
        for sn, cons, tmo in [(None, [], t1)] + [(sn_, sl_(res.ins), t2) for sn_, sl_ in slices]:
            r, m, dt, used = S.query(hyps + facts + cons + [z3.Not(g)], tmo, solver, vars_)
            if sn is None and r == 'unsat': done(used, dt); proved = True; break
            if sn is None: last = (r, dt, used, None, None)
            if r != 'sat': continue
            try: verdict, info = rp(m)
            except Exception: verdict, info = 'replay-error', {'error': traceback.format_exc()[-1500:]}
            if isinstance(info, dict): info['pin_name'] = name
            last = ('sat', dt, used, verdict, info)
            if verdict == 'reproduced': break
        if proved: continue
        r, dt, used, verdict, info = last
        rec = S.rec(name=oname, kind='spec', functions=fnlist, bounds=binfo, solver=used, result=r, time_s=round(dt, 3), mandatory=True)
        if verdict == 'reproduced':
            rec.update(status='counterexample', replay=verdict, replay_info=info); S.violations.append((oname, info)); found = True
        else:
            rec['status'] = 'inconclusive' if verdict is None else 'inconclusive(cex not reproduced)'
            if verdict is not None: rec.update(replay=verdict, replay_info=info)
            S.inconclusive.append(oname + ('' if verdict is None else ' [counterexample not reproduced natively: ' + verdict + ']')); S.c12_fail = getattr(S, 'c12_fail', 0) + 1
    if mutant is not None and not S.quick:      # mutant twins: deliberately wrong goals must be refutable; searched inside the first slice, where the solver finds the refutation in seconds
        for label, g in mutant(res.ins, res.outs):
            S.prove('%s.twin.%s' % (name, label), g, hyps + facts + (slices[0][1](res.ins) if slices else []), timeout=timeout, solver=solver, kind='mutant-twin', functions=fnlist, bounds=binfo, expect='sat', mandatory=False, vars_=vars_)
    return res
def zero_tail(rows, keep=1):
    """slice: all but the first `keep` components of the listed input vectors are +0"""
    return lambda i: [x == 0 for r_ in rows for x in i[r_][keep:]]
def refract_slices(L, w):
    one = z3.BitVecVal(f32(1.0) if w == 32 else f64(1.0), w)
    sl = [('N = 0, eta = 1', lambda i: [x == 0 for x in i[1]] + [i[2][0] == one]), ('vec1', zero_tail((0, 1)))]      # N = 0, eta = 1: k = 0 exactly and the formula gives I
    if L >= 2:
        axes = lambda i: [x == 0 for x in i[0][1:]] + [x == 0 for k_, x in enumerate(i[1]) if k_ != 1]      # I along x, N along y: dot(N,I) = 0
        sl += [('orthogonal axes, eta = 1', lambda i: axes(i) + [i[2][0] == one]), ('orthogonal axes', axes), ('vec2', zero_tail((0, 1), 2))]
    return sl
def acos_args(t):
    out = {}; st = [t]; seen = set()
    while st:
        x = st.pop()
        if x.get_id() in seen: continue
        seen.add(x.get_id())
        if z3.is_app(x) and x.decl().kind() == z3.Z3_OP_UNINTERPRETED and x.decl().name().startswith('acos') and x.num_args() == 1: out[x.get_id()] = x.arg(0)
        st.extend(x.children())
    return list(out.values())
def angle_fp_spec(w, dotf):
    """the argument handed to acos is NaN (only when the IEEE dot product is) or lies in [-1, 1] - unit vectors whose dot product rounds above 1 must not
    produce NaN.  On concrete replay (no term to inspect): a non-NaN dot product does not give a NaN angle (libm acos is NaN exactly outside [-1, 1])."""
    def spec(i, o):
        out = fpv_of(o[0][0]); one = FPV(1.0, w); mone = FPV(-1.0, w)
        if concrete(i): return [('acos-argument-in-domain', z3.Or(z3.fpIsNaN(dotf(i)), z3.Not(z3.fpIsNaN(out))))]
        args = acos_args(out)
        if not args: return [('acos-argument-in-domain', z3.BoolVal(False))]
        return [('acos-argument-in-domain', z3.And(*[z3.Or(z3.fpIsNaN(a_), z3.And(z3.fpLEQ(mone, a_), z3.fpLEQ(a_, one))) for a_ in args]))]
    return spec
def job_fp(t, L):
    c, w = FT[t]; s = '_v%d_%s' % (L, t)
    def run(S):
        tm = S.cap(90, 300); sv = 'cvc5' if w == 64 else 'z3'      # z3 does not find models of double-precision product chains; cvc5 does
        res = fp_check(S, 'refract' + s, refract_fp_spec(L, w, False), knan(w), timeout=tm, solver=sv, name='c12.refract%s.fp' % s, bounds='all bit patterns of I, N, eta for which the documented k is not NaN', slices=refract_slices(L, w),
                         mutant=lambda i, o: [('m', z3.Implies(z3.fpLEQ(fk(i, w)[0], FPV(0.0, w)), fpv_of(o[0][0]) == FPV(0.0, w)))])
        fp_check(S, 'faceforward' + s, faceforward_fp_spec(L, w), timeout=tm, solver=sv, name='c12.faceforward%s.fp' % s, bounds='all bit patterns (NaN, inf, +-0 included)', slices=[('vec1', zero_tail((0, 1, 2)))],
                   mutant=lambda i, o: [('m', z3.If(z3.fpLEQ(fdot([fpof(x) for x in i[2]], [fpof(x) for x in i[1]]), FPV(0.0, w)), fpv_of(o[0][0]) == fpof(i[0][0]), val_eq(fpv_of(o[0][0]), z3.fpNeg(fpof(i[0][0])))))])
        if L <= 2:   # vec1/vec2 unary minus is a pure sign-bit flip (vec3/vec4 compute 0 - v: value-equal, sign of a zero component differs -> C01)
            fp_check(S, 'faceforward' + s, signflip_spec(L, w), timeout=tm, solver=sv, name='c12.faceforward%s.fp-signflip' % s, side=False, witness=False, validate=0, bounds='all bit patterns (NaN payloads not compared)', slices=[('vec1', zero_tail((0, 1, 2)))])
        fp_check(S, 'angle' + s, angle_fp_spec(w, lambda i: fdot([fpof(x) for x in i[0]], [fpof(x) for x in i[1]])), timeout=tm, solver=sv, name='c12.angle%s.fp' % s, bounds='all bit patterns', slices=[('vec1', zero_tail((0, 1)))])
    return run
def job_fp_scalar(t):
    c, w = FT[t]
    def run(S):
        tm = S.cap(90, 300)
        sv = 'cvc5' if w == 64 else 'z3'
        fp_check(S, 's_refract_' + t, refract_fp_spec(1, w, False), knan(w), timeout=tm, solver=sv, slices=refract_slices(1, w), name='c12.s_refract_%s.fp' % t, bounds='all bit patterns for which the documented k is not NaN')
        fp_check(S, 's_faceforward_' + t, faceforward_fp_spec(1, w), timeout=tm, solver=sv, name='c12.s_faceforward_%s.fp' % t, bounds='all bit patterns')
        fp_check(S, 's_faceforward_' + t, signflip_spec(1, w), timeout=tm, solver=sv, name='c12.s_faceforward_%s.fp-signflip' % t, side=False, witness=False, validate=0, bounds='all bit patterns (NaN payloads not compared)')
        # scalar and vec1 overloads take the same decision on the same values
        for f, hyp in (('faceforward', lambda i: []), ('refract', knan(w))):
            ins = mkvars(U.fns['s_%s_%s' % (f, t)])
            r1 = sym_call(U, 's_%s_%s' % (f, t), ins=ins); r2 = sym_call(U, '%s_v1_%s' % (f, t), ins=ins)
            S.prove('c12.%s_%s.scalar-vs-vec1' % (f, t), canon(same_float(r1.outs[0][0], r2.outs[0][0])), hyp(ins) + r1.axioms + r2.axioms, timeout=tm,
                    functions=['s_%s_%s' % (f, t), '%s_v1_%s' % (f, t)], bounds='all bit patterns' + ('' if f == 'faceforward' else ' for which the documented k is not NaN'))
        def rspec(i, o):
            I, N = fpof(i[0][0]), fpof(i[1][0])
            return [('formula', canon(same_float(o[0][0], z3.fpToIEEEBV(z3.fpSub(RNE, I, z3.fpMul(RNE, z3.fpMul(RNE, N, z3.fpMul(RNE, N, I)), FPV(2.0, w)))))))]
        fp_check(S, 's_reflect_' + t, rspec, timeout=tm, solver=sv, name='c12.s_reflect_%s.fp' % t, bounds='all bit patterns; I - N*dot(N,I)*2 evaluated in IEEE')
        fp_check(S, 's_angle_' + t, angle_fp_spec(w, lambda i: z3.fpMul(RNE, fpof(i[0][0]), fpof(i[0][1]))), timeout=tm, solver=sv, name='c12.s_angle_%s.fp' % t, bounds='all bit patterns')
        fp_check(S, 'oangle2_' + t, angle_fp_spec(w, lambda i: fdot([fpof(x) for x in i[0]], [fpof(x) for x in i[1]])), timeout=tm, solver=sv, name='c12.oangle2_%s.fp' % t, bounds='all bit patterns')
        fp_check(S, 'oangle3_' + t, angle_fp_spec(w, lambda i: fdot([fpof(x) for x in i[0]], [fpof(x) for x in i[1]])), timeout=tm, solver=sv, name='c12.oangle3_%s.fp' % t, bounds='all bit patterns')
    return run

# ---- no intermediate overflow inside the property's domain ("squared norms neither overflow nor underflow")
OVF_FNS = ['proj_v2', 'normalize_v1', 'normalize_v2', 'normalize_v3', 'normalize_v4', 'cross', 'cross2', 'length2_v1', 'length2_v2', 'length2_v3', 'length2_v4', 'dot_v1', 'dot_v2',
           'distance2_v1', 'distance2_v2', 'faceforward_v1', 'faceforward_v2', 's_dot', 's_length2', 's_distance2', 's_faceforward']
def job_overflow(t):
    """every intermediate value of the rounding-erased computation (each add / sub / mul / div node of the executed code) stays below the overflow threshold of the element
    type for ALL inputs whose squared norms lie in [2^-100, 2^100] (float) / [2^-900, 2^900] (double): a re-association such as N * dot(x, N) / dot(N, N) for
    dot(x, N) / dot(N, N) * N computes the same real value but overflows inside the documented domain.  A counterexample is replayed natively (non-finite result on finite inputs)."""
    w = 32 if t == 'f32' else 64; e_in = 100 if w == 32 else 900; e_max = 127 if w == 32 else 1023
    LO = z3.RealVal(2) ** (-e_in); HI = z3.RealVal(2) ** e_in; BIG = z3.RealVal(2) ** e_max
    def run(S):
        for base in OVF_FNS:
            fn = '%s_%s' % (base, t)
            if fn not in U.fns: continue
            try: res = sym_call(U, fn, mode='real')
            except Unsupported as e:
                S.rec(name='c12.%s.no-overflow' % fn, kind='encode', result='unsupported', status='not-encoded', note=str(e)[:200], mandatory=True, functions=[fn]); S.inconclusive.append('c12.%s.no-overflow [not encoded]' % fn); continue
            outs = [x.r for o in res.outs for x in o if isinstance(x, RV)]
            nodes = {}; st = list(outs)
            while st:
                x = st.pop(); k = x.get_id()
                if k in nodes: continue
                nodes[k] = x; st.extend(x.children())
            arith = [x for x in nodes.values() if z3.is_app(x) and z3.is_real(x) and x.num_args() > 0 and x.decl().kind() in (z3.Z3_OP_ADD, z3.Z3_OP_SUB, z3.Z3_OP_MUL, z3.Z3_OP_DIV, z3.Z3_OP_UMINUS)]
            hy = list(res.axioms); fnd = U.fns[fn]
            for (c, n), vec in zip(fnd.ins, res.ins):
                if all(z3.is_real(x) for x in vec):
                    n2 = sum_(x * x for x in vec); hy += [n2 >= LO, n2 <= HI]
            def replay(m, fn=fn, res=res, fnd=fnd):
                vals = [[float_to_bits(float(z3val_to_fraction(m.eval(x, model_completion=True))), w) for x in vec] for vec in res.ins]
                nat = U.call_native(fn, vals); info = {'unit': U.name, 'fn': fn, 'inputs': [[hex(v) for v in r] for r in vals], 'native_out': [[hex(v) for v in r] for r in nat], 'property': 'C12', 'obligation': 'c12.%s.no-overflow' % fn}
                bad = False
                for (c, n), row in zip(fnd.outs, nat):
                    if ct_kind(c) != 'f': continue
                    for v in row:
                        f = bits_to_float(v, ct_bits(c))
                        if f != f or f in (float('inf'), float('-inf')): bad = True
                return ('reproduced' if bad else 'not-reproduced'), info
            for k_, x in enumerate(sorted(arith, key=lambda y: str(y))):
                S.prove('c12.%s.no-overflow[%d]' % (fn, k_), z3.If(x >= 0, x, -x) <= BIG, hy, timeout=S.cap(20, 60), solver='z3', kind='magnitude', functions=['w_' + fn], replay=replay,
                        bounds='rounding-erased; every input vector with squared norm in [2^-%d, 2^%d]; intermediate: %s' % (e_in, e_in, str(x)[:120].replace('\n', ' ')))
    return run
def sum_(xs):
    r = None
    for x in xs: r = x if r is None else r + x
    return r

def jobs(tier):
    J = []
    for t in FT: J.append(('overflow_' + t, job_overflow(t)))
    for t in FT:
        for L in (1, 2, 3, 4):
            J.append(('core_real_v%d_%s' % (L, t), job_core_real(t, L)))
            J.append(('fp_v%d_%s' % (L, t), job_fp(t, L)))
            J.append(('angle_v%d_%s' % (L, t), job_angle(t, L)))
        J += [('scalar_real_' + t, job_scalar_real(t)), ('gtx_' + t, job_gtx3(t)), ('ortho_m3_' + t, job_ortho_m3(t))]
        J.append(('fp_scalar_' + t, job_fp_scalar(t)))
    J.append(('ieee_lemmas', job_lemmas))
    return J
