"""C11 - common functions obey their documented per-value definitions on all floats; constants are correctly rounded
(detail/func_common.inl, ext/scalar_common.inl, ext/vector_common.inl, gtx/common.inl, gtx/compatibility.inl, ext/scalar_constants.inl, gtc/constants.inl)."""
from props.common import *
from fractions import Fraction
import json
LEVEL = 'proof'
CLAIM = ("floor ceil trunc round roundEven fract abs sign isnan isinf, the four bit casts, min max clamp (2/3/4-argument, scalar/vector/broadcast overloads) step smoothstep mix (float and bool "
         "interpolator) mod modf frexp ldexp, fmin fmax fclamp (2/3/4-argument), the texture-coordinate wrappers clamp/repeat/mirrorClamp/mirrorRepeat, iround/uround, gtx/common isdenormal fmod "
         "openBounded closeBounded, the gtx/compatibility twins lerp saturate isfinite atan2 and gtc/epsilon epsilonEqual epsilonNotEqual are executed symbolically from their clang IR with one fully symbolic float (and double) per argument; "
         "the solver shows that every result is the value prescribed by the GLSL / header definition written directly in SMT-LIB floating-point operations (fp.roundToIntegral in the five modes, "
         "comparisons, selections, integer arithmetic on bit patterns). For functions that are a bare library call the obligation is the routing/lifting one (right function, right argument order, "
         "applied to every component). The formula obligations of mix/lerp/mod/smoothstep (compiled code = IEEE evaluation of the documented formula) are decided syntactically: both sides are "
         "brought to one operand order of the commutative fp.add/fp.mul (commutativity re-proved as c11.lemma.commute-*) and compared as terms; only if they differ is the solver asked. "
         "Hard sub-circuits (the division and the Hermite polynomial of smoothstep, |x| and x-floor(x) and the parity term of mirrorRepeat) are cut: a lemma about the executed sub-term is proved for every "
         "value of a fresh variable (cvc5 or z3) and the sub-term is replaced by a fresh float constrained only by the proved facts. Every constant of ext/scalar_constants and gtc/constants: the literal returned by the compiled function lies strictly between the midpoints to its two "
         "neighbouring floats/doubles around a rigorous mpmath interval enclosure of the named quantity (rational arithmetic in the solver).")
BOUNDS = ('all 2^32 float / 2^64 double patterns per argument (n symbolic arguments for n-ary functions), scalar overloads and vector lengths 1-4 (quick: float all lengths except vec3 only for smoothstep/roundEven/frexp/modf/ldexp; '
          'double all lengths for the groups decided in milliseconds, scalar only for fract roundEven smoothstep modf frexp ldexp wrap mirrorRepeat; all 31 constants x {float, double} in both tiers); smoothstep: edge0 < edge1 and x-edge0, edge1-edge0 do not overflow; '
          'clamp/fclamp range facts: minVal <= maxVal; iround/uround: 0 <= x < 2^31 - 0.5 / 2^32 - 0.5 (every x whose nearest integer is representable; x >= 0 is the documented assert); wrap functions: finite coordinates; '
          'frexp/ldexp: all finite x, all 32-bit exponents')
OUTSIDE = ('accuracy of the composite float formulas mod and mix (only the IEEE evaluation of the documented formula, end values and exact special cases are decided) and the interior of smoothstep '
           '(range [0,1]: float proved, double >= 0 proved and <= 1 attempted as an optional obligation in the thorough tier only: the lemma P(t) <= 1 on [0,1] for doubles does not finish); fmod/atan2 values (library functions, uninterpreted: only routing and lifting); NaN payloads and signaling NaNs (SMT-LIB FP has one NaN: natively glm::fmin/fmax/fclamp, which forward to std::fmin/fmax, return NaN for a SIGNALING NaN operand when the call reaches glibc - IEEE 754-2008 minNum - and ignore it when the compiler inlines the call; quiet NaNs behave as proved); which zero fmin/fmax return for operands +0, -0; the undefined behaviour of the int casts inside '
           'roundEven for |x| >= 2^31, inf, NaN (that is C20; here only the returned value is checked, side obligations of roundEven are not discharged); the pre-C++11 fallbacks (C15) and SIMD paths (C03)')
ASSUMPTIONS = ['term normalisation canon(): z3 simplifier + sorting of fp.add/fp.mul operands + to_fp(to_ieee_bv(x)) = x + pushing a bit reinterpretation through a selection (the IEEE identities used are re-proved each run in job ieee_lemmas)',
               'cvc5 1.0.3 (default FP solver, no int-blasting) decides the pure FP lemmas about one division / one subtraction; z3 is the fallback',
               'libm modf/frexp/ldexp are modelled bit-exactly by engine/models.py (modf_model, frexp_model, ldexp_model); floor/ceil/trunc/round/fmin/fmax/fabs by the corresponding SMT-LIB FP operations; '
               'all validated against native execution on sampled special values each run',
               'fmod and atan2 are uninterpreted functions (only which function is applied to which arguments is decided)',
               'constant enclosures come from mpmath interval arithmetic (mpmath.iv, 80 digits) - trusted arithmetic',
               'named quantity of a constant = the documentation line in gtc/constants.hpp / ext/scalar_constants.hpp (three_over_two_pi is documented as pi/2*3)']

U = Unit('c11', includes=['glm/glm.hpp', 'glm/ext/scalar_common.hpp', 'glm/ext/vector_common.hpp', 'glm/gtx/wrap.hpp', 'glm/gtx/common.hpp', 'glm/gtx/compatibility.hpp',
                          'glm/gtc/constants.hpp', 'glm/ext/scalar_constants.hpp', 'glm/gtc/epsilon.hpp'])
FT = {'f32': ('float', 32), 'f64': ('double', 64), 'i32': ('int', 32)}

# ----------------------------------------------------------------------------- SMT helpers (specification side only)
def F(b): return fpv_of(b)
def K(v, w): return z3.FPVal(v, FSORT[w])
def ident(a, b): return a == b                       # SMT-LIB '=' on FP terms: same value including the sign of zero; NaN = NaN
def valeq(a, b): return z3.Or(z3.fpEQ(a, b), z3.And(z3.fpIsNaN(a), z3.fpIsNaN(b)))     # numerically equal (+0 == -0), NaN <-> NaN
def nn(*xs): return conj([z3.Not(z3.fpIsNaN(x)) for x in xs])
def fin(*xs): return conj([z3.And(z3.Not(z3.fpIsNaN(x)), z3.Not(z3.fpIsInf(x))) for x in xs])
def rti(m, x): return z3.fpRoundToIntegral(m, x)
def fields(b):
    w = b.size(); mb = 23 if w == 32 else 52
    return z3.Extract(w - 1, w - 1, b), z3.Extract(w - 2, mb, b), z3.Extract(mb - 1, 0, b)
def bit_nan(b): s, e, m = fields(b); return z3.And(e == z3.BitVecVal(-1, e.size()), m != 0)
def bit_inf(b): s, e, m = fields(b); return z3.And(e == z3.BitVecVal(-1, e.size()), m == 0)
def bit_sub(b): s, e, m = fields(b); return z3.And(e == 0, m != 0)
def g_min(x, y): return z3.If(z3.fpLT(y, x), y, x)          # GLSL: returns y if y < x, otherwise x
def g_max(x, y): return z3.If(z3.fpLT(x, y), y, x)          # GLSL: returns y if x < y, otherwise x
def g_clamp(x, lo, hi): return g_min(g_max(x, lo), hi)      # GLSL: min(max(x, minVal), maxVal)
def wide(x, w):
    eb, sb = (8, 24) if w == 32 else (11, 53)
    return z3.fpFPToFP(RNE, x, z3.FPSort(eb + 4, sb))
def pow2wide(e, w):
    """2^e (|e| clamped far outside the format's range) as a value of the widened sort, built from its bit pattern"""
    eb, sb = (8, 24) if w == 32 else (11, 53); web = eb + 4; bias = (1 << (web - 1)) - 1; L = 2 * ((1 << (eb - 1)) + sb) + 8
    ec = z3.If(e > L, z3.BitVecVal(L, 32), z3.If(e < -L, z3.BitVecVal(-L, 32), e))
    return z3.fpBVToFP(z3.Concat(z3.BitVecVal(0, 1), z3.Extract(web - 1, 0, ec) + bias, z3.BitVecVal(0, sb - 1)), z3.FPSort(web, sb))
def scaled(x, e, w):
    """x * 2^e rounded once to the format (the value GLSL ldexp names), via an exact product in a wider format"""
    return z3.fpFPToFP(RNE, z3.fpMul(RNE, wide(x, w), pow2wide(e, w)), FSORT[w])
def g_abs(x, w): return z3.If(z3.fpGEQ(x, K(0, w)), x, z3.fpNeg(x))     # GLSL: returns x if x >= 0, otherwise -x
def odd_integral(fl, w):
    """fl is a finite non-negative integral float: is it odd?  Read off the bit pattern: with unbiased exponent e the unit bit is
    bit (mb - e) of the significand 1.M; integers with e > mb are even, e < 0 means fl = 0."""
    b = z3.fpToIEEEBV(fl); mb = 23 if w == 32 else 52; bias = 127 if w == 32 else 1023
    s_, E, M = fields(b); sig = z3.Concat(z3.BitVecVal(1, 1), M); eb = E.size()
    sh = z3.BitVecVal(bias + mb, eb) - E
    return z3.And(z3.UGE(E, bias), z3.ULE(E, bias + mb), z3.Extract(0, 0, z3.LShR(sig, z3.ZeroExt(mb + 1 - eb, sh))) == 1)
# --- syntactic normal form: the compiled code and the transcribed IEEE formula contain the same multiplications with (possibly) commuted operands; bit-blasting two
# commuted 24/53-bit multipliers against each other does not finish, so both sides are brought to ONE operand order and compared as terms.  The only rewrites are
# z3's simplifier (x - y -> x + (-y), constant folding; part of the trusted solver) and commutativity of fp.add / fp.mul (exact in SMT-LIB FP: one NaN, no payloads;
# re-proved every run as the obligations c11.lemma.commute-*).  The operand order is the order of a structural hash (independent of term ids / creation order).
import hashlib
_COMM = (z3.Z3_OP_FPA_MUL, z3.Z3_OP_FPA_ADD)
def _kind(t): return t.decl().kind() if z3.is_app(t) else None
def canon(e, simp=True):
    """(term, is_syntactically_true): e with fp.add/fp.mul operands sorted, float reinterpretations pushed through selections
    (to_fp(c ? p : q) -> c ? to_fp(p) : to_fp(q);  to_fp(to_ieee_bv(x)) -> x, z3 has a single NaN), t fp.eq t -> not NaN(t), and equalities between identical terms folded to true"""
    memo = {}
    def go(t):
        k = t.get_id()
        if k in memo: return memo[k][1], memo[k][2]
        if z3.is_app(t) and t.num_args() > 0:
            rs = [go(c_) for c_ in t.children()]; ch = [r_[0] for r_ in rs]; ks = [r_[1] for r_ in rs]; dk = t.decl().kind(); res = None
            if dk == z3.Z3_OP_FPA_TO_FP and len(ch) == 1 and z3.is_bv(ch[0]):
                c0 = ch[0]
                if _kind(c0) == z3.Z3_OP_FPA_TO_IEEE_BV and c0.arg(0).sort() == t.sort(): res = go(c0.arg(0))
                elif _kind(c0) == z3.Z3_OP_ITE: res = go(z3.If(c0.arg(0), t.decl()(c0.arg(1)), t.decl()(c0.arg(2))))
            elif dk == z3.Z3_OP_EQ and ks[0] == ks[1]: res = (z3.BoolVal(True), 'true')
            elif dk == z3.Z3_OP_FPA_EQ and ks[0] == ks[1]: res = go(z3.Not(z3.fpIsNaN(ch[0])))       # t fp.eq t  <=>  t is not NaN; makes valeq(t, t) fold to true
            if res is None:
                if dk in _COMM and ks[1] > ks[2]: ch = [ch[0], ch[2], ch[1]]; ks = [ks[0], ks[2], ks[1]]
                res = (t.decl()(*ch), hashlib.sha1(('%s%s:%s(%s)' % (t.decl().name(), t.decl().params(), t.sort(), ','.join(ks))).encode()).hexdigest())
        else:
            res = (t, 'true' if z3.is_true(t) else hashlib.sha1(('%s:%s' % (t.sexpr(), t.sort())).encode()).hexdigest())
        memo[k] = (t, res[0], res[1]); return res          # keep t alive: ids of collected temporaries are reused
    r = go(z3.simplify(e) if simp else e)[0]
    return r, z3.is_true(r) or z3.is_true(z3.simplify(r))
def syn(goal):
    """goal, or literally true when its two sides meet syntactically after canon()"""
    r, ok = canon(goal)
    return z3.BoolVal(True) if ok else r
# --- term surgery for cut lemmas: a hard sub-circuit of the executed term (a division, a polynomial) is covered by a lemma that is proved
# for ALL values of a fresh variable put in place of the sub-term's argument, then instantiated (by syntactic substitution) at the real argument
def dag(t):
    seen = set(); out = []; st = [t]
    while st:
        x = st.pop()
        if x.get_id() in seen: continue
        seen.add(x.get_id()); out.append(x); st.extend(reversed(x.children()))
    return out
def find_kind(t, kind): return [x for x in dag(t) if z3.is_app(x) and x.decl().kind() == kind]
def free_consts(t): return [x for x in dag(t) if z3.is_const(x) and x.decl().kind() == z3.Z3_OP_UNINTERPRETED]
def contains(t, sub): i = sub.get_id(); return any(x.get_id() == i for x in dag(t))
def lemma(S, name, goal, hyps, timeout, w, mandatory=True, cvc5_first=False):
    """cvc5_first: pure SMT-LIB FP lemmas about one division / subtraction are decided by cvc5 in 0.1-2 s where z3 needs 5-50 s (double); z3 remains the fallback"""
    if cvc5_first:
        asserts = list(hyps) + [z3.Not(goal)]
        try: r, m, dt, used = S.query(asserts, min(timeout / 3.0, 60), 'cvc5', free_consts(z3.And(*asserts)))
        except Exception: r = 'unknown'
        if r == 'unsat':
            S.rec(name='c11.lemma.%s_f%d' % (name, w), kind='lemma', functions=[], bounds='pure SMT-LIB FP lemma over fresh variables (no glm code); instantiated in the obligations that follow', solver=used, result=r,
                  time_s=round(dt, 3), mandatory=mandatory, note='', status='discharged')
            return True
    r, m = S.prove('c11.lemma.%s_f%d' % (name, w), goal, hyps, timeout=timeout, kind='lemma', mandatory=mandatory, bounds='pure SMT-LIB FP lemma over fresh variables (no glm code); instantiated in the obligations that follow')
    return r == 'unsat'
# ----------------------------------------------------------------------------- specifications: spec(w, X, O) -> [(label, goal)]
def sp_rti(mode, exact=True, label='value'):
    def spec(w, X, O):
        r = rti(mode, F(X[0])); return [(label, ident(O.fp, r) if exact else valeq(O.fp, r))]
    return spec
def sp_fract(w, X, O):
    x = F(X[0])
    return [('definition', ident(O.fp, z3.fpSub(RNE, x, rti(RTN, x)))), ('ge-zero', z3.Implies(fin(x), z3.fpGEQ(O.fp, K(0, w)))), ('le-one', z3.Implies(fin(x), z3.fpLEQ(O.fp, K(1, w))))]
def sp_abs(w, X, O): return [('value', valeq(O.fp, z3.fpAbs(F(X[0])))), ('definition', ident(O.fp, g_abs(F(X[0]), w)))]
def sp_sign(w, X, O):
    x = F(X[0]); one = K(1, w)
    return [('value', z3.Implies(nn(x), valeq(O.fp, z3.If(z3.fpGT(x, K(0, w)), one, z3.If(z3.fpLT(x, K(0, w)), z3.fpNeg(one), K(0, w)))))),
            ('in-set', z3.Or(z3.fpEQ(O.fp, one), z3.fpEQ(O.fp, z3.fpNeg(one)), z3.fpEQ(O.fp, K(0, w))))]
def sp_iabs(w, X, O): return [('value', O == z3.If(X[0] < 0, -X[0], X[0]))]
def sp_isign(w, X, O): return [('value', O == z3.If(X[0] > 0, z3.BitVecVal(1, 32), z3.If(X[0] < 0, z3.BitVecVal(-1, 32), z3.BitVecVal(0, 32))))]
def sp_isnan(w, X, O): return [('value', (O == 1) == bit_nan(X[0]))]
def sp_isinf(w, X, O): return [('value', (O == 1) == bit_inf(X[0]))]
def sp_isfinite(w, X, O): return [('value', (O == 1) == z3.Not(z3.Or(bit_nan(X[0]), bit_inf(X[0]))))]
def sp_isdenormal(w, X, O): return [('value', (O == 1) == bit_sub(X[0]))]
def sp_bits_out(w, X, O): return [('lossless', O == X[0])]                      # floatBitsToInt/Uint: integer carries the exact pattern
def sp_bits_in(w, X, O): return [('lossless', O.bits == X[0])]                  # intBitsToFloat/uintBitsToFloat: float carries the exact pattern
def sp_min(w, X, O): return [('definition', ident(O.fp, g_min(F(X[0]), F(X[1]))))]
def sp_max(w, X, O): return [('definition', ident(O.fp, g_max(F(X[0]), F(X[1]))))]
def sp_minmaxN(ismin):
    def spec(w, X, O):
        xs = [F(x) for x in X]; h = nn(*xs); cmp_ = z3.fpLEQ if ismin else z3.fpGEQ
        return [('bound-%s' % 'abcd'[j], z3.Implies(h, cmp_(O.fp, x))) for j, x in enumerate(xs)] + [('is-operand', z3.Implies(h, z3.Or(*[z3.fpEQ(O.fp, x) for x in xs])))]
    return spec
def sp_clamp(w, X, O):
    x, lo, hi = [F(v) for v in X]; h = z3.And(nn(x, lo, hi), z3.fpLEQ(lo, hi))
    return [('definition', ident(O.fp, g_clamp(x, lo, hi))), ('ge-min', z3.Implies(h, z3.fpGEQ(O.fp, lo))), ('le-max', z3.Implies(h, z3.fpLEQ(O.fp, hi))),
            ('identity-inside', z3.Implies(z3.And(h, z3.fpLEQ(lo, x), z3.fpLEQ(x, hi)), ident(O.fp, x)))]
def sp_saturate(w, X, O):
    x = F(X[0])
    return [('definition', ident(O.fp, g_clamp(x, K(0, w), K(1, w)))), ('ge-zero', z3.Implies(nn(x), z3.fpGEQ(O.fp, K(0, w)))), ('le-one', z3.Implies(nn(x), z3.fpLEQ(O.fp, K(1, w))))]
def sp_step(w, X, O):
    edge, x = F(X[0]), F(X[1]); return [('definition', ident(O.fp, z3.If(z3.fpLT(x, edge), K(0, w), K(1, w))))]
def pre_smooth(w, X):
    e0, e1, x = [F(v) for v in X]
    return [fin(e0, e1, x), z3.fpLT(e0, e1), fin(z3.fpSub(RNE, x, e0)), fin(z3.fpSub(RNE, e1, e0))]
def sp_smooth_ends(w, X, O):
    e0, e1, x = [F(v) for v in X]
    ordered = z3.fpGEQ(z3.fpSub(RNE, x, e0), z3.fpSub(RNE, e1, e0))      # monotonicity of the rounded subtraction is a theorem of IEEE arithmetic the solvers do not decide in time
    return [('zero-below', z3.Implies(z3.fpLEQ(x, e0), z3.fpEQ(O.fp, K(0, w)))),
            ('one-above-given-ordered-differences', z3.Implies(z3.And(z3.fpGEQ(x, e1), ordered), ident(O.fp, K(1, w))))]
def sp_smooth_formula(w, X, O):
    e0, e1, x = [F(v) for v in X]; t = g_clamp(z3.fpDiv(RNE, z3.fpSub(RNE, x, e0), z3.fpSub(RNE, e1, e0)), K(0, w), K(1, w))       # GLSL: t = clamp((x-edge0)/(edge1-edge0), 0, 1); t*t*(3-2*t)
    return [('formula', syn(ident(O.fp, z3.fpMul(RNE, z3.fpMul(RNE, t, t), z3.fpSub(RNE, K(3, w), z3.fpMul(RNE, K(2, w), t))))))]
def sp_smooth_range(w, X, O): return [('ge-zero', z3.fpGEQ(O.fp, K(0, w))), ('le-one', z3.fpLEQ(O.fp, K(1, w)))]
def mix_formula(x, y, a, w): return z3.fpAdd(RNE, z3.fpMul(RNE, x, z3.fpSub(RNE, K(1, w), a)), z3.fpMul(RNE, y, a))     # GLSL: x*(1-a) + y*a
def at_const(goal, var, val):
    """var = val -> goal, with the constant propagated into goal (a = 0 / a = 1 make the multiplications of mix trivial once they are constants; with a symbolic a the double instances
    need 10-40 s).  The hypothesis is kept so that a counterexample carries the constant and is replayed with it."""
    c = z3.BitVecVal(val, var.size())
    return z3.Implies(var == c, goal if z3.is_bv_value(var) else z3.simplify(z3.substitute(goal, (var, c))))
def fbits(v, w):
    import struct
    return struct.unpack('<I', struct.pack('<f', v))[0] if w == 32 else struct.unpack('<Q', struct.pack('<d', v))[0]
def sp_mix(w, X, O):
    x, y, a = [F(v) for v in X]; e0 = z3.Implies(fin(x, y), z3.fpEQ(O.fp, x)); e1 = z3.Implies(fin(x, y), z3.fpEQ(O.fp, y))
    return [('formula', syn(ident(O.fp, mix_formula(x, y, a, w)))),     # syn: one canonical operand order of the commutative fp.add/fp.mul on both sides
            ('end-a-zero', at_const(e0, X[2], fbits(0.0, w))), ('end-a-negative-zero', at_const(e0, X[2], fbits(-0.0, w))), ('end-a-one', at_const(e1, X[2], fbits(1.0, w)))]
def sp_mixb(w, X, O): return [('select', same_float(O, z3.If(X[2] == 1, X[1], X[0])))]
def mod_formula(x, y): return z3.fpSub(RNE, x, z3.fpMul(RNE, y, rti(RTN, z3.fpDiv(RNE, x, y))))                            # GLSL: x - y*floor(x/y)
def sp_mod(w, X, O): return [('formula', syn(ident(O.fp, mod_formula(F(X[0]), F(X[1])))))]
def sp_mod_one(w, X, O):
    x = F(X[0]); return [('mod-by-one-is-fract', z3.Implies(fin(x), valeq(O.fp, z3.fpSub(RNE, x, rti(RTN, x)))))]
def uf2(name, w): return z3.Function('%s%d' % (name, w), FSORT[w], FSORT[w], FSORT[w])
def sp_fmod(w, X, O): return [('routing', ident(O.fp, uf2('fmod', w)(F(X[0]), F(X[1]))))]
def sp_atan2(w, X, O): return [('routing', ident(O.fp, uf2('atan2', w)(F(X[0]), F(X[1]))))]
def sp_modf(w, X, O):
    x = F(X[0]); fr, ip = O[0], O[1]; sb = lambda b: z3.Extract(w - 1, w - 1, b)
    return [('sum', z3.Implies(fin(x), ident(z3.fpAdd(RNE, fr.fp, ip.fp), x))), ('whole-is-trunc', ident(ip.fp, rti(RTZ, x))),
            ('fraction-below-one', z3.Implies(nn(x), z3.fpLT(z3.fpAbs(fr.fp), K(1, w)))),
            ('sign-of-fraction', z3.Implies(nn(x), sb(fr.bits) == sb(X[0]))), ('sign-of-whole', z3.Implies(nn(x), sb(ip.bits) == sb(X[0]))),
            ('fraction-of-inf', z3.Implies(z3.fpIsInf(x), z3.fpIsZero(fr.fp)))]
def sp_frexp(w, X, O):
    x = F(X[0]); m, e = O[0], O[1]; h = z3.And(fin(x), z3.Not(z3.fpIsZero(x)))
    return [('significand-ge-half', z3.Implies(h, z3.fpGEQ(z3.fpAbs(m.fp), K(0.5, w)))), ('significand-lt-one', z3.Implies(h, z3.fpLT(z3.fpAbs(m.fp), K(1, w)))),
            ('product', z3.Implies(h, wide(x, w) == z3.fpMul(RNE, wide(m.fp, w), pow2wide(e, w)))), ('exponent-range', z3.Implies(h, z3.And(e >= (-148 if w == 32 else -1073), e <= (128 if w == 32 else 1024)))),
            ('zero', z3.Implies(z3.fpIsZero(x), z3.And(m.bits == X[0], e == 0)))]
def sp_ldexp(w, X, O):
    x = F(X[0]); return [('scaled', z3.Implies(fin(x), ident(O.fp, scaled(x, X[1], w))))]
def sp_frexp_ldexp(w, X, O): return [('roundtrip', z3.Implies(fin(F(X[0])), O.bits == X[0]))]
def sp_fminmaxN(ismin):
    """documented: NaN operands are ignored; the result is NaN only if every operand is NaN"""
    def spec(w, X, O):
        xs = [F(x) for x in X]; cmp_ = z3.fpLEQ if ismin else z3.fpGEQ
        g = [('nan-iff-all-nan', z3.fpIsNaN(O.fp) == conj([z3.fpIsNaN(x) for x in xs]))]
        g += [('bound-%s' % 'abcd'[j], z3.Implies(nn(x), cmp_(O.fp, x))) for j, x in enumerate(xs)]
        g += [('is-operand', z3.Or(z3.fpIsNaN(O.fp), *[z3.And(nn(x), z3.fpEQ(O.fp, x)) for x in xs]))]
        return g
    return spec
def sp_fclamp(w, X, O):
    x, lo, hi = [F(v) for v in X]; h = z3.And(nn(lo, hi), z3.fpLEQ(lo, hi))
    return [('nan-iff-all-nan', z3.fpIsNaN(O.fp) == z3.And(z3.fpIsNaN(x), z3.fpIsNaN(lo), z3.fpIsNaN(hi))),
            ('clamps', z3.Implies(z3.And(h, nn(x)), valeq(O.fp, g_clamp(x, lo, hi)))), ('nan-x-gives-min', z3.Implies(z3.And(h, z3.fpIsNaN(x)), z3.fpEQ(O.fp, lo)))]
def sp_wrap_clamp(w, X, O):
    x = F(X[0]); return [('definition', ident(O.fp, g_clamp(x, K(0, w), K(1, w)))), ('ge-zero', z3.Implies(nn(x), z3.fpGEQ(O.fp, K(0, w)))), ('le-one', z3.Implies(nn(x), z3.fpLEQ(O.fp, K(1, w))))]
def sp_repeat(w, X, O):
    x = F(X[0]); return [('is-fract', ident(O.fp, z3.fpSub(RNE, x, rti(RTN, x)))), ('ge-zero', z3.Implies(fin(x), z3.fpGEQ(O.fp, K(0, w)))), ('le-one', z3.Implies(fin(x), z3.fpLEQ(O.fp, K(1, w))))]
def sp_mirrorClamp(w, X, O):
    x = F(X[0]); ax = g_abs(x, w)
    return [('is-fract-of-abs', valeq(O.fp, z3.fpSub(RNE, ax, rti(RTN, ax)))), ('ge-zero', z3.Implies(fin(x), z3.fpGEQ(O.fp, K(0, w)))), ('le-one', z3.Implies(fin(x), z3.fpLEQ(O.fp, K(1, w))))]
def sp_mirrorRepeat(w, X, O):
    x = F(X[0]); ax = g_abs(x, w); fl = rti(RTN, ax); rest = z3.fpSub(RNE, ax, fl)
    return [('mirror-value', z3.Implies(fin(x), z3.fpEQ(O.fp, z3.If(odd_integral(fl, w), z3.fpSub(RNE, K(1, w), rest), rest)))),
            ('ge-zero', z3.Implies(fin(x), z3.fpGEQ(O.fp, K(0, w)))), ('le-one', z3.Implies(fin(x), z3.fpLEQ(O.fp, K(1, w))))]
def sp_iround(unsigned):
    def spec(w, X, O):
        x = F(X[0]); cv = z3.fpToUBV if unsigned else z3.fpToSBV
        return [('nearest', z3.Or(O == cv(RNA, x, z3.BitVecSort(32)), O == cv(RNE, x, z3.BitVecSort(32))))]
    return spec
def pre_iround(unsigned):
    def pre(w, X):
        x = F(X[0]); return [z3.fpGEQ(x, K(0, w)), z3.fpLT(x, K(2.0 ** (32 if unsigned else 31) - 0.5, w))]        # documented assert 0 <= x; nearest integer (ties away) below 2^31 / 2^32
    return pre
def sp_bounded(strict):
    def spec(w, X, O):
        v, lo, hi = [F(x) for x in X]
        return [('value', (O == 1) == (z3.And(z3.fpGT(v, lo), z3.fpLT(v, hi)) if strict else z3.And(z3.fpGEQ(v, lo), z3.fpLEQ(v, hi))))]
    return spec

# ----------------------------------------------------------------------------- cut lemmas: factories eh(S, w) -> extra_hyps(res)
def out_fps(res): return [o.fp for row in res.outs for o in row if isinstance(o, FV)]
def _cached(S, key, thunk):
    d = S.__dict__.setdefault('_c11_lemmas', {})
    if key not in d: d[key] = thunk()
    return d[key]
def _uniq(hy):
    seen = set(); out = []
    for h in hy:
        if h.get_id() not in seen: seen.add(h.get_id()); out.append(h)
    return out
def fresh_fp(S, w, pfx):
    S.__dict__['_c11_n'] = S.__dict__.get('_c11_n', 0) + 1
    return z3.FP('%s!%d' % (pfx, S.__dict__['_c11_n']), FSORT[w])
def cut_divisions(S, w, res, cuts, hy, need_nan=True):
    """replace every division a/b of the executed term by a fresh float d constrained only by lemmas proved for all a, b (finite, b > 0):
    a >= b -> a/b >= 1;  a <= 0 -> a/b <= 0;  a/b is not NaN"""
    a, b = z3.FP('lem_a', FSORT[w]), z3.FP('lem_b', FSORT[w]); q = z3.fpDiv(RNE, a, b); base = [fin(a, b), z3.fpGT(b, K(0, w))]
    ok1 = _cached(S, ('q1', w), lambda: lemma(S, 'quotient-ge-one', z3.fpGEQ(q, K(1, w)), base + [z3.fpGEQ(a, b)], S.cap(200, 600), w, cvc5_first=True))
    ok0 = _cached(S, ('q0', w), lambda: lemma(S, 'quotient-le-zero', z3.fpLEQ(q, K(0, w)), base + [z3.fpLEQ(a, K(0, w))], S.cap(200, 600), w, cvc5_first=True))
    okn = need_nan and _cached(S, ('qn', w), lambda: lemma(S, 'quotient-not-nan', z3.Not(z3.fpIsNaN(q)), base, S.cap(200, 600), w, cvc5_first=True))
    seen = set()
    for r in out_fps(res):
        for D in find_kind(r, z3.Z3_OP_FPA_DIV):
            if D.get_id() in seen: continue
            seen.add(D.get_id())
            A, B = D.arg(1), D.arg(2); pre = z3.And(fin(A, B), z3.fpGT(B, K(0, w))); d = fresh_fp(S, w, 'cut_quot')
            cuts.append((D, d))
            if ok1: hy.append(z3.Implies(z3.And(pre, z3.fpGEQ(A, B)), z3.fpGEQ(d, K(1, w))))
            if ok0: hy.append(z3.Implies(z3.And(pre, z3.fpLEQ(A, K(0, w))), z3.fpLEQ(d, K(0, w))))
            if okn: hy.append(z3.Implies(pre, z3.Not(z3.fpIsNaN(d))))
def cut_abs(S, w, res, cuts, hy):
    """the compiled glm::abs is a selection between the argument's bit pattern and the pattern with the sign bit flipped, reinterpreted as a float; that sub-term T(x) is shown
    to be identical (SMT-LIB '=') to the GLSL definition  x >= 0 ? x : -x  for every x and then replaced by it, so that what follows meets the transcribed formula syntactically"""
    seen = set(); ARITH = (z3.Z3_OP_FPA_ADD, z3.Z3_OP_FPA_SUB, z3.Z3_OP_FPA_MUL, z3.Z3_OP_FPA_DIV, z3.Z3_OP_FPA_ROUND_TO_INTEGRAL, z3.Z3_OP_FPA_FMA, z3.Z3_OP_FPA_SQRT)
    for r in out_fps(res):
        for T in find_kind(r, z3.Z3_OP_ITE):
            if T.get_id() in seen or not z3.is_fp(T): continue
            seen.add(T.get_id()); fc = free_consts(T)
            if len(fc) != 1 or not z3.is_bv(fc[0]) or fc[0].size() != w or any(_kind(x) in ARITH for x in dag(T)): continue
            v = z3.BitVec('lem_x', w); Tv = z3.substitute(T, (fc[0], v)); goal = Tv == g_abs(F(v), w)
            def screen(goal=goal):      # candidate search only (is this selection the compiled abs?): a failed screen is not a verdict about glm
                sv = z3.Solver(); sv.set('timeout', 5000); sv.add(z3.Not(goal)); return sv.check() == z3.unsat
            if not _cached(S, ('abs?', w, Tv.sexpr()), screen): continue
            if _cached(S, ('abs', w, Tv.sexpr()), lambda: lemma(S, 'compiled-abs-is-glsl-abs', goal, [], S.cap(60, 200), w)):
                cuts.append((T, canon(g_abs(F(fc[0]), w))[0]))
def cut_fract(S, w, res, cuts, hy, nonneg=True):
    """replace every g - floor(g) of the executed term by a fresh float r constrained only by lemmas proved for all finite g >= 0:  0 <= g - floor(g) < 1"""
    g = z3.FP('lem_g', FSORT[w]); fr = canon(z3.fpSub(RNE, g, rti(RTN, g)))[0]; base = [fin(g), z3.fpGEQ(g, K(0, w))]
    ok0 = _cached(S, ('fr0', w), lambda: lemma(S, 'fract-ge-zero', z3.fpGEQ(fr, K(0, w)), base, S.cap(100, 300), w, cvc5_first=True))
    ok1 = _cached(S, ('fr1', w), lambda: lemma(S, 'fract-lt-one', z3.fpLT(fr, K(1, w)), base, S.cap(100, 300), w, cvc5_first=True))
    seen = set()
    for r0 in out_fps(res):
        r0 = apply_cuts(r0, cuts)
        for A in find_kind(r0, z3.Z3_OP_FPA_ADD):
            G = None
            for p_, q_ in ((A.arg(1), A.arg(2)), (A.arg(2), A.arg(1))):
                if z3.is_app(q_) and q_.decl().kind() == z3.Z3_OP_FPA_NEG and z3.is_app(q_.arg(0)) and q_.arg(0).decl().kind() == z3.Z3_OP_FPA_ROUND_TO_INTEGRAL \
                        and q_.arg(0).arg(0).eq(RTN) and q_.arg(0).arg(1).eq(p_): G = p_
            if G is None or A.get_id() in seen: continue
            seen.add(A.get_id()); dom = z3.And(fin(G), z3.fpGEQ(G, K(0, w))); rv = fresh_fp(S, w, 'cut_fract'); cuts.append((A, rv))
            if ok0: hy.append(z3.Implies(dom, z3.fpGEQ(rv, K(0, w))))
            if ok1: hy.append(z3.Implies(dom, z3.fpLT(rv, K(1, w))))
def apply_cuts(t, cuts):
    for old, new in cuts: t = canon(z3.substitute(t, (old, new)), simp=False)[0]       # re-sort: the structural order of operands changes with the replaced sub-term
    return t
def cut_hermite(S, w, res, cuts, hy, rng=True, upper=True, ends=False):
    """cut at the Hermite polynomial: the executed P(tmp) (whatever operand order the compiler chose) is replaced by a fresh float p constrained only by facts proved for EVERY float t
    put in place of tmp:  rng: 0 <= t <= 1 -> 0 <= P(t) (and P(t) <= 1 if upper);  ends: t fp.eq 0 -> P(t) fp.eq 0,  t = 1 -> P(t) = 1"""
    for r0 in out_fps(res):
        r0 = apply_cuts(r0, cuts)
        muls = find_kind(r0, z3.Z3_OP_FPA_MUL)
        sq = [m for m in muls if m.arg(1).eq(m.arg(2))]
        if len(sq) != 1 or not muls or not contains(muls[0], sq[0]): continue
        tmp = sq[0].arg(1); top = muls[0]; t = z3.FP('lem_t', FSORT[w]); P = canon(z3.substitute(top, (tmp, t)), simp=False)[0]     # same polynomial as top up to operand order
        if [x.get_id() for x in free_consts(P)] != [t.get_id()]: continue
        dom = [z3.fpGEQ(t, K(0, w)), z3.fpLEQ(t, K(1, w))]; inst = z3.And(z3.fpGEQ(tmp, K(0, w)), z3.fpLEQ(tmp, K(1, w)))
        pv = fresh_fp(S, w, 'cut_hermite'); cuts.append((top, pv))
        if rng and _cached(S, ('p0', w, P.sexpr()), lambda: lemma(S, 'hermite-ge-zero', z3.fpGEQ(P, K(0, w)), dom, S.cap(120, 400), w)): hy.append(z3.Implies(inst, z3.fpGEQ(pv, K(0, w))))
        if rng and upper and _cached(S, ('p1', w, P.sexpr()), lambda: lemma(S, 'hermite-le-one', z3.fpLEQ(P, K(1, w)), dom, S.cap(600, 1200), w, mandatory=(w == 32))): hy.append(z3.Implies(inst, z3.fpLEQ(pv, K(1, w))))
        if ends and _cached(S, ('e0', w, P.sexpr()), lambda: lemma(S, 'hermite-at-zero', z3.fpEQ(P, K(0, w)), [z3.fpEQ(t, K(0, w))], S.cap(120, 400), w)): hy.append(z3.Implies(z3.fpEQ(tmp, K(0, w)), z3.fpEQ(pv, K(0, w))))
        if ends and _cached(S, ('e1', w, P.sexpr()), lambda: lemma(S, 'hermite-at-one', P == K(1, w), [t == K(1, w)], S.cap(120, 400), w)): hy.append(z3.Implies(tmp == K(1, w), pv == K(1, w)))
def eh_smooth_div(S, w):
    def eh(res):
        cuts = []; hy = []; cut_divisions(S, w, res, cuts, hy, need_nan=False)      # the end-value obligations only use quotient <= 0 / >= 1 (which already exclude NaN)
        cut_hermite(S, w, res, cuts, hy, rng=False, ends=True); return hy, cuts
    return eh
def eh_smooth_range(S, w, upper=True):
    def eh(res):
        cuts = []; hy = []; cut_divisions(S, w, res, cuts, hy); cut_hermite(S, w, res, cuts, hy, rng=True, upper=upper); return hy, cuts
    return eh
def eh_mirror(S, w):
    """cut at c = mod(floor(g), 2) with g = |x|: the executed term fl - 2*floor(fl/2) (in whatever form the compiler left it, e.g. fl*0.5) is shown to be 1 for odd
    fl = floor(g) and 0 for even fl, for every finite g >= 0, and is then replaced by a fresh float c constrained by exactly that"""
    def eh(res):
        cuts = []; hy = []; seen = set(); RTI = z3.Z3_OP_FPA_ROUND_TO_INTEGRAL
        cut_abs(S, w, res, cuts, hy)
        for r0 in out_fps(res):
            r0 = apply_cuts(r0, cuts)
            rtis = find_kind(r0, RTI)
            inner = [x for x in rtis if not find_kind(x.arg(1), RTI)]
            outer = [x for x in rtis if find_kind(x.arg(1), RTI)]
            if len(inner) != 1 or len(outer) != 1 or not contains(outer[0], inner[0]): continue
            FL, FL2 = inner[0], outer[0]; G = FL.arg(1)
            cands = [x for x in find_kind(r0, z3.Z3_OP_FPA_ADD) + find_kind(r0, z3.Z3_OP_FPA_SUB) if any(c_.eq(FL) for c_ in x.children()) and contains(x, FL2)]
            if len(cands) != 1 or cands[0].get_id() in seen: continue
            C = cands[0]; seen.add(C.get_id()); g = z3.FP('lem_g', FSORT[w]); Ca = canon(z3.substitute(C, (G, g)), simp=False)[0]; FLa = z3.substitute(FL, (G, g))
            if [x.get_id() for x in free_consts(Ca)] != [g.get_id()]: continue
            if _cached(S, ('par', w, Ca.sexpr()), lambda: lemma(S, 'floor-mod-two-is-parity', Ca == z3.If(odd_integral(FLa, w), K(1, w), K(0, w)), [fin(g), z3.fpGEQ(g, K(0, w))], S.cap(200, 600), w)):
                c = fresh_fp(S, w, 'cut_parity'); cuts.append((C, c))
                hy.append(z3.Implies(z3.And(fin(G), z3.fpGEQ(G, K(0, w))), c == z3.If(odd_integral(FL, w), K(1, w), K(0, w))))
        cut_fract(S, w, res, cuts, hy)
        return hy, cuts
    return eh
def eh_abs(S, w):
    def eh(res):
        cuts = []; hy = []; cut_abs(S, w, res, cuts, hy); return hy, cuts
    return eh

# ----------------------------------------------------------------------------- regions of the known findings
def _roundeven_region(res, k):
    x = res.ins[0][k]; w = x.size(); fx = fpof(x); r = z3.Or(z3.fpIsInf(fx), z3.fpIsNaN(fx))
    if w == 64:   # doubles have ties k+0.5 beyond the int range; floats do not (every float >= 2^23 is an integer)
        r = z3.Or(r, z3.And(z3.fpGEQ(z3.fpAbs(fx), K(2.0 ** 31, w)), z3.fpEQ(z3.fpAbs(z3.fpSub(RNE, fx, rti(RTZ, fx))), K(0.5, w))))
    return r
def _iround_region(res, k):
    x = res.ins[0][k]; w = x.size(); fx = fpof(x)
    if w == 64: return x == z3.BitVecVal(0x3fdfffffffffffff, 64)
    return z3.Or(x == z3.BitVecVal(0x3effffff, 32), z3.And(z3.fpGEQ(fx, K(2.0 ** 23, 32)), z3.fpLT(fx, K(2.0 ** 24, 32)), z3.Extract(0, 0, x) == 1))
REGIONS = {'roundeven_bad': _roundeven_region, 'iround_bad': _iround_region}

# ----------------------------------------------------------------------------- table of functions
class E:
    def __init__(s, name, args, out, call, spec, pre=None, variants=(), known=(), side=True, types=('f32', 'f64'), bounds='', mut=None, Ls=(1, 2, 3, 4), body_s=None, body_v=None,
                 timeout=None, mandatory=True, heavy=False, group=None, eh=None, alias=None):
        s.name = name; s.args = args; s.out = out if isinstance(out, (list, tuple)) else [out]; s.multi = isinstance(out, (list, tuple)); s.call = call; s.spec = spec; s.pre = pre
        s.variants = variants; s.known = list(known); s.side = side; s.types = types; s.bounds = bounds; s.mut = mut; s.Ls = Ls; s.body_s = body_s; s.body_v = body_v
        s.timeout = timeout; s.mandatory = mandatory; s.heavy = heavy; s.group = group or name; s.eh = eh; s.alias = alias
def ct(a, t): return FT[t][0] if a == 'T' else a
TAB = []
def add(*a, **k): TAB.append(E(*a, **k))
for f, m in (('floor', RTN), ('ceil', RTP), ('trunc', RTZ), ('round', RNA)):
    add(f, ['T'], 'T', 'glm::%s({0})' % f, sp_rti(m), variants=('v',), bounds='all x (NaN -> NaN, sign of zero exact)', mut=sp_rti(RNE), group='rounding')
add('roundEven', ['T'], 'T', 'glm::roundEven({0})', sp_rti(RNE, exact=False, label='rne'), variants=('v',), known=['KF-C11-roundEven-nonfinite'], side=False,
    bounds='all x, by value (+0 == -0)', mut=sp_rti(RNA, exact=False), timeout=(400, 600))
add('fract', ['T'], 'T', 'glm::fract({0})', sp_fract, variants=('v',), bounds='definition: all x; range: all finite x')
add('abs', ['T'], 'T', 'glm::abs({0})', sp_abs, variants=('v',), bounds='all x', group='abs_sign')
add('sign', ['T'], 'T', 'glm::sign({0})', sp_sign, variants=('v',), bounds='all x', group='abs_sign')
add('iabs', ['T'], 'T', 'glm::abs({0})', sp_iabs, pre=lambda w, X: [X[0] != z3.BitVecVal(1 << 31, 32)], variants=('v',), types=('i32',), bounds='all int x != INT_MIN', group='abs_sign')
add('isign', ['T'], 'T', 'glm::sign({0})', sp_isign, variants=('v',), types=('i32',), bounds='all int x', group='abs_sign')
add('isnan', ['T'], 'bool', 'glm::isnan({0})', sp_isnan, variants=('v',), bounds='all x, against the bit-pattern definition', group='classify')
add('isinf', ['T'], 'bool', 'glm::isinf({0})', sp_isinf, variants=('v',), bounds='all x, against the bit-pattern definition', group='classify')
add('isfinite', ['T'], 'bool', 'glm::isfinite({0})', sp_isfinite, variants=('v',), bounds='all x', group='classify')
add('isdenormal', ['T'], 'bool', 'glm::isdenormal({0})', sp_isdenormal, variants=('v',), bounds='all x', group='classify')
add('floatBitsToInt', ['float'], 'int', 'glm::floatBitsToInt({0})', sp_bits_out, variants=('v',), types=('f32',), bounds='all patterns incl. NaN payloads', group='bitcast')
add('floatBitsToUint', ['float'], 'unsigned', 'glm::floatBitsToUint({0})', sp_bits_out, variants=('v',), types=('f32',), bounds='all patterns incl. NaN payloads', group='bitcast')
add('intBitsToFloat', ['int'], 'float', 'glm::intBitsToFloat({0})', sp_bits_in, variants=('v',), types=('f32',), bounds='all patterns incl. NaN payloads', group='bitcast')
add('uintBitsToFloat', ['unsigned'], 'float', 'glm::uintBitsToFloat({0})', sp_bits_in, variants=('v',), types=('f32',), bounds='all patterns incl. NaN payloads', group='bitcast')
add('bitsRoundtrip', ['float'], 'float', 'glm::intBitsToFloat(glm::floatBitsToInt({0}))', sp_bits_in, variants=('v',), types=('f32',), bounds='all patterns incl. NaN payloads', group='bitcast')
add('ubitsRoundtrip', ['float'], 'float', 'glm::uintBitsToFloat(glm::floatBitsToUint({0}))', sp_bits_in, variants=('v',), types=('f32',), bounds='all patterns incl. NaN payloads', group='bitcast')
add('min', ['T', 'T'], 'T', 'glm::min({0}, {1})', sp_min, variants=('vv', 'vs'), bounds='all x, y incl. NaN and signed zeros (GLSL selection rule)', mut=sp_max, group='minmax')
add('max', ['T', 'T'], 'T', 'glm::max({0}, {1})', sp_max, variants=('vv', 'vs'), bounds='all x, y incl. NaN and signed zeros (GLSL selection rule)', mut=sp_min, group='minmax')
for n_ in (3, 4):
    cs = ', '.join('{%d}' % j for j in range(n_))
    add('min%d' % n_, ['T'] * n_, 'T', 'glm::min(%s)' % cs, sp_minmaxN(True), variants=('v' * n_,), bounds='all non-NaN operands', group='minmaxN')
    add('max%d' % n_, ['T'] * n_, 'T', 'glm::max(%s)' % cs, sp_minmaxN(False), variants=('v' * n_,), bounds='all non-NaN operands', group='minmaxN')
    add('fmin%d' % n_, ['T'] * n_, 'T', 'glm::fmin(%s)' % cs, sp_fminmaxN(True), variants=('v' * n_,), bounds='all operands incl. NaN', group='fmin%d' % n_)
    add('fmax%d' % n_, ['T'] * n_, 'T', 'glm::fmax(%s)' % cs, sp_fminmaxN(False), variants=('v' * n_,), bounds='all operands incl. NaN', group='fmax%d' % n_)
add('fmin2', ['T', 'T'], 'T', 'glm::fmin({0}, {1})', sp_fminmaxN(True), variants=('vv', 'vs'), bounds='all operands incl. NaN', mut=lambda w, X, O: sp_fminmaxN(False)(w, X, O)[1:2], group='fminmax2')
add('fmax2', ['T', 'T'], 'T', 'glm::fmax({0}, {1})', sp_fminmaxN(False), variants=('vv', 'vs'), bounds='all operands incl. NaN', group='fminmax2')
add('fclamp', ['T', 'T', 'T'], 'T', 'glm::fclamp({0}, {1}, {2})', sp_fclamp, variants=('vvv', 'vss'), bounds='NaN rule: all operands; clamping: minVal <= maxVal')
add('clamp', ['T', 'T', 'T'], 'T', 'glm::clamp({0}, {1}, {2})', sp_clamp, variants=('vvv', 'vss'), bounds='definition: all operands; range facts: non-NaN, minVal <= maxVal')
add('saturate', ['T'], 'T', 'glm::saturate({0})', sp_saturate, variants=('v',), Ls=(2, 3, 4), bounds='all x', group='compat')
add('step', ['T', 'T'], 'T', 'glm::step({0}, {1})', sp_step, variants=('vv', 'sv'), bounds='all edge, x incl. NaN', mut=lambda w, X, O: [('m', ident(O.fp, z3.If(z3.fpLEQ(F(X[1]), F(X[0])), K(0, w), K(1, w))))])
add('smoothstep', ['T', 'T', 'T'], 'T', 'glm::smoothstep({0}, {1}, {2})', sp_smooth_ends, pre=pre_smooth, variants=('vvv', 'ssv'), bounds='finite, edge0 < edge1, differences do not overflow', timeout=(300, 600), eh=eh_smooth_div)
add('smoothstep_formula', ['T', 'T', 'T'], 'T', 'glm::smoothstep({0}, {1}, {2})', sp_smooth_formula, variants=('vvv', 'ssv'), bounds='IEEE evaluation of the GLSL formula, all operands', timeout=(300, 600), group='smoothstep')
add('smoothstep_at_edge1', ['T', 'T', 'T'], 'T', 'glm::smoothstep({0}, {1}, {2})', lambda w, X, O: [('one-at-edge-one', ident(O.fp, K(1, w)))], pre=pre_smooth, variants=('vvv', 'ssv'), alias=(2, 1),
    bounds='x = edge1 (same value passed twice), finite, edge0 < edge1, difference does not overflow', timeout=(300, 600), eh=eh_smooth_div, group='smoothstep')
add('smoothstep_range', ['T', 'T', 'T'], 'T', 'glm::smoothstep({0}, {1}, {2})', lambda w, X, O: sp_smooth_range(w, X, O)[:1 if w == 64 else 2], pre=pre_smooth, variants=('vvv',),
    bounds='finite, edge0 < edge1, differences do not overflow; double: only >= 0', timeout=(300, 600), eh=lambda S, w: eh_smooth_range(S, w, upper=(w == 32)))
add('smoothstep_le_one', ['T', 'T', 'T'], 'T', 'glm::smoothstep({0}, {1}, {2})', lambda w, X, O: sp_smooth_range(w, X, O)[1:], pre=pre_smooth, types=('f64',), mandatory=False, heavy=True,
    bounds='finite, edge0 < edge1, differences do not overflow', timeout=(300, 600), eh=eh_smooth_range, group='smoothstep_le_one')
add('mix', ['T', 'T', 'T'], 'T', 'glm::mix({0}, {1}, {2})', sp_mix, variants=('vvv', 'vvs'), bounds='formula: all operands; end values: finite x, y', timeout=(300, 600))
add('lerp', ['T', 'T', 'T'], 'T', 'glm::lerp({0}, {1}, {2})', sp_mix, variants=('vvv', 'vvs'), Ls=(2, 3, 4), bounds='formula: all operands; end values: finite x, y', timeout=(300, 600), group='compat')
add('mixb', ['T', 'T', 'bool'], 'T', 'glm::mix({0}, {1}, {2})', sp_mixb, variants=('vvv', 'vvs'), bounds='all x, y (bit-exact), both selector values')
add('mod', ['T', 'T'], 'T', 'glm::mod({0}, {1})', sp_mod, variants=('vv', 'vs'), bounds='IEEE evaluation of x - y*floor(x/y), all operands')
add('mod_one', ['T'], 'T', 'glm::mod({0}, T_(1))', sp_mod_one, bounds='y = 1, all finite x', timeout=(300, 600), heavy=True)
add('fmod', ['T', 'T'], 'T', 'glm::fmod({0}, {1})', sp_fmod, variants=('vv', 'vs'), bounds='routing/lifting only (fmod uninterpreted)', group='routing')
add('atan2', ['T', 'T'], 'T', 'glm::atan2({0}, {1})', sp_atan2, variants=('vv',), Ls=(2, 3, 4), bounds='routing/lifting only (atan2 uninterpreted)', group='routing')
add('modf', ['T'], ['T', 'T'], None, sp_modf, variants=('v',), bounds='all x', timeout=(600, 900),
    body_s='T_ ip; o[0] = glm::modf(a[0], ip); o2[0] = ip;', body_v='glm::vec<L_,T_> ip; stv(o, glm::modf(ldv<L_,T_>(a), ip)); stv(o2, ip);')
add('frexp', ['T'], ['T', 'int'], None, sp_frexp, variants=('v',), bounds='all x', timeout=(600, 900),
    body_s='int e; o[0] = glm::frexp(a[0], e); o2[0] = e;', body_v='glm::vec<L_,int> e; stv(o, glm::frexp(ldv<L_,T_>(a), e)); stv(o2, e);')
add('ldexp', ['T', 'int'], 'T', 'glm::ldexp({0}, {1})', sp_ldexp, variants=('vv',), bounds='all finite x, all int exponents', timeout=(600, 900))
add('frexp_ldexp', ['T'], 'T', None, sp_frexp_ldexp, bounds='all finite x', timeout=(600, 900), heavy=True, body_s='int e; T_ m = glm::frexp(a[0], e); o[0] = glm::ldexp(m, e);')
add('wrap_clamp', ['T'], 'T', 'glm::clamp({0})', sp_wrap_clamp, variants=('v',), bounds='all x', group='wrap')
add('repeat', ['T'], 'T', 'glm::repeat({0})', sp_repeat, variants=('v',), bounds='all finite x', group='wrap')
add('mirrorClamp', ['T'], 'T', 'glm::mirrorClamp({0})', sp_mirrorClamp, variants=('v',), bounds='all finite x', group='wrap', eh=eh_abs)
add('mirrorRepeat', ['T'], 'T', 'glm::mirrorRepeat({0})', sp_mirrorRepeat, variants=('v',), bounds='all finite x', timeout=(150, 500), eh=eh_mirror)
add('iround', ['T'], 'int', 'glm::iround({0})', sp_iround(False), pre=pre_iround(False), variants=('v',), bounds='0 <= x < 2^31 - 0.5 (every x whose nearest integer is an int)', timeout=(300, 600))
add('uround', ['T'], 'unsigned', 'glm::uround({0})', sp_iround(True), pre=pre_iround(True), variants=('v',), bounds='0 <= x < 2^32 - 0.5 (every x whose nearest integer is an unsigned)', timeout=(300, 600))
add('openBounded', ['T', 'T', 'T'], 'bool', 'glm::openBounded({0}, {1}, {2})', sp_bounded(True), variants=('vvv',), Ls=(1, 2, 3, 4), bounds='all operands', group='compat')
add('closeBounded', ['T', 'T', 'T'], 'bool', 'glm::closeBounded({0}, {1}, {2})', sp_bounded(False), variants=('vvv',), Ls=(1, 2, 3, 4), bounds='all operands', group='compat')
def sp_epsilon(eq):
    def spec(w, X, O):
        x, y, eps = [F(v) for v in X]; d = z3.fpAbs(z3.fpSub(RNE, x, y))                  # documented: |x - y| < epsilon   /   |x - y| >= epsilon
        return [('value', (O == 1) == (z3.fpLT(d, eps) if eq else z3.fpGEQ(d, eps)))]
    return spec
add('epsilonEqual', ['T', 'T', 'T'], 'bool', 'glm::epsilonEqual({0}, {1}, {2})', sp_epsilon(True), variants=('vvv', 'vvs'), bounds='all x, y, epsilon incl. NaN, infinities', group='epsilon',
    mut=sp_epsilon(False))
add('epsilonNotEqual', ['T', 'T', 'T'], 'bool', 'glm::epsilonNotEqual({0}, {1}, {2})', sp_epsilon(False), variants=('vvv', 'vvs'), bounds='all x, y, epsilon incl. NaN, infinities', group='epsilon')
SCALARLESS = {'openBounded', 'closeBounded'}            # vector-only functions
TABD = {e.name: e for e in TAB}

def wname(e, t, var=None, L=0): return '%s_%s' % (e.name, t) if var is None else '%s_%s%d_%s' % (e.name, var, L, t)
def gen():
    for e in TAB:
        for t in e.types:
            T_ = FT[t][0]
            sub = lambda s, L=0: s.replace('T_', T_).replace('L_', str(L))
            if e.name not in SCALARLESS:
                ins = [(ct(a, t), 1) for a in e.args]
                outs = [(ct(o_, t), 1) for o_ in e.out]
                body = sub(e.body_s) if e.body_s else 'o[0] = %s;' % sub(e.call).format(*['%s[0]' % 'abcdefgh'[j] for j in range(len(e.args))])
                U.add(wname(e, t), ins, outs, body)
            for var in e.variants:
                for L in e.Ls:
                    ins = [(ct(a, t), L if v == 'v' else 1) for a, v in zip(e.args, var)]
                    outs = [(ct(o_, t), L) for o_ in e.out]
                    if e.body_v: body = sub(e.body_v, L)
                    else:
                        ex = ['ldv<%d,%s>(%s)' % (L, ct(a, t), 'abcdefgh'[j]) if v == 'v' else '%s[0]' % 'abcdefgh'[j] for j, (a, v) in enumerate(zip(e.args, var))]
                        body = 'stv(o, %s);' % sub(e.call, L).format(*ex)
                    U.add(wname(e, t, var, L), ins, outs, body)
gen()

# ----------------------------------------------------------------------------- constants
def _iv():
    import mpmath
    iv = mpmath.iv; iv.dps = 80; return iv
def const_table():
    iv = _iv(); m = iv.mpf; pi = iv.pi; s = iv.sqrt; ln = iv.log
    return [('epsilon', 'glm::epsilon', None, 'machine epsilon 2^-23 / 2^-52'), ('pi', 'glm::pi', pi, 'pi'), ('cos_one_over_two', 'glm::cos_one_over_two', iv.cos(m(1) / 2), 'cos(1/2)'),
            ('zero', 'glm::zero', m(0), '0'), ('one', 'glm::one', m(1), '1'), ('two_pi', 'glm::two_pi', 2 * pi, '2 pi'), ('tau', 'glm::tau', 2 * pi, '2 pi'), ('root_pi', 'glm::root_pi', s(pi), 'sqrt(pi)'),
            ('half_pi', 'glm::half_pi', pi / 2, 'pi/2'), ('three_over_two_pi', 'glm::three_over_two_pi', pi / 2 * 3, 'pi/2*3 (as documented)'), ('quarter_pi', 'glm::quarter_pi', pi / 4, 'pi/4'),
            ('one_over_pi', 'glm::one_over_pi', 1 / pi, '1/pi'), ('one_over_two_pi', 'glm::one_over_two_pi', 1 / (2 * pi), '1/(2 pi)'), ('two_over_pi', 'glm::two_over_pi', 2 / pi, '2/pi'),
            ('four_over_pi', 'glm::four_over_pi', 4 / pi, '4/pi'), ('two_over_root_pi', 'glm::two_over_root_pi', 2 / s(pi), '2/sqrt(pi)'), ('one_over_root_two', 'glm::one_over_root_two', 1 / s(m(2)), '1/sqrt(2)'),
            ('root_half_pi', 'glm::root_half_pi', s(pi / 2), 'sqrt(pi/2)'), ('root_two_pi', 'glm::root_two_pi', s(2 * pi), 'sqrt(2 pi)'), ('root_ln_four', 'glm::root_ln_four', s(ln(m(4))), 'sqrt(ln 4)'),
            ('e', 'glm::e', iv.exp(m(1)), 'e'), ('euler', 'glm::euler', iv.euler, 'Euler-Mascheroni gamma'), ('root_two', 'glm::root_two', s(m(2)), 'sqrt(2)'), ('root_three', 'glm::root_three', s(m(3)), 'sqrt(3)'),
            ('root_five', 'glm::root_five', s(m(5)), 'sqrt(5)'), ('ln_two', 'glm::ln_two', ln(m(2)), 'ln 2'), ('ln_ten', 'glm::ln_ten', ln(m(10)), 'ln 10'), ('ln_ln_two', 'glm::ln_ln_two', ln(ln(m(2))), 'ln ln 2'),
            ('third', 'glm::third', m(1) / 3, '1/3'), ('two_thirds', 'glm::two_thirds', m(2) / 3, '2/3'), ('golden_ratio', 'glm::golden_ratio', (1 + s(m(5))) / 2, '(1+sqrt 5)/2')]
CONST_NAMES = ['epsilon', 'pi', 'cos_one_over_two', 'zero', 'one', 'two_pi', 'tau', 'root_pi', 'half_pi', 'three_over_two_pi', 'quarter_pi', 'one_over_pi', 'one_over_two_pi', 'two_over_pi', 'four_over_pi',
               'two_over_root_pi', 'one_over_root_two', 'root_half_pi', 'root_two_pi', 'root_ln_four', 'e', 'euler', 'root_two', 'root_three', 'root_five', 'ln_two', 'ln_ten', 'ln_ln_two', 'third', 'two_thirds', 'golden_ratio']
for nm in CONST_NAMES:
    for t in ('f32', 'f64'):
        U.add('const_%s_%s' % (nm, t), [], [(FT[t][0], 1)], 'o[0] = glm::%s<%s>();' % (nm, FT[t][0]))
def units(tier): return [U]

def job_constants(t, names):
    c, w = FT[t]
    def run(S):
        tab = {r[0]: r for r in const_table()}
        for nm in names:
            _, _, val, doc = tab[nm]
            if val is None: lo = hi = Fraction(2) ** (-23 if w == 32 else -52)
            else:
                a, b = (+val)._mpi_         # rigorous enclosure [a, b] (outward-rounded interval arithmetic)
                lo = Fraction(*_ratio(a)); hi = Fraction(*_ratio(b))
            def spec(i, o, lo=lo, hi=hi):
                cb = o[0][0].bits; cr = z3.fpToReal(fpof(cb)); dn = z3.fpToReal(fpof(cb - 1)); up = z3.fpToReal(fpof(cb + 1))     # neighbours in the magnitude order
                L = z3.RealVal(str(lo)); H = z3.RealVal(str(hi)); neg = z3.Extract(w - 1, w - 1, cb) == 1
                m_dn = (dn + cr) / 2; m_up = (cr + up) / 2          # for negative c the roles swap
                if lo == hi and lo == 0: return [('exact', cb == 0)]
                return [('above-lower-midpoint', z3.If(neg, m_up < L, m_dn < L)), ('below-upper-midpoint', z3.If(neg, H < m_dn, H < m_up)),
                        ('enclosure-tight', z3.BoolVal(bool((hi - lo) * 2 ** 60 <= max(abs(lo), abs(hi)))))]
            S.check_fn(U, 'const_%s_%s' % (nm, t), spec, bounds='%s<%s>() vs correctly rounded %s' % (nm, c, doc), known=['KF-C11-const-%s-%s' % (nm, t)])
    return run
def _ratio(x):
    """(numerator, denominator) of an mpmath mpf, exact"""
    sign, man, exp, bc = x
    man = int(man) * (-1 if sign else 1)
    return (man * (1 << exp), 1) if exp >= 0 else (man, 1 << (-exp))

# ----------------------------------------------------------------------------- generic job
def run_entry(S, e, t, var=None, L=0):
    c, w = FT[t]
    n = L if var else 1
    def Xs(i, k): return [i[j][k] if (var is None or var[j] == 'v') else i[j][0] for j in range(len(e.args))]
    def Os(o, k): return [o[q][k] for q in range(len(e.out))] if e.multi else o[0][k]
    def lab(l, k): return l if var is None else '%s.%d' % (l, k)
    cutbox = []; only = []
    def spec(i, o):
        g = []
        for k in range(n):
            for l, gl in e.spec(w, Xs(i, k), Os(o, k)):
                if only and lab(l, k) not in only: continue
                if cutbox: gl = apply_cuts(canon(gl)[0], cutbox)         # cut terms are in canonical form: bring the goal to the same form first
                gc, ok = canon(gl)
                g.append((lab(l, k), z3.BoolVal(True) if ok else (gc if cutbox else gl)))
        return g
    extra = None
    if e.eh:
        def extra(res):
            for row in res.outs:                      # one canonical syntactic form of every sub-term before cutting (z3's rewriter is part of the trusted solver)
                for k_, o_ in enumerate(row):
                    if isinstance(o_, FV): row[k_] = FV(o_.n, fp=canon(o_.fp)[0])
            hy, cuts = e.eh(S, w)(res); cutbox[:] = cuts; return hy
    pre = None
    if e.pre:
        def pre(i):
            h = []
            for k in range(n): h += e.pre(w, Xs(i, k))
            return [canon(x)[0] for x in h] if e.eh else h
    mut = None
    if e.mut and var is None:
        def mut(i, o): return [('m.' + l, gl) for l, gl in e.mut(w, Xs(i, 0), Os(o, 0))][:1]
    to = S.cap(*e.timeout) if e.timeout else S.cap(300, 400)
    ins = None; kw = {}
    if e.alias:         # the same symbolic value is passed for two arguments (translator validation by independent sampling is switched off for these)
        ins = mkvars(U.fns[wname(e, t, var, L)]); dst, src = e.alias
        ins[dst] = [ins[src][k if len(ins[src]) > 1 else 0] for k in range(len(ins[dst]))]; kw = dict(validate=0)
    libm_minmax = e.name.startswith(('fmin', 'fmax', 'fclamp'))
    if libm_minmax: kw = dict(validate=0)
    fname = wname(e, t, var, L); n0 = len(S.records)
    res = S.check_fn(U, fname, spec, pre, ins=ins, **kw, timeout=to, known=e.known, side=e.side, bounds=e.bounds, mutant=mut, mandatory=e.mandatory, extra_hyps=extra)
    if libm_minmax and res is not None:
        # translator validation restricted to what the model of libm fmin/fmax covers: quiet NaNs (glibc returns NaN when an operand is a SIGNALING NaN - IEEE 754-2008 minNum -, compilers that
        # inline the call do not; SMT-LIB FP has one NaN) and no pair of zeros of opposite sign among the operands (fmin(+0, -0) may return either zero)
        fl = [x for row, (c_, n_) in zip(res.ins, res.fn.ins) if ct_kind(c_) == 'f' for x in row]; mb = 23 if w == 32 else 52
        flt = [z3.Not(z3.And(bit_nan(x), z3.Extract(mb - 1, mb - 1, x) == 0)) for x in fl]
        flt.append(z3.Not(z3.And(z3.Or(*[x == 0 for x in fl]), z3.Or(*[x == z3.BitVecVal(1 << (w - 1), w) for x in fl]))))
        ncmp, bad = validate_translation(res, S.rnd, 4 if S.quick else 12, pre=z3.And(*flt))
        S.validated += ncmp
        if bad: S.engine_errors.append('c11.%s: symbolic term disagrees with native execution: %s' % (fname, json.dumps(bad[0])))
    if e.eh and res is not None:
        # a counterexample of an obligation proved through cuts may be an artefact of the over-approximation (fresh floats): such obligations are decided again on the uncut terms
        sp = [r_ for r_ in S.records[n0:] if str(r_.get('status', '')).startswith('inconclusive(cex not reproduced')]
        if sp:
            pfx = 'c11.%s.' % fname; only[:] = [r_['name'][len(pfx):].replace('.outside-known', '') for r_ in sp]; saved = list(cutbox); cutbox[:] = []
            n1 = len(S.records); nv = len(S.violations)
            S.check_fn(U, fname, spec, pre, ins=ins, validate=0, witness=False, side=False, name='c11.%s.uncut' % fname, timeout=to, known=e.known, bounds=e.bounds + '; decided again without cuts', mandatory=e.mandatory)
            new = [r_ for r_ in S.records[n1:] if r_.get('kind') == 'spec']
            if new and all(r_.get('status') in ('discharged', 'counterexample') for r_ in new):       # every one decided (proved, or a natively reproduced violation)
                for r_ in sp:
                    r_['status'] = 'superseded by the uncut obligation'
                    S.inconclusive[:] = [x for x in S.inconclusive if not x.startswith(r_['name'] + ' [')]
            only[:] = []; cutbox[:] = saved
def job_group(names, t, Ls, scalar=True):
    def run(S):
        for nm in names:
            e = TABD[nm]
            if t not in e.types: continue
            if scalar and nm not in SCALARLESS: run_entry(S, e, t)
            for var in e.variants:
                for L in Ls:
                    if L in e.Ls: run_entry(S, e, t, var, L)
    return run

def job_lemmas(S):
    """the two IEEE identities canon() relies on (all bit patterns; SMT-LIB '=' i.e. identical value incl. the sign of zero, NaN = NaN)"""
    for t in ('f32', 'f64'):
        w = FT[t][1]; x = z3.FP('lem_x', FSORT[w]); y = z3.FP('lem_y', FSORT[w])
        S.prove('c11.lemma.commute-add_%s' % t, z3.fpAdd(RNE, x, y) == z3.fpAdd(RNE, y, x), timeout=S.cap(120, 300), kind='lemma', bounds='all x, y', mandatory=(w == 32))
        S.prove('c11.lemma.commute-mul_%s' % t, z3.fpMul(RNE, x, y) == z3.fpMul(RNE, y, x), timeout=S.cap(120, 300), kind='lemma', bounds='all x, y', mandatory=(w == 32))
        S.prove('c11.lemma.reinterpret-roundtrip_%s' % t, z3.fpBVToFP(z3.fpToIEEEBV(x), FSORT[w]) == x, timeout=S.cap(120, 300), kind='lemma', bounds='all x (one NaN)')
        S.prove('c11.lemma.sub-is-add-neg_%s' % t, z3.fpSub(RNE, x, y) == z3.fpAdd(RNE, x, z3.fpNeg(y)), timeout=S.cap(120, 300), kind='lemma', bounds='all x, y', mandatory=(w == 32))

# quick tier: which vector lengths are run besides the scalar overload.  f32: every length for every group except the ones whose per-component cost is seconds (these keep vec3);
# f64: every length for the groups that are decided in milliseconds, scalar only for the rest (the vector code is the same template as for float).  thorough: everything + mutant twins.
Q_F32_L3_ONLY = {'smoothstep', 'smoothstep_range', 'roundEven', 'frexp', 'modf', 'ldexp'}
Q_F64_VEC = {'rounding', 'abs_sign', 'classify', 'minmax', 'minmaxN', 'fmin3', 'fmax3', 'fmin4', 'fmax4', 'fminmax2', 'fclamp', 'clamp', 'step', 'mixb', 'mix', 'mod', 'routing', 'compat', 'epsilon', 'iround', 'uround'}
JOB_CAP = {'quick': 900, 'thorough': 3000}
def jobs(tier):
    q = tier == 'quick'; J = []
    groups = {}
    for e in TAB: groups.setdefault(e.group, []).append(e.name)
    for g, names in groups.items():
        if q and g == 'smoothstep_le_one': continue
        for t in ('f32', 'f64', 'i32'):
            if not any(t in TABD[n_].types for n_ in names): continue
            heavy = any(TABD[n_].heavy for n_ in names)
            if q:
                if heavy: Ls = ()
                elif t == 'f64': Ls = (1, 2, 3, 4) if g in Q_F64_VEC else ()
                else: Ls = (3,) if g in Q_F32_L3_ONLY else (1, 2, 3, 4)
                J.append(('%s_%s' % (g, t), job_group(names, t, (3,) if 3 in Ls else ())))
                for L in Ls:
                    if L != 3 and any(TABD[n_].variants and L in TABD[n_].Ls for n_ in names): J.append(('%s_v%d_%s' % (g, L, t), job_group(names, t, (L,), scalar=False)))
            else:
                J.append(('%s_%s' % (g, t), job_group(names, t, ())))
                for L in (1, 2, 3, 4): J.append(('%s_v%d_%s' % (g, L, t), job_group(names, t, (L,), scalar=False)))
    for t in ('f32', 'f64'):
        J.append(('constants_' + t, job_constants(t, CONST_NAMES)))
    J.append(('ieee_lemmas', job_lemmas))
    first = ['smoothstep_range_f32', 'frexp_f64', 'modf_f64', 'frexp_ldexp_f64', 'ldexp_f64', 'roundEven_f64', 'frexp_f32', 'smoothstep_range_f64', 'smoothstep_f64', 'frexp_ldexp_f32', 'roundEven_f32',
             'mirrorRepeat_f64', 'modf_f32', 'ldexp_f32', 'fract_f64', 'wrap_f64', 'smoothstep_f32']          # the long jobs start first (the pool takes jobs in list order)
    J.sort(key=lambda j: first.index(j[0]) if j[0] in first else len(first))
    return J
