"""C14 - ULP stepping and epsilon/ULP comparisons (ext/scalar_ulp.inl, vector_ulp.inl, *_relational.inl, gtc/epsilon.inl)."""
from props.common import *
LEVEL = 'proof'
CLAIM = "nextFloat/prevFloat (1- and n-step, scalar and vector), floatDistance, their gtc/ulp.hpp twins next_float/prev_float/float_distance, the ULP and epsilon comparison overloads (scalar, vec1-4, matrix, quaternion) and GLM's bundled Sun nextafter are executed symbolically over all floats and doubles; the solver shows they agree with integer arithmetic on the IEEE total order (+0 == -0) and with the IEEE evaluation of |x-y| <= epsilon."
BOUNDS = 'all 2^32 floats / 2^64 doubles symbolically; n-step overloads: symbolic 0<=n<=8 (loop unwind 10 with unwinding assertion); larger n outside the claim'
OUTSIDE = 'n > 8 steps; NaN operands of the comparison functions; distances that do not fit the return type of floatDistance'
ASSUMPTIONS = ['libm nextafter/nextafterf is modelled bit-exactly by engine/models.py:nextafter_bits (validated against the native libm each run)',
               '"|x-y| <= epsilon" is read as the IEEE evaluation of the documented expression abs(x-y) <= epsilon']
U = Unit('c14', includes=['glm/glm.hpp', 'glm/ext/scalar_ulp.hpp', 'glm/ext/vector_ulp.hpp', 'glm/gtc/ulp.hpp', 'glm/ext/scalar_relational.hpp', 'glm/ext/vector_relational.hpp',
                          'glm/ext/matrix_relational.hpp', 'glm/ext/quaternion_relational.hpp', 'glm/gtc/epsilon.hpp', 'glm/gtc/quaternion.hpp'])
FT = {'f32': ('float', 32, 'int32_t'), 'f64': ('double', 64, 'int64_t')}
for t, (c, w, ic) in FT.items():
    U.add('next_' + t, [(c, 1)], [(c, 1)], 'o[0] = glm::nextFloat(a[0]);')
    U.add('prev_' + t, [(c, 1)], [(c, 1)], 'o[0] = glm::prevFloat(a[0]);')
    U.add('nextn_' + t, [(c, 1), ('int', 1)], [(c, 1)], 'o[0] = glm::nextFloat(a[0], b[0]);')
    U.add('prevn_' + t, [(c, 1), ('int', 1)], [(c, 1)], 'o[0] = glm::prevFloat(a[0], b[0]);')
    U.add('dist_' + t, [(c, 2)], [(ic, 1)], 'o[0] = glm::floatDistance(a[0], a[1]);')
    U.add('distnext_' + t, [(c, 1), ('int', 1)], [(ic, 1)], 'o[0] = glm::floatDistance(a[0], glm::nextFloat(a[0], b[0]));')
    U.add('distprev_' + t, [(c, 1), ('int', 1)], [(ic, 1)], 'o[0] = glm::floatDistance(a[0], glm::prevFloat(a[0], b[0]));')
    U.add('equlp_' + t, [(c, 2), ('int', 1)], [('bool', 2)], 'o[0] = glm::equal(a[0], a[1], b[0]); o[1] = glm::notEqual(a[0], a[1], b[0]);')
    U.add('eqeps_' + t, [(c, 3)], [('bool', 4)], 'o[0] = glm::equal(a[0], a[1], a[2]); o[1] = glm::notEqual(a[0], a[1], a[2]); o[2] = glm::epsilonEqual(a[0], a[1], a[2]); o[3] = glm::epsilonNotEqual(a[0], a[1], a[2]);')
    for L in (1, 2, 3, 4):
        U.add('next_v%d_%s' % (L, t), [(c, L)], [(c, L), (c, L)], 'stv(o, glm::nextFloat(ldv<%d,%s>(a))); stv(o2, glm::prevFloat(ldv<%d,%s>(a)));' % (L, c, L, c))
        U.add('nextn_v%d_%s' % (L, t), [(c, L), ('int', L)], [(c, L), (c, L)], 'stv(o, glm::nextFloat(ldv<%d,%s>(a), ldv<%d,int>(b))); stv(o2, glm::prevFloat(ldv<%d,%s>(a), b[0]));' % (L, c, L, L, c))
        U.add('dist_v%d_%s' % (L, t), [(c, L), (c, L)], [(ic, L)], 'stv(o, glm::floatDistance(ldv<%d,%s>(a), ldv<%d,%s>(b)));' % (L, c, L, c))
        U.add('equlp_v%d_%s' % (L, t), [(c, L), (c, L), ('int', L)], [('bool', L), ('bool', L), ('bool', L), ('bool', L)],
              'stv(o, glm::equal(ldv<%d,%s>(a), ldv<%d,%s>(b), ldv<%d,int>(c))); stv(o2, glm::notEqual(ldv<%d,%s>(a), ldv<%d,%s>(b), ldv<%d,int>(c)));'
              ' stv(o3, glm::equal(ldv<%d,%s>(a), ldv<%d,%s>(b), c[0])); stv(o4, glm::notEqual(ldv<%d,%s>(a), ldv<%d,%s>(b), c[0]));' % ((L, c) * 2 + (L,) + (L, c) * 2 + (L,) + (L, c) * 4))
        U.add('eqeps_v%d_%s' % (L, t), [(c, L), (c, L), (c, L)], [('bool', L)] * 4,
              'stv(o, glm::equal(ldv<%d,%s>(a), ldv<%d,%s>(b), ldv<%d,%s>(c))); stv(o2, glm::notEqual(ldv<%d,%s>(a), ldv<%d,%s>(b), ldv<%d,%s>(c)));'
              ' stv(o3, glm::epsilonEqual(ldv<%d,%s>(a), ldv<%d,%s>(b), ldv<%d,%s>(c))); stv(o4, glm::epsilonNotEqual(ldv<%d,%s>(a), ldv<%d,%s>(b), ldv<%d,%s>(c)));' % ((L, c) * 12))
    # matrices (3x2 as the asymmetric representative, 4x4) and quaternions
    for (C, R) in ((3, 2), (4, 4), (2, 2)):
        U.add('equlp_m%d%d_%s' % (C, R, t), [(c, C * R), (c, C * R), ('int', C)], [('bool', C)] * 4,
              'stv(o, glm::equal(ldm<%d,%d,%s>(a), ldm<%d,%d,%s>(b), ldv<%d,int>(c))); stv(o2, glm::notEqual(ldm<%d,%d,%s>(a), ldm<%d,%d,%s>(b), ldv<%d,int>(c)));'
              ' stv(o3, glm::equal(ldm<%d,%d,%s>(a), ldm<%d,%d,%s>(b), c[0])); stv(o4, glm::notEqual(ldm<%d,%d,%s>(a), ldm<%d,%d,%s>(b), c[0]));' % ((C, R, c) * 2 + (C,) + (C, R, c) * 2 + (C,) + (C, R, c) * 4))
        U.add('eqeps_m%d%d_%s' % (C, R, t), [(c, C * R), (c, C * R), (c, C)], [('bool', C)] * 4,
              'stv(o, glm::equal(ldm<%d,%d,%s>(a), ldm<%d,%d,%s>(b), ldv<%d,%s>(c))); stv(o2, glm::notEqual(ldm<%d,%d,%s>(a), ldm<%d,%d,%s>(b), ldv<%d,%s>(c)));'
              ' stv(o3, glm::equal(ldm<%d,%d,%s>(a), ldm<%d,%d,%s>(b), c[0])); stv(o4, glm::notEqual(ldm<%d,%d,%s>(a), ldm<%d,%d,%s>(b), c[0]));' % ((C, R, c) * 2 + (C, c) + (C, R, c) * 2 + (C, c) + (C, R, c) * 4))
    U.add('eqeps_q_' + t, [(c, 4), (c, 4), (c, 1)], [('bool', 4)] * 4,
          'stv(o, glm::equal(ldq<%s>(a), ldq<%s>(b), c[0])); stv(o2, glm::notEqual(ldq<%s>(a), ldq<%s>(b), c[0])); stv(o3, glm::epsilonEqual(ldq<%s>(a), ldq<%s>(b), c[0])); stv(o4, glm::epsilonNotEqual(ldq<%s>(a), ldq<%s>(b), c[0]));' % ((c,) * 8))
for t, (c, w, ic) in FT.items():       # the gtc/ulp.hpp twins (next_float, prev_float, float_distance; scalar, n-step and vector overloads)
    U.add('g_step_' + t, [(c, 1)], [(c, 2)], 'o[0] = glm::next_float(a[0]); o[1] = glm::prev_float(a[0]);')
    U.add('g_nstep_' + t, [(c, 1), ('int', 1)], [(c, 2)], 'o[0] = glm::next_float(a[0], b[0]); o[1] = glm::prev_float(a[0], b[0]);')
    U.add('g_dist_' + t, [(c, 2)], [(ic, 1)], 'o[0] = glm::float_distance(a[0], a[1]);')
    U.add('g_vec_' + t, [(c, 3), ('int', 3)], [(c, 3)] * 4 + [(ic, 3)], 'stv(o, glm::next_float(ldv<3,%s>(a))); stv(o2, glm::prev_float(ldv<3,%s>(a))); stv(o3, glm::next_float(ldv<3,%s>(a), ldv<3,int>(b))); stv(o4, glm::prev_float(ldv<3,%s>(a), b[0])); stv(o5, glm::float_distance(ldv<3,%s>(a), ldv<3,%s>(a + 0)));' % ((c,) * 6))
U.add('sun_nextafterf', [('float', 2)], [('float', 1)], 'o[0] = glm::detail::nextafterf(a[0], a[1]);')
U.add('sun_nextafter', [('double', 2)], [('double', 1)], 'o[0] = glm::detail::nextafter(a[0], a[1]);')
def units(tier): return [U]

def ordv(b):
    """position in the IEEE total order with +0 == -0, as a (w+2)-bit signed integer"""
    w = b.size(); mag = z3.ZeroExt(3, z3.Extract(w - 2, 0, b))
    return z3.If(z3.Extract(w - 1, w - 1, b) == 1, -mag, mag)
def dist(x, y):
    """number of representable steps between x and y (+0 == -0): same sign -> |mag difference|, opposite sign -> sum of magnitudes; (w+2)-bit"""
    w = x.size(); mx = z3.ZeroExt(3, z3.Extract(w - 2, 0, x)); my = z3.ZeroExt(3, z3.Extract(w - 2, 0, y))
    same = z3.Extract(w - 1, w - 1, x) == z3.Extract(w - 1, w - 1, y)
    return z3.If(same, z3.If(z3.UGE(mx, my), mx - my, my - mx), mx + my)
def notnan(b): return z3.Not(is_nan(b))
def infbits(w, neg=False): return ((0xff << 23) if w == 32 else (0x7ff << 52)) | ((1 << (w - 1)) if neg else 0)

def job_step(t):
    c, w, ic = FT[t]
    def run(S):
        S.check_fn(U, 'next_' + t, lambda i, o: [('succ', z3.And(ordv(o[0][0].bits) == ordv(i[0][0]) + 1, notnan(o[0][0].bits)))],
                   lambda i: [notnan(i[0][0]), i[0][0] != infbits(w)], mutant=lambda i, o: [('m', ordv(o[0][0].bits) == ordv(i[0][0]) + 2)], bounds='every non-NaN x != +inf')
        S.check_fn(U, 'prev_' + t, lambda i, o: [('pred', z3.And(ordv(o[0][0].bits) == ordv(i[0][0]) - 1, notnan(o[0][0].bits)))],
                   lambda i: [notnan(i[0][0]), i[0][0] != infbits(w, True)], mutant=lambda i, o: [('m', ordv(o[0][0].bits) == ordv(i[0][0]) + 1)], bounds='every non-NaN x != -inf')
    return run
def job_nstep(t):
    c, w, ic = FT[t]
    def run(S):
        n = lambda i: sx(i[1][0], w + 2)
        top = ordv(z3.BitVecVal(infbits(w), w))
        pre_n = lambda i: [notnan(i[0][0]), i[1][0] >= 0, i[1][0] <= 8, ordv(i[0][0]) + n(i) <= top]
        pre_p = lambda i: [notnan(i[0][0]), i[1][0] >= 0, i[1][0] <= 8, ordv(i[0][0]) - n(i) >= -top]
        S.check_fn(U, 'nextn_' + t, lambda i, o: [('n-steps', ordv(o[0][0].bits) == ordv(i[0][0]) + n(i))], pre_n, unwind=10, bounds='0<=n<=8')
        S.check_fn(U, 'prevn_' + t, lambda i, o: [('n-steps', ordv(o[0][0].bits) == ordv(i[0][0]) - n(i))], pre_p, unwind=10, bounds='0<=n<=8')
        S.check_fn(U, 'distnext_' + t, lambda i, o: [('distance==n', o[0][0] == sx(i[1][0], w))], pre_n, unwind=10, bounds='0<=n<=8, also across zero')
        S.check_fn(U, 'distprev_' + t, lambda i, o: [('distance==n', o[0][0] == sx(i[1][0], w))], pre_p, unwind=10, bounds='0<=n<=8, also across zero')
    return run
def job_dist(t):
    c, w, ic = FT[t]
    def run(S):
        fits = lambda i: [notnan(i[0][0]), notnan(i[0][1]), dist(i[0][0], i[0][1]) < (1 << (w - 1))]
        S.check_fn(U, 'dist_' + t, lambda i, o: [('ulp-distance', sx(o[0][0], w + 2) == dist(i[0][0], i[0][1]))], fits, bounds='all non-NaN pairs whose distance fits the return type')
    return run
def job_legacy(t):
    """gtc/ulp.hpp: next_float / prev_float / float_distance obey the same integer arithmetic on the IEEE total order as the ext functions"""
    c, w, ic = FT[t]
    def run(S):
        top = ordv(z3.BitVecVal(infbits(w), w))
        S.check_fn(U, 'g_step_' + t, lambda i, o: [('succ', z3.And(ordv(o[0][0].bits) == ordv(i[0][0]) + 1, notnan(o[0][0].bits))), ('pred', z3.And(ordv(o[0][1].bits) == ordv(i[0][0]) - 1, notnan(o[0][1].bits)))],
                   lambda i: [notnan(i[0][0]), i[0][0] != infbits(w), i[0][0] != infbits(w, True)], bounds='every finite x')
        n = lambda i: sx(i[1][0], w + 2)
        S.check_fn(U, 'g_nstep_' + t, lambda i, o: [('n-steps-up', ordv(o[0][0].bits) == ordv(i[0][0]) + n(i)), ('n-steps-down', ordv(o[0][1].bits) == ordv(i[0][0]) - n(i))],
                   lambda i: [notnan(i[0][0]), i[1][0] >= 0, i[1][0] <= 8, ordv(i[0][0]) + n(i) <= top, ordv(i[0][0]) - n(i) >= -top], unwind=10, bounds='0<=n<=8, x +- n steps finite or infinite')
        S.check_fn(U, 'g_dist_' + t, lambda i, o: [('ulp-distance', sx(o[0][0], w + 2) == dist(i[0][0], i[0][1]))], lambda i: [notnan(i[0][0]), notnan(i[0][1]), dist(i[0][0], i[0][1]) < (1 << (w - 1))], bounds='all non-NaN pairs whose distance fits the return type')
        def vspec(i, o):
            g = []
            for k in range(3):
                x = i[0][k]
                g += [('v.succ%d' % k, ordv(o[0][k].bits) == ordv(x) + 1), ('v.pred%d' % k, ordv(o[1][k].bits) == ordv(x) - 1), ('v.n-up%d' % k, ordv(o[2][k].bits) == ordv(x) + sx(i[1][k], w + 2)),
                      ('v.n-down%d' % k, ordv(o[3][k].bits) == ordv(x) - sx(i[1][0], w + 2)), ('v.dist%d' % k, o[4][k] == 0)]
            return g
        S.check_fn(U, 'g_vec_' + t, vspec, lambda i: [h for x in i[0] for h in (notnan(x), ordv(x) + 9 <= top, ordv(x) - 9 >= -top)] + [z3.And(m >= 0, m <= 8) for m in i[1]], unwind=10, bounds='0<=n<=8 per component, finite results')
    return run
def ulp_equal_spec(x, y, m, w): return dist(x, y) <= sx(m, w + 2)
def job_equlp(t, shape):
    c, w, ic = FT[t]
    def run(S):
        if shape == 's':
            pre = lambda i: [notnan(i[0][0]), notnan(i[0][1]), i[1][0] >= 0]
            def spec(i, o):
                e = ulp_equal_spec(i[0][0], i[0][1], i[1][0], w)
                return [('equal', (o[0][0] == 1) == e), ('notEqual', (o[0][1] == 1) == z3.Not(e))]
            S.check_fn(U, 'equlp_' + t, spec, pre, mutant=lambda i, o: [('m', (o[0][0] == 1) == (dist(i[0][0], i[0][1]) < sx(i[1][0], w + 2)))], known=['KF-C14-scalar-ulp-equal-signs'], bounds='all non-NaN pairs, maxULPs >= 0')
        elif shape[0] == 'v':
            L = int(shape[1])
            pre = lambda i: [notnan(x) for x in i[0] + i[1]] + [m >= 0 for m in i[2]]
            def spec(i, o):
                g = []
                for k in range(L):
                    e = ulp_equal_spec(i[0][k], i[1][k], i[2][k], w); e0 = ulp_equal_spec(i[0][k], i[1][k], i[2][0], w)
                    g += [('equal[%d]' % k, (o[0][k] == 1) == e), ('notEqual[%d]' % k, (o[1][k] == 1) == z3.Not(e)),
                          ('equal-scalarULPs[%d]' % k, (o[2][k] == 1) == e0), ('notEqual-scalarULPs[%d]' % k, (o[3][k] == 1) == z3.Not(e0))]
                return g
            S.check_fn(U, 'equlp_%s_%s' % (shape, t), spec, pre, bounds='all non-NaN components, maxULPs >= 0')
        else:
            C, R = int(shape[1]), int(shape[2])
            pre = lambda i: [notnan(x) for x in i[0] + i[1]] + [m >= 0 for m in i[2]]
            def spec(i, o):
                g = []
                for cc in range(C):
                    e = conj([ulp_equal_spec(i[0][cc * R + r], i[1][cc * R + r], i[2][cc], w) for r in range(R)])
                    e0 = conj([ulp_equal_spec(i[0][cc * R + r], i[1][cc * R + r], i[2][0], w) for r in range(R)])
                    g += [('equal[col%d]' % cc, (o[0][cc] == 1) == e), ('notEqual[col%d]' % cc, (o[1][cc] == 1) == z3.Not(e)),
                          ('equal-scalarULPs[col%d]' % cc, (o[2][cc] == 1) == e0), ('notEqual-scalarULPs[col%d]' % cc, (o[3][cc] == 1) == z3.Not(e0))]
                return g
            S.check_fn(U, 'equlp_%s_%s' % (shape, t), spec, pre, bounds='all non-NaN entries, maxULPs >= 0')
    return run
def eps_le(x, y, e):
    return z3.fpLEQ(z3.fpAbs(z3.fpSub(RNE, fpof(x), fpof(y))), fpof(e))
def eps_gt(x, y, e):
    return z3.fpGT(z3.fpAbs(z3.fpSub(RNE, fpof(x), fpof(y))), fpof(e))
def job_eqeps(t, shape):
    c, w, ic = FT[t]
    def run(S):
        nn = lambda i: [notnan(x) for row in i for x in row]
        if shape == 's':
            def spec(i, o):
                x, y, e = i[0]
                return [('equal', (o[0][0] == 1) == eps_le(x, y, e)), ('notEqual', (o[0][1] == 1) == eps_gt(x, y, e)),
                        ('epsilonEqual0', (o[0][2] == 1) == eps_le(x, y, e)), ('epsilonNotEqual0', (o[0][3] == 1) == eps_gt(x, y, e))]
            S.check_fn(U, 'eqeps_' + t, spec, nn, known=['KF-C14-epsilonEqual-strict'], bounds='all non-NaN triples')
        elif shape[0] == 'v':
            L = int(shape[1])
            def spec(i, o):
                g = []
                for k in range(L):
                    x, y, e = i[0][k], i[1][k], i[2][k]
                    g += [('equal[%d]' % k, (o[0][k] == 1) == eps_le(x, y, e)), ('notEqual[%d]' % k, (o[1][k] == 1) == eps_gt(x, y, e)),
                          ('epsilonEqual%d' % k, (o[2][k] == 1) == eps_le(x, y, e)), ('epsilonNotEqual%d' % k, (o[3][k] == 1) == eps_gt(x, y, e))]
                return g
            S.check_fn(U, 'eqeps_%s_%s' % (shape, t), spec, nn, known=['KF-C14-epsilonEqual-strict-vec'], bounds='all non-NaN components')
        elif shape == 'q':
            def spec(i, o):
                g = []
                for k in range(4):      # result vector is in x,y,z,w order; quaternions travel as [w,x,y,z]
                    x, y, e = i[0][(k + 1) % 4], i[1][(k + 1) % 4], i[2][0]
                    g += [('equal%d' % k, (o[0][k] == 1) == eps_le(x, y, e)), ('notEqual%d' % k, (o[1][k] == 1) == eps_gt(x, y, e)),
                          ('epsilonEqual%d' % k, (o[2][k] == 1) == eps_le(x, y, e)), ('epsilonNotEqual%d' % k, (o[3][k] == 1) == eps_gt(x, y, e))]
                return g
            S.check_fn(U, 'eqeps_q_' + t, spec, nn, known=['KF-C14-epsilonEqual-strict-quat'], bounds='all non-NaN components')
        else:
            C, R = int(shape[1]), int(shape[2])
            def spec(i, o):
                g = []
                for cc in range(C):
                    e = conj([eps_le(i[0][cc * R + r], i[1][cc * R + r], i[2][cc]) for r in range(R)])
                    ne = z3.Or(*[eps_gt(i[0][cc * R + r], i[1][cc * R + r], i[2][cc]) for r in range(R)])
                    e0 = conj([eps_le(i[0][cc * R + r], i[1][cc * R + r], i[2][0]) for r in range(R)])
                    g += [('equal[col%d]' % cc, (o[0][cc] == 1) == e), ('notEqual[col%d]' % cc, (o[1][cc] == 1) == ne), ('equal-scalarEps[col%d]' % cc, (o[2][cc] == 1) == e0)]
                return g
            S.check_fn(U, 'eqeps_%s_%s' % (shape, t), spec, nn, bounds='all non-NaN entries')
    return run
def job_vecstep(t, L):
    c, w, ic = FT[t]
    def run(S):
        pre = lambda i: [z3.And(notnan(x), finite(x)) for x in i[0]]
        S.check_fn(U, 'next_v%d_%s' % (L, t), lambda i, o: [('succ[%d]' % k, ordv(o[0][k].bits) == ordv(i[0][k]) + 1) for k in range(L)] + [('pred[%d]' % k, ordv(o[1][k].bits) == ordv(i[0][k]) - 1) for k in range(L)], pre, bounds='all finite components')
        pre2 = lambda i: [finite(x) for x in i[0]] + [z3.And(m >= 0, m <= 3) for m in i[1]]
        S.check_fn(U, 'nextn_v%d_%s' % (L, t), lambda i, o: [('next-n[%d]' % k, z3.Or(z3.fpIsInf(o[0][k].fp), ordv(o[0][k].bits) == ordv(i[0][k]) + sx(i[1][k], w + 2))) for k in range(L)] +
                   [('prev-n0[%d]' % k, z3.Or(z3.fpIsInf(o[1][k].fp), ordv(o[1][k].bits) == ordv(i[0][k]) - sx(i[1][0], w + 2))) for k in range(L)], pre2, unwind=6, bounds='0<=n<=3 per component')
        fits = lambda i: [notnan(x) for x in i[0] + i[1]] + [dist(i[0][k], i[1][k]) < (1 << (w - 1)) for k in range(L)]
        S.check_fn(U, 'dist_v%d_%s' % (L, t), lambda i, o: [('ulp-distance[%d]' % k, sx(o[0][k], w + 2) == dist(i[0][k], i[1][k])) for k in range(L)], fits, bounds='all non-NaN pairs whose distance fits')
    return run
def job_sun(S):
    # GLM's bundled Sun nextafter (used when std::nextafter is unavailable) against the same ordered-integer spec
    for nm, w in (('sun_nextafterf', 32), ('sun_nextafter', 64)):
        def spec(i, o, w=w):
            x, y = i[0]; r = o[0][0].bits
            up = z3.fpLT(fpof(x), fpof(y)); eq = z3.fpEQ(fpof(x), fpof(y))
            return [('toward-y', z3.If(eq, z3.fpEQ(fpof(r), fpof(y)), z3.If(up, ordv(r) == ordv(x) + 1, ordv(r) == ordv(x) - 1)))]
        S.check_fn(U, nm, spec, lambda i: [notnan(i[0][0]), notnan(i[0][1]), finite(i[0][0])], bounds='all finite x, non-NaN y', validate=0)
def jobs(tier):
    q = tier == 'quick'; J = []
    for t in FT:
        J.append(('legacy_' + t, job_legacy(t)))
        J += [('step_' + t, job_step(t)), ('nstep_' + t, job_nstep(t)), ('dist_' + t, job_dist(t)), ('equlp_s_' + t, job_equlp(t, 's')), ('eqeps_s_' + t, job_eqeps(t, 's'))]
        for L in ((3,) if q else (1, 2, 3, 4)):
            J += [('equlp_v%d_%s' % (L, t), job_equlp(t, 'v%d' % L)), ('eqeps_v%d_%s' % (L, t), job_eqeps(t, 'v%d' % L)), ('vecstep_v%d_%s' % (L, t), job_vecstep(t, L))]
        for sh in (('m32',) if q else ('m32', 'm44', 'm22')):
            J += [('equlp_%s_%s' % (sh, t), job_equlp(t, sh)), ('eqeps_%s_%s' % (sh, t), job_eqeps(t, sh))]
        J.append(('eqeps_q_' + t, job_eqeps(t, 'q')))
    J.append(('sun_nextafter', job_sun))
    return J
