"""C09 - translate/rotate/scale/shear/lookAt/decompose build the transforms they name
(ext/matrix_transform.inl, gtx/transform, transform2, rotate_vector, rotate_normalized_axis, matrix_transform_2d, matrix_interpolation, matrix_decompose)."""
from props.common import *
import math
from fractions import Fraction
import realtrig
from irsym import Exec

LEVEL = 'proof'
CLAIM = ("translate, rotate/rotate_slow, scale/scale_slow, shear/shear_slow (ext/matrix_transform), the gtx/transform builders, rotateNormalizedAxis (matrix and quaternion), gtx/transform2 (shearX2D/Y2D, "
         "shearX3D/Y3D/Z3D, reflect2D/3D, proj2D/3D, scaleBias), gtx/matrix_transform_2d (translate, rotate, scale, shearX, shearY), gtx/rotate_vector (rotate vec2/vec3/vec4, rotateX/Y/Z for vec3 "
         "and vec4, orientation), lookAt/lookAtRH/lookAtLH, gtx/matrix_interpolation (axisAngleMatrix, extractMatrixRotation, axisAngle, interpolate) and gtx/matrix_decompose (decompose, recompose) "
         "are executed symbolically from their clang IR in rounding-erased real arithmetic (sin/cos/acos Ackermannised with true identities only). The solver shows for all inputs: every "
         "M-transforming function returns M times the elementary matrix it names (translation, Rodrigues rotation about the normalised axis, diagonal scale, the documented shear matrix); the "
         "helpers agree with them; lookAtRH/LH are proper rigid transforms (R R^T = I, det R = 1, last row 0 0 0 1) taking eye to the origin, center to (0,0,-/+|center-eye|), up into x = 0, y > 0; "
         "lookAt is bit-for-bit (IEEE terms, all inputs) the variant selected under each of the four clip-control configurations; orientation(N,Up) is the Rodrigues rotation by acos(N.Up) about "
         "Up x N (and, by the code-free lemmas, a proper rotation taking Up to N); axisAngle inverts axisAngleMatrix on rotations outside its epsilon band, on exact half turns and on the identity; "
         "interpolate(m1, m2, 0) == m1; decompose succeeds and returns components whose composition P*T*R(q)*K*S equals M / M[3][3], and recompose(decompose(M)) == M / M[3][3], for the families of "
         "composed matrices listed in BOUNDS (simplification chains whose every rewrite is a discharged solver lemma).")
BOUNDS = ("rounding-erased semantics; float and double instantiations (recompose: float only, see KF-C09-recompose-double-not-instantiable); all base matrices M, vectors, angles (any number of turns: "
          "sin/cos are unconstrained beyond sin^2+cos^2 = 1), axes != 0 (unit axes where the function documents that), eye != center, up not parallel to the view direction; configurations {}, "
          "GLM_FORCE_LEFT_HANDED, GLM_FORCE_DEPTH_ZERO_TO_ONE, both. decompose/recompose: M = P(p) * T(t) * [B * R_axis(angle)] * K(skew) * diag(s) with symbolic t, angle, s (each sign pattern, "
          "|s_x s_y s_z| >= epsilon), skew, B one of the fixed rational rotations I, X90, Y90, X180, Y180, P = [[2,-1,2],[2,2,-1],[-1,2,2]]/3 and axis x, y or z (quick: 6 families incl. two with a "
          "perspective row (0,0,c,w); thorough: all 144 sign/base/axis families with skew, optional full perspective rows and the double instantiation); all four quaternion-extraction branches are "
          "reached across the families; axisAngle: R = Rodrigues(c,s,n) with some |2 s n_k| >= 100 epsilon (thorough), exact half turns (thorough, optional), identity")
OUTSIDE = ("size of floating-point rounding errors; decompose on general (two- and three-parameter) rotations with a symbolic base rotation - the nonlinear solver does not finish (tried: unit-quaternion, "
           "Cayley and row parametrisations, per-entry splitting, nra/qfnra) - and on matrices not of the composed form; decompose's behaviour inside its epsilon bands (|det| < epsilon, perspective "
           "entries below epsilon are dropped); recompose(decompose(M)) reproduces M only up to the homogeneous factor M[3][3] (decompose normalises by it): identical matrices iff M[3][3] == 1; "
           "interpolate for 0 < delta <= 1 (delta = 1 attempted as optional in thorough) and the domain obligations of interpolate's inner axisAngle for arbitrary m1, m2; gtx rotate_vector slerp; "
           "scaleBias(m, s, b) (built on the uninitialised scaleBias(s, b), KF-C09-scaleBias-uninitialised); the shear helpers of gtx/transform2 (3-D) and gtx/matrix_transform_2d are shown to be "
           "the TRANSPOSE of the elementary shear they name (known findings), the documented column-vector reading is re-proved only for the zero shear factor")
ASSUMPTIONS = ['rounding-erased semantics: every float operation is exact; sqrt is the non-negative real root; sin/cos/acos are real variables constrained only by identities true of the real functions (engine/realtrig.py)',
               'dispatch: libm sqrt/inversesqrt are the same function on both sides (terms are syntactically identical)',
               'simplification chains (decompose): each rewrite (sqrt variable == closed form, cancellation of a non-zero factor, polynomial reduction modulo c^2+s^2 = 1, constant If-conditions, '
               'bit-vector index atoms == real comparisons) is justified by a solver lemma recorded as an obligation; dropping hypotheses that do not mention a goal\'s variables only weakens them']
FT = {'f32': 'float', 'f64': 'double'}
INC = ['glm/glm.hpp', 'glm/ext/matrix_transform.hpp', 'glm/gtc/matrix_transform.hpp', 'glm/gtc/quaternion.hpp', 'glm/gtx/transform.hpp', 'glm/gtx/transform2.hpp',
       'glm/gtx/rotate_vector.hpp', 'glm/gtx/rotate_normalized_axis.hpp', 'glm/gtx/matrix_transform_2d.hpp', 'glm/gtx/matrix_decompose.hpp', 'glm/gtx/matrix_interpolation.hpp']

def add_lookat(Un):
    for t, c in FT.items():
        A = 'ldv<3,%s>(a), ldv<3,%s>(b), ldv<3,%s>(c)' % (c, c, c)
        for v in ('', 'RH', 'LH'):
            Un.add('lookAt%s_%s' % (v, t), [(c, 3), (c, 3), (c, 3)], [(c, 16)], 'stm(o, glm::lookAt%s(%s));' % (v, A))

U = Unit('c09', includes=INC)
add_lookat(U)
ULH = Unit('c09lh', includes=INC, defines=['GLM_FORCE_LEFT_HANDED'])
add_lookat(ULH)
UZO = Unit('c09zo', includes=INC, defines=['GLM_FORCE_DEPTH_ZERO_TO_ONE'])
add_lookat(UZO)
ULHZO = Unit('c09lhzo', includes=INC, defines=['GLM_FORCE_LEFT_HANDED', 'GLM_FORCE_DEPTH_ZERO_TO_ONE'])
add_lookat(ULHZO)
CFG = {'RH_NO': (U, 'RH'), 'LH_NO': (ULH, 'LH'), 'RH_ZO': (UZO, 'RH'), 'LH_ZO': (ULHZO, 'LH')}      # configuration -> (unit, handedness lookAt must select)
URD = Unit('c09rd', includes=INC)
for t, c in FT.items():
    M4 = lambda p, c=c: 'ldm<4,4,%s>(%s)' % (c, p)
    M3 = lambda p, c=c: 'ldm<3,3,%s>(%s)' % (c, p)
    V3 = lambda p, c=c: 'ldv<3,%s>(%s)' % (c, p)
    V2 = lambda p, c=c: 'ldv<2,%s>(%s)' % (c, p)
    V4 = lambda p, c=c: 'ldv<4,%s>(%s)' % (c, p)
    # ---- ext/matrix_transform
    U.add('translate_' + t, [(c, 16), (c, 3)], [(c, 16)], 'stm(o, glm::translate(%s, %s));' % (M4('a'), V3('b')))
    U.add('rotate_' + t, [(c, 16), (c, 1), (c, 3)], [(c, 16), (c, 16)], 'stm(o, glm::rotate(%s, b[0], %s)); stm(o2, glm::rotate_slow(%s, b[0], %s));' % (M4('a'), V3('c'), M4('a'), V3('c')))
    U.add('scale_' + t, [(c, 16), (c, 3)], [(c, 16), (c, 16)], 'stm(o, glm::scale(%s, %s)); stm(o2, glm::scale_slow(%s, %s));' % (M4('a'), V3('b'), M4('a'), V3('b')))
    SH = '%s, %s, %s, %s, %s' % (M4('a'), V3('b'), V2('c'), V2('c+2'), V2('c+4'))
    U.add('shear_' + t, [(c, 16), (c, 3), (c, 6)], [(c, 16), (c, 16)], 'stm(o, glm::shear(%s)); stm(o2, glm::shear_slow(%s));' % (SH, SH))
    # ---- gtx/transform
    U.add('gtx_transform_' + t, [(c, 1), (c, 3)], [(c, 16), (c, 16), (c, 16)], 'stm(o, glm::translate(%s)); stm(o2, glm::rotate(a[0], %s)); stm(o3, glm::scale(%s));' % (V3('b'), V3('b'), V3('b')))
    # ---- gtx/rotate_normalized_axis
    U.add('rna_' + t, [(c, 16), (c, 1), (c, 3)], [(c, 16)], 'stm(o, glm::rotateNormalizedAxis(%s, b[0], %s));' % (M4('a'), V3('c')))
    U.add('rnaq_' + t, [(c, 4), (c, 1), (c, 3)], [(c, 4)], 'stq(o, glm::rotateNormalizedAxis(ldq<%s>(a), b[0], %s));' % (c, V3('c')))
    # ---- gtx/transform2
    U.add('shear2D_' + t, [(c, 9), (c, 1)], [(c, 9), (c, 9)], 'stm(o, glm::shearX2D(%s, b[0])); stm(o2, glm::shearY2D(%s, b[0]));' % (M3('a'), M3('a')))
    U.add('shear3D_' + t, [(c, 16), (c, 2)], [(c, 16), (c, 16), (c, 16)],
          'stm(o, glm::shearX3D(%s, b[0], b[1])); stm(o2, glm::shearY3D(%s, b[0], b[1])); stm(o3, glm::shearZ3D(%s, b[0], b[1]));' % (M4('a'), M4('a'), M4('a')))
    U.add('reflproj2D_' + t, [(c, 9), (c, 3)], [(c, 9), (c, 9)], 'stm(o, glm::reflect2D(%s, %s)); stm(o2, glm::proj2D(%s, %s));' % (M3('a'), V3('b'), M3('a'), V3('b')))
    U.add('reflproj3D_' + t, [(c, 16), (c, 3)], [(c, 16), (c, 16)], 'stm(o, glm::reflect3D(%s, %s)); stm(o2, glm::proj3D(%s, %s));' % (M4('a'), V3('b'), M4('a'), V3('b')))
    U.add('scaleBias_' + t, [(c, 2)], [(c, 16)], 'stm(o, glm::scaleBias<%s, glm::defaultp>(a[0], a[1]));' % c)
    U.add('scaleBiasM_' + t, [(c, 16), (c, 2)], [(c, 16)], 'stm(o, glm::scaleBias(%s, b[0], b[1]));' % M4('a'))
    # ---- gtx/matrix_transform_2d
    U.add('tf2d_' + t, [(c, 9), (c, 2), (c, 1)], [(c, 9), (c, 9), (c, 9)],
          'stm(o, glm::translate(%s, %s)); stm(o2, glm::rotate(%s, c[0])); stm(o3, glm::scale(%s, %s));' % (M3('a'), V2('b'), M3('a'), M3('a'), V2('b')))
    U.add('shear2d_' + t, [(c, 9), (c, 1)], [(c, 9), (c, 9)], 'stm(o, glm::shearX(%s, b[0])); stm(o2, glm::shearY(%s, b[0]));' % (M3('a'), M3('a')))
    # ---- gtx/rotate_vector
    U.add('rv2_' + t, [(c, 2), (c, 1)], [(c, 2)], 'stv(o, glm::rotate(%s, b[0]));' % V2('a'))
    U.add('rvn_' + t, [(c, 4), (c, 1), (c, 3)], [(c, 3), (c, 4)], 'stv(o, glm::rotate(%s, b[0], %s)); stv(o2, glm::rotate(%s, b[0], %s));' % (V3('a'), V3('c'), V4('a'), V3('c')))
    U.add('rvxyz3_' + t, [(c, 3), (c, 1)], [(c, 3), (c, 3), (c, 3)], 'stv(o, glm::rotateX(%s, b[0])); stv(o2, glm::rotateY(%s, b[0])); stv(o3, glm::rotateZ(%s, b[0]));' % (V3('a'), V3('a'), V3('a')))
    U.add('rvxyz4_' + t, [(c, 4), (c, 1)], [(c, 4), (c, 4), (c, 4)], 'stv(o, glm::rotateX(%s, b[0])); stv(o2, glm::rotateY(%s, b[0])); stv(o3, glm::rotateZ(%s, b[0]));' % (V4('a'), V4('a'), V4('a')))
    U.add('orientation_' + t, [(c, 3), (c, 3)], [(c, 16)], 'stm(o, glm::orientation(%s, %s));' % (V3('a'), V3('b')))
    # ---- gtx/matrix_interpolation
    U.add('axisAngleMatrix_' + t, [(c, 3), (c, 1)], [(c, 16), (c, 16)], 'stm(o, glm::axisAngleMatrix(%s, b[0])); stm(o2, glm::rotate(glm::mat<4,4,%s>(%s(1)), b[0], %s));' % (V3('a'), c, c, V3('a')))
    U.add('extractRot_' + t, [(c, 16)], [(c, 16)], 'stm(o, glm::extractMatrixRotation(%s));' % M4('a'))
    U.add('axisAngle_' + t, [(c, 16)], [(c, 3), (c, 1), (c, 16)],
          'glm::vec<3,%s> ax(0); %s an = 0; glm::axisAngle(%s, ax, an); stv(o, ax); o2[0] = an; stm(o3, glm::axisAngleMatrix(ax, an));' % (c, c, M4('a')))
    U.add('axisAngle0_' + t, [(c, 16)], [(c, 3), (c, 1)], 'glm::vec<3,%s> ax(0); %s an = 0; glm::axisAngle(%s, ax, an); stv(o, ax); o2[0] = an;' % (c, c, M4('a')))
    U.add('interp_parts_' + t, [(c, 16), (c, 16), (c, 1)], [(c, 16), (c, 16)],
          'auto m1 = %s; auto m2 = %s; stm(o, glm::interpolate(m1, m2, c[0])); auto r1 = glm::extractMatrixRotation(m1); glm::vec<3,%s> ax(0); %s an = 0; glm::axisAngle(m2 * glm::transpose(r1), ax, an);'
          ' auto r = glm::axisAngleMatrix(ax, an * c[0]) * r1; r[3] = glm::vec<4,%s>(glm::vec<3,%s>(m1[3]) + c[0] * (glm::vec<3,%s>(m2[3]) - glm::vec<3,%s>(m1[3])), r[3][3]); stm(o2, r);' % (M4('a'), M4('b'), c, c, c, c, c, c))
    U.add('interpolate_' + t, [(c, 16), (c, 16), (c, 1)], [(c, 16)], 'stm(o, glm::interpolate(%s, %s, c[0]));' % (M4('a'), M4('b')))
    # ---- gtx/matrix_decompose: components travel as [scale(3), orientation(w,x,y,z), translation(3), skew(3), perspective(4)]
    DEC = ('glm::vec<3,%s> sc(0), tr(0), sk(0); glm::qua<%s> q(1, 0, 0, 0); glm::vec<4,%s> pe(0); bool ok = glm::decompose(%s, sc, q, tr, sk, pe);'
           ' o[0] = ok ? 1 : 0; stv(o2, sc); stq(o2 + 3, q); stv(o2 + 7, tr); stv(o2 + 10, sk); stv(o2 + 13, pe);' % (c, c, c, M4('a')))
    U.add('decompose_' + t, [(c, 16)], [('int', 1), (c, 17)], DEC)
    # recompose<double> hard-codes glm::mat4 and does not compile in this tree (KF-C09-recompose-double-not-instantiable): its wrappers live in a unit of their own, compiled on demand
    Ur = U if t == 'f32' else URD
    Ur.add('decrec_' + t, [(c, 16)], [('int', 1), (c, 17), (c, 16)], DEC + ' stm(o3, glm::recompose(sc, q, tr, sk, pe));')
    Ur.add('recompose_' + t, [(c, 17)], [(c, 16)], 'stm(o, glm::recompose(%s, ldq<%s>(a + 3), %s, %s, %s));' % (V3('a'), c, V3('a + 7'), V3('a + 10'), V4('a + 13')))
def units(tier): return [U, ULH, UZO, ULHZO]

# ------------------------------------------------------------------------------------------------ specification side (pure mathematics; nothing shared with glm)
ZERO, ONE = z3.RealVal(0), z3.RealVal(1)
def rv(x): return x.r if isinstance(x, RV) else (z3.RealVal(x) if isinstance(x, int) else x)
def rows(o, C, R):
    """array (column-major, o[c*R+r]) -> rows[r][c] of real terms"""
    return [[rv(o[c * R + r]) for c in range(C)] for r in range(R)]
def sum_(xs):
    xs = list(xs); r = xs[0]
    for x in xs[1:]: r = r + x
    return r
def mmul(A, B): return [[sum_(rv(A[r][k]) * rv(B[k][c]) for k in range(len(B))) for c in range(len(B[0]))] for r in range(len(A))]
def mvec(A, v): return [sum_(rv(A[r][k]) * rv(v[k]) for k in range(len(v))) for r in range(len(A))]
def transpose(A): return [[A[r][c] for r in range(len(A))] for c in range(len(A[0]))]
def ident(n): return [[ONE if r == c else ZERO for c in range(n)] for r in range(n)]
def embed(m, n=4):
    """k x k linear map as the n x n matrix acting on the first k coordinates"""
    k = len(m); return [[rv(m[r][c]) if r < k and c < k else (ONE if r == c else ZERO) for c in range(n)] for r in range(n)]
def dot(u, v): return sum_(rv(x) * rv(y) for x, y in zip(u, v))
def cross(a, b): return [a[1] * b[2] - a[2] * b[1], a[2] * b[0] - a[0] * b[2], a[0] * b[1] - a[1] * b[0]]
def norm2(v): return dot(v, v)
def det3(m): return dot(m[0], cross(m[1], m[2]))
def mat_goals(tag, got, want, scale=None):
    """entry-wise equality got == want; with scale: got*scale == want (want already carries the factor)"""
    g = []
    for r in range(len(want)):
        for c in range(len(want[0])):
            l = rv(got[r][c]); g.append(('%s[r%dc%d]' % (tag, r, c), REq(l if scale is None else l * scale, rv(want[r][c]))))
    return g
def vec_goals(tag, got, want, scale=None):
    return [('%s[%d]' % (tag, k), REq(rv(x) if scale is None else rv(x) * scale, rv(w))) for k, (x, w) in enumerate(zip(got, want))]
def translation(v):
    m = ident(len(v) + 1)
    for k, x in enumerate(v): m[k][len(v)] = x
    return m
def diag(v): return [[rv(v[r]) if r == c else ZERO for c in range(len(v))] for r in range(len(v))]
def rodrigues_scaled(cs, sn, v, L):
    """|v|^2 * (rotation by the angle with cosine cs / sine sn about v/|v|),  L = |v|:  cs |v|^2 I + (1-cs) v v^T + sn |v| [v]x"""
    L2 = norm2(v); K = [[ZERO, -v[2], v[1]], [v[2], ZERO, -v[0]], [-v[1], v[0], ZERO]]
    return [[(cs * L2 if r == c else ZERO) + (1 - cs) * v[r] * v[c] + sn * L * K[r][c] for c in range(3)] for r in range(3)]
def Rx(c, s): return [[ONE, ZERO, ZERO], [ZERO, c, -s], [ZERO, s, c]]
def Ry(c, s): return [[c, ZERO, s], [ZERO, ONE, ZERO], [-s, ZERO, c]]
def Rz(c, s): return [[c, -s, ZERO], [s, c, ZERO], [ZERO, ZERO, ONE]]
def shear_doc(p, l):
    """the matrix documented for shear() in ext/matrix_transform.hpp: x' = x + l_xy*y + l_xz*z - (l_xy+l_xz)*p_x, and cyclically"""
    lxy, lxz, lyx, lyz, lzx, lzy = l
    return [[ONE, lxy, lxz, -(lxy + lxz) * p[0]], [lyx, ONE, lyz, -(lyx + lyz) * p[1]], [lzx, lzy, ONE, -(lzx + lzy) * p[2]], [ZERO, ZERO, ZERO, ONE]]
def qmul(p, q):
    pw, px, py, pz = p; qw, qx, qy, qz = q
    return [pw * qw - px * qx - py * qy - pz * qz, pw * qx + px * qw + py * qz - pz * qy, pw * qy - px * qz + py * qw + pz * qx, pw * qz + px * qy - py * qx + pz * qw]
def qconj(q): return [q[0], -q[1], -q[2], -q[3]]
def qrotmat(q):
    """3x3 matrix of v -> q (0,v) q* (a rotation when |q| = 1), rows[r][c]"""
    cols = []
    for c in range(3):
        e = [ZERO] + [ONE if i == c else ZERO for i in range(3)]
        cols.append(qmul(qmul(q, e), qconj(q))[1:])
    return [[cols[c][r] for c in range(3)] for r in range(3)]

def is_num(t):
    t = z3.simplify(t); return z3.is_rational_value(t) or z3.is_algebraic_value(t) or z3.is_int_value(t)
class Ctx:
    """specification context bound to the executor that ran the code: sin/cos of a specification angle is the executor's table variable (Ackermannised, shared with the code) when
    symbolic and the libm value on numeric replay; sqrt(X) is a specification-side variable L with L >= 0, L*L == X (hypotheses collected in .hyps)"""
    def __init__(s, ex): s.ex = ex; s.hyps = []; s.sq = {}; s.links = []
    def _f(s, fn, x):
        x = rv(x)
        if is_num(x): return z3.RealVal(repr(getattr(math, fn)(float(z3val_to_fraction(z3.simplify(x))))))
        return realtrig.trig_var(s.ex, fn, (x,))
    def sin(s, x): return s._f('sin', x)
    def cos(s, x): return s._f('cos', x)
    @property
    def pi(s): return realtrig.real_pi(s.ex)
    def sqrt(s, X, share=False):
        """share=True: when the code itself took the square root of a polynomial identical to X (normal forms compared), use that variable y (y >= 0, y*y == its argument by the executor's
        axiom); the identification 'argument == X' is recorded in .links and discharged by the solver as an obligation of its own"""
        X = z3.simplify(rv(X))
        if is_num(X): return z3.RealVal(repr(math.sqrt(max(0.0, float(z3val_to_fraction(X))))))
        if share:
            kx = realtrig.poly_of(X).key()
            for arg, y in getattr(s.ex, 'sqrt_log', []):
                if realtrig._find_ite(arg) is None and realtrig.poly_of(z3.simplify(arg)).key() == kx:
                    if not any(l[0] is y for l in s.links): s.links.append((y, arg, X))
                    return y
        k = X.sexpr()
        if k not in s.sq:
            L = z3.Real('spec!sqrt%d' % len(s.sq)); s.sq[k] = L; s.hyps += [L >= 0, L * L == X]
        return s.sq[k]
    def link_goals(s): return [('sqrt-link[%s]: argument == specification polynomial' % y, REq(arg, X)) for y, arg, X in s.links]
    def unit(s, v, share=False):
        """v/|v|: specification-side variables n with n_j * |v| == v_j (numeric on replay); share=True and the code took sqrt(|v|^2): v_j * (1/y)"""
        v = [z3.simplify(rv(x)) for x in v]; L = s.sqrt(norm2(v), share)
        if all(is_num(x) for x in v):
            l = float(z3val_to_fraction(L)); return [z3.RealVal(repr(float(z3val_to_fraction(x)) / l)) if l else x for x in v]
        if share and any(l[0] is L for l in s.links): return [x * (ONE / L) for x in v]
        k = 'unit:' + ' '.join(x.sexpr() for x in v)
        if k not in s.sq:
            n = [z3.Real('spec!n%d_%d' % (len(s.sq), j)) for j in range(len(v))]; s.sq[k] = n; s.hyps += [nj * L == x for nj, x in zip(n, v)]
        return s.sq[k]
def rodrigues(cs, sn, n):
    """rotation with cosine cs / sine sn about the unit axis n:  cs I + (1-cs) n n^T + sn [n]x"""
    K = [[ZERO, -n[2], n[1]], [n[2], ZERO, -n[0]], [-n[1], n[0], ZERO]]
    return [[(cs if r == c else ZERO) + (1 - cs) * n[r] * n[c] + sn * K[r][c] for c in range(3)] for r in range(3)]
def mkex(unit, mode, unwind):
    ex = Exec(unit.module(), fmode='real' if mode == 'real' else 'fp', unwind=unwind)
    if mode == 'real':
        realtrig.map_pi_literals(ex); ex.trig_domain = True; ex.model_inputs_hook = realtrig.model_inputs_hook; ex.sqrt_memo = {}
    return ex
def chk(S, unit, fn, spec, pre=None, setup=None, **kw):
    """check_fn in real mode; spec(i, o, T) gets the Ctx of the executor that ran the code; setup(res, T) may add (true) lemma instances as hypotheses"""
    box = {}
    def xh(res):
        T = box['T'] = Ctx(res.ex); box['res'] = res
        h = list(setup(res, T) or []) if setup else []
        spec(res.ins, res.outs, T)              # dry run: registers the specification-side sqrt variables and trig table entries
        if kw.get('mutant'): kw['mutant'](res.ins, res.outs, T)
        return h + T.hyps                       # (trig facts created by the dry run reach the query through res.axioms, which check_fn reads afterwards)
    kw2 = dict(kw); kw2.setdefault('mode', 'real'); kw2.setdefault('timeout', S.cap(40, 120)); kw2.setdefault('solver', 'nra')
    if kw2.get('mutant'):
        mu = kw2['mutant']; kw2['mutant'] = lambda i, o: mu(i, o, box['T'])
    return S.check_fn(unit, fn, lambda i, o: spec(i, o, box['T']), pre, extra_hyps=xh, ex=mkex, **kw2)

# ------------------------------------------------------------------------------------------------ jobs: elementary transforms (ext/matrix_transform.inl, gtx/transform)
def M4of(a): return rows(a, 4, 4)
def M3of(a): return rows(a, 3, 3)
def axis_nz(v): return norm2(v) > 0
def job_elementary(t):
    def run(S):
        # translate(M, v) == M * T(v)
        chk(S, U, 'translate_' + t, lambda i, o, T: mat_goals('translate==M*T(v)', M4of(o[0]), mmul(M4of(i[0]), translation(i[1]))), bounds='all M, v',
            mutant=lambda i, o, T: [('T(v)*M', REq(rv(o[0][12]), mmul(translation(i[1]), M4of(i[0]))[0][3]))])
        # rotate(M, a, v) == M * Rodrigues(a, v/|v|)
        def spec_rot(i, o, T, sense=1):
            Mx, a, v = M4of(i[0]), i[1][0], i[2]
            return mmul(Mx, embed(rodrigues(T.cos(a), sense * T.sin(a), T.unit(v))))
        chk(S, U, 'rotate_' + t, lambda i, o, T: mat_goals('rotate==M*Rodrigues(a,v/|v|)', M4of(o[0]), spec_rot(i, o, T)) + mat_goals('rotate_slow==M*Rodrigues(a,v/|v|)', M4of(o[1]), spec_rot(i, o, T)),
            lambda i: [axis_nz(i[2])], bounds='all M, all angles (sin/cos Ackermannised), all axes v != 0',
            mutant=lambda i, o, T: [('opposite-sense', REq(rv(o[0][1]), spec_rot(i, o, T, -1)[1][0]))])
        chk(S, U, 'scale_' + t, lambda i, o, T: mat_goals('scale==M*diag(v,1)', M4of(o[0]), mmul(M4of(i[0]), embed(diag(i[1])))) + mat_goals('scale_slow==M*diag(v,1)', M4of(o[1]), mmul(M4of(i[0]), embed(diag(i[1])))),
            bounds='all M, v', mutant=lambda i, o, T: [('diag*M', REq(rv(o[0][1]), mmul(embed(diag(i[1])), M4of(i[0]))[1][0]))])
        def spec_sh(i, o, T):
            W = mmul(M4of(i[0]), shear_doc(i[1], i[2]))
            return mat_goals('shear==M*Shear(p,l)', M4of(o[0]), W) + mat_goals('shear_slow==M*Shear(p,l)', M4of(o[1]), W)
        chk(S, U, 'shear_' + t, spec_sh, bounds='all M, p, l_x, l_y, l_z; Shear(p,l) as documented in ext/matrix_transform.hpp',
            mutant=lambda i, o, T: [('transposed-shear', REq(rv(o[0][1]), mmul(M4of(i[0]), transpose(shear_doc(i[1], i[2])))[1][0]))])
        # gtx/transform: the one-argument builders are the elementary matrices themselves
        def spec_gtx(i, o, T):
            a, v = i[0][0], i[1]
            return (mat_goals('translate(v)==T(v)', M4of(o[0]), translation(v)) + mat_goals('rotate(a,v)==Rodrigues(a,v/|v|)', M4of(o[1]), embed(rodrigues(T.cos(a), T.sin(a), T.unit(v))))
                    + mat_goals('scale(v)==diag(v,1)', M4of(o[2]), embed(diag(v))))
        chk(S, U, 'gtx_transform_' + t, spec_gtx, lambda i: [axis_nz(i[1])], bounds='all angles, all v != 0')
    return run

# ------------------------------------------------------------------------------------------------ jobs: gtx helpers
def unit3(v): return norm2(v) == 1
def job_rna(t):
    def run(S):
        def spec(i, o, T, sense=1):
            Mx, a, n = M4of(i[0]), i[1][0], i[2]
            return mmul(Mx, embed(rodrigues(T.cos(a), sense * T.sin(a), n)))
        chk(S, U, 'rna_' + t, lambda i, o, T: mat_goals('rotateNormalizedAxis==M*Rodrigues(a,n)', M4of(o[0]), spec(i, o, T)), lambda i: [unit3(i[2])], bounds='all M, angles, unit axes n',
            mutant=lambda i, o, T: [('opposite-sense', REq(rv(o[0][1]), spec(i, o, T, -1)[1][0]))])
        # quaternion form: q * (cos(a/2), n sin(a/2)); the rotation it denotes is rotmat(q) * Rodrigues(a, n) (double-angle identities instantiated for a/2)
        def setup(res, T):
            realtrig.trig_double(res.ex, res.ins[1][0] * z3.RealVal('1/2')); return []
        def specq(i, o, T):
            q, a, n = i[0], i[1][0], i[2]; h = a * z3.RealVal('1/2'); r = [T.cos(h)] + [x * T.sin(h) for x in n]
            g = vec_goals('rotateNormalizedAxis(q)==q*(cos a/2, n sin a/2)', o[0], qmul(q, r))
            return g + mat_goals('rotmat(result)==rotmat(q)*Rodrigues(a,n)', qrotmat([rv(x) for x in o[0]]), mmul(qrotmat(q), rodrigues(T.cos(a), T.sin(a), n)))
        chk(S, U, 'rnaq_' + t, specq, lambda i: [unit3(i[2]), norm2(i[0]) == 1], setup=setup, bounds='all unit q, angles, unit axes n')
    return run

def sh2(k, r, c):
    """2-D shear as a 3x3 homogeneous matrix: coordinate r gains k times coordinate c"""
    m = ident(3); m[r][c] = rv(k); return m
def job_transform2(t):
    def run(S):
        # shearX2D: 'shearing on X axis' = x' = x + s*y (the convention of ext shear(): l_x displaces x); shearY2D: y' = y + s*x
        def spec2(i, o, T):
            Mx, k = M3of(i[0]), i[1][0]
            return mat_goals('shearX2D==M*[x+=s*y]', M3of(o[0]), mmul(Mx, sh2(k, 0, 1))) + mat_goals('shearY2D==M*[y+=s*x]', M3of(o[1]), mmul(Mx, sh2(k, 1, 0)))
        chk(S, U, 'shear2D_' + t, spec2, bounds='all M, s', mutant=lambda i, o, T: [('transposed', REq(rv(o[0][1]), mmul(M3of(i[0]), sh2(i[1][0], 1, 0))[1][0]))])
        def sh3(ax, s_, t_):
            """X-shear in the convention of ext shear(): the sheared coordinate gains multiples of the two others, in coordinate order"""
            m = ident(4); oth = [k for k in range(3) if k != ax]; m[ax][oth[0]] = rv(s_); m[ax][oth[1]] = rv(t_); return m
        def spec3(i, o, T, tr=False):
            Mx, (s_, t_) = M4of(i[0]), i[1]; g = []
            for ax, nm in enumerate('XYZ'):
                E = sh3(ax, s_, t_)
                g += mat_goals('shear%s3D==M*%s' % (nm, 'transpose(Shear_%s)' % nm if tr else 'Shear_%s' % nm), M4of(o[ax]), mmul(Mx, transpose(E) if tr else E))
            return g
        # column-vector reading (the one of translate/rotate/scale/shear): known finding; the row-vector reading (transposed elementary matrix) is what the code implements
        chk(S, U, 'shear3D_' + t, lambda i, o, T: spec3(i, o, T), name='c09.shear3D_%s.colvec' % t, known=['KF-C09-shear3D-transposed'], bounds='all M, s, t; elementary matrix in the convention of ext shear()')
        chk(S, U, 'shear3D_' + t, lambda i, o, T: spec3(i, o, T, True), name='c09.shear3D_%s.rowvec' % t, witness=False, side=False, bounds='all M, s, t; transposed elementary matrix')
        def specr(i, o, T, dim):
            Mx = (M3of if dim == 2 else M4of)(i[0]); n = i[1]
            P = embed([[n[r] * n[c] for c in range(dim)] for r in range(dim)], len(Mx))
            for k in range(dim, len(Mx)): P[k][k] = ZERO
            I = ident(len(Mx))
            Rf = [[I[r][c] - 2 * P[r][c] for c in range(len(Mx))] for r in range(len(Mx))]; Pj = [[I[r][c] - P[r][c] for c in range(len(Mx))] for r in range(len(Mx))]
            return mat_goals('reflect%dD==M*(I-2nn^T)' % dim, (M3of if dim == 2 else M4of)(o[0]), mmul(Mx, Rf)) + mat_goals('proj%dD==M*(I-nn^T)' % dim, (M3of if dim == 2 else M4of)(o[1]), mmul(Mx, Pj))
        chk(S, U, 'reflproj2D_' + t, lambda i, o, T: specr(i, o, T, 2), bounds='all M, all normals (x, y components used; Householder / projector formulas, exact for unit normals)')
        chk(S, U, 'reflproj3D_' + t, lambda i, o, T: specr(i, o, T, 3), bounds='all M, all normals')
    return run

def job_scalebias(t):
    """bit-precise: scaleBias(s, b) must return [[s,0,0,b],[0,s,0,b],[0,0,s,b],[0,0,0,1]] - the code leaves the 9 off-diagonal entries uninitialised (known finding)"""
    def run(S):
        w = 32 if t == 'f32' else 64
        def spec(i, o):
            s_, b_ = i[0]; g = []
            for c in range(4):
                for r in range(4):
                    want = s_ if (r == c and r < 3) else (b_ if (c == 3 and r < 3) else z3.BitVecVal(float_to_bits(1.0 if r == c else 0.0, w), w))
                    g.append(('scaleBias[r%dc%d]' % (r, c), o[0][c * 4 + r].bits == want))
            return g
        S.check_fn(U, 'scaleBias_' + t, spec, None, mode='fp', known=['KF-C09-scaleBias-uninitialised'], validate=0, bounds='all bit patterns; entries are copies of the arguments or the constants 0, 1')
    return run

def job_2d(t):
    def run(S):
        def spec(i, o, T):
            Mx, v, a = M3of(i[0]), i[1], i[2][0]
            return (mat_goals('translate2d==M*T(v)', M3of(o[0]), mmul(Mx, translation(v))) + mat_goals('rotate2d==M*Rz(a)', M3of(o[1]), mmul(Mx, Rz(T.cos(a), T.sin(a))))
                    + mat_goals('scale2d==M*diag(v,1)', M3of(o[2]), mmul(Mx, embed(diag(v), 3))))
        chk(S, U, 'tf2d_' + t, spec, bounds='all M (3x3), v, angles', mutant=lambda i, o, T: [('opposite-sense', REq(rv(o[1][1]), mmul(M3of(i[0]), Rz(T.cos(i[2][0]), -T.sin(i[2][0])))[1][0]))])
        # shearX: documented 'horizontal (parallel to the x axis) shear' = x' = x + k*y; shearY: 'vertical (parallel to the y axis)' = y' = y + k*x
        def specs(i, o, T, tr=False):
            Mx, k = M3of(i[0]), i[1][0]; ex_, ey_ = sh2(k, 0, 1), sh2(k, 1, 0)
            if tr: ex_, ey_ = transpose(ex_), transpose(ey_)
            return mat_goals('shearX==M*%s' % ('transpose(Hshear)' if tr else 'Hshear'), M3of(o[0]), mmul(Mx, ex_)) + mat_goals('shearY==M*%s' % ('transpose(Vshear)' if tr else 'Vshear'), M3of(o[1]), mmul(Mx, ey_))
        chk(S, U, 'shear2d_' + t, lambda i, o, T: specs(i, o, T), name='c09.shear2d_%s.colvec' % t, known=['KF-C09-shear2d-transposed'], bounds='all M (3x3), k; documented horizontal / vertical shear acting on column vectors')
        chk(S, U, 'shear2d_' + t, lambda i, o, T: specs(i, o, T, True), name='c09.shear2d_%s.rowvec' % t, witness=False, side=False, bounds='all M (3x3), k; transposed elementary matrix')
    return run

def job_rotvec(t):
    def run(S):
        chk(S, U, 'rv2_' + t, lambda i, o, T: vec_goals('rotate(vec2,a)==Rz(a)v', o[0], mvec(Rz(T.cos(i[1][0]), T.sin(i[1][0])), list(i[0]) + [ZERO])[:2]), bounds='all v, angles',
            mutant=lambda i, o, T: [('opposite-sense', REq(rv(o[0][0]), mvec(Rz(T.cos(i[1][0]), -T.sin(i[1][0])), list(i[0]) + [ZERO])[0]))])
        def specn(i, o, T):
            v, a, n = i[0], i[1][0], i[2]; R = rodrigues(T.cos(a), T.sin(a), T.unit(n))
            return vec_goals('rotate(vec3,a,n)==Rodrigues(a,n/|n|)v', o[0], mvec(R, v[:3])) + vec_goals('rotate(vec4,a,n)==(Rodrigues v.xyz, v.w)', o[1], mvec(R, v[:3]) + [v[3]])
        chk(S, U, 'rvn_' + t, specn, lambda i: [axis_nz(i[2])], bounds='all v, angles, normals != 0')
        for nm, n in (('rvxyz3_', 3), ('rvxyz4_', 4)):
            def spec(i, o, T, n=n):
                v, a = i[0], i[1][0]; c, s_ = T.cos(a), T.sin(a); g = []
                for k, (ax, R) in enumerate((('X', Rx), ('Y', Ry), ('Z', Rz))):
                    g += vec_goals('rotate%s(vec%d)==R%s(a)v' % (ax, n, ax.lower()), o[k], mvec(R(c, s_), v[:3]) + list(v[3:]))
                return g
            chk(S, U, nm + t, spec, bounds='all v, angles', mutant=lambda i, o, T: [('opposite-sense', REq(rv(o[1][0]), mvec(Ry(T.cos(i[1][0]), -T.sin(i[1][0])), i[0][:3])[0]))])
    return run

# ------------------------------------------------------------------------------------------------ jobs: lookAt
def pre_look(i):
    eye, ctr, up = i; d = [c - e for c, e in zip(ctr, eye)]
    return [norm2(d) > 0, norm2(cross(d, up)) > 0]
def look_goals(i, o, T, hand):
    """rigid transform (proper rotation + translation, last row 0 0 0 1) taking eye to the origin, center to (0, 0, -|d|) (RH) / (0, 0, +|d|) (LH), and up into the half-plane x = 0, y > 0"""
    eye, ctr, up = i; Mx = M4of(o[0]); R = [row[:3] for row in Mx[:3]]; d = [c - e for c, e in zip(ctr, eye)]
    sg = -1 if hand == 'RH' else 1
    g = vec_goals('M*(eye,1)==(0,0,0,1)', mvec(Mx, list(eye) + [ONE]), [ZERO, ZERO, ZERO, ONE])
    pc = mvec(Mx, list(ctr) + [ONE])
    g += [('M*(center,1).x==0', REq(pc[0], ZERO)), ('M*(center,1).y==0', REq(pc[1], ZERO)), ('M*(center,1).w==1', REq(pc[3], ONE)),
          ('M*(center,1).z==%s|center-eye|' % ('-' if sg < 0 else '+'), REq(pc[2], sg * T.sqrt(norm2(d))))]
    pu = mvec(R, up)
    g += [('R*up.x==0', REq(pu[0], ZERO)), ('R*up.y>0', RGoal('gt', pu[1], ZERO))]
    RRt = mmul(R, transpose(R))
    g += [('R*R^T[r%dc%d]' % (r, c), REq(RRt[r][c], ONE if r == c else ZERO)) for r in range(3) for c in range(r, 3)]
    g += [('det(R)==1', REq(det3(R), ONE))]
    g += [('lastrow[%d]' % c, REq(Mx[3][c], ONE if c == 3 else ZERO)) for c in range(4)]
    return g
def job_lookat(t, cfgname):
    Un, cfg = CFG[cfgname]
    def run(S):
        vs = (('RH', 'RH'), ('LH', 'LH'), ('', cfg)) if cfgname == 'RH_NO' else (('', cfg),)
        for v, hand in vs:
            chk(S, Un, 'lookAt%s_%s' % (v, t), lambda i, o, T, hand=hand: look_goals(i, o, T, hand), pre_look, bounds='eye != center, up not parallel to center-eye; config ' + cfgname,
                mutant=lambda i, o, T, hand=hand: [('other-handedness', dict(look_goals(i, o, T, 'LH' if hand == 'RH' else 'RH'))['M*(center,1).z==%s|center-eye|' % ('+' if hand == 'RH' else '-')])])
    return run
def job_lookat_dispatch(t, cfgname):
    """[bit] lookAt is exactly the variant selected by the configured handedness (identical IEEE terms), and differs from the other one"""
    Un, cfg = CFG[cfgname]; other = 'LH' if cfg == 'RH' else 'RH'
    def run(S):
        S.diff_fn(Un, Un, 'lookAt_' + t, fname_b='lookAt%s_%s' % (cfg, t), mode='fp', name='c09.dispatch.%s.lookAt_%s==lookAt%s' % (cfgname, t, cfg), timeout=S.cap(10, 30), bounds='bit-exact, all bit patterns; config ' + cfgname,
                  label_a='lookAt', label_b='lookAt' + cfg)
        if any(x.startswith('c09.dispatch.%s.lookAt_%s==' % (cfgname, t)) for x in S.inconclusive):
            # the terms differ and the solver found neither proof nor model over symbolic IEEE sqrt/div: help the model search with a pinned view (a verdict still needs the model reproduced natively)
            w_ = 32 if t == 'f32' else 64
            pin = lambda i: [x == z3.BitVecVal(float_to_bits(v, w_), w_) for row, vals in zip(i, ((1.0, 2.0, 3.0), (0.5, -1.0, 7.0), (0.0, 1.0, 0.25))) for x, v in zip(row, vals)]
            S.diff_fn(Un, Un, 'lookAt_' + t, pin, fname_b='lookAt%s_%s' % (cfg, t), mode='fp', name='c09.dispatch.%s.lookAt_%s==lookAt%s.pinned' % (cfgname, t, cfg), timeout=30, mandatory=False,
                      bounds='model search with pinned inputs', label_a='lookAt', label_b='lookAt' + cfg)
        if S.quick: return
        r1 = sym_call(Un, 'lookAt_' + t, mode='fp'); r2 = sym_call(Un, 'lookAt%s_%s' % (other, t), ins=r1.ins, mode='fp')
        w = 32 if t == 'f32' else 64       # (model search over symbolic IEEE sqrt/div does not finish: the twin is decided on the pinned view eye = 0, center = -z, up = +y)
        fin = [x == z3.BitVecVal(float_to_bits(v, w), w) for row, vals in zip(r1.ins, ((0.0, 0.0, 0.0), (0.0, 0.0, -1.0), (0.0, 1.0, 0.0))) for x, v in zip(row, vals)]
        S.prove('c09.dispatch.%s.lookAt_%s!=lookAt%s.twin' % (cfgname, t, other), z3.And(*[same_float(a, b) for a, b in zip(r1.outs[0], r2.outs[0])]), fin + r1.axioms + r2.axioms, timeout=S.cap(30, 60), kind='mutant-twin',
                expect='sat', mandatory=False, functions=['w_lookAt_' + t])
    return run

# ------------------------------------------------------------------------------------------------ jobs: gtx/rotate_vector orientation, gtx/matrix_interpolation
def eps_of(t): return z3.Q(1, 2 ** (23 if t == 'f32' else 52))
def absr(x): return z3.If(x >= 0, x, -x)
def inv_call(ex, fn, k=0):
    """(result variable, argument terms) of the k-th distinct acos/asin/... call executed by the code"""
    return [(v, argt) for key, (v, argt) in ex.trig.items() if key[0] == fn][k]
def prove_sides(S, unit, fn, res, name, hyps_for, pre_fn=None, solver='z3', timeout=None, mandatory=True):
    """the executor's own obligations (domains of sqrt / division / acos, traps), each under the hypotheses hyps_for(kind, descr) chosen for it (the nonlinear solver drowns in irrelevant equations)"""
    for k, (kind, cond, d) in enumerate(res.obligations):
        on = '%s.%s[%s]#%d' % (name, kind, d[:60], k)
        S.prove(on, z3.Not(cond), list(hyps_for(kind, d)) + res.axioms, timeout=timeout or S.cap(40, 120), solver=solver, kind=kind, functions=['w_' + fn], mandatory=mandatory,
                replay=S._replayer(res, None, pre_fn, unit, fn, 'real', on, side_kind=kind))
def job_orientation(t):
    """chain: (here) orientation(N,Up) == Rodrigues(A, unit(Up x N)) with A = acos(N.Up), cos A = N.Up, sin A >= 0;  (lemmas.orientation.*, lemmas.rodrigues.*) such a matrix is a proper rotation taking Up to N"""
    def run(S):
        eps = eps_of(t)
        def near(i): return z3.And(*[absr(a - b) <= eps for a, b in zip(i[0], i[1])])      # equal(Normal, Up, epsilon): |a-b| <= eps per component (ext/vector_relational.hpp)
        def acos_parts(i, T):
            N, Up = i
            if is_num(N[0]):     # numeric replay
                A = z3.RealVal(repr(math.acos(max(-1.0, min(1.0, float(z3val_to_fraction(z3.simplify(dot(N, Up)))))))))
                return T.cos(A), T.sin(A), dot(N, Up)
            A, argt = inv_call(T.ex, 'acos'); return T.cos(A), T.sin(A), argt[0]
        def shape(i, o, T):
            N, Up = i; cA, sA, arg = acos_parts(i, T)
            return mat_goals('orientation==Rodrigues(A,unit(Up x N))', M4of(o[0]), embed(rodrigues(cA, sA, T.unit(cross(Up, N), share=True)))) + [('acos.arg==N.Up', REq(arg, dot(N, Up)))] + T.link_goals()
        weak = lambda i: [norm2(cross(i[1], i[0])) > 0, z3.Not(near(i))]
        lagr = lambda i: [norm2(cross(i[1], i[0])) == 1 - dot(i[0], i[1]) * dot(i[0], i[1])]      # instance of lemmas.orientation.lagrange for unit inputs
        full = lambda i: [unit3(i[0]), unit3(i[1])] + weak(i) + lagr(i)
        res = chk(S, U, 'orientation_' + t, shape, weak, side=False, solver='z3', bounds='A = acos(N.Up); all N, Up with Up x N != 0, not within epsilon of each other (component-wise)',
                  mutant=lambda i, o, T: [('opposite-sense', REq(rv(o[0][1]), embed(rodrigues(acos_parts(i, T)[0], -acos_parts(i, T)[1], T.unit(cross(i[1], i[0]), share=True)))[1][0]))])
        def trig(i, o, T):
            cA, sA, arg = acos_parts(i, T); return [('cos(A)==N.Up', REq(cA, dot(i[0], i[1]))), ('sin(A)>=0', RGoal('ge', sA, ZERO))]
        chk(S, U, 'orientation_' + t, trig, full, side=False, witness=False, solver='z3', name='c09.orientation_%s.angle' % t, bounds='unit Normal, unit Up, not parallel, not within epsilon')
        if res is not None:
            prove_sides(S, U, 'orientation_' + t, res, 'c09.orientation_' + t, lambda kind, d: full(res.ins) if 'acos' in d else weak(res.ins), pre_fn=full)
        chk(S, U, 'orientation_' + t, lambda i, o, T: mat_goals('orientation(N,Up)==I', M4of(o[0]), ident(4)), lambda i: [near(i)], name='c09.orientation_%s.near' % t, side=False, solver='z3',
            bounds='Normal within epsilon of Up (component-wise): identity')
    return run
def job_lemmas(S):
    """code-free links of the lemma chains (polynomial identities and small scalar facts); every link is a discharged obligation"""
    P = lambda n, g, h=(): S.prove('c09.lemmas.' + n, g, list(h), timeout=S.cap(30, 90), solver='nra', kind='lemma', functions=['(specification-side lemma)'])
    N = list(z3.Reals('N0 N1 N2')); Up = list(z3.Reals('U0 U1 U2')); a = list(z3.Reals('a0 a1 a2')); n = list(z3.Reals('n0 n1 n2'))
    L, c, s_, X, w, xk, uk, Nk, nk, q_, LL, A_ = z3.Reals('L c s X w xk uk Nk nk q LL A')
    # orientation: R = Rodrigues(c, s, n) with c = N.Up, s >= 0, s^2 + c^2 = 1, n L = Up x N, L = |Up x N| > 0, |N| = |Up| = 1  ==>  R Up = N, R proper rotation
    P('orientation.lagrange: |Up x N|^2 == |Up|^2 |N|^2 - (N.Up)^2', norm2(cross(Up, N)) == norm2(Up) * norm2(N) - dot(N, Up) * dot(N, Up))
    P('orientation.perp: (Up x N).Up == 0', dot(cross(Up, N), Up) == 0)
    for k in range(3):
        P('orientation.triple[%d]: ((Up x N) x Up) == N |Up|^2 - Up (Up.N)' % k, cross(cross(Up, N), Up)[k] == N[k] * norm2(Up) - Up[k] * dot(Up, N))
        P('orientation.n-cross[%d]: (n x Up) L == a x Up  given n L == a' % k, cross(n, Up)[k] * L == cross(a, Up)[k], [n[j] * L == a[j] for j in range(3)])
        P('orientation.apply[%d]: (Rodrigues(c,s,n) Up)_k == c Up_k + (1-c)(n.Up) n_k + s (n x Up)_k' % k, mvec(rodrigues(c, s_, n), Up)[k] == c * Up[k] + (1 - c) * dot(n, Up) * n[k] + s_ * cross(n, Up)[k])
    P('orientation.n-dot: (n.Up) L == a.Up  given n L == a', dot(n, Up) * L == dot(a, Up), [n[j] * L == a[j] for j in range(3)])
    P('orientation.s==L: s, L >= 0, s^2 + c^2 == 1, L^2 == X == 1 - c^2', s_ == L, [s_ >= 0, L >= 0, s_ * s_ + c * c == 1, L * L == X, X == 1 - c * c])
    P('orientation.final: c u + (1-c) w n + s x == N_k  given w L == 0, x L == N_k - c u, s == L > 0', c * uk + (1 - c) * w * nk + s_ * xk == Nk, [w * L == 0, L > 0, xk * L == Nk - c * uk, s_ == L])
    P('unit.n: |n|^2 L^2 == |a|^2  given n L == a', norm2(n) * L * L == norm2(a), [n[j] * L == a[j] for j in range(3)])
    P('unit.q: q == 1  given q LL == A, LL == A, LL > 0', q_ == 1, [q_ * LL == A_, LL == A_, LL > 0])
    # every Rodrigues matrix with c^2 + s^2 = 1 about a unit axis is a proper rotation fixing the axis
    R = rodrigues(c, s_, n); hy = [c * c + s_ * s_ == 1, norm2(n) == 1]; RRt = mmul(R, transpose(R))
    for r in range(3):
        for k in range(r, 3): P('rodrigues.orthonormal[r%dc%d]' % (r, k), RRt[r][k] == (1 if r == k else 0), hy)
        P('rodrigues.fixes-axis[%d]' % r, mvec(R, n)[r] == n[r], hy)
    P('rodrigues.det==1', det3(R) == 1, hy)
    Rm = rodrigues(c, -s_, [-x for x in n])
    for r in range(3):
        for k in range(3): P('rodrigues.sign[r%dc%d]: Rodrigues(c,-s,-n) == Rodrigues(c,s,n)' % (r, k), Rm[r][k] == R[r][k])
    P('axisangle.final: a == n_k  given a y == 2 s n_k, y == 2 s, s > 0', xk == nk, [xk * L == 2 * s_ * nk, L == 2 * s_, s_ > 0])
    P('axisangle.final-: a == -n_k  given a y == 2 s n_k, y == -2 s, s < 0', xk == -nk, [xk * L == 2 * s_ * nk, L == -2 * s_, s_ < 0])
def job_axisanglematrix(t):
    def run(S):
        def spec(i, o, T):
            v, a = i[0], i[1][0]; W = embed(rodrigues(T.cos(a), T.sin(a), T.unit(v)))
            return mat_goals('axisAngleMatrix==Rodrigues(a,v/|v|)', M4of(o[0]), W) + mat_goals('axisAngleMatrix==rotate(I,a,v)', M4of(o[0]), M4of(o[1]))
        chk(S, U, 'axisAngleMatrix_' + t, spec, lambda i: [axis_nz(i[0])], bounds='all angles, axes != 0',
            mutant=lambda i, o, T: [('opposite-sense', REq(rv(o[0][1]), embed(rodrigues(T.cos(i[1][0]), -T.sin(i[1][0]), T.unit(i[0])))[1][0]))])
        def spece(i, o, T):
            Mx = M4of(i[0]); return mat_goals('extractMatrixRotation', M4of(o[0]), embed([row[:3] for row in Mx[:3]]))
        chk(S, U, 'extractRot_' + t, spece, bounds='all M: upper-left 3x3 block, identity elsewhere')
    return run

def flat(Mrows):
    """rows[r][c] -> column-major list"""
    return [rv(Mrows[r][c]) for c in range(len(Mrows[0])) for r in range(len(Mrows))]
def job_axisangle(t):
    """chain: (here) for R = Rodrigues(c, s, n) outside the code's 'near symmetrical' band axisAngle returns axis = sign(s) n and an angle in [0, pi] with cos = c, sin = |s|;
    (lemmas.rodrigues.sign) Rodrigues(c, |s|, sign(s) n) == R; (axisanglematrix job) axisAngleMatrix(axis, angle) == Rodrigues(angle, axis/|axis|).  Exact half turns and the identity directly."""
    def run(S):
        eps = eps_of(t) * 100
        c, s_ = z3.Reals('rc rs'); n = list(z3.Reals('rn0 rn1 rn2')); tr = list(z3.Reals('rt0 rt1 rt2'))
        R = rodrigues(c, s_, n); Min = flat([R[r] + [tr[r]] for r in range(3)] + [[ZERO, ZERO, ZERO, ONE]])
        rot = [c * c + s_ * s_ == 1, norm2(n) == 1]
        generic = z3.Or(*[absr(2 * s_ * n[k]) >= eps for k in range(3)])
        for sg, cond, sign in (() if S.quick else (('s>0', s_ > 0, 1), ('s<0', s_ < 0, -1))):
            def spec(i, o, T, sign=sign):
                ax = [rv(x) for x in o[0]]; an = rv(o[1][0]); Mx = M4of(i[0])
                v = [Mx[2][1] - Mx[1][2], Mx[0][2] - Mx[2][0], Mx[1][0] - Mx[0][1]]          # antisymmetric part of R = 2 s n
                y = T.sqrt(norm2(v), share=True)
                g = T.link_goals() + [('antisymmetric-part[%d]==2 s n' % k, REq(v[k], 2 * s_ * n[k])) for k in range(3)] + [('|2 s n|==2|s|', REq(y, sign * 2 * s_))]
                g += [('axis[%d]*|2 s n|==2 s n' % k, REq(ax[k] * y, 2 * s_ * n[k])) for k in range(3)]
                return g + [('cos(angle)==c', REq(T.cos(an), c)), ('sin(angle)==|s|', REq(T.sin(an), sign * s_)), ('angle>=0', RGoal('ge', an, ZERO)), ('angle<=pi', RGoal('le', an, T.pi))]
            chk(S, U, 'axisAngle0_' + t, spec, lambda i, cond=cond: rot + [generic, cond], ins=[Min], name='c09.axisAngle_%s.generic.%s' % (t, sg), solver='z3', timeout=S.cap(60, 180),
                bounds='R = Rodrigues(c, s, n), c^2 + s^2 = 1, |n| = 1, some |2 s n_k| >= 100 epsilon; ' + sg, mutant=lambda i, o, T: [('angle==0', REq(rv(o[1][0]), ZERO))])
        # exact half turn: R = 2 n n^T - I
        H = [[2 * n[r] * n[k] - (ONE if r == k else ZERO) for k in range(3)] for r in range(3)]; Hin = flat([H[r] + [tr[r]] for r in range(3)] + [[ZERO, ZERO, ZERO, ONE]])
        def spech(i, o, T):
            ax = [rv(x) for x in o[0]]
            return [('angle==pi', REq(rv(o[1][0]), T.pi))] + [('axis_%d*axis_%d==n_%d*n_%d' % (a, b, a, b), REq(ax[a] * ax[b], n[a] * n[b])) for a in range(3) for b in range(a, 3)]
        n2 = [x * x for x in n]
        for nm, cond in () if S.quick else (('x', z3.And(n2[0] > n2[1], n2[0] > n2[2])), ('y', z3.And(z3.Not(z3.And(n2[0] > n2[1], n2[0] > n2[2])), n2[1] > n2[2])), ('z', z3.And(z3.Not(z3.And(n2[0] > n2[1], n2[0] > n2[2])), z3.Not(n2[1] > n2[2])))):
            chk(S, U, 'axisAngle0_' + t, spech, lambda i, cond=cond: [norm2(n) == 1, cond], ins=[Hin], name='c09.axisAngle_%s.halfturn.%s' % (t, nm), solver='z3', timeout=25, mandatory=False,
                bounds='R = 2 n n^T - I, |n| = 1: angle pi, axis = +-n; largest diagonal entry: ' + nm)
        Iin = flat([[ONE if r == k else (tr[r] if (k == 3 and r < 3) else ZERO) for k in range(4)] for r in range(4)])
        chk(S, U, 'axisAngle_' + t, lambda i, o, T: [('angle==0', REq(rv(o[1][0]), ZERO))] + vec_goals('axis==(1,0,0)', o[0], [ONE, ZERO, ZERO]) + mat_goals('axisAngleMatrix==I', M4of(o[2]), ident(4)), None, ins=[Iin],
            name='c09.axisAngle_%s.identity' % t, solver='z3', bounds='R = I (any translation)')
    return run
def job_interpolate(t):
    """interpolate(m1, m2, d) == axisAngleMatrix(axis, angle*d) * rot(m1) with (axis, angle) = axisAngle(m2 * rot(m1)^T) and the translation m1.t + d (m2.t - m1.t) (composition of the parts verified above);
    d = 0 gives m1 for every affine m1 and every m2; d = 1 gives m2 for m1 a translation and m2 = translation * rotation (optional: heavy)"""
    def run(S):
        m1 = [z3.Real('p%d' % k) if k % 4 != 3 else (ONE if k == 15 else ZERO) for k in range(16)]; m2 = [z3.Real('q%d' % k) for k in range(16)]
        chk(S, U, 'interpolate_' + t, lambda i, o, T: mat_goals('interpolate(m1,m2,0)==m1', M4of(o[0]), M4of(i[0])), None, ins=[m1, m2, [ZERO]], name='c09.interpolate_%s.delta0' % t, solver='z3', timeout=S.cap(60, 180), side=False, witness=False,
            bounds='delta = 0: all affine m1 (last row 0 0 0 1), all m2 (the code\'s own domain obligations are not discharged here)')
        if S.quick: return
        c, s_ = z3.Reals('rc rs'); n = list(z3.Reals('rn0 rn1 rn2')); t1 = list(z3.Reals('s0 s1 s2')); t2 = list(z3.Reals('t0 t1 t2'))
        R = rodrigues(c, s_, n); eps = eps_of(t) * 100
        T1 = flat(translation(t1)); M2 = flat([R[r] + [t2[r]] for r in range(3)] + [[ZERO, ZERO, ZERO, ONE]])
        generic = z3.Or(*[absr(2 * s_ * n[k]) >= eps for k in range(3)])
        for sg, cond in (('s>0', s_ > 0), ('s<0', s_ < 0)):
            chk(S, U, 'interpolate_' + t, lambda i, o, T: mat_goals('interpolate(m1,m2,1)==m2', M4of(o[0]), M4of(i[1])), lambda i, cond=cond: [c * c + s_ * s_ == 1, norm2(n) == 1, generic, cond], ins=[T1, M2, [ONE]], mandatory=False,
                name='c09.interpolate_%s.delta1.%s' % (t, sg), solver='z3', timeout=15, bounds='delta = 1: m1 = translation, m2 = translation * Rodrigues(c,s,n) outside the near-symmetrical band; ' + sg)
    return run

# ------------------------------------------------------------------------------------------------ solver-justified simplification chains (decompose)
def _fresh_vars(t, memo):
    k = t.get_id()
    if k in memo: return memo[k]
    if z3.is_const(t) and t.decl().kind() == z3.Z3_OP_UNINTERPRETED: r = frozenset([t.decl().name()]) if '!' in t.decl().name() else frozenset()
    else:
        r = frozenset()
        for c in t.children(): r = r | _fresh_vars(c, memo)
    memo[k] = r; return r
def select_axioms(axioms, terms):
    """the axioms that (transitively) talk about an engine-fresh variable (sqrt!k, sin!k ..) occurring in terms; dropping the others only weakens the hypotheses"""
    memo = {}; need = set()
    for t in terms: need |= _fresh_vars(t, memo)
    av = [_fresh_vars(a, memo) for a in axioms]; keep = set(); ch = True
    while ch:
        ch = False
        for i, v in enumerate(av):
            if i not in keep and (v & need): keep.add(i); need |= v; ch = True
    return [a for i, a in enumerate(axioms) if i in keep]
def _walk(t, f, seen):
    k = t.get_id()
    if k in seen: return
    seen.add(k)
    for c in t.children(): _walk(c, f, seen)
    f(t)
def _has_bv(t, memo):
    k = t.get_id()
    if k in memo: return memo[k]
    r = z3.is_bv(t) or any(_has_bv(c, memo) for c in t.children()); memo[k] = r; return r
class Chain:
    """Rewrites the executor's output terms step by step; every rewrite is an equality / equivalence discharged by the solver under the precondition (recorded as 'lemma' obligations):
    equate: a sqrt variable equals a specification term (then substituted);  cancel: (p*v)/v == p for v != 0;  conds: If-conditions that are constant under the precondition;
    bvfree: Boolean atoms over bit-vector index arithmetic == the equivalent formula over the real comparisons inside them."""
    def __init__(s, S, name, pre, axioms, nonzero=(), functions=()):
        s.S = S; s.name = name; s.pre = list(pre); s.ax = list(axioms); s.g = {}; s.nz = {v.decl().name(): v for v in nonzero}; s.n = 0; s.fn = list(functions)
    def track(s, key, terms): s.g[key] = [z3.simplify(t) for t in terms]
    def fork(s, tag, extra):
        """the same terms under a stronger precondition (case split)"""
        c = Chain(s.S, s.name + '.' + tag, s.pre + list(extra), s.ax, functions=s.fn); c.nz = dict(s.nz); c.mandatory = getattr(s, 'mandatory', True); c.g = {k: list(v) for k, v in s.g.items()}; return c
    def terms(s): return [t for k in s.g for t in s.g[k]] + s.ax
    def apply(s, pairs):
        if not pairs: return
        for k in s.g: s.g[k] = [z3.simplify(z3.substitute(t, *pairs)) for t in s.g[k]]
        s.ax = [z3.simplify(z3.substitute(a, *pairs)) for a in s.ax]
        s.ax = [a for a in s.ax if not z3.is_true(a)]
    def lemma(s, label, goal, hyps, solver='nra', timeout=None, mandatory=True):
        s.n += 1
        r, _ = s.S.prove('%s.chain%03d.%s' % (s.name, s.n, label[:90]), goal, list(hyps), kind='lemma', solver=solver, timeout=timeout or s.S.cap(30, 90), functions=s.fn, mandatory=mandatory and getattr(s, 'mandatory', True),
                         replay=lambda m: ('not-reproduced', {'note': 'lemma of a simplification chain: a model only means the rewrite is not available'}))
        return r == 'unsat'
    def equate(s, label, var, arg, want_sq, want, extra=()):
        """var is the executor's sqrt of arg: (1) arg == want_sq (identity under pre), (2) var == want from var >= 0, var^2 == want_sq, want >= 0; then var := want everywhere"""
        a = z3.simplify(arg)
        ok1 = s.lemma(label + '.arg', a == want_sq, s.pre + list(extra))
        ok2 = s.lemma(label + '.root', var == want, s.pre + list(extra) + [var >= 0, var * var == want_sq])
        if ok1 and ok2: s.apply([(var, want)])
        return ok1 and ok2
    def _den(s, d):
        """(monomial, coefficient) when the divisor is coefficient * product of variables known to be non-zero"""
        pd = realtrig.poly_of(z3.simplify(d))
        if len(pd.t) != 1: return None
        (m, cf), = pd.t.items()
        if not m or any(a not in s.nz for a in m): return None
        return m, cf
    def cancel(s, rounds=8):
        """(p * v) / (k * v) == p / k for monomial divisors over the variables declared non-zero, innermost divisions first (each instance is a lemma)"""
        for _ in range(rounds):
            acc = []; seen = set()
            def f(t):
                if z3.is_app(t) and t.decl().kind() == z3.Z3_OP_DIV and s._den(t.arg(1)) is not None: acc.append(t)
            for t in s.terms(): _walk(t, f, seen)
            new = []
            for node in acc:
                inner = []
                def g(t, inner=inner):
                    if z3.is_app(t) and t.decl().kind() == z3.Z3_OP_DIV: inner.append(t)
                _walk(node.arg(0), g, set())
                if inner: continue
                m, cf = s._den(node.arg(1)); p = realtrig.poly_of(z3.simplify(node.arg(0)))
                nt = {}; ok = True
                for mono, c_ in p.t.items():
                    l = list(mono)
                    for a in m:
                        if a in l: l.remove(a)
                        else: ok = False; break
                    if not ok: break
                    nt[tuple(l)] = c_ / cf
                if not ok: continue
                r_ = realtrig._Poly(nt, p.atoms).term() if nt else ZERO
                if s.lemma('cancel', node == r_, s.pre + select_axioms(s.ax, [node]), timeout=10): new.append((node, r_))
            if not new: break
            s.apply(new)
    def reduce(s, var, repl, rounds=4):
        """polynomial normal form modulo the hypothesis var*var == repl (e.g. s^2 == 1 - c^2): every maximal If-/division-free polynomial subterm P is replaced by its reduced expansion P',
        each replacement justified by the lemma P == P' under the precondition"""
        vk = var.sexpr(); rp = realtrig.poly_of(z3.simplify(repl)); memo = {}
        def pure(t):
            k = t.get_id()
            if k in memo: return memo[k]
            if z3.is_rational_value(t) or (z3.is_const(t) and t.decl().kind() == z3.Z3_OP_UNINTERPRETED and z3.is_real(t)): r = True
            elif z3.is_app(t) and z3.is_real(t) and t.decl().kind() in (z3.Z3_OP_ADD, z3.Z3_OP_MUL, z3.Z3_OP_SUB, z3.Z3_OP_UMINUS): r = all(pure(c) for c in t.children())
            else: r = False
            memo[k] = r; return r
        def red(p):
            ch = True
            while ch:
                ch = False; out = realtrig._Poly({}, dict(p.atoms))
                for m, cf in p.t.items():
                    if m.count(vk) >= 2:
                        l = list(m); l.remove(vk); l.remove(vk); ch = True
                        out = out.add(realtrig._Poly({tuple(l): cf}, p.atoms).mul(rp))
                    else: out = out.add(realtrig._Poly({m: cf}, p.atoms))
                p = out
            return p
        for _ in range(rounds):
            cand = []; seen = set()
            def visit(t):
                k = t.get_id()
                if k in seen: return
                seen.add(k)
                if pure(t):
                    if z3.is_app(t) and t.num_args() > 0: cand.append(t)
                    return
                for c in t.children(): visit(c)
            for t in s.terms(): visit(t)
            new = []
            for P in cand:
                p0 = realtrig.poly_of(P); p1 = red(p0)
                r_ = p1.term() if p1.t else ZERO
                if z3.simplify(r_).eq(z3.simplify(P)): continue
                if len(p1.t) > len(p0.t) and not any(m.count(vk) >= 2 for m in p0.t): continue
                if s.lemma('reduce', P == r_, s.pre, timeout=10): new.append((P, r_))
            if not new: break
            s.apply(new)
    def bvfree(s):
        memo = {}; atoms = []; seen = set()
        def f(t):
            if z3.is_bool(t) and any(z3.is_bv(c) for c in t.children()): atoms.append(t)
        for t in s.terms(): _walk(t, f, seen)
        new = []
        for a in atoms:
            cs = []
            def g(t, cs=cs):
                if z3.is_app(t) and t.decl().kind() == z3.Z3_OP_ITE and z3.is_bv(t) and not _has_bv(t.arg(0), memo):
                    if not any(t.arg(0).eq(x) for x in cs): cs.append(t.arg(0))
            _walk(a, g, set())
            if not cs or len(cs) > 8: continue
            trues = []; bad = False
            for m in range(1 << len(cs)):
                asg = [(c, z3.BoolVal(bool((m >> j) & 1))) for j, c in enumerate(cs)]
                v = z3.simplify(z3.substitute(a, *asg))
                if z3.is_true(v): trues.append(z3.And(*[c if (m >> j) & 1 else z3.Not(c) for j, c in enumerate(cs)]) if len(cs) > 1 else (cs[0] if m & 1 else z3.Not(cs[0])))
                elif not z3.is_false(v): bad = True; break
            if bad: continue
            f_ = z3.simplify(z3.Or(*trues)) if trues else z3.BoolVal(False)
            if s.lemma('bvfree', a == f_, [], solver='z3', timeout=10): new.append((a, f_))
        s.apply(new)
    def conds(s, timeout=3, skip=lambda c: False):
        """If-conditions (and the Boolean atoms inside them) decided by the precondition alone"""
        for _ in range(6):
            cand = []; seen = set(); memo = {}
            def f(t):
                if z3.is_app(t) and t.decl().kind() == z3.Z3_OP_ITE:
                    c = t.arg(0)
                    if not _has_bv(c, memo) and not any(c.eq(x) for x in cand): cand.append(c)
            for t in s.terms(): _walk(t, f, seen)
            new = []
            for c in cand:
                if skip(c): continue
                hy = s.pre + select_axioms(s.ax, [c])
                r, _, _, _ = s.S.query(hy + [z3.Not(c)], timeout, 'nra')
                if r == 'unsat':
                    if s.lemma('cond-true', c, hy, timeout=timeout * 3): new.append((c, z3.BoolVal(True)))
                    continue
                r, _, _, _ = s.S.query(hy + [c], timeout, 'nra')
                if r == 'unsat' and s.lemma('cond-false', z3.Not(c), hy, timeout=timeout * 3): new.append((c, z3.BoolVal(False)))
            if not new: break
            s.apply(new)

def trs_matrix(R, sc, tr, skew=None, persp=None):
    """P * T(tr) * R * K(skew) * diag(sc): the composition order documented by recompose(); rows[r][c]"""
    K = ident(3)
    if skew is not None:
        kx, ky, kz = skew; K = [[ONE, kz, ky], [ZERO, ONE, kx], [ZERO, ZERO, ONE]]      # column 1 += kz * column 0; column 2 += ky * column 0 + kx * column 1
    A = mmul(mmul(R, K), diag(sc))
    M = [[A[r][c] for c in range(3)] + [rv(tr[r])] for r in range(3)] + [[ZERO, ZERO, ZERO, ONE]]
    if persp is not None:
        P = ident(4); P[3] = [rv(x) for x in persp]; M = mmul(P, M)
    return M

CUBE = {'I': ident(3), 'X90': [[ONE, ZERO, ZERO], [ZERO, ZERO, -ONE], [ZERO, ONE, ZERO]], 'Y90': [[ZERO, ZERO, ONE], [ZERO, ONE, ZERO], [-ONE, ZERO, ZERO]],
        'X180': [[ONE, ZERO, ZERO], [ZERO, -ONE, ZERO], [ZERO, ZERO, -ONE]], 'Y180': [[-ONE, ZERO, ZERO], [ZERO, ONE, ZERO], [ZERO, ZERO, -ONE]],
        'P': [[z3.Q(2, 3), z3.Q(-1, 3), z3.Q(2, 3)], [z3.Q(2, 3), z3.Q(2, 3), z3.Q(-1, 3)], [z3.Q(-1, 3), z3.Q(2, 3), z3.Q(2, 3)]]}     # P: a rational rotation with no zero entry
_RD = {}
def recompose_double_available(S):
    """recompose<double> hard-codes glm::mat4 (float) and does not compile in the unchanged tree: reported as a known finding while that is so; once it compiles the double obligations run"""
    if 'ok' not in _RD:
        try: URD.compile_ll(); URD.module(); _RD['ok'] = True
        except RuntimeError as e: _RD['ok'] = False; _RD['err'] = str(e)[-600:]
    if not _RD['ok']:
        kf = S.known.get('KF-C09-recompose-double-not-instantiable')
        if kf is not None and kf.get('status', 'open') == 'open':
            if not any(k == kf['id'] for k, _ in S.known_hits):
                S.known_hits.append((kf['id'], kf['what']))
                S.rec(name='c09.recompose_f64.instantiable.known[%s]' % kf['id'], kind='known-finding-probe', functions=['glm::recompose<double>'], solver='clang++-14', result='compile-error', time_s=0.0, mandatory=False,
                      status='known-finding', note=_RD.get('err', '')[-300:])
        else:
            S.rec(name='c09.recompose_f64.instantiable', kind='encode', result='compile-error', status='not-encoded', mandatory=True, functions=['glm::recompose<double>'], note=_RD.get('err', '')[-300:])
            S.inconclusive.append('c09.recompose_f64 [glm::recompose<double> does not compile]')
    return _RD['ok']
def pnorm(x):
    """expanded polynomial form (so that cancellations such as p.t m - m p.t are syntactic)"""
    p_ = realtrig.poly_of(z3.simplify(rv(x))); return p_.term() if p_.t else ZERO
def job_decompose(t, base, axis, signs, skew, persp=0, pform='full', mandatory=True):
    """M = P(p) * T(t) * [B * R_axis(angle)] * K(skew) * diag(s): symbolic translation, angle (c, s with c^2+s^2 = 1), scale (sign pattern fixed per job), skew, perspective row; B a fixed
    rational rotation.  persp = +-1: M[3][3] = m with that sign and the parameters are written t = tau*m, s = sigma*m, p.w = m (1 - p.tau) (a bijection for m != 0) so that the code's
    normalisation by M[3][3] cancels against a variable.  Obligations: decompose reports success; the components compose (P * T * rotmat(q) * K * diag(scale)) to M / M[3][3];
    recompose(decompose(M)) == M / M[3][3] (float instantiation; identical to M when M[3][3] == 1, in particular without perspective)."""
    def run(S):
        eps = eps_of(t); Un = U; fn = 'decrec_' + t
        if t == 'f64' and not recompose_double_available(S): fn = 'decompose_' + t
        elif t == 'f64': Un = URD
        sc = list(z3.Reals('sx sy sz')); tr = list(z3.Reals('tx ty tz')); kk = list(z3.Reals('kx ky kz')) if skew else None
        c, s_ = z3.Reals('rc rs'); R = mmul(CUBE[base], {'x': Rx, 'y': Ry, 'z': Rz}[axis](c, s_)); pre = [c * c + s_ * s_ == 1]
        R = [[z3.simplify(x) for x in row] for row in R]
        pre += [sg * x > 0 for sg, x in zip(signs, sc)] + [signs[0] * signs[1] * signs[2] * sc[0] * sc[1] * sc[2] >= eps]
        nz = list(sc); m = ONE
        if persp:
            m = z3.Real('m'); pp = list(z3.Reals('px py pz')) if pform == 'full' else [ZERO, ZERO, z3.Real('pz')]; nz.append(m)
            M = trs_matrix(R, [x * m for x in sc], [x * m for x in tr], kk, pp + [m * (1 - dot(pp, tr))])
            Kk = [[ONE, kk[2], kk[1]], [ZERO, ONE, kk[0]], [ZERO, ZERO, ONE]] if skew else ident(3)
            Bn = mmul(mmul(R, Kk), diag(sc))                                      # upper-left block of M / m
            l3 = [sum_(pp[r] * Bn[r][k] for r in range(3)) for k in range(3)]      # last row of M / m
            pre += [persp * m >= eps, z3.Or(*[absr(x) >= eps for x in l3])]
        else:
            M = trs_matrix(R, sc, tr, kk)
        M = [[pnorm(x) for x in row] for row in M]; Mf = flat(M)
        ex = mkex(Un, 'real', 16)
        res = sym_call(Un, fn, ins=[Mf], mode='real', ex=ex)
        tag = '%s%s.%s%s%s' % (base, axis, ''.join('+' if x > 0 else '-' for x in signs), '.skew' if skew else '', '' if not persp else (('.persp+' if persp > 0 else '.persp-') + ('' if pform == 'full' else '(0,0,c,w)')))
        name = 'c09.%s.%s' % (fn, tag)
        bounds = 'M = %sT*(%s*R%s(angle))*%sdiag(s); signs of s: %s; |det| >= epsilon%s' % ('P*' if persp else '', base, axis, 'K(skew)*' if skew else '', signs,
                                                                                            '; sign of M[3][3]: %d, |M[3][3]| >= epsilon, some |M[k][3]/M[3][3]| >= epsilon' % persp if persp else '')
        C = Chain(S, name, pre, ex.axioms, nonzero=nz, functions=['w_' + fn]); C.mandatory = mandatory
        C.track('ok', [z3.If(res.outs[0][0] == 1, ONE, ZERO)]); C.track('comp', [rv(x) for x in res.outs[1]])
        if len(res.outs) > 2: C.track('rec', [rv(x) for x in res.outs[2]])
        C.track('sqrt-args', [a for a, y in ex.sqrt_log])
        C.cancel(); C.reduce(s_, 1 - c * c)
        for k in range(3):
            C.equate('scale%d' % k, ex.sqrt_log[k][1], C.g['sqrt-args'][k], sc[k] * sc[k], signs[k] * sc[k])
            C.cancel(); C.reduce(s_, 1 - c * c)
        C.bvfree(); C.conds(); C.reduce(s_, 1 - c * c)
        S.prove(name + '.ok', C.g['ok'][0] == 1, pre + select_axioms(C.ax, [C.g['ok'][0]]), timeout=S.cap(40, 120), solver='nra', kind='spec', functions=['w_' + fn], bounds=bounds, mandatory=mandatory, replay=lambda mdl: replay(mdl))
        # the orthonormal rows the quaternion is extracted from: column k of B*R up to the sign of s_k, all negated when the determinant is negative; case split over the extraction branches
        flip = -1 if signs[0] * signs[1] * signs[2] < 0 else 1
        Rp = [[signs[k] * flip * R[r][k] for k in range(3)] for r in range(3)]; d = [Rp[k][k] for k in range(3)]; trc = d[0] + d[1] + d[2]
        cases = [('trace>0', [trc > 0]), ('i=0', [trc <= 0, z3.Not(d[1] > d[0]), z3.Not(d[2] > d[0])]), ('i=1', [trc <= 0, d[1] > d[0], z3.Not(d[2] > d[1])]),
                 ('i=2', [trc <= 0, z3.Or(z3.And(d[1] > d[0], d[2] > d[1]), z3.And(z3.Not(d[1] > d[0]), d[2] > d[0]))])]
        invars = [c, s_] + sc + tr + (kk or []) + ([m] + [x for x in pp if not is_num(x)] if persp else [])
        def replay(mdl):
            """native run on the model's parameters: the components must compose, and recompose must rebuild, M / M[3][3] within a tolerance"""
            sub = [(v, z3.RealVal(str(z3val_to_fraction(mdl.eval(v, model_completion=True))))) for v in invars]
            vals = [float(z3val_to_fraction(z3.simplify(z3.substitute(x, *sub)))) for x in Mf]; w_ = 32 if t == 'f32' else 64
            nat = Un.call_native(fn, [[float_to_bits(v, w_) for v in vals]])
            fl = lambda row: [bits_to_float(b, w_) for b in row]
            cp = fl(nat[1]); info = {'unit': Un.name, 'fn': fn, 'inputs': [[hex(float_to_bits(v, w_)) for v in vals]], 'property': 'C09', 'native_ok': nat[0][0], 'components': cp}
            if nat[0][0] != 1: return 'reproduced', info
            mm = vals[15]; tol = 2e-3 if t == 'f32' else 1e-6; R_ = [z3.RealVal(repr(x)) for x in cp]
            Wn = trs_matrix(qrotmat(R_[3:7]), R_[0:3], R_[7:10], R_[10:13], R_[13:17]); got = [float(z3val_to_fraction(z3.simplify(x))) for x in flat(Wn)]
            outs = [('compose', got)] + ([('recompose', fl(nat[2]))] if len(nat) > 2 else [])
            for lab_, g_ in outs:
                for k_ in range(16):
                    if not (abs(g_[k_] * mm - vals[k_]) <= tol * max(1.0, abs(vals[k_]), abs(mm))): info['mismatch'] = [lab_, k_, g_[k_] * mm, vals[k_]]; return 'reproduced', info
            return 'not-reproduced', info
        S.prove(name + '.cases-exhaustive', z3.Or(*[z3.And(*cd) for _, cd in cases]), [], timeout=20, solver='z3', kind='lemma', functions=['(case split)'])
        for cn, cond in cases:
            r0, _, _, _ = S.query(pre + cond, 5, 'nra')
            if r0 == 'unsat':
                S.prove('%s.%s.unreachable' % (name, cn), z3.Not(z3.And(*cond)), pre, timeout=20, solver='nra', kind='lemma', functions=['w_' + fn], bounds=bounds + '; branch not reachable in this family', mandatory=mandatory); continue
            D = C.fork(cn, cond); D.conds(); D.reduce(s_, 1 - c * c)
            comp = D.g['comp']; hy = lambda g: D.pre + select_axioms(D.ax, [g])
            W = trs_matrix(qrotmat(comp[3:7]), comp[0:3], comp[7:10], comp[10:13], comp[13:17])
            goals = [('compose(decompose(M))[r%dc%d]' % (r, k), W[r][k] * m == M[r][k]) for r in range(4) for k in range(4)]
            if 'rec' in D.g: goals += [('recompose(decompose(M))[%d]' % k, D.g['rec'][k] * m == Mf[k]) for k in range(16)]
            for lab, g in goals:
                S.prove('%s.%s.%s' % (name, cn, lab), g, hy(g), timeout=S.cap(40, 120), solver='nra', kind='spec', functions=['w_' + fn], bounds=bounds + '; extraction branch ' + cn, mandatory=mandatory, replay=replay)
    return run

SIGNS = [(a, b, c) for a in (1, -1) for b in (1, -1) for c in (1, -1)]
def jobs(tier):
    q = tier == 'quick'; J = []
    for t in FT:
        J += [('elementary_' + t, job_elementary(t)), ('rna_' + t, job_rna(t)), ('transform2_' + t, job_transform2(t)), ('scalebias_' + t, job_scalebias(t)), ('2d_' + t, job_2d(t)), ('rotvec_' + t, job_rotvec(t)),
              ('orientation_' + t, job_orientation(t)), ('axisanglematrix_' + t, job_axisanglematrix(t)), ('axisangle_' + t, job_axisangle(t)), ('interpolate_' + t, job_interpolate(t))]
        for cfg in CFG:
            J += [('lookat_%s_%s' % (cfg, t), job_lookat(t, cfg)), ('lookat_dispatch_%s_%s' % (cfg, t), job_lookat_dispatch(t, cfg))]
    J.append(('lemmas', job_lemmas))
    nm = lambda b, a, sg, k, p, pf='full': '%s%s%s%s%s' % (b, a, ''.join('+' if x > 0 else '-' for x in sg), 'k' if k else '', '' if not p else ('p' if p > 0 else 'n') + ('' if pf == 'full' else 'z'))
    fam = [('I', 'z', (1, 1, 1), False, 0), ('I', 'z', (-1, 1, 1), True, 0), ('P', 'x', (1, -1, 1), True, 0), ('Y90', 'y', (-1, -1, -1), True, 0), ('I', 'z', (1, 1, 1), False, 1, 'z'), ('I', 'x', (1, 1, -1), False, -1, 'z')]
    for a in fam: J.append(('decompose_f32_' + nm(*a), job_decompose('f32', *a)))
    if not q:
        done = set(fam)
        for b in CUBE:
            for ax in 'xyz':
                for sg in SIGNS:
                    a = (b, ax, sg, True, 0)
                    if a not in done: J.append(('decompose_f32_' + nm(*a), job_decompose('f32', *a)))
        for a in (('I', 'z', (1, 1, 1), False, 1), ('I', 'y', (1, -1, 1), True, 1, 'z'), ('P', 'x', (1, -1, 1), True, -1)):
            J.append(('decompose_f32_' + nm(*a) + '_opt', job_decompose('f32', *a, mandatory=False)))
        for a in fam[:4]: J.append(('decompose_f64_' + nm(*a) + '_opt', job_decompose('f64', *a, mandatory=False)))
    else:
        J.append(('recompose_f64', lambda S: recompose_double_available(S)))
    return J
