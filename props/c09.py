"""C09 - translate/rotate/scale/shear/lookAt/decompose build the transforms they name
(ext/matrix_transform.inl, gtx/transform, transform2, rotate_vector, rotate_normalized_axis, matrix_transform_2d, matrix_interpolation, matrix_decompose)."""
from props.common import *
import math
from fractions import Fraction
import realtrig
from irsym import Exec

LEVEL = 'proof'
FT = {'f32': 'float', 'f64': 'double'}
INC = ['glm/glm.hpp', 'glm/ext/matrix_transform.hpp', 'glm/gtc/matrix_transform.hpp', 'glm/gtc/quaternion.hpp', 'glm/gtx/transform.hpp', 'glm/gtx/transform2.hpp',
       'glm/gtx/rotate_vector.hpp', 'glm/gtx/rotate_normalized_axis.hpp', 'glm/gtx/matrix_transform_2d.hpp', 'glm/gtx/matrix_decompose.hpp', 'glm/gtx/matrix_interpolation.hpp']

def add_lookat(Un):
    for t, c in FT.items():
        A = 'ldv<3,%s>(a), ldv<3,%s>(b), ldv<3,%s>(c)' % (c, c, c)
        for v in ('', 'RH', 'LH'):
            Un.add('lookAt%s_%s' % (v, t), [(c, 3), (c, 3), (c, 3)], [(c, 16)], 'stm(o, glm::lookAt%s(%s));' % (v, A))

U = Unit('c09', includes=INC)
add_lookat(U)
ULH = Unit('c09lh', includes=INC, defines=['GLM_FORCE_LEFT_HANDED'])
add_lookat(ULH)
URD = Unit('c09rd', includes=INC)
for t, c in FT.items():
    M4 = lambda p, c=c: 'ldm<4,4,%s>(%s)' % (c, p)
    M3 = lambda p, c=c: 'ldm<3,3,%s>(%s)' % (c, p)
    V3 = lambda p, c=c: 'ldv<3,%s>(%s)' % (c, p)
    V2 = lambda p, c=c: 'ldv<2,%s>(%s)' % (c, p)
    V4 = lambda p, c=c: 'ldv<4,%s>(%s)' % (c, p)
    # ---- ext/matrix_transform
    U.add('translate_' + t, [(c, 16), (c, 3)], [(c, 16)], 'stm(o, glm::translate(%s, %s));' % (M4('a'), V3('b')))
    U.add('rotate_' + t, [(c, 16), (c, 1), (c, 3)], [(c, 16), (c, 16)], 'stm(o, glm::rotate(%s, b[0], %s)); stm(o2, glm::rotate_slow(%s, b[0], %s));' % (M4('a'), V3('c'), M4('a'), V3('c')))
    U.add('scale_' + t, [(c, 16), (c, 3)], [(c, 16), (c, 16)], 'stm(o, glm::scale(%s, %s)); stm(o2, glm::scale_slow(%s, %s));' % (M4('a'), V3('b'), M4('a'), V3('b')))
    SH = '%s, %s, %s, %s, %s' % (M4('a'), V3('b'), V2('c'), V2('c+2'), V2('c+4'))
    U.add('shear_' + t, [(c, 16), (c, 3), (c, 6)], [(c, 16), (c, 16)], 'stm(o, glm::shear(%s)); stm(o2, glm::shear_slow(%s));' % (SH, SH))
    # ---- gtx/transform
    U.add('gtx_transform_' + t, [(c, 1), (c, 3)], [(c, 16), (c, 16), (c, 16)], 'stm(o, glm::translate(%s)); stm(o2, glm::rotate(a[0], %s)); stm(o3, glm::scale(%s));' % (V3('b'), V3('b'), V3('b')))
    # ---- gtx/rotate_normalized_axis
    U.add('rna_' + t, [(c, 16), (c, 1), (c, 3)], [(c, 16)], 'stm(o, glm::rotateNormalizedAxis(%s, b[0], %s));' % (M4('a'), V3('c')))
    U.add('rnaq_' + t, [(c, 4), (c, 1), (c, 3)], [(c, 4)], 'stq(o, glm::rotateNormalizedAxis(ldq<%s>(a), b[0], %s));' % (c, V3('c')))
    # ---- gtx/transform2
    U.add('shear2D_' + t, [(c, 9), (c, 1)], [(c, 9), (c, 9)], 'stm(o, glm::shearX2D(%s, b[0])); stm(o2, glm::shearY2D(%s, b[0]));' % (M3('a'), M3('a')))
    U.add('shear3D_' + t, [(c, 16), (c, 2)], [(c, 16), (c, 16), (c, 16)],
          'stm(o, glm::shearX3D(%s, b[0], b[1])); stm(o2, glm::shearY3D(%s, b[0], b[1])); stm(o3, glm::shearZ3D(%s, b[0], b[1]));' % (M4('a'), M4('a'), M4('a')))
    U.add('reflproj2D_' + t, [(c, 9), (c, 3)], [(c, 9), (c, 9)], 'stm(o, glm::reflect2D(%s, %s)); stm(o2, glm::proj2D(%s, %s));' % (M3('a'), V3('b'), M3('a'), V3('b')))
    U.add('reflproj3D_' + t, [(c, 16), (c, 3)], [(c, 16), (c, 16)], 'stm(o, glm::reflect3D(%s, %s)); stm(o2, glm::proj3D(%s, %s));' % (M4('a'), V3('b'), M4('a'), V3('b')))
    U.add('scaleBias_' + t, [(c, 2)], [(c, 16)], 'stm(o, glm::scaleBias<%s, glm::defaultp>(a[0], a[1]));' % c)
    U.add('scaleBiasM_' + t, [(c, 16), (c, 2)], [(c, 16)], 'stm(o, glm::scaleBias(%s, b[0], b[1]));' % M4('a'))
    # ---- gtx/matrix_transform_2d
    U.add('tf2d_' + t, [(c, 9), (c, 2), (c, 1)], [(c, 9), (c, 9), (c, 9)],
          'stm(o, glm::translate(%s, %s)); stm(o2, glm::rotate(%s, c[0])); stm(o3, glm::scale(%s, %s));' % (M3('a'), V2('b'), M3('a'), M3('a'), V2('b')))
    U.add('shear2d_' + t, [(c, 9), (c, 1)], [(c, 9), (c, 9)], 'stm(o, glm::shearX(%s, b[0])); stm(o2, glm::shearY(%s, b[0]));' % (M3('a'), M3('a')))
    # ---- gtx/rotate_vector
    U.add('rv2_' + t, [(c, 2), (c, 1)], [(c, 2)], 'stv(o, glm::rotate(%s, b[0]));' % V2('a'))
    U.add('rvn_' + t, [(c, 4), (c, 1), (c, 3)], [(c, 3), (c, 4)], 'stv(o, glm::rotate(%s, b[0], %s)); stv(o2, glm::rotate(%s, b[0], %s));' % (V3('a'), V3('c'), V4('a'), V3('c')))
    U.add('rvxyz3_' + t, [(c, 3), (c, 1)], [(c, 3), (c, 3), (c, 3)], 'stv(o, glm::rotateX(%s, b[0])); stv(o2, glm::rotateY(%s, b[0])); stv(o3, glm::rotateZ(%s, b[0]));' % (V3('a'), V3('a'), V3('a')))
    U.add('rvxyz4_' + t, [(c, 4), (c, 1)], [(c, 4), (c, 4), (c, 4)], 'stv(o, glm::rotateX(%s, b[0])); stv(o2, glm::rotateY(%s, b[0])); stv(o3, glm::rotateZ(%s, b[0]));' % (V4('a'), V4('a'), V4('a')))
    U.add('orientation_' + t, [(c, 3), (c, 3)], [(c, 16)], 'stm(o, glm::orientation(%s, %s));' % (V3('a'), V3('b')))
    # ---- gtx/matrix_interpolation
    U.add('axisAngleMatrix_' + t, [(c, 3), (c, 1)], [(c, 16), (c, 16)], 'stm(o, glm::axisAngleMatrix(%s, b[0])); stm(o2, glm::rotate(glm::mat<4,4,%s>(%s(1)), b[0], %s));' % (V3('a'), c, c, V3('a')))
    U.add('extractRot_' + t, [(c, 16)], [(c, 16)], 'stm(o, glm::extractMatrixRotation(%s));' % M4('a'))
    U.add('axisAngle_' + t, [(c, 16)], [(c, 3), (c, 1), (c, 16)],
          'glm::vec<3,%s> ax(0); %s an = 0; glm::axisAngle(%s, ax, an); stv(o, ax); o2[0] = an; stm(o3, glm::axisAngleMatrix(ax, an));' % (c, c, M4('a')))
    U.add('interpolate_' + t, [(c, 16), (c, 16), (c, 1)], [(c, 16)], 'stm(o, glm::interpolate(%s, %s, c[0]));' % (M4('a'), M4('b')))
    # ---- gtx/matrix_decompose: components travel as [scale(3), orientation(w,x,y,z), translation(3), skew(3), perspective(4)]
    DEC = ('glm::vec<3,%s> sc(0), tr(0), sk(0); glm::qua<%s> q(1, 0, 0, 0); glm::vec<4,%s> pe(0); bool ok = glm::decompose(%s, sc, q, tr, sk, pe);'
           ' o[0] = ok ? 1 : 0; stv(o2, sc); stq(o2 + 3, q); stv(o2 + 7, tr); stv(o2 + 10, sk); stv(o2 + 13, pe);' % (c, c, c, M4('a')))
    U.add('decompose_' + t, [(c, 16)], [('int', 1), (c, 17)], DEC)
    # recompose<double> hard-codes glm::mat4 and does not compile in this tree (KF-C09-recompose-double-not-instantiable): its wrappers live in a unit of their own, compiled on demand
    Ur = U if t == 'f32' else URD
    Ur.add('decrec_' + t, [(c, 16)], [('int', 1), (c, 17), (c, 16)], DEC + ' stm(o3, glm::recompose(sc, q, tr, sk, pe));')
    Ur.add('recompose_' + t, [(c, 17)], [(c, 16)], 'stm(o, glm::recompose(%s, ldq<%s>(a + 3), %s, %s, %s));' % (V3('a'), c, V3('a + 7'), V3('a + 10'), V4('a + 13')))
def units(tier): return [U, ULH]

# ------------------------------------------------------------------------------------------------ specification side (pure mathematics; nothing shared with glm)
ZERO, ONE = z3.RealVal(0), z3.RealVal(1)
def rv(x): return x.r if isinstance(x, RV) else (z3.RealVal(x) if isinstance(x, int) else x)
def rows(o, C, R):
    """array (column-major, o[c*R+r]) -> rows[r][c] of real terms"""
    return [[rv(o[c * R + r]) for c in range(C)] for r in range(R)]
def sum_(xs):
    xs = list(xs); r = xs[0]
    for x in xs[1:]: r = r + x
    return r
def mmul(A, B): return [[sum_(rv(A[r][k]) * rv(B[k][c]) for k in range(len(B))) for c in range(len(B[0]))] for r in range(len(A))]
def mvec(A, v): return [sum_(rv(A[r][k]) * rv(v[k]) for k in range(len(v))) for r in range(len(A))]
def transpose(A): return [[A[r][c] for r in range(len(A))] for c in range(len(A[0]))]
def ident(n): return [[ONE if r == c else ZERO for c in range(n)] for r in range(n)]
def embed(m, n=4):
    """k x k linear map as the n x n matrix acting on the first k coordinates"""
    k = len(m); return [[rv(m[r][c]) if r < k and c < k else (ONE if r == c else ZERO) for c in range(n)] for r in range(n)]
def dot(u, v): return sum_(rv(x) * rv(y) for x, y in zip(u, v))
def cross(a, b): return [a[1] * b[2] - a[2] * b[1], a[2] * b[0] - a[0] * b[2], a[0] * b[1] - a[1] * b[0]]
def norm2(v): return dot(v, v)
def det3(m): return dot(m[0], cross(m[1], m[2]))
def mat_goals(tag, got, want, scale=None):
    """entry-wise equality got == want; with scale: got*scale == want (want already carries the factor)"""
    g = []
    for r in range(len(want)):
        for c in range(len(want[0])):
            l = rv(got[r][c]); g.append(('%s[r%dc%d]' % (tag, r, c), REq(l if scale is None else l * scale, rv(want[r][c]))))
    return g
def vec_goals(tag, got, want, scale=None):
    return [('%s[%d]' % (tag, k), REq(rv(x) if scale is None else rv(x) * scale, rv(w))) for k, (x, w) in enumerate(zip(got, want))]
def translation(v):
    m = ident(len(v) + 1)
    for k, x in enumerate(v): m[k][len(v)] = x
    return m
def diag(v): return [[rv(v[r]) if r == c else ZERO for c in range(len(v))] for r in range(len(v))]
def rodrigues_scaled(cs, sn, v, L):
    """|v|^2 * (rotation by the angle with cosine cs / sine sn about v/|v|),  L = |v|:  cs |v|^2 I + (1-cs) v v^T + sn |v| [v]x"""
    L2 = norm2(v); K = [[ZERO, -v[2], v[1]], [v[2], ZERO, -v[0]], [-v[1], v[0], ZERO]]
    return [[(cs * L2 if r == c else ZERO) + (1 - cs) * v[r] * v[c] + sn * L * K[r][c] for c in range(3)] for r in range(3)]
def Rx(c, s): return [[ONE, ZERO, ZERO], [ZERO, c, -s], [ZERO, s, c]]
def Ry(c, s): return [[c, ZERO, s], [ZERO, ONE, ZERO], [-s, ZERO, c]]
def Rz(c, s): return [[c, -s, ZERO], [s, c, ZERO], [ZERO, ZERO, ONE]]
def shear_doc(p, l):
    """the matrix documented for shear() in ext/matrix_transform.hpp: x' = x + l_xy*y + l_xz*z - (l_xy+l_xz)*p_x, and cyclically"""
    lxy, lxz, lyx, lyz, lzx, lzy = l
    return [[ONE, lxy, lxz, -(lxy + lxz) * p[0]], [lyx, ONE, lyz, -(lyx + lyz) * p[1]], [lzx, lzy, ONE, -(lzx + lzy) * p[2]], [ZERO, ZERO, ZERO, ONE]]
def qmul(p, q):
    pw, px, py, pz = p; qw, qx, qy, qz = q
    return [pw * qw - px * qx - py * qy - pz * qz, pw * qx + px * qw + py * qz - pz * qy, pw * qy - px * qz + py * qw + pz * qx, pw * qz + px * qy - py * qx + pz * qw]
def qconj(q): return [q[0], -q[1], -q[2], -q[3]]
def qrotmat(q):
    """3x3 matrix of v -> q (0,v) q* (a rotation when |q| = 1), rows[r][c]"""
    cols = []
    for c in range(3):
        e = [ZERO] + [ONE if i == c else ZERO for i in range(3)]
        cols.append(qmul(qmul(q, e), qconj(q))[1:])
    return [[cols[c][r] for c in range(3)] for r in range(3)]

def is_num(t):
    t = z3.simplify(t); return z3.is_rational_value(t) or z3.is_algebraic_value(t) or z3.is_int_value(t)
class Ctx:
    """specification context bound to the executor that ran the code: sin/cos of a specification angle is the executor's table variable (Ackermannised, shared with the code) when
    symbolic and the libm value on numeric replay; sqrt(X) is a specification-side variable L with L >= 0, L*L == X (hypotheses collected in .hyps)"""
    def __init__(s, ex): s.ex = ex; s.hyps = []; s.sq = {}
    def _f(s, fn, x):
        x = rv(x)
        if is_num(x): return z3.RealVal(repr(getattr(math, fn)(float(z3val_to_fraction(z3.simplify(x))))))
        return realtrig.trig_var(s.ex, fn, (x,))
    def sin(s, x): return s._f('sin', x)
    def cos(s, x): return s._f('cos', x)
    @property
    def pi(s): return realtrig.real_pi(s.ex)
    def sqrt(s, X):
        X = z3.simplify(rv(X))
        if is_num(X): return z3.RealVal(repr(math.sqrt(max(0.0, float(z3val_to_fraction(X))))))
        k = X.sexpr()
        if k not in s.sq:
            L = z3.Real('spec!sqrt%d' % len(s.sq)); s.sq[k] = L; s.hyps += [L >= 0, L * L == X]
        return s.sq[k]
def mkex(unit, mode, unwind):
    ex = Exec(unit.module(), fmode='real' if mode == 'real' else 'fp', unwind=unwind)
    if mode == 'real':
        realtrig.map_pi_literals(ex); ex.trig_domain = True; ex.model_inputs_hook = realtrig.model_inputs_hook
    return ex
def chk(S, unit, fn, spec, pre=None, setup=None, **kw):
    """check_fn in real mode; spec(i, o, T) gets the Ctx of the executor that ran the code; setup(res, T) may add (true) lemma instances as hypotheses"""
    box = {}
    def xh(res):
        T = box['T'] = Ctx(res.ex); box['res'] = res
        h = list(setup(res, T) or []) if setup else []
        spec(res.ins, res.outs, T)              # dry run: registers the specification-side sqrt variables and trig table entries
        if kw.get('mutant'): kw['mutant'](res.ins, res.outs, T)
        return h + T.hyps                       # (trig facts created by the dry run reach the query through res.axioms, which check_fn reads afterwards)
    kw2 = dict(kw); kw2.setdefault('mode', 'real'); kw2.setdefault('timeout', S.cap(40, 120)); kw2.setdefault('solver', 'nra')
    if kw2.get('mutant'):
        mu = kw2['mutant']; kw2['mutant'] = lambda i, o: mu(i, o, box['T'])
    return S.check_fn(unit, fn, lambda i, o: spec(i, o, box['T']), pre, extra_hyps=xh, ex=mkex, **kw2)

# ------------------------------------------------------------------------------------------------ jobs: elementary transforms (ext/matrix_transform.inl, gtx/transform)
def M4of(a): return rows(a, 4, 4)
def M3of(a): return rows(a, 3, 3)
def axis_nz(v): return norm2(v) > 0
def job_elementary(t):
    def run(S):
        # translate(M, v) == M * T(v)
        chk(S, U, 'translate_' + t, lambda i, o, T: mat_goals('translate==M*T(v)', M4of(o[0]), mmul(M4of(i[0]), translation(i[1]))), bounds='all M, v',
            mutant=lambda i, o, T: [('T(v)*M', REq(rv(o[0][12]), mmul(translation(i[1]), M4of(i[0]))[0][3]))])
        # rotate(M, a, v) == M * Rodrigues(a, v/|v|): both sides multiplied by |v|^2
        def spec_rot(i, o, T):
            Mx, a, v = M4of(i[0]), i[1][0], i[2]; L = T.sqrt(norm2(v)); L2 = norm2(v)
            W = mmul(Mx, embed(rodrigues_scaled(T.cos(a), T.sin(a), v, L)))
            # embed() puts 1 on the diagonal of the 4th row/column; the scaled product needs |v|^2 there
            W = [[W[r][c] if c < 3 else Mx[r][3] * L2 for c in range(4)] for r in range(4)]
            return mat_goals('rotate*|v|^2==M*Rodrigues*|v|^2', M4of(o[0]), W, L2) + mat_goals('rotate_slow*|v|^2==M*Rodrigues*|v|^2', M4of(o[1]), W, L2)
        def mut_rot(i, o, T):
            Mx, a, v = M4of(i[0]), i[1][0], i[2]; L = T.sqrt(norm2(v)); L2 = norm2(v)
            W = mmul(Mx, embed(rodrigues_scaled(T.cos(a), -T.sin(a), v, L)))
            return [('opposite-sense', REq(rv(o[0][1]) * L2, W[1][0]))]
        chk(S, U, 'rotate_' + t, spec_rot, lambda i: [axis_nz(i[2])], bounds='all M, all angles (sin/cos Ackermannised), all axes v != 0', mutant=mut_rot)
        chk(S, U, 'scale_' + t, lambda i, o, T: mat_goals('scale==M*diag(v,1)', M4of(o[0]), mmul(M4of(i[0]), embed(diag(i[1])))) + mat_goals('scale_slow==M*diag(v,1)', M4of(o[1]), mmul(M4of(i[0]), embed(diag(i[1])))),
            bounds='all M, v', mutant=lambda i, o, T: [('diag*M', REq(rv(o[0][1]), mmul(embed(diag(i[1])), M4of(i[0]))[1][0]))])
        def spec_sh(i, o, T):
            W = mmul(M4of(i[0]), shear_doc(i[1], i[2]))
            return mat_goals('shear==M*Shear(p,l)', M4of(o[0]), W) + mat_goals('shear_slow==M*Shear(p,l)', M4of(o[1]), W)
        chk(S, U, 'shear_' + t, spec_sh, bounds='all M, p, l_x, l_y, l_z; Shear(p,l) as documented in ext/matrix_transform.hpp',
            mutant=lambda i, o, T: [('transposed-shear', REq(rv(o[0][1]), mmul(M4of(i[0]), transpose(shear_doc(i[1], i[2])))[1][0]))])
        # gtx/transform: the one-argument builders are the elementary matrices themselves
        def spec_gtx(i, o, T):
            a, v = i[0][0], i[1]; L = T.sqrt(norm2(v)); L2 = norm2(v)
            W = embed(rodrigues_scaled(T.cos(a), T.sin(a), v, L)); W[3][3] = L2
            return (mat_goals('translate(v)==T(v)', M4of(o[0]), translation(v)) + mat_goals('rotate(a,v)*|v|^2==Rodrigues*|v|^2', M4of(o[1]), W, L2)
                    + mat_goals('scale(v)==diag(v,1)', M4of(o[2]), embed(diag(v))))
        chk(S, U, 'gtx_transform_' + t, spec_gtx, lambda i: [axis_nz(i[1])], bounds='all angles, all v != 0')
    return run

def jobs(tier):
    J = []
    for t in FT:
        J += [('elementary_' + t, job_elementary(t))]
    return J
